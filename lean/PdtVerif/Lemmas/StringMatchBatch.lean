import PdtVerif.Lemmas.StringMatch
import PdtVerif.Model.StringMatchBatch
/-!
# Lemmas for C01, batch level: the tensor-level model is the per-column model on every column

`Model/StringMatchBatch.lean` follows `_string_matching` on whole `(L, N)` tensors (row-wise
operations vectorised over the batch, `del_mat` with explicit `+inf` entries, `batch_first` as a
transposition). Here:

* `delMat_min_eq`, `delMatStepB_finite` — the minimum over ALL entries of a line of `del_mat + v`,
  the `+inf` ones included, is finite and equals the restricted minimum `delMatEntry` (over `j ≤ i`)
  of the per-column model;
* `delMatStepB_col`, `candB_col`, `stepB_col` — one loop iteration restricted to column `n` is the
  per-column iteration on column `n`;
* `loopRowsB_col` — the same for the whole loop (with the shape invariant `RowOK`);
* `lensFromEosB_getD`, `seqLensB_getD` — `_lens_from_eos` as written (cumsum / first hit) gives, in
  entry `n`, the first-eos index / the `include_eos` length of column `n`;
* `editDistanceB_getElem?`, `prefixEditDistancesB_col` — entry / column `n` of the batched results;
* `editDistanceT_eq`, `prefixEditDistancesT_eq`, `*_error_iff`, `editDistanceT_batch_first` — whole
  tensors in either layout, the batch-size error, `batch_first` = transposition.
-/
set_option linter.unusedSectionVars false
set_option linter.unusedVariables false
set_option linter.unusedSimpArgs false

namespace PdtVerif.StringMatch
open PdtVerif.Lev

variable {α : Type} [DecidableEq α]

/-! ### Lists of rows -/

theorem getD_zipWith' {β γ δ : Type} (f : β → γ → δ) (a : List β) (b : List γ) (n : Nat)
    (ha : n < a.length) (hb : n < b.length) (d : δ) (da : β) (db : γ) :
    (List.zipWith f a b).getD n d = f (a.getD n da) (b.getD n db) := by
  simp [List.getD_eq_getElem?_getD, List.getElem?_zipWith, List.getElem?_eq_getElem ha,
    List.getElem?_eq_getElem hb]

/-- All rows have width `N`. -/
def Wide {β : Type} (N : Nat) (M : List (List β)) : Prop := ∀ r ∈ M, r.length = N

theorem colOf_length {β : Type} (M : List (List β)) (n : Nat) (d : β) : (colOf M n d).length = M.length := by
  simp [colOf]

theorem colOf_getElem? {β : Type} (M : List (List β)) (n : Nat) (d : β) (i : Nat) :
    (colOf M n d)[i]? = (M[i]?).map (fun r => r.getD n d) := by
  simp [colOf]

/-- column of `M.map (fun r => zipWith f r w)` (a vector over the batch broadcast down the rows) -/
theorem colOf_map_zipWith {β γ δ : Type} (f : β → γ → δ) (M : List (List β)) (w : List γ) (N n : Nat)
    (hM : Wide N M) (hw : w.length = N) (hn : n < N) (d : δ) (dM : β) (dw : γ) :
    colOf (M.map (fun r => List.zipWith f r w)) n d = (colOf M n dM).map (fun v => f v (w.getD n dw)) := by
  simp only [colOf, List.map_map]
  apply List.map_congr_left
  intro r hr
  simp only [Function.comp]
  exact getD_zipWith' f r w n (by rw [hM r hr]; exact hn) (by omega) d dM dw

/-- column of a row-by-row `zipWith` of two blocks -/
theorem colOf_zipWith_zipWith {β γ δ : Type} (f : β → γ → δ) (A : List (List β)) (B : List (List γ)) (N n : Nat)
    (hA : Wide N A) (hB : Wide N B) (hn : n < N) (d : δ) (dA : β) (dB : γ) :
    colOf (List.zipWith (fun l q => List.zipWith f l q) A B) n d
      = List.zipWith f (colOf A n dA) (colOf B n dB) := by
  induction A generalizing B with
  | nil => simp [colOf]
  | cons a A ih =>
    cases B with
    | nil => simp [colOf]
    | cons b B =>
      have ha : a.length = N := hA a (by simp)
      have hb : b.length = N := hB b (by simp)
      have := ih B (fun r hr => hA r (by simp [hr])) (fun r hr => hB r (by simp [hr]))
      simp only [colOf, List.zipWith_cons_cons, List.map_cons] at this ⊢
      rw [this, getD_zipWith' f a b n (by omega) (by omega) d dA dB]

/-! ### Minimum with explicit `+∞` -/

theorem emin_right_comm (a x y : ERat) : emin (emin a x) y = emin (emin a y) x := by
  cases a <;> cases x <;> cases y <;> simp only [emin]
  · rw [min_comm]
  · rw [min_right_comm]

theorem emin_none_right (a : ERat) : emin a none = a := by cases a <;> rfl

/-- moving one more finite candidate to the front of a running minimum -/
theorem foldl_emin_init (g : Nat → ERat) (acc b : ERat) (l : List Nat) :
    emin (l.foldl (fun a j => emin a (g j)) acc) b = l.foldl (fun a j => emin a (g j)) (emin acc b) := by
  induction l generalizing acc with
  | nil => rfl
  | cons j l ih => simp only [List.foldl_cons]; rw [ih, emin_right_comm]

theorem foldl_emin_some (g : Nat → Rat) (a : Rat) (l : List Nat) :
    l.foldl (fun acc j => emin acc (some (g j))) (some a) = some (l.foldl (fun acc j => min acc (g j)) a) := by
  induction l generalizing a with
  | nil => rfl
  | cons j l ih =>
    simp only [List.foldl_cons]
    have : emin (some a) (some (g j)) = some (min a (g j)) := rfl
    rw [this, ih]

/-- An infinite candidate never changes the minimum. -/
theorem foldl_emin_skip (g : Nat → ERat) (acc : ERat) (l : List Nat) (h : ∀ j ∈ l, g j = none) :
    l.foldl (fun a j => emin a (g j)) acc = acc := by
  induction l generalizing acc with
  | nil => rfl
  | cons j l ih =>
    simp only [List.foldl_cons]
    rw [h j (by simp), emin_none_right]
    exact ih acc (fun k hk => h k (by simp [hk]))

theorem foldl_congr_mem {β γ : Type} (f g : β → γ → β) (a : β) (l : List γ)
    (h : ∀ a, ∀ j ∈ l, f a j = g a j) : l.foldl f a = l.foldl g a := by
  induction l generalizing a with
  | nil => rfl
  | cons j l ih =>
    simp only [List.foldl_cons]
    rw [h a j (by simp)]
    exact ih _ (fun a k hk => h a k (by simp [hk]))

/-- **The masked minimum.** The minimum over ALL `R1` entries of line `i` of `del_mat + v`
(`+∞` above the diagonal) is finite and equals the minimum over `j ≤ i` that the per-column model
takes (`delMatEntry`). -/
theorem delMat_min_eq (d : Rat) (w : List Rat) (R1 i : Nat) (hi : i < R1) :
    (List.range R1).foldl
        (fun acc (j : Nat) => emin acc (eadd (eadd (some ((i : Rat) * d - (j : Rat) * d)) (if i < j then none else some 0))
          (some (w.getD j 0)))) none
      = some (delMatEntry d w i) := by
  obtain ⟨k, rfl⟩ : ∃ k, R1 = (i + 1) + k := ⟨R1 - (i + 1), by omega⟩
  rw [List.range_add, List.foldl_append]
  rw [foldl_emin_skip (fun (j : Nat) => eadd (eadd (some ((i : Rat) * d - (j : Rat) * d)) (if i < j then none else some 0))
          (some (w.getD j 0)))]
  · rw [List.range_succ, List.foldl_append, List.foldl_cons, List.foldl_nil]
    have hfin : ∀ acc, (List.range i).foldl
        (fun acc (j : Nat) => emin acc (eadd (eadd (some ((i : Rat) * d - (j : Rat) * d)) (if i < j then none else some 0))
          (some (w.getD j 0)))) acc
        = (List.range i).foldl (fun acc (j : Nat) => emin acc (some (((i : Rat) * d - (j : Rat) * d) + w.getD j 0))) acc := by
      intro acc
      apply foldl_congr_mem
      intro a j hj
      have : ¬ i < j := by have := List.mem_range.mp hj; omega
      simp [this, eadd]
    rw [hfin]
    have hdiag : eadd (eadd (some ((i : Rat) * d - (i : Rat) * d)) (if i < i then none else some 0)) (some (w.getD i 0))
        = some (((i : Rat) * d - (i : Rat) * d) + w.getD i 0) := by simp [eadd]
    rw [hdiag, foldl_emin_init (fun (j : Nat) => some (((i : Rat) * d - (j : Rat) * d) + w.getD j 0))]
    have hn : ∀ x : Rat, emin none (some x) = some x := fun _ => rfl
    rw [hn, foldl_emin_some]
    rfl
  · intro j hj
    obtain ⟨m, _, rfl⟩ := List.mem_map.mp hj
    have : i < i + 1 + m := by omega
    simp [this, eadd]


/-! ### `(del_mat + row).min(1)` on the batch, column by column -/

theorem foldl_zipWith_emin_getElem? (N n : Nat) (hn : n < N) (Ms : List (List ERat)) (hW : Wide N Ms)
    (init : List ERat) (hinit : init.length = N) :
    (Ms.foldl (List.zipWith emin) init)[n]? = some ((colOf Ms n none).foldl emin (init.getD n none)) := by
  induction Ms generalizing init with
  | nil =>
    simp [colOf, List.getD_eq_getElem?_getD, List.getElem?_eq_getElem (by omega : n < init.length)]
  | cons r Ms ih =>
    have hr : r.length = N := hW r (by simp)
    simp only [List.foldl_cons, colOf, List.map_cons]
    rw [ih (fun q hq => hW q (by simp [hq])) _ (by simp [hinit, hr]),
      getD_zipWith' emin init r n (by omega) (by omega) none none none]
    rfl

theorem minRows_getElem? (N n : Nat) (hn : n < N) (Ms : List (List ERat)) (hW : Wide N Ms) :
    (minRows N Ms)[n]? = some ((colOf Ms n none).foldl emin none) := by
  unfold minRows
  rw [foldl_zipWith_emin_getElem? N n hn Ms hW _ (by simp)]
  simp [List.getD_eq_getElem?_getD, hn]

theorem colOf_zipWith_map {β γ δ : Type} (g : β → γ → δ) (L : List β) (v : List (List γ)) (N n : Nat)
    (hv : Wide N v) (hn : n < N) (d : δ) (dv : γ) :
    colOf (List.zipWith (fun e vr => vr.map (g e)) L v) n d = List.zipWith g L (colOf v n dv) := by
  induction L generalizing v with
  | nil => simp [colOf]
  | cons e L ih =>
    cases v with
    | nil => simp [colOf]
    | cons vr v =>
      have hvr : vr.length = N := hv vr (by simp)
      have := ih v (fun r hr => hv r (by simp [hr]))
      simp only [colOf, List.zipWith_cons_cons, List.map_cons] at this ⊢
      rw [this]
      congr 1
      simp [List.getD_eq_getElem?_getD, List.getElem?_eq_getElem (by omega : n < vr.length)]

theorem zipWith_range_map {β γ : Type} (G : β → Rat → γ) (E : Nat → β) (w : List Rat) (R : Nat) (hw : w.length = R) :
    List.zipWith G ((List.range R).map E) w = (List.range R).map (fun j => G (E j) (w.getD j 0)) := by
  apply List.ext_getElem?
  intro j
  by_cases hj : j < R
  · simp [List.getElem?_zipWith, List.getElem?_range hj, List.getD_eq_getElem?_getD,
      List.getElem?_eq_getElem (by omega : j < w.length)]
  · rw [List.getElem?_eq_none (by simp; omega), List.getElem?_eq_none (by simp; omega)]

/-- line `i` of `del_mat` -/
def delMatLine (d : Rat) (R1 i : Nat) : List ERat :=
  (List.range R1).map (fun (j : Nat) => eadd (some ((i : Rat) * d - (j : Rat) * d)) (if i < j then none else some 0))

theorem delMat_eq (d : Rat) (R1 : Nat) : delMat d R1 = (List.range R1).map (delMatLine d R1) := rfl

/-- The minimum of line `i` over the whole batch, BEFORE it is read back as a finite number:
in column `n` it is the finite value `delMatEntry` of column `n` — never `+∞`. -/
theorem delMatStepB_finite (d : Rat) (N n : Nat) (hn : n < N) (v : List (List Rat)) (hv : Wide N v)
    (i : Nat) (hi : i < v.length) :
    (minRows N (List.zipWith (fun (e : ERat) (vr : List Rat) => vr.map (fun x => eadd e (some x)))
        (delMatLine d v.length i) v))[n]?
      = some (some (delMatEntry d (colOf v n 0) i)) := by
  have hB : Wide N (List.zipWith (fun (e : ERat) (vr : List Rat) => vr.map (fun x => eadd e (some x)))
      (delMatLine d v.length i) v) := by
    intro r hr
    rw [List.mem_iff_getElem?] at hr
    obtain ⟨k, hk⟩ := hr
    rw [List.getElem?_zipWith] at hk
    cases h1 : (delMatLine d v.length i)[k]? with
    | none => simp [h1] at hk
    | some e =>
      cases h2 : v[k]? with
      | none => simp [h1, h2] at hk
      | some vr =>
        simp [h1, h2] at hk
        subst hk
        simp [hv vr (List.mem_of_getElem? h2)]
  rw [minRows_getElem? N n hn _ hB,
    colOf_zipWith_map (fun (e : ERat) (x : Rat) => eadd e (some x)) _ v N n hv hn none 0]
  unfold delMatLine
  rw [zipWith_range_map (fun (e : ERat) (x : Rat) => eadd e (some x)) _ (colOf v n 0) v.length (colOf_length v n 0),
    List.foldl_map]
  rw [delMat_min_eq d (colOf v n 0) v.length i hi]

/-- Column `n` of the batched deletion minimum is the per-column `delMatStep` of column `n`. -/
theorem delMatStepB_col (d : Rat) (N n : Nat) (hn : n < N) (v : List (List Rat)) (hv : Wide N v) :
    colOf (delMatStepB d N v) n 0 = delMatStep d (colOf v n 0) := by
  unfold delMatStepB delMatStep
  rw [delMat_eq, colOf_length]
  simp only [colOf, List.map_map]
  apply List.map_congr_left
  intro i hi
  have hi' : i < v.length := List.mem_range.mp hi
  have := delMatStepB_finite d N n hn v hv i hi'
  simp only [Function.comp, List.getD_eq_getElem?_getD, List.getElem?_map, this, colOf]
  rfl


/-! ### Shapes -/

theorem Wide.tail {β : Type} {N : Nat} {a : List β} {M : List (List β)} (h : Wide N (a :: M)) : Wide N M :=
  fun r hr => h r (by simp [hr])

theorem Wide.head {β : Type} {N : Nat} {a : List β} {M : List (List β)} (h : Wide N (a :: M)) : a.length = N :=
  h a (by simp)

theorem Wide.cons {β : Type} {N : Nat} {a : List β} {M : List (List β)} (ha : a.length = N) (h : Wide N M) :
    Wide N (a :: M) := by
  intro r hr
  rcases List.mem_cons.mp hr with rfl | hr
  · exact ha
  · exact h r hr

theorem wide_map {β γ : Type} {N : Nat} (F : List β → List γ) (M : List (List β)) (hM : Wide N M)
    (hF : ∀ r, r.length = N → (F r).length = N) : Wide N (M.map F) := by
  intro r hr
  obtain ⟨q, hq, rfl⟩ := List.mem_map.mp hr
  exact hF q (hM q hq)

theorem wide_zipWith {β γ δ : Type} {N : Nat} (F : List β → List γ → List δ) (A : List (List β)) (B : List (List γ))
    (hA : Wide N A) (hB : Wide N B) (hF : ∀ a b, a.length = N → b.length = N → (F a b).length = N) :
    Wide N (List.zipWith F A B) := by
  induction A generalizing B with
  | nil => intro r hr; simp at hr
  | cons a A ih =>
    cases B with
    | nil => intro r hr; simp at hr
    | cons b B =>
      rw [List.zipWith_cons_cons]
      exact Wide.cons (hF a b hA.head hB.head) (ih B hA.tail hB.tail)

theorem colOf_zipWith_rows {β γ δ : Type} (F : List β → List γ → List δ) (f : β → γ → δ) (N n : Nat)
    (d : δ) (dA : β) (dB : γ)
    (hF : ∀ a b, a.length = N → b.length = N → (F a b).getD n d = f (a.getD n dA) (b.getD n dB))
    (A : List (List β)) (B : List (List γ)) (hA : Wide N A) (hB : Wide N B) :
    colOf (List.zipWith F A B) n d = List.zipWith f (colOf A n dA) (colOf B n dB) := by
  induction A generalizing B with
  | nil => simp [colOf]
  | cons a A ih =>
    cases B with
    | nil => simp [colOf]
    | cons b B =>
      have := ih B hA.tail hB.tail
      simp only [colOf, List.zipWith_cons_cons, List.map_cons] at this ⊢
      rw [this, hF a b hA.head hB.head]

theorem whereV_length (p : List Bool) (a b : List Rat) :
    (whereV p a b).length = min p.length (min a.length b.length) := by
  induction p generalizing a b with
  | nil => simp [whereV]
  | cons x p ih =>
    cases a with
    | nil => simp [whereV]
    | cons y a =>
      cases b with
      | nil => simp [whereV]
      | cons z b => simp [whereV, ih]

theorem whereV_getD (p : List Bool) (a b : List Rat) (n : Nat) (hp : n < p.length) (ha : n < a.length)
    (hb : n < b.length) :
    (whereV p a b).getD n 0 = if p.getD n false then a.getD n 0 else b.getD n 0 := by
  induction p generalizing a b n with
  | nil => simp at hp
  | cons x p ih =>
    cases a with
    | nil => simp at ha
    | cons y a =>
      cases b with
      | nil => simp at hb
      | cons z b =>
        cases n with
        | zero => simp [whereV]
        | succ n =>
          simp only [whereV, List.getD_cons_succ]
          exact ih a b n (by simpa using hp) (by simpa using ha) (by simpa using hb)

theorem foldl_zipWith_emin_length (N : Nat) (Ms : List (List ERat)) (hW : Wide N Ms)
    (init : List ERat) (hinit : init.length = N) : (Ms.foldl (List.zipWith emin) init).length = N := by
  induction Ms generalizing init with
  | nil => simpa using hinit
  | cons r Ms ih =>
    simp only [List.foldl_cons]
    exact ih hW.tail _ (by simp [hinit, hW.head])

theorem delMatStepB_length (d : Rat) (N : Nat) (v : List (List Rat)) : (delMatStepB d N v).length = v.length := by
  simp [delMatStepB, delMat]

theorem wide_zipWith_right {β γ δ : Type} {N : Nat} (F : β → List γ → List δ) (L : List β) (B : List (List γ))
    (hB : Wide N B) (hF : ∀ e b, b.length = N → (F e b).length = N) : Wide N (List.zipWith F L B) := by
  induction L generalizing B with
  | nil => intro r hr; simp at hr
  | cons e L ih =>
    cases B with
    | nil => intro r hr; simp at hr
    | cons b B =>
      rw [List.zipWith_cons_cons]
      exact Wide.cons (hF e b hB.head) (ih B hB.tail)

theorem delMatStepB_wide (d : Rat) (N : Nat) (v : List (List Rat)) (hv : Wide N v) : Wide N (delMatStepB d N v) := by
  unfold delMatStepB
  intro r hr
  obtain ⟨line, hline, rfl⟩ := List.mem_map.mp hr
  rw [List.length_map]
  unfold minRows
  apply foldl_zipWith_emin_length N _ _ _ (by simp)
  apply wide_zipWith_right _ _ _ hv
  intro e b hb; simp [hb]


/-! ### One loop iteration, column by column -/

theorem zipWith_min_length_N {N : Nat} (a b : List Rat) (ha : a.length = N) (hb : b.length = N) :
    (List.zipWith min a b).length = N := by simp [ha, hb]

/-- the block `row'` of `stepB` (after `row[1:] = min(row[1:], sub_row)`) -/
def candB (c : Costs) (ref : List (List α)) (insMask : List Rat) (y : List α) (last : List (List Rat)) :
    List (List Rat) :=
  match last.map (fun r => List.zipWith (fun v m => v + c.ins * m) r insMask) with
  | [] => []
  | a :: t => a :: List.zipWith (List.zipWith min) t
      (List.zipWith (fun l q => List.zipWith (fun v m => v + c.sub * m) l q) last
        (ref.map (fun r => List.zipWith (fun x yy => if x = yy then (0 : Rat) else 1) r y)))

theorem stepB_eq (c : Costs) (N : Nat) (ref : List (List α)) (hypLens : List Nat) (excl : Bool) (idx : Nat)
    (y : List α) (last : List (List Rat)) :
    stepB c N ref hypLens excl idx y last
      = List.zipWith (fun nr lr => whereV
          (hypLens.map (fun (hl : Nat) => decide ((idx : Int) - (if excl then 0 else 1) < (hl : Int)))) nr lr)
          (delMatStepB c.del N (candB c ref (hypLens.map (fun (hl : Nat) => if hl ≥ idx then (1 : Rat) else 0)) y last))
          last := rfl

theorem subRowB_wide (c : Costs) (N : Nat) (ref : List (List α)) (y : List α) (last : List (List Rat))
    (href : Wide N ref) (hy : y.length = N) (hlast : Wide N last) :
    Wide N (List.zipWith (fun l q => List.zipWith (fun v m => v + c.sub * m) l q) last
        (ref.map (fun r => List.zipWith (fun x yy => if x = yy then (0 : Rat) else 1) r y))) := by
  apply wide_zipWith _ _ _ hlast
  · exact wide_map _ _ href (fun r hr => by simp [hr, hy])
  · intro a b ha hb; simp [ha, hb]

theorem candB_wide (c : Costs) (N : Nat) (ref : List (List α)) (insMask : List Rat) (y : List α)
    (last : List (List Rat)) (href : Wide N ref) (hm : insMask.length = N) (hy : y.length = N)
    (hlast : Wide N last) : Wide N (candB c ref insMask y last) := by
  unfold candB
  cases last with
  | nil => intro r hr; simp at hr
  | cons l0 lt =>
    simp only [List.map_cons]
    apply Wide.cons
    · simp [hlast.head, hm]
    · apply wide_zipWith
      · exact wide_map _ _ hlast.tail (fun r hr => by simp [hr, hm])
      · exact subRowB_wide c N ref y (l0 :: lt) href hy hlast
      · intro a b ha hb; simp [ha, hb]

theorem candB_length (c : Costs) (ref : List (List α)) (insMask : List Rat) (y : List α)
    (last : List (List Rat)) (hlen : last.length = ref.length + 1) :
    (candB c ref insMask y last).length = last.length := by
  unfold candB
  cases last with
  | nil => simp at hlen
  | cons l0 lt =>
    simp only [List.map_cons, List.length_cons, List.length_zipWith, List.length_map] at hlen ⊢
    omega

theorem candB_col (c : Costs) (N n : Nat) (hn : n < N) (ref : List (List α)) (insMask : List Rat) (y : List α)
    (last : List (List Rat)) (href : Wide N ref) (hm : insMask.length = N) (hy : y.length = N)
    (hlast : Wide N last) (dα : α) :
    colOf (candB c ref insMask y last) n 0
      = candRow c (insMask.getD n 0) (y.getD n dα) (colOf ref n dα) (colOf last n 0) := by
  unfold candB candRow
  have hrow : colOf (last.map (fun r => List.zipWith (fun v m => v + c.ins * m) r insMask)) n 0
      = (colOf last n 0).map (fun d => d + c.ins * insMask.getD n 0) :=
    colOf_map_zipWith (fun v m => v + c.ins * m) last insMask N n hlast hm hn 0 0 0
  cases last with
  | nil => simp [colOf]
  | cons l0 lt =>
    have hsub := subRowB_wide c N ref y (l0 :: lt) href hy hlast
    have hneq : colOf (ref.map (fun r => List.zipWith (fun x yy => if x = yy then (0 : Rat) else 1) r y)) n 0
        = (colOf ref n dα).map (fun x => if x = y.getD n dα then (0 : Rat) else 1) :=
      colOf_map_zipWith (fun x yy => if x = yy then (0 : Rat) else 1) ref y N n href hy hn 0 dα dα
    have hsubcol : colOf (List.zipWith (fun l q => List.zipWith (fun v m => v + c.sub * m) l q) (l0 :: lt)
          (ref.map (fun r => List.zipWith (fun x yy => if x = yy then (0 : Rat) else 1) r y))) n 0
        = subRow c (y.getD n dα) (colOf ref n dα) (colOf (l0 :: lt) n 0) := by
      rw [colOf_zipWith_zipWith (fun v m => v + c.sub * m) _ _ N n hlast
        (wide_map _ _ href (fun r hr => by simp [hr, hy])) hn 0 0 0, hneq]
      unfold subRow
      rw [List.zipWith_map_right, List.zipWith_comm]
    simp only [List.map_cons, colOf] at hrow hsubcol ⊢
    simp only [List.map_cons, List.cons.injEq] at hrow
    rw [← hsubcol]
    have ht : colOf (List.zipWith (List.zipWith min)
          (lt.map (fun r => List.zipWith (fun v m => v + c.ins * m) r insMask))
          (List.zipWith (fun l q => List.zipWith (fun v m => v + c.sub * m) l q) (l0 :: lt)
            (ref.map (fun r => List.zipWith (fun x yy => if x = yy then (0 : Rat) else 1) r y)))) n 0
        = List.zipWith min (colOf (lt.map (fun r => List.zipWith (fun v m => v + c.ins * m) r insMask)) n 0)
            (colOf (List.zipWith (fun l q => List.zipWith (fun v m => v + c.sub * m) l q) (l0 :: lt)
            (ref.map (fun r => List.zipWith (fun x yy => if x = yy then (0 : Rat) else 1) r y))) n 0) :=
      colOf_zipWith_zipWith min _ _ N n
        (wide_map _ _ hlast.tail (fun r hr => by simp [hr, hm])) hsub hn 0 0 0
    simp only [colOf] at ht
    rw [ht, hrow.1]
    congr 2
    exact hrow.2


theorem zipWith_fst_eq {β γ : Type} (a : List β) (b : List γ) (h : a.length = b.length) :
    List.zipWith (fun x _ => x) a b = a := by
  induction a generalizing b with
  | nil => simp
  | cons x a ih =>
    cases b with
    | nil => simp at h
    | cons z b => simp [ih b (by simpa using h)]

theorem zipWith_snd_eq {β γ : Type} (a : List β) (b : List γ) (h : a.length = b.length) :
    List.zipWith (fun _ z => z) a b = b := by
  induction a generalizing b with
  | nil => cases b <;> simp at h ⊢
  | cons x a ih =>
    cases b with
    | nil => simp at h
    | cons z b => simp [ih b (by simpa using h)]

theorem stepB_length (c : Costs) (N : Nat) (ref : List (List α)) (hypLens : List Nat) (excl : Bool) (idx : Nat)
    (y : List α) (last : List (List Rat)) (hlen : last.length = ref.length + 1) :
    (stepB c N ref hypLens excl idx y last).length = last.length := by
  rw [stepB_eq, List.length_zipWith, delMatStepB_length, candB_length c ref _ y last hlen]
  simp

theorem stepB_wide (c : Costs) (N : Nat) (ref : List (List α)) (hypLens : List Nat) (excl : Bool) (idx : Nat)
    (y : List α) (last : List (List Rat)) (href : Wide N ref) (hl : hypLens.length = N) (hy : y.length = N)
    (hlast : Wide N last) : Wide N (stepB c N ref hypLens excl idx y last) := by
  rw [stepB_eq]
  apply wide_zipWith _ _ _ _ hlast
  · intro a b ha hb; simp [whereV_length, ha, hb, hl]
  · exact delMatStepB_wide _ _ _ (candB_wide c N ref _ y last href (by simp [hl]) hy hlast)

/-- **One iteration, column `n`.** Column `n` of the batched iteration is the per-column iteration
`stepCol` on column `n` of `ref`, `last`, entry `n` of `hyp_lens` and of `hyp[hyp_idx - 1]`. -/
theorem stepB_col (c : Costs) (N n : Nat) (hn : n < N) (ref : List (List α)) (hypLens : List Nat) (excl : Bool)
    (idx : Nat) (y : List α) (last : List (List Rat)) (href : Wide N ref) (hl : hypLens.length = N)
    (hy : y.length = N) (hlast : Wide N last) (hlen : last.length = ref.length + 1) (dα : α) :
    colOf (stepB c N ref hypLens excl idx y last) n 0
      = stepCol c (colOf ref n dα) (hypLens.getD n 0) excl idx (y.getD n dα) (colOf last n 0) := by
  have hcw := candB_wide c N ref (hypLens.map (fun (hl : Nat) => if hl ≥ idx then (1 : Rat) else 0)) y last href
    (by simp [hl]) hy hlast
  rw [stepB_eq]
  rw [colOf_zipWith_rows
    (fun nr lr => whereV
      (hypLens.map (fun (hl : Nat) => decide ((idx : Int) - (if excl then 0 else 1) < (hl : Int)))) nr lr)
    (fun x z => if decide ((idx : Int) - (if excl then 0 else 1) < ((hypLens.getD n 0 : Nat) : Int)) then x else z)
    N n 0 0 0 _ _ _ (delMatStepB_wide _ _ _ hcw) hlast]
  · rw [delMatStepB_col c.del N n hn _ hcw, candB_col c N n hn ref _ y last href (by simp [hl]) hy hlast dα]
    have hmask : (hypLens.map (fun (hl : Nat) => if hl ≥ idx then (1 : Rat) else 0)).getD n 0
        = if hypLens.getD n 0 ≥ idx then (1 : Rat) else 0 := by
      simp [List.getD_eq_getElem?_getD, List.getElem?_eq_getElem (by omega : n < hypLens.length)]
    rw [hmask]
    unfold stepCol
    simp only
    have hc := candB_col c N n hn ref (hypLens.map (fun (hl : Nat) => if hl ≥ idx then (1 : Rat) else 0)) y last href
      (by simp [hl]) hy hlast dα
    rw [hmask] at hc
    have hlen' : (delMatStep c.del (candRow c (if hypLens.getD n 0 ≥ idx then 1 else 0) (y.getD n dα)
        (colOf ref n dα) (colOf last n 0))).length = (colOf last n 0).length := by
      rw [← hc]
      simp [delMatStep, colOf_length, candB_length c ref _ y last hlen]
    by_cases hnd : ((idx : Int) - (if excl then 0 else 1) < ((hypLens.getD n 0 : Nat) : Int))
    · simp only [hnd, decide_true, if_true]
      exact zipWith_fst_eq _ _ hlen'
    · simp only [hnd, decide_false, Bool.false_eq_true, if_false]
      exact zipWith_snd_eq _ _ hlen'
  · intro a b ha hb
    rw [whereV_getD _ a b n (by simp [hl, hn]) (by omega) (by omega)]
    simp [List.getD_eq_getElem?_getD, List.getElem?_eq_getElem (by omega : n < hypLens.length)]


/-! ### The loop -/

theorem colOf_cons {β : Type} (r : List β) (M : List (List β)) (n : Nat) (d : β) :
    colOf (r :: M) n d = r.getD n d :: colOf M n d := rfl

theorem colOf_take {β : Type} (M : List (List β)) (n m : Nat) (d : β) :
    colOf (M.take m) n d = (colOf M n d).take m := by
  simp [colOf, List.map_take]

theorem Wide.take {β : Type} {N : Nat} {M : List (List β)} (h : Wide N M) (m : Nat) : Wide N (M.take m) :=
  fun r hr => h r (List.mem_of_mem_take hr)

theorem row0B_wide (c : Costs) (N R : Nat) : Wide N (row0B c N R) := by
  intro r hr
  obtain ⟨j, _, rfl⟩ := List.mem_map.mp hr
  simp

theorem row0B_length (c : Costs) (N R : Nat) : (row0B c N R).length = R + 1 := by simp [row0B]

theorem row0B_col (c : Costs) (N n : Nat) (hn : n < N) (col : List α) :
    colOf (row0B c N col.length) n 0 = row0 c col := by
  unfold row0B row0 colOf
  rw [List.map_map]
  apply List.map_congr_left
  intro j _
  simp [List.getD_eq_getElem?_getD, hn]

/-- Shape invariant of the loop state. -/
def RowOK (N R : Nat) (row : List (List Rat)) : Prop := Wide N row ∧ row.length = R + 1

theorem scanRowsB_col (c : Costs) (N n : Nat) (hn : n < N) (ref : List (List α)) (hypLens : List Nat)
    (excl : Bool) (href : Wide N ref) (hl : hypLens.length = N) (dα : α)
    (idx : Nat) (ys : List (List α)) (hys : Wide N ys) (row : List (List Rat)) (hrow : RowOK N ref.length row) :
    (scanRowsB c N ref hypLens excl idx ys row).map (fun M => colOf M n 0)
      = scanRows c (colOf ref n dα) (hypLens.getD n 0) excl idx (colOf ys n dα) (colOf row n 0) := by
  induction ys generalizing idx row with
  | nil => rfl
  | cons y ys ih =>
    have hstep := stepB_col c N n hn ref hypLens excl idx y row href hl hys.head hrow.1 hrow.2 dα
    have hok : RowOK N ref.length (stepB c N ref hypLens excl idx y row) :=
      ⟨stepB_wide c N ref hypLens excl idx y row href hl hys.head hrow.1,
        by rw [stepB_length c N ref hypLens excl idx y row hrow.2]; exact hrow.2⟩
    simp only [scanRowsB, scanRows, List.map_cons, colOf_cons]
    rw [hstep, ih (idx + 1) hys.tail _ hok, hstep]

theorem scanRowsB_ok (c : Costs) (N : Nat) (ref : List (List α)) (hypLens : List Nat)
    (excl : Bool) (href : Wide N ref) (hl : hypLens.length = N)
    (idx : Nat) (ys : List (List α)) (hys : Wide N ys) (row : List (List Rat)) (hrow : RowOK N ref.length row) :
    ∀ M ∈ scanRowsB c N ref hypLens excl idx ys row, RowOK N ref.length M := by
  induction ys generalizing idx row with
  | nil => intro M hM; simp [scanRowsB] at hM
  | cons y ys ih =>
    have hok : RowOK N ref.length (stepB c N ref hypLens excl idx y row) :=
      ⟨stepB_wide c N ref hypLens excl idx y row href hl hys.head hrow.1,
        by rw [stepB_length c N ref hypLens excl idx y row hrow.2]; exact hrow.2⟩
    intro M hM
    simp only [scanRowsB, List.mem_cons] at hM
    rcases hM with rfl | hM
    · exact hok
    · exact ih (idx + 1) hys.tail _ hok M hM

/-- **The loop, column `n`.** The sequence of loop states restricted to column `n` is the per-column
loop on column `n`. -/
theorem loopRowsB_col (c : Costs) (N n : Nat) (hn : n < N) (ref hyp : List (List α)) (hypLens : List Nat)
    (excl : Bool) (href : Wide N ref) (hhyp : Wide N hyp) (hl : hypLens.length = N) (dα : α) :
    (loopRowsB c N ref hyp hypLens excl).map (fun M => colOf M n 0)
      = loopRows c (colOf ref n dα) (colOf hyp n dα) (hypLens.getD n 0) excl := by
  unfold loopRowsB loopRows
  rw [scanRowsB_col c N n hn ref hypLens excl href hl dα 1 _ (hhyp.take _) _
    ⟨row0B_wide c N ref.length, row0B_length c N ref.length⟩]
  rw [colOf_take, colOf_length]
  have := row0B_col c N n hn (colOf ref n dα)
  rw [colOf_length] at this
  rw [this]

/-! ### `gather` -/

theorem gatherB_length (refLens : List Nat) (row : List (List Rat)) : (gatherB refLens row).length = refLens.length := by
  simp [gatherB]

theorem gatherB_getElem? (refLens : List Nat) (row : List (List Rat)) (n : Nat) (hn : n < refLens.length) :
    (gatherB refLens row)[n]? = some (readRow (refLens.getD n 0) (colOf row n 0)) := by
  unfold gatherB readRow colOf
  rw [List.getElem?_map, List.getElem?_zipIdx]
  simp only [List.getElem?_eq_getElem hn, Option.map_some, List.getD_eq_getElem?_getD, Option.getD_some,
    List.getElem?_map, Nat.zero_add]
  cases row[refLens[n]]? <;> simp


/-! ### `_lens_from_eos`, column by column -/

/-- `cumsum` of one column, started from `acc`. -/
def cumsumCol : Nat → List Nat → List Nat
  | _, [] => []
  | acc, m :: ms => (acc + m) :: cumsumCol (acc + m) ms

theorem cumsumAux_wide (N : Nat) (acc : List Nat) (hacc : acc.length = N) (M : List (List Nat)) (hM : Wide N M) :
    Wide N (cumsumAux acc M) := by
  induction M generalizing acc with
  | nil => intro r hr; simp [cumsumAux] at hr
  | cons r M ih =>
    simp only [cumsumAux]
    exact Wide.cons (by simp [hacc, hM.head]) (ih _ (by simp [hacc, hM.head]) hM.tail)

theorem cumsumAux_col (N n : Nat) (hn : n < N) (acc : List Nat) (hacc : acc.length = N) (M : List (List Nat))
    (hM : Wide N M) : colOf (cumsumAux acc M) n 0 = cumsumCol (acc.getD n 0) (colOf M n 0) := by
  induction M generalizing acc with
  | nil => rfl
  | cons r M ih =>
    simp only [cumsumAux, colOf_cons, cumsumCol]
    rw [ih _ (by simp [hacc, hM.head]) hM.tail,
      getD_zipWith' (· + ·) acc r n (by omega) (by rw [hM.head]; exact hn) 0 0 0]

/-- The first-hit index computed the way the code does it, on one column. -/
theorem firstHit_eq_firstEos (eos : α) (col : List α) :
    (let ms := col.map (fun t => decide (t = eos))
     let hits := List.zipWith (fun (xi : Nat) (m : Bool) => decide (xi = 1) && m)
        (cumsumCol 0 (ms.map (fun b => if b then 1 else 0))) ms
     if hits.any id then hits.findIdx id else col.length) = firstEos eos col := by
  induction col with
  | nil => simp [firstEos, cumsumCol]
  | cons t ts ih =>
    by_cases ht : t = eos
    · simp [firstEos, cumsumCol, ht, List.findIdx_cons]
    · simp only [List.map_cons, ht, decide_false, Bool.false_eq_true, if_false, cumsumCol, Nat.add_zero,
        List.zipWith_cons_cons, Bool.and_false, List.any_cons, id, Bool.false_or, List.findIdx_cons,
        List.length_cons, firstEos] at ih ⊢
      rw [← ih]
      split <;> simp

theorem colOf_map_map {β γ : Type} (f : β → γ) (M : List (List β)) (N n : Nat) (hM : Wide N M) (hn : n < N)
    (d : γ) (dM : β) : colOf (M.map (fun r => r.map f)) n d = (colOf M n dM).map f := by
  simp only [colOf, List.map_map]
  apply List.map_congr_left
  intro r hr
  have : n < r.length := by rw [hM r hr]; exact hn
  simp [List.getD_eq_getElem?_getD, List.getElem?_eq_getElem this]

theorem lensFromEosB_length (eos : α) (N : Nat) (tok : List (List α)) : (lensFromEosB eos N tok).length = N := by
  unfold lensFromEosB
  split <;> simp

/-- **`_lens_from_eos`, column `n`**: the first-eos index of column `n`. -/
theorem lensFromEosB_getD (eos : α) (N n : Nat) (hn : n < N) (tok : List (List α)) (hW : Wide N tok) (dα : α) :
    (lensFromEosB eos N tok).getD n 0 = firstEos eos (colOf tok n dα) := by
  unfold lensFromEosB
  by_cases h0 : tok.length = 0
  · have : tok = [] := List.eq_nil_of_length_eq_zero h0
    subst this
    simp [firstEos, colOf, List.getD_eq_getElem?_getD, hn]
  · simp only [if_neg h0]
    rw [List.getD_eq_getElem?_getD, List.getElem?_map, List.getElem?_range hn]
    simp only [Option.map_some, Option.getD_some]
    have hmaskW : Wide N (tok.map (fun r => r.map (fun t => decide (t = eos)))) :=
      wide_map _ _ hW (fun r hr => by simp [hr])
    have hnatW : Wide N ((tok.map (fun r => r.map (fun t => decide (t = eos)))).map
        (fun r => r.map (fun (b : Bool) => if b then 1 else 0))) :=
      wide_map _ _ hmaskW (fun r hr => by simp [hr])
    rw [colOf_zipWith_zipWith (fun (xi : Nat) (m : Bool) => decide (xi = 1) && m) _ _ N n
      (cumsumAux_wide N _ (by simp) _ hnatW) hmaskW hn false 0 false]
    rw [cumsumAux_col N n hn _ (by simp) _ hnatW]
    rw [colOf_map_map (fun (b : Bool) => if b then 1 else 0) _ N n hmaskW hn 0 false]
    rw [colOf_map_map (fun t => decide (t = eos)) tok N n hW hn false dα]
    have := firstHit_eq_firstEos eos (colOf tok n dα)
    simp only [colOf_length] at this
    simpa [List.getD_eq_getElem?_getD, hn] using this

theorem seqLensB_length (eos : Option α) (inc : Bool) (N : Nat) (tok : List (List α)) :
    (seqLensB eos inc N tok).length = N := by
  unfold seqLensB
  cases eos with
  | none => simp
  | some e =>
    simp only
    split
    · split <;> simp [lensFromEosB_length]
    · exact lensFromEosB_length e N tok

/-- **`ref_lens` / `hyp_lens`, entry `n`**: the per-column `seqLen` of column `n`. -/
theorem seqLensB_getD (eos : Option α) (inc : Bool) (N n : Nat) (hn : n < N) (tok : List (List α))
    (hW : Wide N tok) (dα : α) :
    (seqLensB eos inc N tok).getD n 0 = seqLen eos inc (colOf tok n dα) := by
  unfold seqLensB seqLen
  cases eos with
  | none => simp [List.getD_eq_getElem?_getD, hn, colOf_length]
  | some e =>
    have hlen := lensFromEosB_length e N tok
    have hget := lensFromEosB_getD e N n hn tok hW dα
    have hn' : n < (lensFromEosB e N tok).length := by omega
    have hget' : (lensFromEosB e N tok)[n] = firstEos e (colOf tok n dα) := by
      rw [← hget, List.getD_eq_getElem?_getD, List.getElem?_eq_getElem hn']; rfl
    simp only [colOf_length]
    cases inc with
    | false => simpa using hget
    | true =>
      simp only [if_true]
      split
      · rw [getD_zipWith' _ _ _ n (by simp; omega) (by simp; omega) 0 0 false]
        simp only [List.getD_eq_getElem?_getD, List.getElem?_map, List.getElem?_eq_getElem hn', Option.map_some,
          Option.getD_some, hget']
        split <;> simp_all
      · rename_i hany
        have hne : ¬ firstEos e (colOf tok n dα) = tok.length := by
          intro heq
          apply hany
          rw [List.any_eq_true]
          refine ⟨true, ?_, rfl⟩
          rw [List.mem_map]
          exact ⟨(lensFromEosB e N tok)[n], List.getElem_mem hn', by simp [hget', heq]⟩
        simp [List.getD_eq_getElem?_getD, List.getElem?_eq_getElem hn', hget', hne]


/-! ### `edit_distance` on the batch -/

theorem getLast?_map_getD {β γ : Type} (f : β → γ) (l : List β) (d : β) :
    ((l.map f).getLast?).getD (f d) = f (l.getLast?.getD d) := by
  rw [List.getLast?_map]
  cases l.getLast? <;> rfl

theorem editDistanceB_length (c : Costs) (eos : Option α) (inc norm : Bool) (N : Nat) (ref hyp : List (List α)) :
    (editDistanceB c eos inc norm N ref hyp).length = N := by
  unfold editDistanceB
  simp only
  cases norm with
  | false => simp [gatherB_length, seqLensB_length]
  | true =>
    simp only [if_true]
    split <;> simp [whereV_length, gatherB_length, seqLensB_length]

/-- `er / ref_lens` with the guarded `torch.where(zero_mask, substitute, er)`, entry `n`. -/
def normB (refLens : List Nat) (sub er : List Rat) : List Rat :=
  let q := List.zipWith (fun e (l : Nat) => e / (l : Rat)) er refLens
  let zeroMask := refLens.map (fun l => decide (l = 0))
  if zeroMask.any id then whereV zeroMask sub q else q

theorem normB_length (refLens : List Nat) (sub er : List Rat) (N : Nat) (h1 : refLens.length = N)
    (h2 : sub.length = N) (h3 : er.length = N) : (normB refLens sub er).length = N := by
  unfold normB
  simp only
  split <;> simp [whereV_length, h1, h2, h3]

theorem normB_getElem? (refLens : List Nat) (sub er : List Rat) (N n : Nat) (hn : n < N) (h1 : refLens.length = N)
    (h2 : sub.length = N) (h3 : er.length = N) :
    (normB refLens sub er)[n]?
      = some (if refLens.getD n 0 = 0 then sub.getD n 0 else er.getD n 0 / (refLens.getD n 0 : Rat)) := by
  have hq : (List.zipWith (fun e (l : Nat) => e / (l : Rat)) er refLens)[n]?
      = some (er.getD n 0 / (refLens.getD n 0 : Rat)) := by
    rw [List.getElem?_zipWith, List.getElem?_eq_getElem (by omega : n < er.length),
      List.getElem?_eq_getElem (by omega : n < refLens.length)]
    simp [List.getD_eq_getElem?_getD, List.getElem?_eq_getElem (by omega : n < er.length),
      List.getElem?_eq_getElem (by omega : n < refLens.length)]
  have hm : (refLens.map (fun l => decide (l = 0))).getD n false = decide (refLens.getD n 0 = 0) := by
    simp [List.getD_eq_getElem?_getD, List.getElem?_eq_getElem (by omega : n < refLens.length)]
  unfold normB
  simp only
  split
  · have hlen : n < (whereV (refLens.map (fun l => decide (l = 0))) sub
        (List.zipWith (fun e (l : Nat) => e / (l : Rat)) er refLens)).length := by
      simp [whereV_length, h1, h2, h3, hn]
    have := whereV_getD (refLens.map (fun l => decide (l = 0))) sub
      (List.zipWith (fun e (l : Nat) => e / (l : Rat)) er refLens) n (by simp [h1, hn]) (by omega)
      (by simp [h1, h3, hn])
    rw [List.getD_eq_getElem?_getD, List.getElem?_eq_getElem hlen] at this
    simp only [Option.getD_some] at this
    rw [List.getElem?_eq_getElem hlen, this, hm, List.getD_eq_getElem?_getD (l := List.zipWith _ _ _), hq]
    by_cases hz : refLens.getD n 0 = 0 <;> simp [hz]
  · rename_i hany
    have hz : ¬ refLens.getD n 0 = 0 := by
      intro hz
      apply hany
      rw [List.any_eq_true]
      refine ⟨true, ?_, rfl⟩
      rw [List.mem_map]
      refine ⟨refLens[n]'(by omega), List.getElem_mem _, ?_⟩
      have : refLens[n]'(by omega) = refLens.getD n 0 := by
        simp [List.getD_eq_getElem?_getD, List.getElem?_eq_getElem (by omega : n < refLens.length)]
      rw [this, hz]; rfl
    rw [hq, if_neg hz]

theorem editDistanceB_eq (c : Costs) (eos : Option α) (inc norm : Bool) (N : Nat) (ref hyp : List (List α)) :
    editDistanceB c eos inc norm N ref hyp
      = (let er := (gatherB (seqLensB eos inc N ref)
            ((loopRowsB (shortcut c).1 N ref hyp (seqLensB eos inc N hyp) false).getLast?.getD
              (row0B (shortcut c).1 N ref.length))).map (· * (shortcut c).2)
         if norm then normB (seqLensB eos inc N ref)
            ((seqLensB eos inc N hyp).map (fun (l : Nat) => if l > 0 then (1 : Rat) else 0)) er
         else er) := rfl

theorem getD_of_length {β : Type} (l : List β) (n : Nat) (hn : n < l.length) (d : β) : l.getD n d = l[n] := by
  simp [List.getD_eq_getElem?_getD, List.getElem?_eq_getElem hn]

/-- **Batch = columns (`edit_distance`).** Entry `n` of the batched computation is the per-column
model on column `n` of the two tensors; no other column is looked at. -/
theorem editDistanceB_getElem? (c : Costs) (eos : Option α) (inc norm : Bool) (N n : Nat) (hn : n < N)
    (ref hyp : List (List α)) (href : Wide N ref) (hhyp : Wide N hyp) (dα : α) :
    (editDistanceB c eos inc norm N ref hyp)[n]?
      = some (editDistance c eos inc norm (colOf ref n dα) (colOf hyp n dα)) := by
  have hrl := seqLensB_length eos inc N ref
  have hhl := seqLensB_length eos inc N hyp
  have hr := seqLensB_getD eos inc N n hn ref href dα
  have hh := seqLensB_getD eos inc N n hn hyp hhyp dα
  have hloop := loopRowsB_col (shortcut c).1 N n hn ref hyp (seqLensB eos inc N hyp) false href hhyp hhl dα
  have hrow0 := row0B_col (shortcut c).1 N n hn (colOf ref n dα)
  rw [colOf_length] at hrow0
  have hfinal : colOf ((loopRowsB (shortcut c).1 N ref hyp (seqLensB eos inc N hyp) false).getLast?.getD
        (row0B (shortcut c).1 N ref.length)) n 0
      = (loopRows (shortcut c).1 (colOf ref n dα) (colOf hyp n dα) (seqLen eos inc (colOf hyp n dα)) false).getLast?.getD
          (row0 (shortcut c).1 (colOf ref n dα)) := by
    rw [← getLast?_map_getD (fun M => colOf M n 0), hloop, hrow0, hh]
  have hg := gatherB_getElem? (seqLensB eos inc N ref)
    ((loopRowsB (shortcut c).1 N ref hyp (seqLensB eos inc N hyp) false).getLast?.getD
        (row0B (shortcut c).1 N ref.length)) n (by omega)
  rw [hfinal, hr] at hg
  rw [editDistanceB_eq]
  unfold editDistance
  simp only
  cases norm with
  | false =>
    simp only [Bool.false_eq_true, if_false]
    rw [List.getElem?_map, hg]; rfl
  | true =>
    simp only [if_true]
    rw [normB_getElem? _ _ _ N n hn hrl (by simp [hhl]) (by simp [gatherB_length, hrl]), hr]
    have her : (List.map (fun x => x * (shortcut c).2) (gatherB (seqLensB eos inc N ref)
        ((loopRowsB (shortcut c).1 N ref hyp (seqLensB eos inc N hyp) false).getLast?.getD
          (row0B (shortcut c).1 N ref.length)))).getD n 0
        = readRow (seqLen eos inc (colOf ref n dα))
            ((loopRows (shortcut c).1 (colOf ref n dα) (colOf hyp n dα) (seqLen eos inc (colOf hyp n dα)) false).getLast?.getD
              (row0 (shortcut c).1 (colOf ref n dα))) * (shortcut c).2 := by
      rw [List.getD_eq_getElem?_getD, List.getElem?_map, hg]; rfl
    have hsub : ((seqLensB eos inc N hyp).map (fun (l : Nat) => if l > 0 then (1 : Rat) else 0)).getD n 0
        = if seqLen eos inc (colOf hyp n dα) > 0 then (1 : Rat) else 0 := by
      rw [← hh]
      simp [List.getD_eq_getElem?_getD, List.getElem?_eq_getElem (by omega : n < (seqLensB eos inc N hyp).length)]
    rw [her, hsub]


/-! ### `prefix_edit_distances` on the batch -/

theorem wide_mapIdx {β γ : Type} {N : Nat} (F : Nat → List β → List γ) (M : List (List β)) (hM : Wide N M)
    (hF : ∀ k r, r.length = N → (F k r).length = N) : Wide N (M.mapIdx F) := by
  intro r hr
  rw [List.mem_iff_getElem?] at hr
  obtain ⟨k, hk⟩ := hr
  rw [List.getElem?_mapIdx] at hk
  cases h : M[k]? with
  | none => simp [h] at hk
  | some q =>
    simp [h] at hk
    subst hk
    exact hF k q (hM q (List.mem_of_getElem? h))

theorem colOf_mapIdx {β γ : Type} (F : Nat → List β → List γ) (f : Nat → β → γ) (N n : Nat) (d : γ) (dM : β)
    (M : List (List β)) (hM : Wide N M)
    (hF : ∀ k r, r.length = N → (F k r).getD n d = f k (r.getD n dM)) :
    colOf (M.mapIdx F) n d = (colOf M n dM).mapIdx f := by
  apply List.ext_getElem?
  intro k
  simp only [colOf, List.getElem?_map, List.getElem?_mapIdx]
  cases h : M[k]? with
  | none => simp
  | some q =>
    have := hF k q (hM q (List.mem_of_getElem? h))
    simp only [Option.map_some]
    rw [this]

theorem prefixRawB_wide (c : Costs) (N : Nat) (ref hyp : List (List α)) (refLens hypLens : List Nat) (excl : Bool)
    (hr : refLens.length = N) : Wide N (prefixRawB c N ref hyp refLens hypLens excl) := by
  unfold prefixRawB
  split
  · intro r hr; simp at hr
  · apply Wide.cons (by simp [hr])
    intro r hmem
    obtain ⟨M, _, rfl⟩ := List.mem_map.mp hmem
    rw [gatherB_length, hr]

theorem prefixRawB_col (c : Costs) (N n : Nat) (hn : n < N) (ref hyp : List (List α)) (refLens hypLens : List Nat)
    (excl : Bool) (href : Wide N ref) (hhyp : Wide N hyp) (hr : refLens.length = N) (hl : hypLens.length = N)
    (dα : α) :
    colOf (prefixRawB c N ref hyp refLens hypLens excl) n 0
      = prefixRaw c (colOf ref n dα) (colOf hyp n dα) (refLens.getD n 0) (hypLens.getD n 0) excl := by
  unfold prefixRawB prefixRaw
  rw [colOf_length]
  split
  · rfl
  · rw [colOf_cons]
    congr 1
    · simp [List.getD_eq_getElem?_getD, List.getElem?_eq_getElem (by omega : n < refLens.length)]
    · rw [← loopRowsB_col c N n hn ref hyp hypLens excl href hhyp hl dα]
      simp only [colOf, List.map_map]
      apply List.map_congr_left
      intro M _
      simp only [Function.comp]
      rw [List.getD_eq_getElem?_getD, gatherB_getElem? refLens M n (by omega)]
      rfl

/-- the table after `/ ref_lens` and the guarded `where`, line by line -/
theorem normTable_eq (refLens : List Nat) (N : Nat) (scaled : List (List Rat)) :
    (let q := scaled.map (fun line => List.zipWith (fun e (l : Nat) => e / (l : Rat)) line refLens)
     let zeroMask := refLens.map (fun l => decide (l = 0))
     if zeroMask.any id then
       q.mapIdx (fun k line => whereV zeroMask (List.replicate N (if k > 0 then (1 : Rat) else 0)) line)
     else q)
      = scaled.mapIdx (fun k line => normB refLens (List.replicate N (if k > 0 then (1 : Rat) else 0)) line) := by
  apply List.ext_getElem?
  intro k
  simp only
  split
  · rename_i hany
    simp only [List.getElem?_mapIdx, List.getElem?_map]
    cases scaled[k]? with
    | none => rfl
    | some line => simp [normB, hany]
  · rename_i hany
    simp only [List.getElem?_mapIdx, List.getElem?_map]
    cases scaled[k]? with
    | none => rfl
    | some line => simp [normB, hany]

/-- **Batch = columns (`prefix_edit_distances`).** Column `n` of the batched table is the per-column
table of column `n` of the two tensors. -/
theorem prefixEditDistancesB_col (c : Costs) (eos : Option α) (inc norm excl : Bool) (padding : Int)
    (N n : Nat) (hn : n < N) (ref hyp : List (List α)) (href : Wide N ref) (hhyp : Wide N hyp) (dα : α) :
    colOf (prefixEditDistancesB c eos inc norm excl padding N ref hyp) n 0
      = prefixEditDistances c eos inc norm excl padding (colOf ref n dα) (colOf hyp n dα) := by
  have hrl := seqLensB_length eos inc N ref
  have hhl := seqLensB_length eos inc N hyp
  have hr := seqLensB_getD eos inc N n hn ref href dα
  have hh := seqLensB_getD eos inc N n hn hyp hhyp dα
  have hrawW := prefixRawB_wide (shortcut c).1 N ref hyp (seqLensB eos inc N ref) (seqLensB eos inc N hyp) excl hrl
  have hraw := prefixRawB_col (shortcut c).1 N n hn ref hyp (seqLensB eos inc N ref) (seqLensB eos inc N hyp) excl
    href hhyp hrl hhl dα
  rw [hr, hh] at hraw
  have hscW : Wide N ((prefixRawB (shortcut c).1 N ref hyp (seqLensB eos inc N ref) (seqLensB eos inc N hyp) excl).map
      (fun line => line.map (· * (shortcut c).2))) := wide_map _ _ hrawW (fun r hr => by simp [hr])
  have hsc : colOf ((prefixRawB (shortcut c).1 N ref hyp (seqLensB eos inc N ref) (seqLensB eos inc N hyp) excl).map
      (fun line => line.map (· * (shortcut c).2))) n 0
      = (prefixRaw (shortcut c).1 (colOf ref n dα) (colOf hyp n dα) (seqLen eos inc (colOf ref n dα))
          (seqLen eos inc (colOf hyp n dα)) excl).map (· * (shortcut c).2) := by
    rw [colOf_map_map (· * (shortcut c).2) _ N n hrawW hn 0 0, hraw]
  unfold prefixEditDistancesB prefixEditDistances
  simp only
  have hpad : ∀ (T : List (List Rat)), Wide N T →
      colOf (T.mapIdx (fun k line => List.zipWith (fun v (hl : Nat) =>
        if k ≥ hl + exclOff excl then (padding : Rat) else v) line (seqLensB eos inc N hyp))) n 0
      = (colOf T n 0).mapIdx (fun k v => if k ≥ seqLen eos inc (colOf hyp n dα) + exclOff excl then (padding : Rat) else v) := by
    intro T hT
    apply colOf_mapIdx _ _ N n 0 0 T hT
    intro k r hrlen
    rw [getD_zipWith' _ r _ n (by omega) (by omega) 0 0 0, hh]
  cases norm with
  | false =>
    simp only [Bool.false_eq_true, if_false]
    rw [hpad _ hscW, hsc]
  | true =>
    simp only [if_true]
    rw [normTable_eq]
    have hnW : Wide N (((prefixRawB (shortcut c).1 N ref hyp (seqLensB eos inc N ref) (seqLensB eos inc N hyp) excl).map
        (fun line => line.map (· * (shortcut c).2))).mapIdx
        (fun k line => normB (seqLensB eos inc N ref) (List.replicate N (if k > 0 then (1 : Rat) else 0)) line)) :=
      wide_mapIdx _ _ hscW (fun k r hrlen => normB_length _ _ _ N hrl (by simp) hrlen)
    rw [hpad _ hnW]
    congr 1
    rw [colOf_mapIdx _ (fun k v => if seqLen eos inc (colOf ref n dα) = 0 then (if k > 0 then (1 : Rat) else 0)
        else v / (seqLen eos inc (colOf ref n dα) : Rat)) N n 0 0 _ hscW, hsc]
    intro k r hrlen
    rw [List.getD_eq_getElem?_getD, normB_getElem? _ _ _ N n hn hrl (by simp) hrlen, hr]
    simp [List.getD_eq_getElem?_getD, hn]


/-! ### Tensors: `batch_first`, batch sizes -/

/-- The rows really have the announced shape. -/
def Tensor2.WF {β : Type} (x : Tensor2 β) : Prop := x.rows.length = x.d0 ∧ Wide x.d1 x.rows

/-- Size of the batch dimension in the given layout. -/
def batchSize {β : Type} (bf : Bool) (x : Tensor2 β) : Nat := if bf then x.d0 else x.d1

/-- Sequence `n` of the batch in the given layout: row `n` when `batch_first`, column `n` otherwise. -/
def seqOf {β : Type} (bf : Bool) (x : Tensor2 β) (n : Nat) (dflt : β) : List β :=
  if bf then x.rows.getD n [] else colOf x.rows n dflt

theorem Tensor2.t_wf {β : Type} (x : Tensor2 β) (d : β) (h : x.WF) : (x.t d).WF := by
  constructor
  · simp [Tensor2.t]
  · intro r hr
    simp only [Tensor2.t] at hr ⊢
    obtain ⟨j, _, rfl⟩ := List.mem_map.mp hr
    rw [colOf_length, h.1]

/-- Column `n` of the transposed tensor is row `n` of the tensor. -/
theorem Tensor2.t_col {β : Type} (x : Tensor2 β) (d : β) (h : x.WF) (n : Nat) (hn : n < x.d0) :
    colOf (x.t d).rows n d = x.rows.getD n [] := by
  have hn' : n < x.rows.length := by rw [h.1]; exact hn
  have hlen : (x.rows[n]).length = x.d1 := h.2 _ (List.getElem_mem hn')
  simp only [Tensor2.t, colOf, List.map_map]
  rw [getD_of_length _ _ hn']
  apply List.ext_getElem?
  intro j
  by_cases hj : j < x.d1
  · simp [List.getElem?_range hj, List.getD_eq_getElem?_getD, List.getElem?_eq_getElem hn',
      List.getElem?_eq_getElem (by omega : j < (x.rows[n]).length)]
  · rw [List.getElem?_eq_none (by simp; omega), List.getElem?_eq_none (by omega)]

/-- Row `n` of the transposed tensor is column `n` of the tensor. -/
theorem Tensor2.t_row {β : Type} (x : Tensor2 β) (d : β) (n : Nat) (hn : n < x.d1) :
    (x.t d).rows.getD n [] = colOf x.rows n d := by
  simp [Tensor2.t, List.getD_eq_getElem?_getD, List.getElem?_range hn]

/-- After the code's `if batch_first: x = x.t()` the tensor is `(L, N)` and its column `n` is sequence `n`. -/
theorem seqFirst_col {β : Type} (bf : Bool) (x : Tensor2 β) (d : β) (h : x.WF) (n : Nat) (hn : n < batchSize bf x) :
    colOf (if bf then x.t d else x).rows n d = seqOf bf x n d := by
  cases bf with
  | false => rfl
  | true => simpa [seqOf] using Tensor2.t_col x d h n hn

theorem seqFirst_wf {β : Type} (bf : Bool) (x : Tensor2 β) (d : β) (h : x.WF) : (if bf then x.t d else x).WF := by
  cases bf with
  | false => exact h
  | true => exact Tensor2.t_wf x d h

theorem seqFirst_d1 {β : Type} (bf : Bool) (x : Tensor2 β) (d : β) : (if bf then x.t d else x).d1 = batchSize bf x := by
  cases bf <;> rfl

/-- **`edit_distance` on a whole batch, either layout.** With equal batch sizes `N` the call succeeds
and returns, for every `n < N`, the per-column model on sequence `n` of `ref` and sequence `n` of `hyp` —
a list equality: nothing else of the batch enters entry `n`. -/
theorem editDistanceT_eq (c : Costs) (eos : Option α) (inc norm bf : Bool) (ref hyp : Tensor2 α) (dα : α)
    (hr : ref.WF) (hh : hyp.WF) (N : Nat) (hN : batchSize bf ref = N) (hN' : batchSize bf hyp = N) :
    editDistanceT c eos inc norm bf ref hyp dα
      = .ok ((List.range N).map (fun n => editDistance c eos inc norm (seqOf bf ref n dα) (seqOf bf hyp n dα))) := by
  unfold editDistanceT
  simp only
  rw [seqFirst_d1, seqFirst_d1, hN, hN']
  simp only [ne_eq, not_true_eq_false, if_false]
  congr 1
  apply List.ext_getElem?
  intro n
  by_cases hn : n < N
  · rw [editDistanceB_getElem? c eos inc norm N n hn _ _
      (by have := (seqFirst_wf bf ref dα hr).2; rwa [seqFirst_d1, hN] at this)
      (by have := (seqFirst_wf bf hyp dα hh).2; rwa [seqFirst_d1, hN'] at this) dα]
    rw [seqFirst_col bf ref dα hr n (by omega), seqFirst_col bf hyp dα hh n (by omega)]
    simp [List.getElem?_range hn]
  · rw [List.getElem?_eq_none (by rw [editDistanceB_length]; omega), List.getElem?_eq_none (by simp; omega)]

/-- Different batch sizes: the documented `RuntimeError`, and nothing else raises. -/
theorem editDistanceT_error_iff (c : Costs) (eos : Option α) (inc norm bf : Bool) (ref hyp : Tensor2 α) (dα : α) :
    editDistanceT c eos inc norm bf ref hyp dα = .error "RuntimeError" ↔ batchSize bf ref ≠ batchSize bf hyp := by
  unfold editDistanceT
  simp only
  rw [seqFirst_d1, seqFirst_d1]
  split <;> simp_all

/-- `batch_first` is a transposition of the inputs (as in the code: `ref = ref.t(); hyp = hyp.t()`). -/
theorem editDistanceT_batch_first (c : Costs) (eos : Option α) (inc norm : Bool) (ref hyp : Tensor2 α) (dα : α) :
    editDistanceT c eos inc norm true ref hyp dα = editDistanceT c eos inc norm false (ref.t dα) (hyp.t dα) dα := rfl

/-- **`prefix_edit_distances` on a whole batch, either layout.** The call succeeds, the table has shape
`(H + 1 | H, N)` (transposed under `batch_first`), and sequence `n` of the table (column `n`, or row `n`
under `batch_first`) is the per-column table of sequence `n` of `ref` and `hyp`. -/
theorem prefixEditDistancesT_eq (c : Costs) (eos : Option α) (inc norm bf excl : Bool) (padding : Int)
    (ref hyp : Tensor2 α) (dα : α) (hr : ref.WF) (hh : hyp.WF) (N : Nat) (hN : batchSize bf ref = N)
    (hN' : batchSize bf hyp = N) :
    ∃ T, prefixEditDistancesT c eos inc norm bf excl padding ref hyp dα = .ok T
      ∧ batchSize bf T = N
      ∧ (if bf then T.d1 else T.d0) = (if bf then hyp.d1 else hyp.d0) + exclOff excl
      ∧ ∀ n, n < N → seqOf bf T n 0
          = prefixEditDistances c eos inc norm excl padding (seqOf bf ref n dα) (seqOf bf hyp n dα) := by
  unfold prefixEditDistancesT
  simp only
  rw [seqFirst_d1, seqFirst_d1, hN, hN']
  simp only [ne_eq, not_true_eq_false, if_false]
  refine ⟨_, rfl, ?_, ?_, ?_⟩
  · cases bf <;> simp [batchSize, Tensor2.t]
  · cases bf <;> simp [Tensor2.t]
  · intro n hn
    have hcol := prefixEditDistancesB_col c eos inc norm excl padding N n hn _ _
      (by have := (seqFirst_wf bf ref dα hr).2; rwa [seqFirst_d1, hN] at this)
      (by have := (seqFirst_wf bf hyp dα hh).2; rwa [seqFirst_d1, hN'] at this) dα
    rw [seqFirst_col bf ref dα hr n (by omega), seqFirst_col bf hyp dα hh n (by omega)] at hcol
    rw [← hcol]
    cases bf with
    | false => rfl
    | true =>
      simp only [seqOf, if_true]
      exact Tensor2.t_row _ 0 n hn

theorem prefixEditDistancesT_error_iff (c : Costs) (eos : Option α) (inc norm bf excl : Bool) (padding : Int)
    (ref hyp : Tensor2 α) (dα : α) :
    prefixEditDistancesT c eos inc norm bf excl padding ref hyp dα = .error "RuntimeError"
      ↔ batchSize bf ref ≠ batchSize bf hyp := by
  unfold prefixEditDistancesT
  simp only
  rw [seqFirst_d1, seqFirst_d1]
  split <;> simp_all

end PdtVerif.StringMatch
