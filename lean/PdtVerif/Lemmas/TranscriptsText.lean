import PdtVerif.Lemmas.Transcripts
import PdtVerif.Model.TranscriptsText
/-!
# Lemmas for the text layers of ctm and TextGrid (C11)
-/
namespace PdtVerif.Transcripts

/-! ## digits -/

theorem digitVal?_digitChar (n : Nat) : digitVal? (digitChar n) = some (n % 10) := by
  have h := Nat.mod_lt n (by decide : 10 > 0)
  unfold digitChar
  generalize n % 10 = d at *
  match d, h with
  | 0, _ => rfl | 1, _ => rfl | 2, _ => rfl | 3, _ => rfl | 4, _ => rfl
  | 5, _ => rfl | 6, _ => rfl | 7, _ => rfl | 8, _ => rfl | 9, _ => rfl
  | d + 10, h => omega

theorem isDigit_digitChar (n : Nat) : isDigit (digitChar n) = true := by
  simp [isDigit, digitVal?_digitChar]

theorem isDigit_iff (c : Char) : isDigit c = true ↔
    c = '0' ∨ c = '1' ∨ c = '2' ∨ c = '3' ∨ c = '4' ∨ c = '5' ∨ c = '6' ∨ c = '7' ∨ c = '8' ∨ c = '9' := by
  unfold isDigit digitVal?
  constructor
  · intro h
    split_ifs at h <;> simp_all
  · intro h
    rcases h with rfl | rfl | rfl | rfl | rfl | rfl | rfl | rfl | rfl | rfl <;> decide

/-- Characters a printed `Dec` consists of. -/
def decChar (c : Char) : Bool := isDigit c || c == '-' || c == '.'

theorem decChar_cases (c : Char) (h : decChar c = true) :
    c = '0' ∨ c = '1' ∨ c = '2' ∨ c = '3' ∨ c = '4' ∨ c = '5' ∨ c = '6' ∨ c = '7' ∨ c = '8' ∨ c = '9' ∨
    c = '-' ∨ c = '.' := by
  unfold decChar at h
  simp only [Bool.or_eq_true, beq_iff_eq] at h
  rcases h with (h | h) | h
  · have := (isDigit_iff c).mp h
    tauto
  · tauto
  · tauto

theorem decChar_props (c : Char) (h : decChar c = true) :
    isPyWhite c = false ∧ isExpChar c = false ∧ c ≠ '\n' ∧ c ≠ '\r' ∧ c ≠ ';' ∧ c ≠ '"' ∧ c ≠ ' ' := by
  rcases decChar_cases c h with rfl | rfl | rfl | rfl | rfl | rfl | rfl | rfl | rfl | rfl | rfl | rfl <;> decide

theorem parseDigits_append (xs ys : List Char) : ∀ acc,
    parseDigits acc (xs ++ ys) = (parseDigits acc xs).bind (fun a => parseDigits a ys) := by
  induction xs with
  | nil => intro acc; rfl
  | cons c cs ih =>
    intro acc
    simp only [List.cons_append, parseDigits]
    cases digitVal? c with
    | none => rfl
    | some d => exact ih _

theorem parseDigits_single (acc n : Nat) : parseDigits acc [digitChar n] = some (acc * 10 + n % 10) := by
  simp [parseDigits, digitVal?_digitChar]

theorem parseDigits_natDigitsF : ∀ (f n : Nat), n ≤ f → parseDigits 0 (natDigitsF f n) = some n := by
  intro f
  induction f with
  | zero =>
    intro n hn
    have : n = 0 := by omega
    subst this
    rfl
  | succ f ih =>
    intro n hn
    unfold natDigitsF
    split_ifs with h
    · rw [parseDigits_single]; simp; omega
    · rw [parseDigits_append, ih (n / 10) (by omega)]
      simp only [Option.bind_some, parseDigits_single]
      congr 1
      omega

theorem parseDigits_natDigits (n : Nat) : parseDigits 0 (natDigits n) = some n :=
  parseDigits_natDigitsF n n (Nat.le_refl n)

theorem parseDigits_fixedDigits : ∀ (w m acc : Nat),
    parseDigits acc (fixedDigits w m) = some (acc * 10 ^ w + m % 10 ^ w) := by
  intro w
  induction w with
  | zero => intro m acc; simp [fixedDigits, parseDigits, Nat.mod_one]
  | succ w ih =>
    intro m acc
    unfold fixedDigits
    rw [parseDigits_append, ih]
    simp only [Option.bind_some, parseDigits_single]
    congr 1
    have h := Nat.mod_mul (x := m) (a := 10) (b := 10 ^ w)
    rw [pow_succ, Nat.mul_comm (10 ^ w) 10, h]
    ring

theorem length_fixedDigits : ∀ (w m : Nat), (fixedDigits w m).length = w := by
  intro w
  induction w with
  | zero => intro m; rfl
  | succ w ih => intro m; simp [fixedDigits, ih]

theorem natDigitsF_ne_nil (f n : Nat) : natDigitsF f n ≠ [] := by
  cases f with
  | zero => simp [natDigitsF]
  | succ f => unfold natDigitsF; split_ifs <;> simp

theorem all_isDigit_natDigitsF : ∀ (f n : Nat), ∀ c ∈ natDigitsF f n, isDigit c = true := by
  intro f
  induction f with
  | zero => intro n c hc; simp [natDigitsF] at hc; subst hc; exact isDigit_digitChar _
  | succ f ih =>
    intro n c hc
    unfold natDigitsF at hc
    split_ifs at hc
    · simp at hc; subst hc; exact isDigit_digitChar _
    · rw [List.mem_append] at hc
      rcases hc with hc | hc
      · exact ih _ c hc
      · simp at hc; subst hc; exact isDigit_digitChar _

theorem all_isDigit_fixedDigits : ∀ (w m : Nat), ∀ c ∈ fixedDigits w m, isDigit c = true := by
  intro w
  induction w with
  | zero => intro m c hc; simp [fixedDigits] at hc
  | succ w ih =>
    intro m c hc
    unfold fixedDigits at hc
    rw [List.mem_append] at hc
    rcases hc with hc | hc
    · exact ih _ c hc
    · simp at hc; subst hc; exact isDigit_digitChar _

/-! ## `parseDec ∘ Dec.chars` -/

theorem natDigits_shape (n : Nat) : ∃ c tl, natDigits n = c :: tl ∧ isDigit c = true ∧
    ∀ x ∈ tl, isDigit x = true := by
  have hne := natDigitsF_ne_nil n n
  have hall := all_isDigit_natDigitsF n n
  unfold natDigits
  cases h : natDigitsF n n with
  | nil => exact absurd h hne
  | cons c tl =>
    rw [h] at hall
    exact ⟨c, tl, rfl, hall c List.mem_cons_self, fun x hx => hall x (List.mem_cons_of_mem _ hx)⟩

theorem span_all {α} (p : α → Bool) (l : List α) (h : ∀ x ∈ l, p x = true) : l.span p = (l, []) := by
  rw [List.span_eq_takeWhile_dropWhile]
  induction l with
  | nil => rfl
  | cons x xs ih =>
    have hx := h x List.mem_cons_self
    have := ih (fun y hy => h y (List.mem_cons_of_mem _ hy))
    simp only [Prod.mk.injEq] at this
    simp [List.takeWhile_cons, List.dropWhile_cons, hx, this.1, this.2]

/-- The unsigned part: integer digits, then (for `p > 0`) a point and exactly `p` digits. -/
theorem parseUnsignedDec_print (a p : Nat) :
    parseUnsignedDec (natDigits (a / 10 ^ p) ++ (if p = 0 then [] else '.' :: fixedDigits p (a % 10 ^ p)))
      = some (a, p) := by
  have hd := all_isDigit_natDigitsF (a / 10 ^ p) (a / 10 ^ p)
  unfold parseUnsignedDec
  by_cases hp : p = 0
  · subst hp
    simp only [if_true, List.append_nil, pow_zero, Nat.div_one]
    rw [span_all isDigit _ (by simpa [natDigits] using all_isDigit_natDigitsF a a)]
    simp only [parseNat]
    have hne : (natDigits a).isEmpty = false := by
      have := natDigitsF_ne_nil a a
      cases h : natDigits a with
      | nil => exact absurd h this
      | cons _ _ => rfl
    simp [hne, parseDigits_natDigits]
  · simp only [hp, if_false]
    rw [span_append_stop isDigit _ '.' _ (by simpa [natDigits] using hd) (by decide)]
    simp only [if_true]
    have hne : (natDigits (a / 10 ^ p)).isEmpty = false := by
      have := natDigitsF_ne_nil (a / 10 ^ p) (a / 10 ^ p)
      cases h : natDigits (a / 10 ^ p) with
      | nil => exact absurd h this
      | cons _ _ => rfl
    simp only [hne, Bool.false_and, Bool.false_eq_true, if_false]
    rw [parseDigits_append, parseDigits_natDigits]
    simp only [Option.bind_some, parseDigits_fixedDigits, length_fixedDigits, Option.map_some]
    congr 2
    rw [Nat.mod_mod, Nat.mul_comm]
    exact Nat.div_add_mod a (10 ^ p)

/-- **Printing then parsing a decimal gives it back** (mantissa and number of digits). -/
theorem parseDec_chars (d : Dec) : parseDec d.chars = some d := by
  obtain ⟨mant, p⟩ := d
  unfold Dec.chars
  simp only
  obtain ⟨c, tl, hc, hcd, _⟩ := natDigits_shape (mant.natAbs / 10 ^ p)
  by_cases hneg : mant < 0
  · simp only [hneg, if_true, List.cons_append, List.nil_append, List.append_assoc]
    unfold parseDec
    simp only [if_true]
    rw [parseUnsignedDec_print]
    simp only [Option.map_some]
    congr 2
    omega
  · simp only [hneg, if_false, List.nil_append]
    have key := parseUnsignedDec_print mant.natAbs p
    rw [hc] at key ⊢
    simp only [List.cons_append] at key ⊢
    unfold parseDec
    have h1 : c ≠ '-' := by rintro rfl; exact absurd hcd (by decide)
    have h2 : c ≠ '+' := by rintro rfl; exact absurd hcd (by decide)
    simp only [h1, h2, if_false, key, Option.map_some]
    congr 2
    omega

theorem parseDecNonneg_chars (d : Dec) (h : 0 ≤ d.mant) : parseDecNonneg d.chars = some d := by
  obtain ⟨mant, p⟩ := d
  simp only at h
  unfold parseDecNonneg Dec.chars
  simp only [not_lt.mpr h, if_false, List.nil_append]
  rw [parseUnsignedDec_print]
  simp only [Option.map_some]
  congr 2
  omega

/-! ## `float(...)` on a printed decimal -/

theorem decChar_of_isDigit {c : Char} (h : isDigit c = true) : decChar c = true := by
  simp [decChar, h]

theorem all_decChar_chars (d : Dec) : ∀ c ∈ d.chars, decChar c = true := by
  intro c hc
  unfold Dec.chars at hc
  simp only [List.mem_append] at hc
  rcases hc with (hc | hc) | hc
  · split_ifs at hc
    · simp at hc; subst hc; decide
    · simp at hc
  · exact decChar_of_isDigit (all_isDigit_natDigitsF _ _ c hc)
  · split_ifs at hc
    · simp at hc
    · rw [List.mem_cons] at hc
      rcases hc with rfl | hc
      · decide
      · exact decChar_of_isDigit (all_isDigit_fixedDigits _ _ c hc)

theorem chars_ne_nil (d : Dec) : d.chars ≠ [] := by
  unfold Dec.chars
  obtain ⟨c, tl, hc, _, _⟩ := natDigits_shape (d.mant.natAbs / 10 ^ d.prec)
  simp only [hc]
  split_ifs <;> simp

theorem strip_of_all_nonwhite (l : List Char) (h : ∀ c ∈ l, isPyWhite c = false) : strip l = l := by
  cases l with
  | nil => rfl
  | cons c tl =>
    have hh : HeadOk (c :: tl) := ⟨c, tl, rfl, h c List.mem_cons_self⟩
    have hl : LastOk (c :: tl) := by
      have hne : (c :: tl) ≠ [] := by simp
      refine ⟨(c :: tl).dropLast, (c :: tl).getLast hne, (List.dropLast_append_getLast hne).symm, ?_⟩
      exact h _ (List.getLast_mem hne)
    simpa using strip_of_ok (c :: tl) [] hh hl (by simp)

/-- **`float(str)` of a printed decimal is its value.** -/
theorem parseFloat_chars (d : Dec) : parseFloat d.chars = some d.val := by
  unfold parseFloat
  rw [strip_of_all_nonwhite _ (fun c hc => (decChar_props c (all_decChar_chars d c hc)).1)]
  rw [span_all _ _ (fun c hc => by simp [(decChar_props c (all_decChar_chars d c hc)).2.1])]
  simp [parseDec_chars]

/-- `decOfRat` only ever returns a decimal with the same value. -/
theorem decOfRatF_val : ∀ (fuel p : Nat) (x : Rat) (d : Dec), decOfRatF fuel p x = some d → d.val = x := by
  intro fuel
  induction fuel with
  | zero => intro p x d h; simp [decOfRatF] at h
  | succ fuel ih =>
    intro p x d h
    unfold decOfRatF at h
    simp only at h
    split_ifs at h with hden
    · simp only [Option.some.injEq] at h
      subst h
      unfold Dec.val
      simp only
      have hq : (0 : Rat) < ((10 ^ p : Nat) : Rat) := pow10_pos p
      have hnum : ((x * ((10 ^ p : Nat) : Rat)).num : Rat) = x * ((10 ^ p : Nat) : Rat) := by
        have := Rat.num_div_den (x * ((10 ^ p : Nat) : Rat))
        rw [hden] at this
        simpa using this
      rw [hnum]
      field_simp
    · exact ih _ _ _ h

theorem decOfRat_val (x : Rat) (d : Dec) (h : decOfRat x = some d) : d.val = x :=
  decOfRatF_val _ _ _ _ h

/-! ## text files -/

theorem pyLinesAux_line (l : List Char) (h : ∀ c ∈ l, c ≠ '\n') : ∀ (cur rest : List Char),
    pyLinesAux cur (l ++ '\n' :: rest) = (cur ++ l ++ ['\n']) :: pyLinesAux [] rest := by
  induction l with
  | nil => intro cur rest; simp [pyLinesAux]
  | cons c cs ih =>
    intro cur rest
    have hc : c ≠ '\n' := h c List.mem_cons_self
    simp only [List.cons_append, pyLinesAux, hc, if_false]
    rw [ih (fun x hx => h x (List.mem_cons_of_mem _ hx))]
    simp

/-- Iterating over a file that consists of `'\n'`-terminated lines yields those lines. -/
theorem pyLines_flatten (ls : List (List Char)) (h : ∀ l ∈ ls, ∀ c ∈ l, c ≠ '\n') :
    pyLines ((ls.map (fun l => l ++ ['\n'])).flatten) = ls.map (fun l => l ++ ['\n']) := by
  unfold pyLines
  induction ls with
  | nil => rfl
  | cons l ls ih =>
    simp only [List.map_cons, List.flatten_cons, List.append_assoc, List.singleton_append]
    rw [pyLinesAux_line l (h l List.mem_cons_self)]
    rw [ih (fun l' hl' => h l' (List.mem_cons_of_mem _ hl'))]
    simp

theorem universalNewlines_id : ∀ (s : List Char), (∀ c ∈ s, c ≠ '\r') → universalNewlines s = s
  | [], _ => rfl
  | [c], h => by simp [universalNewlines, h c (by simp)]
  | c :: d :: ds, h => by
    have hc : c ≠ '\r' := h c (by simp)
    rw [universalNewlines, if_neg hc,
      universalNewlines_id (d :: ds) (fun x hx => h x (List.mem_cons_of_mem _ hx))]

/-- Written through `newline="\r\n"`, read in text mode: the original characters. -/
theorem universalNewlines_crlf : ∀ (s : List Char), (∀ c ∈ s, c ≠ '\r') →
    universalNewlines (crlf s) = s := by
  intro s
  induction s with
  | nil => intro _; rfl
  | cons c cs ih =>
    intro h
    have hc : c ≠ '\r' := h c List.mem_cons_self
    have ih' := ih (fun x hx => h x (List.mem_cons_of_mem _ hx))
    by_cases hn : c = '\n'
    · subst hn
      simp only [crlf, if_true]
      rw [universalNewlines]
      simp [ih']
    · simp only [crlf, hn, if_false]
      cases hcs : crlf cs with
      | nil =>
        rw [hcs] at ih'
        simp [universalNewlines, hc, ← ih']
      | cons d ds =>
        rw [universalNewlines, if_neg hc, ← hcs, ih']

/-! ## ctm lines -/

theorem cutComment_field : ∀ (fld : List Char), hasComment fld = false → ∀ (c : Char), c ≠ ';' →
    ∀ (rest : List Char), cutComment (fld ++ c :: rest) = fld ++ c :: cutComment rest
  | [], _, c, hc, rest => by
    cases rest with
    | nil => simp [cutComment]
    | cons r rs => simp [cutComment, hc]
  | [x], _, c, hc, rest => by
    have h0 := cutComment_field [] rfl c hc rest
    simp only [List.nil_append] at h0
    simp [cutComment, hc, h0]
  | x :: y :: t, h, c, hc, rest => by
    simp only [hasComment, Bool.or_eq_false_iff, Bool.and_eq_false_iff, beq_eq_false_iff_ne] at h
    have ih := cutComment_field (y :: t) h.2 c hc rest
    simp only [List.cons_append] at ih ⊢
    have hxy : ¬(x = ';' ∧ y = ';') := by
      rintro ⟨rfl, rfl⟩
      rcases h.1 with h1 | h1 <;> exact h1 rfl
    rw [cutComment, if_neg hxy, ih]

theorem hasComment_of_no_semi : ∀ (l : List Char), (∀ c ∈ l, c ≠ ';') → hasComment l = false
  | [], _ => rfl
  | [_], _ => rfl
  | x :: y :: t, h => by
    have hx : x ≠ ';' := h x (by simp)
    simp only [hasComment, Bool.or_eq_false_iff, Bool.and_eq_false_iff, beq_eq_false_iff_ne]
    exact ⟨.inl hx, hasComment_of_no_semi (y :: t) (fun c hc => h c (List.mem_cons_of_mem _ hc))⟩

theorem hasComment_chars (d : Dec) : hasComment d.chars = false :=
  hasComment_of_no_semi _ (fun c hc => (decChar_props c (all_decChar_chars d c hc)).2.2.2.2.1)

theorem splitWsAux_word (w : List Char) (hw : ∀ c ∈ w, isPyWhite c = false) : ∀ (cur rest : List Char),
    cur ++ w ≠ [] → splitWsAux cur (w ++ ' ' :: rest) = (cur ++ w) :: splitWsAux [] rest := by
  induction w with
  | nil =>
    intro cur rest hne
    have : cur.isEmpty = false := by cases cur <;> simp_all
    simp [splitWsAux, isPyWhite, this]
  | cons c cs ih =>
    intro cur rest _
    have hc := hw c List.mem_cons_self
    simp only [List.cons_append, splitWsAux, hc, Bool.false_eq_true, if_false]
    rw [ih (fun x hx => hw x (List.mem_cons_of_mem _ hx)) (cur ++ [c]) rest (by simp)]
    simp

theorem splitWsAux_last (w : List Char) (hw : ∀ c ∈ w, isPyWhite c = false) : ∀ (cur : List Char),
    cur ++ w ≠ [] → splitWsAux cur w = [cur ++ w] := by
  induction w with
  | nil =>
    intro cur hne
    have : cur.isEmpty = false := by cases cur <;> simp_all
    simp [splitWsAux, this]
  | cons c cs ih =>
    intro cur _
    have hc := hw c List.mem_cons_self
    simp only [splitWsAux, hc, Bool.false_eq_true, if_false]
    rw [ih (fun x hx => hw x (List.mem_cons_of_mem _ hx)) (cur ++ [c]) (by simp)]
    simp

/-- What `ctmFieldOk` gives. -/
theorem ctmFieldOk_iff (s : List Char) : ctmFieldOk s = true ↔
    s ≠ [] ∧ (∀ c ∈ s, isPyWhite c = false) ∧ hasComment s = false := by
  unfold ctmFieldOk
  cases s with
  | nil => simp
  | cons c tl => simp [List.all_eq_true]

theorem chars_nonwhite (d : Dec) : ∀ c ∈ d.chars, isPyWhite c = false :=
  fun c hc => (decChar_props c (all_decChar_chars d c hc)).1

/-- The columns of a printed line are found again. -/
theorem readCtmFields_line (s : SegT) (hw : ctmFieldOk s.wfn = true) (hc : ctmFieldOk s.chan = true)
    (ht : ctmFieldOk s.tok = true) :
    readCtmFields s.line = .ok (some ⟨s.wfn, s.chan, s.start.chars, s.dur.chars, s.tok⟩) := by
  obtain ⟨w1, w2, w3⟩ := (ctmFieldOk_iff _).mp hw
  obtain ⟨c1, c2, c3⟩ := (ctmFieldOk_iff _).mp hc
  obtain ⟨t1, t2, t3⟩ := (ctmFieldOk_iff _).mp ht
  -- the comment cut changes nothing
  have hcut : cutComment s.line = s.line := by
    unfold SegT.line
    rw [cutComment_field _ w3 ' ' (by decide), cutComment_field _ c3 ' ' (by decide),
      cutComment_field _ (hasComment_chars _) ' ' (by decide),
      cutComment_field _ (hasComment_chars _) ' ' (by decide),
      cutComment_field _ t3 '\n' (by decide)]
    rfl
  -- the line is a core without white ends plus the line end
  set core := s.wfn ++ ' ' :: (s.chan ++ ' ' :: (s.start.chars ++ ' ' :: (s.dur.chars ++ ' ' :: s.tok))) with hcore
  have hline : s.line = core ++ ['\n'] := by simp [SegT.line, hcore]
  have hh : HeadOk core := by
    cases hwf : s.wfn with
    | nil => exact absurd hwf w1
    | cons a tl =>
      refine ⟨a, tl ++ ' ' :: (s.chan ++ ' ' :: (s.start.chars ++ ' ' :: (s.dur.chars ++ ' ' :: s.tok))), ?_,
        w2 a (by simp [hwf])⟩
      rw [hcore, hwf]; rfl
  have hl : LastOk core := by
    have hne := t1
    refine ⟨s.wfn ++ ' ' :: (s.chan ++ ' ' :: (s.start.chars ++ ' ' :: (s.dur.chars ++ ' ' :: s.tok.dropLast))),
      s.tok.getLast hne, ?_, t2 _ (List.getLast_mem hne)⟩
    rw [hcore]
    conv => lhs; rw [← List.dropLast_append_getLast hne]
    simp
  have hstrip : strip (core ++ ['\n']) = core := strip_of_ok core ['\n'] hh hl (by simp [isPyWhite])
  have hcne : core.isEmpty = false := by
    obtain ⟨a, tl, h, _⟩ := hh
    rw [h]; rfl
  have hsplit : splitWs core = [s.wfn, s.chan, s.start.chars, s.dur.chars, s.tok] := by
    unfold splitWs
    rw [hcore, splitWsAux_word _ w2 [] _ (by simpa using w1), splitWsAux_word _ c2 [] _ (by simpa using c1),
      splitWsAux_word _ (chars_nonwhite _) [] _ (by simpa using chars_ne_nil _),
      splitWsAux_word _ (chars_nonwhite _) [] _ (by simpa using chars_ne_nil _),
      splitWsAux_last _ t2 [] (by simpa using t1)]
    simp
  have hl2 : strip (cutComment s.line) = core := by rw [hcut, hline, hstrip]
  unfold readCtmFields
  simp only [hl2, hcne, Bool.false_eq_true, if_false, hsplit]

theorem readSegText_line (w2u : Option (String × String → Option String)) (s : SegT) :
    readSegText w2u ⟨s.wfn, s.chan, s.start.chars, s.dur.chars, s.tok⟩ = readSeg w2u s.toSeg := by
  unfold readSegText
  simp only [parseFloat_chars]
  unfold readSeg SegT.toSeg
  simp only
  cases w2u with
  | none => rfl
  | some g =>
    simp only
    cases g (String.ofList s.wfn, String.ofList s.chan) <;> rfl

theorem readCtmLineText_line (w2u : Option (String × String → Option String)) (s : SegT)
    (hw : ctmFieldOk s.wfn = true) (hc : ctmFieldOk s.chan = true) (ht : ctmFieldOk s.tok = true) :
    readCtmLineText w2u s.line = (readSeg w2u s.toSeg).map some := by
  unfold readCtmLineText
  rw [readCtmFields_line s hw hc ht]
  simp only [readSegText_line]

theorem collect_map_mapSome {α β ε} (g : α → Except ε β) (l : List α) :
    collect (l.map (fun x => (g x).map some)) = (collect (l.map g)).map (List.map some) := by
  induction l with
  | nil => rfl
  | cons x xs ih =>
    simp only [List.map_cons]
    cases hx : g x with
    | error e => rfl
    | ok b =>
      have h0 : Except.map some (Except.ok b : Except ε β) = Except.ok (some b) := rfl
      rw [h0]
      simp only [collect, ih]
      cases collect (xs.map g) <;> rfl

theorem collect_eq_mapM {α β ε} (g : α → Except ε β) (l : List α) : collect (l.map g) = l.mapM g := by
  induction l with
  | nil => rfl
  | cons x xs ih =>
    simp only [List.map_cons, List.mapM_cons]
    cases hx : g x with
    | error e => simp [collect, bind, Except.bind]
    | ok b =>
      simp only [collect, ih, bind, Except.bind]
      cases xs.mapM g <;> simp [pure, Except.pure]

/-- The characters of a line without the line end. -/
def SegT.body (s : SegT) : List Char :=
  s.wfn ++ ' ' :: (s.chan ++ ' ' :: (s.start.chars ++ ' ' :: (s.dur.chars ++ ' ' :: s.tok)))

theorem SegT.line_eq (s : SegT) : s.line = s.body ++ ['\n'] := by simp [SegT.line, SegT.body]

theorem white_newline : isPyWhite '\n' = true := by decide

theorem SegT.body_no_newline (s : SegT) (hw : ctmFieldOk s.wfn = true) (hc : ctmFieldOk s.chan = true)
    (ht : ctmFieldOk s.tok = true) : ∀ c ∈ s.body, c ≠ '\n' := by
  obtain ⟨_, w2, _⟩ := (ctmFieldOk_iff _).mp hw
  obtain ⟨_, c2, _⟩ := (ctmFieldOk_iff _).mp hc
  obtain ⟨_, t2, _⟩ := (ctmFieldOk_iff _).mp ht
  have nw : ∀ (l : List Char), (∀ c ∈ l, isPyWhite c = false) → ∀ c ∈ l, c ≠ '\n' := by
    intro l hl c hc h
    subst h
    have := hl _ hc
    rw [white_newline] at this
    exact absurd this (by decide)
  intro c hcm
  simp only [SegT.body, List.mem_append, List.mem_cons] at hcm
  rcases hcm with h | rfl | h | rfl | h | rfl | h | rfl | h
  · exact nw _ w2 c h
  · decide
  · exact nw _ c2 c h
  · decide
  · exact nw _ (chars_nonwhite _) c h
  · decide
  · exact nw _ (chars_nonwhite _) c h
  · decide
  · exact nw _ t2 c h

/-- **Reading the characters `write_ctm` writes = reading the records**, for every mapping, errors
included: lines are found again by the file iteration, the comment cut and the strip change
nothing, the split returns the five columns, `float` returns the two numbers. -/
theorem readCtmText_lines (w2u : Option (String × String → Option String)) (segs : List SegT)
    (hok : ∀ s ∈ segs, ctmFieldOk s.wfn = true ∧ ctmFieldOk s.chan = true ∧ ctmFieldOk s.tok = true) :
    readCtmText w2u ((segs.map SegT.line).flatten) = readCtm w2u (segs.map SegT.toSeg) := by
  have hlines : segs.map SegT.line = (segs.map SegT.body).map (fun l => l ++ ['\n']) := by
    rw [List.map_map]
    exact List.map_congr_left (fun s _ => s.line_eq)
  unfold readCtmText readCtm
  rw [hlines, pyLines_flatten _ (by
    intro l hl
    rw [List.mem_map] at hl
    obtain ⟨s, hs, rfl⟩ := hl
    exact s.body_no_newline (hok s hs).1 (hok s hs).2.1 (hok s hs).2.2), ← hlines]
  have hmap : (segs.map SegT.line).map (readCtmLineText w2u)
      = segs.map (fun s => (readSeg w2u s.toSeg).map some) := by
    rw [List.map_map]
    exact List.map_congr_left (fun s hs =>
      readCtmLineText_line w2u s (hok s hs).1 (hok s hs).2.1 (hok s hs).2.2)
  rw [hmap, collect_map_mapSome (fun s : SegT => readSeg w2u s.toSeg) segs]
  rw [← collect_eq_mapM, List.map_map]
  simp only [Function.comp_def]
  cases collect (segs.map (fun s => readSeg w2u s.toSeg)) with
  | error e => rfl
  | ok kvs =>
    have : (List.map some kvs).filterMap id = kvs := by simp [List.filterMap_map]
    simp only [Except.map, this]

/-! ## TextGrid text -/

theorem takeLine_line (l rest : List Char) (h : ∀ c ∈ l, c ≠ '\n') :
    takeLine (line l ++ rest) = (l, rest) := by
  unfold takeLine line
  have : l ++ ['\n'] ++ rest = l ++ '\n' :: rest := by simp
  rw [this, span_append_stop (fun c => c != '\n') l '\n' rest (by simpa using h) (by decide)]

theorem unquote_quoted (s : List Char) : unquote (quoted s) = some s := by
  unfold unquote quoted
  simp

theorem takeQuoted_quoted (tok rest : List Char) (h : ∀ c ∈ tok, c ≠ '"') :
    takeQuoted (quoted tok ++ rest) = some (tok, rest) := by
  unfold takeQuoted quoted
  have : '"' :: (tok ++ ['"']) ++ rest = '"' :: (tok ++ '"' :: rest) := by simp
  rw [this]
  simp only [if_true]
  rw [span_append_stop (fun c => c != '"') tok '"' rest (by simpa using h) (by decide)]

theorem chars_no_newline (d : Dec) : ∀ c ∈ d.chars, c ≠ '\n' :=
  fun c hc => (decChar_props c (all_decChar_chars d c hc)).2.2.1

theorem tgLabelOk_iff (s : String) : tgLabelOk s = true ↔ ∀ c ∈ s.toList, c ≠ '"' ∧ c ≠ '\r' := by
  simp [tgLabelOk, List.all_eq_true]

theorem pointChars_eq (e : Dec × String) (rest : List Char) :
    pointChars e ++ rest = line e.1.chars ++ (quoted e.2.toList ++ (line [] ++ rest)) := by
  simp [pointChars, line]

theorem intervalChars_eq (e : Dec × Dec × String) (rest : List Char) :
    intervalChars e ++ rest
      = line e.1.chars ++ (line e.2.1.chars ++ (quoted e.2.2.toList ++ (line [] ++ rest))) := by
  simp [intervalChars, line]

theorem parsePoints_chars : ∀ (l : List (Dec × String)), (∀ e ∈ l, tgLabelOk e.2 = true) →
    ∀ fuel, l.length < fuel → parsePoints fuel ((l.map pointChars).flatten) = some l := by
  intro l
  induction l with
  | nil =>
    intro _ fuel hf
    cases fuel with
    | zero => omega
    | succ f => simp [parsePoints]
  | cons e es ih =>
    intro hok fuel hf
    cases fuel with
    | zero => omega
    | succ f =>
      have hlab := (tgLabelOk_iff e.2).mp (hok e List.mem_cons_self)
      simp only [List.map_cons, List.flatten_cons]
      have hne : (pointChars e ++ (es.map pointChars).flatten).isEmpty = false := by
        simp [pointChars, line]
      unfold parsePoints
      simp only [hne, Bool.false_eq_true, if_false]
      rw [pointChars_eq, takeLine_line _ _ (chars_no_newline _)]
      simp only [parseDec_chars, takeQuoted_quoted _ _ (fun c hc => (hlab c hc).1)]
      rw [takeLine_line [] _ (by simp)]
      simp only [ih (fun x hx => hok x (List.mem_cons_of_mem _ hx)) f (by simp at hf; omega),
        Option.map_some, String.ofList_toList]

theorem parseIntervals_chars : ∀ (l : List (Dec × Dec × String)), (∀ e ∈ l, tgLabelOk e.2.2 = true) →
    ∀ fuel, l.length < fuel → parseIntervals fuel ((l.map intervalChars).flatten) = some l := by
  intro l
  induction l with
  | nil =>
    intro _ fuel hf
    cases fuel with
    | zero => omega
    | succ f => simp [parseIntervals]
  | cons e es ih =>
    intro hok fuel hf
    cases fuel with
    | zero => omega
    | succ f =>
      have hlab := (tgLabelOk_iff e.2.2).mp (hok e List.mem_cons_self)
      simp only [List.map_cons, List.flatten_cons]
      have hne : (intervalChars e ++ (es.map intervalChars).flatten).isEmpty = false := by
        simp [intervalChars, line]
      unfold parseIntervals
      simp only [hne, Bool.false_eq_true, if_false]
      rw [intervalChars_eq, takeLine_line _ _ (chars_no_newline _)]
      simp only
      rw [takeLine_line _ _ (chars_no_newline _)]
      simp only [parseDec_chars, takeQuoted_quoted _ _ (fun c hc => (hlab c hc).1)]
      rw [takeLine_line [] _ (by simp)]
      simp only [ih (fun x hx => hok x (List.mem_cons_of_mem _ hx)) f (by simp at hf; omega),
        Option.map_some, String.ofList_toList]

theorem length_flatten_ge {α} (f : α → List Char) (h : ∀ x, 1 ≤ (f x).length) :
    ∀ (l : List α), l.length ≤ ((l.map f).flatten).length := by
  intro l
  induction l with
  | nil => simp
  | cons x xs ih =>
    simp only [List.map_cons, List.flatten_cons, List.length_append, List.length_cons]
    have := h x
    omega

theorem natDigits_no_newline (n : Nat) : ∀ c ∈ natDigits n, c ≠ '\n' := by
  intro c hc
  exact (decChar_props c (decChar_of_isDigit (all_isDigit_natDigitsF n n c hc))).2.2.1

theorem parseNat_natDigits (n : Nat) : parseNat (natDigits n) = some n := by
  unfold parseNat
  have hne : (natDigits n).isEmpty = false := by
    have := natDigitsF_ne_nil n n
    cases h : natDigits n with
    | nil => exact absurd h this
    | cons _ _ => rfl
  simp [hne, parseDigits_natDigits]

theorem tgNameOk_iff (s : String) : tgNameOk s = true ↔ ∀ c ∈ s.toList, c ≠ '\n' ∧ c ≠ '\r' := by
  simp [tgNameOk, List.all_eq_true]

theorem quoted_no_newline (s : List Char) (h : ∀ c ∈ s, c ≠ '\n') : ∀ c ∈ quoted s, c ≠ '\n' := by
  intro c hc
  simp only [quoted, List.mem_cons, List.mem_append, List.not_mem_nil, or_false] at hc
  rcases hc with rfl | hc | rfl
  · decide
  · exact h c hc
  · decide

/-- One tier: class, name, bounds, size and all the entries are found again. -/
theorem parseTier_chars (name : String) (tmin tmax : Dec) (body : TgBody)
    (hn : tgNameOk name = true) (h1 : 0 ≤ tmin.mant) (h2 : 0 ≤ tmax.mant) (hb : body.textOk = true) :
    parseTier (tierChars name tmin tmax body) = some (name, tmin, tmax, body) := by
  have hname := (tgNameOk_iff name).mp hn
  unfold parseTier tierChars
  have hcls : ∀ c ∈ quoted body.className, c ≠ '\n' := by
    apply quoted_no_newline
    cases body <;> (simp only [TgBody.className]; decide)
  rw [takeLine_line _ _ hcls]
  simp only
  rw [takeLine_line _ _ (quoted_no_newline _ (fun c hc => (hname c hc).1))]
  simp only
  rw [takeLine_line _ _ (chars_no_newline _)]
  simp only
  rw [takeLine_line _ _ (chars_no_newline _)]
  simp only
  have hsz := takeLine_line (natDigits body.size) body.chars (natDigits_no_newline _)
  rw [hsz]
  simp only [unquote_quoted, parseDecNonneg_chars _ h1, parseDecNonneg_chars _ h2, parseNat_natDigits,
    String.ofList_toList]
  cases body with
  | points l =>
    have hl : ∀ e ∈ l, tgLabelOk e.2 = true := by
      intro e he
      simp only [TgBody.textOk, List.all_eq_true, Bool.and_eq_true] at hb
      exact (hb e he).2
    have hlen := length_flatten_ge pointChars (fun e => by simp [pointChars, line]; omega) l
    simp only [TgBody.className, TgBody.chars, if_true]
    rw [parsePoints_chars l hl _ (by omega)]
    simp only [Option.map_some]
  | intervals l =>
    have hl : ∀ e ∈ l, tgLabelOk e.2.2 = true := by
      intro e he
      simp only [TgBody.textOk, List.all_eq_true, Bool.and_eq_true] at hb
      exact (hb e he).2
    have hlen := length_flatten_ge intervalChars (fun e => by simp [intervalChars, line]; omega) l
    have hne : ¬ (clsInterval = clsText) := by decide
    simp only [TgBody.className, TgBody.chars, hne, if_false, if_true]
    rw [parseIntervals_chars l hl _ (by omega)]
    simp only [Option.map_some]

/-- **The characters `write_textgrid` writes parse back to the structure they were printed from.** -/
theorem parseTg_chars (f : TgFile) (h : f.textOk = true) : parseTg f.chars = some f := by
  obtain ⟨xmin, xmax, name, tmin, tmax, body⟩ := f
  simp only [TgFile.textOk, Bool.and_eq_true, decide_eq_true_eq] at h
  obtain ⟨⟨⟨⟨⟨_, _⟩, h3⟩, h4⟩, hn⟩, hb⟩ := h
  unfold parseTg TgFile.chars
  simp only
  rw [takeLine_line _ _ (by decide)]
  simp only
  rw [takeLine_line _ _ (by decide)]
  simp only
  rw [takeLine_line _ _ (chars_no_newline _)]
  simp only
  rw [takeLine_line _ _ (chars_no_newline _)]
  simp only
  rw [takeLine_line _ _ (by decide)]
  simp only
  rw [takeLine_line _ _ (by decide)]
  have hs : strip tgHeader0 = tgHeader0 := by decide
  simp only [hs, if_true, parseDec_chars, parseTier_chars name tmin tmax body hn h3 h4 hb]

/-! ### no carriage returns in the written text -/

def NoCR (l : List Char) : Prop := ∀ c ∈ l, c ≠ '\r'

theorem NoCR.append {a b : List Char} (ha : NoCR a) (hb : NoCR b) : NoCR (a ++ b) := by
  intro c hc
  rcases List.mem_append.mp hc with h | h
  · exact ha c h
  · exact hb c h

theorem NoCR.line {l : List Char} (h : NoCR l) : NoCR (line l) :=
  h.append (by intro c hc; simp at hc; subst hc; decide)

theorem NoCR.quoted {l : List Char} (h : NoCR l) : NoCR (quoted l) := by
  intro c hc
  simp only [Transcripts.quoted, List.mem_cons, List.mem_append, List.not_mem_nil, or_false] at hc
  rcases hc with rfl | hc | rfl
  · decide
  · exact h c hc
  · decide

theorem NoCR.chars (d : Dec) : NoCR d.chars :=
  fun c hc => (decChar_props c (all_decChar_chars d c hc)).2.2.2.1

theorem NoCR.natDigits (n : Nat) : NoCR (natDigits n) :=
  fun c hc => (decChar_props c (decChar_of_isDigit (all_isDigit_natDigitsF n n c hc))).2.2.2.1

theorem NoCR.flatten {α} (f : α → List Char) (l : List α) (h : ∀ x ∈ l, NoCR (f x)) :
    NoCR ((l.map f).flatten) := by
  intro c hc
  simp only [List.mem_flatten, List.mem_map] at hc
  obtain ⟨_, ⟨x, hx, rfl⟩, hc⟩ := hc
  exact h x hx c hc

theorem NoCR.label {s : String} (h : tgLabelOk s = true) : NoCR s.toList :=
  fun c hc => ((tgLabelOk_iff s).mp h c hc).2

theorem NoCR.tgChars (f : TgFile) (h : f.textOk = true) : NoCR f.chars := by
  obtain ⟨xmin, xmax, name, tmin, tmax, body⟩ := f
  simp only [TgFile.textOk, Bool.and_eq_true, decide_eq_true_eq] at h
  obtain ⟨⟨⟨⟨⟨_, _⟩, _⟩, _⟩, hn⟩, hb⟩ := h
  have hname : NoCR name.toList := fun c hc => ((tgNameOk_iff name).mp hn c hc).2
  have hbody : NoCR body.chars := by
    cases body with
    | points l =>
      simp only [TgBody.textOk, List.all_eq_true, Bool.and_eq_true] at hb
      exact NoCR.flatten _ _ (fun e he =>
        (NoCR.chars _).line.append (NoCR.label (hb e he).2).quoted.line)
    | intervals l =>
      simp only [TgBody.textOk, List.all_eq_true, Bool.and_eq_true] at hb
      exact NoCR.flatten _ _ (fun e he =>
        (NoCR.chars _).line.append ((NoCR.chars _).line.append (NoCR.label (hb e he).2).quoted.line))
  have hcls : NoCR body.className := by
    cases body <;> (simp only [TgBody.className]; intro c hc; revert c; decide)
  unfold TgFile.chars tierChars
  exact (show NoCR tgHeader0 by intro c; revert c; decide).line.append
    ((show NoCR tgHeader1 by intro c; revert c; decide).line.append
    ((NoCR.chars _).line.append ((NoCR.chars _).line.append
    ((show NoCR tgExists by intro c; revert c; decide).line.append
    ((show NoCR ['1'] by intro c; revert c; decide).line.append
    (hcls.quoted.line.append (hname.quoted.line.append ((NoCR.chars _).line.append
    ((NoCR.chars _).line.append ((NoCR.natDigits _).line.append hbody))))))))))

/-- **Reading the characters `write_textgrid` writes (text mode) = reading the structure.** -/
theorem readTextGridText_chars (srt : TgSort) (f : TgFile) (h : f.textOk = true) (tier : TierId)
    (fill : Option String) :
    readTextGridText srt f.chars tier fill = some (readTextGrid srt f tier fill) := by
  unfold readTextGridText
  rw [universalNewlines_id _ (NoCR.tgChars f h), parseTg_chars f h]
  rfl

/-- … and the same file written through `newline="\r\n"` reads the same. -/
theorem readTextGridText_crlf (srt : TgSort) (f : TgFile) (h : f.textOk = true) (tier : TierId)
    (fill : Option String) :
    readTextGridText srt (crlf f.chars) tier fill = some (readTextGrid srt f tier fill) := by
  unfold readTextGridText
  rw [universalNewlines_crlf _ (NoCR.tgChars f h), parseTg_chars f h]
  rfl

/-! ## composing the ctm text layer with the record level -/

theorem writeCtm_ok (m : Utt2Wc) (ts : Transcripts) (wc : String → String × String)
    (hwc : ∀ ut ∈ ts, m.get ut.1 = some (wc ut.1))
    (hok : ∀ ut ∈ ts, ∀ x ∈ ut.2, timedOk x = true) :
    writeCtm m ts = .ok ((ts.map (fun ut => ut.2.map (mkSeg (wc ut.1)))).flatten.mergeSort Seg.le) := by
  have hA : ts.mapM (fun (ut : String × List Timed) => segsOfUtt m ut.1 ut.2)
      = .ok (ts.map (fun ut => ut.2.map (mkSeg (wc ut.1)))) :=
    mapM_except_ok _ _ _ (fun ut hut => segsOfUtt_ok m ut.1 ut.2 _ (hwc ut hut) (hok ut hut))
  unfold writeCtm
  rw [show (fun x : String × List Timed => match x with | (u, t) => segsOfUtt m u t)
        = (fun ut => segsOfUtt m ut.1 ut.2) from rfl, hA]

theorem allSome_eq_some {α} : ∀ (l : List (Option α)) (r : List α), allSome l = some r → l = r.map some
  | [], r, h => by simp [allSome] at h; subst h; rfl
  | none :: _, _, h => by simp [allSome] at h
  | some a :: rest, r, h => by
    simp only [allSome] at h
    cases hr : allSome rest with
    | none => simp [hr] at h
    | some r' =>
      simp only [hr, Option.map_some, Option.some.injEq] at h
      subst h
      simp [allSome_eq_some rest r' hr]

theorem segToText_some (s : Seg) (t : SegT) (h : segToText s = some t) :
    t.toSeg = s ∧ t.wfn = s.wfn.toList ∧ t.chan = s.chan.toList ∧ t.tok = s.tok.toList := by
  unfold segToText at h
  cases ha : decOfRat s.start with
  | none => simp [ha] at h
  | some a =>
    cases hb : decOfRat s.dur with
    | none => simp [ha, hb] at h
    | some b =>
      simp only [ha, hb, Option.some.injEq] at h
      subst h
      refine ⟨?_, rfl, rfl, rfl⟩
      simp [SegT.toSeg, decOfRat_val _ _ ha, decOfRat_val _ _ hb]

/-! ## what `write_textgrid` writes is printable -/

theorem roundHalfEven_nonneg {y : Rat} (h : 0 ≤ y) : 0 ≤ roundHalfEven y := by
  have h0 : roundHalfEven 0 = 0 := by
    have hf : Rat.floor 0 = 0 := by decide
    unfold roundHalfEven
    simp only [hf]
    norm_num
  have := roundHalfEven_mono h
  omega

theorem fmt_nonneg (p : Nat) {x : Rat} (h : 0 ≤ x) : 0 ≤ (fmt p x).mant := by
  unfold fmt
  exact roundHalfEven_nonneg (mul_nonneg h (le_of_lt (pow10_pos p)))

theorem foldl_min_mem : ∀ (xs : List Rat) (x : Rat), xs.foldl min x ∈ x :: xs := by
  intro xs
  induction xs with
  | nil => intro x; simp
  | cons y ys ih =>
    intro x
    simp only [List.foldl_cons]
    have := ih (min x y)
    rcases List.mem_cons.mp this with h | h
    · rw [h]
      rcases min_choice x y with hm | hm <;> rw [hm] <;> simp
    · exact List.mem_cons_of_mem _ (List.mem_cons_of_mem _ h)

theorem foldl_max_mem : ∀ (xs : List Rat) (x : Rat), xs.foldl max x ∈ x :: xs := by
  intro xs
  induction xs with
  | nil => intro x; simp
  | cons y ys ih =>
    intro x
    simp only [List.foldl_cons]
    have := ih (max x y)
    rcases List.mem_cons.mp this with h | h
    · rw [h]
      rcases max_choice x y with hm | hm <;> rw [hm] <;> simp
    · exact List.mem_cons_of_mem _ (List.mem_cons_of_mem _ h)

theorem minList_mem {l : List Rat} (h : l ≠ []) : minList l ∈ l := by
  cases l with
  | nil => exact absurd rfl h
  | cons x xs => exact foldl_min_mem xs x

theorem maxList_mem {l : List Rat} (h : l ≠ []) : maxList l ∈ l := by
  cases l with
  | nil => exact absurd rfl h
  | cons x xs => exact foldl_max_mem xs x

end PdtVerif.Transcripts
