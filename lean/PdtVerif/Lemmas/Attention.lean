import PdtVerif.Spec.Attention
import Mathlib.Algebra.Order.Field.Basic
import Mathlib.Algebra.BigOperators.Group.List.Basic
import Mathlib.Algebra.Order.BigOperators.Group.List
import Mathlib.Tactic.Ring
import Mathlib.Tactic.Linarith
import Mathlib.Tactic.FieldSimp
/-!
Helper lemmas for C20 (weighted averages over lists, the kept-pairs view of a masked
sequence, head blocks of a linear map).
-/
namespace PdtVerif.Attention

/-! ## `keptPairs` -/
section Kept
variable {κ : Type}

@[simp] theorem keptPairs_nil_left (vs : List (List κ)) (m : List Bool) :
    keptPairs ([] : List (List κ)) vs m = [] := by simp [keptPairs]

@[simp] theorem keptPairs_nil_mid (ks : List (List κ)) (m : List Bool) :
    keptPairs ks ([] : List (List κ)) m = [] := by simp [keptPairs]

@[simp] theorem keptPairs_nil_right (ks vs : List (List κ)) :
    keptPairs ks vs [] = [] := by simp [keptPairs]

@[simp] theorem keptPairs_cons_true (k v : List κ) (ks vs : List (List κ)) (m : List Bool) :
    keptPairs (k :: ks) (v :: vs) (true :: m) = (k, v) :: keptPairs ks vs m := by
  simp [keptPairs]

@[simp] theorem keptPairs_cons_false (k v : List κ) (ks vs : List (List κ)) (m : List Bool) :
    keptPairs (k :: ks) (v :: vs) (false :: m) = keptPairs ks vs m := by
  simp [keptPairs]

/-- Every kept pair sits at some kept position. -/
theorem mem_keptPairs {k v : List κ} : ∀ {ks vs : List (List κ)} {m : List Bool},
    (k, v) ∈ keptPairs ks vs m →
    ∃ t : Nat, ks[t]? = some k ∧ vs[t]? = some v ∧ m[t]? = some true
  | [], _, _, h => by simp at h
  | _ :: _, [], _, h => by simp at h
  | _ :: _, _ :: _, [], h => by simp at h
  | k' :: ks, v' :: vs, true :: m, h => by
    rw [keptPairs_cons_true, List.mem_cons] at h
    rcases h with h | h
    · exact ⟨0, by simp_all⟩
    · obtain ⟨t, h1, h2, h3⟩ := mem_keptPairs h
      exact ⟨t + 1, by simpa using h1, by simpa using h2, by simpa using h3⟩
  | k' :: ks, v' :: vs, false :: m, h => by
    rw [keptPairs_cons_false] at h
    obtain ⟨t, h1, h2, h3⟩ := mem_keptPairs h
    exact ⟨t + 1, by simpa using h1, by simpa using h2, by simpa using h3⟩

/-- A kept position exists ⇒ the kept list is not empty. -/
theorem keptPairs_ne_nil : ∀ {ks vs : List (List κ)} {m : List Bool},
    ks.length = vs.length → m.length = ks.length → true ∈ m → keptPairs ks vs m ≠ []
  | _, _, [], _, _, h => by simp at h
  | [], _, _ :: _, _, h2, _ => by simp at h2
  | _ :: _, [], _ :: _, h1, _, _ => by simp at h1
  | k :: ks, v :: vs, true :: m, _, _, _ => by simp
  | k :: ks, v :: vs, false :: m, h1, h2, h => by
    rw [keptPairs_cons_false]
    exact keptPairs_ne_nil (by simpa using h1) (by simpa using h2) (by simpa using h)

/-- The kept pairs only depend on the keys and values at kept positions. -/
theorem keptPairs_congr : ∀ {ks vs ks' vs' : List (List κ)} {m : List Bool},
    ks.length = m.length → vs.length = m.length → ks'.length = m.length → vs'.length = m.length →
    (∀ t : Nat, m[t]? = some true → ks[t]? = ks'[t]? ∧ vs[t]? = vs'[t]?) →
    keptPairs ks vs m = keptPairs ks' vs' m
  | ks, vs, ks', vs', [], _, _, _, _, _ => by simp
  | [], _, _, _, _ :: _, h, _, _, _, _ => by simp at h
  | _ :: _, [], _, _, _ :: _, _, h, _, _, _ => by simp at h
  | _ :: _, _ :: _, [], _, _ :: _, _, _, h, _, _ => by simp at h
  | _ :: _, _ :: _, _ :: _, [], _ :: _, _, _, _, h, _ => by simp at h
  | k :: ks, v :: vs, k' :: ks', v' :: vs', true :: m, h1, h2, h3, h4, h => by
    have h0 := h 0 (by simp)
    simp only [List.getElem?_cons_zero, Option.some.injEq] at h0
    rw [keptPairs_cons_true, keptPairs_cons_true, h0.1, h0.2]
    congr 1
    apply keptPairs_congr (by simpa using h1) (by simpa using h2) (by simpa using h3)
      (by simpa using h4)
    intro t ht
    simpa using h (t + 1) (by simpa using ht)
  | k :: ks, v :: vs, k' :: ks', v' :: vs', false :: m, h1, h2, h3, h4, h => by
    rw [keptPairs_cons_false, keptPairs_cons_false]
    apply keptPairs_congr (by simpa using h1) (by simpa using h2) (by simpa using h3)
      (by simpa using h4)
    intro t ht
    simpa using h (t + 1) (by simpa using ht)

theorem keptPairs_perm {ks vs ks' vs' : List (List κ)} {m m' : List Bool}
    (h : ((ks.zip vs).zip m).Perm ((ks'.zip vs').zip m')) :
    (keptPairs ks vs m).Perm (keptPairs ks' vs' m') :=
  h.filterMap _

end Kept

/-! ## Weighted averages -/
section Avg
variable {κ : Type} [Field κ] [LinearOrder κ] [IsStrictOrderedRing κ]

theorem sum_div_mul {α : Type} (l : List α) (w x : α → κ) (Z : κ) :
    (l.map (fun a => w a / Z * x a)).sum = (l.map (fun a => w a * x a)).sum / Z := by
  induction l with
  | nil => simp
  | cons a l ih => simp only [List.map_cons, List.sum_cons, ih]; ring

theorem sum_w_pos {α : Type} (l : List α) (w : α → κ) (hl : l ≠ []) (hw : ∀ a ∈ l, 0 < w a) :
    0 < (l.map w).sum := by
  induction l with
  | nil => exact absurd rfl hl
  | cons a l ih =>
    simp only [List.map_cons, List.sum_cons]
    have ha := hw a (by simp)
    by_cases h : l = []
    · subst h; simpa using ha
    · have := ih h (fun b hb => hw b (by simp [hb])); linarith

theorem sum_mul_le {α : Type} (l : List α) (w x : α → κ) (hi : κ)
    (hw : ∀ a ∈ l, 0 < w a) (hx : ∀ a ∈ l, x a ≤ hi) :
    (l.map (fun a => w a * x a)).sum ≤ hi * (l.map w).sum := by
  induction l with
  | nil => simp
  | cons a l ih =>
    simp only [List.map_cons, List.sum_cons]
    have h1 := ih (fun b hb => hw b (by simp [hb])) (fun b hb => hx b (by simp [hb]))
    have h2 : w a * x a ≤ w a * hi :=
      mul_le_mul_of_nonneg_left (hx a (by simp)) (le_of_lt (hw a (by simp)))
    linarith

theorem le_sum_mul {α : Type} (l : List α) (w x : α → κ) (lo : κ)
    (hw : ∀ a ∈ l, 0 < w a) (hx : ∀ a ∈ l, lo ≤ x a) :
    lo * (l.map w).sum ≤ (l.map (fun a => w a * x a)).sum := by
  induction l with
  | nil => simp
  | cons a l ih =>
    simp only [List.map_cons, List.sum_cons]
    have h1 := ih (fun b hb => hw b (by simp [hb])) (fun b hb => hx b (by simp [hb]))
    have h2 : w a * lo ≤ w a * x a :=
      mul_le_mul_of_nonneg_left (hx a (by simp)) (le_of_lt (hw a (by simp)))
    linarith

/-- A normalised positive-weight average lies below any upper bound of its terms. -/
theorem wavg_le {α : Type} (l : List α) (w x : α → κ) (hi : κ) (hl : l ≠ [])
    (hw : ∀ a ∈ l, 0 < w a) (hx : ∀ a ∈ l, x a ≤ hi) :
    (l.map (fun a => w a / (l.map w).sum * x a)).sum ≤ hi := by
  rw [sum_div_mul, div_le_iff₀ (sum_w_pos l w hl hw)]
  exact sum_mul_le l w x hi hw hx

theorem le_wavg {α : Type} (l : List α) (w x : α → κ) (lo : κ) (hl : l ≠ [])
    (hw : ∀ a ∈ l, 0 < w a) (hx : ∀ a ∈ l, lo ≤ x a) :
    lo ≤ (l.map (fun a => w a / (l.map w).sum * x a)).sum := by
  rw [sum_div_mul, le_div_iff₀ (sum_w_pos l w hl hw)]
  exact le_sum_mul l w x lo hw hx

omit [Field κ] [IsStrictOrderedRing κ] in
theorem exists_min {α : Type} (l : List α) (x : α → κ) (hl : l ≠ []) :
    ∃ a ∈ l, ∀ b ∈ l, x a ≤ x b := by
  induction l with
  | nil => exact absurd rfl hl
  | cons a l ih =>
    by_cases h : l = []
    · subst h; exact ⟨a, by simp, by simp⟩
    · obtain ⟨c, hc, hmin⟩ := ih h
      by_cases hac : x a ≤ x c
      · refine ⟨a, by simp, ?_⟩
        intro b hb
        rcases List.mem_cons.mp hb with rfl | hb
        · exact le_refl _
        · exact le_trans hac (hmin b hb)
      · refine ⟨c, by simp [hc], ?_⟩
        intro b hb
        rcases List.mem_cons.mp hb with rfl | hb
        · exact le_of_lt (not_le.mp hac)
        · exact hmin b hb

theorem exists_max {α : Type} (l : List α) (x : α → κ) (hl : l ≠ []) :
    ∃ a ∈ l, ∀ b ∈ l, x b ≤ x a := by
  obtain ⟨a, ha, h⟩ := exists_min l (fun b => - x b) hl
  exact ⟨a, ha, fun b hb => by have := h b hb; linarith⟩

end Avg

/-! ## Model = spec -/
section ModelSpec
variable {κ : Type} [Field κ]

/-- Denominator: the masked exponentials add up to the kept exponentials. -/
theorem maskedExp_sum (e : κ → κ) (sc : List κ → κ) : ∀ (ks vs : List (List κ)) (m : List Bool),
    ks.length = vs.length → m.length = ks.length →
    (maskedExp e (ks.map sc) m).sum = ((keptPairs ks vs m).map (fun kv => e (sc kv.1))).sum
  | [], _, _, _, _ => by simp [maskedExp]
  | _ :: _, [], _, h, _ => by simp at h
  | _ :: _, _ :: _, [], _, h => by simp at h
  | k :: ks, v :: vs, true :: m, h1, h2 => by
    have ih := maskedExp_sum e sc ks vs m (by simpa using h1) (by simpa using h2)
    simp only [maskedExp] at ih ⊢
    simp only [List.map_cons, List.zipWith_cons_cons, List.sum_cons, keptPairs_cons_true,
      ↓reduceIte, ih]
  | k :: ks, v :: vs, false :: m, h1, h2 => by
    have ih := maskedExp_sum e sc ks vs m (by simpa using h1) (by simpa using h2)
    simp only [maskedExp] at ih ⊢
    simp only [List.map_cons, List.zipWith_cons_cons, List.sum_cons, keptPairs_cons_false,
      Bool.false_eq_true, ↓reduceIte, zero_add, ih]

/-- Numerator, for any normaliser `Z`. -/
theorem wsum_masked (e : κ → κ) (sc : List κ → κ) (Z : κ) (d : Nat) : ∀ (ks vs : List (List κ)) (m : List Bool),
    ks.length = vs.length → m.length = ks.length →
    wsumCoord ((maskedExp e (ks.map sc) m).map (· / Z)) vs d
      = ((keptPairs ks vs m).map (fun kv => e (sc kv.1) / Z * kv.2.getD d 0)).sum
  | [], _, _, _, _ => by simp [maskedExp, wsumCoord]
  | _ :: _, [], _, h, _ => by simp at h
  | _ :: _, _ :: _, [], _, h => by simp at h
  | k :: ks, v :: vs, true :: m, h1, h2 => by
    have ih := wsum_masked e sc Z d ks vs m (by simpa using h1) (by simpa using h2)
    simp only [maskedExp, wsumCoord] at ih ⊢
    simp only [List.map_cons, List.zipWith_cons_cons, List.sum_cons, keptPairs_cons_true,
      ↓reduceIte, ih]
  | k :: ks, v :: vs, false :: m, h1, h2 => by
    have ih := wsum_masked e sc Z d ks vs m (by simpa using h1) (by simpa using h2)
    simp only [maskedExp, wsumCoord] at ih ⊢
    simp only [List.map_cons, List.zipWith_cons_cons, List.sum_cons, keptPairs_cons_false,
      Bool.false_eq_true, ↓reduceIte, zero_div, zero_mul, zero_add, ih]

/-- `masked_fill(-inf)` → `softmax` → weighted sum computes the declarative spec. -/
theorem attend_eq_attendSpec (th e : κ → κ) (fl : Flavour κ) (D : Nat) (q : List κ)
    (ks vs : List (List κ)) (mask : Option (List Bool))
    (hv : ks.length = vs.length) (hm : (effMask mask ks.length).length = ks.length) :
    attend th e fl D q ks vs mask = attendSpec th e fl D q ks vs mask := by
  unfold attend attendSpec weights softmaxMasked
  apply List.map_congr_left
  intro d _
  simp only
  rw [maskedExp_sum e (score th fl q) ks vs _ hv hm]
  exact wsum_masked e (score th fl q) _ d ks vs _ hv hm

theorem effMask_none_length (T : Nat) : (effMask none T).length = T := by simp [effMask]

theorem true_mem_effMask_none {T : Nat} (h : 0 < T) : true ∈ effMask none T := by
  simp [effMask]; omega

end ModelSpec

/-! ## Head blocks -/
section Heads
variable {κ : Type} [Add κ] [Mul κ] [Div κ] [Zero κ]

omit [Div κ] in
theorem headBlock_linear (d h : Nat) (W : List (List κ)) (b : Option (List κ)) (x : List κ) :
    headBlock d h (linear W b x) = linear (headBlock d h W) (b.map (headBlock d h)) x := by
  cases b with
  | none => simp [headBlock, linear, List.map_drop, List.map_take]
  | some b =>
    simp [headBlock, linear, List.map_drop, List.map_take, List.drop_zipWith, List.take_zipWith]

omit [Add κ] [Mul κ] [Div κ] [Zero κ] in
theorem unflatten_getD (H d h : Nat) (x : List κ) (hh : h < H) :
    (unflatten H d x).getD h [] = headBlock d h x := by
  simp [unflatten, headBlock, List.getD_eq_getElem?_getD, hh]

theorem bget_singleton {α : Type} (b : α) (i : Nat) (dflt : α) : bget [b] i dflt = b := by
  simp [bget]

theorem unsqueezeLast_broadcast (mm : List Bool) (h : Nat) :
    (unsqueezeLast mm).map (fun r => bget r h false) = mm := by
  induction mm with
  | nil => rfl
  | cons b mm ih =>
    simp only [unsqueezeLast, List.map_cons, List.map_map] at ih ⊢
    rw [ih, bget_singleton]

end Heads

end PdtVerif.Attention
