import PdtVerif.Spec.Attention
import Mathlib.Algebra.Order.Field.Basic
import Mathlib.Algebra.BigOperators.Group.List.Basic
import Mathlib.Algebra.Order.BigOperators.Group.List
import Mathlib.Tactic.Ring
import Mathlib.Tactic.Linarith
import Mathlib.Tactic.FieldSimp
import Mathlib.Data.List.Forall2
/-!
Helper lemmas for C20 (weighted averages over lists, the kept-pairs view of a masked
sequence, head blocks of a linear map).
-/
namespace PdtVerif.Attention

/-! ## `keptPairs` -/
section Kept
variable {κ : Type}

@[simp] theorem keptPairs_nil_left (vs : List (List κ)) (m : List Bool) :
    keptPairs ([] : List (List κ)) vs m = [] := by simp [keptPairs]

@[simp] theorem keptPairs_nil_mid (ks : List (List κ)) (m : List Bool) :
    keptPairs ks ([] : List (List κ)) m = [] := by simp [keptPairs]

@[simp] theorem keptPairs_nil_right (ks vs : List (List κ)) :
    keptPairs ks vs [] = [] := by simp [keptPairs]

@[simp] theorem keptPairs_cons_true (k v : List κ) (ks vs : List (List κ)) (m : List Bool) :
    keptPairs (k :: ks) (v :: vs) (true :: m) = (k, v) :: keptPairs ks vs m := by
  simp [keptPairs]

@[simp] theorem keptPairs_cons_false (k v : List κ) (ks vs : List (List κ)) (m : List Bool) :
    keptPairs (k :: ks) (v :: vs) (false :: m) = keptPairs ks vs m := by
  simp [keptPairs]

/-- Every kept pair sits at some kept position. -/
theorem mem_keptPairs {k v : List κ} : ∀ {ks vs : List (List κ)} {m : List Bool},
    (k, v) ∈ keptPairs ks vs m →
    ∃ t : Nat, ks[t]? = some k ∧ vs[t]? = some v ∧ m[t]? = some true
  | [], _, _, h => by simp at h
  | _ :: _, [], _, h => by simp at h
  | _ :: _, _ :: _, [], h => by simp at h
  | k' :: ks, v' :: vs, true :: m, h => by
    rw [keptPairs_cons_true, List.mem_cons] at h
    rcases h with h | h
    · exact ⟨0, by simp_all⟩
    · obtain ⟨t, h1, h2, h3⟩ := mem_keptPairs h
      exact ⟨t + 1, by simpa using h1, by simpa using h2, by simpa using h3⟩
  | k' :: ks, v' :: vs, false :: m, h => by
    rw [keptPairs_cons_false] at h
    obtain ⟨t, h1, h2, h3⟩ := mem_keptPairs h
    exact ⟨t + 1, by simpa using h1, by simpa using h2, by simpa using h3⟩

/-- A kept position exists ⇒ the kept list is not empty. -/
theorem keptPairs_ne_nil : ∀ {ks vs : List (List κ)} {m : List Bool},
    ks.length = vs.length → m.length = ks.length → true ∈ m → keptPairs ks vs m ≠ []
  | _, _, [], _, _, h => by simp at h
  | [], _, _ :: _, _, h2, _ => by simp at h2
  | _ :: _, [], _ :: _, h1, _, _ => by simp at h1
  | k :: ks, v :: vs, true :: m, _, _, _ => by simp
  | k :: ks, v :: vs, false :: m, h1, h2, h => by
    rw [keptPairs_cons_false]
    exact keptPairs_ne_nil (by simpa using h1) (by simpa using h2) (by simpa using h)

/-- The kept pairs only depend on the keys and values at kept positions. -/
theorem keptPairs_congr : ∀ {ks vs ks' vs' : List (List κ)} {m : List Bool},
    ks.length = m.length → vs.length = m.length → ks'.length = m.length → vs'.length = m.length →
    (∀ t : Nat, m[t]? = some true → ks[t]? = ks'[t]? ∧ vs[t]? = vs'[t]?) →
    keptPairs ks vs m = keptPairs ks' vs' m
  | ks, vs, ks', vs', [], _, _, _, _, _ => by simp
  | [], _, _, _, _ :: _, h, _, _, _, _ => by simp at h
  | _ :: _, [], _, _, _ :: _, _, h, _, _, _ => by simp at h
  | _ :: _, _ :: _, [], _, _ :: _, _, _, h, _, _ => by simp at h
  | _ :: _, _ :: _, _ :: _, [], _ :: _, _, _, _, h, _ => by simp at h
  | k :: ks, v :: vs, k' :: ks', v' :: vs', true :: m, h1, h2, h3, h4, h => by
    have h0 := h 0 (by simp)
    simp only [List.getElem?_cons_zero, Option.some.injEq] at h0
    rw [keptPairs_cons_true, keptPairs_cons_true, h0.1, h0.2]
    congr 1
    apply keptPairs_congr (by simpa using h1) (by simpa using h2) (by simpa using h3)
      (by simpa using h4)
    intro t ht
    simpa using h (t + 1) (by simpa using ht)
  | k :: ks, v :: vs, k' :: ks', v' :: vs', false :: m, h1, h2, h3, h4, h => by
    rw [keptPairs_cons_false, keptPairs_cons_false]
    apply keptPairs_congr (by simpa using h1) (by simpa using h2) (by simpa using h3)
      (by simpa using h4)
    intro t ht
    simpa using h (t + 1) (by simpa using ht)

theorem keptPairs_perm {ks vs ks' vs' : List (List κ)} {m m' : List Bool}
    (h : ((ks.zip vs).zip m).Perm ((ks'.zip vs').zip m')) :
    (keptPairs ks vs m).Perm (keptPairs ks' vs' m') :=
  h.filterMap _

end Kept

/-! ## Weighted averages -/
section Avg
variable {κ : Type} [Field κ] [LinearOrder κ] [IsStrictOrderedRing κ]

theorem sum_div_mul {α : Type} (l : List α) (w x : α → κ) (Z : κ) :
    (l.map (fun a => w a / Z * x a)).sum = (l.map (fun a => w a * x a)).sum / Z := by
  induction l with
  | nil => simp
  | cons a l ih => simp only [List.map_cons, List.sum_cons, ih]; ring

theorem sum_w_pos {α : Type} (l : List α) (w : α → κ) (hl : l ≠ []) (hw : ∀ a ∈ l, 0 < w a) :
    0 < (l.map w).sum := by
  induction l with
  | nil => exact absurd rfl hl
  | cons a l ih =>
    simp only [List.map_cons, List.sum_cons]
    have ha := hw a (by simp)
    by_cases h : l = []
    · subst h; simpa using ha
    · have := ih h (fun b hb => hw b (by simp [hb])); linarith

theorem sum_mul_le {α : Type} (l : List α) (w x : α → κ) (hi : κ)
    (hw : ∀ a ∈ l, 0 < w a) (hx : ∀ a ∈ l, x a ≤ hi) :
    (l.map (fun a => w a * x a)).sum ≤ hi * (l.map w).sum := by
  induction l with
  | nil => simp
  | cons a l ih =>
    simp only [List.map_cons, List.sum_cons]
    have h1 := ih (fun b hb => hw b (by simp [hb])) (fun b hb => hx b (by simp [hb]))
    have h2 : w a * x a ≤ w a * hi :=
      mul_le_mul_of_nonneg_left (hx a (by simp)) (le_of_lt (hw a (by simp)))
    linarith

theorem le_sum_mul {α : Type} (l : List α) (w x : α → κ) (lo : κ)
    (hw : ∀ a ∈ l, 0 < w a) (hx : ∀ a ∈ l, lo ≤ x a) :
    lo * (l.map w).sum ≤ (l.map (fun a => w a * x a)).sum := by
  induction l with
  | nil => simp
  | cons a l ih =>
    simp only [List.map_cons, List.sum_cons]
    have h1 := ih (fun b hb => hw b (by simp [hb])) (fun b hb => hx b (by simp [hb]))
    have h2 : w a * lo ≤ w a * x a :=
      mul_le_mul_of_nonneg_left (hx a (by simp)) (le_of_lt (hw a (by simp)))
    linarith

/-- A normalised positive-weight average lies below any upper bound of its terms. -/
theorem wavg_le {α : Type} (l : List α) (w x : α → κ) (hi : κ) (hl : l ≠ [])
    (hw : ∀ a ∈ l, 0 < w a) (hx : ∀ a ∈ l, x a ≤ hi) :
    (l.map (fun a => w a / (l.map w).sum * x a)).sum ≤ hi := by
  rw [sum_div_mul, div_le_iff₀ (sum_w_pos l w hl hw)]
  exact sum_mul_le l w x hi hw hx

theorem le_wavg {α : Type} (l : List α) (w x : α → κ) (lo : κ) (hl : l ≠ [])
    (hw : ∀ a ∈ l, 0 < w a) (hx : ∀ a ∈ l, lo ≤ x a) :
    lo ≤ (l.map (fun a => w a / (l.map w).sum * x a)).sum := by
  rw [sum_div_mul, le_div_iff₀ (sum_w_pos l w hl hw)]
  exact le_sum_mul l w x lo hw hx

omit [Field κ] [IsStrictOrderedRing κ] in
theorem exists_min {α : Type} (l : List α) (x : α → κ) (hl : l ≠ []) :
    ∃ a ∈ l, ∀ b ∈ l, x a ≤ x b := by
  induction l with
  | nil => exact absurd rfl hl
  | cons a l ih =>
    by_cases h : l = []
    · subst h; exact ⟨a, by simp, by simp⟩
    · obtain ⟨c, hc, hmin⟩ := ih h
      by_cases hac : x a ≤ x c
      · refine ⟨a, by simp, ?_⟩
        intro b hb
        rcases List.mem_cons.mp hb with rfl | hb
        · exact le_refl _
        · exact le_trans hac (hmin b hb)
      · refine ⟨c, by simp [hc], ?_⟩
        intro b hb
        rcases List.mem_cons.mp hb with rfl | hb
        · exact le_of_lt (not_le.mp hac)
        · exact hmin b hb

theorem exists_max {α : Type} (l : List α) (x : α → κ) (hl : l ≠ []) :
    ∃ a ∈ l, ∀ b ∈ l, x b ≤ x a := by
  obtain ⟨a, ha, h⟩ := exists_min l (fun b => - x b) hl
  exact ⟨a, ha, fun b hb => by have := h b hb; linarith⟩

end Avg

/-! ## Model = spec -/
section ModelSpec
variable {κ : Type} [Field κ]

/-- Denominator: the masked exponentials add up to the kept exponentials. -/
theorem maskedExp_sum (e : κ → κ) (sc : List κ → κ) : ∀ (ks vs : List (List κ)) (m : List Bool),
    ks.length = vs.length → m.length = ks.length →
    (maskedExp e (ks.map sc) m).sum = ((keptPairs ks vs m).map (fun kv => e (sc kv.1))).sum
  | [], _, _, _, _ => by simp [maskedExp]
  | _ :: _, [], _, h, _ => by simp at h
  | _ :: _, _ :: _, [], _, h => by simp at h
  | k :: ks, v :: vs, true :: m, h1, h2 => by
    have ih := maskedExp_sum e sc ks vs m (by simpa using h1) (by simpa using h2)
    simp only [maskedExp] at ih ⊢
    simp only [List.map_cons, List.zipWith_cons_cons, List.sum_cons, keptPairs_cons_true,
      ↓reduceIte, ih]
  | k :: ks, v :: vs, false :: m, h1, h2 => by
    have ih := maskedExp_sum e sc ks vs m (by simpa using h1) (by simpa using h2)
    simp only [maskedExp] at ih ⊢
    simp only [List.map_cons, List.zipWith_cons_cons, List.sum_cons, keptPairs_cons_false,
      Bool.false_eq_true, ↓reduceIte, zero_add, ih]

/-- Numerator, for any normaliser `Z`. -/
theorem wsum_masked (e : κ → κ) (sc : List κ → κ) (Z : κ) (d : Nat) : ∀ (ks vs : List (List κ)) (m : List Bool),
    ks.length = vs.length → m.length = ks.length →
    wsumCoord ((maskedExp e (ks.map sc) m).map (· / Z)) vs d
      = ((keptPairs ks vs m).map (fun kv => e (sc kv.1) / Z * kv.2.getD d 0)).sum
  | [], _, _, _, _ => by simp [maskedExp, wsumCoord]
  | _ :: _, [], _, h, _ => by simp at h
  | _ :: _, _ :: _, [], _, h => by simp at h
  | k :: ks, v :: vs, true :: m, h1, h2 => by
    have ih := wsum_masked e sc Z d ks vs m (by simpa using h1) (by simpa using h2)
    simp only [maskedExp, wsumCoord] at ih ⊢
    simp only [List.map_cons, List.zipWith_cons_cons, List.sum_cons, keptPairs_cons_true,
      ↓reduceIte, ih]
  | k :: ks, v :: vs, false :: m, h1, h2 => by
    have ih := wsum_masked e sc Z d ks vs m (by simpa using h1) (by simpa using h2)
    simp only [maskedExp, wsumCoord] at ih ⊢
    simp only [List.map_cons, List.zipWith_cons_cons, List.sum_cons, keptPairs_cons_false,
      Bool.false_eq_true, ↓reduceIte, zero_div, zero_mul, zero_add, ih]

/-- `masked_fill(-inf)` → `softmax` → weighted sum computes the declarative spec. -/
theorem attend_eq_attendSpec (th e : κ → κ) (fl : Flavour κ) (D : Nat) (q : List κ)
    (ks vs : List (List κ)) (mask : Option (List Bool))
    (hv : ks.length = vs.length) (hm : (effMask mask ks.length).length = ks.length) :
    attend th e fl D q ks vs mask = attendSpec th e fl D q ks vs mask := by
  unfold attend attendSpec weights softmaxMasked
  apply List.map_congr_left
  intro d _
  simp only
  rw [maskedExp_sum e (score th fl q) ks vs _ hv hm]
  exact wsum_masked e (score th fl q) _ d ks vs _ hv hm

theorem effMask_none_length (T : Nat) : (effMask none T).length = T := by simp [effMask]

theorem true_mem_effMask_none {T : Nat} (h : 0 < T) : true ∈ effMask none T := by
  simp [effMask]; omega

end ModelSpec

/-! ## Head blocks -/
section Heads
variable {κ : Type} [Add κ] [Mul κ] [Div κ] [Zero κ]

omit [Div κ] in
theorem headBlock_linear (d h : Nat) (W : List (List κ)) (b : Option (List κ)) (x : List κ) :
    headBlock d h (linear W b x) = linear (headBlock d h W) (b.map (headBlock d h)) x := by
  cases b with
  | none => simp [headBlock, linear, List.map_drop, List.map_take]
  | some b =>
    simp [headBlock, linear, List.map_drop, List.map_take, List.drop_zipWith, List.take_zipWith]

omit [Add κ] [Mul κ] [Div κ] [Zero κ] in
theorem unflatten_getD (H d h : Nat) (x : List κ) (hh : h < H) :
    (unflatten H d x).getD h [] = headBlock d h x := by
  simp [unflatten, headBlock, List.getD_eq_getElem?_getD, hh]

theorem bget_singleton {α : Type} (b : α) (i : Nat) (dflt : α) : bget [b] i dflt = b := by
  simp [bget]

theorem unsqueezeLast_broadcast (mm : List Bool) (h : Nat) :
    (unsqueezeLast mm).map (fun r => bget r h false) = mm := by
  induction mm with
  | nil => rfl
  | cons b mm ih =>
    simp only [unsqueezeLast, List.map_cons, List.map_map] at ih ⊢
    rw [ih, bget_singleton]

end Heads

/-! ## Score functions: list operations = index sums -/
section ScoreAlg
variable {κ : Type} [Field κ]

theorem sumTo_zero (f : Nat → κ) : sumTo 0 f = 0 := by simp [sumTo]

theorem sumTo_succ' (n : Nat) (f : Nat → κ) : sumTo (n + 1) f = f 0 + sumTo n (fun i => f (i + 1)) := by
  simp [sumTo, List.range_succ_eq_map, List.map_map, Function.comp_def]

theorem sumTo_congr (n : Nat) (f g : Nat → κ) (h : ∀ i, i < n → f i = g i) : sumTo n f = sumTo n g := by
  unfold sumTo
  congr 1
  apply List.map_congr_left
  intro i hi
  exact h i (List.mem_range.mp hi)

theorem dot_eq_sumTo : ∀ (x y : List κ) (n : Nat), x.length = n → y.length = n →
    dot x y = sumTo n (fun i => x.getD i 0 * y.getD i 0)
  | [], y, n, hx, _ => by
    simp at hx; subst hx; simp [dot, sumTo]
  | a :: x, [], n, hx, hy => by simp at hy; subst hy; simp at hx
  | a :: x, b :: y, n, hx, hy => by
    obtain ⟨m, rfl⟩ : ∃ m, n = m + 1 := ⟨x.length, by simpa using hx.symm⟩
    have ih := dot_eq_sumTo x y m (by simpa using hx) (by simpa using hy)
    rw [sumTo_succ']
    simp only [dot] at ih ⊢
    simp [ih]

theorem dot_append (q k r1 r2 : List κ) (h : q.length = r1.length) :
    dot (q ++ k) (r1 ++ r2) = dot q r1 + dot k r2 := by
  simp [dot, List.zipWith_append h]

theorem linear_length (W : List (List κ)) (b : Option (List κ)) (x : List κ)
    (hb : ∀ bb, b = some bb → bb.length = W.length) : (linear W b x).length = W.length := by
  cases b with
  | none => simp [linear]
  | some bb => simp [linear, hb bb rfl]

theorem linear_getD (W : List (List κ)) (b : Option (List κ)) (x : List κ) (i : Nat)
    (hi : i < W.length) (hb : ∀ bb, b = some bb → bb.length = W.length) :
    (linear W b x).getD i 0 = dot x (W.getD i []) + biasAt b i := by
  cases b with
  | none => simp [linear, biasAt, List.getD_eq_getElem?_getD, hi]
  | some bb =>
    have hbb := hb bb rfl
    simp [linear, biasAt, List.getD_eq_getElem?_getD, hi, hbb]

omit [Field κ] in
theorem getD_mem_rows (W : List (List κ)) (i : Nat) (hi : i < W.length) : W.getD i [] ∈ W := by
  simp [List.getD_eq_getElem?_getD, hi]

/-- The model's score functions are the docstring formulas. -/
theorem score_eq_scoreSpec (th : κ → κ) (Q K : Nat) (fl : Flavour κ) (q k : List κ)
    (hq : q.length = Q) (hk : k.length = K) (hfl : fl.WellShaped Q K) :
    score th fl q k = scoreSpec th Q K fl q k := by
  cases fl with
  | dot c =>
    simp only [Flavour.WellShaped] at hfl
    simp only [score, scoreSpec]
    rw [dot_eq_sumTo q k Q hq (by omega)]
  | general W b =>
    obtain ⟨hW, hrows, hb⟩ := hfl
    simp only [score, scoreSpec]
    have hb' : ∀ bb, b = some bb → bb.length = W.length := fun bb h => by rw [hb bb h, hW]
    rw [dot_eq_sumTo q (linear W b k) Q hq (by rw [linear_length W b k hb', hW])]
    apply sumTo_congr
    intro i hi
    rw [linear_getD W b k i (by omega) hb',
      dot_eq_sumTo k (W.getD i []) K hk (hrows _ (getD_mem_rows W i (by omega)))]
    congr 2
    apply sumTo_congr
    intro j _
    simp only [entry]
    ring
  | concat W b v =>
    obtain ⟨hW, hrows, hb⟩ := hfl
    simp only [score, scoreSpec]
    have hb' : ∀ bb, b = some bb → bb.length = W.length := fun bb h => by rw [hb bb h, hW]
    rw [dot_eq_sumTo _ v v.length (by rw [List.length_map, linear_length W b _ hb', hW]) rfl]
    apply sumTo_congr
    intro i hi
    have hiW : i < W.length := by omega
    have hrow := hrows _ (getD_mem_rows W i hiW)
    have hlen : i < (linear W b (q ++ k)).length := by rw [linear_length W b _ hb']; exact hiW
    have hmap : ((linear W b (q ++ k)).map th).getD i 0 = th ((linear W b (q ++ k)).getD i 0) := by
      simp [List.getD_eq_getElem?_getD, hlen]
    rw [hmap, linear_getD W b _ i hiW hb', mul_comm]
    congr 3
    simp only [entry]
    generalize W.getD i [] = row at hrow ⊢
    have hsplit : row = row.take Q ++ row.drop Q := by simp
    have h1 : (row.take Q).length = Q := by simp [hrow]
    have h2 : (row.drop Q).length = K := by simp [hrow]
    conv_lhs => rw [hsplit]
    rw [dot_append q k _ _ (by rw [h1, hq]), dot_eq_sumTo q _ Q hq h1, dot_eq_sumTo k _ K hk h2]
    congr 1
    · apply sumTo_congr
      intro c hc
      simp only [List.getD_eq_getElem?_getD, List.getElem?_take, hc, if_true]
      ring
    · apply sumTo_congr
      intro c _
      simp only [List.getD_eq_getElem?_getD, List.getElem?_drop]
      ring

end ScoreAlg

/-! ## Shapes: `broadcast_shapes` and `check_input` -/
section Shapes

theorem ext_getD1 {l1 l2 : List Nat} (h : l1.length = l2.length)
    (h2 : ∀ j, j < l1.length → l1.getD j 1 = l2.getD j 1) : l1 = l2 := by
  apply List.ext_getElem h
  intro j h1 h3
  have := h2 j h1
  simpa [List.getD_eq_getElem?_getD, h1, h3] using this

theorem pick1_one_left (y : Nat) : pick1 1 y = y := by simp [pick1]
theorem pick1_one_right (x : Nat) : pick1 x 1 = x := by
  unfold pick1; split <;> simp_all

theorem compat1_iff (x y : Nat) : compat1 x y = true ↔ (x = y ∨ x = 1 ∨ y = 1) := by
  simp [compat1, or_assoc]

/-- `bcastRev` against its declarative description (axes innermost first). -/
theorem bcastRev_iff : ∀ (xs ys zs : List Nat),
    bcastRev xs ys = some zs ↔
      (zs.length = max xs.length ys.length ∧
        ∀ j, j < zs.length →
          (xs.getD j 1 = ys.getD j 1 ∨ xs.getD j 1 = 1 ∨ ys.getD j 1 = 1) ∧
          zs.getD j 1 = pick1 (xs.getD j 1) (ys.getD j 1))
  | [], ys, zs => by
    simp only [bcastRev, Option.some.injEq, List.length_nil, Nat.zero_max, List.getD_nil,
      pick1_one_left]
    constructor
    · rintro rfl
      exact ⟨rfl, fun j _ => ⟨by simp, rfl⟩⟩
    · rintro ⟨hl, h⟩
      exact (ext_getD1 hl (fun j hj => (h j hj).2)).symm
  | x :: xs, [], zs => by
    simp only [bcastRev, Option.some.injEq, List.length_nil, Nat.max_zero, List.getD_nil,
      pick1_one_right]
    constructor
    · rintro rfl
      exact ⟨rfl, fun j _ => ⟨by simp, rfl⟩⟩
    · rintro ⟨hl, h⟩
      exact (ext_getD1 hl (fun j hj => (h j hj).2)).symm
  | x :: xs, y :: ys, zs => by
    have ih := bcastRev_iff xs ys
    simp only [bcastRev]
    constructor
    · intro h
      split at h
      · rename_i hc
        simp only [Option.map_eq_some_iff] at h
        obtain ⟨r, hr, rfl⟩ := h
        obtain ⟨hl, hj⟩ := (ih r).mp hr
        refine ⟨by simp [hl, Nat.succ_max_succ], ?_⟩
        intro j hjlt
        cases j with
        | zero => exact ⟨(compat1_iff x y).mp hc, by simp⟩
        | succ j => simpa using hj j (by simpa using hjlt)
      · simp at h
    · rintro ⟨hl, hj⟩
      cases zs with
      | nil => simp at hl
      | cons z r =>
        have h0 := hj 0 (by simp)
        simp only [List.getD_cons_zero] at h0
        have hc : compat1 x y = true := (compat1_iff x y).mpr h0.1
        simp only [hc, if_true, Option.map_eq_some_iff, List.cons.injEq]
        refine ⟨r, (ih r).mpr ⟨?_, ?_⟩, h0.2.symm, rfl⟩
        · simp only [List.length_cons, Nat.succ_max_succ] at hl; omega
        · intro j hjlt
          simpa using hj (j + 1) (by simpa using hjlt)

/-- **broadcast_shapes** -/
theorem broadcastShapes_iff (a b c : List Nat) :
    broadcastShapes a b = some c ↔ BroadcastTo a b c := by
  unfold broadcastShapes BroadcastTo axisR
  rw [Option.map_eq_some_iff]
  constructor
  · rintro ⟨r, hr, rfl⟩
    have := (bcastRev_iff _ _ _).mp hr
    simpa [pick1] using this
  · intro h
    refine ⟨c.reverse, (bcastRev_iff _ _ _).mpr ?_, by simp⟩
    simpa [pick1] using h

/-- **check_input accepts exactly …** -/
theorem checkInputFull_ok_iff (Q K : Nat) (vsz : Option Nat) (dim : Int) (q k v : List Nat)
    (mask : Option (List Nat)) (full : List Nat) :
    checkInputFull Q K vsz dim q k v mask = .ok full ↔ InputOk Q K vsz dim q k v mask full := by
  unfold checkInputFull
  constructor
  · intro h
    simp only [] at h
    split at h; · simp at h
    split at h; · simp at h
    split at h; · simp at h
    split at h; · simp at h
    split at h; · simp at h
    rename_i h1 h2 h3 h4 h5
    split at h; · simp at h
    rename_i e he
    split at h; · simp at h
    rename_i e' he'
    split at h; · simp at h
    rename_i full' hfull
    have hsz : full' = full ∧ ∀ n, vsz = some n → v.getLast? = some n := by
      cases vsz with
      | none => simp at h; exact ⟨h, by simp⟩
      | some n =>
        simp only at h
        split at h
        · simp at h
        · rename_i hn
          simp only [Except.ok.injEq] at h
          exact ⟨h, fun m hm => by
            simp only [Option.some.injEq] at hm; subst hm; simpa using hn⟩
    obtain ⟨rfl, hv⟩ := hsz
    refine ⟨by omega, by omega, by simpa using h3, by simpa using h4, by omega, by omega, by omega,
      ⟨e, e', (broadcastShapes_iff _ _ _).mp he, ?_, (broadcastShapes_iff _ _ _).mp hfull⟩, hv⟩
    cases mask with
    | none => simp at he'; exact he'.symm
    | some ms => exact (broadcastShapes_iff _ _ _).mp he'
  · rintro ⟨h1, h2, h3, h4, h5, h6, h7, ⟨e, e', he, he', hfull⟩, hv⟩
    have he1 := (broadcastShapes_iff _ _ _).mpr he
    have hf1 := (broadcastShapes_iff _ _ _).mpr hfull
    have c1 : ¬ (q.length + 1 ≠ k.length) := by omega
    have c2 : ¬ (k.length ≠ v.length) := by omega
    have c3 : ¬ (q.getLast? ≠ some Q) := by simp [h3]
    have c4 : ¬ (k.getLast? ≠ some K) := by simp [h4]
    have c5 : ¬ (dim > (k.length : Int) - 2 ∨ dim = -1 ∨ dim < -(k.length : Int) + 1) := by omega
    simp only [if_neg c1, if_neg c2, if_neg c3, if_neg c4, if_neg c5, he1]
    cases mask with
    | none =>
      simp only at he'
      subst he'
      simp only [hf1]
      cases vsz with
      | none => rfl
      | some n => simp [hv n rfl]
    | some ms =>
      simp only at he'
      simp only [(broadcastShapes_iff _ _ _).mpr he', hf1]
      cases vsz with
      | none => rfl
      | some n => simp [hv n rfl]

/-- **error classes** (single-head attention, `valueSize = none`): a `ValueError` exactly when the
rank / size / `dim` conditions fail — these are tested before any broadcasting; every other
rejected call is a `RuntimeError` raised by `broadcast_shapes`. -/
theorem checkInputFull_value_error_iff (Q K : Nat) (dim : Int) (q k v : List Nat)
    (mask : Option (List Nat)) :
    checkInputFull Q K none dim q k v mask = .error .value ↔ ¬ RanksSizesDimOk Q K dim q k v := by
  unfold checkInputFull RanksSizesDimOk
  simp only []
  split
  · rename_i h; simp; intro h'; omega
  split
  · rename_i h; simp; intro _ h'; omega
  split
  · rename_i h; simp; intro _ _ h'; exact absurd h' h
  split
  · rename_i h; simp; intro _ _ _ h'; exact absurd h' h
  split
  · rename_i h; simp; intro _ _ _ _ h1 h2; omega
  rename_i h1 h2 h3 h4 h5
  have hok : (q.length + 1 = k.length ∧ k.length = v.length ∧ q.getLast? = some Q ∧
      k.getLast? = some K ∧ dim ≤ (k.length : Int) - 2 ∧ dim ≠ -1 ∧ -(k.length : Int) + 1 ≤ dim) :=
    ⟨by omega, by omega, by simpa using h3, by simpa using h4, by omega, by omega, by omega⟩
  constructor
  · intro h
    exfalso
    split at h; · simp at h
    split at h; · simp at h
    split at h; · simp at h
    simp at h
  · intro h
    exact absurd hok h

end Shapes

/-! ## Shapes of equal rank: broadcasting is pointwise -/
section Doc
open List

abbrev CompatR : Nat → Nat → Prop := fun x y => compat1 x y = true

theorem bcastRev_forall2 : ∀ {xs ys : List Nat}, Forall₂ CompatR xs ys →
    bcastRev xs ys = some (List.zipWith pick1 xs ys)
  | _, _, .nil => by simp [bcastRev]
  | _, _, .cons (a := x) (b := y) h t => by
    have hc : compat1 x y = true := h
    simp [bcastRev, hc, bcastRev_forall2 t]

theorem broadcastShapes_forall2 {a b : List Nat} (h : Forall₂ CompatR a b) :
    broadcastShapes a b = some (List.zipWith pick1 a b) := by
  unfold broadcastShapes
  rw [bcastRev_forall2 (rel_reverse h), ← List.reverse_zipWith h.length_eq]
  simp

theorem compat_pick (x y : Nat) (h : compat1 x y = true) :
    compat1 (pick1 x y) y = true ∧ pick1 (pick1 x y) y = pick1 x y := by
  simp only [compat1, pick1, Bool.or_eq_true, beq_iff_eq] at *
  by_cases hx : x = 1 <;> by_cases hy : y = 1 <;> simp_all

theorem forall2_pick_right : ∀ {xs ys : List Nat}, Forall₂ CompatR xs ys →
    Forall₂ CompatR (List.zipWith pick1 xs ys) ys ∧
      List.zipWith pick1 (List.zipWith pick1 xs ys) ys = List.zipWith pick1 xs ys
  | _, _, .nil => by simp
  | _, _, .cons (a := x) (b := y) h t => by
    have ih := forall2_pick_right t
    have hp := compat_pick x y h
    exact ⟨.cons hp.1 ih.1, by simp [hp.2, ih.2]⟩

end Doc

/-! ## The documented shapes are accepted -/
section Doc2
open List

theorem seqAxis_nonneg (n kd : Nat) : seqAxis (n : Int) kd = n := by simp [seqAxis]

theorem seqAxis_neg (n kd : Nat) (h : n < kd) : seqAxis ((n : Int) - kd) kd = n := by
  unfold seqAxis
  rw [if_neg (by omega)]
  omega

theorem checkInputFull_documented (Q K D T : Nat) (A B C : List Nat) (vsz : Option Nat)
    (withMask : Bool) (dim : Int)
    (hbc : Forall₂ CompatR A (B ++ C))
    (hv : ∀ n, vsz = some n → n = D)
    (hdim : dim = B.length ∨
      (B ≠ [] ∧ dim = (B.length : Int) - ((B ++ [T] ++ C ++ [K]).length : Int))) :
    seqAxis dim (B ++ [T] ++ C ++ [K]).length = B.length ∧
    checkInputFull Q K vsz dim (A ++ [Q]) (B ++ [T] ++ C ++ [K]) (B ++ [T] ++ C ++ [D])
        (if withMask then some (B ++ [T] ++ C) else none)
      = .ok (List.zipWith pick1 (A.take B.length) B ++ [T] ++ List.zipWith pick1 (A.drop B.length) C
          ++ [D]) := by
  have hlen : A.length = B.length + C.length := by simpa using hbc.length_eq
  have h1 := forall₂_take_append A B C hbc
  have h2 := forall₂_drop_append A B C hbc
  set A1 := A.take B.length with hA1
  set A2 := A.drop B.length with hA2
  have hkd : (B ++ [T] ++ C ++ [K]).length = B.length + C.length + 2 := by simp; omega
  have hax : seqAxis dim (B ++ [T] ++ C ++ [K]).length = B.length := by
    rcases hdim with rfl | ⟨hB, rfl⟩
    · exact seqAxis_nonneg _ _
    · exact seqAxis_neg _ _ (by rw [hkd]; omega)
  refine ⟨hax, ?_⟩
  -- the shapes that are broadcast
  have hins : (insertAt B.length 1 (A ++ [Q])).dropLast = A1 ++ [1] ++ A2 := by
    have : B.length ≤ A.length := by omega
    simp only [insertAt, List.take_append_of_le_length this, List.drop_append_of_le_length this]
    rw [← List.append_assoc, List.dropLast_concat]
  have hX : Forall₂ CompatR (A1 ++ [1] ++ A2) (B ++ [T] ++ C) :=
    rel_append (rel_append h1 (.cons (by simp [CompatR, compat1]) .nil)) h2
  have hl1 : A1.length = B.length := h1.length_eq
  have hE : List.zipWith pick1 (A1 ++ [1] ++ A2) (B ++ [T] ++ C)
      = List.zipWith pick1 A1 B ++ [T] ++ List.zipWith pick1 A2 C := by
    rw [List.zipWith_append (by simp [hl1]), List.zipWith_append hl1]
    simp [pick1]
  have he := broadcastShapes_forall2 hX
  obtain ⟨hY, hYeq⟩ := forall2_pick_right hX
  generalize List.zipWith pick1 (A1 ++ [1] ++ A2) (B ++ [T] ++ C) = e at he hY hYeq hE
  have hm := broadcastShapes_forall2 hY
  rw [hYeq] at hm
  have hV : Forall₂ CompatR (e ++ [1]) (B ++ [T] ++ C ++ [D]) :=
    rel_append hY (.cons (by simp [CompatR, compat1]) .nil)
  have hf := broadcastShapes_forall2 hV
  rw [List.zipWith_append hY.length_eq, hYeq] at hf
  rw [(checkInputFull_ok_iff _ _ _ _ _ _ _ _ _)]
  refine ⟨by simp; omega, by simp, by simp, List.getLast?_concat, ?_, ?_, ?_, ?_, ?_⟩
  · rcases hdim with rfl | ⟨hB, rfl⟩ <;> rw [hkd] <;> push_cast <;> omega
  · rcases hdim with rfl | ⟨hB, rfl⟩
    · omega
    · rw [hkd]; push_cast; omega
  · rcases hdim with rfl | ⟨hB, rfl⟩
    · rw [hkd]; push_cast; omega
    · have : 0 < B.length := List.length_pos_iff.mpr hB
      rw [hkd]; push_cast; omega
  · refine ⟨e, e, (broadcastShapes_iff _ _ _).mp ?_, ?_, (broadcastShapes_iff _ _ _).mp ?_⟩
    · rw [hax, hins, List.dropLast_concat]; exact he
    · cases withMask with
      | false => simp
      | true => simp only [if_true]; exact (broadcastShapes_iff _ _ _).mp hm
    · rw [hf, hE]; simp [pick1]
  · intro n hn
    rw [hv n hn]
    exact List.getLast?_concat

theorem checkInput_documented (Q K D T : Nat) (A B C : List Nat) (vsz : Option Nat)
    (withMask : Bool) (dim : Int)
    (hbc : Forall₂ CompatR A (B ++ C))
    (hv : ∀ n, vsz = some n → n = D)
    (hdim : dim = B.length ∨
      (B ≠ [] ∧ dim = (B.length : Int) - ((B ++ [T] ++ C ++ [K]).length : Int))) :
    checkInput Q K vsz dim (A ++ [Q]) (B ++ [T] ++ C ++ [K]) (B ++ [T] ++ C ++ [D])
        (if withMask then some (B ++ [T] ++ C) else none)
      = .ok (List.zipWith pick1 A (B ++ C) ++ [D]) := by
  obtain ⟨hax, hfull⟩ := checkInputFull_documented Q K D T A B C vsz withMask dim hbc hv hdim
  unfold checkInput
  rw [hfull, hax]
  have h1 := forall₂_take_append A B C hbc
  have hl : (List.zipWith pick1 (A.take B.length) B).length = B.length := by
    simp [h1.length_eq]
  have hA : List.zipWith pick1 A (B ++ C)
      = List.zipWith pick1 (A.take B.length) B ++ List.zipWith pick1 (A.drop B.length) C := by
    conv_lhs => rw [← List.take_append_drop B.length A]
    exact List.zipWith_append h1.length_eq
  simp only [hA, List.append_assoc]
  rw [List.eraseIdx_append_of_length_le (by omega), hl]
  simp


end Doc2

/-! ## Tensors: reading through broadcasting, explicit expansion -/
section TensorLemmas
open List

/-- `a` can be expanded to `s`: aligned at the last axis, every axis of `a` has the size of the
corresponding axis of `s` or size 1. -/
def ExpandsTo (a s : List Nat) : Prop :=
  a.length ≤ s.length ∧ ∀ j, j < a.length → axisR a j = axisR s j ∨ axisR a j = 1

theorem bpos_bpos (x y i : Nat) (h : x = y ∨ x = 1) : bpos x (bpos y i) = bpos x i := by
  unfold bpos
  rcases h with rfl | rfl
  · split <;> simp_all
  · simp

theorem zipWith_bpos_bpos : ∀ (ra rs ri : List Nat), ra.length ≤ rs.length → rs.length ≤ ri.length →
    (∀ j, j < ra.length → ra.getD j 1 = rs.getD j 1 ∨ ra.getD j 1 = 1) →
    List.zipWith bpos ra (List.zipWith bpos rs ri) = List.zipWith bpos ra ri
  | [], _, _, _, _, _ => by simp
  | x :: ra, [], _, h, _, _ => by simp at h
  | x :: ra, y :: rs, [], _, h, _ => by simp at h
  | x :: ra, y :: rs, i :: ri, h1, h2, h => by
    have h0 := h 0 (by simp)
    simp only [List.getD_cons_zero] at h0
    simp only [List.zipWith_cons_cons, bpos_bpos x y i h0, List.cons.injEq, true_and]
    apply zipWith_bpos_bpos ra rs ri (by simpa using h1) (by simpa using h2)
    intro j hj
    simpa using h (j + 1) (by simpa using hj)

theorem bidx_bidx (a s idx : List Nat) (h : ExpandsTo a s) (hi : s.length ≤ idx.length) :
    bidx a (bidx s idx) = bidx a idx := by
  unfold bidx
  rw [List.reverse_reverse]
  congr 1
  apply zipWith_bpos_bpos _ _ _ (by simpa using h.1) (by simpa using hi)
  intro j hj
  exact h.2 j (by simpa using hj)

theorem read_expand {α : Type} (t : Tensor α) (s idx : List Nat) (h : ExpandsTo t.shape s)
    (hi : s.length ≤ idx.length) : (t.expand s).read idx = t.read idx := by
  simp only [Tensor.read, Tensor.expand, bidx_bidx _ _ _ h hi]

theorem ExpandsTo.refl (s : List Nat) : ExpandsTo s s := ⟨le_refl _, fun _ _ => Or.inl rfl⟩

theorem ExpandsTo.trans {a b c : List Nat} (h1 : ExpandsTo a b) (h2 : ExpandsTo b c) :
    ExpandsTo a c := by
  refine ⟨le_trans h1.1 h2.1, ?_⟩
  intro j hj
  rcases h1.2 j hj with h | h
  · rcases h2.2 j (by have := h1.1; omega) with h' | h'
    · exact Or.inl (h.trans h')
    · exact Or.inr (h.trans h')
  · exact Or.inr h

theorem ExpandsTo.of_broadcast_left {a b c : List Nat} (h : BroadcastTo a b c) : ExpandsTo a c := by
  refine ⟨by rw [h.1]; exact le_max_left _ _, ?_⟩
  intro j hj
  obtain ⟨_, h2⟩ := h.2 j (by rw [h.1]; exact lt_of_lt_of_le hj (le_max_left _ _))
  by_cases h1 : axisR a j = 1
  · exact Or.inr h1
  · rw [if_neg h1] at h2; exact Or.inl h2.symm

theorem ExpandsTo.of_broadcast_right {a b c : List Nat} (h : BroadcastTo a b c) : ExpandsTo b c := by
  refine ⟨by rw [h.1]; exact le_max_right _ _, ?_⟩
  intro j hj
  obtain ⟨h1, h2⟩ := h.2 j (by rw [h.1]; exact lt_of_lt_of_le hj (le_max_right _ _))
  by_cases ha : axisR a j = 1
  · rw [if_pos ha] at h2; exact Or.inl h2.symm
  · rw [if_neg ha] at h2
    rcases h1 with h1 | h1 | h1
    · exact Or.inl (h1.symm.trans h2.symm)
    · exact absurd h1 ha
    · exact Or.inr h1

theorem axisR_snoc_zero (a : List Nat) (x : Nat) : axisR (a ++ [x]) 0 = x := by simp [axisR]
theorem axisR_snoc_succ (a : List Nat) (x j : Nat) : axisR (a ++ [x]) (j + 1) = axisR a j := by
  simp [axisR]

theorem ExpandsTo.snoc {a s : List Nat} (h : ExpandsTo a s) (x : Nat) :
    ExpandsTo (a ++ [x]) (s ++ [x]) := by
  refine ⟨by simpa using h.1, ?_⟩
  intro j hj
  cases j with
  | zero => simp [axisR_snoc_zero]
  | succ j => simpa [axisR_snoc_succ] using h.2 j (by simpa using hj)

theorem ExpandsTo.unsnoc {a s : List Nat} {x y : Nat} (h : ExpandsTo (a ++ [x]) (s ++ [y])) :
    ExpandsTo a s := by
  refine ⟨by simpa using h.1, ?_⟩
  intro j hj
  simpa [axisR_snoc_succ] using h.2 (j + 1) (by simpa using hj)

abbrev Dom1 : Nat → Nat → Prop := fun x y => x = y ∨ x = 1

theorem forall2_getD {R : Nat → Nat → Prop} {l m : List Nat} (h : Forall₂ R l m) (j : Nat)
    (hj : j < l.length) : R (l.getD j 1) (m.getD j 1) := by
  have hm : j < m.length := h.length_eq ▸ hj
  have := (forall₂_iff_get.mp h).2 j hj hm
  simpa [List.getD_eq_getElem?_getD, hj, hm] using this

theorem forall2_of_getD {R : Nat → Nat → Prop} {l m : List Nat} (hl : l.length = m.length)
    (h : ∀ j, j < l.length → R (l.getD j 1) (m.getD j 1)) : Forall₂ R l m := by
  apply forall₂_iff_get.mpr ⟨hl, ?_⟩
  intro j h1 h2
  have := h j h1
  simpa [List.getD_eq_getElem?_getD, h1, h2] using this

theorem ExpandsTo.of_forall2 {a s : List Nat} (h : Forall₂ Dom1 a s) : ExpandsTo a s := by
  refine ⟨le_of_eq h.length_eq, ?_⟩
  intro j hj
  exact forall2_getD (rel_reverse h) j (by simpa using hj)

theorem ExpandsTo.to_forall2 {a s : List Nat} (h : ExpandsTo a s) (hl : a.length = s.length) :
    Forall₂ Dom1 a s := by
  apply forall₂_reverse_iff.mp
  apply forall2_of_getD (by simpa using hl)
  intro j hj
  exact h.2 j (by simpa using hj)

/-- un-`unsqueeze`: if the shape with a 1 inserted at axis `i` expands to `s`, the shape itself
expands to `s` without axis `i`. -/
theorem forall2_insertAt_eraseIdx {a s : List Nat} {i : Nat} (hi : i ≤ a.length)
    (h : Forall₂ Dom1 (insertAt i 1 a) s) : Forall₂ Dom1 a (s.eraseIdx i) := by
  have h1 := forall₂_take i h
  have h2 := forall₂_drop (i + 1) h
  have e1 : (insertAt i 1 a).take i = a.take i := by
    simp only [insertAt, List.append_assoc]
    rw [List.take_append_of_le_length (by simp [hi])]
    simp
  have e2 : (insertAt i 1 a).drop (i + 1) = a.drop i := by
    simp only [insertAt]
    have : (a.take i ++ [1]).length = i + 1 := by simp [hi]
    rw [List.drop_left' this]
  rw [e1] at h1
  rw [e2] at h2
  have := rel_append h1 h2
  simp only [] at this
  rwa [List.take_append_drop, ← List.eraseIdx_eq_take_drop_succ] at this

theorem insertAt_length {α : Type} (i : Nat) (x : α) (l : List α) (hi : i ≤ l.length) :
    (insertAt i x l).length = l.length + 1 := by
  simp [insertAt]; omega

theorem insertAt_snoc_dropLast {α : Type} (i : Nat) (x y : α) (l : List α) (hi : i ≤ l.length) :
    (insertAt i x (l ++ [y])).dropLast = insertAt i x l := by
  simp only [insertAt, List.take_append_of_le_length hi, List.drop_append_of_le_length hi]
  rw [← List.append_assoc, List.dropLast_concat]

theorem zipWith_pick1_self (l : List Nat) : List.zipWith pick1 l l = l := by
  induction l with
  | nil => rfl
  | cons a l ih => simp [pick1]

theorem compatR_refl (l : List Nat) : Forall₂ CompatR l l :=
  forall₂_same.mpr (fun x _ => by simp [CompatR, compat1])

/-- What a legal `dim` names. -/
theorem seqAxis_legal (dim : Int) (kd : Nat) (h1 : dim ≤ (kd : Int) - 2) (h2 : -(kd : Int) + 1 ≤ dim)
    (h3 : dim ≠ -1) :
    seqAxis dim kd + 2 ≤ kd ∧
      (dim = (seqAxis dim kd : Int) ∨ (0 < seqAxis dim kd ∧ dim = (seqAxis dim kd : Int) - kd)) := by
  unfold seqAxis
  by_cases h : dim ≥ 0
  · rw [if_pos h]; omega
  · rw [if_neg h]; omega

theorem axisR_zero (s : List Nat) : axisR s 0 = s.getLast?.getD 1 := by
  simp [axisR, List.getD_eq_getElem?_getD, List.getLast?_eq_head?_reverse, List.head?_eq_getElem?]

theorem tensorApply_expand {κ : Type} [Zero κ]
    (f : Nat → List κ → List (List κ) → List (List κ) → Option (List Bool) → List κ)
    (outSize : Nat → Nat) (Q K : Nat) (vsz : Option Nat) (dim : Int)
    (q k v : Tensor κ) (mask : Option (Tensor Bool)) (full : List Nat)
    (hok : checkInputFull Q K vsz dim q.shape k.shape v.shape (mask.map (·.shape)) = .ok full)
    (hmask : ∀ mt, mask = some mt → mt.shape.length < k.shape.length) :
    ∃ t t' : Tensor κ,
      tensorApply f outSize Q K vsz dim q k v mask = .ok t ∧
      tensorApply f outSize Q K vsz dim
          (q.expand ((full.dropLast.eraseIdx (seqAxis dim k.shape.length)) ++ [Q]))
          (k.expand (full.dropLast ++ [K])) (v.expand full)
          (mask.map (·.expand full.dropLast)) = .ok t' ∧
      t'.shape = t.shape ∧ ∀ idx, idx.length = t.shape.length → t'.val idx = t.val idx := by
  have hI := (checkInputFull_ok_iff _ _ _ _ _ _ _ _ _).mp hok
  obtain ⟨e, e', he, he', hfull⟩ := hI.bcast
  have hrq := hI.rank_query
  have hrv := hI.rank_value
  obtain ⟨hi2, hdim⟩ := seqAxis_legal dim k.shape.length hI.dim_hi hI.dim_lo hI.dim_ne
  generalize hi : seqAxis dim k.shape.length = i at *
  -- lengths
  obtain ⟨A, hA⟩ : ∃ A, q.shape = A ++ [Q] := ⟨q.shape.dropLast,
    (List.dropLast_append_getLast? Q (Option.mem_def.mpr hI.size_query)).symm⟩
  obtain ⟨Bk, hBk⟩ : ∃ Bk, k.shape = Bk ++ [K] := ⟨k.shape.dropLast,
    (List.dropLast_append_getLast? K (Option.mem_def.mpr hI.size_key)).symm⟩
  have hAl : A.length + 2 = k.shape.length := by rw [hA] at hrq; simpa using hrq
  have hins : (insertAt i 1 q.shape).dropLast = insertAt i 1 A := by
    rw [hA]; exact insertAt_snoc_dropLast i 1 Q A (by omega)
  have hAB : A.length + 1 = Bk.length := by rw [hBk] at hAl; simpa using hAl
  have hel : e.length + 1 = k.shape.length := by
    have := he.1
    rw [hins, insertAt_length i 1 A (by omega), hBk] at this
    rw [hBk]; simp at this ⊢; omega
  have hel' : e'.length + 1 = k.shape.length := by
    cases hm : mask with
    | none => rw [hm] at he'; simp at he'; rw [he']; exact hel
    | some mt =>
      rw [hm] at he'
      simp only [Option.map_some] at he'
      have h1 := he'.1
      have h2 := hmask mt hm
      omega
  have hfl : full.length = k.shape.length := by
    have := hfull.1
    simp at this; omega
  -- full = ET ++ [D]
  have hne : full ≠ [] := by intro h; rw [h] at hfl; simp at hfl; omega
  obtain ⟨ET, D, hfd⟩ : ∃ ET D, full = ET ++ [D] :=
    ⟨full.dropLast, full.getLast hne, (List.dropLast_concat_getLast hne).symm⟩
  subst hfd
  have hETl : ET.length + 1 = k.shape.length := by simpa using hfl
  simp only [List.dropLast_concat]
  -- what expands to what
  have x_e'_ET : ExpandsTo e' ET := (ExpandsTo.of_broadcast_left hfull).unsnoc
  have x_e_e' : ExpandsTo e e' := by
    cases hm : mask with
    | none => rw [hm] at he'; simp at he'; rw [he']; exact ExpandsTo.refl _
    | some mt => rw [hm] at he'; exact ExpandsTo.of_broadcast_left he'
  have x_e_ET := x_e_e'.trans x_e'_ET
  have xk : ExpandsTo k.shape (ET ++ [K]) := by
    have := ((ExpandsTo.of_broadcast_right he).trans x_e_ET).snoc K
    rwa [hBk, List.dropLast_concat, ← hBk] at this
  have xv : ExpandsTo v.shape (ET ++ [D]) := ExpandsTo.of_broadcast_right hfull
  have xm : ∀ mt, mask = some mt → ExpandsTo mt.shape ET := by
    intro mt hm
    rw [hm] at he'
    exact (ExpandsTo.of_broadcast_right he').trans x_e'_ET
  have xq : ExpandsTo q.shape (ET.eraseIdx i ++ [Q]) := by
    have h1 : ExpandsTo (insertAt i 1 A) ET := by
      have := (ExpandsTo.of_broadcast_left he).trans x_e_ET
      rwa [hins] at this
    have h2 := h1.to_forall2 (by rw [insertAt_length i 1 A (by omega)]; omega)
    have h3 := ExpandsTo.of_forall2 (forall2_insertAt_eraseIdx (by omega) h2)
    rw [hA]; exact h3.snoc Q
  -- decomposition of ET around the sequence axis
  have hiET : i < ET.length := by omega
  obtain ⟨P, T, S, hPTS, hPl⟩ : ∃ P T S, ET = P ++ [T] ++ S ∧ P.length = i :=
    ⟨ET.take i, ET[i], ET.drop (i + 1), by simp, by simp; omega⟩
  have hEb : ET.eraseIdx i = P ++ S := by
    rw [hPTS, List.eraseIdx_eq_take_drop_succ]
    have h1 : (P ++ [T] ++ S).take i = P := by
      rw [List.append_assoc]; exact List.take_left' hPl
    have h2 : (P ++ [T] ++ S).drop (i + 1) = S := List.drop_left' (by simp [hPl])
    rw [h1, h2]
  -- check_input on the expanded shapes
  have hvD : ∀ n, vsz = some n → n = D := by
    intro n hn
    have h1 := hI.size_value n hn
    have h2 := (hfull.2 0 (by simp)).2
    rw [axisR_snoc_zero, axisR_snoc_zero, if_pos rfl, axisR_zero, h1] at h2
    simpa using h2.symm
  have hkd' : (P ++ [T] ++ S ++ [K]).length = k.shape.length := by
    rw [← hPTS]; simpa using hETl
  have hexp := (checkInputFull_documented Q K D T (P ++ S) P S vsz mask.isSome dim
    (compatR_refl _) hvD (by
      rw [hkd', hPl]
      rcases hdim with h | ⟨h0, h⟩
      · exact Or.inl h
      · exact Or.inr ⟨by intro hP; rw [hP] at hPl; simp at hPl; omega, h⟩)).2
  rw [List.take_left' rfl, List.drop_left' rfl, zipWith_pick1_self, zipWith_pick1_self] at hexp
  have hmaskshape : (mask.map (·.expand ET)).map (·.shape)
      = if mask.isSome then some (P ++ [T] ++ S) else none := by
    cases mask <;> simp [Tensor.expand, hPTS]
  have hok' : checkInputFull Q K vsz dim (q.expand (ET.eraseIdx i ++ [Q])).shape
      (k.expand (ET ++ [K])).shape (v.expand (ET ++ [D])).shape
      ((mask.map (·.expand ET)).map (·.shape)) = .ok (ET ++ [D]) := by
    rw [hmaskshape]
    simp only [Tensor.expand, hEb]
    rw [hPTS]
    exact hexp
  have hi' : seqAxis dim (k.expand (ET ++ [K])).shape.length = i := by
    simp only [Tensor.expand, List.length_append, List.length_singleton, hETl, hi]
  let mk := fun (q k v : Tensor κ) (mask : Option (Tensor Bool)) =>
    ({ shape := ((ET ++ [D]).eraseIdx i).dropLast ++ [outSize ((ET ++ [D]).getLastD 0)],
       val := fun idx =>
         let el := elemAt i ((ET ++ [D]).getD i 0) Q K ((ET ++ [D]).getLastD 0) q k v mask idx.dropLast
         (f ((ET ++ [D]).getLastD 0) el.1 el.2.1 el.2.2.1 el.2.2.2).getD (idx.getLastD 0) 0 } : Tensor κ)
  have h1 : tensorApply f outSize Q K vsz dim q k v mask = .ok (mk q k v mask) := by
    simp only [tensorApply, hok, hi]; rfl
  have h2 : tensorApply f outSize Q K vsz dim (q.expand (ET.eraseIdx i ++ [Q]))
      (k.expand (ET ++ [K])) (v.expand (ET ++ [D])) (mask.map (·.expand ET))
      = .ok (mk (q.expand (ET.eraseIdx i ++ [Q])) (k.expand (ET ++ [K])) (v.expand (ET ++ [D]))
          (mask.map (·.expand ET))) := by
    simp only [tensorApply, hok', hi']; rfl
  refine ⟨_, _, h1, h2, rfl, ?_⟩
  -- the values
  intro idx hidx
  simp only [mk] at hidx ⊢
  have hel1 : (idx.dropLast).length + 2 = k.shape.length := by
    have h1 : ((ET ++ [D]).eraseIdx i).length = ET.length := by
      rw [List.length_eraseIdx]; simp; omega
    simp only [List.length_append, List.length_dropLast, List.length_singleton, h1] at hidx
    simp only [List.length_dropLast, hidx]; omega
  have hins_len : ∀ t, (insertAt i t idx.dropLast).length + 1 = k.shape.length := by
    intro t; rw [insertAt_length i t _ (by omega)]; omega
  have hel_eq : elemAt i ((ET ++ [D]).getD i 0) Q K ((ET ++ [D]).getLastD 0)
        (q.expand (ET.eraseIdx i ++ [Q])) (k.expand (ET ++ [K])) (v.expand (ET ++ [D]))
        (mask.map (·.expand ET)) idx.dropLast
      = elemAt i ((ET ++ [D]).getD i 0) Q K ((ET ++ [D]).getLastD 0) q k v mask idx.dropLast := by
    unfold elemAt
    refine Prod.ext ?_ (Prod.ext ?_ (Prod.ext ?_ ?_))
    · apply List.map_congr_left
      intro j _
      exact read_expand q _ _ xq (by
        have : (ET.eraseIdx i).length + 1 = ET.length := by rw [List.length_eraseIdx]; simp [hiET]; omega
        simp only [List.length_append, List.length_singleton]; omega)
    · apply List.map_congr_left
      intro t _
      apply List.map_congr_left
      intro j _
      exact read_expand k _ _ xk (by
        have := hins_len t; simp only [List.length_append, List.length_singleton]; omega)
    · apply List.map_congr_left
      intro t _
      apply List.map_congr_left
      intro j _
      exact read_expand v _ _ xv (by
        have := hins_len t; simp only [List.length_append, List.length_singleton]; omega)
    · cases hm : mask with
      | none => rfl
      | some mt =>
        simp only [Option.map_some, Option.some.injEq]
        apply List.map_congr_left
        intro t _
        exact read_expand mt _ _ (xm mt hm) (by have := hins_len t; omega)
  rw [hel_eq]

end TensorLemmas

/-! ## Block-by-block accumulation and the mixture over consecutive blocks (improvement round 3) -/

section Chunks
variable {κ : Type} [Field κ]

theorem foldl_add_eq {α : Type} (g : α → κ) : ∀ (l : List α) (a : κ),
    l.foldl (fun acc p => acc + g p) a = a + (l.map g).sum
  | [], a => by simp
  | p :: l, a => by
    simp only [List.foldl_cons, List.map_cons, List.sum_cons]
    rw [foldl_add_eq g l (a + g p)]; ring

theorem accumulate_eq_sum (bs : List (List κ × List (List κ))) (d : Nat) :
    accumulate bs d = (bs.map (fun p => wsumCoord p.1 p.2 d)).sum := by
  unfold accumulate
  rw [foldl_add_eq (fun p : List κ × List (List κ) => wsumCoord p.1 p.2 d)]; simp

theorem wsumCoord_take_drop (ws : List κ) (vs : List (List κ)) (d n : Nat) :
    wsumCoord (ws.take n) (vs.take n) d + wsumCoord (ws.drop n) (vs.drop n) d = wsumCoord ws vs d := by
  unfold wsumCoord
  rw [← List.take_zipWith, ← List.drop_zipWith]
  exact List.sum_take_add_sum_drop _ n

/-- the blocks add up to the one-shot sum, whatever the block lengths -/
theorem blocks_sum (d : Nat) : ∀ (ns : List Nat) (ws : List κ) (vs : List (List κ)),
    ((blocks ns ws vs).map (fun p => wsumCoord p.1 p.2 d)).sum = wsumCoord ws vs d
  | [], ws, vs => by simp [blocks, chunks]
  | n :: ns, ws, vs => by
    have ih := blocks_sum d ns (ws.drop n) (vs.drop n)
    simp only [blocks, chunks, List.zip_cons_cons, List.map_cons, List.sum_cons] at ih ⊢
    rw [ih]; exact wsumCoord_take_drop ws vs d n

theorem wsumChunked_eq (ns : List Nat) (ws : List κ) (vs : List (List κ)) (d : Nat) :
    wsumChunked ns ws vs d = wsumCoord ws vs d := by
  unfold wsumChunked; rw [accumulate_eq_sum, blocks_sum]

theorem accumulate_perm {bs bs' : List (List κ × List (List κ))} (h : bs.Perm bs') (d : Nat) :
    accumulate bs d = accumulate bs' d := by
  rw [accumulate_eq_sum, accumulate_eq_sum]
  exact (h.map _).sum_eq

end Chunks

section Merge
variable {κ : Type} [Field κ]

theorem maskedExp_nonneg' [LinearOrder κ] [IsOrderedRing κ] (e : κ → κ) (he : ∀ x, 0 < e x) :
    ∀ (ss : List κ) (m : List Bool), ∀ x ∈ maskedExp e ss m, 0 ≤ x
  | [], _, x, h => by simp [maskedExp] at h
  | _ :: _, [], x, h => by simp [maskedExp] at h
  | s :: ss, b :: m, x, h => by
    simp only [maskedExp, List.zipWith_cons_cons, List.mem_cons] at h
    rcases h with rfl | h
    · cases b
      · simp
      · simpa using le_of_lt (he s)
    · exact maskedExp_nonneg' e he ss m x h

/-- non-negative weights that sum to zero contribute nothing -/
theorem wsumCoord_zero_of_sum_zero [LinearOrder κ] [IsStrictOrderedRing κ] (d : Nat) : ∀ (ex : List κ) (vs : List (List κ)),
    (∀ x ∈ ex, 0 ≤ x) → ex.sum = 0 → wsumCoord ex vs d = 0
  | [], _, _, _ => by simp [wsumCoord]
  | _ :: _, [], _, _ => by simp [wsumCoord]
  | x :: ex, v :: vs, hnn, hs => by
    have hx : 0 ≤ x := hnn x (by simp)
    have hr : 0 ≤ ex.sum := List.sum_nonneg (fun y hy => hnn y (by simp [hy]))
    rw [List.sum_cons] at hs
    have hx0 : x = 0 := by linarith
    have hr0 : ex.sum = 0 := by linarith
    have ih := wsumCoord_zero_of_sum_zero d ex vs (fun y hy => hnn y (by simp [hy])) hr0
    unfold wsumCoord at ih ⊢
    simp only [List.zipWith_cons_cons, List.sum_cons]
    rw [ih, hx0]; ring

theorem maskedExp_sum_zero_of_not_kept (e : κ → κ) : ∀ (ss : List κ) (m : List Bool),
    true ∉ m → (maskedExp e ss m).sum = 0
  | [], _, _ => by simp [maskedExp]
  | _ :: _, [], _ => by simp [maskedExp]
  | s :: ss, b :: m, h => by
    have hb : b = false := by
      cases b
      · rfl
      · exact absurd (by simp) h
    have hm : true ∉ m := fun hh => h (by simp [hh])
    have ih := maskedExp_sum_zero_of_not_kept e ss m hm
    unfold maskedExp at ih ⊢
    simp only [List.zipWith_cons_cons, List.sum_cons]
    rw [ih, hb]; simp

theorem wsumCoord_map_div (Z : κ) (d : Nat) : ∀ (ex : List κ) (vs : List (List κ)),
    wsumCoord (ex.map (· / Z)) vs d = wsumCoord ex vs d / Z
  | [], _ => by simp [wsumCoord]
  | _ :: _, [] => by simp [wsumCoord]
  | x :: ex, v :: vs => by
    have ih := wsumCoord_map_div Z d ex vs
    unfold wsumCoord at ih ⊢
    simp only [List.map_cons, List.zipWith_cons_cons, List.sum_cons]
    rw [ih]; ring

theorem sum_map_div' (Z : κ) : ∀ (ex : List κ), (ex.map (· / Z)).sum = ex.sum / Z
  | [] => by simp
  | x :: ex => by
    simp only [List.map_cons, List.sum_cons]
    rw [sum_map_div' Z ex]; ring

theorem weights_some (th e : κ → κ) (fl : Flavour κ) (q : List κ) (ks : List (List κ)) (m : List Bool) :
    weights th e fl q ks (some m) =
      (maskedExp e (ks.map (score th fl q)) m).map (· / (maskedExp e (ks.map (score th fl q)) m).sum) := by
  simp [weights, softmaxMasked, effMask]

theorem attend_getD_wsum (th e : κ → κ) (fl : Flavour κ) (D : Nat) (q : List κ) (ks vs : List (List κ))
    (mask : Option (List Bool)) (d : Nat) (hd : d < D) :
    (attend th e fl D q ks vs mask).getD d 0 = wsumCoord (weights th e fl q ks mask) vs d := by
  simp [attend, List.getD_eq_getElem?_getD, hd]

/-- one block: share × the block's own attention = the block's part of the numerator over the global `Z` -/
theorem blockTerm_eq [LinearOrder κ] [IsStrictOrderedRing κ] (th e : κ → κ) (he : ∀ x, 0 < e x) (fl : Flavour κ) (D : Nat) (q : List κ) (d : Nat)
    (hd : d < D) (Z : κ) (ks vs : List (List κ)) (m : List Bool) :
    blockTerm th e fl D q d ((maskedExp e (ks.map (score th fl q)) m).map (· / Z)) ks vs m =
      wsumCoord (maskedExp e (ks.map (score th fl q)) m) vs d / Z := by
  set ex := maskedExp e (ks.map (score th fl q)) m with hex
  have hnn : ∀ x ∈ ex, 0 ≤ x := maskedExp_nonneg' e he _ _
  unfold blockTerm
  split_ifs with hk
  · rw [attend_getD_wsum th e fl D q ks vs (some m) d hd, weights_some, ← hex, wsumCoord_map_div, sum_map_div']
    by_cases hZ : ex.sum = 0
    · rw [wsumCoord_zero_of_sum_zero d ex vs hnn hZ, hZ]; simp
    · field_simp
  · rw [wsumCoord_zero_of_sum_zero d ex vs hnn (maskedExp_sum_zero_of_not_kept e _ m hk)]; simp

theorem maskedExp_take (e : κ → κ) (sc : List κ → κ) (ks : List (List κ)) (m : List Bool) (n : Nat) :
    maskedExp e ((ks.take n).map sc) (m.take n) = (maskedExp e (ks.map sc) m).take n := by
  unfold maskedExp; rw [List.take_zipWith, List.map_take]

theorem maskedExp_drop (e : κ → κ) (sc : List κ → κ) (ks : List (List κ)) (m : List Bool) (n : Nat) :
    maskedExp e ((ks.drop n).map sc) (m.drop n) = (maskedExp e (ks.map sc) m).drop n := by
  unfold maskedExp; rw [List.drop_zipWith, List.map_drop]

theorem mergeBlocks_eq [LinearOrder κ] [IsStrictOrderedRing κ] (th e : κ → κ) (he : ∀ x, 0 < e x) (fl : Flavour κ) (D : Nat) (q : List κ) (d : Nat)
    (hd : d < D) (Z : κ) : ∀ (ns : List Nat) (ks vs : List (List κ)) (m : List Bool),
    mergeBlocks th e fl D q d ns ((maskedExp e (ks.map (score th fl q)) m).map (· / Z)) ks vs m =
      wsumCoord (maskedExp e (ks.map (score th fl q)) m) vs d / Z
  | [], ks, vs, m => by
    simp only [mergeBlocks]; exact blockTerm_eq th e he fl D q d hd Z ks vs m
  | n :: ns, ks, vs, m => by
    simp only [mergeBlocks]
    rw [← List.map_take, ← List.map_drop, ← maskedExp_take, ← maskedExp_drop,
      blockTerm_eq th e he fl D q d hd Z, mergeBlocks_eq th e he fl D q d hd Z ns,
      maskedExp_take, maskedExp_drop, ← add_div, wsumCoord_take_drop]

end Merge

/-! ## The scores' sequence axis read through broadcasting (audit E) -/
section SeqAxis
variable {κ : Type} [Field κ]

/-- reading a list through broadcasting along its own length gives the list back -/
theorem range_map_bget {α : Type} (ws : List α) (dflt : α) :
    (List.range ws.length).map (fun t => bget ws t dflt) = ws := by
  apply List.ext_getElem
  · simp
  · intro t h1 h2
    simp only [List.length_map, List.length_range] at h1
    simp only [List.getElem_map, List.getElem_range, bget]
    split
    · rename_i hl
      have : t = 0 := by omega
      subst this
      simp [List.getD_eq_getElem?_getD, h2]
    · simp [List.getD_eq_getElem?_getD, h2]

theorem weights_length (th e : κ → κ) (fl : Flavour κ) (q : List κ) (ks : List (List κ))
    (mask : Option (List Bool)) (hm : (effMask mask ks.length).length = ks.length) :
    (weights th e fl q ks mask).length = ks.length := by
  simp [weights, softmaxMasked, maskedExp, hm]

theorem attendSeqB_eq_attend (th e : κ → κ) (fl : Flavour κ) (D : Nat) (q : List κ)
    (ks vs : List (List κ)) (mask : Option (List Bool))
    (hv : ks.length = vs.length) (hm : (effMask mask ks.length).length = ks.length) :
    attendSeqB th e fl D q ks vs mask = attend th e fl D q ks vs mask := by
  have hl := weights_length th e fl q ks mask hm
  unfold attendSeqB attend
  simp only []
  rw [← hv, ← hl, range_map_bget]

end SeqAxis
end PdtVerif.Attention
