import PdtVerif.Model.NgramTrie
import PdtVerif.Spec.Backoff
/-!
# Lemmas for C06

Part 1: the two-path descent over any navigation structure that *represents* a table
computes the Katz recursion (loop invariant of `descendLoop`).
-/
namespace PdtVerif.NgramTrie
open PdtVerif.Backoff

/-! ## values -/

namespace LogP

@[simp] theorem fin_add_fin (a b : Rat) : (fin a + fin b : LogP) = fin (a + b) := rfl
@[simp] theorem negInf_add_fin (b : Rat) : (negInf + fin b : LogP) = negInf := rfl
@[simp] theorem ofOption_some (q : Rat) : ofOption (some q) = fin q := rfl
@[simp] theorem ofOption_none : ofOption none = negInf := rfl
@[simp] theorem isFinite_fin (q : Rat) : (fin q).isFinite = true := rfl
@[simp] theorem isFinite_negInf : negInf.isFinite = false := rfl

theorem ofOption_add_fin (o : Option Rat) (q : Rat) :
    ofOption o + fin q = ofOption (o.map (· + q)) := by
  cases o <;> rfl

theorem ofOption_inj {a b : Option Rat} (h : ofOption a = ofOption b) : a = b := by
  cases a <;> cases b <;> simp [ofOption] at h ⊢
  exact h

theorem isFinite_ofOption (o : Option Rat) : (ofOption o).isFinite = o.isSome := by
  cases o <;> rfl

end LogP

/-! ## walking a reversed key -/

/-- The state of a path after starting at the unigram node of `t0` and following `rest`. -/
def walkSt {ν} (nav : Nav ν) (t0 : Int) (rest : List Int) : ν × Bool :=
  rest.foldl (fun s x => stepChild nav s.1 s.2 x) (nav.root t0, true)

theorem walkSt_snoc {ν} (nav : Nav ν) (t0 : Int) (rest : List Int) (x : Int) :
    walkSt nav t0 (rest ++ [x]) = stepChild nav (walkSt nav t0 rest).1 (walkSt nav t0 rest).2 x := by
  simp [walkSt, List.foldl_append]

/-- The node reached along a reversed key (most recent token first), if every step exists. -/
def reach {ν} (nav : Nav ν) : List Int → Option ν
  | [] => none
  | t0 :: rest => if (walkSt nav t0 rest).2 then some (walkSt nav t0 rest).1 else none

/-- `nav` represents `tbl` on keys over the token set `D`: a node reached along the reversed
key carries the table's finite log-probability (or -∞) and back-off weight; where no node is
reached the table lists nothing finite and no back-off weight. -/
structure Represents {ν} (nav : Nav ν) (tbl : Table) (D : Int → Prop) : Prop where
  logp_some : ∀ k d, (∀ t ∈ k, D t) → reach nav k.reverse = some d →
    nav.logp d = LogP.ofOption (finiteP tbl k)
  logp_none : ∀ k, (∀ t ∈ k, D t) → k ≠ [] → reach nav k.reverse = none → finiteP tbl k = none
  logb_some : ∀ k d, (∀ t ∈ k, D t) → reach nav k.reverse = some d →
    nav.logb d = LogP.fin (beta tbl k)
  logb_none : ∀ k, (∀ t ∈ k, D t) → k ≠ [] → reach nav k.reverse = none → beta tbl k = 0

/-- `Represents` restricted to what a model of order `N` ever looks at: log-probabilities of
keys of length `≤ N`, back-off weights of keys of length `< N` (the n-path of the descent
reaches depth `N`, the b-path only depth `N-1`; the flat buffers store no back-off weight
for the nodes of the highest order – `logbs` is shorter than `logps` – so the unrestricted
`Represents` cannot hold for them). -/
structure RepresentsN {ν} (nav : Nav ν) (tbl : Table) (D : Int → Prop) (N : Nat) : Prop where
  logp_some : ∀ k d, (∀ t ∈ k, D t) → k.length ≤ N → reach nav k.reverse = some d →
    nav.logp d = LogP.ofOption (finiteP tbl k)
  logp_none : ∀ k, (∀ t ∈ k, D t) → k.length ≤ N → k ≠ [] → reach nav k.reverse = none →
    finiteP tbl k = none
  logb_some : ∀ k d, (∀ t ∈ k, D t) → k.length + 1 ≤ N → reach nav k.reverse = some d →
    nav.logb d = LogP.fin (beta tbl k)
  logb_none : ∀ k, (∀ t ∈ k, D t) → k.length + 1 ≤ N → k ≠ [] → reach nav k.reverse = none →
    beta tbl k = 0

theorem Represents.toN {ν} {nav : Nav ν} {tbl : Table} {D : Int → Prop} (H : Represents nav tbl D)
    (N : Nat) : RepresentsN nav tbl D N where
  logp_some := fun k d hk _ h => H.logp_some k d hk h
  logp_none := fun k hk _ hne h => H.logp_none k hk hne h
  logb_some := fun k d hk _ h => H.logb_some k d hk h
  logb_none := fun k hk _ hne h => H.logb_none k hk hne h

section loop
variable {ν : Type} (nav : Nav ν) (tbl : Table) (D : Int → Prop) (N : Nat)
  (H : RepresentsN nav tbl D N)
include H

/-- log-probability seen on the n-path after a step, and whether it clobbers. -/
theorem npath_logp (w : Int) (pre : List Int) (hw : D w) (hpre : ∀ t ∈ pre, D t)
    (hlen : pre.length + 1 ≤ N) :
    let s := walkSt nav w pre
    ((nav.logp s.1).isFinite && s.2) = (finiteP tbl (pre.reverse ++ [w])).isSome ∧
    (s.2 = true → nav.logp s.1 = LogP.ofOption (finiteP tbl (pre.reverse ++ [w]))) := by
  intro s
  have hk : ∀ t ∈ pre.reverse ++ [w], D t := by
    intro t ht
    simp at ht
    rcases ht with ht | ht
    · exact hpre t ht
    · exact ht ▸ hw
  have hrev : (pre.reverse ++ [w]).reverse = w :: pre := by simp
  have hkl : (pre.reverse ++ [w]).length ≤ N := by simp; omega
  by_cases hs : s.2 = true
  · have hr : reach nav (pre.reverse ++ [w]).reverse = some s.1 := by
      rw [hrev]; simp only [reach]; simp [s] at hs; simp [hs, s]
    have := H.logp_some _ _ hk hkl hr
    refine ⟨?_, fun _ => this⟩
    rw [this, hs, Bool.and_true, LogP.isFinite_ofOption]
  · have hs' : s.2 = false := by simpa using hs
    have hr : reach nav (pre.reverse ++ [w]).reverse = none := by
      rw [hrev]; simp only [reach]; simp [s] at hs'; simp [hs']
    have := H.logp_none _ hk hkl (by simp) hr
    refine ⟨?_, fun h => absurd h hs⟩
    rw [hs', Bool.and_false, this]; rfl

/-- back-off weight seen on the b-path. -/
theorem bpath_logb (t0 : Int) (pre : List Int) (h0 : D t0) (hpre : ∀ t ∈ pre, D t)
    (hlen : pre.length + 2 ≤ N) :
    let s := walkSt nav t0 pre
    (if s.2 then nav.logb s.1 else LogP.fin 0) = LogP.fin (beta tbl (t0 :: pre).reverse) := by
  intro s
  have hk : ∀ t ∈ (t0 :: pre).reverse, D t := by
    intro t ht
    simp at ht
    rcases ht with ht | ht
    · exact hpre t ht
    · exact ht ▸ h0
  have hkl : ((t0 :: pre).reverse).length + 1 ≤ N := by simp; omega
  by_cases hs : s.2 = true
  · have hr : reach nav ((t0 :: pre).reverse).reverse = some s.1 := by
      rw [List.reverse_reverse]; simp only [reach]; simp [s] at hs; simp [hs, s]
    rw [if_pos hs]
    exact H.logb_some _ _ hk hkl hr
  · have hs' : s.2 = false := by simpa using hs
    have hr : reach nav ((t0 :: pre).reverse).reverse = none := by
      rw [List.reverse_reverse]; simp only [reach]; simp [s] at hs'; simp [hs']
    rw [if_neg hs, H.logb_none _ hk hkl (by simp) hr]

end loop


/-! ## the loop invariant -/

/-- State of a path along a non-empty reversed key. -/
def walkK {ν} (nav : Nav ν) : List Int → ν × Bool
  | [] => (nav.root 0, false)
  | t0 :: rest => walkSt nav t0 rest

theorem walkK_snoc {ν} (nav : Nav ν) (k : List Int) (x : Int) (hk : k ≠ []) :
    walkK nav (k ++ [x]) = stepChild nav (walkK nav k).1 (walkK nav k).2 x := by
  cases k with
  | nil => exact absurd rfl hk
  | cons t0 rest => simp [walkK, walkSt_snoc]

/-- What `last_logps` / `last_backoffs` hold when the n-path has consumed `pre` and is about
to consume `t`: together they are the recursion's value for the context `pre` plus the
back-off weight of the context extended by `t`. -/
def ValInv (tbl : Table) (w : Int) (pre : List Int) (t : Int) (last back : LogP) : Prop :=
  ∃ o q, last = LogP.ofOption o ∧ back = LogP.fin q ∧
    o.map (· + q) = (bo tbl w pre.reverse).map (· + beta tbl (t :: pre.reverse))

section loop2
variable {ν : Type} (nav : Nav ν) (tbl : Table) (D : Int → Prop) (N : Nat)
  (H : RepresentsN nav tbl D N)
include H

theorem loop_spec (w : Int) (hw : D w) :
    ∀ (l pre : List Int) (st : PathState ν), (∀ t ∈ pre, D t) → (∀ t ∈ l, D t) →
      (pre ++ l).length + 1 ≤ N →
      (st.dN, st.fN) = walkK nav (w :: pre) →
      (∀ t rest, l = t :: rest → (st.dB, st.fB) = walkK nav (pre ++ [t]) ∧
        ValInv tbl w pre t st.last st.back) →
      l ≠ [] →
      descendLoop nav l st = LogP.ofOption (bo tbl w (pre ++ l).reverse) := by
  intro l
  induction l with
  | nil => intro _ _ _ _ _ _ _ h; exact absurd rfl h
  | cons t tl ih =>
    intro pre st hpre hl hlenN hN hB _
    have hlenN' : pre.length + tl.length + 2 ≤ N := by
      simp only [List.length_append, List.length_cons] at hlenN; omega
    obtain ⟨hBp, o, q, hlast, hback, hval⟩ := hB t tl rfl
    have hpre' : ∀ x ∈ pre ++ [t], D x := by
      intro x hx
      simp at hx
      rcases hx with hx | hx
      · exact hpre x hx
      · exact hx ▸ hl t (by simp)
    -- the n-path after consuming `t`
    have hstepN : stepChild nav st.dN st.fN t = walkK nav (w :: (pre ++ [t])) := by
      have := walkK_snoc nav (w :: pre) t (by simp)
      rw [← hN] at this
      simpa using this.symm
    have hnp := npath_logp nav tbl D N H w (pre ++ [t]) hw hpre' (by simp; omega)
    simp only [List.reverse_append, List.reverse_cons, List.reverse_nil, List.nil_append,
      List.singleton_append] at hnp
    have hbo_some : ∀ p, finiteP tbl (t :: pre.reverse ++ [w]) = some p →
        bo tbl w (t :: pre.reverse) = some p := by
      intro p h; rw [bo, h]
    have hbo_none : finiteP tbl (t :: pre.reverse ++ [w]) = none →
        bo tbl w (t :: pre.reverse) =
          (bo tbl w pre.reverse).map (beta tbl (t :: pre.reverse) + ·) := by
      intro h; rw [bo, h]
    cases tl with
    | nil =>
      simp only [descendLoop, hstepN, walkK]
      simp only [List.reverse_append, List.reverse_cons,
        List.reverse_nil, List.nil_append, List.cons_append]
      obtain ⟨h1, h2⟩ := hnp
      cases hf : finiteP tbl (t :: pre.reverse ++ [w]) with
      | some p =>
        rw [hbo_some p hf]
        rw [hf] at h1 h2
        have hb : (walkSt nav w (pre ++ [t])).2 = true := by
          simp only [Option.isSome_some, Bool.and_eq_true] at h1; exact h1.2
        rw [h1]; simp [h2 hb]
      | none =>
        rw [hbo_none hf]
        rw [hf] at h1
        rw [h1]
        simp only [Option.isSome_none, Bool.false_eq_true, if_false]
        rw [hlast, hback, LogP.ofOption_add_fin, LogP.ofOption_add_fin]
        congr 1
        cases o <;> cases hb : bo tbl w pre.reverse <;> simp [hb] at hval ⊢
        grind
    | cons t' rest =>
      have hstepB : stepChild nav st.dB st.fB t' = walkK nav (pre ++ [t] ++ [t']) := by
        have := walkK_snoc nav (pre ++ [t]) t' (by simp)
        rw [← hBp] at this
        simpa using this.symm
      -- the b-path key is non-empty
      obtain ⟨t0, bp, hkey⟩ : ∃ t0 bp, pre ++ [t] ++ [t'] = t0 :: bp := by
        cases pre <;> simp
      have hD0 : ∀ x ∈ t0 :: bp, D x := by
        rw [← hkey]
        intro x hx
        simp at hx
        rcases hx with hx | hx | hx
        · exact hpre x hx
        · exact hx ▸ hl t (by simp)
        · exact hx ▸ hl t' (by simp)
      have hbpl : bp.length + 2 ≤ N := by
        have := congrArg List.length hkey
        simp only [List.length_append, List.length_cons, List.length_nil] at this hlenN'
        omega
      have hc := bpath_logb nav tbl D N H t0 bp (hD0 t0 (by simp)) (fun x hx => hD0 x (by simp [hx])) hbpl
      simp only at hc
      have hwalk : walkK nav (pre ++ [t] ++ [t']) = walkSt nav t0 bp := by rw [hkey]; rfl
      rw [← hkey] at hc
      have hrev : (pre ++ [t] ++ [t']).reverse = t' :: (pre ++ [t]).reverse := by simp
      rw [hrev] at hc
      simp only [descendLoop, hstepN, hstepB, hwalk]
      have hgoal : pre ++ t :: t' :: rest = (pre ++ [t]) ++ (t' :: rest) := by simp
      rw [hgoal]
      apply ih (pre ++ [t]) _ hpre' (fun x hx => hl x (by simp [hx]))
      · simp only [List.length_append, List.length_cons, List.length_nil] at hlenN' ⊢; omega
      · rfl
      · intro t'' rest' e
        cases e
        refine ⟨by rw [hwalk], ?_⟩
        simp only [walkK]
        obtain ⟨h1, h2⟩ := hnp
        rw [hc]
        have hrev2 : (pre ++ [t]).reverse = t :: pre.reverse := by simp
        unfold ValInv
        rw [hrev2]
        cases hf : finiteP tbl (t :: pre.reverse ++ [w]) with
        | some p =>
          rw [hbo_some p hf]
          rw [hf] at h1 h2
          have hb : (walkSt nav w (pre ++ [t])).2 = true := by
            simp only [Option.isSome_some, Bool.and_eq_true] at h1; exact h1.2
          simp only [h1, Option.isSome_some, if_true]
          refine ⟨some p, _, ?_, rfl, rfl⟩
          simp [h2 hb]
        | none =>
          rw [hbo_none hf]
          rw [hf] at h1
          simp only [h1, Option.isSome_none, Bool.false_eq_true, if_false]
          refine ⟨(o.map (· + beta tbl (t' :: t :: pre.reverse))).map (· + q), 0, ?_, rfl, ?_⟩
          · rw [hlast, hback, LogP.ofOption_add_fin, LogP.ofOption_add_fin]
          · cases o <;> cases hb : bo tbl w pre.reverse <;> simp [hb] at hval ⊢
            grind
      · simp

end loop2

/-- **The two-path descent computes Katz back-off** on every navigation structure that
represents the table. `win` is the window oldest token first (any length, i.e. any order). -/
theorem descend_eq_boN {ν : Type} (nav : Nav ν) (tbl : Table) (D : Int → Prop) (N : Nat)
    (H : RepresentsN nav tbl D N) (win : List Int) (hlen : win.length + 1 ≤ N) (w : Int) (hw : D w)
    (hwin : ∀ t ∈ win, D t) :
    descend nav win.reverse w = LogP.ofOption (bo tbl w win) := by
  cases hr : win.reverse with
  | nil =>
    have : win = [] := by simpa using hr
    subst this
    simp only [descend]
    have hreach : reach nav [w].reverse = some (nav.root w) := by simp [reach, walkSt]
    rw [H.logp_some [w] _ (by simpa using hw) (by simp; omega) hreach]
    simp [bo]
  | cons t0 rest =>
    simp only [descend]
    have hwin' : ∀ t ∈ t0 :: rest, D t := by
      intro t ht; rw [← hr] at ht; exact hwin t (by simpa using ht)
    have hrw : reach nav [w].reverse = some (nav.root w) := by simp [reach, walkSt]
    have hrt : reach nav [t0].reverse = some (nav.root t0) := by simp [reach, walkSt]
    have hD0 : D t0 := hwin' t0 (by simp)
    have hwl : win.length = rest.length + 1 := by
      have := congrArg List.length hr; simpa using this
    have hlw := H.logp_some [w] _ (by simpa using hw) (by simp; omega) hrw
    have hlt := H.logb_some [t0] _ (by simpa using hD0) (by simp; omega) hrt
    have := loop_spec nav tbl D N H w hw (t0 :: rest) []
      ⟨nav.root w, true, nav.root t0, true, nav.logp (nav.root w), nav.logb (nav.root t0)⟩
      (by simp) hwin' (by simp; omega) (by simp [walkK, walkSt])
      (by
        intro t r e
        cases e
        refine ⟨by simp [walkK, walkSt], finiteP tbl [w], beta tbl [t0], hlw, hlt, ?_⟩
        simp [bo])
      (by simp)
    rw [this]
    congr 2
    rw [← hr]; simp


/-- The unrestricted version (navigation structures that carry a back-off weight at every
depth, e.g. the abstract reverse trie). -/
theorem descend_eq_bo {ν : Type} (nav : Nav ν) (tbl : Table) (D : Int → Prop)
    (H : Represents nav tbl D) (win : List Int) (w : Int) (hw : D w) (hwin : ∀ t ∈ win, D t) :
    descend nav win.reverse w = LogP.ofOption (bo tbl w win) :=
  descend_eq_boN nav tbl D (win.length + 1) (H.toN _) win (Nat.le_refl _) w hw hwin

/-! ## the abstract reverse trie of an arbitrary finite table -/

/-- `r` (most recent token first) is a node of the reverse trie: it is a prefix of some
reversed key. This set is what `_build_trie` materialises: the listed n-grams plus every
suffix of a listed n-gram (the implicit `(-inf, 0)` entries). -/
def isNode (items : List (List Int × Entry)) (r : List Int) : Bool :=
  items.any (fun e => r.isPrefixOf e.1.reverse)

/-- The abstract reverse trie of a table given as an association list: nodes are the
prefixes of reversed keys, a node carries the table's entry or the implicit `(-inf, 0)`;
every token has a unigram node. -/
def trieNav (items : List (List Int × Entry)) : Nav (List Int) where
  root t := [t]
  child d t := if isNode items (d ++ [t]) then some (d ++ [t]) else none
  logp d := LogP.ofOption (finiteP (ofList items) d.reverse)
  logb d := LogP.fin (beta (ofList items) d.reverse)

theorem trie_step (items : List (List Int × Entry)) (d : List Int) (x : Int) :
    stepChild (trieNav items) d true x =
      if isNode items (d ++ [x]) = true then (d ++ [x], true) else (d, false) := by
  by_cases h : isNode items (d ++ [x]) = true <;> simp [stepChild, trieNav, h]

theorem step_false {ν} (nav : Nav ν) (d : ν) (x : Int) : stepChild nav d false x = (d, false) := by
  simp [stepChild]

theorem fold_false {ν} (nav : Nav ν) (rest : List Int) (d : ν) :
    (rest.foldl (fun s x => stepChild nav s.1 s.2 x) (d, false)).2 = false := by
  induction rest generalizing d with
  | nil => rfl
  | cons x xs ih => rw [List.foldl_cons]; simp only [step_false]; exact ih d

theorem trie_fold_path (items : List (List Int × Entry)) (rest : List Int) (d : List Int) :
    (rest.foldl (fun s x => stepChild (trieNav items) s.1 s.2 x) (d, true)).2 = true →
    (rest.foldl (fun s x => stepChild (trieNav items) s.1 s.2 x) (d, true)).1 = d ++ rest := by
  induction rest generalizing d with
  | nil => simp
  | cons x xs ih =>
    intro h
    rw [List.foldl_cons] at h ⊢
    simp only [trie_step] at h ⊢
    by_cases hn : isNode items (d ++ [x]) = true
    · rw [if_pos hn] at h ⊢
      have := ih (d ++ [x]) h
      simpa using this
    · rw [if_neg hn] at h
      rw [fold_false] at h
      cases h

theorem trie_fold_found (items : List (List Int × Entry)) (rest : List Int) (d : List Int)
    (h : ∀ p, p ≠ [] → p <+: rest → isNode items (d ++ p) = true) :
    (rest.foldl (fun s x => stepChild (trieNav items) s.1 s.2 x) (d, true)).2 = true := by
  induction rest generalizing d with
  | nil => rfl
  | cons x xs ih =>
    have hx : isNode items (d ++ [x]) = true := h [x] (by simp) (by simp [List.prefix_cons_iff])
    rw [List.foldl_cons]
    simp only [trie_step]
    rw [if_pos hx]
    exact ih (d ++ [x]) (by
      intro p hp hpre
      have := h (x :: p) (by simp) (by simpa [List.cons_prefix_cons] using hpre)
      simpa using this)

theorem mem_of_ofList_some {items : List (List Int × Entry)} {k : List Int} {e : Entry}
    (h : ofList items k = some e) : (k, e) ∈ items := by
  simp only [ofList, Option.map_eq_some_iff] at h
  obtain ⟨a, ha, rfl⟩ := h
  have hm := List.mem_of_find?_eq_some ha
  have hk := List.find?_some ha
  simp only [beq_iff_eq] at hk
  rw [← hk]
  exact hm

theorem trie_reach_of_key (items : List (List Int × Entry)) (k : List Int) (e : Entry)
    (hk : k ≠ []) (h : (k, e) ∈ items) : reach (trieNav items) k.reverse = some k.reverse := by
  cases hr : k.reverse with
  | nil => simp at hr; exact absurd hr hk
  | cons t0 rest =>
    have hfound : (walkSt (trieNav items) t0 rest).2 = true := by
      apply trie_fold_found items rest [t0]
      intro p _ hpre
      simp only [isNode, List.any_eq_true]
      refine ⟨(k, e), h, ?_⟩
      rw [List.isPrefixOf_iff_prefix, hr]
      simpa [List.cons_prefix_cons] using hpre
    have hpath := trie_fold_path items rest [t0] hfound
    simp only [reach]
    simp only [walkSt] at hfound ⊢
    change (List.foldl (fun s x => stepChild (trieNav items) s.1 s.2 x) ([t0], true) rest).2 = true at hfound
    change (if (List.foldl (fun s x => stepChild (trieNav items) s.1 s.2 x) ([t0], true) rest).2 = true
      then some (List.foldl (fun s x => stepChild (trieNav items) s.1 s.2 x) ([t0], true) rest).1
      else none) = _
    rw [if_pos hfound, hpath]; rfl

theorem trie_reach_some (items : List (List Int × Entry)) (r d : List Int)
    (h : reach (trieNav items) r = some d) : d = r := by
  cases r with
  | nil => simp [reach] at h
  | cons t0 rest =>
    simp only [reach] at h
    split at h
    · rename_i hf
      have := trie_fold_path items rest [t0] hf
      simp only [Option.some.injEq] at h
      rw [← h]
      exact this
    · cases h

/-- The abstract reverse trie represents its table – for every table, whatever is listed
or missing (no closure assumption on the table itself). -/
theorem trieNav_represents (items : List (List Int × Entry)) :
    Represents (trieNav items) (ofList items) (fun _ => True) where
  logp_some := by
    intro k d _ h
    have := trie_reach_some items _ _ h
    subst this
    simp [trieNav]
  logb_some := by
    intro k d _ h
    have := trie_reach_some items _ _ h
    subst this
    simp [trieNav]
  logp_none := by
    intro k _ hk h
    cases ht : ofList items k with
    | none => simp [finiteP, ht]
    | some e =>
      have := trie_reach_of_key items k e hk (mem_of_ofList_some ht)
      rw [this] at h; cases h
  logb_none := by
    intro k _ hk h
    cases ht : ofList items k with
    | none => simp [beta, ht]
    | some e =>
      have := trie_reach_of_key items k e hk (mem_of_ofList_some ht)
      rw [this] at h; cases h

end PdtVerif.NgramTrie
