import PdtVerif.Lemmas.Checkpoint
/-!
# C16: crash safety does not depend on the order of the calls of a save

`save_model_and_optimizer_with_info` is two pipelines (`makedirs`, create a temp file, write the state dict,
rename onto the checkpoint path), one for the model, one for the optimizer. The pinned code interleaves them
in one particular way (`saveOps`); a harmless rewrite may use another (finish the model before the optimizer
is started, create both temp files first, optimizer first, …). Here:

* `Shuffle` / `shuffles`: the interleavings; `Shuffle.proj`: calls that work on different files commute;
* `save_any_eqv`: every interleaving leaves a disk no controller can tell from the pinned order's;
* `step_main_any`, `c16_rec_step_any_order`, `c16_rec_step_torn_any_order`, `c16_rec_full_any_order`:
  `Rec` after every single call, for every interleaving (the proofs of `Lemmas/Checkpoint.lean` redone with
  the frame argument alone before the data row, transported along `Disk.Eqv` behind it);
* `c16_exact_step_any_order`, `c16_keepall_step_any_order`;
* `eff_take`, `c16_crashMatch_rec`: the matcher the driver uses (`crashMatch` of the Model: observed effective
  file-system changes against the admitted orders, no-op calls dropped) accepts only sequences that leave a
  recoverable disk;
* `exec_effective`, `removes_eqv`, `c16_fullMatch_rec`: the same for a COMPLETED update (`fullMatch`);
* `runsAny_rec`, `c16_rec_killed_any_order`, `c16_resume_any_order`: sessions and crash schedules in which every
  update uses any admitted order.
-/
namespace PdtVerif.Checkpoint


theorem Shuffle.nil_left {α : Type} (bs : List α) : Shuffle [] bs bs := by
  induction bs with
  | nil => exact .nil
  | cons b bs ih => exact .right ih

theorem Shuffle.nil_right {α : Type} (as : List α) : Shuffle as [] as := by
  induction as with
  | nil => exact .nil
  | cons a as ih => exact .left ih

theorem Shuffle.mem {α : Type} {as bs l : List α} (h : Shuffle as bs l) {x : α} (hx : x ∈ l) :
    x ∈ as ∨ x ∈ bs := by
  induction h with
  | nil => cases hx
  | left _ ih =>
    rcases List.mem_cons.1 hx with rfl | hx
    · exact Or.inl (List.mem_cons_self ..)
    · rcases ih hx with h | h
      · exact Or.inl (List.mem_cons_of_mem _ h)
      · exact Or.inr h
  | right _ ih =>
    rcases List.mem_cons.1 hx with rfl | hx
    · exact Or.inr (List.mem_cons_self ..)
    · rcases ih hx with h | h
      · exact Or.inl h
      · exact Or.inr (List.mem_cons_of_mem _ h)

theorem Shuffle.length {α : Type} {as bs l : List α} (h : Shuffle as bs l) :
    l.length = as.length + bs.length := by
  induction h with
  | nil => rfl
  | left _ ih => simp [ih]; omega
  | right _ ih => simp [ih]; omega

theorem Shuffle.symm {α : Type} {as bs l : List α} (h : Shuffle as bs l) : Shuffle bs as l := by
  induction h with
  | nil => exact .nil
  | left _ ih => exact .right ih
  | right _ ih => exact .left ih

theorem Shuffle.eq_of_nil_right {α : Type} {as l : List α} (h : Shuffle as [] l) : l = as := by
  generalize hn : ([] : List α) = n at h
  induction h with
  | nil => rfl
  | left _ ih => rw [ih hn]
  | right _ _ => cases hn

theorem Shuffle.eq_of_nil_left {α : Type} {bs l : List α} (h : Shuffle [] bs l) : l = bs :=
  h.symm.eq_of_nil_right

/-- The executable enumeration lists exactly the interleavings. -/
theorem mem_shuffles_iff {α : Type} (as bs l : List α) : l ∈ shuffles as bs ↔ Shuffle as bs l := by
  fun_induction shuffles as bs generalizing l with
  | case1 bs =>
    simp only [List.mem_singleton]
    exact ⟨fun h => h ▸ Shuffle.nil_left _, Shuffle.eq_of_nil_left⟩
  | case2 a as =>
    simp only [List.mem_singleton]
    exact ⟨fun h => h ▸ Shuffle.nil_right _, Shuffle.eq_of_nil_right⟩
  | case3 a as b bs ih1 ih2 =>
    simp only [List.mem_append, List.mem_map]
    constructor
    · rintro (⟨l', hl', rfl⟩ | ⟨l', hl', rfl⟩)
      · exact .left ((ih1 l').1 hl')
      · exact .right ((ih2 l').1 hl')
    · intro h
      cases h with
      | left h' => exact Or.inl ⟨_, (ih1 _).2 h', rfl⟩
      | right h' => exact Or.inr ⟨_, (ih2 _).2 h', rfl⟩

/-! ## calls that work on different files commute -/

/-- A call looks at, and changes, only the files it `touches`: two disks that agree on a set `S` of paths
containing them still agree on `S` afterwards. -/
theorem exec1_local (S : Path → Prop) (op : FsOp) (hop : ∀ q, touches op q → S q) {d d' : Disk}
    (h : ∀ q, S q → d.files.get q = d'.files.get q) :
    ∀ q, S q → (exec1 d op).files.get q = (exec1 d' op).files.get q := by
  intro q hq
  cases op with
  | mkdirs => exact h q hq
  | mktemp t => simp only [exec1, Files.get_set]; split <;> simp [h q hq]
  | write t c => simp only [exec1, Files.get_set]; split <;> simp [h q hq]
  | replace t dst =>
    have ht : d.files.get (.tmp t) = d'.files.get (.tmp t) := h _ (hop _ (Or.inl rfl))
    simp only [exec1, ← ht]
    cases hc : d.files.get (.tmp t) with
    | none => exact h q hq
    | some c => simp only [Files.get_set, Files.get_del]; split <;> simp [h q hq]
  | openAppend => exact h q hq
  | hwrite l => exact h q hq
  | remove p => simp only [exec1, Files.get_del]; split <;> simp [h q hq]

/-- The calls of `as` work on the files `S`, the calls of `bs` on other files: on `S`, any interleaving of
the two does what `as` alone does. -/
theorem Shuffle.proj {as bs l : List FsOp} (hsh : Shuffle as bs l) (S : Path → Prop)
    (ha : ∀ op ∈ as, ∀ q, touches op q → S q) (hb : ∀ op ∈ bs, ∀ q, S q → ¬ touches op q) :
    ∀ d d' : Disk, (∀ q, S q → d.files.get q = d'.files.get q) →
      ∀ q, S q → (exec d l).files.get q = (exec d' as).files.get q := by
  induction hsh with
  | nil => intro d d' h; exact h
  | left _ ih =>
    intro d d' h
    rw [exec_cons, exec_cons]
    exact ih (fun op hm => ha op (List.mem_cons_of_mem _ hm)) hb _ _
      (exec1_local S _ (ha _ (List.mem_cons_self ..)) h)
  | right _ ih =>
    intro d d' h
    rw [exec_cons]
    refine ih ha (fun op hm => hb op (List.mem_cons_of_mem _ hm)) _ _ ?_
    intro q hq
    rw [exec1_get _ _ _ (hb _ (List.mem_cons_self ..) q hq)]
    exact h q hq

theorem Disk.Eqv.refl (d : Disk) : d.Eqv d := ⟨fun _ => rfl, rfl⟩

theorem Disk.Eqv.symm' {d d' : Disk} (h : d.Eqv d') : d'.Eqv d := ⟨fun q => (h.1 q).symm, h.2.symm⟩

theorem exec1_eqv {d d' : Disk} (h : d.Eqv d') (op : FsOp) : (exec1 d op).Eqv (exec1 d' op) := by
  refine ⟨fun q => exec1_local (fun _ => True) op (fun _ _ => trivial) (fun q _ => h.1 q) q trivial, ?_⟩
  cases op with
  | replace t dst =>
    have := h.1 (.tmp t)
    simp only [exec1, ← this]
    split <;> exact h.2
  | openAppend => simp only [exec1, h.2]
  | hwrite l => simp only [exec1, h.2]
  | _ => exact h.2

theorem exec_eqv {d d' : Disk} (h : d.Eqv d') (ops : List FsOp) : (exec d ops).Eqv (exec d' ops) := by
  induction ops generalizing d d' with
  | nil => exact h
  | cons op ops ih => rw [exec_cons, exec_cons]; exact ih (exec1_eqv h op)

theorem RecAt_eqv {P : Params} {vals : List (Option Int)} {tr : Train} {d d' : Disk} {k : Nat}
    (h : d.Eqv d') (hr : RecAt P vals tr d k) : RecAt P vals tr d' k := by
  obtain ⟨h1, h2, h3, h4, h5⟩ := hr
  refine ⟨?_, ?_, h3, ?_, ?_⟩
  · rw [recorded_congr (d := d) (by rw [h.2])]; exact h1
  · rw [← h.2]; exact h2
  · rw [loadState_congr P k (fun q _ => (h.1 q).symm)]; exact h4
  · rw [loadState_congr P _ (fun q _ => (h.1 q).symm)]; exact h5

/-! ## the save in any order -/

theorem saveOps_shuffle (P : Params) (d : Disk) (e : Nat) (s : St) :
    Shuffle (pipeM P d e s) (pipeO P d e s) (saveOps P d e s) :=
  .left (.left (.left (.right (.right (.right (.left (.right .nil)))))))

theorem saveOps_mem_saveOrders (P : Params) (d : Disk) (e : Nat) (s : St) :
    saveOps P d e s ∈ saveOrders P d e s :=
  (mem_shuffles_iff _ _ _).2 (saveOps_shuffle P d e s)

/-- The files the model's pipeline works on. -/
def SM (P : Params) (d : Disk) (e : Nat) (q : Path) : Prop := q = .tmp (freshTmp d.files) ∨ q = P.mpath e
/-- The files the optimizer's pipeline works on. -/
def SO (P : Params) (d : Disk) (e : Nat) (q : Path) : Prop := q = .tmp (freshTmp d.files + 1) ∨ q = P.opath e

theorem pipeM_touch (P : Params) (d : Disk) (e : Nat) (s : St) :
    ∀ op ∈ pipeM P d e s, ¬ isHwrite op ∧ op ≠ .openAppend ∧ ∀ q, touches op q → SM P d e q := by
  intro op hop
  simp only [pipeM, List.mem_cons, List.not_mem_nil, or_false] at hop
  rcases hop with h | h | h | h <;> subst h <;>
    simp only [isHwrite, touches, SM, not_false_eq_true, true_and, false_imp_iff, implies_true, ne_eq,
      reduceCtorEq]
  · intro q hq; exact Or.inl hq
  · intro q hq; exact Or.inl hq
  · intro q hq; exact hq

theorem pipeO_touch (P : Params) (d : Disk) (e : Nat) (s : St) :
    ∀ op ∈ pipeO P d e s, ¬ isHwrite op ∧ op ≠ .openAppend ∧ ∀ q, touches op q → SO P d e q := by
  intro op hop
  simp only [pipeO, List.mem_cons, List.not_mem_nil, or_false] at hop
  rcases hop with h | h | h | h <;> subst h <;>
    simp only [isHwrite, touches, SO, not_false_eq_true, true_and, false_imp_iff, implies_true, ne_eq,
      reduceCtorEq]
  · intro q hq; exact Or.inl hq
  · intro q hq; exact Or.inl hq
  · intro q hq; exact hq

theorem SM_not_SO {P : Params} {d : Disk} {e : Nat} {q : Path} (h : SM P d e q) : ¬ SO P d e q := by
  rcases h with rfl | rfl <;> simp [SO, Params.mpath, Params.opath]

/-- Every call of a save (in any order), and the `open` of the history file: no history line, and only
temp files and the two new paths are touched. -/
theorem safe_save_any {P : Params} {d0 : Disk} {e : Nat} {s : St} {sv : List FsOp}
    (hsh : Shuffle (pipeM P d0 e s) (pipeO P d0 e s) sv) :
    ∀ op ∈ sv ++ [FsOp.openAppend],
      ¬ isHwrite op ∧ ∀ q, touches op q → (q = P.mpath e ∨ q = P.opath e ∨ ∃ t, q = Path.tmp t) := by
  intro op hop
  rcases List.mem_append.1 hop with hop | hop
  · rcases hsh.mem hop with h | h
    · obtain ⟨h1, _, h3⟩ := pipeM_touch P d0 e s op h
      refine ⟨h1, fun q hq => ?_⟩
      rcases h3 q hq with h | h
      · exact Or.inr (Or.inr ⟨_, h⟩)
      · exact Or.inl h
    · obtain ⟨h1, _, h3⟩ := pipeO_touch P d0 e s op h
      refine ⟨h1, fun q hq => ?_⟩
      rcases h3 q hq with h | h
      · exact Or.inr (Or.inr ⟨_, h⟩)
      · exact Or.inr (Or.inl h)
  · simp only [List.mem_cons, List.not_mem_nil, or_false] at hop
    subst hop
    exact ⟨fun h => h, fun q hq => hq.elim⟩

theorem exec_csv_of_files_ops (ops : List FsOp) (d : Disk)
    (h : ∀ op ∈ ops, ¬ isHwrite op ∧ op ≠ .openAppend) : (exec d ops).csv = d.csv := by
  induction ops generalizing d with
  | nil => rfl
  | cons op ops ih =>
    rw [exec_cons, ih _ (fun op' hm => h op' (List.mem_cons_of_mem _ hm))]
    obtain ⟨h1, h2⟩ := h op (List.mem_cons_self ..)
    cases op with
    | hwrite l => exact absurd trivial h1
    | openAppend => exact absurd rfl h2
    | replace t dst => simp only [exec1]; split <;> rfl
    | _ => rfl

/-- **The order of the eight calls of a save does not matter**: every interleaving of the two pipelines
leaves, from any disk, a disk no controller can tell from the one the pinned order leaves. -/
theorem save_any_eqv {P : Params} {d0 : Disk} {e : Nat} {s : St} {sv : List FsOp}
    (hsh : Shuffle (pipeM P d0 e s) (pipeO P d0 e s) sv) (d : Disk) :
    (exec d sv).Eqv (exec d (saveOps P d0 e s)) := by
  have hcan := saveOps_shuffle P d0 e s
  have hM : ∀ {l : List FsOp}, Shuffle (pipeM P d0 e s) (pipeO P d0 e s) l → ∀ q, SM P d0 e q →
      (exec d l).files.get q = (exec d (pipeM P d0 e s)).files.get q := fun hl =>
    hl.proj (SM P d0 e) (fun op hm => (pipeM_touch P d0 e s op hm).2.2)
      (fun op hm q hq ht => SM_not_SO hq ((pipeO_touch P d0 e s op hm).2.2 q ht)) d d (fun _ _ => rfl)
  have hO : ∀ {l : List FsOp}, Shuffle (pipeM P d0 e s) (pipeO P d0 e s) l → ∀ q, SO P d0 e q →
      (exec d l).files.get q = (exec d (pipeO P d0 e s)).files.get q := fun hl =>
    hl.symm.proj (SO P d0 e) (fun op hm => (pipeO_touch P d0 e s op hm).2.2)
      (fun op hm q hq ht => SM_not_SO ((pipeM_touch P d0 e s op hm).2.2 q ht) hq) d d (fun _ _ => rfl)
  have hN : ∀ {l : List FsOp}, Shuffle (pipeM P d0 e s) (pipeO P d0 e s) l → ∀ q, ¬ SM P d0 e q → ¬ SO P d0 e q →
      (exec d l).files.get q = d.files.get q := by
    intro l hl q h1 h2
    refine exec_frame_files (fun q => ¬ SM P d0 e q ∧ ¬ SO P d0 e q) l d ?_ q ⟨h1, h2⟩
    intro op hm q hq ht
    rcases hl.mem hm with h | h
    · exact hq.1 ((pipeM_touch P d0 e s op h).2.2 q ht)
    · exact hq.2 ((pipeO_touch P d0 e s op h).2.2 q ht)
  have hcsv : ∀ {l : List FsOp}, Shuffle (pipeM P d0 e s) (pipeO P d0 e s) l → (exec d l).csv = d.csv := by
    intro l hl
    apply exec_csv_of_files_ops
    intro op hm
    rcases hl.mem hm with h | h
    · exact ⟨(pipeM_touch P d0 e s op h).1, (pipeM_touch P d0 e s op h).2.1⟩
    · exact ⟨(pipeO_touch P d0 e s op h).1, (pipeO_touch P d0 e s op h).2.1⟩
  refine ⟨fun q => ?_, by rw [hcsv hsh, hcsv hcan]⟩
  by_cases h1 : SM P d0 e q
  · rw [hM hsh q h1, hM hcan q h1]
  · by_cases h2 : SO P d0 e q
    · rw [hO hsh q h2, hO hcan q h2]
    · rw [hN hsh q h1 h2, hN hcan q h1 h2]

theorem saveOrders_length {P : Params} {d0 : Disk} {e : Nat} {s : St} {sv : List FsOp}
    (hsh : Shuffle (pipeM P d0 e s) (pipeO P d0 e s) sv) : sv.length = 8 := by
  rw [hsh.length]; rfl

/-! ## one update, call by call, the save in any order -/

/-- `before_row` for any order of the save: `k` epochs stay recorded, last and best stay loadable. -/
theorem before_row_any {P : Params} {vals : List (Option Int)} {tr : Train} {d : Disk} {k : Nat}
    (hrec : RecAt P vals tr d k) (hk : k < vals.length) (hs : SafeAt P vals k) (s : St) {sv : List FsOp}
    (hsh : Shuffle (pipeM P d (k + 1) s) (pipeO P d (k + 1) s) sv) (i : Nat)
    (hi : i < 8 + (histOps Quirks.fixed d (k + 1)).length) :
    RecAt P vals tr (exec d ((sv ++ histOps Quirks.fixed d (k + 1)).take i)) k := by
  have hframe : ∀ j, RecAt P vals tr (exec d ((sv ++ [FsOp.openAppend]).take j)) k := by
    intro j
    apply RecAt_frame hrec
    intro op hop
    have hsv := safe_save_any hsh op (List.mem_of_mem_take hop)
    exact ⟨hsv.1, fun q hq ht => new_not_prot hk hs hq (hsv.2 q ht)⟩
  have hl8 := saveOrders_length hsh
  have hlen : (sv ++ [FsOp.openAppend]).length = 9 := by simp [hl8]
  by_cases hwh : writeHeader Quirks.fixed d = true
  · have hh : histOps Quirks.fixed d (k + 1) = [.openAppend, .hwrite .header, .hwrite (.row (k + 1))] := by
      simp [histOps, histLines, hwh]
    rw [hh] at hi ⊢
    have hsplit : sv ++ [FsOp.openAppend, .hwrite .header, .hwrite (.row (k + 1))] =
        (sv ++ [FsOp.openAppend]) ++ [.hwrite .header, .hwrite (.row (k + 1))] := by
      simp
    rw [hsplit]
    by_cases h9 : i ≤ 9
    · rw [List.take_append_of_le_length (by omega)]
      exact hframe i
    · have hi10 : i = 10 := by simp at hi; omega
      subst hi10
      rw [List.take_append, List.take_of_length_le (by omega), hlen]
      simp only [Nat.reduceSub, List.take_succ_cons, List.take_zero]
      rw [exec_append, exec_cons, exec_nil]
      have h9' := hframe 9
      rw [List.take_of_length_le (by omega)] at h9'
      apply RecAt_hwrite_header h9'
      obtain ⟨_, _, hc, _⟩ := exec_frame (fun _ => False) (sv ++ [FsOp.openAppend]) d
        (fun op hop => ⟨(safe_save_any hsh op hop).1, fun _ h => h.elim⟩)
      rw [hc]
      exact (writeHeader_iff d).1 hwh
  · have hh : histOps Quirks.fixed d (k + 1) = [.openAppend, .hwrite (.row (k + 1))] := by
      simp [histOps, histLines, hwh]
    rw [hh] at hi ⊢
    have hsplit : sv ++ [FsOp.openAppend, .hwrite (.row (k + 1))] =
        (sv ++ [FsOp.openAppend]) ++ [.hwrite (.row (k + 1))] := by
      simp
    rw [hsplit, List.take_append_of_le_length (by simp at hi; omega)]
    exact hframe i

/-- The complete main sequence and any part of the clean-up, the save in any order: a disk no controller can
tell from the one the pinned order leaves. -/
theorem main_any_eqv {P : Params} {d : Disk} {e : Nat} {s : St} {sv : List FsOp}
    (hsh : Shuffle (pipeM P d e s) (pipeO P d e s) sv) (rest : List FsOp) :
    (exec d (sv ++ rest)).Eqv (exec d (saveOps P d e s ++ rest)) := by
  rw [exec_append, exec_append]
  exact exec_eqv (save_any_eqv hsh d) rest

theorem step_main_any {P : Params} {vals : List (Option Int)} {tr : Train} {d : Disk} {k : Nat}
    (hrec : RecAt P vals tr d k) (hk : k < vals.length) (hs : SafeAt P vals k) (hsep : Sep P vals k)
    {sv : List FsOp}
    (hsh : Shuffle (pipeM P d (k + 1) (U tr (k + 1))) (pipeO P d (k + 1) (U tr (k + 1))) sv)
    (cl' : List Path) (hcl : ∀ p ∈ cl', p ∈ cleanSet P vals k d) (i : Nat) :
    (i < 8 + (histOps Quirks.fixed d (k + 1)).length →
      RecAt P vals tr (exec d ((opsOf (sv ++ histOps Quirks.fixed d (k + 1)) cl').take i)) k) ∧
    (8 + (histOps Quirks.fixed d (k + 1)).length ≤ i →
      RecAt P vals tr (exec d ((opsOf (sv ++ histOps Quirks.fixed d (k + 1)) cl').take i)) (k + 1)) := by
  have hl8 := saveOrders_length hsh
  have hlen : (sv ++ histOps Quirks.fixed d (k + 1)).length =
      8 + (histOps Quirks.fixed d (k + 1)).length := by simp [hl8]
  constructor
  · intro hi
    rw [opsOf, List.take_append_of_le_length (by omega)]
    exact before_row_any hrec hk hs _ hsh i hi
  · intro hi
    rw [opsOf, List.take_append, List.take_of_length_le (by omega), exec_append]
    have hcan := after_row hrec hk hs hsep cl' hcl (i - (sv ++ histOps Quirks.fixed d (k + 1)).length)
    exact RecAt_eqv (exec_eqv (main_any_eqv hsh _).symm' _) hcan

/-! ## the orders the model admits -/

theorem mem_reorder {cl hint : List Path} {p : Path} (h : p ∈ reorder cl hint) : p ∈ cl := by
  simp only [reorder, List.mem_append, List.mem_filter, List.contains_iff_mem] at h
  rcases h with ⟨_, h⟩ | ⟨h, _⟩ <;> exact h

theorem mem_reorder_iff {cl hint : List Path} {p : Path} : p ∈ reorder cl hint ↔ p ∈ cl := by
  refine ⟨mem_reorder, fun h => ?_⟩
  simp only [reorder, List.mem_append, List.mem_filter, List.contains_iff_mem, Bool.not_eq_true']
  by_cases hh : p ∈ hint
  · exact Or.inl ⟨hh, h⟩
  · exact Or.inr ⟨h, by simpa using hh⟩

/-- The orders admitted for a checkpoint-first update: any interleaving of the two save pipelines, the
history lines, the planned clean-up in the order `reorder cl rm` (any order of it is one of these). -/
theorem mem_updateOrders_safe {P : Params} {vals : List (Option Int)} {k : Nat} (hs : SafeAt P vals k)
    {d : Disk} {s : St} {rm : List Path} {L : List FsOp}
    (hL : L ∈ updateOrders Quirks.fixed P vals k d s rm) :
    ∃ sv, Shuffle (pipeM P d (k + 1) s) (pipeO P d (k + 1) s) sv ∧
      L = opsOf (sv ++ histOps Quirks.fixed d (k + 1)) (reorder (cleanSet P vals k d) rm) := by
  have h2 : infoFirst Quirks.fixed P vals k d = false := by
    rw [infoFirst_fixed P vals k d Disk.blank]; exact hs.2
  simp only [updateOrders, plan_safe hs, mainOrders, h2, Bool.false_eq_true, if_false, List.map_map,
    List.mem_map, Function.comp, saveOrders] at hL
  obtain ⟨sv, hsv, rfl⟩ := hL
  exact ⟨sv, (mem_shuffles_iff _ _ _).1 hsv, rfl⟩

/-- … and conversely: every such sequence is admitted. -/
theorem mem_updateOrders_of_shuffle {P : Params} {vals : List (Option Int)} {k : Nat} (hs : SafeAt P vals k)
    (d : Disk) (s : St) (rm : List Path) {sv : List FsOp}
    (hsh : Shuffle (pipeM P d (k + 1) s) (pipeO P d (k + 1) s) sv) :
    opsOf (sv ++ histOps Quirks.fixed d (k + 1)) (reorder (cleanSet P vals k d) rm) ∈
      updateOrders Quirks.fixed P vals k d s rm := by
  have h2 : infoFirst Quirks.fixed P vals k d = false := by
    rw [infoFirst_fixed P vals k d Disk.blank]; exact hs.2
  simp only [updateOrders, plan_safe hs, mainOrders, h2, Bool.false_eq_true, if_false, List.map_map,
    List.mem_map, Function.comp, saveOrders]
  exact ⟨sv, (mem_shuffles_iff _ _ _).2 hsh, rfl⟩

/-- The pinned code's order is one of them. -/
theorem mainOps_mem_mainOrders (Q : Quirks) (P : Params) (vals : List (Option Int)) (k : Nat) (d : Disk)
    (s : St) : mainOps Q P vals k d s ∈ mainOrders Q P vals k d s := by
  unfold mainOps mainOrders
  split
  · exact List.mem_map.2 ⟨_, saveOps_mem_saveOrders P d (k + 1) s, rfl⟩
  · exact List.mem_map.2 ⟨_, saveOps_mem_saveOrders P d (k + 1) s, rfl⟩

/-- **Every single mutating call of every update preserves recoverability, whatever the order of the eight
calls of the save** — `c16_rec_step` for every interleaving of the two temp-file pipelines (`makedirs`,
create the temp file, write the state dict into it, rename it onto the checkpoint path; one pipeline for
the model, one for the optimizer): both temp files complete before the first rename (the pinned code), the
model's checkpoint in place before the optimizer's temp file exists, the optimizer first, … The process
may be killed after any number `i` of the calls. -/
theorem c16_rec_step_any_order {P : Params} (vals : List (Option Int)) (tr : Train) (d : Disk)
    (hrec : Rec P vals tr d) (k : Nat) (hk : recorded d = some k) (hlt : k < vals.length)
    (hs : SafeAt P vals k) (hsep : Sep P vals k) (sv : List FsOp)
    (hsh : Shuffle (pipeM P d (k + 1) (U tr (k + 1))) (pipeO P d (k + 1) (U tr (k + 1))) sv)
    (cl' : List Path) (hcl : ∀ p ∈ cl', p ∈ cleanSet P vals k d) (i : Nat) :
    Rec P vals tr (exec d ((opsOf (sv ++ histOps Quirks.fixed d (k + 1)) cl').take i)) := by
  obtain ⟨k', hk'⟩ := hrec
  have hk' : RecAt P vals tr d k' := hk'
  have : k = k' := hk'.unique hk
  subst this
  have h := step_main_any hk' hlt hs hsep hsh cl' hcl i
  by_cases h9 : i < 8 + (histOps Quirks.fixed d (k + 1)).length
  · exact (h.1 h9).rec
  · exact (h.2 (by omega)).rec

/-- … also when call `i` is executed half-way and is not the write of a history row. -/
theorem c16_rec_step_torn_any_order {P : Params} (vals : List (Option Int)) (tr : Train) (d : Disk)
    (hrec : Rec P vals tr d) (k : Nat) (hk : recorded d = some k) (hlt : k < vals.length)
    (hs : SafeAt P vals k) (hsep : Sep P vals k) (sv : List FsOp)
    (hsh : Shuffle (pipeM P d (k + 1) (U tr (k + 1))) (pipeO P d (k + 1) (U tr (k + 1))) sv)
    (cl' : List Path) (hcl : ∀ p ∈ cl', p ∈ cleanSet P vals k d) (i : Nat)
    (hat : ∀ e, (opsOf (sv ++ histOps Quirks.fixed d (k + 1)) cl')[i]? ≠ some (.hwrite (.row e))) :
    Rec P vals tr (tornDisk tear d (opsOf (sv ++ histOps Quirks.fixed d (k + 1)) cl') i) := by
  have hbase := c16_rec_step_any_order vals tr d hrec k hk hlt hs hsep sv hsh cl' hcl i
  unfold tornDisk
  cases hop : (opsOf (sv ++ histOps Quirks.fixed d (k + 1)) cl')[i]? with
  | none => simpa using hbase
  | some op =>
    have htear : tear op = tearW op := by
      cases op with
      | hwrite l =>
        cases l with
        | row e => exact absurd hop (hat e)
        | _ => rfl
      | _ => rfl
    simp only [Option.bind_some, htear]
    cases hw : tearW op with
    | none => exact hbase
    | some op' =>
      obtain ⟨t, rfl⟩ := tearW_some hw
      obtain ⟨k', hk'⟩ := hbase
      exact (RecAt_write_tmp hk' t _).rec

/-- The complete update, the save in any order: `k+1` epochs are recorded, and no controller can tell the
disk from the one the pinned order leaves (same file under every path, same history). -/
theorem c16_rec_full_any_order {P : Params} (vals : List (Option Int)) (tr : Train) (d : Disk)
    (k : Nat) (hrec : RecAt P vals tr d k) (hlt : k < vals.length)
    (hs : SafeAt P vals k) (hsep : Sep P vals k) (sv : List FsOp)
    (hsh : Shuffle (pipeM P d (k + 1) (U tr (k + 1))) (pipeO P d (k + 1) (U tr (k + 1))) sv)
    (cl' : List Path) (hcl : ∀ p ∈ cl', p ∈ cleanSet P vals k d) :
    RecAt P vals tr (exec d (opsOf (sv ++ histOps Quirks.fixed d (k + 1)) cl')) (k + 1) ∧
    (exec d (opsOf (sv ++ histOps Quirks.fixed d (k + 1)) cl')).Eqv
      (exec d (opsOf (saveOps P d (k + 1) (U tr (k + 1)) ++ histOps Quirks.fixed d (k + 1)) cl')) := by
  have heq : (exec d (opsOf (sv ++ histOps Quirks.fixed d (k + 1)) cl')).Eqv
      (exec d (opsOf (saveOps P d (k + 1) (U tr (k + 1)) ++ histOps Quirks.fixed d (k + 1)) cl')) := by
    simp only [opsOf, List.append_assoc]
    exact main_any_eqv hsh _
  refine ⟨RecAt_eqv heq.symm' ?_, heq⟩
  exact c16_rec_full vals tr d k hrec hlt hs hsep _ _ (plan_safe hs d _) cl' hcl

/-! ## exact directory / keep everything, the save in any order -/

theorem ExactLB_eqv {P : Params} {vals : List (Option Int)} {d d' : Disk} {k : Nat} (h : d.Eqv d')
    (hex : ExactLB P vals d k) : ExactLB P vals d' k := by
  intro q; rw [← h.1 q]; exact hex q

theorem AllLoadable_eqv {P : Params} {tr : Train} {d d' : Disk} {k : Nat} (h : d.Eqv d')
    (hall : AllLoadable P tr d k) : AllLoadable P tr d' k := by
  intro j h1 h2
  rw [loadState_congr P j (fun q _ => (h.1 q).symm)]
  exact hall j h1 h2

/-- `c16_exact_step` for every order of the save. -/
theorem c16_exact_step_any_order {P : Params} (hi : Inj P) (hkeep : P.keepLB = true) (vals : List (Option Int))
    (tr : Train) (d : Disk) (k : Nat) (hex : ExactLB P vals d k) (hk : k < vals.length) (sv : List FsOp)
    (hsh : Shuffle (pipeM P d (k + 1) (U tr (k + 1))) (pipeO P d (k + 1) (U tr (k + 1))) sv)
    (cl' : List Path) (hcl : ∀ p, p ∈ cl' ↔ p ∈ cleanSet P vals k d) :
    ExactLB P vals (exec d (opsOf (sv ++ histOps Quirks.fixed d (k + 1)) cl')) (k + 1) := by
  have heq : (exec d (opsOf (sv ++ histOps Quirks.fixed d (k + 1)) cl')).Eqv
      (exec d (opsOf (saveOps P d (k + 1) (U tr (k + 1)) ++ histOps Quirks.fixed d (k + 1)) cl')) := by
    simp only [opsOf, List.append_assoc]
    exact main_any_eqv hsh _
  exact ExactLB_eqv heq.symm' (exact_step hi hkeep hex hk (plan_safe (hi.safeAt vals k) d _) cl' hcl)

/-- `c16_keepall_step` for every order of the save: every single mutating call of a keep-everything update
keeps every recorded epoch loadable with its own state. -/
theorem c16_keepall_step_any_order {P : Params} (hi : Inj P) (hkeep : P.keepLB = false)
    (vals : List (Option Int)) (tr : Train) (d : Disk) (k : Nat) (h : RecAll P vals tr d k)
    (hlt : k < vals.length) (sv : List FsOp)
    (hsh : Shuffle (pipeM P d (k + 1) (U tr (k + 1))) (pipeO P d (k + 1) (U tr (k + 1))) sv) (i : Nat) :
    ∃ k', RecAll P vals tr (exec d ((opsOf (sv ++ histOps Quirks.fixed d (k + 1)) []).take i)) k' := by
  have a := step_main_any h.1 hlt (hi.safeAt vals k) (hi.sep vals k) hsh [] (fun _ h => by cases h) i
  simp only [opsOf, List.map_nil, List.append_nil] at a ⊢
  have hl8 := saveOrders_length hsh
  -- the recorded epochs' files are not touched by any call of the main sequence
  have hold : AllLoadable P tr (exec d ((sv ++ histOps Quirks.fixed d (k + 1)).take i)) k := by
    intro j hj1 hjk
    have hfr := exec_frame_files (fun q => ∃ j, j ≤ k ∧ (q = P.mpath j ∨ q = P.opath j))
      ((sv ++ histOps Quirks.fixed d (k + 1)).take i) d (by
        intro op hop
        have hop := List.mem_of_mem_take hop
        rw [List.mem_append] at hop
        rcases hop with hop | hop
        · have hs := safe_save_any hsh op (List.mem_append_left _ hop)
          rintro q ⟨j', hj', hq⟩ ht
          have := hs.2 q ht
          simp only [Params.mpath, Params.opath] at hq this
          rcases hq with hq | hq <;> subst hq <;> rcases this with h | h | ⟨t, h⟩ <;>
            first
            | cases h
            | (injection h with h; first | (have := hi.km _ _ h; omega) | (have := hi.ko _ _ h; omega))
        · simp only [histOps, List.mem_cons, List.mem_map] at hop
          rcases hop with rfl | ⟨l, _, rfl⟩ <;> intro q _ ht <;> exact ht)
    rw [loadState_congr P j (fun q hq => hfr q ⟨j, hjk, ((mem_epochPaths P j q).1 hq).2⟩)]
    exact h.2 j hj1 hjk
  by_cases h9 : i < 8 + (histOps Quirks.fixed d (k + 1)).length
  · exact ⟨k, a.1 h9, hold⟩
  · refine ⟨k + 1, a.2 (by omega), ?_⟩
    have hcan := (keepall_step (vals := vals) hi hkeep h.2 i).2.2 (by omega)
    have heq : (exec d ((sv ++ histOps Quirks.fixed d (k + 1)).take i)).Eqv
        (exec d ((saveOps P d (k + 1) (U tr (k + 1)) ++ histOps Quirks.fixed d (k + 1)).take i)) := by
      have hc8 : (saveOps P d (k + 1) (U tr (k + 1))).length = 8 := by simp [saveOps]
      rw [List.take_of_length_le (by simp [hl8]; omega), List.take_of_length_le (by simp [hc8]; omega)]
      exact main_any_eqv hsh _
    exact AllLoadable_eqv heq.symm' hcan

/-! ## matching an observed sequence of file-system changes against the admitted orders -/

theorem exec1_csv_isSome (d : Disk) (op : FsOp) (h : d.csv.isSome = true) : (exec1 d op).csv.isSome = true := by
  cases op with
  | replace t dst => simp only [exec1]; split <;> exact h
  | openAppend => rfl
  | hwrite l => rfl
  | _ => exact h

/-- A no-op call is one: `makedirs` (directories are not modelled), `open(csv, "a")` of a file that exists. -/
theorem exec1_noop {b : Bool} {op : FsOp} (hn : op.noop b = true) {d : Disk}
    (hb : b = true → d.csv.isSome = true) : exec1 d op = d := by
  cases op with
  | mkdirs => rfl
  | openAppend =>
    have := hb hn
    cases d with
    | mk f c =>
      cases c with
      | none => cases this
      | some l => rfl
  | _ => cases hn

/-- Dropping the no-op calls loses no state: the disk after `j` of the remaining calls is the disk after some
number `i` of all calls, and the call that comes next is the same. -/
theorem eff_take (b : Bool) (ops : List FsOp) : ∀ (d : Disk), (b = true → d.csv.isSome = true) → ∀ j,
    ∃ i, exec d ((ops.filter (fun op => !(op.noop b))).take j) = exec d (ops.take i) ∧
      ∀ op, (ops.filter (fun op => !(op.noop b)))[j]? = some op → ops[i]? = some op := by
  induction ops with
  | nil => intro d _ j; exact ⟨0, by simp, by simp⟩
  | cons x xs ih =>
    intro d hd j
    by_cases hx : x.noop b = true
    · obtain ⟨i, h1, h2⟩ := ih d hd j
      refine ⟨i + 1, ?_, ?_⟩
      · rw [List.filter_cons_of_neg (by simp [hx]), List.take_succ_cons, exec_cons, exec1_noop hx hd]
        exact h1
      · rw [List.filter_cons_of_neg (by simp [hx])]
        simpa using h2
    · have hf : List.filter (fun op => !(op.noop b)) (x :: xs) =
          x :: List.filter (fun op => !(op.noop b)) xs := by
        simp [hx]
      rw [hf]
      cases j with
      | zero => exact ⟨0, rfl, by simp⟩
      | succ j =>
        obtain ⟨i, h1, h2⟩ := ih (exec1 d x) (fun hb => exec1_csv_isSome d x (hd hb)) j
        refine ⟨i + 1, ?_, ?_⟩
        · rw [List.take_succ_cons, List.take_succ_cons, exec_cons, exec_cons]
          exact h1
        · simpa using h2

theorem RecAt_unwind {P : Params} {vals : List (Option Int)} {tr : Train} {d : Disk} {k : Nat}
    (h : RecAt P vals tr d k) {u : List FsOp} (hu : unwindOk u = true) : RecAt P vals tr (exec d u) k := by
  apply RecAt_frame h
  intro op hop
  have := (List.all_eq_true.1 hu) op hop
  cases op with
  | remove p =>
    cases p with
    | tmp t => exact ⟨fun h => h, fun q hq ht => prot_not_tmp hq t ht⟩
    | _ => cases this
  | _ => cases this

/-- **What the correspondence harness relies on.** A process is killed inside the update of epoch `k+1` of a
disk on which recovery works. What it was seen to do to the file system before — `obs`, no-op calls dropped —
is accepted by the model's matcher (`crashMatch` against the orders the model admits: any interleaving of the
two save pipelines, the history lines, the clean-up in any order), possibly with a half-written temp file as
its last change (`tornOp`; not a half-written history row), possibly followed by the removal of temp files
while the interrupt unwinds (`unwind`). Then the disk it leaves — `crashDisk`, what the driver reports — is
recoverable. -/
theorem c16_crashMatch_rec {P : Params} (vals : List (Option Int)) (tr : Train) (d : Disk)
    (hrec : Rec P vals tr d) (k : Nat) (hk : recorded d = some k) (hlt : k < vals.length)
    (hs : SafeAt P vals k) (hsep : Sep P vals k) (rm : List Path) (obs : List FsOp) (tornOp : Option FsOp)
    (L : List FsOp)
    (hm : crashMatch (updateOrders Quirks.fixed P vals k d (U tr (k + 1)) rm) d obs tornOp = some L)
    (hat : tornOp ≠ some (.hwrite .torn)) (unwind : List FsOp) (hu : unwindOk unwind = true) :
    Rec P vals tr (exec (crashDisk d L obs tornOp) unwind) := by
  have hmem := List.mem_of_find?_eq_some hm
  have hpred := List.find?_some hm
  obtain ⟨L', hL', rfl⟩ := List.mem_map.1 hmem
  obtain ⟨sv, hsh, rfl⟩ := mem_updateOrders_safe hs hL'
  simp only [Bool.and_eq_true] at hpred
  obtain ⟨hpre, htorn⟩ := hpred
  have hobs : obs = (effective d (opsOf (sv ++ histOps Quirks.fixed d (k + 1))
      (reorder (cleanSet P vals k d) rm))).take obs.length :=
    List.prefix_iff_eq_take.1 (List.isPrefixOf_iff_prefix.1 hpre)
  obtain ⟨i, hi1, hi2⟩ := eff_take d.csv.isSome (opsOf (sv ++ histOps Quirks.fixed d (k + 1))
      (reorder (cleanSet P vals k d) rm)) d (fun h => h) obs.length
  have hbase := c16_rec_step_any_order vals tr d hrec k hk hlt hs hsep sv hsh
    (reorder (cleanSet P vals k d) rm) (fun p hp => mem_reorder hp) i
  rw [← hi1] at hbase
  obtain ⟨k', hk'⟩ := hbase
  suffices h : ∃ k'', RecAt P vals tr (crashDisk d (effective d (opsOf (sv ++ histOps Quirks.fixed d (k + 1))
      (reorder (cleanSet P vals k d) rm))) obs tornOp) k'' by
    obtain ⟨k'', h⟩ := h
    exact (RecAt_unwind h hu).rec
  cases tornOp with
  | none =>
    refine ⟨k', ?_⟩
    simp only [crashDisk]
    rw [hobs]
    exact hk'
  | some op' =>
    simp only [crashDisk, tornDisk]
    simp only [beq_iff_eq] at htorn
    rw [htorn]
    simp only [effective] at hk' ⊢
    obtain ⟨op, hop, hto⟩ := Option.bind_eq_some_iff.1 htorn
    have htw : tearW op = some op' := by
      cases op with
      | hwrite l =>
        cases l with
        | row e => simp only [tear, Option.some.injEq] at hto; exact absurd (by rw [← hto]) hat
        | _ => exact hto
      | _ => exact hto
    obtain ⟨t, rfl⟩ := tearW_some htw
    exact ⟨k', RecAt_write_tmp hk' t _⟩

/-! ## a completed update seen in any admitted order (audit F: `fullMatch` had no theorem) -/

theorem Disk.Eqv.trans' {a b c : Disk} (h1 : a.Eqv b) (h2 : b.Eqv c) : a.Eqv c :=
  ⟨fun q => (h1.1 q).trans (h2.1 q), h1.2.trans h2.2⟩

/-- Dropping the no-op calls does not change what a sequence of calls leaves. -/
theorem exec_effective (b : Bool) (ops : List FsOp) : ∀ (d : Disk), (b = true → d.csv.isSome = true) →
    exec d (ops.filter (fun op => !(op.noop b))) = exec d ops := by
  induction ops with
  | nil => intro d _; rfl
  | cons x xs ih =>
    intro d hd
    by_cases hx : x.noop b = true
    · rw [List.filter_cons_of_neg (by simp [hx]), exec_cons, exec1_noop hx hd]
      exact ih d hd
    · rw [List.filter_cons_of_pos (by simp [hx]), exec_cons, exec_cons]
      exact ih _ (fun hb => exec1_csv_isSome d x (hd hb))

/-- Removing the same set of paths in another order (or with repetitions) leaves the same disk. -/
theorem removes_eqv {d d' : Disk} (h : d.Eqv d') {cl cl' : List Path} (hcl : ∀ p, p ∈ cl' ↔ p ∈ cl) :
    (exec d (cl'.map FsOp.remove)).Eqv (exec d' (cl.map FsOp.remove)) := by
  refine ⟨fun q => ?_, by rw [exec_removes_csv, exec_removes_csv]; exact h.2⟩
  rw [exec_removes_get, exec_removes_get, h.1 q]
  by_cases hq : q ∈ cl
  · simp [hq, (hcl q).2 hq]
  · have : q ∉ cl' := fun h' => hq ((hcl q).1 h')
    simp [hq, this]

/-- **The matcher for COMPLETED updates.** The effective file-system changes an implementation was seen to make
in a completed checkpoint-first update of a recoverable disk are accepted by `fullMatch` (the `trace_ok` of a
completed update) only if they leave `k+1` epochs recorded and recoverable, and a disk no controller can tell from
the one the driver goes on with (`exec d (opsOf main cl)`: the pinned order, the clean-up in the planned order). -/
theorem c16_fullMatch_rec {P : Params} (vals : List (Option Int)) (tr : Train) (d : Disk) (k : Nat)
    (hrec : RecAt P vals tr d k) (hlt : k < vals.length) (hs : SafeAt P vals k) (hsep : Sep P vals k)
    (rm : List Path) (obs : List FsOp)
    (hm : fullMatch (updateOrders Quirks.fixed P vals k d (U tr (k + 1)) rm) d obs = true) :
    RecAt P vals tr (exec d obs) (k + 1) ∧
      (exec d obs).Eqv
        (exec d (opsOf (mainOps Quirks.fixed P vals k d (U tr (k + 1))) (cleanSet P vals k d))) := by
  unfold fullMatch at hm
  obtain ⟨L0, hL0, hbeq⟩ := List.any_eq_true.1 hm
  have hLeq : L0 = obs := by simpa using hbeq
  obtain ⟨L', hL', rfl⟩ := List.mem_map.1 hL0
  obtain ⟨sv, hsh, rfl⟩ := mem_updateOrders_safe hs hL'
  subst hLeq
  have hex := exec_effective d.csv.isSome (opsOf (sv ++ histOps Quirks.fixed d (k + 1))
    (reorder (cleanSet P vals k d) rm)) d (fun h => h)
  unfold effective
  rw [hex]
  obtain ⟨h1, h2⟩ := c16_rec_full_any_order vals tr d k hrec hlt hs hsep sv hsh
    (reorder (cleanSet P vals k d) rm) (fun p hp => mem_reorder hp)
  refine ⟨h1, h2.trans' ?_⟩
  have hmain : mainOps Quirks.fixed P vals k d (U tr (k + 1)) =
      saveOps P d (k + 1) (U tr (k + 1)) ++ histOps Quirks.fixed d (k + 1) := by
    have h2' : infoFirst Quirks.fixed P vals k d = false := by
      rw [infoFirst_fixed P vals k d Disk.blank]; exact hs.2
    simp [mainOps, h2']
  rw [hmain]
  simp only [opsOf, exec_append]
  exact removes_eqv (Disk.Eqv.refl _) (fun p => mem_reorder_iff)

/-! ## sessions in which every update may use any admitted order -/

theorem runsAny_rec {P : Params} {vals : List (Option Int)} (hs : SafeFmt P vals) {tr : Train}
    {k : Nat} {s : St} {d : Disk} {k' : Nat} {s' : St} {d' : Disk}
    (hrun : RunsAny Quirks.fixed P vals tr k s d k' s' d') (hs0 : s = U tr k) (h : RecAt P vals tr d k) :
    RecAt P vals tr d' k' ∧ s' = U tr k' := by
  induction hrun with
  | refl k s d => exact ⟨h, hs0⟩
  | step rm L hlt hL _ ih =>
    subst hs0
    obtain ⟨sv, hsh, rfl⟩ := mem_updateOrders_safe (hs _ hlt) hL
    exact ih rfl (c16_rec_full_any_order vals tr _ _ h hlt (hs _ hlt) (hs.sep _ (by omega)) sv hsh _
      (fun p hp => mem_reorder hp)).1

/-- A lifetime that ends in a kill, every update in any admitted order, leaves a recoverable disk. -/
theorem c16_rec_killed_any_order {P : Params} (vals : List (Option Int)) (hs : SafeFmt P vals) (tr : Train)
    (d d' : Disk) (hrec : Rec P vals tr d) (hk : KilledAny Quirks.fixed P vals tr d d') :
    Rec P vals tr d' := by
  obtain ⟨k0, hk0⟩ := hrec
  have hk0 : RecAt P vals tr d k0 := hk0
  cases hk with
  | mk rm L i torn hst hrun hlt hL =>
    rw [startSession_of_RecAt hk0] at hst
    injection hst with hst
    injection hst with h1 h2
    subst h1; subst h2
    obtain ⟨h1, rfl⟩ := runsAny_rec hs hrun rfl hk0
    obtain ⟨sv, hsh, rfl⟩ := mem_updateOrders_safe (hs _ hlt) hL
    obtain ⟨k'', hk''⟩ := c16_rec_step_any_order vals tr _ h1.rec _ h1.1 hlt (hs _ hlt) (hs.sep _ (by omega))
      sv hsh _ (fun p hp => mem_reorder hp) i
    cases torn with
    | false => exact ⟨k'', hk''⟩
    | true => exact (RecAt_tornW (show RecAt P vals tr _ k'' from hk'')).rec

/-- **Resume, any order.** Any number of lifetimes that end in a kill, then one that completes all the
remaining updates — every update of every lifetime in any order the model admits: all epochs are recorded,
last and best are loadable with the uninterrupted run's states, the process ends holding the uninterrupted
final state, and the history file is the uninterrupted run's (the pinned order's). -/
theorem c16_resume_any_order {P : Params} (vals : List (Option Int)) (hs : SafeFmt P vals) (tr : Train)
    (hn : 0 < vals.length) (d : Disk) (hch : CrashesAny Quirks.fixed P vals tr Disk.blank d)
    (k : Nat) (s s' : St) (d' : Disk) (hst : startSession P d = some (k, s))
    (hrun : RunsAny Quirks.fixed P vals tr k s d vals.length s' d') :
    RecAt P vals tr d' vals.length ∧ s' = U tr vals.length ∧
      d'.csv = (runToEnd Quirks.fixed P vals tr Disk.blank).csv := by
  have hrecd : ∀ d0 d1, CrashesAny Quirks.fixed P vals tr d0 d1 → Rec P vals tr d0 → Rec P vals tr d1 := by
    intro d0 d1 h
    induction h with
    | nil d => exact fun h => h
    | cons hk _ ih => exact fun h => ih (c16_rec_killed_any_order vals hs tr _ _ h hk)
  obtain ⟨k0, hk0⟩ := hrecd _ _ hch (Rec_blank P vals tr).rec
  have hk0 : RecAt P vals tr d k0 := hk0
  rw [startSession_of_RecAt hk0] at hst
  injection hst with hst
  injection hst with h1 h2
  subst h1; subst h2
  obtain ⟨hfin, hs'⟩ := runsAny_rec hs hrun rfl hk0
  refine ⟨hfin, hs', ?_⟩
  have b := c16_resume vals hs tr Disk.blank (Rec_blank P vals tr).rec []
  have : faulty Quirks.fixed P vals tr Disk.blank [] = runToEnd Quirks.fixed P vals tr Disk.blank := rfl
  rw [this] at b
  rw [csv_of_RecAt hfin hn, csv_of_RecAt b hn]


theorem Shuffle.append {α : Type} (as bs : List α) : Shuffle as bs (as ++ bs) := by
  induction as with
  | nil => exact Shuffle.nil_left bs
  | cons a as ih => exact .left ih

/-- One pipeline completely before the other. -/
theorem Shuffle.append_swap {α : Type} (as bs : List α) : Shuffle as bs (bs ++ as) :=
  (Shuffle.append bs as).symm

end PdtVerif.Checkpoint
