import PdtVerif.Model.EpochSampler
import Mathlib.Data.List.Nodup
/-! Helper lemmas about `everyNth` / `islice` (core Lean + `Mathlib.Data.List.Nodup`). -/
namespace PdtVerif.EpochSampler

theorem everyNth_getElem? {α} (w : Nat) (hw : 0 < w) (l : List α) (k : Nat) :
    (everyNth w l)[k]? = l[k * w]? := by
  induction k generalizing l with
  | zero => cases l <;> simp [everyNth]
  | succ k ih =>
    cases l with
    | nil => simp [everyNth]
    | cons x xs =>
      rw [everyNth, List.getElem?_cons_succ, ih, List.getElem?_drop]
      have h : (k + 1) * w = (w - 1 + k * w) + 1 := by
        rw [Nat.add_mul]; omega
      rw [h, List.getElem?_cons_succ]

theorem everyNth_length {α} (w : Nat) (hw : 0 < w) (l : List α) :
    (everyNth w l).length = (l.length + w - 1) / w := by
  induction h : l.length using Nat.strongRecOn generalizing l with
  | _ n ih =>
    cases l with
    | nil =>
      simp at h; subst h; simp [everyNth]
      exact (Nat.div_eq_of_lt (by omega)).symm
    | cons x xs =>
      simp at h
      rw [everyNth, List.length_cons, ih (xs.drop (w - 1)).length (by simp; omega) _ rfl]
      simp only [List.length_drop]
      subst h
      by_cases hx : xs.length < w - 1
      · have h0 : xs.length - (w - 1) = 0 := by omega
        rw [h0]
        have h1 : (0 + w - 1) / w = 0 := Nat.div_eq_of_lt (by omega)
        have h2 : (xs.length + 1 + w - 1) / w = 1 := by
          apply Nat.div_eq_of_lt_le <;> omega
        omega
      · have h3 : xs.length + 1 + w - 1 = (xs.length - (w - 1) + w - 1) + w := by omega
        rw [h3, Nat.add_div_right _ hw]

/-- `islice` by index. -/
theorem islice_getElem? {α} (l : List α) (r e w : Nat) (hw : 0 < w) (k : Nat) :
    (islice l r e w)[k]? = if r + k * w < e then l[r + k * w]? else none := by
  unfold islice
  rw [everyNth_getElem? w hw, List.getElem?_drop, List.getElem?_take]

theorem islice_length {α} (l : List α) (r e w : Nat) (hw : 0 < w) :
    (islice l r e w).length = (min e l.length - r + w - 1) / w := by
  unfold islice
  rw [everyNth_length w hw]; simp

/-- The list of positions rank `r` reads. -/
def idxs (n r w : Nat) : List Nat :=
  (List.range ((n - r + w - 1) / w)).map (fun k => r + k * w)

theorem mem_idxs {n r w : Nat} (hw : 0 < w) (i : Nat) :
    i ∈ idxs n r w ↔ i < n ∧ r ≤ i ∧ (i - r) % w = 0 := by
  unfold idxs
  simp only [List.mem_map, List.mem_range]
  constructor
  · rintro ⟨k, hk, rfl⟩
    have h1 : k + 1 ≤ (n - r + w - 1) / w := hk
    have h2 : (k + 1) * w ≤ n - r + w - 1 := (Nat.le_div_iff_mul_le hw).1 h1
    rw [Nat.add_mul] at h2
    refine ⟨by omega, by omega, ?_⟩
    have : r + k * w - r = k * w := by omega
    rw [this]; exact Nat.mul_mod_left k w
  · rintro ⟨hn, hr, hm⟩
    refine ⟨(i - r) / w, ?_, ?_⟩
    · have hd : (i - r) / w * w = i - r := Nat.div_mul_cancel (Nat.dvd_of_mod_eq_zero hm)
      have h2 : ((i - r) / w + 1) * w ≤ n - r + w - 1 := by rw [Nat.add_mul]; omega
      exact (Nat.le_div_iff_mul_le hw).2 h2
    · have hd : (i - r) / w * w = i - r := Nat.div_mul_cancel (Nat.dvd_of_mod_eq_zero hm)
      omega

theorem idxs_nodup (n r w : Nat) (hw : 0 < w) : (idxs n r w).Nodup := by
  unfold idxs
  refine (List.nodup_range).map_on ?_ |> fun h => h
  intro a _ b _ h
  have : a * w = b * w := by omega
  exact Nat.eq_of_mul_eq_mul_right hw this

/-- Different ranks read different positions. -/
theorem idxs_disjoint {n a b w i : Nat} (hw : 0 < w) (ha : a < w) (hb : b < w) (hab : a ≠ b)
    (hia : i ∈ idxs n a w) : i ∉ idxs n b w := by
  intro hib
  rw [mem_idxs hw] at hia hib
  apply hab
  obtain ⟨_, h1, h2⟩ := hia
  obtain ⟨_, h3, h4⟩ := hib
  have e1 := Nat.mod_add_div (i - a) w
  have e2 := Nat.mod_add_div (i - b) w
  rw [h2] at e1; rw [h4] at e2
  have : a % w = b % w := by
    have ha' : i % w = a % w := by
      have : i = a + w * ((i - a) / w) := by omega
      rw [this, Nat.add_mul_mod_self_left]
    have hb' : i % w = b % w := by
      have : i = b + w * ((i - b) / w) := by omega
      rw [this, Nat.add_mul_mod_self_left]
    omega
  rwa [Nat.mod_eq_of_lt ha, Nat.mod_eq_of_lt hb] at this

/-- The strided index lists of ranks `0..w-1` partition `0..n-1`. -/
theorem idxs_partition (n w : Nat) (hw : 0 < w) :
    ((List.range w).flatMap (fun r => idxs n r w)).Perm (List.range n) := by
  rw [List.perm_ext_iff_of_nodup ?_ List.nodup_range]
  · intro i
    simp only [List.mem_flatMap, List.mem_range, mem_idxs hw]
    constructor
    · rintro ⟨r, _, h, _⟩; exact h
    · intro h
      refine ⟨i % w, Nat.mod_lt _ hw, h, Nat.mod_le _ _, ?_⟩
      have := Nat.mod_add_div i w
      have h2 : i - i % w = w * (i / w) := by omega
      rw [h2]; exact Nat.mul_mod_right _ _
  · rw [List.nodup_flatMap]
    refine ⟨fun r _ => idxs_nodup n r w hw, ?_⟩
    refine List.Pairwise.imp_of_mem ?_ (List.nodup_range (n := w))
    intro a b ha hb hab i hia hib
    simp only [List.mem_range] at ha hb
    exact idxs_disjoint hw ha hb hab hia hib

/-- `islice` reads exactly the positions `idxs`. -/
theorem islice_eq_map (l : List Nat) (r e w : Nat) (hw : 0 < w) :
    islice l r e w = (idxs (min e l.length) r w).map (fun i => l.getD i 0) := by
  apply List.ext_getElem?
  intro k
  rw [islice_getElem? l r e w hw]
  unfold idxs
  simp only [List.map_map, List.getElem?_map]
  by_cases hk : k < (min e l.length - r + w - 1) / w
  · have h1 : k + 1 ≤ (min e l.length - r + w - 1) / w := hk
    have h2 : (k + 1) * w ≤ min e l.length - r + w - 1 := (Nat.le_div_iff_mul_le hw).1 h1
    rw [Nat.add_mul] at h2
    have h3 : r + k * w < min e l.length := by omega
    have h4 : r + k * w < e := by omega
    have h5 : r + k * w < l.length := by omega
    simp [hk, h4, h5, List.getD_eq_getElem?_getD]
  · have h2 : ¬ ((k + 1) * w ≤ min e l.length - r + w - 1) := by
      intro h; exact hk ((Nat.le_div_iff_mul_le hw).2 h)
    rw [Nat.add_mul] at h2
    have h3 : ¬ (r + k * w < min e l.length) := by omega
    have hk' : (List.range ((min e l.length - r + w - 1) / w))[k]? = none := by
      simp; omega
    simp only [hk', Option.map_none]
    split
    · rename_i h4
      have : l.length ≤ r + k * w := by omega
      simp [this]
    · rfl

end PdtVerif.EpochSampler
