import PdtVerif.Lemmas.ErrorRate
import PdtVerif.Model.ErrorRateFast
/-!
# The one-pass evaluation equals the literal model (all inputs)

`scanRows_eq` (row `k` of the scan is the fold over `h.take k`) → `valuesFast_eq` (entry `k` is
`valueAt … (h.take k)`; uses `dpRow_eq` for the plain branch: the sweep form is the row of prefix
distances, which the `del_mat` form also is by `foldSteps_plain`) → the closed forms
`errorRateCol_eq` / `prefixErrorRatesCol_eq` of the literal model.
-/
set_option linter.unusedSectionVars false
set_option linter.unusedVariables false

namespace PdtVerif.ErrorRate
open PdtVerif.Lev

variable {α : Type} [DecidableEq α]

theorem scanRows_eq {ρ : Type} (step : α → ρ → ρ) (row : ρ) (h : List α) :
    scanRows step row h
      = (List.range (h.length + 1)).map (fun k => (h.take k).foldl (fun r y => step y r) row) := by
  induction h generalizing row with
  | nil => simp [scanRows]
  | cons y ys ih =>
    rw [scanRows, ih, List.length_cons, List.range_succ_eq_map (n := ys.length + 1), List.map_cons,
      List.map_map]
    simp [Function.comp]

theorem valuesFast_eq (c : Costs) (ref : List α) (refLen : Nat) (h : List α) :
    valuesFast c ref refLen h
      = (List.range (h.length + 1)).map (fun k => valueAt c ref refLen (h.take k)) := by
  unfold valuesFast valueAt
  split
  · rw [scanRows_eq, List.map_map]
    apply List.map_congr_left
    intro k _
    simp only [Function.comp]
    rw [← dpRow_eq]
    rfl
  · rw [scanRows_eq, List.map_map]
    apply List.map_congr_left
    intro k _
    rfl

theorem valuesFast_getD (c : Costs) (ref : List α) (refLen : Nat) (h : List α) (k : Nat)
    (hk : k ≤ h.length) :
    (valuesFast c ref refLen h).getD k 0 = valueAt c ref refLen (h.take k) := by
  rw [valuesFast_eq, List.getD_eq_getElem?_getD, List.getElem?_map,
    List.getElem?_range (by omega)]
  rfl

/-- **One-pass `error_rate` = the literal model**, every column, every configuration. -/
theorem errorRateColFast_eq (cfg : Config α) (ref hyp : List α) :
    errorRateColFast cfg ref hyp = errorRateCol cfg ref hyp := by
  rw [errorRateCol_eq]
  unfold errorRateColFast
  simp only
  rw [valuesFast_eq, getLastD_map_range_succ, List.take_length]

/-- **One-pass `prefix_error_rates` = the literal model**. -/
theorem prefixErrorRatesColFast_eq (cfg : Config α) (ref hyp : List α) :
    prefixErrorRatesColFast cfg ref hyp = prefixErrorRatesCol cfg ref hyp := by
  rw [prefixErrorRatesCol_eq]
  unfold prefixErrorRatesColFast
  simp only
  apply List.map_congr_left
  intro k _
  have hle := seqLen_le cfg.eos cfg.includeEos hyp
  by_cases hge : k ≥ seqLen cfg.eos cfg.includeEos hyp + (if cfg.excludeLast = true then 0 else 1)
  · rw [if_pos hge, if_pos hge]
  · rw [if_neg hge, if_neg hge]
    have hk : k ≤ seqLen cfg.eos cfg.includeEos hyp := by
      by_cases hx : cfg.excludeLast = true
      · rw [if_pos hx] at hge; omega
      · rw [if_neg hx] at hge; omega
    rw [valuesFast_getD _ _ _ _ k (by rw [List.length_take]; omega), List.take_take,
      Nat.min_eq_left hk]

theorem errorRateBatchFast_eq (cfg : Config α) (bf : Bool) (N : Nat) (ref hyp : List (List α))
    (d : α) : errorRateBatchFast cfg bf N ref hyp d = errorRateBatch cfg bf N ref hyp d := by
  have : errorRateColFast cfg = errorRateCol cfg := by
    funext r h; exact errorRateColFast_eq cfg r h
  unfold errorRateBatchFast errorRateBatch
  rw [this]

theorem prefixErrorRatesBatchFast_eq (cfg : Config α) (bf : Bool) (N : Nat)
    (ref hyp : List (List α)) (d : α) :
    prefixErrorRatesBatchFast cfg bf N ref hyp d = prefixErrorRatesBatch cfg bf N ref hyp d := by
  have : prefixErrorRatesColFast cfg = prefixErrorRatesCol cfg := by
    funext r h; exact prefixErrorRatesColFast_eq cfg r h
  unfold prefixErrorRatesBatchFast prefixErrorRatesBatch
  rw [this]

theorem merElemsFast_eq (cfg : Config α) (subAvg bf : Bool) (N M : Nat)
    (ref hyp : List (List (List α))) (w : List (List Rat)) (d : α) :
    merElemsFast cfg subAvg bf N M ref hyp w d = merElems cfg subAvg bf N M ref hyp w d := by
  have : errorRateColFast cfg = errorRateCol cfg := by
    funext r h; exact errorRateColFast_eq cfg r h
  unfold merElemsFast merElems
  rw [this]

end PdtVerif.ErrorRate
