import PdtVerif.Lemmas.CtcTopK
import PdtVerif.Lemmas.CtcAlign
/-! # C05: what `CTCPrefixSearch` returns for one batch element, all lengths included

Pieces needed to state the property of the module's output in one theorem, for every element length
(`T = 0`, and elements of length 0 inside a longer batch, included): the result for an element without
frames, sortedness of the result of a whole good run, every survivor of the recursion is reported. -/
namespace PdtVerif.Ctc

/-- (`C05_sub` in lemma form) under any pruning the recursion reports between 0 and the true mass -/
theorem beamRun_total_bounds (V : Nat) (frames : List Frame) (keeps : List (List (List Nat)))
    (hf : ∀ f ∈ frames, f.Nonneg) (hlen : keeps.length = frames.length) (p : List Nat) :
    0 ≤ (beamRun V frames keeps beamInit).total p ∧
    (beamRun V frames keeps beamInit).total p ≤ mass V frames p := by
  have h0 : NonnegFn beamInit.get := by
    intro q
    by_cases h : q = []
    · subst h; simp [Beam.get, beamInit, List.lookup]
    · have : (q == []) = false := by simpa using h
      simp [Beam.get, beamInit, List.lookup, this]
  have hle : LeFn beamInit.get exactInit := by
    intro q
    by_cases h : q = []
    · subst h; simp [Beam.get, beamInit, List.lookup, exactInit]
    · have : (q == []) = false := by simpa using h
      simp [Beam.get, beamInit, List.lookup, this, exactInit, h]
  have hmain := beamRun_le V frames keeps beamInit exactInit hf hlen h0 hle p
  have hnn := beamRun_nonneg V frames keeps beamInit hf h0 p
  rw [← exact_eq_mass]
  unfold Beam.total exact
  exact ⟨add_nonneg hnn.1 hnn.2, add_le_add hmain.1 hmain.2⟩

/-- (`C05_exact_unpruned` in lemma form) -/
theorem beamRun_total_unpruned (V : Nat) (frames : List Frame) (keeps : List (List (List Nat)))
    (hu : Unpruned V frames keeps beamInit) (p : List Nat) :
    (beamRun V frames keeps beamInit).total p = mass V frames p := by
  have hinit : ∀ q, beamInit.get q = exactInit q := by
    intro q
    by_cases h : q = []
    · subst h; simp [Beam.get, beamInit, List.lookup, exactInit]
    · have : (q == []) = false := by simpa using h
      simp [Beam.get, beamInit, List.lookup, this, exactInit, h]
  have := beamRun_eq V frames keeps beamInit exactInit hu hinit p
  rw [← exact_eq_mass]
  unfold Beam.total exact
  rw [this]

end PdtVerif.Ctc

namespace PdtVerif.CtcPrefix
open PdtVerif.Ctc (Frame stepFn Beam beamStep beamRun beamInit cands candTotal IsTopK ValidRun)

/-! ### an element without frames -/

theorem zero_add_one_xr : getX [XR.zero] 0 + getX [XR.one] 0 = XR.fin 1 := by
  show XR.fin 0 + XR.fin 1 = XR.fin 1
  rw [fin_add, Rat.zero_add]

/-- no frame at all: the probabilities are `[1, -inf, …, -inf]` -/
theorem search_nil_probs_list (V width : Nat) (hw : 0 < width) :
    (search true V width 0 []).1.probs = XR.fin 1 :: List.replicate (width - 1) XR.negInf := by
  by_cases h1 : width = 1
  · subst h1
    simp only [search, loop, finish, initState, List.length_singleton, beq_self_eq_true, bne_self_eq_false,
      Bool.and_false, Bool.false_eq_true, if_false, List.range_one, List.map_cons, List.map_nil,
      zero_add_one_xr, Nat.sub_self, List.replicate_zero]
  · have hb : (width != 1) = true := by simp [bne, h1]
    simp only [search, loop, finish, initState, List.length_singleton, beq_self_eq_true, hb,
      Bool.and_self, if_true, List.range_one, List.map_cons, List.map_nil, zero_add_one_xr,
      List.singleton_append]

/-- no frame at all: slot 0 holds the empty prefix with probability 1, every other slot `-inf` -/
theorem search_nil_probs (V width : Nat) (hw : 0 < width) (k : Nat) :
    getX (search true V width 0 []).1.probs k =
      if k = 0 then XR.fin 1 else if k < width then XR.negInf else XR.zero := by
  rw [search_nil_probs_list V width hw]
  match k with
  | 0 => rfl
  | k + 1 =>
    simp only [Nat.add_eq_zero_iff, Nat.succ_ne_self, and_false, if_false]
    show (XR.fin 1 :: List.replicate (width - 1) XR.negInf).getD (k + 1) XR.zero = _
    rw [List.getD_cons_succ, List.getD_eq_getElem?_getD, List.getElem?_replicate]
    by_cases hk : k < width - 1
    · rw [if_pos hk, if_pos (by omega)]; rfl
    · rw [if_neg hk, if_neg (by omega)]; rfl

theorem search_nil_prefix (V width : Nat) (k : Nat) :
    (search true V width 0 []).1.prefixes.getD k [] = [] := by
  have hall : ∀ p ∈ (search true V width 0 []).1.prefixes, p = [] := by
    intro p hp
    by_cases h1 : width = 1
    · subst h1
      simp [search, loop, finish, initState] at hp
      exact hp
    · have hb : (width != 1) = true := by simp [bne, h1]
      simp only [search, loop, finish, initState, List.length_singleton, beq_self_eq_true, hb,
        Bool.and_self, if_true, expandTo, List.mem_map, List.mem_range] at hp
      obtain ⟨j, _, rfl⟩ := hp
      rw [List.getD_eq_getElem?_getD, List.getElem?_replicate]
      split <;> simp
  rw [List.getD_eq_getElem?_getD]
  cases hk : (search true V width 0 []).1.prefixes[k]? with
  | none => rfl
  | some p => exact hall p (List.mem_of_getElem? hk)

theorem mass_nil (V : Nat) (p : List Nat) : Ctc.mass V [] p = if p = [] then 1 else 0 := by
  unfold Ctc.mass
  simp only [List.length_nil, Ctc.allAlign, List.map_cons, List.map_nil, Ctc.runAlign, List.zip_nil_left,
    List.foldl_nil, Ctc.aInit, List.sum_cons, List.sum_nil]
  by_cases h : p = []
  · subst h; simp
  · have : ¬ ([] : List Nat) = p := fun e => h e.symm
    simp [h, this]

theorem beamInit_total (p : List Nat) : (beamInit).total p = if p = [] then 1 else 0 := by
  by_cases h : p = []
  · subst h; simp [Beam.total, Beam.get, beamInit, List.lookup]
  · have : (p == []) = false := by simpa using h
    simp [Beam.total, Beam.get, beamInit, List.lookup, this, h]

/-! ### sortedness of whole runs -/

/-- after a non-empty good run the totals of the `width` slots are non-increasing (`-inf` last) -/
theorem runAll_sorted {V : Nat} (hV : 0 < V) (width : Nat) :
    ∀ (frames : List FrameIn) (fs : List Frame) (st : State), frames ≠ [] → WF V st →
      GoodRun V width st frames fs →
      nonIncr ((List.range width).map (fun j =>
        getX (runAll V width st frames).nb j + getX (runAll V width st frames).b j)) = true
  | [], _, _, hne, _, _ => absurd rfl hne
  | _ :: _, [], _, _, _, hg => by simp [GoodRun] at hg
  | [fr], f :: fs, st, _, h, hg => by
    obtain ⟨s, hsel, hf, _, _, hk, _⟩ := hg
    simp only [runAll, hsel]
    exact advance_sorted V width fr.ext fr.nonext fr.blank st s h.clean.1 h.clean.2 (blank_isFin hf) hk
  | fr :: fr2 :: frs, f :: fs, st, _, h, hg => by
    obtain ⟨s, hsel, hf, hext, hne, hk, hrest⟩ := hg
    simp only [runAll, hsel]
    exact runAll_sorted hV width (fr2 :: frs) fs _ (by simp) (wf_advance hV width h hf s hk hext hne) hrest

/-- the module's probabilities for an element all of whose frames are valid -/
theorem search_probs_eq (V width : Nat) (frames : List FrameIn) (hne : frames ≠ []) :
    (search true V width frames.length frames).1.probs =
      (List.range width).map (fun j =>
        getX (runAll V width initState frames).nb j + getX (runAll V width initState frames).b j) := by
  have e : (search true V width frames.length frames).1 = finish width (runAll V width initState frames) := by
    simp only [search]
    rw [loop_eq_runAll V width frames.length frames 0 initState (by omega)]
  have hs : Sized width (runAll V width initState frames) := runAll_sized V width frames initState hne
  rw [e, finish_probs_of_sized width _ hs]

/-- a good run has as many specification frames as array frames -/
theorem goodRun_length {V width : Nat} : ∀ (frames : List FrameIn) (fs : List Frame) (st : State),
    GoodRun V width st frames fs → fs.length = frames.length
  | [], [], _, _ => rfl
  | [], _ :: _, _, hg => by simp [GoodRun] at hg
  | _ :: _, [], _, hg => by simp [GoodRun] at hg
  | fr :: frs, f :: fs, st, hg => by
    obtain ⟨s, _, _, _, _, _, hrest⟩ := hg
    simp only [List.length_cons]
    rw [goodRun_length frs fs _ hrest]

theorem keepsOf_length (V width : Nat) : ∀ (fr : List FrameIn) (st : State),
    (keepsOf V width st fr).length = fr.length
  | [], _ => rfl
  | a :: fr, st => by simp [keepsOf, keepsOf_length V width fr]

/-! ### the statement about one element's result -/

/-- What the property says about the result `r` of one batch element, relative to the specification
frames `fs` of the element's own `T` frames, the survivors `keeps` and the map `out` the prefix-beam
recursion of width `width` computes with those survivors. -/
structure ElementOK (V width T : Nat) (fs : List Frame) (keeps : List (List (List Nat))) (r : Result) : Prop where
  /-- the survivors are, frame by frame, a legitimate choice of the best `width` candidates: `out` is
  the standard prefix-beam recursion of that width -/
  standard : ValidRun V width fs keeps beamInit
  /-- a slot with a numeric probability holds a blank-free prefix of the recursion's final map, no
  longer than the input, reports the recursion's mass for it — never more than the true mass — and
  no other numeric slot holds the same prefix -/
  real : ∀ k q, k < width → getX r.probs k = XR.fin q →
    r.prefixes.getD k [] ∈ (beamRun V fs keeps beamInit).keys ∧
    q = (beamRun V fs keeps beamInit).total (r.prefixes.getD k []) ∧
    0 ≤ q ∧ q ≤ Ctc.mass V fs (r.prefixes.getD k []) ∧
    (∀ x ∈ r.prefixes.getD k [], x < V) ∧ (r.prefixes.getD k []).length ≤ T ∧
    (∀ k' q', k' < width → getX r.probs k' = XR.fin q' →
      r.prefixes.getD k' [] = r.prefixes.getD k [] → k' = k)
  /-- every prefix the recursion keeps is reported, with the recursion's mass -/
  complete : ∀ p ∈ (beamRun V fs keeps beamInit).keys, ∃ k, k < width ∧
    getX r.probs k = XR.fin ((beamRun V fs keeps beamInit).total p) ∧ r.prefixes.getD k [] = p
  /-- `width` probabilities, each a number or `-inf` (never NaN), non-increasing, `-inf` last -/
  count : r.probs.length = width
  clean : ∀ x ∈ r.probs, (∃ q, x = XR.fin q) ∨ x = XR.negInf
  sorted : nonIncr r.probs = true
  /-- nothing pruned ⇒ the reported probability is the true mass -/
  exact : Ctc.Unpruned V fs keeps beamInit → ∀ k q, k < width → getX r.probs k = XR.fin q →
    q = Ctc.mass V fs (r.prefixes.getD k [])

/-- an element without any valid frame (`T = 0`, or length 0 inside a batch) -/
theorem elementOK_nil (V width : Nat) (hw : 0 < width) :
    ElementOK V width 0 [] [] (search true V width 0 []).1 := by
  have hp := search_nil_probs V width hw
  have hx := search_nil_prefix V width
  have h0 : ∀ k q, getX (search true V width 0 []).1.probs k = XR.fin q → k < width → k = 0 ∧ q = 1 := by
    intro k q hq hk
    rw [hp k] at hq
    by_cases h : k = 0
    · rw [if_pos h] at hq
      exact ⟨h, (XR.fin.inj hq).symm⟩
    · rw [if_neg h, if_pos hk] at hq
      exact XR.noConfusion hq
  refine ⟨trivial, ?_, ?_, ?_, ?_, ?_, ?_⟩
  · intro k q hk hq
    obtain ⟨rfl, rfl⟩ := h0 k q hq hk
    rw [hx 0]
    simp only [beamRun]
    refine ⟨by simp [Beam.keys, beamInit], by rw [beamInit_total]; simp, by decide +kernel, ?_, by simp, by simp, ?_⟩
    · rw [mass_nil]; simp
    · intro k' q' hk' hq' _
      exact (h0 k' q' hq' hk').1
  · intro p hp'
    simp only [beamRun] at hp' ⊢
    have : p = [] := by simpa [Beam.keys, beamInit] using hp'
    subst this
    refine ⟨0, hw, ?_, hx 0⟩
    rw [hp 0, beamInit_total]; simp
  · rw [search_nil_probs_list V width hw]
    simp; omega
  · intro x hx'
    rw [search_nil_probs_list V width hw] at hx'
    rcases List.mem_cons.1 hx' with rfl | h
    · exact Or.inl ⟨1, rfl⟩
    · exact Or.inr (List.eq_of_mem_replicate h)
  · rw [search_nil_probs_list V width hw]
    exact nonIncr_append_negInf [XR.fin 1] (width - 1) rfl
  · intro _ k q hk hq
    obtain ⟨rfl, rfl⟩ := h0 k q hq hk
    rw [hx 0, mass_nil]; simp

/-- an element with at least one valid frame -/
theorem elementOK_cons {V : Nat} (hV : 0 < V) (width : Nat) (hw : 0 < width) (frames : List FrameIn)
    (fs : List Frame) (hne : frames ≠ []) (hg : GoodRun V width initState frames fs)
    (hnn : ∀ f ∈ fs, f.Nonneg) :
    ElementOK V width frames.length fs (keepsOf V width initState frames)
      (search true V width frames.length frames).1 := by
  obtain ⟨hwf, hrep⟩ := rep_run hV width frames fs initState beamInit (wf_init V) rep_init hg
  have hsz := runAll_sized V width frames initState hne
  have hkl : (keepsOf V width initState frames).length = fs.length := by
    rw [keepsOf_length, goodRun_length frames fs _ hg]
  have hprobs := search_probs_eq V width frames hne
  -- a numeric slot is a real slot of the final state
  have hslot : ∀ k q, k < width → getX (search true V width frames.length frames).1.probs k = XR.fin q →
      validB (runAll V width initState frames) k = true ∧
      (search true V width frames.length frames).1.prefixes.getD k [] = preOf (runAll V width initState frames) k ∧
      q = nbq (runAll V width initState frames) k + bq (runAll V width initState frames) k := by
    intro k q hk hq
    obtain ⟨e1, e2⟩ := search_eq_runAll V width frames hne k hk
    rw [e1] at hq
    have hv : validB (runAll V width initState frames) k = true :=
      valid_of_total_fin (by rw [hsz.1]; exact hk) hq
    rw [total_of_valid hwf hv] at hq
    exact ⟨hv, e2, (XR.fin.inj hq).symm⟩
  have htm : ∀ (fr : List FrameIn) (st : State), (runAll V width st fr).tm1 = st.tm1 + fr.length := by
    intro fr
    induction fr with
    | nil => intro st; rfl
    | cons a fr ih =>
      intro st
      simp only [runAll, ih, List.length_cons]
      have : (advance true V width a.ext a.nonext a.blank st a.sel).st.tm1 = st.tm1 + 1 := rfl
      rw [this]; omega
  refine ⟨goodRun_validRun hV width hw frames fs initState beamInit (wf_init V) rep_init hg, ?_, ?_, ?_, ?_, ?_, ?_⟩
  · intro k q hk hq
    obtain ⟨hv, hp, hq'⟩ := hslot k q hk hq
    have hget := hrep.1 (preOf (runAll V width initState frames) k)
    rw [absGet_valid hwf hv] at hget
    have hbeam : q = (beamRun V fs (keepsOf V width initState frames) beamInit).total
        ((search true V width frames.length frames).1.prefixes.getD k []) := by
      unfold Beam.total
      rw [hp, hget, hq']
    obtain ⟨c0, c1⟩ := Ctc.beamRun_total_bounds V fs (keepsOf V width initState frames) hnn hkl
      ((search true V width frames.length frames).1.prefixes.getD k [])
    refine ⟨?_, hbeam, by rw [hbeam]; exact c0, by rw [hbeam]; exact c1, ?_, ?_, ?_⟩
    · rw [hp]; exact (hrep.2 _).2 ⟨k, hv, rfl⟩
    · rw [hp]; exact hwf.tok k hv
    · rw [hp, preOf_length hwf hv]
      have := hwf.lens.1 k
      rw [htm frames initState] at this
      simpa [initState] using this
    · intro k' q' hk' hq2 hpk
      obtain ⟨hv', hp', _⟩ := hslot k' q' hk' hq2
      exact hwf.dist k' k hv' hv (by rw [← hp', hpk, hp])
  · intro p hp
    obtain ⟨k, hv, rfl⟩ := (hrep.2 p).1 hp
    have hk : k < width := by rw [← hsz.1]; exact (validB_iff.1 hv).1
    obtain ⟨e1, e2⟩ := search_eq_runAll V width frames hne k hk
    refine ⟨k, hk, ?_, e2⟩
    rw [e1, total_of_valid hwf hv]
    have hget := hrep.1 (preOf (runAll V width initState frames) k)
    rw [absGet_valid hwf hv] at hget
    unfold Beam.total
    rw [hget]
  · rw [hprobs]; simp
  · intro x hx
    rw [hprobs] at hx
    obtain ⟨j, _, rfl⟩ := List.mem_map.1 hx
    have hc := add_clean (getX_clean _ hwf.clean.1 j) (getX_clean _ hwf.clean.2 j)
    cases hxx : getX (runAll V width initState frames).nb j + getX (runAll V width initState frames).b j with
    | fin q => exact Or.inl ⟨q, rfl⟩
    | negInf => exact Or.inr rfl
    | posInf => rw [hxx] at hc; exact Bool.noConfusion hc
    | nan => rw [hxx] at hc; exact Bool.noConfusion hc
  · rw [hprobs]
    exact runAll_sorted hV width frames fs initState hne (wf_init V) hg
  · intro hu k q hk hq
    obtain ⟨hv, hp, hq'⟩ := hslot k q hk hq
    have hget := hrep.1 (preOf (runAll V width initState frames) k)
    rw [absGet_valid hwf hv] at hget
    rw [hp, ← Ctc.beamRun_total_unpruned V fs _ hu]
    unfold Beam.total
    rw [hget]
    exact hq'

end PdtVerif.CtcPrefix
