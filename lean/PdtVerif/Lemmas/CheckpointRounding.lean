import PdtVerif.Lemmas.CheckpointLr
/-!
# C16 lemmas: "best" is the best of the history AS RECORDED

The metric handed to `update_for_epoch` is a float `x`; the history file holds `R.file x` (5 significant
digits); `get_best_epoch` compares `R.mem v` of every cached `v` — raw for the epochs the running
controller added, recorded for the ones it read from the file (`memVals R raw k0`). When the two
roundings are the same idempotent function (`Rounding.Consistent`), every controller, whenever it was
started, compares exactly the recorded column (`memVals_eq_fileVals`), so every theorem about a list
`vals` of compared values applies with `vals := fileVals R raw`, and the sessions of the real
controller (`crashSessionR`, `faultyR`: the compared list is fixed when the controller is constructed)
are the sessions of the model at that list.
-/
namespace PdtVerif.Checkpoint

/-- In memory and on file the same rounding: `get_best_epoch` rounds a cached value exactly as the
history file's format does, and reading a recorded value back and writing it again changes nothing. -/
structure Rounding.Consistent (R : Rounding) : Prop where
  same : ∀ x, R.mem x = R.file x
  idem : ∀ x, R.file (R.file x) = R.file x

/-- One rounding function used at both places (the code: `float("{:.4e}".format(x))`). -/
def Rounding.both (r : Int → Int) : Rounding := ⟨r, r⟩

theorem Rounding.both_consistent {r : Int → Int} (h : ∀ x, r (r x) = r x) : (Rounding.both r).Consistent :=
  ⟨fun _ => rfl, h⟩

theorem rmap_append (r : Int → Int) (a b : List (Option Int)) : rmap r (a ++ b) = rmap r a ++ rmap r b := by
  simp [rmap]

theorem rmap_length (r : Int → Int) (a : List (Option Int)) : (rmap r a).length = a.length := by
  simp [rmap]

theorem rmap_congr {r r' : Int → Int} (h : ∀ x, r x = r' x) (a : List (Option Int)) : rmap r a = rmap r' a := by
  have : r = r' := funext h
  rw [this]

theorem rmap_idem {r : Int → Int} (h : ∀ x, r (r x) = r x) (a : List (Option Int)) :
    rmap r (rmap r a) = rmap r a := by
  induction a with
  | nil => rfl
  | cons v rest ih =>
    have ih' : List.map (Option.map r) (List.map (Option.map r) rest) = List.map (Option.map r) rest := ih
    cases v with
    | none => simp [rmap, ih']
    | some x => simp [rmap, ih', h x]

/-- **Whenever the controller was started, it compares the recorded column.** -/
theorem memVals_eq_fileVals {R : Rounding} (hc : R.Consistent) (raw : List (Option Int)) (k0 : Nat) :
    memVals R raw k0 = fileVals R raw := by
  unfold memVals cacheVals fileVals
  rw [rmap_append, rmap_congr hc.same, rmap_congr hc.same (raw.drop k0), rmap_idem hc.idem, ← rmap_append,
    List.take_append_drop]

theorem recVals_eq_fileVals {R : Rounding} (hc : R.Consistent) (raw : List (Option Int)) :
    recVals R raw = fileVals R raw := by
  unfold recVals fileVals
  rw [rmap_congr hc.same, rmap_idem hc.idem]

theorem fileVals_length (R : Rounding) (raw : List (Option Int)) : (fileVals R raw).length = raw.length :=
  rmap_length _ _

theorem crashSessionR_eq {R : Rounding} (hc : R.Consistent) (Q : Quirks) (P : Params) (raw : List (Option Int))
    (tr : Train) (d : Disk) (j i : Nat) (torn : Bool) :
    crashSessionR Q P R raw tr d j i torn = crashSession Q P (fileVals R raw) tr d j i torn := by
  unfold crashSessionR
  cases h : recorded d with
  | none => simp [crashSession, startSession, h]
  | some k0 => simp only [memVals_eq_fileVals hc]

theorem runToEndR_eq {R : Rounding} (hc : R.Consistent) (Q : Quirks) (P : Params) (raw : List (Option Int))
    (tr : Train) (d : Disk) :
    runToEndR Q P R raw tr d = runToEnd Q P (fileVals R raw) tr d := by
  unfold runToEndR
  cases h : recorded d with
  | none => simp [runToEnd, startSession, h]
  | some k0 => simp only [memVals_eq_fileVals hc]

theorem faultyR_eq {R : Rounding} (hc : R.Consistent) (Q : Quirks) (P : Params) (raw : List (Option Int))
    (tr : Train) (d : Disk) (sched : List (Nat × Nat × Bool)) :
    faultyR Q P R raw tr d sched = faulty Q P (fileVals R raw) tr d sched := by
  induction sched generalizing d with
  | nil => exact runToEndR_eq hc Q P raw tr d
  | cons x rest ih =>
    obtain ⟨j, i, torn⟩ := x
    simp only [faultyR, faulty, crashSessionR_eq hc, ih]

end PdtVerif.Checkpoint
