import PdtVerif.Model.SeqScoreGreedy
import PdtVerif.Spec.SeqScore
/-! Helper lemmas for `ctc_greedy_search` (core Lean only). -/
namespace PdtVerif.SeqScore

/-! ### frame maximum -/

theorem maxGo_spec (best : Rat) (bi i : Nat) (xs : List Rat) (pre : List Rat)
    (hi : i = pre.length) (hbi : pre[bi]? = some best) (hmax : ∀ x ∈ pre, x ≤ best) :
    (pre ++ xs)[(maxGo best bi i xs).2]? = some (maxGo best bi i xs).1 ∧
      ∀ x ∈ pre ++ xs, x ≤ (maxGo best bi i xs).1 := by
  induction xs generalizing best bi i pre with
  | nil => exact ⟨by simpa [maxGo] using hbi, by simpa [maxGo] using hmax⟩
  | cons x xs ih =>
    unfold maxGo
    have happ : pre ++ x :: xs = (pre ++ [x]) ++ xs := by simp
    split
    · rename_i hlt
      rw [happ]
      apply ih
      · simp [hi]
      · simp [hi]
      · intro y hy
        rcases List.mem_append.1 hy with h | h
        · exact Rat.le_trans (hmax y h) (Rat.le_of_lt hlt)
        · simp at h; subst h; exact Rat.le_refl
    · rename_i hlt
      rw [happ]
      apply ih
      · simp [hi]
      · have : bi < pre.length := by
          rcases Nat.lt_or_ge bi pre.length with h | h
          · exact h
          · simp [List.getElem?_eq_none h] at hbi
        rw [List.getElem?_append_left this]; exact hbi
      · intro y hy
        rcases List.mem_append.1 hy with h | h
        · exact hmax y h
        · simp at h; subst h; exact Rat.not_lt.1 hlt

/-- `frameMax` returns a maximal entry of a non-empty frame together with an index of it. -/
theorem frameMax_spec (row : List Rat) (hne : row ≠ []) :
    row[(frameMax row).2]? = some (frameMax row).1 ∧ ∀ x ∈ row, x ≤ (frameMax row).1 := by
  cases row with
  | nil => exact absurd rfl hne
  | cons x xs =>
    have := maxGo_spec x 0 1 xs [x] rfl (by simp) (by intro y hy; simp at hy; subst hy; exact Rat.le_refl)
    simpa [frameMax] using this

/-- Lowering entries of a frame while one maximal entry keeps its value does not change the
frame maximum; when the maximum is strict, the index is kept too. -/
theorem frameMax_lower (row row' : List Rat) (hne : row ≠ []) (hlen : row'.length = row.length)
    (hle : ∀ (i : Nat) x x', row[i]? = some x → row'[i]? = some x' → x' ≤ x)
    (hkeep : row'[(frameMax row).2]? = some (frameMax row).1) :
    (frameMax row').1 = (frameMax row).1 ∧
      ((∀ (i : Nat) x, row[i]? = some x → i ≠ (frameMax row).2 → x < (frameMax row).1) →
        frameMax row' = frameMax row) := by
  have hne' : row' ≠ [] := by
    intro h; rw [h] at hlen; exact hne (List.length_eq_zero_iff.1 hlen.symm)
  obtain ⟨h1, h2⟩ := frameMax_spec row hne
  obtain ⟨h1', h2'⟩ := frameMax_spec row' hne'
  -- m ≤ m'
  have hmm' : (frameMax row).1 ≤ (frameMax row').1 := h2' _ (List.mem_of_getElem? hkeep)
  -- m' ≤ m
  have hlt' : (frameMax row').2 < row.length := by
    rw [← hlen]
    exact (List.getElem?_eq_some_iff.1 h1').1
  have hx : row[(frameMax row').2]? = some row[(frameMax row').2] := List.getElem?_eq_getElem hlt'
  have hm'm : (frameMax row').1 ≤ (frameMax row).1 :=
    Rat.le_trans (hle _ _ _ hx h1') (h2 _ (List.getElem_mem hlt'))
  have hval : (frameMax row').1 = (frameMax row).1 := Rat.le_antisymm hm'm hmm'
  refine ⟨hval, ?_⟩
  intro hstrict
  have hidx : (frameMax row').2 = (frameMax row).2 := by
    apply Decidable.byContradiction
    intro hneq
    have := hstrict _ _ hx hneq
    have h3 : (frameMax row').1 ≤ row[(frameMax row').2] := hle _ _ _ hx h1'
    rw [hval] at h3
    exact absurd h3 (Rat.not_le.2 this)
  exact Prod.ext hval hidx

/-! ### the keep mask removes repeats and blanks -/

/-- The kept cells of one row: `row.masked_select(keep)`. -/
def labelsOf {α} (row : List α) (keep : List Bool) : List α :=
  (List.zip row keep).filterMap (fun xb => if xb.2 then some xb.1 else none)

@[simp] theorem labelsOf_nil_left {α} (k : List Bool) : labelsOf ([] : List α) k = [] := by
  simp [labelsOf]
@[simp] theorem labelsOf_nil_right {α} (r : List α) : labelsOf r [] = [] := by
  simp [labelsOf]
@[simp] theorem labelsOf_cons {α} (a : α) (r : List α) (b : Bool) (k : List Bool) :
    labelsOf (a :: r) (b :: k) = if b then a :: labelsOf r k else labelsOf r k := by
  cases b <;> simp [labelsOf]

/-- The keep mask with the previous label carried along. -/
def keepAux (blank : Nat) : Option Nat → List Nat → List Bool
  | _, [] => []
  | prev, a :: as => (a != blank && prev != some a) :: keepAux blank (some a) as

theorem keepTail_eq (blank p : Nat) (as : List Nat) :
    List.zipWith (fun a b => a && b) (as.map (fun a => a != blank))
      (List.zipWith (fun a b => a != b) as (p :: as)) = keepAux blank (some p) as := by
  induction as generalizing p with
  | nil => simp [keepAux]
  | cons b bs ih =>
    simp only [List.map_cons, List.zipWith_cons_cons, keepAux]
    rw [ih b]
    congr 1
    rcases Nat.decEq b p with h | h
    · have h' : ¬ p = b := fun e => h e.symm
      have e1 : (b != p) = true := by simp [h]
      have e2 : (some p != some b) = true := by simp [h']
      rw [e1, e2]
    · subst h
      have e1 : (b != b) = false := by simp
      have e2 : (some b != some b) = false := by simp
      rw [e1, e2]

theorem keepRow_eq (blank : Nat) (am : List Nat) : keepRow blank am = keepAux blank none am := by
  cases am with
  | nil => simp [keepRow, keepAux]
  | cons a as =>
    simp only [keepRow, List.map_cons, List.take_succ_cons, List.take_zero, List.drop_succ_cons,
      List.drop_zero, keepAux]
    rw [keepTail_eq]
    simp

theorem keepAux_length (blank : Nat) (prev : Option Nat) (am : List Nat) :
    (keepAux blank prev am).length = am.length := by
  induction am generalizing prev with
  | nil => rfl
  | cons a as ih => simp [keepAux, ih]

theorem keepAux_take (blank : Nat) (prev : Option Nat) (am : List Nat) (n : Nat) :
    (keepAux blank prev am).take n = keepAux blank prev (am.take n) := by
  induction am generalizing prev n with
  | nil => simp [keepAux]
  | cons a as ih =>
    cases n with
    | zero => simp [keepAux]
    | succ n => simp [keepAux, ih]

/-- Drop every element equal to its predecessor (`prev` = the element before the list). -/
def dedupFrom : Option Nat → List Nat → List Nat
  | _, [] => []
  | prev, a :: as => if prev = some a then dedupFrom (some a) as else a :: dedupFrom (some a) as

theorem dedupAdjacent_cons (p : Nat) (l : List Nat) :
    Spec.dedupAdjacent (p :: l) = p :: dedupFrom (some p) l := by
  induction l generalizing p with
  | nil => simp [Spec.dedupAdjacent, dedupFrom]
  | cons b bs ih =>
    simp only [Spec.dedupAdjacent, dedupFrom]
    rw [ih b]
    by_cases h : p = b
    · subst h; simp
    · have h' : ¬ (some p = some b) := by simpa using h
      simp [h]

theorem dedupAdjacent_eq (l : List Nat) : Spec.dedupAdjacent l = dedupFrom none l := by
  cases l with
  | nil => simp [Spec.dedupAdjacent, dedupFrom]
  | cons a as => rw [dedupAdjacent_cons]; simp [dedupFrom]

theorem labelsOf_keepAux (blank : Nat) (prev : Option Nat) (am : List Nat) :
    labelsOf am (keepAux blank prev am) = (dedupFrom prev am).filter (fun a => a != blank) := by
  induction am generalizing prev with
  | nil => simp [keepAux, dedupFrom]
  | cons a as ih =>
    simp only [keepAux, labelsOf_cons, dedupFrom, ih]
    by_cases h1 : prev = some a
    · simp [h1]
    · by_cases h2 : a = blank
      · subst h2; simp [h1]
      · simp [h1, h2]

/-- Masking with `arange(T) < len` is truncation to `len`. -/
theorem labelsOf_lenMask {α} (row : List α) (K : List Bool) (len k : Nat)
    (hK : K.length = row.length) :
    labelsOf row (List.zipWith (fun a b => a && b) K
        ((List.range' k row.length).map (fun t => decide (t < len))))
      = labelsOf (row.take (len - k)) (K.take (len - k)) := by
  induction row generalizing K k with
  | nil => simp
  | cons a as ih =>
    cases K with
    | nil => simp at hK
    | cons b bs =>
      have hbs : bs.length = as.length := by simpa using hK
      simp only [List.length_cons, List.range'_succ, List.map_cons, List.zipWith_cons_cons,
        labelsOf_cons]
      rw [ih bs (k + 1) hbs]
      by_cases hk : k < len
      · have h0 : len - k = (len - (k + 1)) + 1 := by omega
        rw [h0]
        simp [hk]
      · have h0 : len - k = 0 := by omega
        have h1 : len - (k + 1) = 0 := by omega
        simp [hk, h0, h1]

theorem count_eq_labelsOf_length {α} (row : List α) (K : List Bool) (hK : K.length = row.length) :
    (K.filter id).length = (labelsOf row K).length := by
  induction row generalizing K with
  | nil => cases K <;> simp_all
  | cons a as ih =>
    cases K with
    | nil => simp at hK
    | cons b bs =>
      have hbs : bs.length = as.length := by simpa using hK
      cases b <;> simp [ih bs hbs]

theorem labelsOf_length_le {α} (row : List α) (K : List Bool) :
    (labelsOf row K).length ≤ row.length := by
  induction row generalizing K with
  | nil => simp
  | cons a as ih =>
    cases K with
    | nil => simp
    | cons b bs =>
      have := ih bs
      cases b <;> simp <;> omega

/-! ### batch-flattened `masked_select` / `masked_scatter_` are row aligned -/

theorem scatterRow_lenMask {α} (d : List α) (k L : Nat) (s rest : List α)
    (hs : s.length = L - k) (hd : L - k ≤ d.length) :
    scatterRow d ((List.range' k d.length).map (fun t => decide (t < L))) (s ++ rest)
      = (s ++ d.drop s.length, rest) := by
  induction d generalizing k s with
  | nil =>
    have : s = [] := by
      apply List.eq_nil_of_length_eq_zero; simp at hd; omega
    subst this; simp [scatterRow]
  | cons x xs ih =>
    simp only [List.length_cons, List.range'_succ, List.map_cons]
    by_cases hk : k < L
    · cases s with
      | nil => simp at hs; omega
      | cons y ys =>
        have hys : ys.length = L - (k + 1) := by simp at hs; omega
        have hd' : L - (k + 1) ≤ xs.length := by simp at hd; omega
        simp only [hk, decide_true, List.cons_append, scatterRow]
        rw [ih (k + 1) ys hys hd']
        simp
    · have : s = [] := by
        apply List.eq_nil_of_length_eq_zero; omega
      subst this
      have hd' : L - (k + 1) ≤ xs.length := by omega
      have := ih (k + 1) [] (by simp; omega) hd'
      simp only [List.nil_append, List.length_nil, List.drop_zero] at this
      simp [hk, scatterRow, this]

/-- Rows and keep masks of matching sizes. -/
inductive Aligned {α} : List (List α) → List (List Bool) → Prop
  | nil : Aligned [] []
  | cons {r k rows keeps} : k.length = r.length → Aligned rows keeps →
      Aligned (r :: rows) (k :: keeps)

theorem maskedSelect_cons {α} (r : List α) (rows : List (List α)) (k : List Bool)
    (keeps : List (List Bool)) :
    maskedSelect (r :: rows) (k :: keeps) = labelsOf r k ++ maskedSelect rows keeps := by
  simp [maskedSelect, labelsOf]

/-- **Row alignment.** Selecting by `keep` over the whole batch and scattering the result back
through the `out_len` masks puts, into every row, exactly that row's kept labels, in order,
followed by the untouched rest of the row. -/
theorem scatter_select {α} (rows : List (List α)) (keeps : List (List Bool))
    (h : Aligned rows keeps) :
    maskedScatter rows
        (List.zipWith (fun (row : List α) l => lenMask row.length l) rows
          (keeps.map (fun k => (k.filter id).length)))
        (maskedSelect rows keeps)
      = List.zipWith (fun row keep => labelsOf row keep ++ row.drop (labelsOf row keep).length)
          rows keeps := by
  induction h with
  | nil => simp [maskedScatter]
  | @cons r k rows keeps hk _ ih =>
    simp only [List.map_cons, List.zipWith_cons_cons, maskedScatter, maskedSelect_cons]
    have hcount := count_eq_labelsOf_length r k hk
    have hrow := scatterRow_lenMask r 0 (labelsOf r k).length (labelsOf r k)
      (maskedSelect rows keeps) (by simp) (by simpa using labelsOf_length_le r k)
    unfold lenMask
    rw [List.range_eq_range', hcount, hrow]
    simp only
    rw [← ih]
    rfl

/-! ### scores -/

theorem foldl_add_eq (a : Rat) (l : List Rat) : l.foldl (· + ·) a = a + l.sum := by
  induction l generalizing a with
  | nil => simp [Rat.add_zero]
  | cons x xs ih => simp [ih, Rat.add_assoc]

theorem foldl_mul_eq (a : Rat) (l : List Rat) : l.foldl (· * ·) a = a * l.foldr (· * ·) 1 := by
  induction l generalizing a with
  | nil => simp [Rat.mul_one]
  | cons x xs ih => simp [ih, Rat.mul_assoc]

/-- Frame maxima beyond the length are replaced by the neutral element: the fold only sees the
first `len` of them. -/
theorem masked_take {neutral : Rat} (r : List Rat) (k L : Nat) :
    List.zipWith (fun (x : Rat) (b : Bool) => if b then x else neutral) r
        ((List.range' k r.length).map (fun t => decide (t < L)))
      = r.take (L - k) ++ List.replicate (r.length - (L - k)) neutral := by
  induction r generalizing k with
  | nil => simp
  | cons x xs ih =>
    simp only [List.length_cons, List.range'_succ, List.map_cons, List.zipWith_cons_cons]
    rw [ih (k + 1)]
    by_cases hk : k < L
    · have h0 : L - k = (L - (k + 1)) + 1 := by omega
      rw [h0]
      simp [hk]
    · have h0 : L - k = 0 := by omega
      have h1 : L - (k + 1) = 0 := by omega
      simp [hk, h0, h1, List.replicate_succ]

theorem sum_append_replicate_zero (l : List Rat) (n : Nat) :
    (l ++ List.replicate n (0 : Rat)).sum = l.sum := by
  induction l with
  | nil =>
    induction n with
    | zero => simp
    | succ n ih => simpa [List.replicate_succ, Rat.zero_add] using ih
  | cons x xs ih => simp [ih]

theorem prod_append_replicate_one (l : List Rat) (n : Nat) :
    (l ++ List.replicate n (1 : Rat)).foldr (· * ·) 1 = l.foldr (· * ·) 1 := by
  induction l with
  | nil =>
    induction n with
    | zero => simp
    | succ n ih => simpa [List.replicate_succ, Rat.one_mul] using ih
  | cons x xs ih => simp [ih]

/-! ### assembling the rows -/

/-- The keep mask of row `row` with valid length `len` (`none`: no `in_lens`). -/
def keepOf (blank : Nat) (row : List Nat) (len : Option Nat) : List Bool :=
  match len with
  | none => keepRow blank row
  | some l => List.zipWith (fun a b => a && b) (keepRow blank row) (lenMask row.length l)

theorem keepOf_length (blank : Nat) (row : List Nat) (len : Option Nat) :
    (keepOf blank row len).length = row.length := by
  cases len <;> simp [keepOf, keepRow_eq, keepAux_length, lenMask]

/-- The kept labels of a row are the spec's labels. -/
theorem labelsOf_keepOf (blank : Nat) (row : List Nat) (len : Option Nat) :
    labelsOf row (keepOf blank row len)
      = Spec.greedyLabels blank (len.getD row.length) row := by
  unfold Spec.greedyLabels
  cases len with
  | none =>
    simp only [keepOf, keepRow_eq, labelsOf_keepAux, Option.getD_none, List.take_length,
      dedupAdjacent_eq]
  | some l =>
    simp only [keepOf, Option.getD_some, lenMask, List.range_eq_range']
    rw [labelsOf_lenMask row _ l 0 (by simp [keepRow_eq, keepAux_length])]
    simp only [Nat.sub_zero, keepRow_eq, keepAux_take, labelsOf_keepAux, dedupAdjacent_eq]

theorem keeps_none (blank : Nat) (am : List (List Nat)) :
    am.map (keepRow blank) = am.map (fun row => keepOf blank row none) := rfl

theorem keeps_some (blank : Nat) (am : List (List Nat)) (ls : List Nat) :
    List.zipWith (fun k m => List.zipWith (fun a b => a && b) k m) (am.map (keepRow blank))
        (List.zipWith (fun (row : List Nat) l => lenMask row.length l) am ls)
      = List.zipWith (fun row l => keepOf blank row (some l)) am ls := by
  induction am generalizing ls with
  | nil => simp
  | cons r rs ih =>
    cases ls with
    | nil => simp
    | cons l ls => simp [ih, keepOf]

theorem aligned_map (blank : Nat) (am : List (List Nat)) :
    Aligned am (am.map (fun row => keepOf blank row none)) := by
  induction am with
  | nil => exact Aligned.nil
  | cons r rs ih => exact Aligned.cons (keepOf_length _ _ _) ih

theorem aligned_zipWith (blank : Nat) (am : List (List Nat)) (ls : List Nat)
    (h : ls.length = am.length) :
    Aligned am (List.zipWith (fun row l => keepOf blank row (some l)) am ls) := by
  induction am generalizing ls with
  | nil => simp; exact Aligned.nil
  | cons r rs ih =>
    cases ls with
    | nil => simp at h
    | cons l ls => exact Aligned.cons (keepOf_length _ _ _) (ih ls (by simpa using h))

/-- Score of one row: the fold over the (masked) frame maxima is the spec's score. -/
theorem score_row (isProbs : Bool) (r : List Rat) (len : Option Nat) :
    (let r' := match len with
        | none => r
        | some l => List.zipWith (fun (x : Rat) (b : Bool) => if b then x else (if isProbs then 1 else 0)) r
            (lenMask r.length l)
     if isProbs then r'.foldl (· * ·) 1 else r'.foldl (· + ·) 0)
      = Spec.greedyScore isProbs (len.getD r.length) r := by
  unfold Spec.greedyScore
  cases len with
  | none =>
    cases isProbs
    · simp [foldl_add_eq, Rat.zero_add]
    · simp [foldl_mul_eq, Rat.one_mul]
  | some l =>
    simp only [lenMask, List.range_eq_range', masked_take, Nat.sub_zero, Option.getD_some]
    cases isProbs
    · simp only [Bool.false_eq_true, if_false]
      rw [foldl_add_eq, sum_append_replicate_zero, Rat.zero_add]
    · simp only [if_true]
      rw [foldl_mul_eq, prod_append_replicate_one, Rat.one_mul]

end PdtVerif.SeqScore
