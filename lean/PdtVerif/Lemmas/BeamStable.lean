import PdtVerif.Lemmas.BeamRun
/-!
# C04: the search skeleton does not depend on the arithmetic the scores are computed in

Two runs of the modelled search — different `topk` tie-breaking, different language-model
objects and state types, score rows that differ entrywise by at most `ε` (the same tokens
impossible) — return the same paths in the same slots, as long as every selection of the first
run is decided by a margin of more than `2 (t + 1) ε`. Rounding of the accumulated sums in a
floating dtype is such a perturbation of the rows (the error of a sum is a function of the
history it belongs to), so this is the statement that the *skeleton* of the search (which
prefixes survive, in which order) is independent of the dtype while margins exceed the
accumulated rounding error; the scores then differ by at most `len · ε`.

Part 1: closeness of extended scores. Part 2: `topk` on close candidate vectors.
Part 3: `chain`. Part 4: what two beams show. Part 5: one step. Part 6: the run.
-/
namespace PdtVerif.Beam

/-! ## Part 1 — closeness on the extended line -/

/-- Both `-inf`, or both finite and at most `ε` apart. -/
def Score.Close (ε : Rat) : Score → Score → Prop
  | none, none => True
  | some a, some b => a ≤ b + ε ∧ b ≤ a + ε
  | _, _ => False

theorem Score.Close.none_iff {ε : Rat} {x y : Score} (h : Score.Close ε x y) :
    x = none ↔ y = none := by
  cases x <;> cases y <;> simp_all [Score.Close]

theorem Score.Close.mono {a b : Rat} {x y : Score} (h : Score.Close a x y) (hab : a ≤ b) :
    Score.Close b x y := by
  cases x <;> cases y <;> simp_all [Score.Close]
  constructor <;> grind

theorem Score.Close.add {a b : Rat} {x y u v : Score} (h1 : Score.Close a x y)
    (h2 : Score.Close b u v) : Score.Close (a + b) (x.add u) (y.add v) := by
  cases x <;> cases y <;> cases u <;> cases v <;> simp_all [Score.Close, Score.add]
  constructor <;> grind

theorem Score.Close.rfl' (x : Score) : Score.Close 0 x x := by
  cases x
  · simp [Score.Close]
  · simp only [Score.Close]; constructor <;> grind

/-- Entrywise closeness of two candidate vectors. -/
def CandsClose (ε : Rat) (c c' : List Score) : Prop :=
  c.length = c'.length ∧ ∀ i, Score.Close ε (c.getD i none) (c'.getD i none)

theorem sepB_spec {m : Rat} {c : List Score} {inds : List Nat} (h : sepB m c inds = true)
    {i j : Nat} (hi : i ∈ inds) (hf : c.getD i none ≠ none) (hj : j < c.length) (hij : j ≠ i) :
    Score.apart m (c.getD i none) (c.getD j none) = true
      ∨ Score.apart m (c.getD j none) (c.getD i none) = true := by
  unfold sepB at h
  rw [List.all_eq_true] at h
  have h1 := h i hi
  rw [Bool.or_eq_true] at h1
  rcases h1 with h1 | h1
  · exfalso; apply hf
    cases hc : c.getD i none with
    | none => rfl
    | some x => rw [hc] at h1; simp at h1
  · rw [List.all_eq_true] at h1
    have h2 := h1 j (List.mem_range.mpr hj)
    simp only [Bool.or_eq_true, beq_iff_eq] at h2
    rcases h2 with (h2 | h2) | h2
    · exact absurd h2 hij
    · exact Or.inl h2
    · exact Or.inr h2

/-! ## Part 2 — `topk` on close candidate vectors -/

/-- If `x` is more than `m ≥ 2ε` above `y`, the perturbed `x'` is still strictly above `y'`. -/
theorem apart_close {m ε : Rat} (hm : ε + ε ≤ m) {x y x' y' : Score}
    (hx : Score.Close ε x x') (hy : Score.Close ε y y') (h : Score.apart m x y = true) :
    Score.le x' y' = false := by
  cases x <;> cases y <;> cases x' <;> cases y' <;>
    simp_all [Score.Close, Score.apart, Score.le]
  grind

theorem le_not_apart {m : Rat} (hm : 0 ≤ m) {x y : Score} (h : Score.le x y = true) :
    Score.apart m x y = false := by
  cases x <;> cases y <;> simp_all [Score.apart, Score.le]
  grind

/-- Where the other candidates stand, in the perturbed vector, relative to a selected finite
candidate `i = inds[k]` of the exact one: those selected before it are strictly above, all the
others strictly below. -/
theorem sel_position {m ε : Rat} (hε : 0 ≤ ε) (hm : ε + ε ≤ m) {c c' : List Score} {K : Nat}
    {inds : List Nat} (hcl : CandsClose ε c c') (h : IsTopK c K inds)
    (hsep : sepB m c inds = true) {k i : Nat} (hki : inds[k]? = some i)
    (hf : c.getD i none ≠ none) {j : Nat} (hj : j < c.length) (hji : j ≠ i) :
    (j ∈ inds.take k → Score.le (c'.getD j none) (c'.getD i none) = false) ∧
    (j ∉ inds.take k → Score.le (c'.getD i none) (c'.getD j none) = false) := by
  have hm0 : 0 ≤ m := by grind
  obtain ⟨hklt, hik⟩ := List.getElem?_eq_some_iff.mp hki
  have hi : i ∈ inds := List.mem_of_getElem? hki
  have hs := sepB_spec hsep hi hf hj hji
  have hsorted := List.pairwise_iff_getElem.mp h.sorted
  constructor
  · intro hjm
    obtain ⟨k0, hk0, hjk0⟩ := List.mem_take_iff_getElem.mp hjm
    have hk0k : k0 < k := by omega
    have hle := hsorted k0 k (by omega) hklt hk0k
    rw [hjk0, hik] at hle
    rcases hs with hs | hs
    · rw [le_not_apart hm0 hle] at hs; cases hs
    · exact apart_close hm (hcl.2 j) (hcl.2 i) hs
  · intro hjm
    have hle : Score.le (c.getD j none) (c.getD i none) = true := by
      by_cases hjin : j ∈ inds
      · obtain ⟨k1, hk1, hjk1⟩ := List.getElem_of_mem hjin
        have hk1k : k < k1 := by
          rcases Nat.lt_trichotomy k1 k with hlt | heq | hgt
          · exfalso; apply hjm
            exact List.mem_take_iff_getElem.mpr ⟨k1, by omega, hjk1⟩
          · exfalso; apply hji; subst heq; rw [← hjk1, hik]
          · exact hgt
        have := hsorted k k1 hklt hk1 hk1k
        rwa [hjk1, hik] at this
      · exact h.maximal i hi j hj hjin
    rcases hs with hs | hs
    · exact apart_close hm (hcl.2 i) (hcl.2 j) hs
    · rw [le_not_apart hm0 hle] at hs; cases hs

/-- **`topk` is stable**: a selection of the perturbed vector agrees, position by position, with
the selection of the exact vector wherever the latter picked a finite candidate. -/
theorem topk_stable_fin {m ε : Rat} (hε : 0 ≤ ε) (hm : ε + ε ≤ m) {c c' : List Score} {K : Nat}
    {inds inds' : List Nat} (hcl : CandsClose ε c c') (h : IsTopK c K inds)
    (h' : IsTopK c' K inds') (hsep : sepB m c inds = true) :
    ∀ (k i : Nat), inds[k]? = some i → c.getD i none ≠ none → inds'[k]? = some i := by
  intro k
  induction k using Nat.strongRecOn with
  | _ k ih =>
    intro i hki hf
    obtain ⟨hklt, hik⟩ := List.getElem?_eq_some_iff.mp hki
    have hi : i ∈ inds := List.mem_of_getElem? hki
    have hilt : i < c.length := h.bound i hi
    have hsorted := List.pairwise_iff_getElem.mp h.sorted
    have hsorted' := List.pairwise_iff_getElem.mp h'.sorted
    have hK : k < K := by rw [← h.length]; exact hklt
    have hklt' : k < inds'.length := by rw [h'.length]; exact hK
    -- earlier positions agree
    have hearly : ∀ k0, k0 < k → ∀ (hk0 : k0 < inds.length) (hk0' : k0 < inds'.length),
        inds'[k0] = inds[k0] := by
      intro k0 hk0k hk0 hk0'
      have hle := hsorted k0 k hk0 hklt hk0k
      rw [hik] at hle
      have hf0 : c.getD inds[k0] none ≠ none := Score.le_finite hle hf
      have := ih k0 hk0k inds[k0] (List.getElem?_eq_getElem hk0) hf0
      exact (List.getElem?_eq_some_iff.mp this).2
    have hpos := fun {j} (hj : j < c.length) (hji : j ≠ i) =>
      sel_position hε hm hcl h hsep hki hf hj hji
    -- (a) `i` is selected in the perturbed vector
    have himem : i ∈ inds' := by
      apply Classical.byContradiction
      intro hni
      have hsub : inds' ⊆ inds.take k := by
        intro j' hj'
        have hj'lt : j' < c.length := by rw [hcl.1]; exact h'.bound j' hj'
        have hne : j' ≠ i := fun e => hni (e ▸ hj')
        have hmax := h'.maximal j' hj' i (by rw [← hcl.1]; exact hilt) hni
        apply Classical.byContradiction
        intro hnot
        rw [(hpos hj'lt hne).2 hnot] at hmax
        cases hmax
      have := List.Nodup.length_le_of_subset h'.nodup hsub
      rw [h'.length, List.length_take] at this
      omega
    obtain ⟨mm, hmm, himm⟩ := List.getElem_of_mem himem
    -- (b) its position is `k`
    have hmk : mm = k := by
      rcases Nat.lt_trichotomy mm k with hlt | heq | hgt
      · exfalso
        have e1 := hearly mm hlt (by omega) hmm
        rw [himm] at e1
        have := (List.getElem_inj h.nodup).mp
          (e1.symm.trans hik.symm)
        omega
      · exact heq
      · exfalso
        -- the element at position `k` of `inds'` is above `i`, hence among the earlier ones
        have hle := hsorted' k mm hklt' hmm hgt
        rw [himm] at hle
        have hne : inds'[k] ≠ i := by
          intro e
          have := (List.getElem_inj h'.nodup).mp
            (e.trans himm.symm)
          omega
        have hjlt : inds'[k] < c.length := by
          rw [hcl.1]; exact h'.bound _ (List.getElem_mem hklt')
        have hin : inds'[k] ∈ inds.take k := by
          apply Classical.byContradiction
          intro hnot
          rw [(hpos hjlt hne).2 hnot] at hle
          cases hle
        obtain ⟨k0, hk0, hjk0⟩ := List.mem_take_iff_getElem.mp hin
        have hk0k : k0 < k := by omega
        have e1 := hearly k0 hk0k (by omega) (by omega)
        have := (List.getElem_inj h'.nodup).mp
          (e1.trans hjk0)
        omega
    subst hmk
    rw [List.getElem?_eq_getElem hmm, himm]

/-- Where the exact selection had to take a `-inf` candidate, so has the perturbed one. -/
theorem topk_stable_none {m ε : Rat} (hε : 0 ≤ ε) (hm : ε + ε ≤ m) {c c' : List Score} {K : Nat}
    {inds inds' : List Nat} (hcl : CandsClose ε c c') (h : IsTopK c K inds)
    (h' : IsTopK c' K inds') (hsep : sepB m c inds = true) :
    ∀ (k i i' : Nat), inds[k]? = some i → inds'[k]? = some i' → c.getD i none = none →
      c'.getD i' none = none := by
  intro k i i' hki hki' hnone
  apply Classical.byContradiction
  intro hfin'
  have hi : i ∈ inds := List.mem_of_getElem? hki
  have hi' : i' ∈ inds' := List.mem_of_getElem? hki'
  have hi'lt : i' < c.length := by rw [hcl.1]; exact h'.bound i' hi'
  have hfin : c.getD i' none ≠ none := fun e => hfin' ((hcl.2 i').none_iff.mp e)
  -- a finite candidate cannot be left out when a `-inf` one is taken
  have hin : i' ∈ inds := by
    apply Classical.byContradiction
    intro hnot
    have := h.maximal i hi i' hi'lt hnot
    rw [hnone] at this
    exact hfin (by
      cases hc : c.getD i' none with
      | none => rfl
      | some x => rw [hc] at this; simp [Score.le] at this)
  obtain ⟨k0, hk0, hik0⟩ := List.getElem_of_mem hin
  have := topk_stable_fin hε hm hcl h h' hsep k0 i' (by rw [List.getElem?_eq_getElem hk0, hik0]) hfin
  obtain ⟨hk0', e0⟩ := List.getElem?_eq_some_iff.mp this
  obtain ⟨hk', e1⟩ := List.getElem?_eq_some_iff.mp hki'
  have hkk := (List.getElem_inj h'.nodup).mp (e0.trans e1.symm)
  subst hkk
  obtain ⟨hk, e2⟩ := List.getElem?_eq_some_iff.mp hki
  rw [← hik0] at hfin
  rw [← e2] at hnone
  exact hfin hnone

/-! ## Part 3 — `chain` under a perturbation of the rows -/

/-- Entrywise closeness of two families of score rows (the same tokens impossible). -/
def SpecClose (ε : Rat) (spec spec' : List Int → List Score) : Prop :=
  ∀ h (v : Nat), Score.Close ε ((spec h).getD v none) ((spec' h).getD v none)

/-- `n · ε`, the error `n` perturbed rows can add up to. -/
def accErr (ε : Rat) : Nat → Rat
  | 0 => 0
  | n + 1 => accErr ε n + ε

theorem accErr_nonneg {ε : Rat} (hε : 0 ≤ ε) (n : Nat) : 0 ≤ accErr ε n := by
  induction n with
  | zero => simp [accErr]
  | succ n ih => simp only [accErr]; grind

theorem accErr_mono {ε : Rat} (hε : 0 ≤ ε) {a b : Nat} (h : a ≤ b) : accErr ε a ≤ accErr ε b := by
  induction h with
  | refl => exact Rat.le_refl
  | step _ ih => simp only [accErr]; grind

theorem tokScore_close {ε : Rat} {spec spec' : List Int → List Score} (h : SpecClose ε spec spec')
    (pre : List Int) (v : Int) :
    Score.Close ε (tokScore (spec pre) v) (tokScore (spec' pre) v) := by
  unfold tokScore
  split
  · trivial
  · exact h pre v.toNat

theorem chainFrom_close {ε : Rat} {spec spec' : List Int → List Score}
    (h : SpecClose ε spec spec') (rest : List Int) :
    ∀ (pre : List Int) (acc acc' : Score) (a : Rat), Score.Close a acc acc' →
      Score.Close (a + accErr ε rest.length) (chainFrom spec pre acc rest)
        (chainFrom spec' pre acc' rest) := by
  induction rest with
  | nil =>
    intro pre acc acc' a hc
    simp only [chainFrom, List.length_nil, accErr]
    exact hc.mono (by grind)
  | cons v rest ih =>
    intro pre acc acc' a hc
    simp only [chainFrom, List.length_cons, accErr]
    exact (ih (pre ++ [v]) _ _ (a + ε) (hc.add (tokScore_close h pre v))).mono (by grind)

/-- The chained scores of one token sequence under the two families are `len · ε` close. -/
theorem chain_close {ε : Rat} {spec spec' : List Int → List Score} (h : SpecClose ε spec spec')
    (p : List Int) : Score.Close (accErr ε p.length) (chain spec p) (chain spec' p) := by
  have := chainFrom_close h p [] (some 0) (some 0) 0 (Score.Close.rfl' _)
  exact this.mono (by grind)

/-! ## Part 4 — what two beams show -/

/-- Slot by slot: both unusable (`-inf`), or both usable and holding the same path. -/
def SlotsSame (a b : List Slot) : Prop :=
  a.length = b.length ∧ ∀ (k : Nat) (s s' : Slot), a[k]? = some s → b[k]? = some s' →
    (s.score = none ↔ s'.score = none) ∧ (s.score ≠ none → s.path = s'.path)

/-- The last token of a path is eos. -/
def pathEndsEos (eos : Option Int) (p : List Int) : Bool :=
  match eos with
  | none => false
  | some e => decide (0 < p.length) && (p[p.length - 1]? == some e)

theorem lastIsEos_eq_path {eos : Option Int} {s : Slot} (h : s.len ≤ s.col.length) :
    lastIsEos eos s = pathEndsEos eos s.path := by
  unfold lastIsEos pathEndsEos
  cases eos with
  | none => rfl
  | some e =>
    simp only [Slot.path_length h]
    by_cases h0 : 0 < s.len
    · have : s.path[s.len - 1]? = s.col[s.len - 1]? := by
        rw [Slot.path, List.getElem?_take]; simp; omega
      rw [this]
    · simp [h0]

theorem isEnded_congr {eos : Option Int} (t : Nat) {s s' : Slot} (h : s.len ≤ s.col.length)
    (h' : s'.len ≤ s'.col.length) (hp : s.path = s'.path) :
    isEnded eos t s = isEnded eos t s' := by
  unfold isEnded
  rw [lastIsEos_eq_path h, lastIsEos_eq_path h', hp]

theorem all_congr_idx {α β} (f : α → Bool) (g : β → Bool) :
    ∀ (a : List α) (b : List β), a.length = b.length →
      (∀ (k : Nat) x y, a[k]? = some x → b[k]? = some y → f x = g y) → a.all f = b.all g := by
  intro a
  induction a with
  | nil => intro b hl _; cases b <;> simp_all
  | cons x a ih =>
    intro b hl h
    cases b with
    | nil => simp at hl
    | cons y b =>
      simp only [List.all_cons]
      rw [h 0 x y rfl rfl, ih b (by simpa using hl) (fun k x y hx hy => h (k + 1) x y hx hy)]

variable {σ σ' : Type}

/-- Two elements that show the same are finished, or not, together. -/
theorem elemDone_congr {cfg : Cfg} (hrule : cfg.waitNegInf = false) (t : Nat) {e : Elem σ}
    {e' : Elem σ'} (hs : SlotsSame e.slots e'.slots)
    (hle : ∀ s ∈ e.slots, s.len ≤ s.col.length) (hle' : ∀ s ∈ e'.slots, s.len ≤ s.col.length)
    (hhead : cfg.finishAll = false → HeadFin e.slots) :
    elemDone cfg t e = elemDone cfg t e' := by
  unfold elemDone
  cases heos : cfg.eos with
  | none => rfl
  | some eo =>
    simp only
    by_cases ht : t = 0
    · simp [ht]
    · have ht' : (t == 0) = false := by simpa using ht
      simp only [ht', Bool.false_eq_true, if_false]
      cases hfa : cfg.finishAll with
      | true =>
        simp only [if_true, hrule, Bool.not_false, Bool.true_and]
        apply all_congr_idx _ _ _ _ hs.1
        intro k x y hx hy
        obtain ⟨hiff, hpath⟩ := hs.2 k x y hx hy
        cases hsc : x.score with
        | none =>
          have : y.score = none := hiff.mp hsc
          simp [this]
        | some q =>
          have hxf : x.score ≠ none := by rw [hsc]; simp
          have hyf : y.score ≠ none := fun h => hxf (hiff.mpr h)
          have hy' : y.score.isNone = false := by
            cases hq : y.score with
            | none => exact absurd hq hyf
            | some _ => rfl
          rw [hy', isEnded_congr t (hle x (List.mem_of_getElem? hx)) (hle' y (List.mem_of_getElem? hy))
            (hpath hxf)]
          simp
      | false =>
        simp only [Bool.false_eq_true, if_false]
        obtain ⟨s0, hs0, hf0⟩ := hhead hfa
        have hne : e'.slots ≠ [] := by
          intro h0
          have : e.slots.length = 0 := by rw [hs.1, h0]; rfl
          rw [List.length_eq_zero_iff] at this
          rw [this] at hs0; simp at hs0
        obtain ⟨s0', hs0'⟩ : ∃ s0', e'.slots.head? = some s0' := by
          cases h : e'.slots with
          | nil => exact absurd h hne
          | cons a l => exact ⟨a, rfl⟩
        have h0 : e.slots[0]? = some s0 := by rw [← List.head?_eq_getElem?]; exact hs0
        have h0' : e'.slots[0]? = some s0' := by rw [← List.head?_eq_getElem?]; exact hs0'
        obtain ⟨-, hpath⟩ := hs.2 0 s0 s0' h0 h0'
        rw [hs0, hs0']
        simp only [Option.map_some, Option.getD_some]
        exact isEnded_congr t (hle s0 (List.mem_of_getElem? h0)) (hle' s0' (List.mem_of_getElem? h0'))
          (hpath hf0)

/-! ## Part 5 — one step of a live element -/

theorem slot_len_eq {s s' : Slot} (h : s.len ≤ s.col.length) (h' : s'.len ≤ s'.col.length)
    (hp : s.path = s'.path) : s.len = s'.len := by
  rw [← Slot.path_length h, ← Slot.path_length h', hp]

theorem rowOf_ended {cfg : Cfg} (lm : LM σ) {t : Nat} {p : Slot} (st : σ) {eo : Int}
    (heos : cfg.eos = some eo) (hend : isEnded cfg.eos t p = true) :
    (rowOf cfg lm t p st).1 = eosRow cfg.V eo := by
  unfold rowOf
  simp only [heos]
  rw [heos] at hend
  simp [hend]

/-- The two candidate vectors are `(t + 1) · ε` close. -/
theorem cands_close {ε : Rat} (hε : 0 ≤ ε) {cfg : Cfg} {lm : LM σ} {lm' : LM σ'}
    {spec spec' : List Int → List Score} {Rep : List Int → σ → Prop} {Rep' : List Int → σ' → Prop}
    (hlm : LMOK cfg.V lm spec Rep) (hlm' : LMOK cfg.V lm' spec' Rep')
    (hsp : SpecClose ε spec spec') {t : Nat} {e : Elem σ} {e' : Elem σ'}
    (hlen : e.slots.length = e.sts.length) (hlen' : e'.slots.length = e'.sts.length)
    (hst : Static cfg spec t e.slots) (hst' : Static cfg spec' t e'.slots)
    (hlv : Live cfg Rep t e) (hlv' : Live cfg Rep' t e') (hs : SlotsSame e.slots e'.slots) :
    CandsClose (accErr ε (t + 1)) (candsOf cfg lm t e) (candsOf cfg lm' t e') := by
  have hcl := candsOf_length hlm t e hlen
  have hcl' := candsOf_length hlm' t e' hlen'
  refine ⟨by rw [hcl, hcl', hs.1], ?_⟩
  intro i
  by_cases hi : i < e.slots.length * cfg.V
  · obtain ⟨k, v, hk, hv, rfl⟩ := ind_decomp hi
    have hk' : k < e'.slots.length := by rw [← hs.1]; exact hk
    have hp : e.slots[k]? = some e.slots[k] := List.getElem?_eq_getElem hk
    have hp' : e'.slots[k]? = some e'.slots[k] := List.getElem?_eq_getElem hk'
    have hsk : e.sts[k]? = some (e.sts[k]'(by omega)) := List.getElem?_eq_getElem (by omega)
    have hsk' : e'.sts[k]? = some (e'.sts[k]'(by omega)) := List.getElem?_eq_getElem (by omega)
    generalize e.slots[k] = p at hp
    generalize e'.slots[k] = p' at hp'
    generalize e.sts[k]'(by omega) = st at hsk
    generalize e'.sts[k]'(by omega) = st' at hsk'
    rw [cands_get hlm t e hv hp hsk, cands_get hlm' t e' hv hp' hsk']
    obtain ⟨hiff, hpath⟩ := hs.2 k p p' hp hp'
    have hpm : p ∈ e.slots := List.mem_of_getElem? hp
    have hpm' : p' ∈ e'.slots := List.mem_of_getElem? hp'
    cases hsc : p.score with
    | none =>
      rw [hiff.mp hsc]
      simp [Score.add, Score.Close]
    | some q =>
      have hf : p.score ≠ none := by rw [hsc]; simp
      have hf' : p'.score ≠ none := fun h => hf (hiff.mpr h)
      rw [← hsc]
      have hpp := hpath hf
      have hle : p.len ≤ p.col.length := by rw [hst.colLen p hpm]; exact hst.lenLe p hpm
      have hle' : p'.len ≤ p'.col.length := by rw [hst'.colLen p' hpm']; exact hst'.lenLe p' hpm'
      obtain ⟨hpt, hpl⟩ := hlv k p st hp hsk hf
      obtain ⟨hpt', hpl'⟩ := hlv' k p' st' hp' hsk' hf'
      -- the prefixes' scores
      have hscore : Score.Close (accErr ε t) p.score p'.score := by
        rw [(hst.ok p hpm hf).score, (hst'.ok p' hpm' hf').score, ← hpp]
        refine (chain_close hsp p.path).mono (accErr_mono hε ?_)
        rw [Slot.path_length hle]; exact hpt
      have hend := isEnded_congr (eos := cfg.eos) t hle hle' hpp
      cases he : isEnded cfg.eos t p with
      | true =>
        cases heos : cfg.eos with
        | none => simp [isEnded, lastIsEos, heos] at he
        | some eo =>
          rw [rowOf_ended lm st heos he, rowOf_ended lm' st' heos (by rw [← hend]; exact he)]
          have := hscore.add (Score.Close.rfl' ((eosRow cfg.V eo).getD v none))
          exact this.mono (by simp only [accErr]; grind)
      | false =>
        have he' : isEnded cfg.eos t p' = false := by rw [← hend]; exact he
        obtain ⟨hl, hrep⟩ := hpl (isEnded_false_lastIsEos hpt he)
        obtain ⟨hl', hrep'⟩ := hpl' (isEnded_false_lastIsEos hpt' he')
        rw [rowOf_live hlm hst hpm hf he hl hrep, rowOf_live hlm' hst' hpm' hf' he' hl' hrep', ← hpp]
        exact hscore.add (hsp p.path v)
  · have h1 : (candsOf cfg lm t e).getD i none = none := by
      rw [List.getD_eq_getElem?_getD, List.getElem?_eq_none (by omega)]; rfl
    have h2 : (candsOf cfg lm' t e').getD i none = none := by
      rw [List.getD_eq_getElem?_getD, List.getElem?_eq_none (by rw [hcl', ← hs.1]; omega)]; rfl
    rw [h1, h2]; trivial

theorem getElem?_map_append_left {α β} {f : α → β} {l : List α} {r : List β} {k : Nat} {a : α}
    (h : l[k]? = some a) : (l.map f ++ r)[k]? = some (f a) := by
  have hk : k < l.length := (List.getElem?_eq_some_iff.mp h).1
  rw [List.getElem?_append_left (by simpa using hk), List.getElem?_map, h]; rfl

/-- **One step**: two live elements that show the same, extended and pruned by two different
`topk`s on candidate vectors `(t + 1) ε` close, still show the same - provided the selection of
the first is decided by a margin of more than `2 (t + 1) ε`. -/
theorem stepElem_same {m ε : Rat} (hε : 0 ≤ ε) {cfg : Cfg} {lm : LM σ} {lm' : LM σ'}
    {spec spec' : List Int → List Score} {Rep : List Int → σ → Prop} {Rep' : List Int → σ' → Prop}
    {sel sel' : Sel} (hsel : SelOK sel) (hsel' : SelOK sel')
    (hlm : LMOK cfg.V lm spec Rep) (hlm' : LMOK cfg.V lm' spec' Rep')
    (hsp : SpecClose ε spec spec') {t : Nat} (hm : accErr ε (t + 1) + accErr ε (t + 1) ≤ m)
    {e : Elem σ} {e' : Elem σ'}
    (hlen : e.slots.length = e.sts.length) (hlen' : e'.slots.length = e'.sts.length)
    (hst : Static cfg spec t e.slots) (hst' : Static cfg spec' t e'.slots)
    (hlv : Live cfg Rep t e) (hlv' : Live cfg Rep' t e') (hs : SlotsSame e.slots e'.slots)
    (hsep : sepB m (candsOf cfg lm t e) (sel (candsOf cfg lm t e) (kOf cfg e)) = true) :
    SlotsSame (stepElem sel cfg lm t t true e).1 (stepElem sel' cfg lm' t t true e').1 := by
  rw [stepElem_eq, stepElem_eq]
  simp only
  have hK : kOf cfg e' = kOf cfg e := by unfold kOf; rw [hs.1]
  have hcl := candsOf_length hlm t e hlen
  have hcl' := candsOf_length hlm' t e' hlen'
  have hcc := cands_close hε hlm hlm' hsp hlen hlen' hst hst' hlv hlv' hs
  have hKle : kOf cfg e ≤ (candsOf cfg lm t e).length := by rw [hcl]; exact Nat.min_le_right _ _
  have hKle' : kOf cfg e ≤ (candsOf cfg lm' t e').length := by
    rw [hcl', ← hs.1]; exact Nat.min_le_right _ _
  have htop := hsel (candsOf cfg lm t e) (kOf cfg e) hKle
  have htop' := hsel' (candsOf cfg lm' t e') (kOf cfg e) hKle'
  rw [hK]
  generalize sel (candsOf cfg lm t e) (kOf cfg e) = inds at htop hsep
  generalize sel' (candsOf cfg lm' t e') (kOf cfg e) = inds' at htop'
  have hε1 : 0 ≤ accErr ε (t + 1) := accErr_nonneg hε _
  have hfin := topk_stable_fin hε1 hm hcc htop htop' hsep
  have hnone := topk_stable_none hε1 hm hcc htop htop' hsep
  have hg : ∀ s ∈ e.slots, s.len = t → true = true := fun _ _ _ => rfl
  have hg' : ∀ s ∈ e'.slots, s.len = t → true = true := fun _ _ _ => rfl
  refine ⟨by simp [htop.length, htop'.length], ?_⟩
  intro k s s' hk hk'
  by_cases hkK : k < kOf cfg e
  · have hkl : k < inds.length := by rw [htop.length]; exact hkK
    have hkl' : k < inds'.length := by rw [htop'.length]; exact hkK
    have hki : inds[k]? = some inds[k] := List.getElem?_eq_getElem hkl
    have hki' : inds'[k]? = some inds'[k] := List.getElem?_eq_getElem hkl'
    generalize inds[k] = ind at hki
    generalize inds'[k] = ind' at hki'
    rw [getElem?_map_append_left hki] at hk
    rw [getElem?_map_append_left hki'] at hk'
    simp only [Option.some.injEq] at hk hk'
    subst hk hk'
    have hb := htop.bound ind (List.mem_of_getElem? hki)
    rw [hcl] at hb
    obtain ⟨a, v, ha, hv, rfl⟩ := ind_decomp hb
    have hb' := htop'.bound ind' (List.mem_of_getElem? hki')
    rw [hcl'] at hb'
    obtain ⟨a', v', ha', hv', rfl⟩ := ind_decomp hb'
    have hp : e.slots[a]? = some e.slots[a] := List.getElem?_eq_getElem ha
    have hsk : e.sts[a]? = some (e.sts[a]'(by omega)) := List.getElem?_eq_getElem (by omega)
    have hp2 : e'.slots[a']? = some e'.slots[a'] := List.getElem?_eq_getElem ha'
    have hsk2 : e'.sts[a']? = some (e'.sts[a']'(by omega)) := List.getElem?_eq_getElem (by omega)
    obtain ⟨-, -, sc1, rest1⟩ := newSlot_spec hlm hst hlv hg hv hp hsk
    obtain ⟨-, -, sc2, -⟩ := newSlot_spec hlm' hst' hlv' hg' hv' hp2 hsk2
    cases hc : (candsOf cfg lm t e).getD (a * cfg.V + v) none with
    | none =>
      have h2 := hnone k _ _ hki hki' hc
      rw [sc1, sc2, hc, h2]
      exact ⟨Iff.rfl, fun h => absurd rfl h⟩
    | some q =>
      have hf : (candsOf cfg lm t e).getD (a * cfg.V + v) none ≠ none := by rw [hc]; simp
      have heq := hfin k _ hki hf
      rw [hki'] at heq
      simp only [Option.some.injEq] at heq
      -- the perturbed selection took the same candidate: same source slot, same token
      have hav : a' = a ∧ v' = v := by
        have h1 := flat_div a' v' hv'
        have h2 := flat_mod a' v' hv'
        rw [heq, flat_div a v hv] at h1
        rw [heq, flat_mod a v hv] at h2
        exact ⟨h1.symm, h2.symm⟩
      obtain ⟨rfl, rfl⟩ := hav
      obtain ⟨-, -, sc2, rest2⟩ := newSlot_spec hlm' hst' hlv' hg' hv hp2 hsk2
      have hf2 : (candsOf cfg lm' t e').getD (a' * cfg.V + v') none ≠ none :=
        fun h => hf ((hcc.2 _).none_iff.mpr h)
      have hs1 : (newSlot cfg t t true e.slots (candsOf cfg lm t e) (a' * cfg.V + v')).score ≠ none := by
        rw [sc1]; exact hf
      have hs2 : (newSlot cfg t t true e'.slots (candsOf cfg lm' t e') (a' * cfg.V + v')).score ≠ none := by
        rw [sc2]; exact hf2
      refine ⟨⟨fun h => absurd h hs1, fun h => absurd h hs2⟩, fun _ => ?_⟩
      obtain ⟨hpf, -, c1⟩ := rest1 hs1
      obtain ⟨hpf', -, c2⟩ := rest2 hs2
      have hpp := (hs.2 a' _ _ hp hp2).2 hpf
      have hpm : e.slots[a'] ∈ e.slots := List.getElem_mem ha
      have hpm' : e'.slots[a'] ∈ e'.slots := List.getElem_mem ha'
      have hend := isEnded_congr (eos := cfg.eos) t
        (by rw [hst.colLen _ hpm]; exact hst.lenLe _ hpm)
        (by rw [hst'.colLen _ hpm']; exact hst'.lenLe _ hpm') hpp
      rcases c1 with ⟨e1, p1, -⟩ | ⟨e1, p1, -⟩ <;> rcases c2 with ⟨e2, p2, -⟩ | ⟨e2, p2, -⟩
      · rw [p1, p2, hpp]
      · rw [hend, e2] at e1; cases e1
      · rw [hend, e2] at e1; cases e1
      · rw [p1, p2, hpp]
  · have hk1 : (inds.map (newSlot cfg t t true e.slots (candsOf cfg lm t e))).length ≤ k := by
      simp [htop.length]; omega
    have hk2 : (inds'.map (newSlot cfg t t true e'.slots (candsOf cfg lm' t e'))).length ≤ k := by
      simp [htop'.length]; omega
    rw [List.getElem?_append_right hk1] at hk
    rw [List.getElem?_append_right hk2] at hk'
    obtain ⟨-, rfl⟩ := List.mem_replicate.mp (List.mem_of_getElem? hk)
    obtain ⟨-, rfl⟩ := List.mem_replicate.mp (List.mem_of_getElem? hk')
    exact ⟨Iff.rfl, fun h => absurd rfl h⟩

/-! ## Part 6 — the run -/

theorem slotsSame_freeze {a b : List Slot} (pad : Int) (h : SlotsSame a b)
    (hle : ∀ s ∈ a, s.len ≤ s.col.length) (hle' : ∀ s ∈ b, s.len ≤ s.col.length) :
    SlotsSame (a.map (freeze pad)) (b.map (freeze pad)) := by
  refine ⟨by simp [h.1], ?_⟩
  intro k s s' hk hk'
  rw [List.getElem?_map] at hk hk'
  cases ha : a[k]? with
  | none => rw [ha] at hk; cases hk
  | some x =>
    cases hb : b[k]? with
    | none => rw [hb] at hk'; cases hk'
    | some y =>
      rw [ha] at hk; rw [hb] at hk'
      simp only [Option.map_some, Option.some.injEq] at hk hk'
      subst hk hk'
      obtain ⟨h1, h2⟩ := h.2 k x y ha hb
      rw [freeze_path (hle x (List.mem_of_getElem? ha)), freeze_path (hle' y (List.mem_of_getElem? hb))]
      exact ⟨h1, h2⟩

/-- One step of the per-element run (`nextElem`: extension of a live element, freezing of a
finished one) keeps two runs showing the same. -/
theorem nextElem_same {m ε : Rat} (hε : 0 ≤ ε) {cfg : Cfg} {lm : LM σ} {lm' : LM σ'}
    {spec spec' : List Int → List Score} {Rep : List Int → σ → Prop} {Rep' : List Int → σ' → Prop}
    {sel sel' : Sel} (hsel : SelOK sel) (hsel' : SelOK sel')
    (hlm : LMOK cfg.V lm spec Rep) (hlm' : LMOK cfg.V lm' spec' Rep')
    (hsp : SpecClose ε spec spec') (hrule : cfg.waitNegInf = false) (dflt : σ) (dflt' : σ')
    {t Kp : Nat} (hm : accErr ε (t + 1) + accErr ε (t + 1) ≤ m) {e : Elem σ} {e' : Elem σ'}
    (hinv : RInv cfg (fun _ : Unit => spec) (fun _ => Rep) t Kp [e])
    (hinv' : RInv cfg (fun _ : Unit => spec') (fun _ => Rep') t Kp [e'])
    (hs : SlotsSame e.slots e'.slots)
    (hsep : elemDone cfg t e = false →
      sepB m (candsOf cfg lm t e) (sel (candsOf cfg lm t e) (kOf cfg e)) = true) :
    elemDone cfg t e = elemDone cfg t e' ∧
    SlotsSame (nextElem sel cfg lm dflt t e).slots (nextElem sel' cfg lm' dflt' t e').slots := by
  obtain ⟨-, hsl, hstl, hstat, hlive⟩ := hinv.elem e (by simp)
  obtain ⟨-, hsl', hstl', hstat', hlive'⟩ := hinv'.elem e' (by simp)
  have hle : ∀ s ∈ e.slots, s.len ≤ s.col.length := fun s hs => by
    rw [hstat.colLen s hs]; exact hstat.lenLe s hs
  have hle' : ∀ s ∈ e'.slots, s.len ≤ s.col.length := fun s hs => by
    rw [hstat'.colLen s hs]; exact hstat'.lenLe s hs
  have hd : elemDone cfg t e = elemDone cfg t e' := by
    apply elemDone_congr hrule t hs hle hle'
    intro hfa
    exact hinv.head (fun hW => by rw [hW.2] at hfa; cases hfa) e (by simp)
  refine ⟨hd, ?_⟩
  cases hde : elemDone cfg t e with
  | true =>
    have hde' : elemDone cfg t e' = true := by rw [← hd]; exact hde
    have ht0 : t ≠ 0 := done_ne_zero hde
    have hKw : Kp = cfg.width := by
      rcases hinv.shape with ⟨h, -⟩ | ⟨-, h⟩
      · exact absurd h ht0
      · exact h
    have htw : toWidth sel cfg.width t e.slots = e.slots := by simp [toWidth, hsl, hKw]
    have htw' : toWidth sel' cfg.width t e'.slots = e'.slots := by simp [toWidth, hsl', hKw]
    simp only [nextElem, hde, hde', if_true, htw, htw']
    exact slotsSame_freeze cfg.pad hs hle hle'
  | false =>
    have hde' : elemDone cfg t e' = false := by rw [← hd]; exact hde
    simp only [nextElem, hde, hde', Bool.false_eq_true, if_false]
    exact stepElem_same hε hsel hsel' hlm hlm' hsp hm (by omega) (by omega) hstat hstat'
      (hlive hde) (hlive' hde') hs (hsep hde)

/-- Every selection the (first) run makes from element `e` on is decided by a margin of more
than `m t` (executable; `m t` is the margin demanded at step `t`). -/
def tieFree (m : Nat → Rat) (sel : Sel) (cfg : Cfg) (lm : LM σ) (dflt : σ) :
    Nat → Nat → Elem σ → Bool
  | 0, _, _ => true
  | fuel + 1, t, e =>
    if cfg.eos.isSome && t != 0 && elemDone cfg t e then true
    else sepB (m t) (candsOf cfg lm t e) (sel (candsOf cfg lm t e) (kOf cfg e)) &&
      tieFree m sel cfg lm dflt fuel (t + 1) (nextElem sel cfg lm dflt t e)

theorem specLive_of_close {ε : Rat} {V : Nat} {spec spec' : List Int → List Score}
    (h : SpecClose ε spec spec') (hL : SpecLive V spec) : SpecLive V spec' := by
  intro hh
  obtain ⟨v, hv, hf⟩ := hL hh
  exact ⟨v, hv, fun hn => hf ((h hh v).none_iff.mpr hn)⟩

/-- The per-element runs show the same at the end. -/
theorem runElem_same {ε : Rat} (hε : 0 ≤ ε) {m : Nat → Rat}
    (hm : ∀ t, accErr ε (t + 1) + accErr ε (t + 1) ≤ m t) {cfg : Cfg} {lm : LM σ} {lm' : LM σ'}
    {spec spec' : List Int → List Score} {Rep : List Int → σ → Prop} {Rep' : List Int → σ' → Prop}
    {sel sel' : Sel} (hsel : SelOK sel) (hsel' : SelOK sel')
    (hlm : LMOK cfg.V lm spec Rep) (hlm' : LMOK cfg.V lm' spec' Rep')
    (hsp : SpecClose ε spec spec') (hV : 0 < cfg.V) (hw : 0 < cfg.width)
    (hrule : cfg.waitNegInf = false) (hL : Waits cfg ∨ SpecLive cfg.V spec) (dflt : σ) (dflt' : σ')
    (fuel : Nat) {t Kp : Nat} {e : Elem σ} {e' : Elem σ'}
    (hinv : RInv cfg (fun _ : Unit => spec) (fun _ => Rep) t Kp [e])
    (hinv' : RInv cfg (fun _ : Unit => spec') (fun _ => Rep') t Kp [e'])
    (hs : SlotsSame e.slots e'.slots)
    (htf : tieFree m sel cfg lm dflt fuel t e = true) :
    SlotsSame (runElem sel cfg lm dflt fuel t e).slots (runElem sel' cfg lm' dflt' fuel t e').slots := by
  induction fuel generalizing t Kp e e' with
  | zero => exact hs
  | succ fuel ih =>
    rw [tieFree] at htf
    have hsep : elemDone cfg t e = false →
        sepB (m t) (candsOf cfg lm t e) (sel (candsOf cfg lm t e) (kOf cfg e)) = true := by
      intro hnd
      simp only [hnd, Bool.and_false, Bool.false_eq_true, if_false, Bool.and_eq_true] at htf
      exact htf.1
    obtain ⟨hd, hnext⟩ := nextElem_same hε hsel hsel' hlm hlm' hsp hrule dflt dflt' (hm t) hinv hinv'
      hs hsep
    rw [runElem, runElem, ← hd]
    split
    · exact hs
    · rename_i hcnd
      have hex := exists_live (cfg := cfg) (t := t) (elems := [e]) (by simp)
        (by rw [allDone_singleton]; simpa using hcnd)
      have hex' : ∃ x ∈ [e'], elemDone cfg t x = false := by
        obtain ⟨e1, he1, hnd⟩ := hex
        simp only [List.mem_singleton] at he1
        subst he1
        exact ⟨e', by simp, by rw [← hd]; exact hnd⟩
      have hi1 := nextElems_rinv hsel (fun _ => hlm) hV hw dflt hrule
        (hL.imp id fun h _ => h) hinv hex
      have hi2 := nextElems_rinv hsel' (fun _ => hlm') hV hw dflt' hrule
        (hL.imp id fun h _ => specLive_of_close hsp h) hinv' hex'
      simp only [List.map_cons, List.map_nil] at hi1 hi2
      have htf' : tieFree m sel cfg lm dflt fuel (t + 1) (nextElem sel cfg lm dflt t e) = true := by
        simp only [hcnd, Bool.false_eq_true, if_false, Bool.and_eq_true] at htf
        exact htf.2
      exact ih hi1 hi2 hnext htf'

theorem slotsSame_toWidth {a b : List Slot} (sel sel' : Sel) (w S S' : Nat) (h : SlotsSame a b)
    (hle : a.length ≤ w) : SlotsSame (toWidth sel w S a) (toWidth sel' w S' b) := by
  unfold toWidth
  rw [← h.1]
  split
  · refine ⟨by simp [h.1], ?_⟩
    intro k s s' hk hk'
    by_cases hka : k < a.length
    · rw [List.getElem?_append_left hka] at hk
      rw [List.getElem?_append_left (by rw [← h.1]; exact hka)] at hk'
      exact h.2 k s s' hk hk'
    · rw [List.getElem?_append_right (by omega)] at hk
      rw [List.getElem?_append_right (by rw [← h.1]; omega)] at hk'
      obtain ⟨-, rfl⟩ := List.mem_replicate.mp (List.mem_of_getElem? hk)
      obtain ⟨-, rfl⟩ := List.mem_replicate.mp (List.mem_of_getElem? hk')
      exact ⟨Iff.rfl, fun hh => absurd rfl hh⟩
  · split
    · omega
    · exact h

theorem initElem_same (s : σ) (s' : σ') : SlotsSame (initElem s).slots (initElem s').slots := by
  refine ⟨rfl, ?_⟩
  intro k x y hx hy
  simp only [initElem] at hx hy
  cases k with
  | zero =>
    simp only [List.getElem?_cons_zero, Option.some.injEq] at hx hy
    subst hx hy
    exact ⟨Iff.rfl, fun _ => rfl⟩
  | succ k => simp at hx

/-- **Skeleton stability for one element**: the two searches return a value, and the two beams
show the same paths slot by slot (both unusable, or both usable with the same counted tokens). -/
theorem search_single_stable {ε : Rat} (hε : 0 ≤ ε) {m : Nat → Rat}
    (hm : ∀ t, accErr ε (t + 1) + accErr ε (t + 1) ≤ m t) {cfg : Cfg} {lm : LM σ} {lm' : LM σ'}
    {spec spec' : List Int → List Score} {Rep : List Int → σ → Prop} {Rep' : List Int → σ' → Prop}
    {sel sel' : Sel} (hsel : SelOK sel) (hsel' : SelOK sel')
    (hlm : LMOK cfg.V lm spec Rep) (hlm' : LMOK cfg.V lm' spec' Rep')
    (hsp : SpecClose ε spec spec') (hV : 0 < cfg.V) (hw : 0 < cfg.width)
    (hrule : cfg.waitNegInf = false) (hL : Waits cfg ∨ SpecLive cfg.V spec) (dflt : σ) (dflt' : σ')
    {s : σ} {s' : σ'} (hinit : Rep [] s) (hinit' : Rep' [] s') (maxIters : Nat)
    (htf : tieFree m sel cfg lm dflt maxIters 0 (initElem s) = true) :
    ∃ beam beam', search sel cfg lm dflt [s] maxIters = .ok [beam] ∧
      search sel' cfg lm' dflt' [s'] maxIters = .ok [beam'] ∧ SlotsSame beam beam' := by
  have hinit1 : ∀ x ∈ [s], ∃ _i : Unit, Rep [] x := by
    intro x hx; simp at hx; subst hx; exact ⟨(), hinit⟩
  have hinit1' : ∀ x ∈ [s'], ∃ _i : Unit, Rep' [] x := by
    intro x hx; simp at hx; subst hx; exact ⟨(), hinit'⟩
  have hinv := init_rinv (cfg := cfg) (spec := fun _ : Unit => spec) (Rep := fun _ => Rep) hinit1
  have hinv' := init_rinv (cfg := cfg) (spec := fun _ : Unit => spec') (Rep := fun _ => Rep') hinit1'
  have hL1 : Waits cfg ∨ ∀ _i : Unit, SpecLive cfg.V spec := hL.imp id fun h _ => h
  have hL2 : Waits cfg ∨ ∀ _i : Unit, SpecLive cfg.V spec' :=
    hL.imp id fun h _ => specLive_of_close hsp h
  obtain ⟨t1, h3⟩ := loop_single hsel (fun _ => hlm) hV hw dflt hrule hL1 maxIters hinv
  obtain ⟨t1', h3'⟩ := loop_single hsel' (fun _ => hlm') hV hw dflt' hrule hL2 maxIters hinv'
  obtain ⟨t', Kp', elems', h1, h2, -, -, -⟩ :=
    loop_ok hsel (fun _ => hlm) hV hw dflt hrule hL1 maxIters hinv (by simp)
  simp only [List.map_cons, List.map_nil] at h3 h3' h1 hinv hinv'
  rw [h3] at h1
  simp only [Except.ok.injEq, Prod.mk.injEq] at h1
  obtain ⟨rfl, rfl⟩ := h1
  obtain ⟨-, hsl, -, -, -⟩ := h2.elem (runElem sel cfg lm dflt maxIters 0 (initElem s)) (by simp)
  have hle : (runElem sel cfg lm dflt maxIters 0 (initElem s)).slots.length ≤ cfg.width := by
    rcases h2.shape with ⟨-, h⟩ | ⟨-, h⟩ <;> omega
  have hsame := runElem_same hε hm hsel hsel' hlm hlm' hsp hV hw hrule hL dflt dflt' maxIters
    hinv hinv' (initElem_same s s') htf
  unfold search
  simp only [List.map_cons, List.map_nil]
  rw [h3, h3']
  exact ⟨_, _, rfl, rfl, slotsSame_toWidth sel sel' cfg.width t1 t1' hsame hle⟩

/-! ## Part 7 — a constant margin is enough (what the driver evaluates)

The driver evaluates `sepB m` with ONE margin `m` on every selection of the trajectory. `sepB` and
`tieFree` are monotone in the margin, so this implies the step-dependent hypothesis
`tieFree (margin ε)` of the stability theorems for every `ε` whose largest demanded margin
(`2 · maxIters · ε`, at the last step) does not exceed `m`. -/

theorem apart_mono {m m' : Rat} (h : m' ≤ m) {x y : Score} (ha : Score.apart m x y = true) :
    Score.apart m' x y = true := by
  cases x <;> cases y <;> simp_all [Score.apart]
  grind

theorem sepB_mono {m m' : Rat} (h : m' ≤ m) {c : List Score} {inds : List Nat}
    (hs : sepB m c inds = true) : sepB m' c inds = true := by
  unfold sepB at hs ⊢
  rw [List.all_eq_true] at hs ⊢
  intro i hi
  have h1 := hs i hi
  rw [Bool.or_eq_true] at h1 ⊢
  rcases h1 with h1 | h1
  · exact Or.inl h1
  · refine Or.inr ?_
    rw [List.all_eq_true] at h1 ⊢
    intro j hj
    have h2 := h1 j hj
    simp only [Bool.or_eq_true] at h2 ⊢
    rcases h2 with (h2 | h2) | h2
    · exact Or.inl (Or.inl h2)
    · exact Or.inl (Or.inr (apart_mono h h2))
    · exact Or.inr (apart_mono h h2)

theorem tieFree_mono {m m' : Nat → Rat} (sel : Sel) (cfg : Cfg) (lm : LM σ) (dflt : σ) (fuel : Nat) :
    ∀ (t : Nat) (e : Elem σ), (∀ t', t ≤ t' → t' < t + fuel → m' t' ≤ m t') →
      tieFree m sel cfg lm dflt fuel t e = true → tieFree m' sel cfg lm dflt fuel t e = true := by
  induction fuel with
  | zero => intro t e _ _; rfl
  | succ fuel ih =>
    intro t e hm h
    rw [tieFree] at h ⊢
    split
    · rfl
    · rename_i hc
      rw [if_neg hc] at h
      rw [Bool.and_eq_true] at h ⊢
      exact ⟨sepB_mono (hm t (Nat.le_refl _) (by omega)) h.1,
        ih (t + 1) _ (fun t' h1 h2 => hm t' (by omega) (by omega)) h.2⟩

/-! ## Part 8: the one-pass evaluation of `sepB` the driver uses -/

/-- Looking every position up (`getD`) or walking the list with its positions (`zipIdx`) is the same test. -/
theorem all_range_getD {α} (c : List α) (d : α) (f : Nat → α → Bool) :
    (List.range c.length).all (fun j => f j (c.getD j d)) = c.zipIdx.all (fun p => f p.2 p.1) := by
  rw [Bool.eq_iff_iff, List.all_eq_true, List.all_eq_true]
  constructor
  · intro h p hp
    obtain ⟨x, j⟩ := p
    have hx : c[j]? = some x := by simpa using (List.mem_zipIdx_iff_getElem? (l := c)).mp hp
    have hj : j < c.length := by
      rcases Nat.lt_or_ge j c.length with hj | hj
      · exact hj
      · rw [List.getElem?_eq_none hj] at hx; cases hx
    have := h j (List.mem_range.mpr hj)
    simpa [List.getD, hx] using this
  · intro h j hj
    have hj := List.mem_range.mp hj
    have hm : (c[j], j) ∈ c.zipIdx := (List.mem_zipIdx_iff_getElem? (l := c)).mpr (by simp [hj])
    have := h (c[j], j) hm
    simpa [List.getD, List.getElem?_eq_getElem hj] using this

/-- Outside `[v - m, v + m]` = more than `m` below or more than `m` above `v`. -/
theorem clear_eq_apart (m v : Rat) (x : Score) :
    Score.clear (v - m) (v + m) x = (Score.apart m (some v) x || Score.apart m x (some v)) := by
  cases x with
  | none => simp [Score.clear, Score.apart]
  | some y =>
    simp only [Score.clear, Score.apart]
    have h : (y < v - m) ↔ (y + m < v) := by constructor <;> intro h <;> grind
    simp [h]

/-- The driver's one-pass `sepFast` is `sepB`. -/
theorem sepFast_eq (m : Rat) (c : List Score) (inds : List Nat) : sepFast m c inds = sepB m c inds := by
  unfold sepFast sepB
  congr 1
  funext i
  rw [all_range_getD c none
    (fun j x => j == i || Score.apart m (c.getD i none) x || Score.apart m x (c.getD i none))]
  cases hc : c.getD i none with
  | none => simp
  | some v =>
    simp only [Option.isNone_some, Bool.false_or]
    congr 1
    funext p
    rw [clear_eq_apart, Bool.or_assoc]

end PdtVerif.Beam
