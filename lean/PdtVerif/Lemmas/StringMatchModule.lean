import PdtVerif.Lemmas.StringMatchBatch
import PdtVerif.Model.StringMatchModule
/-!
# Lemmas about the module layer (`Model/StringMatchModule.lean`)

* `lastWrite` bookkeeping and the generic "a field after a fold of assignments holds the value written last"
  (`foldl_assign_get`), instantiated for the ten attributes (`assignAll_eq_current`);
* a program's calls do not change the object, and the `k`-th call sees the object as left by the assignments
  that precede it (`runSession_fst`, `runSession_call`).
-/
namespace PdtVerif.StringMatch
open PdtVerif.Lev

variable {α : Type}

theorem lastWrite_nil {β γ : Type} (sel : γ → Option β) (d : β) : lastWrite sel [] d = d := rfl

theorem lastWrite_cons {β γ : Type} (sel : γ → Option β) (a : γ) (as : List γ) (d : β) :
    lastWrite sel (a :: as) d = lastWrite sel as ((sel a).getD d) := rfl

theorem lastWrite_append {β γ : Type} (sel : γ → Option β) (as bs : List γ) (d : β) :
    lastWrite sel (as ++ bs) d = lastWrite sel bs (lastWrite sel as d) := by
  simp [lastWrite, List.foldl_append]

/-- Writes that do not target the location leave it alone. -/
theorem lastWrite_none {β γ : Type} (sel : γ → Option β) (as : List γ) (d : β)
    (h : ∀ a ∈ as, sel a = none) : lastWrite sel as d = d := by
  induction as generalizing d with
  | nil => rfl
  | cons a as ih =>
    rw [lastWrite_cons, h a (by simp)]
    exact ih _ (fun b hb => h b (by simp [hb]))

/-- A write followed only by writes to other locations is what the location holds. -/
theorem lastWrite_last {β γ : Type} (sel : γ → Option β) (as bs : List γ) (a : γ) (v d : β)
    (ha : sel a = some v) (h : ∀ b ∈ bs, sel b = none) : lastWrite sel (as ++ a :: bs) d = v := by
  rw [lastWrite_append, lastWrite_cons, ha, lastWrite_none sel bs _ h]
  rfl

/-- Generic step: if reading field `get` after ONE assignment gives the assigned value when the assignment
targets the field (`sel`) and the old value otherwise, then after any sequence of assignments the field
holds the value written last. -/
theorem foldl_assign_get {β : Type} (get : SMModule α → β) (sel : Assign α → Option β)
    (hstep : ∀ (m : SMModule α) (a : Assign α), get (m.assign a) = (sel a).getD (get m))
    (m : SMModule α) (as : List (Assign α)) :
    get (m.assignAll as) = lastWrite sel as (get m) := by
  induction as generalizing m with
  | nil => rfl
  | cons a as ih =>
    show get ((m.assign a).assignAll as) = _
    rw [ih (m.assign a), hstep, lastWrite_cons]

/-- The object after any sequence of assignments IS the object a fresh construction with the last-written
values gives. -/
theorem assignAll_eq_current (m : SMModule α) (as : List (Assign α)) : m.assignAll as = m.current as := by
  have h1 := foldl_assign_get (α := α) (·.eos) Assign.eos? (by intro m a; cases a <;> rfl) m as
  have h2 := foldl_assign_get (α := α) (·.includeEos) Assign.includeEos? (by intro m a; cases a <;> rfl) m as
  have h3 := foldl_assign_get (α := α) (·.norm) Assign.norm? (by intro m a; cases a <;> rfl) m as
  have h4 := foldl_assign_get (α := α) (·.batchFirst) Assign.batchFirst? (by intro m a; cases a <;> rfl) m as
  have h5 := foldl_assign_get (α := α) (·.insCost) Assign.insCost? (by intro m a; cases a <;> rfl) m as
  have h6 := foldl_assign_get (α := α) (·.delCost) Assign.delCost? (by intro m a; cases a <;> rfl) m as
  have h7 := foldl_assign_get (α := α) (·.subCost) Assign.subCost? (by intro m a; cases a <;> rfl) m as
  have h8 := foldl_assign_get (α := α) (·.padding) Assign.padding? (by intro m a; cases a <;> rfl) m as
  have h9 := foldl_assign_get (α := α) (·.excludeLast) Assign.excludeLast? (by intro m a; cases a <;> rfl) m as
  have h10 := foldl_assign_get (α := α) (·.warn) Assign.warn? (by intro m a; cases a <;> rfl) m as
  cases hm : m.assignAll as with
  | mk e i n b ic dc sc p x w =>
    simp only [hm] at h1 h2 h3 h4 h5 h6 h7 h8 h9 h10
    simp only [SMModule.current, ← h1, ← h2, ← h3, ← h4, ← h5, ← h6, ← h7, ← h8, ← h9, ← h10]

theorem assignAll_append (m : SMModule α) (as bs : List (Assign α)) :
    m.assignAll (as ++ bs) = (m.assignAll as).assignAll bs := by
  simp [SMModule.assignAll, List.foldl_append]

/-! ### Programs -/

theorem assignsOf_append (es fs : List (Event α)) : assignsOf (es ++ fs) = assignsOf es ++ assignsOf fs := by
  induction es with
  | nil => rfl
  | cons e es ih => cases e <;> simp [assignsOf, ih]

/-- Calls never change the object: at the end of a program it is what the assignments alone make it. -/
theorem runSession_fst {β : Type} (fwd : SMModule α → Tensor2 α → Tensor2 α → β) (m : SMModule α)
    (es : List (Event α)) : (runSession fwd m es).1 = m.assignAll (assignsOf es) := by
  induction es generalizing m with
  | nil => rfl
  | cons e es ih =>
    cases e with
    | assign a => simpa [runSession, assignsOf, SMModule.assignAll] using ih (m.assign a)
    | call r h => simpa [runSession, assignsOf] using ih m

theorem runSession_length {β : Type} (fwd : SMModule α → Tensor2 α → Tensor2 α → β) (m : SMModule α)
    (es : List (Event α)) : (runSession fwd m es).2.length = callCount es := by
  induction es generalizing m with
  | nil => rfl
  | cons e es ih =>
    cases e with
    | assign a => simpa [runSession, callCount] using ih (m.assign a)
    | call r h => simp [runSession, callCount, ih m]

/-- The result of a call inside a program: `forward` of the object as the assignments BEFORE the call left
it - whatever was called before, whatever is assigned or called afterwards. -/
theorem runSession_call {β : Type} (fwd : SMModule α → Tensor2 α → Tensor2 α → β) (m : SMModule α)
    (pre post : List (Event α)) (r h : Tensor2 α) :
    (runSession fwd m (pre ++ .call r h :: post)).2[callCount pre]?
      = some (fwd (m.assignAll (assignsOf pre)) r h) := by
  induction pre generalizing m with
  | nil => simp [runSession, callCount, assignsOf, SMModule.assignAll]
  | cons e pre ih =>
    cases e with
    | assign a => simpa [runSession, callCount, assignsOf, SMModule.assignAll] using ih (m.assign a)
    | call r' h' => simpa [runSession, callCount, assignsOf] using ih m

end PdtVerif.StringMatch
