import PdtVerif.Lemmas.NgramShape
import PdtVerif.Lemmas.NgramRemap
/-!
# Lemmas for C06, part 10: the top-down suffix closure of `_build_trie`

Piece (d) of `C06_flat`: `closeDown` returns, highest order first, levels that

* extend the raw dictionaries only by `(-inf, 0)` entries (appended at the end),
* have pairwise distinct keys (if the raw dictionaries have),
* hold keys of the right length over valid tokens,
* are suffix-closed: the tail of every key of a level is a key of the level below,
* list every unigram.
-/
namespace PdtVerif.NgramTrie

/-- An implicit entry: "listed but impossible", back-off weight one. -/
def IsDummy (e : Item) : Prop := e.logp = LogP.negInf ∧ e.logb = LogP.fin 0

theorem validTok_of_check (V : Nat) (sos : Int) (t : Int)
    (h : (decide (0 ≤ t ∧ t < (V : Int)) || (shiftOf V sos == 1 && t == sos)) = true) :
    validTok V sos t := by
  simp only [Bool.or_eq_true, decide_eq_true_eq, Bool.and_eq_true, beq_iff_eq] at h
  rcases h with h | h
  · exact Or.inl h
  · exact Or.inr h.2

/-! ## the suffix pass -/

theorem addSuffixes_facts (V : Nat) (sos : Int) (len : Nat) :
    ∀ (d lower low' : List Item), addSuffixes V sos len d lower = some low' →
      (∀ e ∈ d, e.key.length = len ∧ ∀ t ∈ e.key, validTok V sos t) ∧
      (∃ ex, low' = lower ++ ex ∧ ∀ e ∈ ex, IsDummy e ∧ ∃ e' ∈ d, e.key = e'.key.tail) ∧
      (∀ e ∈ d, e.key.tail ∈ low'.map (·.key)) := by
  intro d
  unfold addSuffixes
  induction d with
  | nil =>
    intro lower low' h
    simp only [List.foldl_nil, Option.some.injEq] at h
    subst h
    refine ⟨?_, ⟨[], by simp, ?_⟩, ?_⟩
    · intro e he; cases he
    · intro e he; cases he
    · intro e he; cases he
  | cons x xs ih =>
    intro lower low' h
    simp only [List.foldl_cons] at h
    by_cases h1 : x.key.length ≠ len
    · rw [if_pos h1, foldl_none _ (fun _ => rfl)] at h; cases h
    · rw [if_neg h1] at h
      by_cases h2 : x.key.any (fun t => !(decide (0 ≤ t ∧ t < V) || (shiftOf V sos == 1 && t == sos))) = true
      · rw [if_pos h2, foldl_none _ (fun _ => rfl)] at h; cases h
      · rw [if_neg h2] at h
        have hx : x.key.length = len ∧ ∀ t ∈ x.key, validTok V sos t := by
          refine ⟨by simpa using h1, ?_⟩
          intro t ht
          apply validTok_of_check
          cases hc : (decide (0 ≤ t ∧ t < (V : Int)) || (shiftOf V sos == 1 && t == sos)) with
          | true => rfl
          | false =>
            exfalso; apply h2; rw [List.any_eq_true]; exact ⟨t, ht, by rw [hc]; rfl⟩
        by_cases h3 : hasKey lower x.key.tail = true
        · rw [if_pos h3] at h
          obtain ⟨a1, ⟨ex, a2, a3⟩, a4⟩ := ih lower low' h
          refine ⟨?_, ⟨ex, a2, ?_⟩, ?_⟩
          · intro e he
            rcases List.mem_cons.mp he with rfl | he
            · exact hx
            · exact a1 e he
          · intro e he
            obtain ⟨b1, e', b2, b3⟩ := a3 e he
            exact ⟨b1, e', List.mem_cons_of_mem _ b2, b3⟩
          · intro e he
            rcases List.mem_cons.mp he with rfl | he
            · rw [a2, List.map_append]
              exact List.mem_append_left _ ((hasKey_iff lower _).mp h3)
            · exact a4 e he
        · rw [if_neg h3] at h
          obtain ⟨a1, ⟨ex, a2, a3⟩, a4⟩ := ih _ low' h
          refine ⟨?_, ⟨⟨x.key.tail, LogP.negInf, LogP.fin 0⟩ :: ex, by rw [a2]; simp, ?_⟩, ?_⟩
          · intro e he
            rcases List.mem_cons.mp he with rfl | he
            · exact hx
            · exact a1 e he
          · intro e he
            rcases List.mem_cons.mp he with rfl | he
            · exact ⟨⟨rfl, rfl⟩, x, by simp, rfl⟩
            · obtain ⟨b1, e', b2, b3⟩ := a3 e he
              exact ⟨b1, e', List.mem_cons_of_mem _ b2, b3⟩
          · intro e he
            rcases List.mem_cons.mp he with rfl | he
            · rw [a2]; simp
            · exact a4 e he

/-! ## the unigram pass -/

theorem mem_uniToks (V : Nat) (sos : Int) (t : Int) :
    t ∈ uniToks V sos ↔ (0 ≤ t ∧ t < (V : Int)) ∨ (shiftOf V sos = 1 ∧ t = sos) := by
  unfold uniToks
  rw [List.mem_append]
  constructor
  · rintro (h | h)
    · left
      simp only [List.mem_map, List.mem_range] at h
      obtain ⟨x, hx, rfl⟩ := h
      exact ⟨Int.natCast_nonneg x, by show (x : Int) < V; exact_mod_cast hx⟩
    · right
      split at h
      · rename_i hs; simp only [List.mem_singleton] at h; exact ⟨hs, h⟩
      · cases h
  · rintro (h | h)
    · left
      simp only [List.mem_map, List.mem_range]
      refine ⟨t.toNat, by omega, ?_⟩
      simp [Int.toNat_of_nonneg h.1]
    · right
      rw [if_pos h.1]; simp [h.2]

theorem addUnigrams_facts (V : Nat) (sos : Int) (d u : List Item) (h : addUnigrams V sos d = some u) :
    (∀ e ∈ d, ∃ t, e.key = [t] ∧ t ∈ uniToks V sos) ∧
    (∃ ex, u = d ++ ex ∧ (∀ e ∈ ex, IsDummy e ∧ ∃ t ∈ uniToks V sos, e.key = [t]) ∧
      (ex.map (·.key)).Nodup ∧ ∀ e ∈ ex, e.key ∉ d.map (·.key)) ∧
    (∀ t ∈ uniToks V sos, [t] ∈ u.map (·.key)) := by
  unfold addUnigrams at h
  simp only at h
  change (if d.any (fun e => match e.key with | [t] => !((uniToks V sos).contains t) | _ => true) = true
    then none else some (d ++ ((uniToks V sos).filter (fun t => !(hasKey d [t]))).map
      (fun t => (⟨[t], LogP.negInf, LogP.fin 0⟩ : Item)))) = some u at h
  split at h
  · cases h
  · rename_i hany
    simp only [Option.some.injEq] at h
    subst h
    have hkeys : ∀ e ∈ d, ∃ t, e.key = [t] ∧ t ∈ uniToks V sos := by
      intro e he
      have : ¬ (match e.key with | [t] => !((uniToks V sos).contains t) | _ => true) = true := by
        intro hc; apply hany; rw [List.any_eq_true]; exact ⟨e, he, hc⟩
      match hk : e.key with
      | [t] =>
        rw [hk] at this
        simp only [Bool.not_eq_true', Bool.not_eq_false', List.contains_eq_mem,
          decide_eq_true_eq] at this
        exact ⟨t, rfl, by simpa using this⟩
      | [] => rw [hk] at this; simp at this
      | _ :: _ :: _ => rw [hk] at this; simp at this
    refine ⟨hkeys, ⟨_, rfl, ?_, ?_, ?_⟩, ?_⟩
    · intro e he
      simp only [List.mem_map, List.mem_filter] at he
      obtain ⟨t, ⟨ht, _⟩, rfl⟩ := he
      exact ⟨⟨rfl, rfl⟩, t, ht, rfl⟩
    · rw [List.map_map]
      exact nodup_map_inj _ (fun a b h => by simpa using h)
        (List.Pairwise.filter _ (uniToks_nodup V sos))
    · intro e he
      simp only [List.mem_map, List.mem_filter] at he
      obtain ⟨t, ⟨_, ht⟩, rfl⟩ := he
      intro hmem
      have := (hasKey_iff d [t]).mpr hmem
      rw [this] at ht; simp at ht
    · intro t ht
      rw [List.map_append, List.mem_append]
      by_cases hh : hasKey d [t] = true
      · exact Or.inl ((hasKey_iff d [t]).mp hh)
      · right
        simp only [List.map_map, List.mem_map, List.mem_filter, Function.comp]
        exact ⟨t, ⟨ht, by simpa using hh⟩, rfl⟩

/-! ## the whole closure -/

theorem validTok_of_uniToks (V : Nat) (sos : Int) (t : Int) (h : t ∈ uniToks V sos) : validTok V sos t := by
  rcases (mem_uniToks V sos t).mp h with h | h
  · exact Or.inl h
  · exact Or.inr h.2

/-- What `closeDown` returns (`r`, highest order first) for the raw dictionaries `cur :: rest`
(highest order first). -/
theorem closeDown_facts (V : Nat) (sos : Int) :
    ∀ (rest : List (List Item)) (cur : List Item) (r : List (List Item)),
      closeDown V sos cur rest = some r →
      r.length = rest.length + 1 ∧
      (∀ (i : Nat) (c raw : List Item), r[i]? = some c → (cur :: rest)[i]? = some raw →
        ∃ ex, c = raw ++ ex ∧ ∀ e ∈ ex, IsDummy e) ∧
      ((∀ d ∈ cur :: rest, keysNodup d) → ∀ c ∈ r, keysNodup c) ∧
      (∀ (i : Nat) (c : List Item), r[i]? = some c →
        ∀ e ∈ c, e.key.length = r.length - i ∧ ∀ t ∈ e.key, validTok V sos t) ∧
      (∀ (i : Nat) (c l : List Item), r[i]? = some c → r[i + 1]? = some l →
        ∀ e ∈ c, e.key.tail ∈ l.map (·.key)) ∧
      (∀ t ∈ uniToks V sos, [t] ∈ (r.getLastD []).map (·.key))
  | [], cur, r, h => by
    simp only [closeDown, Option.map_eq_some_iff] at h
    obtain ⟨u, hu, rfl⟩ := h
    obtain ⟨f1, ⟨ex, f2, f3, f4, f5⟩, f6⟩ := addUnigrams_facts V sos cur u hu
    refine ⟨rfl, ?_, ?_, ?_, ?_, ?_⟩
    · intro i c raw hc hraw
      cases i with
      | zero =>
        simp only [List.getElem?_cons_zero, Option.some.injEq] at hc hraw
        subst hc; subst hraw
        exact ⟨ex, f2, fun e he => (f3 e he).1⟩
      | succ i => simp at hc
    · intro hnd c hc
      simp only [List.mem_singleton] at hc
      subst hc
      have hcur := hnd cur (by simp)
      unfold keysNodup at hcur ⊢
      rw [f2, List.map_append, List.nodup_append]
      refine ⟨hcur, f4, ?_⟩
      intro a ha b hb
      obtain ⟨e, he, rfl⟩ := List.mem_map.mp hb
      intro hab
      exact f5 e he (hab ▸ ha)
    · intro i c hc e he
      cases i with
      | zero =>
        simp only [List.getElem?_cons_zero, Option.some.injEq] at hc
        subst hc
        rw [f2, List.mem_append] at he
        have : ∃ t, e.key = [t] ∧ t ∈ uniToks V sos := by
          rcases he with he | he
          · exact f1 e he
          · obtain ⟨_, t, ht, hk⟩ := f3 e he
            exact ⟨t, hk, ht⟩
        obtain ⟨t, hk, ht⟩ := this
        rw [hk]
        refine ⟨rfl, ?_⟩
        intro t' ht'
        simp only [List.mem_singleton] at ht'
        subst ht'
        exact validTok_of_uniToks V sos t' ht
      | succ i => simp at hc
    · intro i c l _ hl; simp at hl
    · intro t ht; exact f6 t ht
  | lower :: rest, cur, r, h => by
    simp only [closeDown] at h
    split at h
    · cases h
    · rename_i low' hlow
      simp only [Option.map_eq_some_iff] at h
      obtain ⟨r', hr', rfl⟩ := h
      obtain ⟨i1, i2, i3, i4, i5, i6⟩ := closeDown_facts V sos rest low' r' hr'
      obtain ⟨s1, ⟨ex0, s2, s3⟩, s4⟩ := addSuffixes_facts V sos _ cur lower low' hlow
      have hr'ne : r' ≠ [] := by intro e; rw [e] at i1; simp at i1
      -- the level below `cur` contains `low'`
      have hbelow : ∀ l, r'[0]? = some l → ∃ ex, l = low' ++ ex ∧ ∀ e ∈ ex, IsDummy e := by
        intro l hl
        exact i2 0 l low' hl (by simp)
      refine ⟨by simp [i1], ?_, ?_, ?_, ?_, ?_⟩
      · intro i c raw hc hraw
        cases i with
        | zero =>
          simp only [List.getElem?_cons_zero, Option.some.injEq] at hc hraw
          subst hc; subst hraw
          exact ⟨[], by simp, fun _ h => by cases h⟩
        | succ i =>
          simp only [List.getElem?_cons_succ] at hc hraw
          cases i with
          | zero =>
            simp only [List.getElem?_cons_zero, Option.some.injEq] at hraw
            subst hraw
            obtain ⟨ex, e1, e2⟩ := hbelow c hc
            refine ⟨ex0 ++ ex, by rw [e1, s2, List.append_assoc], ?_⟩
            intro e he
            rcases List.mem_append.mp he with he | he
            · exact (s3 e he).1
            · exact e2 e he
          | succ i =>
            exact i2 (i + 1) c raw hc (by simpa using hraw)
      · intro hnd c hc
        rcases List.mem_cons.mp hc with rfl | hc
        · exact hnd _ (by simp)
        · apply i3 _ c hc
          intro d hd
          rcases List.mem_cons.mp hd with rfl | hd
          · exact addSuffixes_nodup V sos _ cur lower _ (hnd lower (by simp)) hlow
          · exact hnd d (by simp [hd])
      · intro i c hc e he
        cases i with
        | zero =>
          simp only [List.getElem?_cons_zero, Option.some.injEq] at hc
          subst hc
          have := s1 e he
          simp only [List.length_cons, i1]
          exact ⟨by omega, this.2⟩
        | succ i =>
          simp only [List.getElem?_cons_succ] at hc
          have := i4 i c hc e he
          simp only [List.length_cons]
          exact ⟨by omega, this.2⟩
      · intro i c l hc hl e he
        cases i with
        | zero =>
          simp only [List.getElem?_cons_zero, Option.some.injEq] at hc
          subst hc
          simp only [List.getElem?_cons_succ] at hl
          obtain ⟨ex, e1, _⟩ := hbelow l hl
          rw [e1, List.map_append]
          exact List.mem_append_left _ (s4 e he)
        | succ i =>
          simp only [List.getElem?_cons_succ] at hc hl
          exact i5 i c l hc hl e he
      · intro t ht
        cases r' with
        | nil => exact absurd rfl hr'ne
        | cons a as => simpa [List.getLastD_cons] using i6 t ht

/-- No level of the closure is empty when the highest order is not. -/
theorem closeDown_nonempty (V : Nat) (sos : Int) :
    ∀ (rest : List (List Item)) (cur : List Item) (r : List (List Item)),
      closeDown V sos cur rest = some r → cur ≠ [] → ∀ c ∈ r, c ≠ []
  | [], cur, r, h, hne => by
    simp only [closeDown, Option.map_eq_some_iff] at h
    obtain ⟨u, hu, rfl⟩ := h
    obtain ⟨_, ⟨ex, f2, _⟩, _⟩ := addUnigrams_facts V sos cur u hu
    intro c hc
    simp only [List.mem_singleton] at hc
    subst hc
    rw [f2]
    intro e
    exact hne (List.append_eq_nil_iff.mp e).1
  | lower :: rest, cur, r, h, hne => by
    simp only [closeDown] at h
    split at h
    · cases h
    · rename_i low' hlow
      simp only [Option.map_eq_some_iff] at h
      obtain ⟨r', hr', rfl⟩ := h
      obtain ⟨_, _, s4⟩ := addSuffixes_facts V sos _ cur lower low' hlow
      have hlow_ne : low' ≠ [] := by
        obtain ⟨e, he⟩ := List.exists_mem_of_ne_nil cur hne
        intro e0
        have := s4 e he
        rw [e0] at this
        simp at this
      intro c hc
      rcases List.mem_cons.mp hc with rfl | hc
      · exact hne
      · exact closeDown_nonempty V sos rest low' r' hr' hlow_ne c hc

end PdtVerif.NgramTrie
