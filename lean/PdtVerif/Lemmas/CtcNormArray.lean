import PdtVerif.Lemmas.CtcModule
import PdtVerif.Lemmas.CtcNorm
/-! What the module reports for one batch element, added up (C05, improvement round 3): the probabilities of
the slots that hold a prefix are masses of pairwise distinct prefixes, so together they are at most the total
weight of all alignments — at most one for (sub-)stochastic frames. -/
namespace PdtVerif.CtcPrefix
open PdtVerif.Ctc

/-- what a slot contributes to a total: its probability when it is a number, nothing for `-inf` (a slot
without a prefix) -/
def XR.val : XR → Rat
  | .fin q => q
  | _ => 0

/-- the probabilities a result reports, added up -/
def reportedTotal (r : Result) : Rat := (r.probs.map XR.val).sum

theorem val_eq_ite (x : XR) : XR.val x = if x.isFin = true then XR.val x else 0 := by
  cases x <;> simp [XR.val, XR.isFin]

theorem isFin_iff (x : XR) : x.isFin = true ↔ ∃ q, x = XR.fin q := by
  cases x <;> simp [XR.isFin]

theorem list_eq_range_getX (l : List XR) (n : Nat) (h : l.length = n) :
    l = (List.range n).map (getX l) := by
  apply List.ext_getElem
  · simp [h]
  · intro i h1 h2
    simp [getX, List.getD_eq_getElem?_getD, h1]

/-- **the reported probabilities of one element add up to at most the total weight of all alignments**
(and are non-negative), for every result meeting `ElementOK` (i.e. every output of the repaired module on a
good run, `C05_module`). -/
theorem reportedTotal_bounds {V width T : Nat} {fs : List Frame} {keeps : List (List (List Nat))} {r : Result}
    (h : ElementOK V width T fs keeps r) (hf : ∀ f ∈ fs, f.Nonneg) :
    0 ≤ reportedTotal r ∧ reportedTotal r ≤ totalW (finals V fs) := by
  let ks := (List.range width).filter (fun k => (getX r.probs k).isFin)
  have hks : ∀ k ∈ ks, k < width ∧ ∃ q, getX r.probs k = XR.fin q := by
    intro k hk
    have := List.mem_filter.1 hk
    exact ⟨List.mem_range.1 this.1, (isFin_iff _).1 this.2⟩
  have hsum : reportedTotal r = (ks.map (fun k => XR.val (getX r.probs k))).sum := by
    unfold reportedTotal
    conv_lhs => rw [list_eq_range_getX r.probs width h.count]
    rw [List.map_map]
    rw [← sum_map_filter']
    congr 1
    apply List.map_congr_left
    intro k _
    simp only [Function.comp]
    exact val_eq_ite _
  rw [hsum]
  constructor
  · apply sum_map_nonneg
    intro k hk
    obtain ⟨hkw, q, hq⟩ := hks k hk
    rw [hq]
    exact (h.real k q hkw hq).2.2.1
  · have h1 : (ks.map (fun k => XR.val (getX r.probs k))).sum
        ≤ (ks.map (fun k => mass V fs (r.prefixes.getD k []))).sum := by
      apply sum_map_le
      intro k hk
      obtain ⟨hkw, q, hq⟩ := hks k hk
      rw [hq]
      exact (h.real k q hkw hq).2.2.2.1
    have hnd : (ks.map (fun k => r.prefixes.getD k [])).Nodup := by
      apply List.Nodup.map_on
      · intro k hk k' hk' heq
        obtain ⟨hkw, q, hq⟩ := hks k hk
        obtain ⟨hkw', q', hq'⟩ := hks k' hk'
        exact ((h.real k' q' hkw' hq').2.2.2.2.2.2 k q hkw hq heq)
      · exact List.Nodup.filter _ List.nodup_range
    have h2 := sum_mass_le_total V fs hf _ hnd
    rw [List.map_map] at h2
    exact le_trans h1 h2

end PdtVerif.CtcPrefix
