import PdtVerif.Lemmas.FeatStats
import Mathlib.Data.List.Basic
/-!
# Index arithmetic for the tensor model of C18

Row-major `ravel`/`unravel`, what `Tensor.permute` does to a multi-index, and the reshape
(`flatten(dim, dim+1)`) step.  Multi-indices are handled as functions `ι : Nat → Nat`
restricted to `List.range n`, so that the composition of several permutations reduces to
arithmetic on `if … then … else` expressions.
-/
namespace PdtVerif.FeatStats

/-! ## ravel / unravel -/

/-- `idx` is a legal multi-index for `shape`. -/
def Valid : List Nat → List Nat → Prop
  | [], [] => True
  | s :: rest, i :: is => i < s ∧ Valid rest is
  | _, _ => False

theorem Valid.length_eq : ∀ {s i : List Nat}, Valid s i → i.length = s.length
  | [], [], _ => rfl
  | _ :: _, _ :: _, h => by simp [Valid.length_eq h.2]
  | [], _ :: _, h => by simp [Valid] at h
  | _ :: _, [], h => by simp [Valid] at h

theorem ravel_lt : ∀ {s i : List Nat}, Valid s i → ravel s i < prod s
  | [], [], _ => by simp [ravel, prod]
  | s :: rest, i :: is, h => by
    have h1 := ravel_lt h.2
    have h2 : i < s := h.1
    simp only [ravel, prod]
    calc i * prod rest + ravel rest is < i * prod rest + prod rest := by omega
      _ = (i + 1) * prod rest := by ring
      _ ≤ s * prod rest := Nat.mul_le_mul_right _ h2
  | [], _ :: _, h => by simp [Valid] at h
  | _ :: _, [], h => by simp [Valid] at h

theorem unravel_ravel : ∀ {s i : List Nat}, Valid s i → unravel s (ravel s i) = i
  | [], [], _ => rfl
  | s :: rest, i :: is, h => by
    have h1 := ravel_lt h.2
    have hP : 0 < prod rest := by omega
    simp only [ravel, unravel]
    have e1 : (i * prod rest + ravel rest is) / prod rest = i := by
      rw [Nat.add_comm, Nat.add_mul_div_right _ _ hP, Nat.div_eq_of_lt h1, Nat.zero_add]
    have e2 : (i * prod rest + ravel rest is) % prod rest = ravel rest is := by
      rw [Nat.add_comm, Nat.add_mul_mod_self_right, Nat.mod_eq_of_lt h1]
    rw [e1, e2, unravel_ravel h.2]
  | [], _ :: _, h => by simp [Valid] at h
  | _ :: _, [], h => by simp [Valid] at h

theorem unravel_valid : ∀ (s : List Nat) (k : Nat), k < prod s → Valid s (unravel s k)
  | [], _, _ => trivial
  | s :: rest, k, h => by
    simp only [prod] at h
    have hP : 0 < prod rest := by
      rcases Nat.eq_zero_or_pos (prod rest) with h0 | h0
      · rw [h0] at h; simp at h
      · exact h0
    refine ⟨?_, unravel_valid rest _ (Nat.mod_lt _ hP)⟩
    exact (Nat.div_lt_iff_lt_mul hP).2 h

theorem ravel_unravel : ∀ (s : List Nat) (k : Nat), k < prod s → ravel s (unravel s k) = k
  | [], k, h => by simp [prod] at h; simp [ravel, unravel, h]
  | s :: rest, k, h => by
    simp only [prod] at h
    have hP : 0 < prod rest := by
      rcases Nat.eq_zero_or_pos (prod rest) with h0 | h0
      · rw [h0] at h; simp at h
      · exact h0
    simp only [unravel, ravel]
    rw [ravel_unravel rest _ (Nat.mod_lt _ hP)]
    exact Nat.div_add_mod' k (prod rest)

theorem unravel_length (s : List Nat) (k : Nat) : (unravel s k).length = s.length := by
  induction s generalizing k with
  | nil => rfl
  | cons a rest ih => simp [unravel, ih]

/-- Validity in terms of entries. -/
theorem valid_iff_getD (s i : List Nat) :
    Valid s i ↔ i.length = s.length ∧ ∀ d, d < s.length → i.getD d 0 < s.getD d 1 := by
  induction s generalizing i with
  | nil =>
    cases i with
    | nil => simp [Valid]
    | cons a is => simp [Valid]
  | cons a rest ih =>
    cases i with
    | nil => simp [Valid]
    | cons b is =>
      simp only [Valid, ih, List.length_cons, Nat.add_right_cancel_iff]
      constructor
      · rintro ⟨hb, hl, hr⟩
        refine ⟨hl, ?_⟩
        intro d hd
        cases d with
        | zero => simpa using hb
        | succ d => simpa using hr d (by omega)
      · rintro ⟨hl, hr⟩
        refine ⟨by simpa using hr 0 (by omega), hl, ?_⟩
        intro d hd
        simpa using hr (d + 1) (by omega)

/-- A list is the table of its own entries. -/
theorem map_range_getD (l : List Nat) (n : Nat) (h : l.length = n) (dflt : Nat) :
    (List.range n).map (fun j => l.getD j dflt) = l := by
  apply List.ext_getElem
  · simp [h]
  · intro i h1 h2
    simp [List.getD_eq_getElem?_getD, List.getElem?_eq_getElem h2]

theorem valid_map_range (s : List Nat) (n : Nat) (hn : s.length = n) (ι : Nat → Nat) :
    Valid s ((List.range n).map ι) ↔ ∀ d, d < n → ι d < s.getD d 1 := by
  rw [valid_iff_getD]
  subst hn
  constructor
  · rintro ⟨_, h⟩ d hd
    have := h d hd
    simpa [List.getD_eq_getElem?_getD, List.getElem?_range hd] using this
  · intro h
    refine ⟨by simp, ?_⟩
    intro d hd
    simpa [List.getD_eq_getElem?_getD, List.getElem?_range hd] using h d hd

/-! ## Entries by multi-index; what `permute` does -/

/-- The entry of `t` at the multi-index `(ι 0, …, ι (n-1))`. -/
def Tensor.at (t : Tensor) (n : Nat) (ι : Nat → Nat) : Rat :=
  t.data.getD (ravel t.shape ((List.range n).map ι)) 0

theorem data_getD_eq_at (t : Tensor) (n : Nat) (hn : t.shape.length = n) (k : Nat)
    (hk : k < prod t.shape) :
    t.data.getD k 0 = t.at n (fun j => (unravel t.shape k).getD j 0) := by
  unfold Tensor.at
  rw [map_range_getD _ _ (by rw [unravel_length, hn]), ravel_unravel _ _ hk]

theorem at_congr (t : Tensor) (n : Nat) (ι κ : Nat → Nat) (h : ∀ j, j < n → ι j = κ j) :
    t.at n ι = t.at n κ := by
  unfold Tensor.at
  congr 2
  apply List.map_congr_left
  intro j hj
  exact h j (List.mem_range.mp hj)

/-- Position of `d` in the table of an injective `f` with right inverse `g`. -/
theorem idxOf_map_range (n : Nat) (f g : Nat → Nat)
    (hfg : ∀ d, d < n → g d < n ∧ f (g d) = d)
    (hinj : ∀ i j, i < n → j < n → f i = f j → i = j) (d : Nat) (hd : d < n) :
    ((List.range n).map f).idxOf d = g d := by
  obtain ⟨hg1, hg2⟩ := hfg d hd
  have hmem : d ∈ (List.range n).map f :=
    List.mem_map.mpr ⟨g d, List.mem_range.mpr hg1, hg2⟩
  have hj : ((List.range n).map f).idxOf d < ((List.range n).map f).length :=
    List.idxOf_lt_length_iff.mpr hmem
  have hget := List.getElem_idxOf hj
  have hjn : ((List.range n).map f).idxOf d < n := by simpa using hj
  simp only [List.getElem_map, List.getElem_range] at hget
  exact hinj _ _ hjn hg1 (by rw [hget, hg2])

theorem permute_shape (t : Tensor) (n : Nat) (f : Nat → Nat) :
    (t.permute ((List.range n).map f)).shape = (List.range n).map (fun j => t.shape.getD (f j) 1) := by
  simp [Tensor.permute, List.map_map, Function.comp_def]

theorem permute_data_length (t : Tensor) (perm : List Nat) :
    (t.permute perm).data.length = prod (t.permute perm).shape := by
  simp [Tensor.permute]

theorem permute_data_getD (t : Tensor) (perm : List Nat) (K : Nat)
    (hK : K < prod (perm.map (fun d => t.shape.getD d 1))) :
    (t.permute perm).data.getD K 0 =
      t.data.getD (ravel t.shape ((List.range t.shape.length).map
        (fun d => (unravel (perm.map (fun d => t.shape.getD d 1)) K).getD (perm.idxOf d) 0))) 0 := by
  unfold Tensor.permute
  simp only []
  rw [List.getD_eq_getElem?_getD, List.getElem?_map, List.getElem?_range hK]
  rfl

/-- `permute` moves the entry at `ι ∘ g` to `ι` (`g` the inverse of the permutation table `f`). -/
theorem permute_at (t : Tensor) (n : Nat) (hn : t.shape.length = n) (f g : Nat → Nat)
    (hfg : ∀ d, d < n → g d < n ∧ f (g d) = d)
    (hinj : ∀ i j, i < n → j < n → f i = f j → i = j)
    (ι : Nat → Nat) (hι : ∀ j, j < n → ι j < t.shape.getD (f j) 1) :
    (t.permute ((List.range n).map f)).at n ι = t.at n (fun d => ι (g d)) := by
  have hshape : (t.permute ((List.range n).map f)).shape
      = ((List.range n).map f).map (fun d => t.shape.getD d 1) := rfl
  have hshape' := permute_shape t n f
  have hvalid : Valid (t.permute ((List.range n).map f)).shape ((List.range n).map ι) := by
    rw [valid_map_range _ n (by rw [hshape']; simp)]
    intro d hd
    rw [hshape']
    simpa [List.getD_eq_getElem?_getD, List.getElem?_range hd] using hι d hd
  have hlt := ravel_lt hvalid
  have hun := unravel_ravel hvalid
  unfold Tensor.at
  rw [hshape] at hlt hun ⊢
  rw [permute_data_getD t _ _ hlt, hun, hn]
  congr 2
  apply List.map_congr_left
  intro d hd
  have hd' := List.mem_range.mp hd
  rw [idxOf_map_range n f g hfg hinj d hd']
  simp [List.getElem?_range (hfg d hd').1]

/-! ## The two permutations the code uses: `transpose` and `movedim(-1, dim)` -/

def swapF (a b d : Nat) : Nat := if d = a then b else if d = b then a else d

theorem swapF_invol (a b d : Nat) : swapF a b (swapF a b d) = d := by
  unfold swapF; split_ifs <;> omega

theorem swapF_lt (a b d n : Nat) (ha : a < n) (hb : b < n) (hd : d < n) : swapF a b d < n := by
  unfold swapF; split_ifs <;> omega

theorem transpose_eq_permute (t : Tensor) (a b : Nat) :
    t.transpose a b = t.permute ((List.range t.shape.length).map (swapF a b)) := rfl

theorem transpose_shape (t : Tensor) (n : Nat) (hn : t.shape.length = n) (a b : Nat) :
    (t.transpose a b).shape = (List.range n).map (fun j => t.shape.getD (swapF a b j) 1) := by
  rw [transpose_eq_permute, hn, permute_shape]

theorem transpose_at (t : Tensor) (n : Nat) (hn : t.shape.length = n) (a b : Nat) (ha : a < n)
    (hb : b < n) (ι : Nat → Nat) (hι : ∀ j, j < n → ι j < t.shape.getD (swapF a b j) 1) :
    (t.transpose a b).at n ι = t.at n (fun d => ι (swapF a b d)) := by
  rw [transpose_eq_permute, hn]
  apply permute_at t n hn (swapF a b) (swapF a b)
  · intro d hd; exact ⟨swapF_lt a b d n ha hb hd, swapF_invol a b d⟩
  · intro i j _ _ h
    have := congrArg (swapF a b) h
    rwa [swapF_invol, swapF_invol] at this
  · exact hι

/-- Table of `movedim(-1, dm)` on rank `D + 1`: output axis `j` is input axis `mvF dm D j`. -/
def mvF (dm D j : Nat) : Nat := if j < dm then j else if j = dm then D else j - 1

/-- Its inverse: input axis `d` lands at `mvG dm D d`. -/
def mvG (dm D d : Nat) : Nat := if d < dm then d else if d = D then dm else d + 1

theorem range_filter_ne_last (D : Nat) : (List.range (D + 1)).filter (· != D) = List.range D := by
  rw [List.range_succ, List.filter_append]
  have h1 : (List.range D).filter (· != D) = List.range D := by
    apply List.filter_eq_self.mpr
    intro a ha
    have := List.mem_range.mp ha
    simp; omega
  rw [h1]; simp

theorem movedim_last_eq_permute (t : Tensor) (D dm : Nat) (hn : t.shape.length = D + 1)
    (hdm : dm ≤ D) :
    t.movedim D dm = t.permute ((List.range (D + 1)).map (mvF dm D)) := by
  unfold Tensor.movedim
  simp only [hn, range_filter_ne_last]
  congr 1
  apply List.ext_getElem
  · simp; omega
  · intro j h1 h2
    simp only [List.getElem_map, List.getElem_range]
    unfold mvF
    by_cases hj : j < dm
    · rw [List.getElem_append_left (by simp; omega), List.getElem_append_left (by simp; omega)]
      simp [hj]
    · by_cases hj2 : j = dm
      · subst hj2
        rw [List.getElem_append_left (by simp; omega), List.getElem_append_right (by simp)]
        simp
      · rw [List.getElem_append_right (by simp; omega)]
        simp [hj, hj2]
        omega

theorem mv_props (dm D : Nat) (hdm : dm ≤ D) :
    (∀ d, d < D + 1 → mvG dm D d < D + 1 ∧ mvF dm D (mvG dm D d) = d) ∧
    (∀ i j, i < D + 1 → j < D + 1 → mvF dm D i = mvF dm D j → i = j) := by
  constructor
  · intro d hd
    unfold mvF mvG
    split_ifs <;> omega
  · intro i j hi hj
    unfold mvF
    split_ifs <;> omega

theorem movedim_last_shape (t : Tensor) (D dm : Nat) (hn : t.shape.length = D + 1) (hdm : dm ≤ D) :
    (t.movedim D dm).shape = (List.range (D + 1)).map (fun j => t.shape.getD (mvF dm D j) 1) := by
  rw [movedim_last_eq_permute t D dm hn hdm, permute_shape]

theorem movedim_last_at (t : Tensor) (D dm : Nat) (hn : t.shape.length = D + 1) (hdm : dm ≤ D)
    (ι : Nat → Nat) (hι : ∀ j, j < D + 1 → ι j < t.shape.getD (mvF dm D j) 1) :
    (t.movedim D dm).at (D + 1) ι = t.at (D + 1) (fun d => ι (mvG dm D d)) := by
  rw [movedim_last_eq_permute t D dm hn hdm]
  exact permute_at t (D + 1) hn (mvF dm D) (mvG dm D) (mv_props dm D hdm).1 (mv_props dm D hdm).2 ι hι

/-! ## Splitting shapes; rows of a matrix view; uniform `flatten` -/

theorem prod_append (a b : List Nat) : prod (a ++ b) = prod a * prod b := by
  induction a with
  | nil => simp [prod]
  | cons x xs ih => simp [prod, ih, Nat.mul_assoc]

theorem ravel_append : ∀ (a b ia ib : List Nat), ia.length = a.length →
    ravel (a ++ b) (ia ++ ib) = ravel a ia * prod b + ravel b ib
  | [], b, [], ib, _ => by simp [ravel]
  | x :: xs, b, i :: is, ib, h => by
    have := ravel_append xs b is ib (by simpa using h)
    simp only [List.cons_append, ravel, this, prod_append]
    ring
  | [], _, _ :: _, _, h => by simp at h
  | _ :: _, _, [], _, h => by simp at h

theorem ravel_nil_right (s : List Nat) : ravel s [] = 0 := by
  cases s <;> rfl

theorem range_map_succ (n : Nat) (ι : Nat → Nat) :
    (List.range (n + 1)).map ι = (List.range n).map ι ++ [ι n] := by
  rw [List.range_succ, List.map_append]; rfl

/-- Entry `(r, c)` of a concatenation of equally long rows. -/
theorem flatten_getD_uniform {α : Type} (dflt : α) (n : Nat) :
    ∀ (L : List (List α)), (∀ l ∈ L, l.length = n) → ∀ (r c : Nat), r < L.length → c < n →
      L.flatten.getD (r * n + c) dflt = (L.getD r []).getD c dflt
  | [], _, r, _, hr, _ => by simp at hr
  | l :: L, h, 0, c, _, hc => by
    have hl : l.length = n := h l (by simp)
    simp only [List.flatten_cons, Nat.zero_mul, Nat.zero_add, List.getD_cons_zero]
    rw [List.getD_eq_getElem?_getD, List.getD_eq_getElem?_getD,
      List.getElem?_append_left (by omega)]
  | l :: L, h, r + 1, c, hr, hc => by
    have hl : l.length = n := h l (by simp)
    have ih := flatten_getD_uniform dflt n L (fun l' hl' => h l' (by simp [hl'])) r c
      (by simpa using hr) hc
    simp only [List.flatten_cons, List.getD_cons_succ]
    rw [List.getD_eq_getElem?_getD, List.getElem?_append_right (by rw [hl]; nlinarith)]
    rw [← List.getD_eq_getElem?_getD, ← ih]
    congr 1
    rw [hl]; ring_nf; omega

theorem flatten_length_uniform {α : Type} (n : Nat) (L : List (List α))
    (h : ∀ l ∈ L, l.length = n) : L.flatten.length = L.length * n := by
  induction L with
  | nil => simp
  | cons l L ih =>
    simp only [List.flatten_cons, List.length_append, List.length_cons]
    rw [ih (fun l' hl' => h l' (by simp [hl'])), h l (by simp)]
    ring

/-- Row `r` of `data` viewed as a matrix with `n` columns. -/
theorem rowsOf_getD (n : Nat) (data : List Rat) (nrows r : Nat) (hr : r < nrows)
    (hlen : nrows * n ≤ data.length) :
    (rowsOf n data nrows).getD r [] = (List.range n).map (fun i => data.getD (r * n + i) 0) := by
  unfold rowsOf
  rw [List.getD_eq_getElem?_getD, List.getElem?_map, List.getElem?_range hr]
  simp only [Option.map_some, Option.getD_some]
  have hle : r * n + n ≤ data.length := by
    have : (r + 1) * n ≤ data.length := le_trans (Nat.mul_le_mul_right n hr) hlen
    rwa [Nat.add_mul, Nat.one_mul] at this
  apply List.ext_getElem
  · simp; omega
  · intro i h1 h2
    have hi : i < n := by simpa using h2
    simp only [List.getElem_take, List.getElem_drop, List.getElem_map, List.getElem_range]
    rw [List.getD_eq_getElem?_getD, List.getElem?_eq_getElem (by omega)]
    rfl

theorem rowsOf_length (n : Nat) (data : List Rat) (nrows : Nat) : (rowsOf n data nrows).length = nrows := by
  simp [rowsOf]

theorem mapM_eq_some_map {α β : Type} (f : α → Option β) (g : α → β) :
    ∀ (l : List α), (∀ a ∈ l, f a = some (g a)) → l.mapM f = some (l.map g)
  | [], _ => rfl
  | a :: l, h => by
    rw [List.mapM_cons, h a (by simp), mapM_eq_some_map f g l (fun b hb => h b (by simp [hb]))]
    rfl

theorem mapM_eq_none {α β : Type} (f : α → Option β) :
    ∀ (l : List α), (∃ a ∈ l, f a = none) → l.mapM f = none
  | [], h => by obtain ⟨a, ha, _⟩ := h; simp at ha
  | a :: l, h => by
    rw [List.mapM_cons]
    cases hfa : f a with
    | none => rfl
    | some b =>
      obtain ⟨c, hc, hfc⟩ := h
      have : ∃ a ∈ l, f a = none := by
        rcases List.mem_cons.mp hc with rfl | hc'
        · rw [hfa] at hfc; cases hfc
        · exact ⟨c, hc', hfc⟩
      rw [mapM_eq_none f l this]
      rfl

/-! ## Valid index functions; chaining permutations -/

/-- `ι` restricted to `0..n-1` is a legal multi-index of `t`. -/
def VI (t : Tensor) (n : Nat) (ι : Nat → Nat) : Prop := ∀ d, d < n → ι d < t.shape.getD d 1

theorem getD_map_range (n : Nat) (f : Nat → Nat) (j : Nat) (hj : j < n) (dflt : Nat) :
    ((List.range n).map f).getD j dflt = f j := by
  simp [List.getD_eq_getElem?_getD, List.getElem?_range hj]

theorem data_getD_eq_at' (t : Tensor) (n : Nat) (hn : t.shape.length = n) (k : Nat)
    (hk : k < prod t.shape) :
    t.data.getD k 0 = t.at n (fun j => (unravel t.shape k).getD j 0) ∧
    VI t n (fun j => (unravel t.shape k).getD j 0) := by
  refine ⟨data_getD_eq_at t n hn k hk, ?_⟩
  have := (valid_iff_getD _ _).mp (unravel_valid t.shape k hk)
  intro d hd
  exact this.2 d (by omega)

theorem transpose_at' (t : Tensor) (n : Nat) (hn : t.shape.length = n) (a b : Nat) (ha : a < n)
    (hb : b < n) (ι : Nat → Nat) (h : VI (t.transpose a b) n ι) :
    (t.transpose a b).at n ι = t.at n (fun d => ι (swapF a b d)) ∧
    VI t n (fun d => ι (swapF a b d)) := by
  have hs := transpose_shape t n hn a b
  have hι : ∀ j, j < n → ι j < t.shape.getD (swapF a b j) 1 := by
    intro j hj
    have := h j hj
    rwa [hs, getD_map_range n _ j hj] at this
  refine ⟨transpose_at t n hn a b ha hb ι hι, ?_⟩
  intro d hd
  have := hι (swapF a b d) (swapF_lt a b d n ha hb hd)
  rwa [swapF_invol] at this

theorem movedim_last_at' (t : Tensor) (D dm : Nat) (hn : t.shape.length = D + 1) (hdm : dm ≤ D)
    (ι : Nat → Nat) (h : VI (t.movedim D dm) (D + 1) ι) :
    (t.movedim D dm).at (D + 1) ι = t.at (D + 1) (fun d => ι (mvG dm D d)) ∧
    VI t (D + 1) (fun d => ι (mvG dm D d)) := by
  have hs := movedim_last_shape t D dm hn hdm
  have hι : ∀ j, j < D + 1 → ι j < t.shape.getD (mvF dm D j) 1 := by
    intro j hj
    have := h j hj
    rwa [hs, getD_map_range (D + 1) _ j hj] at this
  refine ⟨movedim_last_at t D dm hn hdm ι hι, ?_⟩
  intro d hd
  obtain ⟨h1, h2⟩ := (mv_props dm D hdm).1 d hd
  have := hι (mvG dm D d) h1
  rwa [h2] at this

/-- Entry of the `(rows…, a, b)` view of a table `L[r][u][t]` stored row after row. -/
theorem table_at (pre : List Nat) (m a b : Nat) (hpre : pre.length = m) (L : List (List (List Rat)))
    (hL : L.length = prod pre) (hLa : ∀ l ∈ L, l.length = a) (hLb : ∀ l ∈ L, ∀ v ∈ l, v.length = b)
    (ι : Nat → Nat)
    (hv : VI { shape := pre ++ [a, b], data := (L.map List.flatten).flatten } (m + 2) ι) :
    ({ shape := pre ++ [a, b], data := (L.map List.flatten).flatten } : Tensor).at (m + 2) ι
      = ((L.getD (ravel pre ((List.range m).map ι)) []).getD (ι m) []).getD (ι (m + 1)) 0 ∧
    Valid pre ((List.range m).map ι) ∧ ι m < a ∧ ι (m + 1) < b := by
  have h1 : ι m < a := by
    have := hv m (by omega)
    simpa [List.getD_eq_getElem?_getD, List.getElem?_append_right, hpre] using this
  have h2 : ι (m + 1) < b := by
    have := hv (m + 1) (by omega)
    simpa [List.getD_eq_getElem?_getD, List.getElem?_append_right, hpre] using this
  have hvalid : Valid pre ((List.range m).map ι) := by
    rw [valid_map_range pre m hpre]
    intro d hd
    have := hv d (by omega)
    simpa [List.getD_eq_getElem?_getD, List.getElem?_append_left (by omega : d < pre.length)] using this
  have hr := ravel_lt hvalid
  refine ⟨?_, hvalid, h1, h2⟩
  unfold Tensor.at
  simp only []
  rw [range_map_succ, range_map_succ, List.append_assoc]
  rw [ravel_append pre [a, b] _ _ (by simp [hpre])]
  have e : ravel [a, b] ([ι m] ++ [ι (m + 1)]) = ι m * b + ι (m + 1) := by
    simp [ravel, prod]
  have e2 : prod [a, b] = a * b := by simp [prod]
  rw [e, e2]
  generalize ravel pre ((List.range m).map ι) = r at hr ⊢
  have hflat : ∀ l ∈ L.map List.flatten, l.length = a * b := by
    intro l hl
    obtain ⟨l', hl', rfl⟩ := List.mem_map.mp hl
    rw [flatten_length_uniform b l' (hLb l' hl'), hLa l' hl']
  have hlt : ι m * b + ι (m + 1) < a * b := by
    calc ι m * b + ι (m + 1) < ι m * b + b := by omega
      _ = (ι m + 1) * b := by ring
      _ ≤ a * b := Nat.mul_le_mul_right _ h1
  rw [show r * (a * b) + (ι m * b + ι (m + 1)) = r * (a * b) + (ι m * b + ι (m + 1)) from rfl,
    flatten_getD_uniform 0 (a * b) _ hflat r _ (by simpa [hL] using hr) hlt]
  have hrL : r < L.length := by rw [hL]; exact hr
  have hget : (L.map List.flatten).getD r [] = (L.getD r []).flatten := by
    simp [List.getD_eq_getElem?_getD, List.getElem?_map, List.getElem?_eq_getElem hrL]
  rw [hget]
  have hmem : L.getD r [] ∈ L := by
    rw [List.getD_eq_getElem?_getD, List.getElem?_eq_getElem hrL]; simp
  rw [flatten_getD_uniform 0 b _ (hLb _ hmem) (ι m) (ι (m + 1)) (by rw [hLa _ hmem]; exact h1) h2]

/-! ## `assembleDeltas` without concatenation, as an index map on the table of row deltas -/

/-- Where output axis `j` of the stacked result comes from in the `(rows…, order+1, T)` view. -/
def asmF (m td dm j : Nat) : Nat := swapF m (m + 1) (swapF td m (mvF dm (m + 1) j))

/-- Where axis `d` of the `(rows…, order+1, T)` view lands in the stacked result. -/
def asmG (m td dm d : Nat) : Nat := mvG dm (m + 1) (swapF td m (swapF m (m + 1) d))

theorem transpose_shape_length (t : Tensor) (a b : Nat) : (t.transpose a b).shape.length = t.shape.length := by
  rw [transpose_shape t _ rfl]; simp

theorem assemble_stack (pre : List Nat) (m T td dm order : Nat) (hpre : pre.length = m)
    (htd : td ≤ m) (hdm : dm ≤ m + 1) (outs : List (List (List Rat))) :
    let Y := assembleDeltas (pre ++ [T]) (m + 1) td dm false order outs
    Y.shape = (List.range (m + 2)).map (fun j => (pre ++ [order + 1, T]).getD (asmF m td dm j) 1) ∧
    Y.data.length = prod Y.shape ∧
    (outs.length = prod pre → (∀ l ∈ outs, l.length = order + 1) →
      (∀ l ∈ outs, ∀ v ∈ l, v.length = T) →
    ∀ k, k < prod Y.shape →
      let ι := fun d => (unravel Y.shape k).getD (asmG m td dm d) 0
      Y.data.getD k 0 = ((outs.getD (ravel pre ((List.range m).map ι)) []).getD (ι m) []).getD (ι (m + 1)) 0 ∧
      Valid pre ((List.range m).map ι) ∧ ι m < order + 1 ∧ ι (m + 1) < T) := by
  intro Y
  -- name the intermediate tensors
  let y0 : Tensor := { shape := pre ++ [order + 1, T], data := (outs.map List.flatten).flatten }
  let y1 := y0.transpose m (m + 1)
  let y2 := y1.transpose td m
  let y3 := y2.movedim (m + 1) dm
  have hY : Y = y3 := by
    show assembleDeltas (pre ++ [T]) (m + 1) td dm false order outs = y3
    unfold assembleDeltas
    simp only [List.dropLast_concat, List.getLast?_concat, Option.getD_some, Nat.add_sub_cancel,
      Bool.false_eq_true, if_false]
    rfl
  have h0 : y0.shape.length = m + 2 := by simp [y0, hpre]
  have h1 : y1.shape.length = m + 2 := by rw [transpose_shape_length]; exact h0
  have h2 : y2.shape.length = m + 2 := by rw [transpose_shape_length]; exact h1
  have s1 : ∀ j, j < m + 2 → y1.shape.getD j 1 = y0.shape.getD (swapF m (m + 1) j) 1 := by
    intro j hj
    rw [transpose_shape y0 (m + 2) h0, getD_map_range _ _ j hj]
  have s2 : ∀ j, j < m + 2 → y2.shape.getD j 1 = y1.shape.getD (swapF td m j) 1 := by
    intro j hj
    rw [transpose_shape y1 (m + 2) h1, getD_map_range _ _ j hj]
  have hs3 : y3.shape = (List.range (m + 2)).map (fun j => y2.shape.getD (mvF dm (m + 1) j) 1) :=
    movedim_last_shape y2 (m + 1) dm h2 hdm
  have hshape : y3.shape
      = (List.range (m + 2)).map (fun j => (pre ++ [order + 1, T]).getD (asmF m td dm j) 1) := by
    rw [hs3]
    apply List.map_congr_left
    intro j hj
    have hj' := List.mem_range.mp hj
    have hmv : mvF dm (m + 1) j < m + 2 := by unfold mvF; split_ifs <;> omega
    rw [s2 _ hmv, s1 _ (swapF_lt td m _ (m + 2) (by omega) (by omega) hmv)]
    rfl
  rw [hY]
  refine ⟨hshape, ?_, ?_⟩
  · show (y2.movedim (m + 1) dm).data.length = prod (y2.movedim (m + 1) dm).shape
    rw [movedim_last_eq_permute y2 (m + 1) dm h2 hdm]
    exact permute_data_length _ _
  · intro hL hLa hLb k hk ι
    have h3 : y3.shape.length = m + 2 := by rw [hs3]; simp
    obtain ⟨e3, v3⟩ := data_getD_eq_at' y3 (m + 2) h3 k hk
    obtain ⟨e2, v2⟩ := movedim_last_at' y2 (m + 1) dm h2 hdm _ v3
    obtain ⟨e1, v1⟩ := transpose_at' y1 (m + 2) h1 td m (by omega) (by omega) _ v2
    obtain ⟨e0, v0⟩ := transpose_at' y0 (m + 2) h0 m (m + 1) (by omega) (by omega) _ v1
    have ht := table_at pre m (order + 1) T hpre outs hL hLa hLb _ v0
    rw [e3, e2, e1, e0]
    exact ht

/-! ## Merging two adjacent axes (`flatten(dim, dim + 1)`) -/

theorem prod_merge (P Q : List Nat) (a b : Nat) :
    prod (P ++ a :: b :: Q) = prod (P ++ (a * b) :: Q) := by
  simp [prod_append, prod, Nat.mul_assoc]

theorem unravel_merge (Q : List Nat) (a b : Nat) :
    ∀ (P : List Nat) (k : Nat),
      unravel (P ++ a :: b :: Q) k =
        (unravel (P ++ (a * b) :: Q) k).take P.length ++
          [(unravel (P ++ (a * b) :: Q) k).getD P.length 0 / b,
           (unravel (P ++ (a * b) :: Q) k).getD P.length 0 % b] ++
          (unravel (P ++ (a * b) :: Q) k).drop (P.length + 1)
  | [], k => by
    simp only [List.nil_append, unravel, prod, List.length_nil, List.take_zero, List.getD_cons_zero,
      Nat.zero_add, List.drop_succ_cons, List.drop_zero, List.cons_append]
    rw [Nat.mod_mul_left_div_self, Nat.mod_mul_left_mod, Nat.div_div_eq_div_mul, Nat.mul_comm (prod Q) b]
  | p :: P, k => by
    simp only [List.cons_append, unravel, prod_merge, List.length_cons, List.take_succ_cons,
      List.getD_cons_succ, List.drop_succ_cons]
    rw [unravel_merge Q a b P]

/-! ## The input side: time moved last, rows -/

theorem normDim_some {dim : Int} {D d : Nat} (h : normDim dim D = some d) : d < D := by
  unfold normDim at h
  split at h
  · cases h
  · simp only [Option.some.injEq] at h
    subst h
    rename_i hc
    have hD : (0 : Int) < D := by omega
    have := Int.emod_lt_of_pos (dim + D) hD
    have h0 := Int.emod_nonneg (dim + D) (by omega : (D : Int) ≠ 0)
    omega

theorem prod_perm {l l' : List Nat} (h : l.Perm l') : prod l = prod l' := by
  induction h with
  | nil => rfl
  | cons x _ ih => simp [prod, ih]
  | swap x y l => simp [prod]; ring
  | trans _ _ ih1 ih2 => rw [ih1, ih2]

theorem swap_range_perm (n a b : Nat) (ha : a < n) (hb : b < n) :
    ((List.range n).map (swapF a b)).Perm (List.range n) := by
  have hinj : Function.Injective (swapF a b) := by
    intro i j h
    have := congrArg (swapF a b) h
    rwa [swapF_invol, swapF_invol] at this
  apply (List.perm_ext_iff_of_nodup (List.nodup_range.map hinj) List.nodup_range).mpr
  intro x
  simp only [List.mem_map, List.mem_range]
  constructor
  · rintro ⟨j, hj, rfl⟩; exact swapF_lt a b j n ha hb hj
  · intro hx; exact ⟨swapF a b x, swapF_lt a b x n ha hb hx, swapF_invol a b x⟩

theorem prod_transpose (t : Tensor) (n : Nat) (hn : t.shape.length = n) (a b : Nat) (ha : a < n)
    (hb : b < n) : prod (t.transpose a b).shape = prod t.shape := by
  rw [transpose_shape t n hn a b]
  have h1 : (List.range n).map (fun j => t.shape.getD (swapF a b j) 1)
      = ((List.range n).map (swapF a b)).map (fun d => t.shape.getD d 1) := by
    rw [List.map_map]; rfl
  rw [h1, prod_perm ((swap_range_perm n a b ha hb).map _), map_range_getD t.shape n hn]

/-- Shape of the input with the time axis `td` swapped to the end. -/
theorem xt_shape (x : Tensor) (m td : Nat) (hD : x.shape.length = m + 1) (htd : td ≤ m) :
    (x.transpose td m).shape
      = (List.range m).map (fun j => x.shape.getD (swapF td m j) 1) ++ [x.shape.getD td 1] := by
  have : swapF td m m = td := by unfold swapF; split_ifs <;> omega
  rw [transpose_shape x (m + 1) hD, range_map_succ, this]

theorem list_eq_map_range_getD (l : List Rat) : l = (List.range l.length).map (fun k => l.getD k 0) := by
  apply List.ext_getElem
  · simp
  · intro i h1 h2
    simp [List.getD_eq_getElem?_getD, List.getElem?_eq_getElem h1]

/-! ## The index map of the spec, entry by entry -/

/-- The spec's value for order `u` at the multi-index `idx` of `x`: the order-`u` delta, at
frame `idx[td]`, of the signal obtained by running coordinate `td` of `idx` through `0..T-1`. -/
def deltaEntry (x : Tensor) (td w : Nat) (mode : PadMode) (u : Nat) (idx : List Nat) : Rat :=
  deltaSpec w (extAt mode ((List.range (x.shape.getD td 1)).map
    (fun i => x.data.getD (ravel x.shape (idx.set td i)) 0))) u (idx.getD td 0 : Nat)

theorem asmG_order (m td dm : Nat) (htd : td ≤ m) (hdm : dm ≤ m + 1) : asmG m td dm m = dm := by
  unfold asmG mvG swapF; split_ifs <;> omega

theorem asmG_time (m td dm : Nat) (htd : td ≤ m) (hdm : dm ≤ m + 1) :
    asmG m td dm (m + 1) = if td < dm then td else td + 1 := by
  unfold asmG mvG swapF; split_ifs <;> omega

theorem asmG_other (m td dm d : Nat) (htd : td ≤ m) (hdm : dm ≤ m + 1) (hd : d ≤ m) (hne : d ≠ td) :
    asmG m td dm (swapF td m d) = if d < dm then d else d + 1 := by
  unfold asmG mvG swapF; split_ifs <;> omega

theorem getD_eraseIdx (o : List Nat) (dm d : Nat) :
    (o.eraseIdx dm).getD d 0 = o.getD (if d < dm then d else d + 1) 0 := by
  rw [List.getD_eq_getElem?_getD, List.getD_eq_getElem?_getD, List.getElem?_eraseIdx]
  split_ifs <;> rfl

/-- The multi-index of `x` read by row `r`, frame `i`, equals the spec's `idx.set td i`. -/
theorem stack_entry_index (m td dm : Nat) (htd : td ≤ m) (hdm : dm ≤ m + 1) (o : List Nat)
    (ho : o.length = m + 2) (i : Nat) :
    (List.range (m + 1)).map (fun d =>
        (fun d' => if d' = m then i else o.getD (asmG m td dm d') 0) (swapF td m d))
      = (o.eraseIdx dm).set td i := by
  apply List.ext_getElem
  · simp [List.length_eraseIdx, ho]; omega
  · intro d h1 h2
    have hd : d < m + 1 := by simpa using h1
    simp only [List.getElem_map, List.getElem_range, List.getElem_set]
    by_cases hdt : d = td
    · subst hdt
      have : swapF d m d = m := by unfold swapF; split_ifs <;> omega
      simp [this]
    · have hsw : swapF td m d ≠ m := by unfold swapF; split_ifs <;> omega
      have hne : ¬ td = d := fun h => hdt h.symm
      simp only [hsw, if_false, hne]
      rw [asmG_other m td dm d htd hdm (by omega) hdt]
      have h3 : d < (o.eraseIdx dm).length := by simpa using h2
      have := getD_eraseIdx o dm d
      rw [List.getD_eq_getElem?_getD, List.getElem?_eq_getElem h3] at this
      simpa using this.symm

theorem deltaRowSpec_getD (mode : PadMode) (order w : Nat) (row : List Rat) (u t : Nat)
    (hu : u < order + 1) (ht : t < row.length) :
    ((deltaRowSpec mode order w row).getD u []).getD t 0 = deltaSpec w (extAt mode row) u (t : Int) := by
  unfold deltaRowSpec
  simp [List.getD_eq_getElem?_getD, List.getElem?_range hu, List.getElem?_range ht]

theorem stack_shape (sx : List Nat) (m td dm order : Nat) (hD : sx.length = m + 1) (htd : td ≤ m)
    (hdm : dm ≤ m + 1) :
    (List.range (m + 2)).map (fun j =>
      ((List.range m).map (fun j => sx.getD (swapF td m j) 1) ++ [order + 1, sx.getD td 1]).getD
        (asmF m td dm j) 1)
      = sx.take dm ++ [order + 1] ++ sx.drop dm := by
  have key : ∀ e, e ≤ m →
      ((List.range m).map (fun j => sx.getD (swapF td m j) 1) ++ [order + 1, sx.getD td 1]).getD
        (swapF m (m + 1) (swapF td m e)) 1 = sx.getD e 1 := by
    intro e he
    by_cases h1 : e = td
    · subst h1
      have : swapF m (m + 1) (swapF e m e) = m + 1 := by unfold swapF; split_ifs <;> omega
      rw [this, List.getD_eq_getElem?_getD, List.getElem?_append_right (by simp)]
      simp
    · have h2 : swapF m (m + 1) (swapF td m e) = swapF td m e := by unfold swapF; split_ifs <;> omega
      have h3 : swapF td m e < m := by unfold swapF; split_ifs <;> omega
      rw [h2, List.getD_eq_getElem?_getD, List.getElem?_append_left (by simpa using h3)]
      simp [List.getElem?_range h3, swapF_invol, List.getD_eq_getElem?_getD]
  apply List.ext_getElem
  · simp [hD]; omega
  · intro j h1 h2
    have hj : j < m + 2 := by simpa using h1
    simp only [List.getElem_map, List.getElem_range]
    by_cases c1 : j < dm
    · have : asmF m td dm j = swapF m (m + 1) (swapF td m j) := by
        unfold asmF mvF; simp [c1]
      rw [this, key j (by omega), List.getElem_append_left (by simp [hD] <;> omega),
        List.getElem_append_left (by simp [hD] <;> omega)]
      simp [List.getD_eq_getElem?_getD, List.getElem?_eq_getElem (by omega : j < sx.length)]
    · by_cases c2 : j = dm
      · subst c2
        have : asmF m td j j = m := by unfold asmF mvF swapF; split_ifs <;> omega
        rw [this, List.getElem_append_left (by simp [hD] <;> omega),
          List.getElem_append_right (by simp [hD] <;> omega)]
        rw [List.getD_eq_getElem?_getD, List.getElem?_append_right (by simp)]
        simp [hD]
      · have : asmF m td dm j = swapF m (m + 1) (swapF td m (j - 1)) := by
          unfold asmF mvF; simp [c1, c2]
        rw [this, key (j - 1) (by omega), List.getElem_append_right (by simp [hD] <;> omega)]
        simp only [List.getElem_drop]
        rw [List.getD_eq_getElem?_getD, List.getElem?_eq_getElem (by omega : j - 1 < sx.length)]
        simp only [Option.getD_some]
        congr 1
        simp [hD]; omega

end PdtVerif.FeatStats
