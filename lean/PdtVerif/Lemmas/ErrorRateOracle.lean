import PdtVerif.Lemmas.ErrorRate
/-!
# The polynomial oracle `optCounts` is exact (C02, improvement round)

`optCounts c ref hyp` (Spec/ErrorRate.lean) is a row DP that carries, per cell, the minimal cost
and the *set* of edit counts of all minimum-cost scripts. The harness uses it as the oracle of
the property for sequences too long for the brute-force enumeration `optimalEditCounts`. Here:

* `aligns_snoc_inv` — every script between `r ++ [x]` and `h ++ [y]` ends in exactly one of the
  three DP moves (insertion of `y`, deletion of `x`, substitution / match);
* `countOfOptimal_snoc` — hence the set of edit counts of minimum-cost scripts obeys the
  three-way recursion restricted to the moves that attain the minimum (no sign condition on the
  costs); `countOfOptimal_nil_left/right` for the borders;
* `OptOK`, `optStep_ok`, `optCountsPrefixes_ok` — the row invariant of the set-carrying DP.
-/
set_option linter.unusedSectionVars false
set_option linter.unusedVariables false

namespace PdtVerif.ErrorRate
open PdtVerif.Lev

variable {α : Type} [DecidableEq α]

/-! ## A. how a script ends -/

theorem aligns_cons_inv {t : List (Edit α)} {r h : List α} {x y : α}
    (a : Aligns t (x :: r) (y :: h)) :
    (∃ t', t = Edit.ins y :: t' ∧ Aligns t' (x :: r) h) ∨
    (∃ t', t = Edit.del x :: t' ∧ Aligns t' r (y :: h)) ∨
    (∃ t', t = Edit.sub x y :: t' ∧ x ≠ y ∧ Aligns t' r h) ∨
    (∃ t', t = Edit.keep x :: t' ∧ x = y ∧ Aligns t' r h) := by
  cases a with
  | ins _ a' => exact Or.inl ⟨_, rfl, a'⟩
  | del _ a' => exact Or.inr (Or.inl ⟨_, rfl, a'⟩)
  | sub _ _ hne a' => exact Or.inr (Or.inr (Or.inl ⟨_, rfl, hne, a'⟩))
  | keep _ a' => exact Or.inr (Or.inr (Or.inr ⟨_, rfl, rfl, a'⟩))

theorem eq_snoc_of_reverse_eq_cons {β : Type} {s t' : List β} {e : β} (h : s.reverse = e :: t') :
    s = t'.reverse ++ [e] := by
  have := congrArg List.reverse h
  simpa using this

theorem aligns_unreverse {t : List (Edit α)} {r h : List α}
    (a : Aligns t r.reverse h.reverse) : Aligns t.reverse r h := by
  simpa using a.reverse

/-- **A script between `r ++ [x]` and `h ++ [y]` ends in one of the three DP moves.** -/
theorem aligns_snoc_inv {s : List (Edit α)} {r h : List α} {x y : α}
    (a : Aligns s (r ++ [x]) (h ++ [y])) :
    (∃ s', s = s' ++ [Edit.ins y] ∧ Aligns s' (r ++ [x]) h) ∨
    (∃ s', s = s' ++ [Edit.del x] ∧ Aligns s' r (h ++ [y])) ∨
    (∃ s', s = s' ++ [Edit.sub x y] ∧ x ≠ y ∧ Aligns s' r h) ∨
    (∃ s', s = s' ++ [Edit.keep x] ∧ x = y ∧ Aligns s' r h) := by
  have a' := a.reverse
  simp only [List.reverse_append, List.reverse_cons, List.reverse_nil, List.nil_append,
    List.singleton_append] at a'
  rcases aligns_cons_inv a' with ⟨t', ht, at'⟩ | ⟨t', ht, at'⟩ | ⟨t', ht, hne, at'⟩ | ⟨t', ht, he, at'⟩
  · refine Or.inl ⟨t'.reverse, eq_snoc_of_reverse_eq_cons ht, ?_⟩
    have : Aligns t' (r ++ [x]).reverse h.reverse := by simpa using at'
    exact aligns_unreverse this
  · refine Or.inr (Or.inl ⟨t'.reverse, eq_snoc_of_reverse_eq_cons ht, ?_⟩)
    have : Aligns t' r.reverse (h ++ [y]).reverse := by simpa using at'
    exact aligns_unreverse this
  · exact Or.inr (Or.inr (Or.inl ⟨t'.reverse, eq_snoc_of_reverse_eq_cons ht, hne, aligns_unreverse at'⟩))
  · exact Or.inr (Or.inr (Or.inr ⟨t'.reverse, eq_snoc_of_reverse_eq_cons ht, he, aligns_unreverse at'⟩))

theorem aligns_nil_left {s : List (Edit α)} {r h : List α} (a : Aligns s r h) (hr : r = []) :
    s = insAll h := by
  induction a with
  | nil => rfl
  | ins y _ ih => simp [insAll, ih hr]
  | del x _ _ => cases hr
  | sub x y _ _ _ => cases hr
  | keep x _ _ => cases hr

theorem aligns_nil_right {s : List (Edit α)} {r h : List α} (a : Aligns s r h) (hh : h = []) :
    s = delAll r := by
  induction a with
  | nil => rfl
  | ins y _ _ => cases hh
  | del x _ ih => simp [delAll, ih hh]
  | sub x y _ _ _ => cases hh
  | keep x _ _ => cases hh

theorem numEdits_insAll (h : List α) : numEdits (insAll h) = h.length := by
  induction h with
  | nil => rfl
  | cons y h ih =>
    simp only [insAll, List.map_cons, numEdits, List.countP_cons, Edit.isEdit, List.length_cons] at ih ⊢
    simp [ih]

/-! ## B. the recursion of the set of optimal edit counts -/

theorem countOfOptimal_iff (c : Costs) (r h : List α) (m : Nat) :
    CountOfOptimal c r h m ↔ ∃ s, Aligns s r h ∧ scriptCost c s = lev c r h ∧ numEdits s = m := by
  unfold CountOfOptimal
  simp only [isOptimal_iff, and_assoc]

theorem countOfOptimal_nil_left (c : Costs) (h : List α) (m : Nat) :
    CountOfOptimal c [] h m ↔ m = h.length := by
  rw [countOfOptimal_iff]
  constructor
  · rintro ⟨s, a, _, e⟩
    rw [aligns_nil_left a rfl, numEdits_insAll] at e
    exact e.symm
  · rintro rfl
    exact ⟨insAll h, aligns_insAll h, by rw [scriptCost_insAll, lev_nil_left], numEdits_insAll h⟩

theorem countOfOptimal_nil_right (c : Costs) (r : List α) (m : Nat) :
    CountOfOptimal c r [] m ↔ m = r.length := by
  rw [countOfOptimal_iff]
  constructor
  · rintro ⟨s, a, _, e⟩
    rw [aligns_nil_right a rfl, numEdits_delAll] at e
    exact e.symm
  · rintro rfl
    exact ⟨delAll r, aligns_delAll r, by rw [scriptCost_delAll, lev_nil_right], numEdits_delAll r⟩

theorem lev_snoc_le (c : Costs) (r h : List α) (x y : α) :
    lev c (r ++ [x]) (h ++ [y]) ≤ lev c r (h ++ [y]) + c.del ∧
    lev c (r ++ [x]) (h ++ [y]) ≤ lev c (r ++ [x]) h + c.ins ∧
    lev c (r ++ [x]) (h ++ [y]) ≤ lev c r h + subCost c x y := by
  rw [lev_snoc]
  refine ⟨?_, ?_, ?_⟩
  · exact le_trans (min_le_left _ _) (min_le_left _ _)
  · exact le_trans (min_le_left _ _) (min_le_right _ _)
  · exact min_le_right _ _

/-- Number of edits contributed by the diagonal move. -/
def diagEdits (x y : α) : Nat := if x = y then 0 else 1

/-- **Three-way recursion of the set of optimal edit counts** (prefix form, all cost triples):
`m` is the edit count of a minimum-cost script for `(r ++ [x], h ++ [y])` iff it comes from a
minimum-cost script of one of the three sub-problems through a move that attains the minimum. -/
theorem countOfOptimal_snoc (c : Costs) (r h : List α) (x y : α) (m : Nat) :
    CountOfOptimal c (r ++ [x]) (h ++ [y]) m ↔
      (lev c r (h ++ [y]) + c.del = lev c (r ++ [x]) (h ++ [y]) ∧
        ∃ m', CountOfOptimal c r (h ++ [y]) m' ∧ m = m' + 1) ∨
      (lev c (r ++ [x]) h + c.ins = lev c (r ++ [x]) (h ++ [y]) ∧
        ∃ m', CountOfOptimal c (r ++ [x]) h m' ∧ m = m' + 1) ∨
      (lev c r h + subCost c x y = lev c (r ++ [x]) (h ++ [y]) ∧
        ∃ m', CountOfOptimal c r h m' ∧ m = m' + diagEdits x y) := by
  obtain ⟨hD, hI, hS⟩ := lev_snoc_le c r h x y
  simp only [countOfOptimal_iff]
  constructor
  · rintro ⟨s, a, ec, em⟩
    rcases aligns_snoc_inv a with ⟨s', rfl, a'⟩ | ⟨s', rfl, a'⟩ | ⟨s', rfl, hne, a'⟩ | ⟨s', rfl, he, a'⟩
    · have hl := lev_le_scriptCost c a'
      rw [scriptCost_snoc] at ec
      simp only [Edit.cost] at ec
      rw [numEdits_snoc] at em
      simp only [Edit.isEdit, if_true] at em
      refine Or.inr (Or.inl ⟨by linarith, numEdits s', ⟨s', a', by linarith, rfl⟩, em.symm⟩)
    · have hl := lev_le_scriptCost c a'
      rw [scriptCost_snoc] at ec
      simp only [Edit.cost] at ec
      rw [numEdits_snoc] at em
      simp only [Edit.isEdit, if_true] at em
      refine Or.inl ⟨by linarith, numEdits s', ⟨s', a', by linarith, rfl⟩, em.symm⟩
    · have hl := lev_le_scriptCost c a'
      rw [scriptCost_snoc] at ec
      simp only [Edit.cost] at ec
      rw [numEdits_snoc] at em
      simp only [Edit.isEdit, if_true] at em
      have hs : subCost c x y = c.sub := by simp [subCost, hne]
      rw [hs] at hS ⊢
      refine Or.inr (Or.inr ⟨by linarith, numEdits s', ⟨s', a', by linarith, rfl⟩, ?_⟩)
      simp [diagEdits, hne, em.symm]
    · subst he
      have hl := lev_le_scriptCost c a'
      rw [scriptCost_snoc] at ec
      simp only [Edit.cost] at ec
      rw [numEdits_snoc] at em
      simp only [Edit.isEdit] at em
      have hs : subCost c x x = 0 := by simp [subCost]
      rw [hs] at hS ⊢
      refine Or.inr (Or.inr ⟨by linarith, numEdits s', ⟨s', a', by linarith, rfl⟩, ?_⟩)
      simpa [diagEdits] using em.symm
  · rintro (⟨e, m', ⟨s', a', ec, rfl⟩, rfl⟩ | ⟨e, m', ⟨s', a', ec, rfl⟩, rfl⟩ |
      ⟨e, m', ⟨s', a', ec, rfl⟩, rfl⟩)
    · refine ⟨s' ++ [Edit.del x], ?_, ?_, ?_⟩
      · simpa using a'.append (Aligns.del x Aligns.nil)
      · rw [scriptCost_snoc, ec, ← e]; rfl
      · rw [numEdits_snoc]; rfl
    · refine ⟨s' ++ [Edit.ins y], ?_, ?_, ?_⟩
      · simpa using a'.append (Aligns.ins y Aligns.nil)
      · rw [scriptCost_snoc, ec, ← e]; rfl
      · rw [numEdits_snoc]; rfl
    · by_cases hxy : x = y
      · subst hxy
        refine ⟨s' ++ [Edit.keep x], a'.append (Aligns.keep x Aligns.nil), ?_, ?_⟩
        · rw [scriptCost_snoc, ec, ← e]; simp [subCost, Edit.cost]
        · rw [numEdits_snoc]; simp [diagEdits, Edit.isEdit]
      · refine ⟨s' ++ [Edit.sub x y], a'.append (Aligns.sub x y hxy Aligns.nil), ?_, ?_⟩
        · rw [scriptCost_snoc, ec, ← e]; simp [subCost, Edit.cost, hxy]
        · rw [numEdits_snoc]; simp [diagEdits, Edit.isEdit, hxy]

/-! ## C. the sorted sets of the oracle -/

theorem mem_insertNat (m n : Nat) (l : List Nat) : m ∈ insertNat n l ↔ m = n ∨ m ∈ l := by
  induction l with
  | nil => simp [insertNat]
  | cons k ks ih =>
    unfold insertNat
    split_ifs with h1 h2
    · simp
    · subst h2; simp
    · simp only [List.mem_cons, ih]
      tauto

theorem mem_unionNat (m : Nat) (a b : List Nat) : m ∈ unionNat a b ↔ m ∈ a ∨ m ∈ b := by
  unfold unionNat
  induction a generalizing b with
  | nil => simp
  | cons n a ih =>
    simp only [List.foldl_cons, ih, mem_insertNat, List.mem_cons]
    tauto

theorem mem_bump (cost : Rat) (k : Nat) (x : OptCell) (m : Nat) :
    m ∈ (bump cost k x).2 ↔ ∃ m', m' ∈ x.2 ∧ m = m' + k := by
  simp only [bump, List.mem_map]
  constructor
  · rintro ⟨a, ha, rfl⟩; exact ⟨a, ha, rfl⟩
  · rintro ⟨a, ha, rfl⟩; exact ⟨a, ha, rfl⟩

theorem mem_best3 (a b d : OptCell) (m : Nat) :
    m ∈ (best3 a b d).2 ↔
      (a.1 = min (min a.1 b.1) d.1 ∧ m ∈ a.2) ∨ (b.1 = min (min a.1 b.1) d.1 ∧ m ∈ b.2) ∨
      (d.1 = min (min a.1 b.1) d.1 ∧ m ∈ d.2) := by
  have pick : ∀ (x : OptCell) (M : Rat), m ∈ (if x.1 = M then x.2 else []) ↔ (x.1 = M ∧ m ∈ x.2) := by
    intro x M
    split_ifs with h <;> simp [h]
  simp only [best3, mem_unionNat, pick]

/-! ## D. the row invariant of the set-carrying DP -/

/-- The cell holds the weighted Levenshtein distance and exactly the edit counts of the
minimum-cost scripts between `r` and `h`. -/
def OptOK (c : Costs) (r h : List α) (cell : OptCell) : Prop :=
  cell.1 = lev c r h ∧ ∀ m, m ∈ cell.2 ↔ CountOfOptimal c r h m

/-- The diagonal candidate of `optSweep`. -/
theorem diagCand (c : Costs) (x y : α) (diag : OptCell) :
    (if x = y then diag else bump c.sub 1 diag).1 = diag.1 + subCost c x y ∧
    ∀ m, m ∈ (if x = y then diag else bump c.sub 1 diag).2 ↔
      ∃ m', m' ∈ diag.2 ∧ m = m' + diagEdits x y := by
  by_cases hxy : x = y
  · simp [hxy, subCost, diagEdits]
  · simp only [hxy, if_false, subCost, diagEdits]
    exact ⟨rfl, fun m => mem_bump c.sub 1 diag m⟩

/-- **One cell of the oracle.** -/
theorem optCell_ok (c : Costs) (pre h : List α) (x y : α) (diag up left : OptCell)
    (hd : OptOK c pre h diag) (hu : OptOK c (pre ++ [x]) h up)
    (hl : OptOK c pre (h ++ [y]) left) :
    OptOK c (pre ++ [x]) (h ++ [y])
      (best3 (bump c.del 1 left) (bump c.ins 1 up) (if x = y then diag else bump c.sub 1 diag)) := by
  obtain ⟨ed, md⟩ := hd
  obtain ⟨eu, mu⟩ := hu
  obtain ⟨el, ml⟩ := hl
  obtain ⟨dc, dm⟩ := diagCand c x y diag
  have hcost : min (min (bump c.del 1 left).1 (bump c.ins 1 up).1)
      (if x = y then diag else bump c.sub 1 diag).1 = lev c (pre ++ [x]) (h ++ [y]) := by
    rw [lev_snoc, dc]
    simp only [bump, el, eu, ed]
  constructor
  · show min (min (bump c.del 1 left).1 (bump c.ins 1 up).1)
      (if x = y then diag else bump c.sub 1 diag).1 = _
    exact hcost
  · intro m
    rw [mem_best3, hcost, countOfOptimal_snoc, dc]
    simp only [dm, mem_bump, ml, mu, md]
    simp only [bump, el, eu, ed]

/-- Cells `j+1 ..` of an oracle row. -/
inductive OTail (c : Costs) (h : List α) : List α → List α → List OptCell → Prop where
  | nil (pre : List α) : OTail c h pre [] []
  | cons {pre : List α} {x : α} {xs : List α} {cell : OptCell} {cells : List OptCell} :
      OptOK c (pre ++ [x]) h cell → OTail c h (pre ++ [x]) xs cells →
      OTail c h pre (x :: xs) (cell :: cells)

def ORowOK (c : Costs) (ref h : List α) (row : List OptCell) : Prop :=
  ∃ d0 rest, row = d0 :: rest ∧ OptOK c [] h d0 ∧ OTail c h [] ref rest

theorem optSweep_ok (c : Costs) (y : α) (h : List α) (pre xs : List α) (diag : OptCell)
    (ups : List OptCell) (left : OptCell)
    (hd : OptOK c pre h diag) (ht : OTail c h pre xs ups) (hl : OptOK c pre (h ++ [y]) left) :
    OTail c (h ++ [y]) pre xs (optSweep c y xs diag ups left) := by
  induction ht generalizing diag left with
  | nil pre => exact OTail.nil pre
  | @cons pre x xs up rest hu _ ih =>
    simp only [optSweep]
    have hc := optCell_ok c pre h x y diag up left hd hu hl
    exact OTail.cons hc (ih up _ hu hc)

theorem OptOK.ins_nil {c : Costs} {h : List α} {cell : OptCell} (hc : OptOK c [] h cell) (y : α) :
    OptOK c [] (h ++ [y]) (bump c.ins 1 cell) := by
  obtain ⟨e, hm⟩ := hc
  constructor
  · simp only [bump, e, lev_snoc_right_nil]
  · intro m
    rw [mem_bump, countOfOptimal_nil_left]
    simp only [hm, countOfOptimal_nil_left, List.length_append, List.length_cons, List.length_nil]
    constructor
    · rintro ⟨m', rfl, rfl⟩; rfl
    · rintro rfl; exact ⟨h.length, rfl, rfl⟩

theorem optStep_ok (c : Costs) (ref h : List α) (y : α) (row : List OptCell)
    (hr : ORowOK c ref h row) : ORowOK c ref (h ++ [y]) (optStep c ref y row) := by
  obtain ⟨d0, rest, rfl, h0, ht⟩ := hr
  simp only [optStep]
  exact ⟨_, _, rfl, h0.ins_nil y, optSweep_ok c y h [] ref d0 rest _ h0 ht (h0.ins_nil y)⟩

theorem optOK_del (c : Costs) (r : List α) : OptOK c r [] (c.del * ((r.length : Nat) : Rat), [r.length]) := by
  constructor
  · simp only [lev_nil_right]
  · intro m
    rw [countOfOptimal_nil_right]
    simp

theorem optRow0_tail (c : Costs) (pre xs : List α) :
    OTail c [] pre xs
      ((List.range xs.length).map (fun (i : Nat) =>
        ((c.del * ((pre.length + 1 + i : Nat) : Rat), [pre.length + 1 + i]) : OptCell))) := by
  induction xs generalizing pre with
  | nil => exact OTail.nil pre
  | cons x xs ih =>
    rw [List.length_cons, List.range_succ_eq_map, List.map_cons, List.map_map]
    refine OTail.cons ?_ ?_
    · have := optOK_del c (pre ++ [x])
      simpa using this
    · have := ih (pre ++ [x])
      simp only [List.length_append, List.length_cons, List.length_nil] at this
      convert this using 2
      funext i
      simp only [Function.comp, Nat.succ_eq_add_one]
      have : pre.length + 1 + (i + 1) = pre.length + (0 + 1) + 1 + i := by omega
      rw [this]

theorem optRow0_ok (c : Costs) (ref : List α) : ORowOK c ref [] (optRow0 c ref) := by
  unfold optRow0
  rw [List.range_succ_eq_map, List.map_cons, List.map_map]
  refine ⟨_, _, rfl, ?_, ?_⟩
  · simpa using optOK_del c ([] : List α)
  · have := optRow0_tail c [] ref
    simp only [List.length_nil] at this
    convert this using 2
    funext i
    simp only [Function.comp, Nat.succ_eq_add_one]
    have : 0 + 1 + i = i + 1 := by omega
    rw [this]

theorem OTail.getElem? {c : Costs} {h pre xs : List α} {cells : List OptCell}
    (ht : OTail c h pre xs cells) (j : Nat) (hj : j < xs.length) :
    ∃ cell, cells[j]? = some cell ∧ OptOK c (pre ++ xs.take (j + 1)) h cell := by
  induction ht generalizing j with
  | nil pre => simp at hj
  | @cons pre x xs cell cells hc _ ih =>
    cases j with
    | zero => exact ⟨cell, by simp, by simpa using hc⟩
    | succ j =>
      obtain ⟨cl, e, ok⟩ := ih j (by simpa using hj)
      exact ⟨cl, by simpa using e, by simpa [List.take_succ_cons, List.append_assoc] using ok⟩

theorem ORowOK.getElem? {c : Costs} {ref h : List α} {row : List OptCell} (hr : ORowOK c ref h row)
    (j : Nat) (hj : j ≤ ref.length) :
    ∃ cell, row[j]? = some cell ∧ OptOK c (ref.take j) h cell := by
  obtain ⟨d0, rest, rfl, h0, ht⟩ := hr
  cases j with
  | zero => exact ⟨d0, by simp, by simpa using h0⟩
  | succ j =>
    obtain ⟨cl, e, ok⟩ := ht.getElem? j (by omega)
    exact ⟨cl, by simpa using e, by simpa using ok⟩

/-- What the oracle reads from a row: the cell of the whole reference. -/
theorem ORowOK.last {c : Costs} {ref h : List α} {row : List OptCell} (hr : ORowOK c ref h row) :
    OptOK c ref h (row.getD ref.length (0, [])) := by
  obtain ⟨cell, e, ok⟩ := hr.getElem? ref.length (Nat.le_refl _)
  rw [List.getD_eq_getElem?_getD, e]
  simpa using ok

/-! ## E. the fold over the hypothesis -/

/-- State of `optCountsPrefixes` after consuming the hypothesis prefix `h₀`. -/
def OptAccOK (c : Costs) (ref h₀ : List α) (acc : List OptCell × List OptCell) : Prop :=
  ORowOK c ref h₀ acc.1 ∧ acc.2.length = h₀.length + 1 ∧
    ∀ k cell, acc.2[k]? = some cell → OptOK c ref (h₀.take k) cell

def optAccStep (c : Costs) (ref : List α) (acc : List OptCell × List OptCell) (y : α) :
    List OptCell × List OptCell :=
  let row := optStep c ref y acc.1
  (row, acc.2 ++ [row.getD ref.length (0, [])])

theorem optAccStep_ok (c : Costs) (ref h₀ : List α) (y : α) (acc : List OptCell × List OptCell)
    (ha : OptAccOK c ref h₀ acc) : OptAccOK c ref (h₀ ++ [y]) (optAccStep c ref acc y) := by
  obtain ⟨hr, hlen, hk⟩ := ha
  have hr' := optStep_ok c ref h₀ y acc.1 hr
  refine ⟨hr', by simp [optAccStep, hlen], ?_⟩
  intro k cell hcell
  simp only [optAccStep] at hcell
  by_cases hlt : k < acc.2.length
  · rw [List.getElem?_append_left hlt] at hcell
    have := hk k cell hcell
    rwa [List.take_append_of_le_length (by omega)]
  · have hge : acc.2.length ≤ k := by omega
    rw [List.getElem?_append_right hge] at hcell
    have hk0 : k - acc.2.length = 0 := by
      by_contra hne
      have : (([(optStep c ref y acc.1).getD ref.length (0, [])] : List OptCell))[k - acc.2.length]? = none := by
        apply List.getElem?_eq_none
        simp only [List.length_cons, List.length_nil]
        omega
      rw [this] at hcell
      cases hcell
    rw [hk0] at hcell
    simp only [List.getElem?_cons_zero, Option.some.injEq] at hcell
    subst hcell
    have hkeq : k = (h₀ ++ [y]).length := by
      simp only [List.length_append, List.length_cons, List.length_nil]; omega
    rw [hkeq, List.take_length]
    exact hr'.last

theorem foldl_optAccStep_ok (c : Costs) (ref h₀ h : List α) (acc : List OptCell × List OptCell)
    (ha : OptAccOK c ref h₀ acc) : OptAccOK c ref (h₀ ++ h) (h.foldl (optAccStep c ref) acc) := by
  induction h generalizing h₀ acc with
  | nil => simpa using ha
  | cons y h ih =>
    simp only [List.foldl_cons]
    have := ih (h₀ ++ [y]) _ (optAccStep_ok c ref h₀ y acc ha)
    simpa using this

theorem optCountsPrefixes_eq (c : Costs) (ref hyp : List α) :
    optCountsPrefixes c ref hyp
      = (hyp.foldl (optAccStep c ref)
          (optRow0 c ref, [(optRow0 c ref).getD ref.length (0, [])])).2 := rfl

theorem optAcc0_ok (c : Costs) (ref : List α) :
    OptAccOK c ref [] (optRow0 c ref, [(optRow0 c ref).getD ref.length (0, [])]) := by
  refine ⟨optRow0_ok c ref, rfl, ?_⟩
  intro k cell hcell
  cases k with
  | zero =>
    simp only [List.getElem?_cons_zero, Option.some.injEq] at hcell
    subst hcell
    simpa using (optRow0_ok c ref).last
  | succ k => simp at hcell

/-- **Row invariant of the whole oracle**: entry `k` of `optCountsPrefixes` is exact for the
hypothesis prefix of length `k`. -/
theorem optCountsPrefixes_ok (c : Costs) (ref hyp : List α) :
    (optCountsPrefixes c ref hyp).length = hyp.length + 1 ∧
      ∀ k cell, (optCountsPrefixes c ref hyp)[k]? = some cell → OptOK c ref (hyp.take k) cell := by
  have := foldl_optAccStep_ok c ref [] hyp _ (optAcc0_ok c ref)
  rw [optCountsPrefixes_eq]
  simp only [List.nil_append] at this
  exact ⟨this.2.1, this.2.2⟩

theorem optCounts_ok (c : Costs) (ref hyp : List α) : OptOK c ref hyp (optCounts c ref hyp) := by
  obtain ⟨hlen, hk⟩ := optCountsPrefixes_ok c ref hyp
  unfold optCounts
  have hne : optCountsPrefixes c ref hyp ≠ [] := by
    intro h0; rw [h0] at hlen; simp at hlen
  have hl : (optCountsPrefixes c ref hyp)[hyp.length]? = some ((optCountsPrefixes c ref hyp).getLastD (0, [])) := by
    rw [List.getLastD_eq_getLast?, List.getLast?_eq_getElem?, hlen]
    simp only [Nat.add_sub_cancel]
    cases h : (optCountsPrefixes c ref hyp)[hyp.length]? with
    | none =>
      have := List.getElem?_eq_none_iff.1 h
      omega
    | some v => rfl
  have := hk hyp.length _ hl
  rwa [List.take_length] at this

/-! ## F. same members, same extremes -/

theorem min?_congr {l l' : List Nat} (h : ∀ m, m ∈ l ↔ m ∈ l') : l.min? = l'.min? := by
  cases hl : l.min? with
  | none =>
    have : l = [] := List.min?_eq_none_iff.1 hl
    have : l' = [] := by
      cases l' with
      | nil => rfl
      | cons a t => have := (h a).2 (by simp); simp_all
    simp [this]
  | some a =>
    obtain ⟨ha, hmin⟩ := List.min?_eq_some_iff.1 hl
    symm
    exact List.min?_eq_some_iff.2 ⟨(h a).1 ha, fun b hb => hmin b ((h b).2 hb)⟩

theorem max?_congr {l l' : List Nat} (h : ∀ m, m ∈ l ↔ m ∈ l') : l.max? = l'.max? := by
  cases hl : l.max? with
  | none =>
    have : l = [] := List.max?_eq_none_iff.1 hl
    have : l' = [] := by
      cases l' with
      | nil => rfl
      | cons a t => have := (h a).2 (by simp); simp_all
    simp [this]
  | some a =>
    obtain ⟨ha, hmax⟩ := List.max?_eq_some_iff.1 hl
    symm
    exact List.max?_eq_some_iff.2 ⟨(h a).1 ha, fun b hb => hmax b ((h b).2 hb)⟩

end PdtVerif.ErrorRate
