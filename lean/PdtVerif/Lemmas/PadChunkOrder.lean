import PdtVerif.Lemmas.PadChunk
/-!
# Lemmas for C09: masked compaction keeps the order (core Lean only)

`compact mask xs` is, by definition, `filter` on the zipped list. This file says what that means without
reference to `filter`:

* `compact_sublist` — the result is a sublist of `xs` (elements in their original relative order, none
  invented, none repeated beyond the input);
* `trueIdx_*`, `compact_getElem?` — element `j` of the result is `xs[i]` for `i` the position of the `j`-th
  true cell; the positions are strictly increasing and are exactly the true cells;
* `compact_append` — compaction is a homomorphism for aligned concatenation, hence stable under inserting
  masked-out elements anywhere (`compact_replicate_false`).
-/
namespace PdtVerif.PadChunk
open PdtVerif.PadSlice
variable {α : Type}

theorem compact_nil_left (xs : List α) : compact [] xs = [] := by simp [compact]
theorem compact_nil_right (m : List Bool) : compact m ([] : List α) = [] := by simp [compact]

theorem compact_cons (b : Bool) (m : List Bool) (x : α) (xs : List α) :
    compact (b :: m) (x :: xs) = if b then x :: compact m xs else compact m xs := by
  cases b <;> simp [compact]

/-- the selected elements are a sublist of the input: same relative order, nothing else -/
theorem compact_sublist (m : List Bool) (xs : List α) : (compact m xs).Sublist xs := by
  induction m generalizing xs with
  | nil => simp [compact]
  | cons b m ih =>
    cases xs with
    | nil => simp [compact]
    | cons x xs =>
      rw [compact_cons]
      cases b with
      | false => exact (ih xs).cons x
      | true => exact (ih xs).cons_cons x

/-- aligned concatenation: compacting `x1 ++ x2` by `m1 ++ m2` compacts the two parts separately -/
theorem compact_append (m1 m2 : List Bool) (x1 x2 : List α) (h : m1.length = x1.length) :
    compact (m1 ++ m2) (x1 ++ x2) = compact m1 x1 ++ compact m2 x2 := by
  induction m1 generalizing x1 with
  | nil =>
    have : x1 = [] := by simpa using h.symm
    simp [this, compact]
  | cons b m1 ih =>
    cases x1 with
    | nil => simp at h
    | cons x x1 =>
      have h' : m1.length = x1.length := by simpa using h
      simp only [List.cons_append, compact_cons, ih x1 h']
      cases b <;> simp

/-- a block of masked-out elements contributes nothing -/
theorem compact_replicate_false (k : Nat) (ys : List α) : compact (List.replicate k false) ys = [] := by
  induction k generalizing ys with
  | zero => simp [compact]
  | succ k ih =>
    cases ys with
    | nil => simp [compact]
    | cons y ys => simp [List.replicate_succ, compact_cons, ih]

/-! ### the positions of the true cells -/

theorem trueIdxFrom_ge (i : Nat) (m : List Bool) : ∀ k ∈ trueIdxFrom i m, i ≤ k := by
  induction m generalizing i with
  | nil => simp [trueIdxFrom]
  | cons b m ih =>
    intro k hk
    cases b with
    | false =>
      have := ih (i + 1) k (by simpa [trueIdxFrom] using hk)
      omega
    | true =>
      simp only [trueIdxFrom, if_true, List.mem_cons] at hk
      rcases hk with rfl | hk
      · exact Nat.le_refl _
      · have := ih (i + 1) k hk
        omega

/-- strictly increasing -/
theorem trueIdxFrom_pairwise (i : Nat) (m : List Bool) : (trueIdxFrom i m).Pairwise (· < ·) := by
  induction m generalizing i with
  | nil => simp [trueIdxFrom]
  | cons b m ih =>
    cases b with
    | false => simpa [trueIdxFrom] using ih (i + 1)
    | true =>
      simp only [trueIdxFrom, if_true, List.pairwise_cons]
      refine ⟨?_, ih (i + 1)⟩
      intro k hk
      have := trueIdxFrom_ge (i + 1) m k hk
      omega

/-- exactly the true cells -/
theorem mem_trueIdxFrom (i : Nat) (m : List Bool) (k : Nat) :
    k ∈ trueIdxFrom i m ↔ i ≤ k ∧ m[k - i]? = some true := by
  induction m generalizing i with
  | nil => simp [trueIdxFrom]
  | cons b m ih =>
    have hstep : ∀ (hik : i + 1 ≤ k), (b :: m)[k - i]? = m[k - (i + 1)]? := by
      intro hik
      have : k - i = (k - (i + 1)) + 1 := by omega
      rw [this, List.getElem?_cons_succ]
    cases b with
    | false =>
      simp only [trueIdxFrom, Bool.false_eq_true, if_false, ih (i + 1)]
      constructor
      · rintro ⟨h1, h2⟩
        exact ⟨by omega, by rw [hstep h1]; exact h2⟩
      · rintro ⟨h1, h2⟩
        by_cases hik : i + 1 ≤ k
        · exact ⟨hik, by rw [← hstep hik]; exact h2⟩
        · have : k - i = 0 := by omega
          rw [this] at h2
          simp at h2
    | true =>
      simp only [trueIdxFrom, if_true, List.mem_cons, ih (i + 1)]
      constructor
      · rintro (rfl | ⟨h1, h2⟩)
        · simp
        · exact ⟨by omega, by rw [hstep h1]; exact h2⟩
      · rintro ⟨h1, h2⟩
        by_cases hik : i + 1 ≤ k
        · exact Or.inr ⟨hik, by rw [← hstep hik]; exact h2⟩
        · exact Or.inl (by omega)

theorem trueIdxFrom_length (i : Nat) (m : List Bool) : (trueIdxFrom i m).length = m.count true := by
  induction m generalizing i with
  | nil => simp [trueIdxFrom]
  | cons b m ih => cases b <;> simp [trueIdxFrom, ih]

/-- element `j` of the compaction is the input element at the position of the `j`-th true cell
(positions counted from `i` for the induction; `xs` is read at `position - i`) -/
theorem compact_getElem?_from (i : Nat) (m : List Bool) (xs : List α) (h : m.length ≤ xs.length) (j : Nat) :
    (compact m xs)[j]? = ((trueIdxFrom i m)[j]?).bind (fun k => xs[k - i]?) := by
  induction m generalizing i xs j with
  | nil => simp [compact, trueIdxFrom]
  | cons b m ih =>
    cases xs with
    | nil => simp at h
    | cons x xs =>
      have h' : m.length ≤ xs.length := by simpa using h
      have hshift : ∀ j : Nat, ((trueIdxFrom (i + 1) m)[j]?).bind (fun k => (x :: xs)[k - i]?)
          = ((trueIdxFrom (i + 1) m)[j]?).bind (fun k => xs[k - (i + 1)]?) := by
        intro j
        cases hk : (trueIdxFrom (i + 1) m)[j]? with
        | none => rfl
        | some k =>
          have hge := trueIdxFrom_ge (i + 1) m k (List.mem_of_getElem? hk)
          have : k - i = (k - (i + 1)) + 1 := by omega
          simp [this]
      rw [compact_cons]
      cases b with
      | false =>
        simp only [Bool.false_eq_true, if_false, trueIdxFrom]
        rw [ih (i + 1) xs h' j, hshift]
      | true =>
        simp only [if_true, trueIdxFrom]
        cases j with
        | zero => simp
        | succ j =>
          simp only [List.getElem?_cons_succ]
          rw [ih (i + 1) xs h' j, hshift]

end PdtVerif.PadChunk
