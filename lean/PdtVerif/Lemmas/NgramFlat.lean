import PdtVerif.Lemmas.NgramFill
import PdtVerif.Lemmas.NgramClose
import PdtVerif.Lemmas.NgramFlatCheck
/-!
# Lemmas for C06, part 11: `C06_flat` – the buffers `buildTrie` lays out represent the table

Assembly of the pieces: closure (`NgramClose`), sort (`NgramSort`), allocation (`NgramFill`),
child scan (`NgramScan`).
-/
namespace PdtVerif.NgramTrie
open PdtVerif.Backoff

/-! ## the closed levels, lowest order first -/

/-- The closed levels `C` (lowest order first, raw keys) of the raw dictionaries `dicts`. -/
structure ClosedLv (V : Nat) (sos : Int) (dicts C : List (List Item)) : Prop where
  len : C.length = dicts.length
  ext : ∀ (j : Nat) (c raw : List Item), C[j]? = some c → dicts[j]? = some raw →
    ∃ ex, c = raw ++ ex ∧ ∀ e ∈ ex, IsDummy e
  nodup : ∀ c ∈ C, keysNodup c
  keys : ∀ (j : Nat) (c : List Item), C[j]? = some c →
    ∀ e ∈ c, e.key.length = j + 1 ∧ ∀ t ∈ e.key, validTok V sos t
  closed : ∀ (j : Nat) (c l : List Item), C[j]? = some l → C[j + 1]? = some c →
    ∀ e ∈ c, e.key.tail ∈ l.map (·.key)
  uni : ∀ t ∈ uniToks V sos, ∃ c, C[0]? = some c ∧ [t] ∈ c.map (·.key)
  ne : ∀ c ∈ C, c ≠ []
  uniLen : ∀ c, C[0]? = some c → c.length = V + shiftOf V sos

theorem cons_tail_reverse (dicts : List (List Item)) (h : dicts ≠ []) :
    dicts.getLastD [] :: dicts.reverse.tail = dicts.reverse := by
  have hr : dicts.reverse ≠ [] := by simpa using h
  cases hd : dicts.reverse with
  | nil => exact absurd hd hr
  | cons a as =>
    have : dicts = (a :: as).reverse := by rw [← hd]; simp
    rw [this]
    simp [List.getLastD_eq_getLast?]

theorem closedLv_of_closeDown (V : Nat) (sos : Int) (dicts r : List (List Item)) (hne : dicts ≠ [])
    (htop : dicts.getLastD [] ≠ [])
    (h : closeDown V sos (dicts.getLastD []) dicts.reverse.tail = some r)
    (hnd : ∀ d ∈ dicts, keysNodup d) : ClosedLv V sos dicts r.reverse := by
  obtain ⟨f1, f2, f3, f4, f5, f6⟩ := closeDown_facts V sos _ _ r h
  have f7 := closeDown_nonempty V sos _ _ r h htop
  have hlen : r.length = dicts.length := by
    rw [f1]; simp only [List.length_tail, List.length_reverse]
    have := List.length_pos_iff.mpr hne; omega
  rw [cons_tail_reverse dicts hne] at f2 f3
  have hidx : ∀ (j : Nat) (c : List Item), r.reverse[j]? = some c →
      j < r.length ∧ r[r.length - 1 - j]? = some c := by
    intro j c hc
    have hj : j < r.length := by
      obtain ⟨h, _⟩ := List.getElem?_eq_some_iff.mp hc
      simpa using h
    rw [List.getElem?_reverse hj] at hc
    exact ⟨hj, hc⟩
  have hr : r ≠ [] := by
    intro e; rw [e] at hlen; simp at hlen; exact hne (List.eq_nil_of_length_eq_zero hlen.symm)
  have hpos := List.length_pos_iff.mpr hr
  have hlast : r.reverse[0]? = some (r.getLastD []) := by
    rw [List.getElem?_reverse (by omega), List.getLastD_eq_getLast?, List.getLast?_eq_getElem?]
    have : r.length - 1 - 0 = r.length - 1 := by omega
    rw [this]
    cases hh : r[r.length - 1]? with
    | none =>
      have := List.getElem?_eq_none_iff.mp hh; omega
    | some x => rfl
  have hspec := closeDown_spec V sos _ _ r h (by
    have : (dicts.reverse.tail).getLastD (dicts.getLastD []) = dicts.headD [] := by
      cases dicts with
      | nil => exact absurd rfl hne
      | cons d ds =>
        simp only [List.reverse_cons, List.headD_cons]
        cases hds : ds.reverse with
        | nil =>
          have : ds = [] := by simpa using hds
          subst this; simp
        | cons x xs => simp [List.getLastD_eq_getLast?]
    rw [this]
    cases dicts with
    | nil => exact absurd rfl hne
    | cons d ds => exact hnd d (by simp))
  refine ⟨by simp [hlen], ?_, ?_, ?_, ?_, ?_, ?_, ?_⟩
  · intro j c raw hc hraw
    obtain ⟨hj, hc'⟩ := hidx j c hc
    apply f2 (r.length - 1 - j) c raw hc'
    have hj' : r.length - 1 - j < dicts.length := by omega
    rw [List.getElem?_reverse hj', ← hlen]
    have e : r.length - 1 - (r.length - 1 - j) = j := by omega
    rw [e]; exact hraw
  · intro c hc
    exact f3 (fun d hd => hnd d (by simpa using hd)) c (by simpa using hc)
  · intro j c hc e he
    obtain ⟨hj, hc'⟩ := hidx j c hc
    have := f4 _ c hc' e he
    exact ⟨by omega, this.2⟩
  · intro j c l hl hc e he
    obtain ⟨hj, hc'⟩ := hidx (j + 1) c hc
    obtain ⟨_, hl'⟩ := hidx j l hl
    have e1 : r.length - 1 - j = (r.length - 1 - (j + 1)) + 1 := by omega
    rw [e1] at hl'
    exact f5 _ c l hc' hl' e he
  · intro t ht
    exact ⟨_, hlast, f6 t ht⟩
  · intro c hc
    exact f7 c (by simpa using hc)
  · intro c hc
    rw [hlast] at hc
    simp only [Option.some.injEq] at hc
    rw [← hc]; exact hspec.2.1

/-! ## … and after `sos → V` -/

theorem nodup_map_on {α β} (f : α → β) {l : List α} (hf : ∀ a ∈ l, ∀ b ∈ l, f a = f b → a = b)
    (h : l.Nodup) : (l.map f).Nodup := by
  rw [List.nodup_iff_pairwise_ne, List.pairwise_map]
  rw [List.nodup_iff_pairwise_ne] at h
  exact List.Pairwise.imp_of_mem (fun ha hb hab e => hab (hf _ ha _ hb e)) h

/-- The levels the trie is built from (keys oldest token first, `sos` renamed), lowest order
first: what the allocation needs to know about them. -/
structure RemLv (nU : Nat) (L : List (List Item)) : Prop where
  facts : ∀ (j : Nat) (l : List Item), L[j]? = some l → l ≠ [] ∧ (l.map (·.key)).Nodup ∧
    ∀ e ∈ l, e.key.length = j + 1 ∧ ∀ t ∈ e.key, 0 ≤ t ∧ t < (nU : Int)
  closed : ∀ (j : Nat) (c l : List Item), L[j]? = some l → L[j + 1]? = some c →
    ∀ e ∈ c, e.key.tail ∈ l.map (·.key)
  uni : ∀ x, x < nU → ∃ l, L[0]? = some l ∧ [Int.ofNat x] ∈ l.map (·.key)
  uniLen : ∀ l, L[0]? = some l → l.length = nU

theorem remapItem_key (V : Nat) (sos : Int) (e : Item) :
    (remapItem V sos e).key = e.key.map (remapTok V sos) := rfl

theorem remLv_of_closedLv (V : Nat) (sos : Int) (dicts C : List (List Item))
    (H : ClosedLv V sos dicts C) :
    RemLv (V + shiftOf V sos) (C.map (fun d => d.map (remapItem V sos))) := by
  have hget : ∀ (j : Nat) (l : List Item), (C.map (fun d => d.map (remapItem V sos)))[j]? = some l →
      ∃ c, C[j]? = some c ∧ l = c.map (remapItem V sos) := by
    intro j l hl
    rw [List.getElem?_map] at hl
    obtain ⟨c, hc, rfl⟩ := Option.map_eq_some_iff.mp hl
    exact ⟨c, hc, rfl⟩
  refine ⟨?_, ?_, ?_, ?_⟩
  · intro j l hl
    obtain ⟨c, hc, rfl⟩ := hget j l hl
    have hcm : c ∈ C := List.mem_of_getElem? hc
    have hk := H.keys j c hc
    refine ⟨?_, ?_, ?_⟩
    · intro e
      exact H.ne c hcm (List.map_eq_nil_iff.mp e)
    · have hnd := H.nodup c hcm
      unfold keysNodup at hnd
      have : (c.map (remapItem V sos)).map (·.key) = (c.map (·.key)).map (List.map (remapTok V sos)) := by
        simp [List.map_map, Function.comp_def, remapItem_key]
      rw [this]
      apply nodup_map_on _ _ hnd
      intro a ha b hb hab
      obtain ⟨ea, hea, rfl⟩ := List.mem_map.mp ha
      obtain ⟨eb, heb, rfl⟩ := List.mem_map.mp hb
      exact map_remap_inj V sos _ _ (hk ea hea).2 (hk eb heb).2 hab
    · intro e he
      obtain ⟨e0, he0, rfl⟩ := List.mem_map.mp he
      rw [remapItem_key]
      refine ⟨by simpa using (hk e0 he0).1, ?_⟩
      intro t ht
      obtain ⟨t0, ht0, rfl⟩ := List.mem_map.mp ht
      exact remapTok_dom V sos t0 ((hk e0 he0).2 t0 ht0)
  · intro j c l hl hc e he
    obtain ⟨l0, hl0, rfl⟩ := hget j l hl
    obtain ⟨c0, hc0, rfl⟩ := hget (j + 1) c hc
    obtain ⟨e0, he0, rfl⟩ := List.mem_map.mp he
    have := H.closed j c0 l0 hl0 hc0 e0 he0
    obtain ⟨e1, he1, hk1⟩ := List.mem_map.mp this
    rw [List.mem_map]
    refine ⟨remapItem V sos e1, List.mem_map.mpr ⟨e1, he1, rfl⟩, ?_⟩
    rw [remapItem_key, remapItem_key, hk1, List.map_tail]
  · intro x hx
    -- the raw token that is renamed to `x`
    have : ∃ t ∈ uniToks V sos, remapTok V sos t = Int.ofNat x := by
      by_cases hxV : x < V
      · refine ⟨Int.ofNat x, ?_, remapTok_ofNat V sos x hxV⟩
        rw [mem_uniToks]
        exact Or.inl ⟨Int.natCast_nonneg x, by show (x : Int) < V; exact_mod_cast hxV⟩
      · rcases shiftOf_cases V sos with ⟨h0, _⟩ | ⟨h1, hn⟩
        · omega
        · refine ⟨sos, (mem_uniToks V sos sos).mpr (Or.inr ⟨h1, rfl⟩), ?_⟩
          unfold remapTok
          rw [if_pos ⟨h1, rfl⟩]
          have : x = V := by omega
          rw [this]; rfl
    obtain ⟨t, ht, hrt⟩ := this
    obtain ⟨c, hc, hmem⟩ := H.uni t ht
    refine ⟨c.map (remapItem V sos), by rw [List.getElem?_map, hc]; rfl, ?_⟩
    obtain ⟨e, he, hek⟩ := List.mem_map.mp hmem
    rw [List.mem_map]
    refine ⟨remapItem V sos e, List.mem_map.mpr ⟨e, he, rfl⟩, ?_⟩
    rw [remapItem_key, hek]
    simp [hrt]
  · intro l hl
    obtain ⟨c, hc, rfl⟩ := hget 0 l hl
    rw [List.length_map]; exact H.uniLen c hc

/-! ## from the index form to `LevelsOK` -/

theorem levelsOK_of_index : ∀ (Ls : List (List Item)) (prev : List Item) (m : Nat) (K : List (List Int)),
    (∀ k, k ∈ K ↔ ∃ e ∈ prev, e.key.reverse = k) →
    (∀ (i : Nat) (d : List Item), Ls[i]? = some d →
      d ≠ [] ∧ (d.map (·.key)).Nodup ∧ ∀ e ∈ d, e.key.length = m + 1 + i) →
    (∀ d, Ls[0]? = some d → ∀ e ∈ d, e.key.tail ∈ prev.map (·.key)) →
    (∀ (i : Nat) (d d' : List Item), Ls[i]? = some d → Ls[i + 1]? = some d' →
      ∀ e ∈ d', e.key.tail ∈ d.map (·.key)) →
    LevelsOK m K Ls
  | [], _, _, _, _, _, _, _ => trivial
  | d :: rest, prev, m, K, hK, hfacts, hfirst, hcl => by
    obtain ⟨h1, h2, h3⟩ := hfacts 0 d (by simp)
    refine ⟨h1, h2, fun e he => by simpa using h3 e he, ?_, ?_⟩
    · intro e he
      rw [List.dropLast_reverse]
      have := hfirst d (by simp) e he
      obtain ⟨e', he', hk⟩ := List.mem_map.mp this
      exact (hK _).mpr ⟨e', he', by rw [hk]⟩
    · apply levelsOK_of_index rest d (m + 1) _
      · intro k
        rw [List.mem_map]
        constructor
        · rintro ⟨e, he, rfl⟩
          obtain ⟨e', he', rfl⟩ := (mem_sortLevel d e).mp he
          exact ⟨e', he', rfl⟩
        · rintro ⟨e', he', rfl⟩
          exact ⟨_, (mem_sortLevel d _).mpr ⟨e', he', rfl⟩, rfl⟩
      · intro i d' hd'
        have := hfacts (i + 1) d' (by simpa using hd')
        refine ⟨this.1, this.2.1, fun e he => ?_⟩
        have := this.2.2 e he
        omega
      · intro d' hd' e he
        exact hcl 0 d d' (by simp) (by simpa using hd') e he
      · intro i a a' ha ha' e he
        exact hcl (i + 1) a a' (by simpa using ha) (by simpa using ha') e he

/-! ## the unigram level -/

/-- Reversed keys of the unigram nodes `0, 1, …, nU - 1`. -/
def uniKeys (nU : Nat) : List (List Int) := (List.range nU).map (fun x => [Int.ofNat x])

theorem uniKeys_length (nU : Nat) : (uniKeys nU).length = nU := by simp [uniKeys]

theorem uniKeys_get (nU j : Nat) (r : List Int) : (uniKeys nU)[j]? = some r ↔ j < nU ∧ r = [Int.ofNat j] := by
  unfold uniKeys
  rw [List.getElem?_map]
  constructor
  · intro h
    obtain ⟨x, hx, rfl⟩ := Option.map_eq_some_iff.mp h
    obtain ⟨hj, e⟩ := List.getElem?_eq_some_iff.mp hx
    simp only [List.length_range] at hj
    rw [List.getElem_range] at e
    subst e
    exact ⟨hj, rfl⟩
  · rintro ⟨hj, rfl⟩
    rw [List.getElem?_range hj]; rfl

theorem mem_uniKeys (nU : Nat) (r : List Int) : r ∈ uniKeys nU ↔ ∃ x, x < nU ∧ r = [Int.ofNat x] := by
  simp only [uniKeys, List.mem_map, List.mem_range]
  constructor
  · rintro ⟨x, hx, rfl⟩; exact ⟨x, hx, rfl⟩
  · rintro ⟨x, hx, rfl⟩; exact ⟨x, hx, rfl⟩

theorem uniKeys_nodup (nU : Nat) : (uniKeys nU).Nodup :=
  nodup_map_inj _ (fun a b h => by simp at h; omega) List.nodup_range

theorem uniKeys_sorted (nU : Nat) : (uniKeys nU).Pairwise (fun a b => lexLe a b = true) := by
  unfold uniKeys
  rw [List.pairwise_map]
  have : (List.range nU).Pairwise (· < ·) := List.pairwise_lt_range
  refine List.Pairwise.imp ?_ this
  intro a b hab
  unfold lexLe
  rw [if_pos (by show (a : Int) < (b : Int); exact_mod_cast hab)]

theorem lookup_of_mem_nodup : ∀ (l : List (List Int × Nat)) (k : List Int) (v : Nat),
    (l.map Prod.fst).Nodup → (k, v) ∈ l → l.lookup k = some v
  | [], _, _, _, h => by cases h
  | (a, b) :: l, k, v, hnd, h => by
    rw [List.map_cons, List.nodup_cons] at hnd
    rw [List.lookup_cons]
    by_cases hka : k = a
    · subst hka
      simp only [beq_self_eq_true]
      rcases List.mem_cons.mp h with h | h
      · simp only [Prod.mk.injEq] at h; rw [h.2]
      · exfalso; exact hnd.1 (List.mem_map.mpr ⟨(k, v), h, rfl⟩)
    · have : (k == a) = false := beq_eq_false_iff_ne.mpr hka
      rw [this]
      rcases List.mem_cons.mp h with h | h
      · simp only [Prod.mk.injEq] at h; exact absurd h.1 hka
      · exact lookup_of_mem_nodup l k v hnd.2 h

theorem eq_of_key_eq : ∀ (l : List Item), (l.map (·.key)).Nodup → ∀ a ∈ l, ∀ b ∈ l, a.key = b.key → a = b
  | [], _, _, h, _, _, _ => by cases h
  | x :: l, hnd, a, ha, b, hb, hab => by
    rw [List.map_cons, List.nodup_cons] at hnd
    rcases List.mem_cons.mp ha with hax | ha'
    · rcases List.mem_cons.mp hb with hbx | hb'
      · rw [hax, hbx]
      · exfalso; exact hnd.1 (List.mem_map.mpr ⟨b, hb', by rw [← hab, hax]⟩)
    · rcases List.mem_cons.mp hb with hbx | hb'
      · exfalso; exact hnd.1 (List.mem_map.mpr ⟨a, ha', by rw [hab, hbx]⟩)
      · exact eq_of_key_eq l hnd.2 a ha' b hb' hab

theorem nU_pos (V : Nat) (sos : Int) : 1 ≤ V + shiftOf V sos := by
  rcases shiftOf_cases V sos with ⟨_, h1, h2⟩ | ⟨h1, _⟩
  · omega
  · omega

/-- The state before the first level above the unigrams is allocated. -/
theorem initFill_ready (V : Nat) (sos : Int) (N : Nat) (hN : 2 ≤ N) (levels : List (List Item)) :
    Ready (initFill V sos N levels) (V + shiftOf V sos + 1) 0 (uniKeys (V + shiftOf V sos)) := by
  have hmod : 1 % N = 1 := Nat.mod_eq_of_lt (by omega)
  refine ⟨?_, ?_, ?_, Or.inl rfl, ?_, uniKeys_nodup _, uniKeys_sorted _, ?_⟩
  · simp [initFill, uniKeys_length]
  · intro j hj
    have hj' : j < V + shiftOf V sos := by simpa [uniKeys_length] using hj
    have hk : (uniKeys (V + shiftOf V sos))[j] = [Int.ofNat j] := by
      have := (uniKeys_get _ j _).mp (List.getElem?_eq_getElem hj)
      exact this.2
    refine ⟨j, ?_, by simp [initFill]⟩
    rw [hk]
    simp only [initFill, hmod]
    apply lookup_of_mem_nodup
    · rw [List.map_map]
      exact nodup_map_inj _ (fun a b h => by simp at h; omega) List.nodup_range
    · rw [List.mem_map]
      exact ⟨j, List.mem_range.mpr (by omega), rfl⟩
  · intro q _
    simp only [initFill, Array.getD_eq_getD_getElem?]
    rw [Array.getElem?_replicate]; split <;> rfl
  · simp [initFill]
  · intro e
    have := congrArg List.length e
    rw [uniKeys_length] at this
    have := nU_pos V sos
    simp at *; omega

theorem put_getD (vals : List LogP) : ∀ (n : Nat) (a : Array LogP), n ≤ a.size → ∀ i,
    ((List.range n).foldl (fun acc i => acc.setIfInBounds i (vals.getD i LogP.nan)) a).getD i LogP.nan =
      if i < n then vals.getD i LogP.nan else a.getD i LogP.nan
  | 0, a, _, i => by simp
  | n + 1, a, hn, i => by
    rw [List.range_succ, List.foldl_append]
    simp only [List.foldl_cons, List.foldl_nil]
    rw [getD_set, foldl_set_size (fun i => vals.getD i LogP.nan)]
    by_cases h : n = i
    · subst h
      rw [if_pos ⟨rfl, by omega⟩, if_pos (by omega)]
    · rw [if_neg (fun hh => h hh.1), put_getD vals n a (by omega) i]
      by_cases h2 : i < n
      · rw [if_pos h2, if_pos (by omega)]
      · rw [if_neg h2, if_neg (by omega)]

/-- The unigram item that `_build_trie` reads for node `x`: `prob_dict[x]`. -/
def uval (levels : List (List Item)) (x : Nat) : Item :=
  ((levels.headD []).find? (fun e => e.key == [Int.ofNat x])).getD default

theorem initFill_logps (V : Nat) (sos : Int) (N : Nat) (levels : List (List Item)) (x : Nat)
    (hx : x < V + shiftOf V sos)
    (hP : V + shiftOf V sos ≤ sizeO N levels + (levels.getLastD []).length) :
    (initFill V sos N levels).logps.getD x LogP.nan = (uval levels x).logp := by
  have h := put_getD ((List.range (V + shiftOf V sos)).map (fun x => (uval levels x).logp))
    (V + shiftOf V sos)
    (Array.replicate (sizeO N levels + (levels.getLastD []).length) (LogP.fin 0))
    (by simpa using hP) x
  rw [if_pos hx] at h
  have hv : ((List.range (V + shiftOf V sos)).map (fun x => (uval levels x).logp)).getD x LogP.nan =
      (uval levels x).logp := by
    rw [List.getD_eq_getElem?_getD, List.getElem?_map, List.getElem?_range hx]; rfl
  rw [hv] at h
  rw [← h]
  simp [initFill, sizeO, uval, List.map_map, Function.comp_def]

theorem initFill_logbs (V : Nat) (sos : Int) (N : Nat) (hN : N ≠ 1) (levels : List (List Item)) (x : Nat)
    (hx : x < V + shiftOf V sos) (hO : V + shiftOf V sos ≤ sizeO N levels) :
    (initFill V sos N levels).logbs.getD x LogP.nan = (uval levels x).logb := by
  have h := put_getD ((List.range (V + shiftOf V sos)).map (fun x => (uval levels x).logb))
    (V + shiftOf V sos) (Array.replicate (sizeO N levels) (LogP.fin 0)) (by simpa using hO) x
  rw [if_pos hx] at h
  have hv : ((List.range (V + shiftOf V sos)).map (fun x => (uval levels x).logb)).getD x LogP.nan =
      (uval levels x).logb := by
    rw [List.getD_eq_getElem?_getD, List.getElem?_map, List.getElem?_range hx]; rfl
  rw [hv] at h
  rw [← h]
  simp [initFill, sizeO, uval, List.map_map, Function.comp_def, hN]

theorem initFill_logbs_size (V : Nat) (sos : Int) (N : Nat) (levels : List (List Item)) :
    (initFill V sos N levels).logbs.size = sizeO N levels := by
  unfold initFill sizeO
  simp only
  split
  · simp
  · rw [foldl_set_size]; simp

/-- The unigram item of node `x` is the one with key `[x]`. -/
theorem uval_spec (nU : Nat) (levels : List (List Item)) (H : RemLv nU levels) (x : Nat) (hx : x < nU)
    (l : List Item) (hl : levels[0]? = some l) (e : Item) (he : e ∈ l) (hk : e.key = [Int.ofNat x]) :
    uval levels x = e := by
  have hhead : levels.headD [] = l := by
    rw [List.headD_eq_head?_getD, List.head?_eq_getElem?, hl]; rfl
  unfold uval
  rw [hhead]
  cases hf : l.find? (fun e => e.key == [Int.ofNat x]) with
  | none =>
    exfalso
    have := List.find?_eq_none.mp hf e he
    simp [hk] at this
  | some e' =>
    have h1 := List.find?_some hf
    have h2 := List.mem_of_find?_eq_some hf
    simp only [beq_iff_eq] at h1
    exact eq_of_key_eq l (H.facts 0 l hl).2.1 e' h2 e he (h1.trans hk.symm)

/-! ## sizes -/

theorem need_sum : ∀ (tl : List (List Item)), tl ≠ [] →
    (tl.map List.length).sum + tl.length = need tl + (tl.getLastD []).length
  | [], h => absurd rfl h
  | [d], _ => by simp [need]; omega
  | d :: d' :: rest, _ => by
    have ih := need_sum (d' :: rest) (by simp)
    simp only [List.map_cons, List.sum_cons, List.length_cons, need, List.getLastD_cons] at ih ⊢
    omega

theorem keyLens_of_index : ∀ (Ls : List (List Item)) (m : Nat),
    (∀ (i : Nat) (d : List Item), Ls[i]? = some d → ∀ e ∈ d, e.key.length = m + i) →
    KeyLens m (Ls.map sortLevel)
  | [], _, _ => trivial
  | d :: rest, m, h => by
    refine ⟨?_, keyLens_of_index rest (m + 1) ?_⟩
    · intro e he
      obtain ⟨e', he', rfl⟩ := (mem_sortLevel d e).mp he
      simpa using h 0 d (by simp) e' he'
    · intro i d' hd' e he
      have := h (i + 1) d' (by simpa using hd') e he
      omega

theorem assemble_fields (V : Nat) (sos : Int) (N : Nat) (closedRev : List (List Item)) :
    (assemble V sos N closedRev).offsets =
      (fillLevels (V + shiftOf V sos + 1 % N)
        (closedRev.reverse.map (fun d => d.map (remapItem V sos))).tail
        (initFill V sos N (closedRev.reverse.map (fun d => d.map (remapItem V sos))))).offsets ∧
    (assemble V sos N closedRev).ids =
      (fillLevels (V + shiftOf V sos + 1 % N)
        (closedRev.reverse.map (fun d => d.map (remapItem V sos))).tail
        (initFill V sos N (closedRev.reverse.map (fun d => d.map (remapItem V sos))))).ids ∧
    (assemble V sos N closedRev).logps =
      (fillLevels (V + shiftOf V sos + 1 % N)
        (closedRev.reverse.map (fun d => d.map (remapItem V sos))).tail
        (initFill V sos N (closedRev.reverse.map (fun d => d.map (remapItem V sos))))).logps ∧
    (assemble V sos N closedRev).logbs =
      (fillLevels (V + shiftOf V sos + 1 % N)
        (closedRev.reverse.map (fun d => d.map (remapItem V sos))).tail
        (initFill V sos N (closedRev.reverse.map (fun d => d.map (remapItem V sos))))).logbs ∧
    (assemble V sos N closedRev).S =
      maxDirect (fillLevels (V + shiftOf V sos + 1 % N)
        (closedRev.reverse.map (fun d => d.map (remapItem V sos))).tail
        (initFill V sos N (closedRev.reverse.map (fun d => d.map (remapItem V sos))))).offsets
        (V + shiftOf V sos + 1) ∧
    (assemble V sos N closedRev).N = N := ⟨rfl, rfl, rfl, rfl, rfl, rfl⟩

/-! ## every node of every level is where the lookup looks for it -/

/-- **The node lemma.** `b`: buffers whose arrays are those of `fillLevels` on the levels
`L1 :: tl` (`sos` renamed, closed). For every reversed key `r` over the token domain, of
length `1 … N`: if an item of the level `|r|` has the key `r` reversed, the lookup reaches a
node that holds its values; otherwise it reaches nothing. -/
theorem node_lemma (V : Nat) (sos : Int) (N : Nat) (L1 : List Item) (tl : List (List Item))
    (hN : (L1 :: tl).length = N) (H : RemLv (V + shiftOf V sos) (L1 :: tl)) (b : Buffers)
    (hoffs : b.offsets = (fillLevels (V + shiftOf V sos + 1 % N) tl (initFill V sos N (L1 :: tl))).offsets)
    (hids : b.ids = (fillLevels (V + shiftOf V sos + 1 % N) tl (initFill V sos N (L1 :: tl))).ids)
    (hlogps : b.logps = (fillLevels (V + shiftOf V sos + 1 % N) tl (initFill V sos N (L1 :: tl))).logps)
    (hlogbs : b.logbs = (fillLevels (V + shiftOf V sos + 1 % N) tl (initFill V sos N (L1 :: tl))).logbs)
    (hS : b.S = maxDirect b.offsets (V + shiftOf V sos + 1)) :
    ∀ r : List Int, r ≠ [] → r.length ≤ N →
      (∀ t ∈ r, 0 ≤ t ∧ t < ((V + shiftOf V sos : Nat) : Int)) →
      (∀ (j : Nat) (l : List Item) (e : Item), (L1 :: tl)[j]? = some l → e ∈ l → e.key.reverse = r →
        ∃ q, reach (flatNav b (V + shiftOf V sos + 1 % N)) r = some q ∧
          b.logps.getD q LogP.nan = e.logp ∧ (r.length < N → b.logbs.getD q LogP.nan = e.logb)) ∧
      ((∀ (j : Nat) (l : List Item) (e : Item), (L1 :: tl)[j]? = some l → e ∈ l → e.key.reverse ≠ r) →
        reach (flatNav b (V + shiftOf V sos + 1 % N)) r = none) := by
  have hnU := nU_pos V sos
  have hL1len : L1.length = V + shiftOf V sos := H.uniLen L1 (by simp)
  have hNtl : N = tl.length + 1 := by simpa using hN.symm
  -- sizes of the initial state
  obtain ⟨i1, i2, i3, i4⟩ := initFill_spec V sos N (L1 :: tl)
  have i5 := initFill_logbs_size V sos N (L1 :: tl)
  have hsum : ((L1 :: tl).map List.length).sum = (V + shiftOf V sos) + (tl.map List.length).sum := by
    simp [hL1len]
  have hGle : ((L1 :: tl).getLastD []).length ≤ ((L1 :: tl).map List.length).sum := by
    rw [getLastD_length]; exact getLastD_le_sum _
  have hP : V + shiftOf V sos ≤ sizeO N (L1 :: tl) + ((L1 :: tl).getLastD []).length := by
    unfold sizeO; omega
  -- the unigram cells survive the allocation of the higher levels
  have huni : ∀ x, x < V + shiftOf V sos →
      b.logps.getD x LogP.nan = (uval (L1 :: tl) x).logp ∧
      (N ≠ 1 → b.logbs.getD x LogP.nan = (uval (L1 :: tl) x).logb) := by
    intro x hx
    cases htl : tl with
    | nil =>
      subst htl
      rw [hlogps]
      simp only [fillLevels]
      exact ⟨initFill_logps V sos N _ x hx hP, fun h => absurd (by simpa using hNtl) h⟩
    | cons d rest =>
      have hne : tl ≠ [] := by rw [htl]; simp
      have hN2 : 2 ≤ N := by rw [hNtl, htl]; simp
      have hmod : 1 % N = 1 := Nat.mod_eq_of_lt (by omega)
      have hns := need_sum tl hne
      have hlast : (L1 :: tl).getLastD [] = tl.getLastD [] := by
        rw [List.getLastD_cons]; exact getLastD_irrel _ _ _ hne
      have hGle' : (tl.getLastD []).length ≤ (tl.map List.length).sum := by
        rw [getLastD_length]; exact getLastD_le_sum _
      have hO : sizeO N (L1 :: tl) = (V + shiftOf V sos) + need tl := by
        unfold sizeO; rw [hsum, hlast, hNtl]; omega
      have hlay := fillLevels_layout (V + shiftOf V sos + 1 % N) tl (initFill V sos N (L1 :: tl)) 0
        (uniKeys (V + shiftOf V sos)) 1
        (by rw [hmod]; exact initFill_ready V sos N hN2 _)
        (by
          apply levelsOK_of_index tl L1 1
          · intro k
            rw [mem_uniKeys]
            constructor
            · rintro ⟨x, hx, rfl⟩
              obtain ⟨l, hl, hmem⟩ := H.uni x hx
              simp only [List.getElem?_cons_zero, Option.some.injEq] at hl
              subst hl
              obtain ⟨e, he, hk⟩ := List.mem_map.mp hmem
              exact ⟨e, he, by rw [hk]; rfl⟩
            · rintro ⟨e, he, rfl⟩
              obtain ⟨h1, h2⟩ := (H.facts 0 L1 (by simp)).2.2 e he
              match hk : e.key with
              | [t] =>
                have := h2 t (by rw [hk]; simp)
                refine ⟨t.toNat, by omega, ?_⟩
                simp [Int.toNat_of_nonneg this.1]
              | [] => rw [hk] at h1; simp at h1
              | _ :: _ :: _ => rw [hk] at h1; simp at h1
          · intro i d' hd'
            have := H.facts (i + 1) d' (by simpa using hd')
            refine ⟨this.1, this.2.1, fun e he => ?_⟩
            have := (this.2.2 e he).1
            omega
          · intro d' hd' e he
            exact H.closed 0 d' L1 (by simp) (by simpa using hd') e he
          · intro i a a' ha ha' e he
            exact H.closed (i + 1) a' a (by simpa using ha) (by simpa using ha') e he)
        hne (by rw [i1, i2, hO]) (by rw [i4, i1, hlast]) (by rw [i4, i3]; omega) (by rw [i5, i1])
      obtain ⟨_, _, _, hfr⟩ := hlay
      have := hfr x (by rw [i2]; exact hx)
      rw [hlogps, hlogbs, ← htl, this.1, this.2]
      refine ⟨initFill_logps V sos N _ x hx hP, fun hN1 => ?_⟩
      exact initFill_logbs V sos N hN1 _ x hx (by rw [hO]; omega)
  -- keys of length one
  have hone : ∀ (t : Int), 0 ≤ t → t < ((V + shiftOf V sos : Nat) : Int) →
      (∀ (j : Nat) (l : List Item) (e : Item), (L1 :: tl)[j]? = some l → e ∈ l → e.key.reverse = [t] →
        ∃ q, reach (flatNav b (V + shiftOf V sos + 1 % N)) [t] = some q ∧
          b.logps.getD q LogP.nan = e.logp ∧ (1 < N → b.logbs.getD q LogP.nan = e.logb)) ∧
      ((∀ (j : Nat) (l : List Item) (e : Item), (L1 :: tl)[j]? = some l → e ∈ l → e.key.reverse ≠ [t]) →
        reach (flatNav b (V + shiftOf V sos + 1 % N)) [t] = none) := by
    intro t h0 h1
    have hx : t.toNat < V + shiftOf V sos := by omega
    have ht : t = Int.ofNat t.toNat := by simp [Int.toNat_of_nonneg h0]
    have hreach : reach (flatNav b (V + shiftOf V sos + 1 % N)) [t] = some t.toNat := by
      simp [reach, walkSt, flatNav]
    constructor
    · intro j l e hl he hk
      have hkey : e.key = [t] := by
        have := congrArg List.reverse hk
        simpa using this
      have hj : j = 0 := by
        have := ((H.facts j l hl).2.2 e he).1
        rw [hkey] at this; simp at this; omega
      subst hj
      have huv := uval_spec _ _ H t.toNat hx l hl e he (by rw [hkey, ← ht])
      refine ⟨t.toNat, hreach, ?_, ?_⟩
      · rw [(huni _ hx).1, huv]
      · intro hN1
        rw [(huni _ hx).2 (by omega), huv]
    · intro hnone
      exfalso
      obtain ⟨l, hl, hmem⟩ := H.uni t.toNat hx
      obtain ⟨e, he, hk⟩ := List.mem_map.mp hmem
      apply hnone 0 l e hl he
      rw [hk, ← ht]; rfl
  intro r hr hlen hD
  by_cases hr1 : r.length = 1
  · -- a unigram
    match r, hr1 with
    | [t], _ =>
      have := hD t (by simp)
      obtain ⟨a, c⟩ := hone t this.1 this.2
      refine ⟨?_, c⟩
      intro j l e hl he hk
      obtain ⟨q, q1, q2, q3⟩ := a j l e hl he hk
      exact ⟨q, q1, q2, fun h => q3 (by simpa using h)⟩
  · -- a higher level
    have hr2 : 2 ≤ r.length := by
      have := List.length_pos_iff.mpr hr; omega
    cases htl : tl with
    | nil => rw [htl] at hNtl; simp at hNtl; omega
    | cons d rest =>
      have hne : tl ≠ [] := by rw [htl]; simp
      have hN2 : 2 ≤ N := by rw [hNtl, htl]; simp
      have hmod : 1 % N = 1 := Nat.mod_eq_of_lt (by omega)
      have hns := need_sum tl hne
      have hlast : (L1 :: tl).getLastD [] = tl.getLastD [] := by
        rw [List.getLastD_cons]; exact getLastD_irrel _ _ _ hne
      have hGle' : (tl.getLastD []).length ≤ (tl.map List.length).sum := by
        rw [getLastD_length]; exact getLastD_le_sum _
      have hO : sizeO N (L1 :: tl) = (V + shiftOf V sos) + need tl := by
        unfold sizeO; rw [hsum, hlast, hNtl]; omega
      have hlay := fillLevels_layout (V + shiftOf V sos + 1 % N) tl (initFill V sos N (L1 :: tl)) 0
        (uniKeys (V + shiftOf V sos)) 1
        (by rw [hmod]; exact initFill_ready V sos N hN2 _)
        (by
          apply levelsOK_of_index tl L1 1
          · intro k
            rw [mem_uniKeys]
            constructor
            · rintro ⟨x, hx, rfl⟩
              obtain ⟨l, hl, hmem⟩ := H.uni x hx
              simp only [List.getElem?_cons_zero, Option.some.injEq] at hl
              subst hl
              obtain ⟨e, he, hk⟩ := List.mem_map.mp hmem
              exact ⟨e, he, by rw [hk]; rfl⟩
            · rintro ⟨e, he, rfl⟩
              obtain ⟨h1, h2⟩ := (H.facts 0 L1 (by simp)).2.2 e he
              match hk : e.key with
              | [t] =>
                have := h2 t (by rw [hk]; simp)
                refine ⟨t.toNat, by omega, ?_⟩
                simp [Int.toNat_of_nonneg this.1]
              | [] => rw [hk] at h1; simp at h1
              | _ :: _ :: _ => rw [hk] at h1; simp at h1
          · intro i d' hd'
            have := H.facts (i + 1) d' (by simpa using hd')
            refine ⟨this.1, this.2.1, fun e he => ?_⟩
            have := (this.2.2 e he).1
            omega
          · intro d' hd' e he
            exact H.closed 0 d' L1 (by simp) (by simpa using hd') e he
          · intro i a a' ha ha' e he
            exact H.closed (i + 1) a' a (by simpa using ha) (by simpa using ha') e he)
        hne (by rw [i1, i2, hO]) (by rw [i4, i1, hlast]) (by rw [i4, i3]; omega) (by rw [i5, i1])
      obtain ⟨hL, _, _, _⟩ := hlay
      rw [← hoffs, ← hids, ← hlogps, ← hlogbs] at hL
      have hSs : tl.map sortLevel = sortLevel d :: rest.map sortLevel := by rw [htl]; rfl
      have hwide : WideFrom b.offsets b.S 0 (uniKeys (V + shiftOf V sos)) (tl.map sortLevel) := by
        rw [hS, hSs]
        have := maxDirect_layout (uniKeys (V + shiftOf V sos)) (sortLevel d) (rest.map sortLevel)
          (by rw [← hSs]; exact hL)
        rw [uniKeys_length] at this
        exact this
      have hpos : PosOK (flatNav b (V + shiftOf V sos + 1 % N))
          (fun t => 0 ≤ t ∧ t < ((V + shiftOf V sos : Nat) : Int)) 1 0 (uniKeys (V + shiftOf V sos)) := by
        intro r' hr' hD'
        match r', hr' with
        | [t], _ =>
          have ht := hD' t (by simp)
          have hreach : reach (flatNav b (V + shiftOf V sos + 1 % N)) [t] = some t.toNat := by
            simp [reach, walkSt, flatNav]
          constructor
          · intro j hj
            obtain ⟨_, e⟩ := (uniKeys_get _ j _).mp hj
            rw [hreach]
            simp only [List.cons.injEq, and_true] at e
            rw [e]; simp
          · intro hnot
            exfalso; apply hnot
            rw [mem_uniKeys]
            exact ⟨t.toNat, by omega, by simp [Int.toNat_of_nonneg ht.1]⟩
      have hkl : KeyLens (1 + 1) (tl.map sortLevel) := by
        apply keyLens_of_index
        intro i d' hd' e he
        have := ((H.facts (i + 1) d' (by simpa using hd')).2.2 e he).1
        omega
      have hmain := reach_layout b (V + shiftOf V sos + 1 % N)
        (fun t => 0 ≤ t ∧ t < ((V + shiftOf V sos : Nat) : Int)) (tl.map sortLevel) 0
        (uniKeys (V + shiftOf V sos)) 1 hL hwide (uniKeys_nodup _) (Nat.le_refl 1) hkl hpos r
        (by omega) (by rw [List.length_map]; omega) hD
      rw [← htl]
      constructor
      · intro j l e hl he hk
        have hj : j = r.length - 1 := by
          have := ((H.facts j l hl).2.2 e he).1
          have h2 := congrArg List.length hk
          simp at h2; omega
        have hl' : tl[j - 1]? = some l := by
          have : j = (j - 1) + 1 := by omega
          rw [this] at hl
          simpa using hl
        have hmem : ({ e with key := e.key.reverse } : Item) ∈ (tl.map sortLevel).flatten := by
          rw [List.mem_flatten]
          refine ⟨sortLevel l, List.mem_map.mpr ⟨l, List.mem_of_getElem? hl', rfl⟩, ?_⟩
          exact (mem_sortLevel l _).mpr ⟨e, he, rfl⟩
        obtain ⟨q, q1, q2, q3⟩ := hmain.1 _ hmem hk
        exact ⟨q, q1, q2, fun h => q3 (by rw [List.length_map]; omega)⟩
      · intro hnone
        apply hmain.2
        intro e' he' hk'
        rw [List.mem_flatten] at he'
        obtain ⟨S, hS', heS⟩ := he'
        obtain ⟨l, hl, rfl⟩ := List.mem_map.mp hS'
        obtain ⟨e0, he0, rfl⟩ := (mem_sortLevel l e').mp heS
        obtain ⟨i, hi⟩ := List.mem_iff_getElem?.mp hl
        exact hnone (i + 1) l e0 (by simpa using hi) he0 hk'

/-! ## the table -/

theorem mem_tableOf (dicts : List (List Item)) (k : List Int) (v : Entry) :
    (k, v) ∈ tableOf dicts ↔ ∃ (j : Nat) (d : List Item) (e : Item), dicts[j]? = some d ∧ e ∈ d ∧
      (k, v) = entryOf (j + 1 == dicts.length) e := by
  unfold tableOf
  rw [List.mem_flatMap]
  constructor
  · rintro ⟨⟨d, j⟩, hmem, hin⟩
    have hd := List.mem_zipIdx_iff_getElem?.mp hmem
    simp only at hd hin
    obtain ⟨e, he, hee⟩ := List.mem_map.mp hin
    exact ⟨j, d, e, hd, he, hee.symm⟩
  · rintro ⟨j, d, e, hd, he, hee⟩
    refine ⟨(d, j), List.mem_zipIdx_iff_getElem?.mpr hd, ?_⟩
    simp only
    exact List.mem_map.mpr ⟨e, he, hee.symm⟩

theorem ofList_unique (items : List (List Int × Entry)) (k : List Int) (v : Entry)
    (hmem : (k, v) ∈ items) (huniq : ∀ v', (k, v') ∈ items → v' = v) : ofList items k = some v := by
  unfold ofList
  cases hf : items.find? (fun e => e.1 == k) with
  | none =>
    exfalso
    have := List.find?_eq_none.mp hf (k, v) hmem
    simp at this
  | some p =>
    have h1 := List.find?_some hf
    have h2 := List.mem_of_find?_eq_some hf
    simp only [beq_iff_eq] at h1
    obtain ⟨pk, pv⟩ := p
    simp only at h1
    subst h1
    simp only [Option.map_some, Option.some.injEq]
    exact huniq pv h2

theorem valsOK_spec (dicts : List (List Item)) (h : valsOK dicts = true) (j : Nat) (d : List Item)
    (hd : dicts[j]? = some d) (e : Item) (he : e ∈ d) :
    e.logp ≠ LogP.nan ∧ (j + 1 < dicts.length → ∃ q, e.logb = LogP.fin q) := by
  unfold valsOK at h
  rw [List.all_eq_true] at h
  have := h (d, j) (List.mem_zipIdx_iff_getElem?.mpr hd)
  simp only [List.all_eq_true] at this
  have := this e he
  simp only [Bool.and_eq_true, bne_iff_ne, ne_eq, Bool.or_eq_true, beq_iff_eq] at this
  refine ⟨this.1, fun hlt => ?_⟩
  rcases this.2 with h1 | h1
  · omega
  · cases hb : e.logb with
    | fin q => exact ⟨q, rfl⟩
    | negInf => rw [hb] at h1; cases h1
    | nan => rw [hb] at h1; cases h1

/-- **The table lemma.** The closed, renamed levels against the raw table: an item of a level
carries the table's values (an implicit one `(-inf, 0)`, for a key the table does not list),
and a key that no level holds is not listed. -/
theorem table_lemma (V : Nat) (sos : Int) (dicts C : List (List Item)) (H : ClosedLv V sos dicts C)
    (hnd : ∀ d ∈ dicts, keysNodup d) (hv : valsOK dicts = true) :
    ∀ k' : List Int,
      (∀ (j : Nat) (l : List Item) (e : Item),
        (C.map (fun d => d.map (remapItem V sos)))[j]? = some l → e ∈ l → e.key = k' →
        e.logp = LogP.ofOption (finiteP (ofList (remapTable V sos (tableOf dicts))) k') ∧
        (k'.length < dicts.length →
          e.logb = LogP.fin (beta (ofList (remapTable V sos (tableOf dicts))) k'))) ∧
      ((∀ (j : Nat) (l : List Item) (e : Item),
        (C.map (fun d => d.map (remapItem V sos)))[j]? = some l → e ∈ l → e.key ≠ k') →
        ofList (remapTable V sos (tableOf dicts)) k' = none) := by
  -- raw items are items of the closed level
  have hraw : ∀ (j : Nat) (d : List Item) (e : Item), dicts[j]? = some d → e ∈ d →
      ∃ c, C[j]? = some c ∧ e ∈ c ∧ ∃ ex, c = d ++ ex ∧ ∀ x ∈ ex, IsDummy x := by
    intro j d e hd he
    have hj : j < C.length := by
      rw [H.len]; exact (List.getElem?_eq_some_iff.mp hd).1
    obtain ⟨ex, hc, hex⟩ := H.ext j C[j] d (List.getElem?_eq_getElem hj) hd
    exact ⟨C[j], List.getElem?_eq_getElem hj, by rw [hc]; exact List.mem_append_left _ he, ex, hc, hex⟩
  have hvalid : ∀ p ∈ tableOf dicts, ∀ t ∈ p.1, validTok V sos t := by
    rintro ⟨k, v⟩ hp t ht
    obtain ⟨j, d, e, hd, he, hee⟩ := (mem_tableOf dicts k v).mp hp
    obtain ⟨c, hc, hec, _⟩ := hraw j d e hd he
    have hk : k = e.key := by
      have := congrArg Prod.fst hee; simpa [entryOf] using this
    rw [hk] at ht
    exact ((H.keys j c hc e hec).2) t ht
  -- T1: a raw item is what the table lists for its key
  have hT1 : ∀ (j : Nat) (d : List Item) (e : Item), dicts[j]? = some d → e ∈ d →
      ofList (remapTable V sos (tableOf dicts)) (e.key.map (remapTok V sos)) =
        some (entryOf (j + 1 == dicts.length) e).2 := by
    intro j d e hd he
    obtain ⟨c, hc, hec, _⟩ := hraw j d e hd he
    rw [ofList_remap V sos _ hvalid e.key (H.keys j c hc e hec).2]
    apply ofList_unique
    · exact (mem_tableOf dicts _ _).mpr ⟨j, d, e, hd, he, rfl⟩
    · intro v' hv'
      obtain ⟨j', d', e', hd', he', hee'⟩ := (mem_tableOf dicts _ _).mp hv'
      obtain ⟨c', hc', hec', _⟩ := hraw j' d' e' hd' he'
      have hk : e.key = e'.key := by
        have := congrArg Prod.fst hee'; simpa [entryOf] using this
      have hjj : j' = j := by
        have a := (H.keys j c hc e hec).1
        have b := (H.keys j' c' hc' e' hec').1
        rw [hk] at a; omega
      subst hjj
      rw [hd] at hd'
      simp only [Option.some.injEq] at hd'
      subst hd'
      have : e' = e := eq_of_key_eq d (hnd d (List.mem_of_getElem? hd)) e' he' e he hk.symm
      subst this
      have := congrArg Prod.snd hee'
      simpa using this
  -- T2: whatever the table lists comes from a raw item
  have hT2 : ∀ (k' : List Int) (v : Entry), ofList (remapTable V sos (tableOf dicts)) k' = some v →
      ∃ (j : Nat) (d : List Item) (e : Item), dicts[j]? = some d ∧ e ∈ d ∧
        e.key.map (remapTok V sos) = k' := by
    intro k' v hv'
    have hm := mem_of_ofList_some hv'
    unfold remapTable at hm
    obtain ⟨⟨k0, v0⟩, hp, hpe⟩ := List.mem_map.mp hm
    simp only [Prod.mk.injEq] at hpe
    obtain ⟨j, d, e, hd, he, hee⟩ := (mem_tableOf dicts k0 v0).mp hp
    have hk : k0 = e.key := by
      have := congrArg Prod.fst hee; simpa [entryOf] using this
    exact ⟨j, d, e, hd, he, by rw [← hk]; exact hpe.1⟩
  have hget : ∀ (j : Nat) (l : List Item), (C.map (fun d => d.map (remapItem V sos)))[j]? = some l →
      ∃ c, C[j]? = some c ∧ l = c.map (remapItem V sos) := by
    intro j l hl
    rw [List.getElem?_map] at hl
    obtain ⟨c, hc, rfl⟩ := Option.map_eq_some_iff.mp hl
    exact ⟨c, hc, rfl⟩
  intro k'
  constructor
  · intro j l e hl he hk
    obtain ⟨c, hc, rfl⟩ := hget j l hl
    obtain ⟨e0, he0, rfl⟩ := List.mem_map.mp he
    have hj : j < dicts.length := by
      rw [← H.len]; exact (List.getElem?_eq_some_iff.mp hc).1
    obtain ⟨ex, hcx, hex⟩ := H.ext j c dicts[j] hc (List.getElem?_eq_getElem hj)
    have hkey0 : e0.key.map (remapTok V sos) = k' := hk
    have hlen0 : k'.length = j + 1 := by
      rw [← hkey0, List.length_map]; exact (H.keys j c hc e0 he0).1
    rw [hcx, List.mem_append] at he0
    rcases he0 with he0 | he0
    · -- a listed n-gram
      have ht := hT1 j dicts[j] e0 (List.getElem?_eq_getElem hj) he0
      rw [hkey0] at ht
      obtain ⟨w1, w2⟩ := valsOK_spec dicts hv j dicts[j] (List.getElem?_eq_getElem hj) e0 he0
      constructor
      · show e0.logp = _
        unfold finiteP
        rw [ht]
        simp only [entryOf]
        cases hp : e0.logp with
        | fin q => rfl
        | negInf => rfl
        | nan => exact absurd hp w1
      · intro hlt
        show e0.logb = _
        unfold beta
        rw [ht]
        obtain ⟨q, hq⟩ := w2 (by omega)
        have hnt : (j + 1 == dicts.length) = false := by
          rw [beq_eq_false_iff_ne]; omega
        simp only [entryOf, hnt, hq]
        rfl
    · -- an implicit node
      obtain ⟨d1, d2⟩ := hex e0 he0
      have hnone : ofList (remapTable V sos (tableOf dicts)) k' = none := by
        cases hh : ofList (remapTable V sos (tableOf dicts)) k' with
        | none => rfl
        | some v =>
          exfalso
          obtain ⟨j', d', e', hd', he', hk''⟩ := hT2 k' v hh
          obtain ⟨c', hc', hec', _⟩ := hraw j' d' e' hd' he'
          have hcm : e0 ∈ c := by rw [hcx]; exact List.mem_append_right _ he0
          have hkk : e'.key = e0.key :=
            map_remap_inj V sos _ _ (H.keys j' c' hc' e' hec').2 (H.keys j c hc e0 hcm).2
              (hk''.trans hkey0.symm)
          have hjj : j' = j := by
            have a := (H.keys j c hc e0 hcm).1
            have b := (H.keys j' c' hc' e' hec').1
            rw [hkk] at b; omega
          subst hjj
          rw [List.getElem?_eq_getElem hj] at hd'
          simp only [Option.some.injEq] at hd'
          subst hd'
          have hnd' := H.nodup c (List.mem_of_getElem? hc)
          unfold keysNodup at hnd'
          rw [hcx, List.map_append, List.nodup_append] at hnd'
          exact hnd'.2.2 _ (List.mem_map.mpr ⟨e', he', rfl⟩) _ (List.mem_map.mpr ⟨e0, he0, rfl⟩) hkk
      constructor
      · show e0.logp = _
        unfold finiteP
        rw [hnone, d1]; rfl
      · intro _
        show e0.logb = _
        unfold beta
        rw [hnone, d2]
  · intro hnone
    cases hh : ofList (remapTable V sos (tableOf dicts)) k' with
    | none => rfl
    | some v =>
      exfalso
      obtain ⟨j, d, e, hd, he, hk⟩ := hT2 k' v hh
      obtain ⟨c, hc, hec, _⟩ := hraw j d e hd he
      exact hnone j (c.map (remapItem V sos)) (remapItem V sos e)
        (by rw [List.getElem?_map, hc]; rfl) (List.mem_map.mpr ⟨e, hec, rfl⟩) hk

/-! ## `C06_flat` -/

/-- **Every key, two cases.** For the buffers `buildTrie` lays out and a key `k` (oldest token
first, renamed, over the token domain, of length `1 … N`): either the lookup reaches – along the
reversed key – a node that carries the table's values for `k` (`-inf` / `0` for the implicit
suffix nodes), or it reaches nothing and the table does not list `k`. -/
theorem buildTrie_nodes (V : Nat) (sos : Int) (dicts : List (List Item)) (b : Buffers)
    (hb : buildTrie V sos dicts = some b) (hnd : ∀ d ∈ dicts, keysNodup d)
    (hv : valsOK dicts = true) :
    b.N = dicts.length ∧
    ∀ k : List Int, k ≠ [] → k.length ≤ b.N →
      (∀ t ∈ k, 0 ≤ t ∧ t < ((V + shiftOf V sos : Nat) : Int)) →
      (∃ q, reach (flatNav b (uOf V sos b.N)) k.reverse = some q ∧
          b.logps.getD q LogP.nan = LogP.ofOption (finiteP (ofList (remapTable V sos (tableOf dicts))) k) ∧
          (k.length < b.N → b.logbs.getD q LogP.nan =
            LogP.fin (beta (ofList (remapTable V sos (tableOf dicts))) k))) ∨
      (reach (flatNav b (uOf V sos b.N)) k.reverse = none ∧
        ofList (remapTable V sos (tableOf dicts)) k = none) := by
  rw [buildTrie_eq] at hb
  split at hb
  · cases hb
  rename_i hN0
  split at hb
  · cases hb
  rename_i hTop
  simp only [Option.map_eq_some_iff] at hb
  obtain ⟨closedRev, hclose, rfl⟩ := hb
  have hne : dicts ≠ [] := by intro e; rw [e] at hN0; simp at hN0
  have htop : dicts.getLastD [] ≠ [] := by
    intro e; rw [e] at hTop; simp at hTop
  have HC := closedLv_of_closeDown V sos dicts closedRev hne htop hclose hnd
  have HR := remLv_of_closedLv V sos dicts _ HC
  have TL := table_lemma V sos dicts _ HC hnd hv
  obtain ⟨a1, a2, a3, a4, a5, a6⟩ := assemble_fields V sos dicts.length closedRev
  -- the levels
  obtain ⟨L1, tl, hlev⟩ : ∃ L1 tl, closedRev.reverse.map (fun d => d.map (remapItem V sos)) = L1 :: tl := by
    cases h : closedRev.reverse.map (fun d => d.map (remapItem V sos)) with
    | nil =>
      have := congrArg List.length h
      rw [List.length_map, HC.len] at this
      simp at this; exact absurd this hne
    | cons a as => exact ⟨a, as, rfl⟩
  have hlen : (L1 :: tl).length = dicts.length := by
    rw [← hlev, List.length_map, HC.len]
  rw [hlev] at HR TL a1 a2 a3 a4 a5
  simp only [List.tail_cons] at a1 a2 a3 a4 a5
  have NL := node_lemma V sos dicts.length L1 tl hlen HR (assemble V sos dicts.length closedRev)
    a1 a2 a3 a4 (by rw [a5, a1])
  have hU : uOf V sos (assemble V sos dicts.length closedRev).N = V + shiftOf V sos + 1 % dicts.length := by
    rw [a6]; rfl
  rw [hU, a6]
  -- the two cases for a key
  have key : ∀ k : List Int, k ≠ [] → k.length ≤ dicts.length →
      (∀ t ∈ k, 0 ≤ t ∧ t < ((V + shiftOf V sos : Nat) : Int)) →
      (∃ (q : Nat) (e : Item), reach (flatNav (assemble V sos dicts.length closedRev)
            (V + shiftOf V sos + 1 % dicts.length)) k.reverse = some q ∧
          (assemble V sos dicts.length closedRev).logps.getD q LogP.nan =
            LogP.ofOption (finiteP (ofList (remapTable V sos (tableOf dicts))) k) ∧
          (k.length < dicts.length → (assemble V sos dicts.length closedRev).logbs.getD q LogP.nan =
            LogP.fin (beta (ofList (remapTable V sos (tableOf dicts))) k)) ∧ e.key = k) ∨
      (reach (flatNav (assemble V sos dicts.length closedRev)
          (V + shiftOf V sos + 1 % dicts.length)) k.reverse = none ∧
        ofList (remapTable V sos (tableOf dicts)) k = none) := by
    intro k hk hkl hD
    have hr : k.reverse ≠ [] := by simpa using hk
    have hrl : k.reverse.length ≤ dicts.length := by simpa using hkl
    have hrD : ∀ t ∈ k.reverse, 0 ≤ t ∧ t < ((V + shiftOf V sos : Nat) : Int) :=
      fun t ht => hD t (by simpa using ht)
    obtain ⟨n1, n2⟩ := NL k.reverse hr hrl hrD
    obtain ⟨t1, t2⟩ := TL k
    by_cases hex : ∃ (j : Nat) (l : List Item) (e : Item), (L1 :: tl)[j]? = some l ∧ e ∈ l ∧ e.key = k
    · obtain ⟨j, l, e, hl, he, hek⟩ := hex
      obtain ⟨q, q1, q2, q3⟩ := n1 j l e hl he (by rw [hek])
      obtain ⟨v1, v2⟩ := t1 j l e hl he hek
      left
      refine ⟨q, e, q1, by rw [q2, v1], ?_, hek⟩
      intro hlt
      rw [q3 (by simpa using hlt), v2 hlt]
    · right
      refine ⟨n2 ?_, t2 ?_⟩
      · intro j l e hl he hek
        apply hex
        exact ⟨j, l, e, hl, he, by simpa using congrArg List.reverse hek⟩
      · intro j l e hl he hek
        exact hex ⟨j, l, e, hl, he, hek⟩
  refine ⟨rfl, ?_⟩
  intro k hk hkl hD
  rcases key k hk hkl hD with ⟨q, e, q1, q2, q3, _⟩ | h
  · exact Or.inl ⟨q, q1, q2, q3⟩
  · exact Or.inr h

/-- **The flat-buffer layer.** The buffers that `buildTrie` lays out for an accepted table
(keys pairwise distinct within each order, no NaN / non-finite back-off weights) navigate as a
reverse trie of the (renamed) raw table, up to what a model of that order looks at. -/
theorem buildTrie_represents (V : Nat) (sos : Int) (dicts : List (List Item)) (b : Buffers)
    (hb : buildTrie V sos dicts = some b) (hnd : ∀ d ∈ dicts, keysNodup d)
    (hv : valsOK dicts = true) :
    RepresentsN (flatNav b (uOf V sos b.N)) (ofList (remapTable V sos (tableOf dicts)))
      (fun t => 0 ≤ t ∧ t < ((V + shiftOf V sos : Nat) : Int)) b.N := by
  obtain ⟨_, key⟩ := buildTrie_nodes V sos dicts b hb hnd hv
  refine ⟨?_, ?_, ?_, ?_⟩
  · intro k d hD hlen' hr
    by_cases hk : k = []
    · subst hk; simp [reach] at hr
    rcases key k hk hlen' hD with ⟨q, q1, q2, _⟩ | ⟨n, _⟩
    · rw [q1] at hr
      simp only [Option.some.injEq] at hr
      subst hr
      exact q2
    · rw [n] at hr; cases hr
  · intro k hD hlen' hk hr
    rcases key k hk hlen' hD with ⟨q, q1, _, _⟩ | ⟨_, t⟩
    · rw [q1] at hr; cases hr
    · unfold finiteP; rw [t]
  · intro k d hD hlen' hr
    by_cases hk : k = []
    · subst hk; simp [reach] at hr
    rcases key k hk (by omega) hD with ⟨q, q1, _, q3⟩ | ⟨n, _⟩
    · rw [q1] at hr
      simp only [Option.some.injEq] at hr
      subst hr
      exact q3 (by omega)
    · rw [n] at hr; cases hr
  · intro k hD hlen' hk hr
    rcases key k hk (by omega) hD with ⟨q, q1, _, _⟩ | ⟨_, t⟩
    · rw [q1] at hr; cases hr
    · unfold beta; rw [t]

/-- `_build_trie` only accepts tables whose keys consist of vocabulary ids and the start symbol. -/
theorem buildTrie_keys_valid (V : Nat) (sos : Int) (dicts : List (List Item)) (b : Buffers)
    (hb : buildTrie V sos dicts = some b) (hnd : ∀ d ∈ dicts, keysNodup d) :
    ∀ p ∈ tableOf dicts, ∀ t ∈ p.1, validTok V sos t := by
  rw [buildTrie_eq] at hb
  split at hb
  · cases hb
  rename_i hN0
  split at hb
  · cases hb
  rename_i hTop
  simp only [Option.map_eq_some_iff] at hb
  obtain ⟨closedRev, hclose, _⟩ := hb
  have hne : dicts ≠ [] := by intro e; rw [e] at hN0; simp at hN0
  have htop : dicts.getLastD [] ≠ [] := by
    intro e; rw [e] at hTop; simp at hTop
  have H := closedLv_of_closeDown V sos dicts closedRev hne htop hclose hnd
  rintro ⟨k, v⟩ hp t ht
  obtain ⟨j, d, e, hd, he, hee⟩ := (mem_tableOf dicts k v).mp hp
  have hj : j < closedRev.reverse.length := by
    rw [H.len]; exact (List.getElem?_eq_some_iff.mp hd).1
  obtain ⟨ex, hc, _⟩ := H.ext j closedRev.reverse[j] d (List.getElem?_eq_getElem hj) hd
  have hk : k = e.key := by
    have := congrArg Prod.fst hee; simpa [entryOf] using this
  rw [hk] at ht
  exact (H.keys j _ (List.getElem?_eq_getElem hj) e (by rw [hc]; exact List.mem_append_left _ he)).2 t ht

/-- **`C06_flat` in its executable form**: the buffers that `buildTrie` lays out always pass
the layout check `checkBuilt` (which the driver evaluates on every case). -/
theorem buildTrie_checkBuilt (V : Nat) (sos : Int) (dicts : List (List Item)) (b : Buffers)
    (hb : buildTrie V sos dicts = some b) (hnd : ∀ d ∈ dicts, keysNodup d)
    (hv : valsOK dicts = true) : checkBuilt V sos dicts b = true := by
  have H := buildTrie_represents V sos dicts b hb hnd hv
  obtain ⟨_, key⟩ := buildTrie_nodes V sos dicts b hb hnd hv
  unfold checkBuilt checkFlat
  rw [List.all_eq_true]
  intro n hn
  have hn : n < b.N := List.mem_range.mp hn
  unfold checkLevel
  simp only [Bool.and_eq_true, List.all_eq_true]
  constructor
  · rintro ⟨r, d⟩ hp
    obtain ⟨t0, rest, hr, hl, hdom, hw⟩ := (mem_levelOf _ _ _ _ _).mp hp
    have hreach : reach (flatNav b (uOf V sos b.N)) r = some d := by
      rw [hr]; exact (reach_cons _ t0 rest d).mpr hw
    have hD : ∀ t ∈ r.reverse, 0 ≤ t ∧ t < ((V + shiftOf V sos : Nat) : Int) := by
      intro t ht
      exact (mem_domOf _ t).mp (hdom t (by simpa using ht))
    have hlen : r.reverse.length = n + 1 := by rw [List.length_reverse, hr]; simp [hl]
    simp only [Bool.and_eq_true, decide_eq_true_eq, Bool.or_eq_true, beq_iff_eq]
    refine ⟨H.logp_some r.reverse d hD (by omega) (by rw [List.reverse_reverse]; exact hreach), ?_⟩
    by_cases hN : n + 1 = b.N
    · exact Or.inl hN
    · exact Or.inr (H.logb_some r.reverse d hD (by omega) (by rw [List.reverse_reverse]; exact hreach))
  · intro e he
    simp only [Bool.or_eq_true, bne_iff_ne, ne_eq, Bool.not_eq_true', List.any_eq_true, beq_iff_eq]
    by_cases hlen : e.1.length = n + 1
    · by_cases hdom : overDom (domOf (V + shiftOf V sos)) e.1 = true
      · right
        have hD : ∀ t ∈ e.1, 0 ≤ t ∧ t < ((V + shiftOf V sos : Nat) : Int) :=
          fun t ht => (mem_domOf _ t).mp ((overDom_iff _ _).mp hdom t ht)
        have hne : e.1 ≠ [] := by intro h; rw [h] at hlen; simp at hlen
        rcases key e.1 hne (by omega) hD with ⟨q, q1, _, _⟩ | ⟨_, hnone⟩
        · refine ⟨(e.1.reverse, q), ?_, rfl⟩
          cases hrev : e.1.reverse with
          | nil => simp at hrev; exact absurd hrev hne
          | cons t0 rest =>
            rw [hrev] at q1
            refine (mem_levelOf _ _ _ _ _).mpr ⟨t0, rest, rfl, ?_, ?_, (reach_cons _ t0 rest q).mp q1⟩
            · have := congrArg List.length hrev
              simp at this; omega
            · intro t ht
              rw [← hrev] at ht
              exact (overDom_iff _ _).mp hdom t (by simpa using ht)
        · exfalso
          unfold ofList at hnone
          simp only [Option.map_eq_none_iff] at hnone
          have := List.find?_eq_none.mp hnone e he
          simp at this
      · left; right
        simpa using hdom
    · left; left; exact hlen

/-- The decidable form of the hypotheses of `C06_flat` / `C06_lookup` (what the driver
evaluates on every case). -/
theorem tableOK_spec (dicts : List (List Item)) (h : tableOK dicts = true) :
    (∀ d ∈ dicts, keysNodup d) ∧ valsOK dicts = true := by
  unfold tableOK at h
  rw [Bool.and_eq_true] at h
  refine ⟨?_, h.2⟩
  intro d hd
  have := h.1
  unfold keysOK at this
  rw [List.all_eq_true] at this
  have := this d hd
  unfold keysNodup
  simpa using this

end PdtVerif.NgramTrie
