import PdtVerif.Model.Transcripts
import PdtVerif.Spec.Transcripts
import Mathlib.Data.Rat.Floor
import Mathlib.Tactic.Linarith
import Mathlib.Tactic.FieldSimp
import Mathlib.Data.String.Basic
import Mathlib.Algebra.Order.Ring.Unbundled.Rat
/-! Helper lemmas for C11. -/
namespace PdtVerif.Transcripts

theorem chunks_flatten {α} (n : Nat) (l : List α) : (chunks n l).flatten = l := by
  induction h : l.length using Nat.strongRecOn generalizing l with
  | _ k ih =>
    cases l with
    | nil => simp [chunks]
    | cons x xs =>
      rw [chunks, List.flatten_cons]
      rw [ih ((x :: xs).drop (max n 1)).length (by subst h; simp only [List.length_drop, List.length_cons]; omega) _ rfl]
      exact List.take_append_drop _ _

/-! ### frames -/

theorem floor_frame_bounds (f x : Rat) (hf : 0 < f) (hx : 0 ≤ x) :
    0 ≤ ((1000 * x) / f).floor ∧
    (((1000 * x) / f).floor : Rat) * f / 1000 ≤ x ∧
    x < ((((1000 * x) / f).floor : Rat) + 1) * f / 1000 := by
  have h1 := Rat.floor_le ((1000 * x) / f)
  have h2 := Rat.lt_floor_add_one ((1000 * x) / f)
  have hq : 0 ≤ (1000 * x) / f := by positivity
  refine ⟨Rat.le_floor_iff.mpr (by simpa using hq), ?_, ?_⟩
  · rw [le_div_iff₀ hf] at h1
    linarith
  · rw [div_lt_iff₀ hf] at h2
    push_cast at h2
    linarith

/-- The frame pair computed for a segment and the seconds recovered from it. -/
theorem toFrames_bounds (f s e : Rat) (hf : 0 < f) (hs : 0 ≤ s) (hse : s ≤ e) :
    0 ≤ (toFrames (some f) s e).1 ∧ 0 ≤ (toFrames (some f) s e).2 ∧
    s - f / 1000 < ((toFrames (some f) s e).1 : Rat) * f / 1000 ∧
    ((toFrames (some f) s e).1 : Rat) * f / 1000 ≤ s ∧
    e - f / 1000 < ((toFrames (some f) s e).2 : Rat) * f / 1000 ∧
    ((toFrames (some f) s e).2 : Rat) * f / 1000 < e + f / 1000 := by
  obtain ⟨a0, a1, a2⟩ := floor_frame_bounds f s hf hs
  have hsh : 0 < f / 1000 := by positivity
  unfold toFrames
  by_cases hEq : s = e
  · subst hEq
    simp only [beq_self_eq_true, if_true]
    refine ⟨a0, a0, ?_, a1, ?_, ?_⟩ <;> linarith
  · have hlt : s < e := lt_of_le_of_ne hse hEq
    have hbeq : (s == e) = false := by simpa using hEq
    simp only [hbeq, Bool.false_eq_true, if_false]
    have b1 := Rat.floor_le ((1000 * e + (1 / 2 : Rat) * f) / f)
    have b2 := Rat.lt_floor_add_one ((1000 * e + (1 / 2 : Rat) * f) / f)
    rw [le_div_iff₀ hf] at b1
    rw [div_lt_iff₀ hf] at b2
    push_cast at b2
    generalize ((1000 * s) / f).floor = a at *
    generalize ((1000 * e + (1 / 2 : Rat) * f) / f).floor = b at *
    refine ⟨a0, ?_, by linarith, a1, ?_, ?_⟩
    · exact le_trans (by omega) (le_max_right b (a + 1))
    · rcases le_total b (a + 1) with h | h
      · rw [max_eq_right h]; push_cast
        have hc : (b : Rat) ≤ (a : Rat) + 1 := by exact_mod_cast h
        have := mul_le_mul_of_nonneg_right hc hf.le
        linarith
      · rw [max_eq_left h]; linarith
    · rcases le_total b (a + 1) with h | h
      · rw [max_eq_right h]; push_cast
        by_cases hb : b = a + 1
        · subst hb; push_cast at b1; linarith
        · have h' : b + 1 ≤ a + 1 := by omega
          have hc : (b : Rat) + 1 ≤ (a : Rat) + 1 := by exact_mod_cast h'
          have := mul_le_mul_of_nonneg_right hc hf.le
          linarith
      · rw [max_eq_left h]; linarith


theorem mapM_except_cons {α β ε} (g : α → Except ε β) (x : α) (xs : List α) (b : β) (bs : List β)
    (h1 : g x = .ok b) (h2 : xs.mapM g = .ok bs) : (x :: xs).mapM g = .ok (b :: bs) := by
  simp [List.mapM_cons, h1, h2, bind, Except.bind, pure, Except.pure]

/-! ### ctm -/

theorem mapM_except_ok {α β ε} (g : α → Except ε β) (h : α → β) (l : List α)
    (hl : ∀ x ∈ l, g x = .ok (h x)) : l.mapM g = .ok (l.map h) := by
  induction l with
  | nil => simp [pure, Except.pure]
  | cons x xs ih =>
    exact mapM_except_cons g x xs _ _ (hl x List.mem_cons_self)
      (ih (fun y hy => hl y (List.mem_cons_of_mem _ hy)))

/-! ### lexicographic comparators -/
section Lex
variable {γ α : Type} [LinearOrder α]

/-- One level of a lexicographic comparison: by `f`, ties broken by `R`. -/
def LexR (f : γ → α) (R : γ → γ → Prop) (a b : γ) : Prop := f a < f b ∨ (f a = f b ∧ R a b)

theorem LexR.total {f : γ → α} {R : γ → γ → Prop} (hR : ∀ a b, R a b ∨ R b a) (a b : γ) :
    LexR f R a b ∨ LexR f R b a := by
  rcases lt_trichotomy (f a) (f b) with h | h | h
  · exact .inl (.inl h)
  · rcases hR a b with r | r
    · exact .inl (.inr ⟨h, r⟩)
    · exact .inr (.inr ⟨h.symm, r⟩)
  · exact .inr (.inl h)

theorem LexR.trans {f : γ → α} {R : γ → γ → Prop} (hR : ∀ a b c, R a b → R b c → R a c) (a b c : γ)
    (h1 : LexR f R a b) (h2 : LexR f R b c) : LexR f R a c := by
  rcases h1 with h1 | ⟨e1, r1⟩ <;> rcases h2 with h2 | ⟨e2, r2⟩
  · exact .inl (lt_trans h1 h2)
  · exact .inl (e2 ▸ h1)
  · exact .inl (e1 ▸ h2)
  · exact .inr ⟨e1.trans e2, hR a b c r1 r2⟩

theorem LexR.antisymm {f : γ → α} {R : γ → γ → Prop} {a b : γ}
    (h1 : LexR f R a b) (h2 : LexR f R b a) : f a = f b ∧ R a b ∧ R b a := by
  rcases h1 with h1 | ⟨e1, r1⟩ <;> rcases h2 with h2 | ⟨e2, r2⟩
  · exact absurd h1 (lt_asymm h2)
  · exact absurd h1 (e2 ▸ lt_irrefl _)
  · exact absurd h2 (e1 ▸ lt_irrefl _)
  · exact ⟨e1, r1, r2⟩
end Lex

/-! ### the three comparators of the ctm model/spec -/

def SegR : Seg → Seg → Prop :=
  LexR Seg.wfn (LexR Seg.chan (LexR Seg.start (LexR Seg.dur (fun a b => a.tok ≤ b.tok))))

theorem Seg.le_iff (a b : Seg) : Seg.le a b = true ↔ SegR a b := by
  simp [Seg.le, SegR, LexR, le_iff_lt_or_eq]

theorem SegR.total (a b : Seg) : SegR a b ∨ SegR b a := by
  unfold SegR
  exact LexR.total (LexR.total (LexR.total (LexR.total (fun a b => le_total a.tok b.tok)))) a b

theorem SegR.trans (a b c : Seg) : SegR a b → SegR b c → SegR a c := by
  unfold SegR
  have hb : ∀ a b c : Seg, a.tok ≤ b.tok → b.tok ≤ c.tok → a.tok ≤ c.tok := fun _ _ _ h1 h2 => le_trans h1 h2
  exact LexR.trans (LexR.trans (LexR.trans (LexR.trans hb))) a b c

theorem SegR.antisymm {a b : Seg} (h1 : SegR a b) (h2 : SegR b a) : a = b := by
  unfold SegR at h1 h2
  obtain ⟨e1, h1, h2⟩ := LexR.antisymm h1 h2
  obtain ⟨e2, h1, h2⟩ := LexR.antisymm h1 h2
  obtain ⟨e3, h1, h2⟩ := LexR.antisymm h1 h2
  obtain ⟨e4, h1, h2⟩ := LexR.antisymm h1 h2
  have e5 := le_antisymm h1 h2
  cases a; cases b; simp_all

theorem Seg.le_total (a b : Seg) : (Seg.le a b || Seg.le b a) = true := by
  rw [Bool.or_eq_true, Seg.le_iff, Seg.le_iff]; exact SegR.total a b

theorem Seg.le_trans (a b c : Seg) : Seg.le a b = true → Seg.le b c = true → Seg.le a c = true := by
  rw [Seg.le_iff, Seg.le_iff, Seg.le_iff]; exact SegR.trans a b c

def TimedR : Timed → Timed → Prop :=
  LexR (fun x : Timed => x.2.1) (LexR (fun x : Timed => x.2.2) (fun a b => a.1 ≤ b.1))

theorem timedLe_iff (a b : Timed) : timedLe a b = true ↔ TimedR a b := by
  simp [timedLe, TimedR, LexR, le_iff_lt_or_eq]

theorem timedLe_total (a b : Timed) : (timedLe a b || timedLe b a) = true := by
  rw [Bool.or_eq_true, timedLe_iff, timedLe_iff]
  unfold TimedR
  exact LexR.total (LexR.total (fun a b => le_total a.1 b.1)) a b

theorem timedLe_trans (a b c : Timed) : timedLe a b = true → timedLe b c = true → timedLe a c = true := by
  rw [timedLe_iff, timedLe_iff, timedLe_iff]
  unfold TimedR
  have hb : ∀ a b c : Timed, a.1 ≤ b.1 → b.1 ≤ c.1 → a.1 ≤ c.1 := fun _ _ _ h1 h2 => le_trans h1 h2
  exact LexR.trans (LexR.trans hb) a b c

def WcR (wc : String → String × String) : String × List Timed → String × List Timed → Prop :=
  LexR (fun ut => (wc ut.1).1) (fun a b => (wc a.1).2 ≤ (wc b.1).2)

theorem wcLe_iff (wc) (a b : String × List Timed) : wcLe wc a b = true ↔ WcR wc a b := by
  simp [wcLe, WcR, LexR, le_iff_lt_or_eq]

theorem wcLe_total (wc) (a b : String × List Timed) : (wcLe wc a b || wcLe wc b a) = true := by
  rw [Bool.or_eq_true, wcLe_iff, wcLe_iff]
  unfold WcR
  exact LexR.total (fun a b => le_total (wc a.1).2 (wc b.1).2) a b

theorem wcLe_trans (wc) (a b c : String × List Timed) :
    wcLe wc a b = true → wcLe wc b c = true → wcLe wc a c = true := by
  rw [wcLe_iff, wcLe_iff, wcLe_iff]
  unfold WcR
  have hb : ∀ a b c : String × List Timed, (wc a.1).2 ≤ (wc b.1).2 → (wc b.1).2 ≤ (wc c.1).2 →
      (wc a.1).2 ≤ (wc c.1).2 := fun _ _ _ h1 h2 => le_trans h1 h2
  exact LexR.trans hb a b c

/-- The ctm line of one `(token, start, end)` of an utterance mapped to `wc = (wfn, chan)`. -/
def mkSeg (wc : String × String) (x : Timed) : Seg := ⟨wc.1, wc.2, x.2.1, x.2.2 - x.2.1, x.1⟩

theorem segsOfUtt_ok (m : Utt2Wc) (u : String) (t : List Timed) (wc : String × String)
    (hm : m.get u = some wc) (hok : ∀ x ∈ t, timedOk x = true) :
    segsOfUtt m u t = .ok (t.map (mkSeg wc)) := by
  unfold segsOfUtt
  rw [hm]
  obtain ⟨w, c⟩ := wc
  apply mapM_except_ok
  intro x hx
  obtain ⟨tok, s, e⟩ := x
  have := hok _ hx
  simp only [timedOk, Bool.and_eq_true, decide_eq_true_eq] at this
  obtain ⟨h0, h1⟩ := this
  have h2 : ¬ (s < 0) := not_lt.mpr h0
  have h3 : ¬ (e < 0) := not_lt.mpr (le_trans h0 h1)
  have h4 : ¬ (e - s < 0) := by
    rw [not_lt]; exact sub_nonneg.mpr h1
  simp [h2, h3, h4, mkSeg]

theorem mkSeg_le (wc : String × String) (a b : Timed) (h : timedLe a b = true) :
    Seg.le (mkSeg wc a) (mkSeg wc b) = true := by
  rw [timedLe_iff] at h
  rw [Seg.le_iff]
  unfold TimedR LexR at h
  unfold SegR LexR
  simp only [mkSeg, lt_self_iff_false, true_and, false_or]
  rcases h with h | ⟨e1, h | ⟨e2, h⟩⟩
  · exact .inl h
  · simp only at e1 h
    right; refine ⟨e1, .inl ?_⟩
    rw [e1]; exact sub_lt_sub_right h _
  · simp only at e1 e2 h
    right; refine ⟨e1, .inr ⟨by rw [e1, e2], h⟩⟩

theorem mkSeg_le_of_wc_lt (wc1 wc2 : String × String) (a b : Timed)
    (h : wc1.1 < wc2.1 ∨ (wc1.1 = wc2.1 ∧ wc1.2 < wc2.2)) :
    Seg.le (mkSeg wc1 a) (mkSeg wc2 b) = true := by
  rw [Seg.le_iff]
  unfold SegR LexR
  simp only [mkSeg]
  rcases h with h | ⟨e, h⟩
  · exact .inl h
  · exact .inr ⟨e, .inl h⟩

/-! grouping -/
theorem groupAdd_new {V} (k : String) (v : V) (acc : List (String × List V))
    (h : ∀ kv ∈ acc, kv.1 ≠ k) : groupAdd k v acc = acc ++ [(k, [v])] := by
  induction acc with
  | nil => rfl
  | cons kv rest ih =>
    obtain ⟨k', vs⟩ := kv
    have hne : k' ≠ k := h (k', vs) List.mem_cons_self
    simp only [groupAdd, beq_iff_eq, hne, if_false, List.cons_append]
    rw [ih (fun kv hkv => h kv (List.mem_cons_of_mem _ hkv))]

theorem groupAdd_last {V} (k : String) (v : V) (acc : List (String × List V)) (vs : List V)
    (h : ∀ kv ∈ acc, kv.1 ≠ k) : groupAdd k v (acc ++ [(k, vs)]) = acc ++ [(k, vs ++ [v])] := by
  induction acc with
  | nil => simp [groupAdd]
  | cons kv rest ih =>
    obtain ⟨k', vs'⟩ := kv
    have hne : k' ≠ k := h (k', vs') List.mem_cons_self
    simp only [List.cons_append, groupAdd, beq_iff_eq, hne, if_false]
    rw [ih (fun kv hkv => h kv (List.mem_cons_of_mem _ hkv))]

theorem foldl_groupAdd_block {V} (k : String) (vs : List V) (acc : List (String × List V))
    (pre : List V) (h : ∀ kv ∈ acc, kv.1 ≠ k) :
    (vs.map (fun v => (k, v))).foldl (fun acc kv => groupAdd kv.1 kv.2 acc) (acc ++ [(k, pre)])
      = acc ++ [(k, pre ++ vs)] := by
  induction vs generalizing pre with
  | nil => simp
  | cons v vs ih =>
    simp only [List.map_cons, List.foldl_cons]
    rw [groupAdd_last k v acc pre h, ih]
    simp

/-- Grouping a list made of consecutive non-empty blocks with distinct keys returns the blocks. -/
theorem group_blocks {V} (blocks : List (String × List V))
    (hnd : (blocks.map (·.1)).Nodup) (hne : ∀ b ∈ blocks, b.2 ≠ []) :
    group (blocks.flatMap (fun b => b.2.map (fun v => (b.1, v)))) = blocks := by
  unfold group
  suffices H : ∀ (acc : List (String × List V)),
      (∀ kv ∈ acc, ∀ b ∈ blocks, kv.1 ≠ b.1) →
      (blocks.flatMap (fun b => b.2.map (fun v => (b.1, v)))).foldl
        (fun acc kv => groupAdd kv.1 kv.2 acc) acc = acc ++ blocks by
    simpa using H [] (by simp)
  induction blocks with
  | nil => intro acc _; simp
  | cons b rest ih =>
    intro acc hacc
    obtain ⟨k, vs⟩ := b
    have hvs : vs ≠ [] := hne (k, vs) List.mem_cons_self
    obtain ⟨v, vs', rfl⟩ := List.exists_cons_of_ne_nil hvs
    simp only [List.flatMap_cons, List.foldl_append, List.map_cons, List.foldl_cons]
    have hk : ∀ kv ∈ acc, kv.1 ≠ k := fun kv hkv => hacc kv hkv (k, v :: vs') List.mem_cons_self
    rw [groupAdd_new k v acc hk, foldl_groupAdd_block k vs' acc [v] hk]
    simp only [List.map_cons, List.nodup_cons, List.mem_map, not_exists, not_and] at hnd
    rw [ih hnd.2 (fun b hb => hne b (List.mem_cons_of_mem _ hb))]
    · simp
    · intro kv hkv b hb
      simp only [List.mem_append, List.mem_singleton] at hkv
      rcases hkv with hkv | rfl
      · exact hacc kv hkv b (List.mem_cons_of_mem _ hb)
      · exact fun e => hnd.1 b hb e.symm

theorem flatMap_filter_nonempty {α β} (l : List (α × List β)) (f : α × List β → β → γ) :
    (l.filter (fun ut => !ut.2.isEmpty)).flatMap (fun ut => ut.2.map (f ut))
      = l.flatMap (fun ut => ut.2.map (f ut)) := by
  induction l with
  | nil => rfl
  | cons x xs ih =>
    obtain ⟨a, t⟩ := x
    cases t with
    | nil => simpa using ih
    | cons y ys => simp [ih]

theorem readSeg_mkSeg (w2u : Option (String × String → Option String)) (wc : String × String)
    (u : String) (x : Timed)
    (hinv : (match w2u with | none => some wc.1 | some g => g wc) = some u)
    (hx : timedOk x = true) : readSeg w2u (mkSeg wc x) = .ok (u, x) := by
  obtain ⟨tok, s, e⟩ := x
  obtain ⟨w, c⟩ := wc
  simp only [timedOk, Bool.and_eq_true, decide_eq_true_eq] at hx
  obtain ⟨h0, h1⟩ := hx
  have h2 : ¬ (s < 0) := not_lt.mpr h0
  have h3 : s + (e - s) = e := by ring
  have h4 : ¬ (e < s) := not_lt.mpr h1
  cases w2u with
  | none =>
    simp only at hinv
    simp only [readSeg, mkSeg, h3]
    simp [h2, h4, Option.some.inj hinv]
  | some g =>
    simp only at hinv
    simp only [readSeg, mkSeg, h3, hinv]
    simp [h2, h4]

theorem startLe_of_timedLe (a b : Timed) (h : timedLe a b = true) : startLe a b = true := by
  rw [timedLe_iff] at h
  simp only [startLe, decide_eq_true_eq]
  rcases h with h | ⟨h, _⟩
  · exact le_of_lt h
  · exact le_of_eq h

/-! ### TextGrid: rounding -/

theorem roundHalfEven_bounds (y : Rat) :
    y - 1/2 ≤ (roundHalfEven y : Rat) ∧ (roundHalfEven y : Rat) ≤ y + 1/2 := by
  have h1 := Rat.floor_le y
  have h2 := Rat.lt_floor_add_one y
  push_cast at h2
  unfold roundHalfEven
  simp only
  split_ifs with c1 c2 c3
  · constructor <;> linarith
  · push_cast; constructor <;> linarith
  · have : y - (y.floor : Rat) = 1/2 := le_antisymm (not_lt.mp c2) (not_lt.mp c1)
    constructor <;> linarith
  · have : y - (y.floor : Rat) = 1/2 := le_antisymm (not_lt.mp c2) (not_lt.mp c1)
    push_cast; constructor <;> linarith

theorem roundHalfEven_mono {y z : Rat} (h : y ≤ z) : roundHalfEven y ≤ roundHalfEven z := by
  have hf := Rat.floor_monotone h
  rcases Int.lt_or_eq_of_le hf with hlt | heq
  · -- different floors: R y ≤ floor y + 1 ≤ floor z ≤ R z
    have a : roundHalfEven y ≤ y.floor + 1 := by
      unfold roundHalfEven; simp only; split_ifs <;> omega
    have b : z.floor ≤ roundHalfEven z := by
      unfold roundHalfEven; simp only; split_ifs <;> omega
    omega
  · unfold roundHalfEven
    simp only
    rw [heq]
    have hr : y - (z.floor : Rat) ≤ z - (z.floor : Rat) := by linarith
    split_ifs <;> first | omega | (exfalso; linarith)

theorem pow10_pos (p : Nat) : (0 : Rat) < ((10 ^ p : Nat) : Rat) := by
  have : 0 < 10 ^ p := Nat.pow_pos (by norm_num)
  exact_mod_cast this

/-- `f"{x:0.{p}f}"` is within half a unit of the last printed digit. -/
theorem fmt_bounds (p : Nat) (x : Rat) :
    x - (1/2) / ((10 ^ p : Nat) : Rat) ≤ (fmt p x).val ∧ (fmt p x).val ≤ x + (1/2) / ((10 ^ p : Nat) : Rat) := by
  have hq := pow10_pos p
  obtain ⟨h1, h2⟩ := roundHalfEven_bounds (x * ((10 ^ p : Nat) : Rat))
  simp only [fmt, Dec.val]
  constructor
  · rw [le_div_iff₀ hq]
    have : (x - 1 / 2 / ((10 ^ p : Nat) : Rat)) * ((10 ^ p : Nat) : Rat) = x * ((10 ^ p : Nat) : Rat) - 1/2 := by
      field_simp
    linarith
  · rw [div_le_iff₀ hq]
    have : (x + 1 / 2 / ((10 ^ p : Nat) : Rat)) * ((10 ^ p : Nat) : Rat) = x * ((10 ^ p : Nat) : Rat) + 1/2 := by
      field_simp
    linarith

theorem fmt_mono (p : Nat) {x y : Rat} (h : x ≤ y) : (fmt p x).val ≤ (fmt p y).val := by
  have hq := pow10_pos p
  simp only [fmt, Dec.val]
  apply div_le_div_of_nonneg_right _ hq.le
  have : x * ((10 ^ p : Nat) : Rat) ≤ y * ((10 ^ p : Nat) : Rat) := mul_le_mul_of_nonneg_right h hq.le
  exact_mod_cast roundHalfEven_mono this

/-- Decimals with the same number of digits are equal when their values are. -/
theorem fmt_val_inj (p : Nat) {a b : Rat} (h : (fmt p a).val = (fmt p b).val) : fmt p a = fmt p b := by
  have hq := pow10_pos p
  simp only [fmt, Dec.val] at h
  rw [div_left_inj' hq.ne'] at h
  simp only [fmt]
  congr 1
  exact_mod_cast h

/-- The tier type of `write_textgrid`: the one asked for, else the inference at the print precision. -/
theorem isPointTier_eq_infer (t : List Timed) (o : TgWriteOpts) :
    isPointTier t o = o.pointTier.getD (inferPointAt o.precision t) := by
  unfold isPointTier inferPointAt
  cases o.pointTier <;> rfl

/-- Judging the inference at the print precision is `write_textgrid`. -/
theorem writeTextGridInferAt_precision (t : List Timed) (o : TgWriteOpts) :
    writeTextGridInferAt o.precision t o = writeTextGrid t o := by
  have hb : tgBody t { o with pointTier := some (o.pointTier.getD (inferPointAt o.precision t)) } = tgBody t o := by
    simp only [tgBody, isPointTier_eq_infer, Option.getD_some]
  simp only [writeTextGridInferAt, writeTextGrid, hb]

/-! ### TextGrid: the fill loop -/

/-- `specFill` without the closing interval. -/
def fillBody (ft : String) : Rat → List Timed → List Timed
  | _, [] => []
  | prev, (tok, s, e) :: rest =>
    (if prev < s then [(ft, prev, s)] else []) ++ (tok, s, e) :: fillBody ft e rest

/-- `start_time` after the loop: the end of the last entry. -/
def lastEnd : Rat → List Timed → Rat
  | prev, [] => prev
  | _, (_, _, e) :: rest => lastEnd e rest

theorem specFill_eq (ft : String) (xmax prev : Rat) (l : List Timed) :
    specFill ft xmax prev l = fillBody ft prev l ++
      (if lastEnd prev l < xmax then [(ft, lastEnd prev l, xmax)] else []) := by
  induction l generalizing prev with
  | nil => simp [specFill, fillBody, lastEnd]; split_ifs with hh <;> simp [hh]
  | cons x xs ih =>
    obtain ⟨tok, s, e⟩ := x
    simp [specFill, fillBody, lastEnd, ih]; split_ifs with hh <;> simp [hh]

theorem insertIdx_append_length {α} (pre rest : List α) (a : α) :
    (pre ++ rest).insertIdx pre.length a = pre ++ a :: rest := by
  induction pre with
  | nil => simp
  | cons x xs ih => simp [List.insertIdx_succ_cons, ih]

theorem fillLoop_some (ft : String) (rest : List Timed) :
    ∀ (pre : List Timed) (st : Rat) (fuel : Nat), rest.length < fuel →
      fillLoop (some ft) fuel pre.length st (pre ++ rest) = (pre ++ fillBody ft st rest, lastEnd st rest) := by
  induction rest with
  | nil =>
    intro pre st fuel hf
    obtain ⟨fuel, rfl⟩ : ∃ k, fuel = k + 1 := ⟨fuel - 1, by simp at hf; omega⟩
    simp [fillLoop, fillBody, lastEnd]
  | cons x xs ih =>
    intro pre st fuel hf
    obtain ⟨fuel, rfl⟩ : ∃ k, fuel = k + 1 := ⟨fuel - 1, by simp at hf; omega⟩
    obtain ⟨tok, s, e⟩ := x
    have hget : (pre ++ (tok, s, e) :: xs)[pre.length]? = some (tok, s, e) := by simp
    simp only [fillLoop, hget]
    have hlen : xs.length < fuel := by simp at hf; omega
    by_cases c : st < s
    · simp only [c, if_true, insertIdx_append_length]
      have := ih (pre ++ [(ft, st, s), (tok, s, e)]) e fuel hlen
      simp only [List.length_append, List.length_cons, List.length_nil, List.append_assoc,
        List.cons_append, List.nil_append] at this
      rw [show pre.length + 2 = pre.length + (0 + 1 + 1) from rfl, this]
      simp [fillBody, lastEnd, c]
    · simp only [c, if_false]
      have := ih (pre ++ [(tok, s, e)]) e fuel hlen
      simp only [List.length_append, List.length_cons, List.length_nil, List.append_assoc,
        List.cons_append, List.nil_append] at this
      rw [show pre.length + 1 = pre.length + (0 + 1) from rfl, this]
      simp [fillBody, lastEnd, c]

theorem fillLoop_none (rest : List Timed) :
    ∀ (pre : List Timed) (st : Rat) (fuel : Nat), rest.length < fuel →
      fillLoop none fuel pre.length st (pre ++ rest) = (pre ++ rest, lastEnd st rest) := by
  induction rest with
  | nil =>
    intro pre st fuel hf
    obtain ⟨fuel, rfl⟩ : ∃ k, fuel = k + 1 := ⟨fuel - 1, by simp at hf; omega⟩
    simp [fillLoop, lastEnd]
  | cons x xs ih =>
    intro pre st fuel hf
    obtain ⟨fuel, rfl⟩ : ∃ k, fuel = k + 1 := ⟨fuel - 1, by simp at hf; omega⟩
    obtain ⟨tok, s, e⟩ := x
    have hget : (pre ++ (tok, s, e) :: xs)[pre.length]? = some (tok, s, e) := by simp
    simp only [fillLoop, hget]
    have hlen : xs.length < fuel := by simp at hf; omega
    have := ih (pre ++ [(tok, s, e)]) e fuel hlen
    simp only [List.length_append, List.length_cons, List.length_nil, List.append_assoc,
      List.cons_append, List.nil_append] at this
    rw [show pre.length + 1 = pre.length + (0 + 1) from rfl, this]
    simp [lastEnd]

theorem fillAll_some (ft : String) (tmin tmax : Rat) (tr : List Timed) :
    fillAll (some ft) tmin tmax tr = specFill ft tmax tmin tr := by
  have h1 := fillLoop_some ft tr [] tmin (tr.length + 1) (by omega)
  simp only [List.length_nil, List.nil_append] at h1
  simp only [fillAll, h1, specFill_eq]
  split_ifs with hh <;> simp [hh]

theorem fillAll_none (tmin tmax : Rat) (tr : List Timed) : fillAll none tmin tmax tr = tr := by
  have h2 := fillLoop_none tr [] tmin (tr.length + 1) (by omega)
  simp only [List.length_nil, List.nil_append] at h2
  simp only [fillAll, h2]

theorem sortedTimes_of_sorted (f : TgFile)
    (h : f.body.entries.Pairwise (fun a b => startLe a.2 b.2 = true)) :
    sortedTimes .byStart f = f.body.entries.map (·.2) := by
  simp only [sortedTimes, List.mergeSort_of_pairwise h]

/-! ### trn: the character loop on writer output -/

def Item.isAlt : Item → Bool
  | .tok _ => false
  | .alt _ => true

/-- `for x in xs: <append x>` -/
def pushItems (st : St) (xs : List Item) : St := xs.foldl pushItem st

theorem tokCharOk_ne {inAlt : Bool} {c : Char} (h : tokCharOk inAlt c = true) :
    c ≠ '{' ∧ c ≠ ' ' ∧ (inAlt = true → c ≠ '/' ∧ c ≠ '}') := by
  simp only [tokCharOk, Bool.and_eq_true, Bool.not_eq_true', bne_iff_ne, ne_eq, Bool.or_eq_true] at h
  obtain ⟨⟨h1, h2⟩, h3⟩ := h
  refine ⟨h2, ?_, ?_⟩
  · rintro rfl; simp [isPyWhite] at h1
  · intro hi
    rcases h3 with h3 | h3
    · simp [hi] at h3
    · exact h3

theorem step_tokChar (out : List Item) (acc : List Char) (stack : List Frame) (fa : Bool) (c : Char)
    (h : tokCharOk (!stack.isEmpty) c = true) :
    step ⟨out, acc, stack, fa⟩ c = .ok ⟨out, acc ++ [c], stack, fa⟩ := by
  obtain ⟨h1, h2, h3⟩ := tokCharOk_ne h
  unfold step
  have e1 : (c == '{') = false := by simpa using h1
  have e2 : (c == ' ') = false := by simpa using h2
  have e3 : (c == '/' && !stack.isEmpty) = false := by
    cases hs : stack.isEmpty with
    | true => simp
    | false => have := (h3 (by simp [hs])).1; simp [this]
  have e4 : (c == '}' && !stack.isEmpty) = false := by
    cases hs : stack.isEmpty with
    | true => simp
    | false => have := (h3 (by simp [hs])).2; simp [this]
  simp only [e1, e2, e3, e4, Bool.false_eq_true, if_false]

theorem run_chars (s : List Char) (out : List Item) (stack : List Frame) (fa : Bool) (rest : List Char)
    (h : s.all (tokCharOk (!stack.isEmpty)) = true) :
    ∀ acc, run ⟨out, acc, stack, fa⟩ (s ++ rest) = run ⟨out, acc ++ s, stack, fa⟩ rest := by
  induction s with
  | nil => intro acc; simp
  | cons c cs ih =>
    intro acc
    simp only [List.all_cons, Bool.and_eq_true] at h
    simp only [List.cons_append, run, step_tokChar out acc stack fa c h.1]
    rw [ih h.2]
    simp

theorem step_space (st : St) : step st ' ' = .ok (flush st) := by
  unfold step
  simp

theorem pushItem_root (out : List Item) (tk : List Char) (fa : Bool) (x : Item) :
    pushItem ⟨out, tk, [], fa⟩ x = ⟨out ++ [x], tk, [], fa⟩ := rfl

theorem pushItem_frame (out : List Item) (tk : List Char) (f : Frame) (fs : List Frame) (fa : Bool) (x : Item) :
    pushItem ⟨out, tk, f :: fs, fa⟩ x = ⟨out, tk, ⟨f.done, f.cur ++ [x]⟩ :: fs, fa⟩ := rfl

/-- A token followed by the space the writer puts after it. -/
theorem run_tok (s : List Char) (out : List Item) (stack : List Frame) (fa : Bool) (rest : List Char)
    (h : tokOk (!stack.isEmpty) s = true) :
    run ⟨out, [], stack, fa⟩ (s ++ ' ' :: rest) = run (pushItem ⟨out, [], stack, fa⟩ (.tok s)) rest := by
  simp only [tokOk, Bool.and_eq_true, Bool.not_eq_true', List.isEmpty_eq_false_iff] at h
  rw [run_chars s out stack fa _ h.2 []]
  simp only [List.nil_append, run, step_space, flush]
  have : s.isEmpty = false := by simpa using h.1
  simp only [this, Bool.false_eq_true, if_false]
  cases stack <;> rfl

/-- Appending keeps the shape the lemmas are stated for. -/
theorem pushItem_shape (out : List Item) (stack : List Frame) (fa : Bool) (x : Item) :
    ∃ out' stack', pushItem ⟨out, [], stack, fa⟩ x = ⟨out', [], stack', fa⟩ ∧
      stack'.isEmpty = stack.isEmpty := by
  cases stack with
  | nil => exact ⟨_, _, rfl, rfl⟩
  | cons f fs => exact ⟨_, _, rfl, rfl⟩

theorem pushItem_fa (out : List Item) (tk : List Char) (stack : List Frame) (fa fb : Bool) (x : Item) :
    { pushItem ⟨out, tk, stack, fa⟩ x with foundAlt := fb } = pushItem ⟨out, tk, stack, fb⟩ x := by
  cases stack <;> rfl

theorem pushItems_frame (xs : List Item) : ∀ (out : List Item) (tk : List Char) (f : Frame) (fs : List Frame)
    (fa : Bool), pushItems ⟨out, tk, f :: fs, fa⟩ xs = ⟨out, tk, ⟨f.done, f.cur ++ xs⟩ :: fs, fa⟩ := by
  induction xs with
  | nil => intro out tk f fs fa; simp [pushItems]
  | cons x xs ih =>
    intro out tk f fs fa
    simp only [pushItems, List.foldl_cons, pushItem_frame] at ih ⊢
    rw [ih]; simp

theorem pushItems_root (xs : List Item) : ∀ (out : List Item) (tk : List Char) (fa : Bool),
    pushItems ⟨out, tk, [], fa⟩ xs = ⟨out ++ xs, tk, [], fa⟩ := by
  induction xs with
  | nil => intro out tk fa; simp [pushItems]
  | cons x xs ih =>
    intro out tk fa
    simp only [pushItems, List.foldl_cons, pushItem_root] at ih ⊢
    rw [ih]; simp

mutual
theorem run_item : ∀ (x : Item) (out : List Item) (stack : List Frame) (fa : Bool) (rest : List Char),
    itemOk (!stack.isEmpty) x = true →
    run ⟨out, [], stack, fa⟩ (handle x ++ rest) = run (pushItem ⟨out, [], stack, fa || x.isAlt⟩ x) rest
  | .tok s, out, stack, fa, rest, h => by
    simp only [itemOk] at h
    simp only [handle, List.append_assoc, List.cons_append, List.nil_append, Item.isAlt, Bool.or_false]
    exact run_tok s out stack fa rest h
  | .alt bs, out, stack, fa, rest, h => by
    simp only [itemOk] at h
    simp only [handle, List.append_assoc, List.cons_append, List.nil_append, Item.isAlt, Bool.or_true]
    have s1 : step ⟨out, [], stack, fa⟩ '{' = .ok ⟨out, [], ⟨[], []⟩ :: stack, true⟩ := by
      simp [step, flush]
    have s2 : step ⟨out, [], ⟨[], []⟩ :: stack, true⟩ ' ' = .ok ⟨out, [], ⟨[], []⟩ :: stack, true⟩ := by
      simp [step_space, flush]
    simp only [run, s1, s2]
    have := run_branches bs out ⟨[], []⟩ stack (' ' :: rest) h rfl
    simp only [List.nil_append] at this
    rw [this]
    have e : ∃ out' stack', pushItem ⟨out, [], stack, true⟩ (.alt bs) = ⟨out', [], stack', true⟩ :=
      let ⟨o, s, h, _⟩ := pushItem_shape out stack true (.alt bs); ⟨o, s, h⟩
    obtain ⟨out', stack', he⟩ := e
    rw [he]
    simp [run, step_space, flush]
theorem run_seq : ∀ (xs : List Item) (out : List Item) (stack : List Frame) (fa : Bool) (rest : List Char),
    seqOk (!stack.isEmpty) xs = true →
    run ⟨out, [], stack, fa⟩ (handleSeq xs ++ rest)
      = run (pushItems ⟨out, [], stack, fa || xs.any Item.isAlt⟩ xs) rest
  | [], out, stack, fa, rest, _ => by simp [handleSeq, pushItems]
  | x :: xs, out, stack, fa, rest, h => by
    simp only [seqOk, Bool.and_eq_true] at h
    simp only [handleSeq, List.append_assoc]
    rw [run_item x out stack fa _ h.1]
    obtain ⟨out', stack', he, hs⟩ := pushItem_shape out stack (fa || x.isAlt) x
    rw [he, run_seq xs out' stack' (fa || x.isAlt) rest (by rw [hs]; exact h.2)]
    simp only [pushItems, List.foldl_cons, List.any_cons, Bool.or_assoc]
    congr 2
    have := pushItem_fa out [] stack (fa || x.isAlt) (fa || (x.isAlt || xs.any Item.isAlt)) x
    rw [← this, he]
theorem run_branches : ∀ (bs : List (List Item)) (out : List Item) (f : Frame) (fs : List Frame)
    (rest : List Char), branchesOk bs = true → f.cur = [] →
    run ⟨out, [], f :: fs, true⟩ (handleBranches bs ++ '}' :: rest)
      = run (pushItem ⟨out, [], fs, true⟩ (.alt (f.done ++ bs))) rest
  | [], _, _, _, _, h, _ => by simp [branchesOk] at h
  | [b], out, f, fs, rest, h, hc => by
    simp only [branchesOk, Bool.and_eq_true, Bool.not_eq_true', List.isEmpty_eq_false_iff] at h
    simp only [handleBranches]
    rw [run_seq b out (f :: fs) true _ (by simpa using h.2)]
    simp only [Bool.true_or, pushItems_frame, hc, List.nil_append]
    have hb : b.isEmpty = false := by simpa using h.1
    simp [run, step, flush, hb]
  | b :: b' :: bs, out, f, fs, rest, h, hc => by
    simp only [branchesOk, Bool.and_eq_true] at h
    simp only [handleBranches, List.append_assoc, List.cons_append, List.nil_append]
    rw [run_seq b out (f :: fs) true _ (by simpa using h.1)]
    simp only [Bool.true_or, pushItems_frame, hc, List.nil_append]
    have s1 : step ⟨out, [], ⟨f.done, b⟩ :: fs, true⟩ '/' = .ok ⟨out, [], ⟨f.done ++ [b], []⟩ :: fs, true⟩ := by
      simp [step, flush]
    have s2 : step ⟨out, [], ⟨f.done ++ [b], []⟩ :: fs, true⟩ ' ' = .ok ⟨out, [], ⟨f.done ++ [b], []⟩ :: fs, true⟩ := by
      simp [step_space, flush]
    simp only [run, s1, s2]
    rw [run_branches (b' :: bs) out ⟨f.done ++ [b], []⟩ fs rest h.2 rfl]
    simp
end

/-! ### trn: strip / rindex on writer output -/

theorem run_append (l1 l2 : List Char) : ∀ st, run st (l1 ++ l2) =
    match run st l1 with
    | .ok st' => run st' l2
    | .error e => .error e := by
  induction l1 with
  | nil => intro st; simp [run]
  | cons c cs ih =>
    intro st
    simp only [List.cons_append, run]
    cases step st c with
    | error e => rfl
    | ok st' => exact ih st'

theorem finish_of_flush (st : St) (h : (flush st).stack = []) : finish st = (flush st).out := by
  obtain ⟨out, tk, stack, fa⟩ := st
  unfold flush at h ⊢
  unfold finish
  by_cases c : tk.isEmpty = true
  · simp [c]
  · have c' : tk.isEmpty = false := by simpa using c
    simp only [c', Bool.false_eq_true, if_false] at h ⊢
    cases stack with
    | nil => simp [pushItem]
    | cons f fs => simp [pushItem] at h

theorem dropWhile_append_all {α} (p : α → Bool) (a b : List α) (h : ∀ x ∈ a, p x = true) :
    (a ++ b).dropWhile p = b.dropWhile p := by
  induction a with
  | nil => rfl
  | cons x xs ih =>
    simp only [List.cons_append, List.dropWhile_cons, h x List.mem_cons_self, if_true]
    exact ih (fun y hy => h y (List.mem_cons_of_mem _ hy))

/-- `strip` removes a white tail and nothing else when the first and last character of the
rest are not white. -/
theorem strip_core (c : Char) (mid : List Char) (d : Char) (w : List Char)
    (hc : isPyWhite c = false) (hd : isPyWhite d = false) (hw : ∀ x ∈ w, isPyWhite x = true) :
    strip (c :: mid ++ d :: w) = c :: mid ++ [d] := by
  unfold strip
  have h1 : (c :: mid ++ d :: w).dropWhile isPyWhite = c :: mid ++ d :: w := by
    simp [List.dropWhile_cons, hc]
  rw [h1]
  have h2 : (c :: mid ++ d :: w).reverse = w.reverse ++ d :: (c :: mid).reverse := by simp
  rw [h2, dropWhile_append_all _ _ _ (by simpa using hw)]
  simp [List.dropWhile_cons, hd]

theorem strip_single (c : Char) (w : List Char)
    (hc : isPyWhite c = false) (hw : ∀ x ∈ w, isPyWhite x = true) :
    strip (c :: w) = [c] := by
  unfold strip
  have h1 : (c :: w).dropWhile isPyWhite = c :: w := by simp [List.dropWhile_cons, hc]
  rw [h1]
  have h2 : (c :: w).reverse = w.reverse ++ [c] := by simp
  rw [h2, dropWhile_append_all _ _ _ (by simpa using hw)]
  simp [List.dropWhile_cons, hc]

theorem span_append_stop {α} (p : α → Bool) (a : List α) (x : α) (b : List α)
    (ha : ∀ y ∈ a, p y = true) (hx : p x = false) : (a ++ x :: b).span p = (a, x :: b) := by
  rw [List.span_eq_takeWhile_dropWhile]
  induction a with
  | nil => simp [List.takeWhile_cons, List.dropWhile_cons, hx]
  | cons y ys ih =>
    have hy := ha y List.mem_cons_self
    have := ih (fun z hz => ha z (List.mem_cons_of_mem _ hz))
    simp only [Prod.mk.injEq] at this
    simp [List.takeWhile_cons, List.dropWhile_cons, hy, this.1, this.2]

/-- `rindex(c)` when `c` does not occur after the marked position. -/
theorem splitLast_eq (c : Char) (pre post : List Char) (h : ∀ y ∈ post, y ≠ c) :
    splitLast c (pre ++ c :: post) = some (pre, post) := by
  unfold splitLast
  have h2 : (pre ++ c :: post).reverse = post.reverse ++ c :: pre.reverse := by simp
  rw [h2, span_append_stop _ _ _ _ (by simpa using h) (by simp)]
  simp

def HeadOk (l : List Char) : Prop := ∃ c tl, l = c :: tl ∧ isPyWhite c = false
def LastOk (l : List Char) : Prop := ∃ ini d, l = ini ++ [d] ∧ isPyWhite d = false

theorem strip_of_ok (core w : List Char) (hh : HeadOk core) (hl : LastOk core)
    (hw : ∀ x ∈ w, isPyWhite x = true) : strip (core ++ w) = core := by
  obtain ⟨c, tl, rfl, hc⟩ := hh
  obtain ⟨ini, d, he, hd⟩ := hl
  cases ini with
  | nil =>
    simp only [List.nil_append, List.cons.injEq] at he
    obtain ⟨rfl, rfl⟩ := he
    exact strip_single c w hc hw
  | cons i ini =>
    simp only [List.cons_append, List.cons.injEq] at he
    obtain ⟨rfl, rfl⟩ := he
    have := strip_core c ini d w hc hd hw
    simpa using this

/-- What the writer emits for one element: a non-white first character, a non-white last one,
then exactly one space. -/
theorem handle_shape (inAlt : Bool) (x : Item) (h : itemOk inAlt x = true) :
    ∃ core, handle x = core ++ [' '] ∧ HeadOk core ∧ LastOk core := by
  cases x with
  | tok s =>
    simp only [itemOk, tokOk, Bool.and_eq_true, Bool.not_eq_true', List.isEmpty_eq_false_iff,
      List.all_eq_true] at h
    obtain ⟨hne, hall⟩ := h
    have hw : ∀ y ∈ s, isPyWhite y = false := by
      intro y hy
      have := hall y hy
      simp only [tokCharOk, Bool.and_eq_true, Bool.not_eq_true'] at this
      exact this.1.1
    refine ⟨s, rfl, ?_, ?_⟩
    · cases s with
      | nil => exact absurd rfl hne
      | cons c cs => exact ⟨c, cs, rfl, hw c (by simp)⟩
    · rcases List.eq_nil_or_concat s with rfl | ⟨ini, d, rfl⟩
      · exact absurd rfl hne
      · exact ⟨ini, d, by simp, hw d (by simp)⟩
  | alt bs =>
    refine ⟨['{', ' '] ++ handleBranches bs ++ ['}'], by simp [handle], ⟨'{', _, rfl, by decide⟩,
      ⟨['{', ' '] ++ handleBranches bs, '}', rfl, by decide⟩⟩

theorem handleSeq_shape (inAlt : Bool) (xs : List Item) (h : seqOk inAlt xs = true) (hne : xs ≠ []) :
    ∃ core, handleSeq xs = core ++ [' '] ∧ HeadOk core ∧ LastOk core := by
  induction xs with
  | nil => exact absurd rfl hne
  | cons x xs ih =>
    simp only [seqOk, Bool.and_eq_true] at h
    obtain ⟨cx, hx, hhx, hlx⟩ := handle_shape inAlt x h.1
    cases xs with
    | nil => exact ⟨cx, by simp [handleSeq, hx], hhx, hlx⟩
    | cons y ys =>
      obtain ⟨cs, hs, _, hls⟩ := ih h.2 (by simp)
      refine ⟨cx ++ ' ' :: cs, by rw [handleSeq, hx, hs]; simp, ?_, ?_⟩
      · obtain ⟨c, tl, rfl, hc⟩ := hhx
        exact ⟨c, tl ++ ' ' :: cs, by simp, hc⟩
      · obtain ⟨ini, d, rfl, hd⟩ := hls
        exact ⟨cx ++ ' ' :: ini, d, by simp, hd⟩

theorem flush_foundAlt (st : St) : (flush st).foundAlt = st.foundAlt := by
  obtain ⟨out, tk, stack, fa⟩ := st
  unfold flush
  split
  · rfl
  · cases stack <;> rfl

/-- The trn round trip on one line (restated as `C11_trn` in `Properties/C11.lean`). -/
theorem readTrnLine_writeTrnLine (utt : List Char) (items : List Item)
    (hu : uttOk utt = true) (ht : seqOk false items = true) :
    readTrnLine (handleSeq items ++ ['('] ++ utt ++ [')', '\n'])
      = .ok (some (utt, items, items.any Item.isAlt)) := by
  have hwn : ∀ x ∈ ['\n'], isPyWhite x = true := by simp [isPyWhite]
  have hutt : ∀ y ∈ utt, y ≠ '(' ∧ y ≠ ')' := by
    intro y hy
    simp only [uttOk, List.all_eq_true, Bool.and_eq_true, bne_iff_ne, ne_eq] at hu
    exact hu y hy
  -- the stripped line
  have hstrip : strip (handleSeq items ++ ['('] ++ utt ++ [')', '\n'])
      = handleSeq items ++ '(' :: (utt ++ [')']) := by
    have : handleSeq items ++ ['('] ++ utt ++ [')', '\n']
        = (handleSeq items ++ '(' :: (utt ++ [')'])) ++ ['\n'] := by simp
    rw [this]
    apply strip_of_ok _ _ _ _ hwn
    · by_cases hne : items = []
      · subst hne; exact ⟨'(', utt ++ [')'], by simp [handleSeq], by decide⟩
      · obtain ⟨core, hc, ⟨c, tl, rfl, hcw⟩, _⟩ := handleSeq_shape false items ht hne
        exact ⟨c, tl ++ ' ' :: '(' :: (utt ++ [')']), by simp [hc], hcw⟩
    · exact ⟨handleSeq items ++ '(' :: utt, ')', by simp, by decide⟩
  unfold readTrnLine
  simp only [hstrip]
  have hne : (handleSeq items ++ '(' :: (utt ++ [')'])).isEmpty = false := by simp
  simp only [hne, Bool.false_eq_true, if_false]
  rw [splitLast_eq '(' (handleSeq items) (utt ++ [')'])
    (by intro y hy; simp only [List.mem_append, List.mem_singleton] at hy
        rcases hy with hy | rfl
        · exact (hutt y hy).1
        · decide)]
  simp only
  rw [splitLast_eq ')' utt [] (by simp)] <;> try (intro y hy; exact (hutt y hy).2)
  simp only
  -- the character loop
  by_cases hnil : items = []
  · subst hnil
    simp [handleSeq, strip, run, finish, St.init]
  · obtain ⟨core, hc, hh, hl⟩ := handleSeq_shape false items ht hnil
    have hs : strip (handleSeq items) = core := by
      rw [hc]; exact strip_of_ok core [' '] hh hl (by simp [isPyWhite])
    rw [hs]
    have hrun := run_seq items [] [] false [] (by simpa using ht)
    simp only [List.append_nil, Bool.false_or, pushItems_root, List.nil_append, run] at hrun
    rw [hc, run_append] at hrun
    cases hr : run St.init core with
    | error e => simp [St.init] at hr; simp [hr] at hrun
    | ok st' =>
      simp only [St.init] at hr
      simp only [hr, run, step_space] at hrun
      have hf : flush st' = ⟨items, [], [], items.any Item.isAlt⟩ := by
        simpa using hrun
      have h1 : finish st' = items := by
        rw [finish_of_flush st' (by rw [hf])]; rw [hf]
      have h2 : st'.foundAlt = items.any Item.isAlt := by
        rw [← flush_foundAlt, hf]
      simp [h1, h2]

end PdtVerif.Transcripts
