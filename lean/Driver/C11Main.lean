import Driver.Proto
import PdtVerif.Model.Transcripts
import PdtVerif.Model.TranscriptsText
import PdtVerif.Spec.Transcripts
/-! Driver for C11: trn / ctm / TextGrid / frame conversion / dispatch table. Glue only. -/
open Lean Proto PdtVerif.Transcripts

/-- The framework splits the driver's output with Python's `str.splitlines()`, which also breaks at
U+0085, U+2028 and U+2029; Lean's JSON printer leaves these three unescaped. Strings in replies carry
them as private-use code points, which `harness/c11.py` maps back. -/
def safeChar (c : Char) : Char :=
  if c == '\u0085' then '\uE085' else if c == '\u2028' then '\uE028' else if c == '\u2029' then '\uE029' else c

def sJ (s : String) : Json := Proto.strJ (String.ofList (s.toList.map safeChar))

/-! ### JSON ↔ model values -/

partial def jsonToItem (j : Json) : Except String Item :=
  match j with
  | .str s => .ok (.tok s.toList)
  | .arr bs => do
    let bs' ← bs.toList.mapM (fun b => do
      let xs ← b.getArr?
      xs.toList.mapM jsonToItem)
    pure (.alt bs')
  | _ => .error s!"bad item {j.compress}"

def jsonToTop (j : Json) : Except String Top :=
  match j with
  | .obj _ => do
    let t ← getStr j "tok"
    let s ← getRat j "s"
    let e ← getRat j "e"
    pure (.timed t.toList s e)
  | _ => Top.plain <$> jsonToItem j

partial def itemToJson : Item → Json
  | .tok s => sJ (String.ofList s)
  | .alt bs => Json.arr (bs.map (fun b => Json.arr (b.map itemToJson).toArray)).toArray

def trnErrJ (e : TrnErr) : Json :=
  match e with
  | .badChunk => objJ [("error", sJ "ValueError"), ("which", sJ "badChunk")]
  | .noUttId => objJ [("error", sJ "OSError"), ("which", sJ "noUttId")]
  | .emptyAlt => objJ [("error", sJ "OSError"), ("which", sJ "emptyAlt")]

def entryJ (r : List Char × List Item × Bool) : Json :=
  objJ [("utt", sJ (String.ofList r.1)), ("t", listJ itemToJson r.2.1), ("found_alt", boolJ r.2.2)]

def resJ (r : Except TrnErr (List (List Char × List Item × Bool))) : Json :=
  match r with
  | .ok l => listJ entryJ l
  | .error e => trnErrJ e

/-- Split file text into lines the way iterating a Python text file does (`"\n"` kept). -/
def splitLines (s : List Char) : List (List Char) :=
  let rec go (cur : List Char) (acc : List (List Char)) : List Char → List (List Char)
    | [] => if cur.isEmpty then acc.reverse else (cur.reverse :: acc).reverse
    | c :: cs => if c == '\n' then go [] (('\n' :: cur).reverse :: acc) cs else go (c :: cur) acc cs
  go [] [] s

def c11Trn : Handler := fun c => do
  let utts ← getList (fun j => do
    let u ← getStr j "utt"
    let t ← getList jsonToTop j "t"
    pure (u.toList, t)) c "utts"
  let chunk ← getNat c "chunk"
  let text := (utts.map (fun (u, t) => writeTrnLine u t)).flatten
  -- the file object translates `\r\n` / `\r` to `\n` before the lines are iterated (text mode)
  let lines := pyLines (universalNewlines text)
  let inDom := utts.all (fun (u, t) => uttOk u && seqOk false (t.map Top.item))
  let depth := utts.foldl (fun d (_, t) => max d (seqDepth (t.map Top.item))) 0
  -- C11_trn / C11_trn_file / C11_workers say: in the domain the model returns the spec
  let specJ := listJ (fun (u, t) => objJ [("t", listJ itemToJson (t.map Top.item)),
      ("utt", sJ (String.ofList u))]) utts
  let plain := fun (r : Except TrnErr (List (List Char × List Item × Bool))) => match r with
    | .ok l => listJ (fun (e : List Char × List Item × Bool) =>
        objJ [("t", listJ itemToJson e.2.1), ("utt", sJ (String.ofList e.1))]) l
    | .error _ => Json.null
  if inDom && (plain (readTrnSeq lines)).compress != specJ.compress then
    throw "internal: model != spec inside the domain of C11_trn"
  if chunk != 0 && (plain (readTrnPool chunk lines)).compress != (plain (readTrnSeq lines)).compress then
    throw "internal: pool model != sequential model (C11_workers)"
  pure (objJ [
    ("text", sJ (String.ofList text)),
    ("read", resJ (readTrnSeq lines)),
    ("pool", resJ (readTrnPool chunk lines)),
    -- the same file written through `open(..., newline="\r\n")` and read without newline translation
    -- (with `newline=""` the line ends are kept but lines still end at `\r`, `\n` or `\r\n`; the ends are
    -- white space to `strip`, so this is the text-mode reading of the CRLF characters)
    ("read_crlf_raw", resJ (readTrnSeq (pyLines (universalNewlines (crlf text))))),
    ("in_domain", boolJ inDom),
    ("depth", natJ depth),
    ("spec", listJ (fun (u, t) => objJ [("utt", sJ (String.ofList u)),
        ("t", listJ itemToJson (t.map Top.item))]) utts)])

def c11TrnLine : Handler := fun c => do
  let lines ← getList jsonToStr c "lines"
  pure (listJ (fun (line : String) =>
    match readTrnLine line.toList with
    | .error e => trnErrJ e
    | .ok none => objJ [("blank", boolJ true)]
    | .ok (some r) => entryJ r) lines)

/-! ctm -/
def jsonToTimed (j : Json) : Except String Timed := do
  let a ← j.getArr?
  match a.toList with
  | [t, s, e] => do pure (← t.getStr?, ← jsonToRat s, ← jsonToRat e)
  | _ => throw "timed must be [tok, s, e]"

def timedJ (x : Timed) : Json := Json.arr #[sJ x.1, ratToJson x.2.1, ratToJson x.2.2]

def jsonToTranscripts (j : Json) : Except String Transcripts :=
  jsonToList (fun ut => do
    let a ← ut.getArr?
    match a.toList with
    | [u, t] => do pure (← u.getStr?, ← jsonToList jsonToTimed t)
    | _ => throw "transcript must be [utt, [...]]") j

def transcriptsJ (ts : Transcripts) : Json :=
  listJ (fun (u, t) => Json.arr #[sJ u, listJ timedJ t]) ts

def ctmErrJ (e : CtmErr) : Json :=
  objJ [("error", sJ (match e with | .key => "KeyError" | .value => "ValueError"))]

def strTriples (j : Json) : Except String (List (String × String × String)) :=
  jsonToList (fun x => do
    let a ← x.getArr?
    match a.toList with
    | [p, q, r] => do pure (← p.getStr?, ← q.getStr?, ← r.getStr?)
    | _ => throw "triple expected") j

def c11Ctm : Handler := fun c => do
  let ts ← field c "ts" >>= jsonToTranscripts
  let u2w ← field c "utt2wc"
  let m : Utt2Wc ← match u2w with
    | .str s => pure (Utt2Wc.chan s)
    | j => do
      let l ← strTriples j
      pure (Utt2Wc.dict (l.map (fun (u, w, ch) => (u, (w, ch)))))
  let w2u : Option (String × String → Option String) ← match fieldOpt c "wc2utt" with
    | none => pure none
    | some j => do
      let l ← strTriples j
      let tbl := l.map (fun (w, ch, u) => ((w, ch), u))
      pure (some (fun k => tbl.lookup k))
  let written := writeCtm m ts
  let linesJ := match written with
    | .error e => ctmErrJ e
    | .ok segs => listJ (fun (s : Seg) => Json.arr #[sJ s.wfn, sJ s.chan, ratToJson s.start,
        ratToJson s.dur, sJ s.tok]) segs
  let readJ := match written with
    | .error _ => Json.null
    | .ok segs => match readCtm w2u segs with
      | .error e => ctmErrJ e
      | .ok r => transcriptsJ r
  -- the oracle applies when the mapping is total on the utterances, inverted by wc2utt,
  -- ids are distinct and all times are expressible
  let wcOpt := ts.map (fun ut => m.get ut.1)
  let total := wcOpt.all Option.isSome
  let wc : String → String × String := fun u => (m.get u).getD ("", "")
  let inverse := ts.all (fun ut => match w2u with
    | none => (wc ut.1).1 == ut.1
    | some f => f (wc ut.1) == some ut.1)
  let distinct := (ts.map (·.1)).eraseDups.length == ts.length
  let timesOk := ts.all (fun ut => ut.2.all timedOk)
  let inDom := total && inverse && distinct && timesOk
  if inDom && readJ.compress != (transcriptsJ (specCtm wc ts)).compress then
    throw "internal: model != spec inside the domain of C11_ctm"
  -- text layer: the characters of the file, and read_ctm on those characters
  let text : Option (List Char) := match writeCtmText m ts with
    | .ok (some t) => some t
    | _ => none
  let ctmResJ := fun (r : Except CtmErr Transcripts) => match r with
    | .error e => ctmErrJ e
    | .ok r => transcriptsJ r
  let fieldsOk := match written with
    | .ok segs => segs.all (fun sg => ctmFieldOk sg.wfn.toList && ctmFieldOk sg.chan.toList && ctmFieldOk sg.tok.toList &&
        decide (0 ≤ sg.start) && decide (0 ≤ sg.dur))
    | .error _ => false
  let readTextJ := match text with
    | some t => ctmResJ (readCtmText w2u (universalNewlines t))
    | none => Json.null
  -- C11_ctm_text: on printable fields reading the characters = reading the records
  if fieldsOk && text.isSome && readTextJ.compress != readJ.compress then
    throw "internal: text-level read != record-level read inside the domain of C11_ctm_text"
  pure (objJ [("lines", linesJ), ("read", readJ), ("in_domain", boolJ inDom),
    ("text", match text with | some t => sJ (String.ofList t) | none => Json.null),
    ("fields_ok", boolJ fieldsOk),
    ("read_text", readTextJ),
    ("read_crlf_raw", match text with
      | some t => ctmResJ (readCtmText w2u (universalNewlines (crlf t)))
      | none => Json.null),
    ("spec", if inDom then transcriptsJ (specCtm wc ts) else Json.null)])

/-- Hand-written ctm text (comments, confidence column, blank lines, odd spacing, malformed lines). -/
def c11CtmText : Handler := fun c => do
  let text ← getStr c "text"
  let w2u : Option (String × String → Option String) ← match fieldOpt c "wc2utt" with
    | none => pure none
    | some j => do
      let l ← strTriples j
      let tbl := l.map (fun (w, ch, u) => ((w, ch), u))
      pure (some (fun k => tbl.lookup k))
  let universal ← getBool c "universal"
  let t := if universal then universalNewlines text.toList else text.toList
  pure (objJ [("read", match readCtmText w2u t with
    | .error e => ctmErrJ e
    | .ok r => transcriptsJ r)])

/-! TextGrid -/
def tgErrJ (e : TgErr) : Json :=
  objJ [("error", sJ (match e with | .value => "ValueError" | .index => "IndexError"))]

def readResJ (r : Except TgErr (List Timed × Rat × Rat)) : Json :=
  match r with
  | .error e => tgErrJ e
  | .ok (t, a, b) => objJ [("t", listJ timedJ t), ("xmin", ratToJson a), ("xmax", ratToJson b)]

def c11TextGrid : Handler := fun c => do
  let t ← getList jsonToTimed c "t"
  let st ← getOptRat c "start_time"
  let en ← getOptRat c "end_time"
  let name ← getStr c "tier_name"
  let pt ← match fieldOpt c "point_tier" with
    | none => pure none
    | some j => some <$> jsonToBool j
  let p ← getNat c "precision"
  let tier : TierId ← match ← field c "tier_id" with
    | .str s => pure (TierId.name s)
    | j => TierId.idx <$> jsonToInt j
  let fill ← match fieldOpt c "fill" with
    | none => pure none
    | some j => some <$> jsonToStr j
  let o : TgWriteOpts := ⟨st, en, name, pt, p⟩
  match writeTextGrid t o with
  | .error e => pure (objJ [("lines", tgErrJ e), ("read", Json.null)])
  | .ok f =>
    let viaPath := writeTextGridVia ((dispatchTable.find? (·.fn == "write_textgrid")).map (·.forwarded) |>.getD []) t o
    let nofill := readTextGrid .byStart f tier none
    -- oracle: entries come back in order with every time within half a unit of the last
    -- printed digit; the fill result is `specFill` of the unfilled result
    let isPoint := match f.body with | .points _ => true | .intervals _ => false
    let boundOk := match nofill with
      | .ok (r, a, b) =>
        r.length == t.length &&
        (List.zip r t).all (fun (x, y) => x.1 == y.1 && withinHalfUlp p x.2.1 y.2.1 &&
          (!isPoint || x.2.2 == x.2.1) &&
          -- the end is within the print precision whatever the tier type (C11_textgrid_inferred), unless a point
          -- tier was asked for on a segment with a length
          (withinHalfUlp p x.2.2 y.2.2 || (pt == some true && y.2.1 != y.2.2))) &&
        withinHalfUlp p a (minList (t.map (·.2.1))) && withinHalfUlp p b (maxList (t.map (·.2.2)))
      | .error _ => false
    let fillSpecJ := match nofill, fill with
      | .ok (r, a, b), some ft => listJ timedJ (specFill ft b a r)
      | _, _ => Json.null
    -- C11_textgrid_inferred / writeTextGridInferAt_precision: the code judges "zero length" at the print precision
    if (match writeTextGridInferAt p t o with | .ok g => g != f | .error _ => true) then
      throw "internal: writeTextGridInferAt precision != writeTextGrid"
    let ordered := (List.zip t t.tail).all (fun (x, y) => decide (x.2.1 ≤ y.2.1))
    let admissible := pt != some true || t.all (fun x => x.2.1 == x.2.2)
    let found := match tier with
      | .idx i => i == 0 || i == -1
      | .name s => s == name
    if ordered && admissible && found && !boundOk then
      throw "internal: round trip outside the print precision inside the domain of C11_textgrid_inferred"
    -- text layer: the characters written, parsed back (C11_textgrid_text), read from the characters
    let chars := f.chars
    let textDom := f.textOk
    if textDom && parseTg chars != some f then
      throw "internal: parseTg (f.chars) != f inside the domain of C11_textgrid_text"
    if String.ofList chars != String.intercalate "\n" f.render ++ "\n" then
      throw "internal: TgFile.chars != TgFile.render"
    let optReadJ := fun (r : Option (Except TgErr (List Timed × Rat × Rat))) => match r with
      | some r => readResJ r
      | none => objJ [("unparsed", boolJ true)]
    pure (objJ [
      ("lines", listJ sJ f.render),
      ("text", sJ (String.ofList chars)),
      ("text_domain", boolJ textDom),
      ("read_text", optReadJ (readTextGridText .byStart chars tier fill)),
      ("read_text_crlf", optReadJ (readTextGridText .byStart (crlf chars) tier fill)),
      ("via_path_same", boolJ (match viaPath with | .ok g => g == f | .error _ => false)),
      ("point", boolJ isPoint),
      ("read", readResJ (readTextGrid .byStart f tier fill)),
      ("read_pinned", readResJ (readTextGrid .pinned f tier fill)),
      ("read_nofill", readResJ nofill),
      ("spec", objJ [("bound_ok", boolJ boundOk), ("fill", fillSpecJ),
        -- the documented inference: a point tier iff every segment has no length at the print precision
        ("infer_point", boolJ (inferPointAt p t)),
        ("point_expected", boolJ (pt.getD (inferPointAt p t)))])])

/-- A TextGrid with several tiers (structure only: the harness serialises it in the long and in the
short layout); numbers are printed at precision `p`. -/
def c11TgDoc : Handler := fun c => do
  let p ← getNat c "precision"
  let tiers ← getList (fun j => do
    let name ← getStr j "name"
    let point ← getBool j "point"
    let tmin ← getRat j "tmin"
    let tmax ← getRat j "tmax"
    let ents ← getList jsonToTimed j "entries"
    let body := if point then TgBody.points (ents.map (fun x => (fmt p x.2.1, x.1)))
      else TgBody.intervals (ents.map (fun x => (fmt p x.2.1, fmt p x.2.2, x.1)))
    pure (⟨name, fmt p tmin, fmt p tmax, body⟩ : TgTier)) c "tiers"
  let tier : TierId ← match ← field c "tier_id" with
    | .str s => pure (TierId.name s)
    | j => TierId.idx <$> jsonToInt j
  let fill ← match fieldOpt c "fill" with
    | none => pure none
    | some j => some <$> jsonToStr j
  let nofill := readTextGridDoc .byStart tiers tier none
  -- the selection rule, declaratively (C11_textgrid_tier_select)
  let n : Int := tiers.length
  let expected : Option TgTier := match tier with
    | .name s => tiers.find? (fun t => t.name == s)
    | .idx i => if 0 ≤ i then tiers[i.toNat]? else if 0 ≤ i + n then tiers[(i + n).toNat]? else none
  let sel := match tierSelect tiers tier with | .ok t => some t | .error _ => none
  if sel != expected then throw "internal: tierSelect != declarative selection"
  pure (objJ [
    ("read", readResJ (readTextGridDoc .byStart tiers tier fill)),
    ("read_nofill", readResJ nofill),
    ("selected", match sel with | some t => sJ t.name | none => Json.null),
    ("fill_spec", match nofill, fill with
      | .ok (r, a, b), some ft => listJ timedJ (specFill ft b a r)
      | _, _ => Json.null)])

/-! frames -/
def jsonToTok (j : Json) : Except String Tok :=
  match j with
  | .str s => .ok (.s s)
  | _ => Tok.i <$> jsonToInt j

def tokJ : Tok → Json
  | .s v => sJ v
  | .i v => intJ v

def jsonToTElem (j : Json) : Except String TElem :=
  match j with
  | .arr a => match a.toList with
    | [t, s, e] => do pure (.timed (← jsonToTok t) (← jsonToRat s) (← jsonToRat e))
    | _ => .error "timed element must be [tok, s, e]"
  | _ => TElem.plain <$> jsonToTok j

def tElemJ : TElem → Json
  | .plain t => tokJ t
  | .timed t s e => Json.arr #[tokJ t, ratToJson s, ratToJson e]

def c11Frames : Handler := fun c => do
  let t ← getList jsonToTElem c "t"
  let t2i ← match fieldOpt c "token2id" with
    | none => pure none
    | some j => some <$> jsonToList (fun kv => do
        let a ← kv.getArr?
        match a.toList with
        | [k, v] => do pure (← jsonToTok k, ← jsonToInt v)
        | _ => throw "pair expected") j
  let i2t ← match fieldOpt c "id2token" with
    | none => pure none
    | some j => some <$> jsonToList (fun kv => do
        let a ← kv.getArr?
        match a.toList with
        | [k, v] => do pure (← jsonToInt k, ← jsonToTok v)
        | _ => throw "pair expected") j
  let f ← getOptRat c "f"      -- `0` is "no frame shift": decided by the model (`truthy`), not here
  let unk ← match fieldOpt c "unk" with
    | none => pure none
    | some j => some <$> jsonToTok j
  match transcriptToTokenPy t2i f unk t with
  | .error _ => pure (objJ [("rows", objJ [("error", sJ "badId")]), ("back", Json.null)])
  | .ok rows =>
    let back := tokenToTranscriptPy i2t f rows
    let shift : Rat := match truthy f with | some q => q / 1000 | none => 1
    -- oracle: same tokens, same shape, recovered times strictly within one frame shift
    let within := back.length == t.length && (List.zip back t).all (fun (x, y) =>
      match x, y with
      | .plain a, .plain b => a == b
      | .timed a s e, .timed b s' e' => a == b && withinShift shift s s' && withinShift shift e e'
      | _, _ => false)
    pure (objJ [
      ("rows", listJ (fun (r : Int × Int × Int) => Json.arr #[intJ r.1, intJ r.2.1, intJ r.2.2]) rows),
      ("back", listJ tElemJ back),
      -- `skip_frame_times=True`: ids only, which convert back to the bare tokens
      ("back_plain", listJ tElemJ (tokenToTranscriptPy i2t f (rows.map (fun r => (r.1, -1, -1))))),
      -- C11_frames_unk: the documented id of every token (null: a string would be the id)
      ("spec", objJ [("within", boolJ within), ("shift", ratToJson shift),
        ("ids", listJ (fun (x : TElem) =>
          match specId t2i unk (match x with | .plain tk => tk | .timed tk _ _ => tk) with
          | .i v => intJ v
          | .s _ => Json.null) t)])])

def c11Dispatch : Handler := fun _ => do
  let row := fun (d : Dispatch) => (d.fn, objJ [("options", listJ sJ d.options), ("forwarded", listJ sJ d.forwarded)])
  pure (objJ [("table", objJ (dispatchTable.map row)), ("pinned_defects", objJ (pinnedDefects.map row))])

def main : IO Unit := Proto.run [
  ("c11.trn", c11Trn), ("c11.trn_line", c11TrnLine), ("c11.ctm", c11Ctm),
  ("c11.textgrid", c11TextGrid), ("c11.frames", c11Frames), ("c11.dispatch", c11Dispatch),
  ("c11.ctm_text", c11CtmText), ("c11.tg_doc", c11TgDoc)]
