import Driver.Proto
import PdtVerif.Model.Batching
import PdtVerif.Spec.Batching
/-! Driver for C14: bucket sampler, bucket parameters, loader epochs, collation, windows.
Every reply carries the algorithmic model's output and, where computable, the spec's value. -/
open Lean Proto PdtVerif.Batching

def errStr : Err → String
  | .key => "KeyError" | .size => "RuntimeError" | .index => "IndexError"
  | .zerodiv => "ZeroDivisionError"

def errJ (e : Option Err) : Json := optJ (fun e => strJ (errStr e)) e

def pairList (j : Json) : Except String (List (Nat × Nat)) := do
  let l ← jsonToList (jsonToList jsonToNat) j
  l.mapM (fun p => match p with
    | [a, b] => pure (a, b)
    | _ => throw "expected [key, value]")

def batchesJ (b : List (List Nat)) : Json := listJ (listJ natJ) b
def rows2J (r : List (List Int)) : Json := listJ (listJ intJ) r
def rows3J (r : List (List (List Int))) : Json := listJ rows2J r
def exceptNatJ (r : Except Err Nat) : Json :=
  match r with
  | .ok n => natJ n
  | .error e => objJ [("err", strJ (errStr e))]

def dedupNat (l : List Nat) : List Nat :=
  l.foldl (fun acc x => if acc.contains x then acc else acc ++ [x]) []

/-- Per-bucket spec: `[h, n, fullChunks n (proj h order), remainder n (proj h order)]`. -/
def specBuckets (i2b : Nat → Option Nat) (b2s : Nat → Option Nat) (order : List Nat) : Json :=
  let hs := dedupNat (order.filterMap i2b)
  listJ (fun h =>
    match b2s h with
    | none => Json.null
    | some n =>
      let p := Spec.proj i2b h order
      objJ [("bucket", natJ h), ("size", natJ n), ("full", batchesJ (Spec.fullChunks n p)),
            ("rest", listJ natJ (Spec.remainder n p))]) hs

/-- case: {order, i2b: [[idx, bucket]..], b2s: [[bucket, size]..], drop}. -/
def c14Bucket : Handler := fun c => do
  let order ← getNatList c "order"
  let i2bL ← field c "i2b" >>= pairList
  let b2sL ← field c "b2s" >>= pairList
  let drop ← getBool c "drop"
  let i2b := fun i => dget i2bL i
  let b2s := fun h => dget b2sL h
  let (bs, e) := iter i2b b2s drop order
  pure (objJ [("batches", batchesJ bs), ("err", errJ e),
    ("len", exceptNatJ (samplerLen i2b b2s drop order)),
    ("spec", specBuckets i2b b2s order)])

def paramsJ (r : Except Err BucketParams) : Json :=
  match r with
  | .error e => objJ [("err", strJ (errStr e))]
  | .ok p => objJ [("bounds", listJ natJ p.bounds), ("idx2bucket", listJ natJ p.idx2bucket),
      ("sizes", listJ natJ p.sizes)]

/-- case: {lens, nb, B, dynamic}. -/
def c14Params : Handler := fun c => do
  let lens ← getNatList c "lens"
  let nb ← getNat c "nb"
  let B ← getNat c "B"
  let dyn ← getBool c "dynamic"
  pure (paramsJ (bucketParams lens nb B dyn))

def modeOf (s : String) : Except String PdtVerif.EpochSampler.Mode :=
  match s with
  | "raise" => pure .raise | "drop" => pure .drop | "uneven" => pure .uneven | "ignore" => pure .ignore
  | _ => throw s!"unknown mode {s}"

/-- "serve" | {"set": e} | "open" | {"next": k} | "len" | {"peek": e}. -/
def opOf (j : Json) : Except String IOp := do
  match j with
  | .str "serve" => pure .serve
  | .str "open" => pure .newIter
  | .str "len" => pure .len
  | _ =>
    match fieldOpt j "set", fieldOpt j "next", fieldOpt j "peek" with
    | some e, _, _ => do pure (.setEpoch (← jsonToNat e))
    | _, some k, _ => do pure (.next (← jsonToNat k))
    | _, _, some e => do pure (.peek (← jsonToNat e))
    | _, _, _ => throw "unknown operation"

/-- The states a script passes through (a fold of `Session.step` next to `Session.exec`, which
reports what every operation showed): for every operation the state before and after it. -/
def statesAlong (perm : Nat → List Nat) : List IOp → Session → List (Session × Session)
  | [], _ => []
  | op :: ops, s =>
    let s' := (Session.step perm op s).2
    (s, s') :: statesAlong perm ops s'

/-- case: {lens, nb, B, dynamic, drop, sort, cw, mode, dist: null | [rank, world], init_epoch,
perms: [[epoch, [..ordering..]]..] (the whole-data-set ordering of every epoch that can be reached),
ops: ["serve" | {"set": e} | "open" | {"next": k} | "len" | {"peek": e}]..}. The sampler is C13's
model (`EpochSampler.init/iter`), the loader object is `Loader`, the script runs through
`Session.exec`. Reply: {"err": "ValueError"} (the sampler refuses the world size), {"err": ..}
(bucket parameters fail) or {"serves": [{epoch, order, batches, rows, err, len, len_after}..] (one
per "serve"), "events": [{op, epoch (before), epoch_after, order (this rank's samples of the epoch
before), ..}] (one per operation: "next" carries batch / row / stop / err, "len" carries len, "peek"
carries samples), "final_epoch", "params"}; `rows` / `row` = a batch after the collate function's
optional stable sort by length. -/
def c14Loader : Handler := fun c => do
  let lens ← getNatList c "lens"
  let nb ← getNat c "nb"
  let B ← getNat c "B"
  let dyn ← getBool c "dynamic"
  let drop ← getBool c "drop"
  let sort ← getBool c "sort"
  let cw ← getBool c "cw"
  let mode ← getStr c "mode" >>= modeOf
  let e0 ← getNat c "init_epoch"
  let dist ← match fieldOpt c "dist" with
    | none => pure none
    | some v => do
      match ← jsonToList jsonToNat v with
      | [r, w] => pure (some (r, w))
      | _ => throw "dist: expected [rank, world]"
  let table ← getList (fun j => do
    match j with
    | .arr #[e, p] => do pure ((← jsonToNat e), (← jsonToList jsonToNat p))
    | _ => throw "perms: expected [epoch, ordering]") c "perms"
  let ops ← getList opOf c "ops"
  let perm : Nat → List Nat := fun e => (dget table e).getD []
  let cfg : LoaderCfg := ⟨lens, nb, B, dyn, drop⟩
  let params := if nb > 1 then paramsJ (bucketParams lens nb B dyn) else Json.null
  match Loader.new cfg (samplerMode cw drop mode) dist e0 with
  | none => pure (objJ [("err", strJ "ValueError")])
  | some l =>
    match loaderBatches lens nb B dyn drop [] with
    | .error e => pure (objJ [("err", strJ (errStr e))])
    | .ok _ =>
      let (trace, sfin) := Session.exec perm ops (Session.new l)
      let states := statesAlong perm ops (Session.new l)
      let sortRow := fun (b : List Nat) => if sort then sortDesc (fun i => lens.getD i 0) b else b
      let evs := (trace.zip states).map (fun ((op, out), (s, s')) =>
        let e := s.loader.epoch
        let order := PdtVerif.EpochSampler.samples l.sampler.cfg (perm e)
        let base := [("epoch", natJ e), ("epoch_after", natJ s'.loader.epoch), ("order", listJ natJ order)]
        match op, out with
        | .serve, .pass (.error er) => ("serve", objJ (base ++ [("op", strJ "serve"), ("err", strJ (errStr er))]))
        | .serve, .pass (.ok (bs, er)) =>
          ("serve", objJ (base ++ [("op", strJ "serve"), ("batches", batchesJ bs),
            ("rows", batchesJ (bs.map sortRow)), ("err", errJ er),
            ("len", exceptNatJ (s.loader.len perm)), ("len_after", exceptNatJ (s'.loader.len perm))]))
        | .next k, .batch (.ok (some b)) =>
          ("next", objJ (base ++ [("op", strJ "next"), ("k", natJ k), ("batch", listJ natJ b),
            ("row", listJ natJ (sortRow b))]))
        | .next k, .batch (.ok none) =>
          ("next", objJ (base ++ [("op", strJ "next"), ("k", natJ k), ("stop", boolJ true)]))
        | .next k, .batch (.error er) =>
          ("next", objJ (base ++ [("op", strJ "next"), ("k", natJ k), ("err", strJ (errStr er))]))
        | .next k, .noIter =>
          ("next", objJ (base ++ [("op", strJ "next"), ("k", natJ k), ("err", strJ "no such iterator")]))
        | .len, .len n => ("len", objJ (base ++ [("op", strJ "len"), ("len", exceptNatJ n)]))
        | .peek e', .samples xs =>
          ("peek", objJ (base ++ [("op", strJ "peek"), ("of", natJ e'), ("samples", listJ natJ xs)]))
        | .newIter, _ => ("open", objJ (base ++ [("op", strJ "open")]))
        | .setEpoch e', _ => ("set", objJ (base ++ [("op", strJ "set"), ("to", natJ e')]))
        | _, _ => ("?", objJ (base ++ [("op", strJ "?")])))
      let serves := (evs.filter (fun p => p.1 == "serve")).map Prod.snd
      pure (objJ [("serves", Json.arr serves.toArray), ("events", Json.arr (evs.map Prod.snd).toArray),
        ("final_epoch", natJ sfin.loader.epoch), ("params", params)])

def getRows (j : Json) : Except String (List (List Int)) := jsonToList (jsonToList jsonToInt) j

/-- case: {items: [{ref: [[..]..], id}], sort, pad, width}; 1-D token sequences travel as rows of
width 1. -/
def c14CollateLang : Handler := fun c => do
  let sort ← getBool c "sort"
  let pad ← getInt c "pad"
  let w ← getNat c "width"
  let items ← getList (fun j => do
    let r ← field j "ref" >>= getRows
    let i ← getStr j "id"
    pure (r, i)) c "items"
  let padRow := List.replicate w pad
  let (refs, sizes, ids) := langCollate padRow sort items
  pure (objJ [("refs", rows3J refs), ("refs_tf", rows3J (langCollateTF padRow sort items).1),
    ("sizes", listJ natJ sizes), ("ids", listJ strJ ids),
    ("spec", objJ [("cut", rows3J (Spec.cutBack refs sizes)),
                   ("pad_ok", boolJ (Spec.padCellsOk padRow refs sizes))])])

def optRows3J (o : Option (List (List (List Int)))) : Json := optJ rows3J o

/-- case: {items: [{feat: [[..]..], ali: null | [[a]..], ref: null | [[..]..], id}], sort, pad, F, W}. -/
def c14CollateSpect : Handler := fun c => do
  let sort ← getBool c "sort"
  let pad ← getInt c "pad"
  let F ← getNat c "F"
  let W ← getNat c "W"
  let items ← getList (fun j => do
    let f ← field j "feat" >>= getRows
    let a ← match fieldOpt j "ali" with
      | none => pure none
      | some v => some <$> getRows v
    let r ← match fieldOpt j "ref" with
      | none => pure none
      | some v => some <$> getRows v
    let i ← getStr j "id"
    pure ({ feat := f, ali := a, ref := r, uttid := i : SpectItem (List Int) (List Int) (List Int) String })) c "items"
  let padF := List.replicate F (0 : Int)
  let padA := [pad]
  let padR := List.replicate W pad
  let b := spectCollate padF padA padR sort items
  let tf := spectCollateTF padF padA padR sort items
  pure (objJ [("feats", rows3J b.feats), ("alis", optRows3J b.alis), ("refs", optRows3J b.refs),
    ("feat_sizes", listJ natJ b.featSizes), ("ref_sizes", optJ (listJ natJ) b.refSizes),
    ("ids", listJ strJ b.uttids),
    ("feats_tf", rows3J tf.feats), ("alis_tf", optRows3J tf.alis), ("refs_tf", optRows3J tf.refs),
    ("spec", objJ [("cut_feats", rows3J (Spec.cutBack b.feats b.featSizes)),
                   ("pad_ok", boolJ (Spec.padCellsOk padF b.feats b.featSizes))])])

/-- case: {items: [{win: [[..]..] (one flattened window per row), ali: null | [..], id}]}. -/
def c14CollateCw : Handler := fun c => do
  let items ← getList (fun j => do
    let w ← field j "win" >>= getRows
    let a ← match fieldOpt j "ali" with
      | none => pure none
      | some v => some <$> jsonToList jsonToInt v
    let i ← getStr j "id"
    pure (w, a, i)) c "items"
  let (ws, alis, sizes, ids) := cwCollate items
  pure (objJ [("windows", rows2J ws), ("alis", optJ (listJ intJ) alis), ("sizes", listJ natJ sizes),
    ("ids", listJ strJ ids),
    ("spec", objJ [("split", listJ rows2J (Spec.splitBySizes sizes ws))])])

/-- case: {feat: [[..]..], frame, left, right, reverse}. -/
def c14Window : Handler := fun c => do
  let feat ← field c "feat" >>= getRows
  let frame ← getNat c "frame"
  let left ← getNat c "left"
  let right ← getNat c "right"
  let rev ← getBool c "reverse"
  pure (objJ [("model", rows2J (extractWindow [] feat frame left right rev)),
    ("spec", rows2J (Spec.window [] feat frame left right rev))])

def main : IO Unit := Proto.run [("c14.bucket", c14Bucket), ("c14.params", c14Params),
  ("c14.loader", c14Loader), ("c14.collate_lang", c14CollateLang),
  ("c14.collate_spect", c14CollateSpect), ("c14.collate_cw", c14CollateCw),
  ("c14.window", c14Window)]
