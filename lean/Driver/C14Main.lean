import Driver.Proto
import PdtVerif.Model.Batching
import PdtVerif.Spec.Batching
/-! Driver for C14: bucket sampler, bucket parameters, loader epochs, collation, windows.
Every reply carries the algorithmic model's output and, where computable, the spec's value. -/
open Lean Proto PdtVerif.Batching

def errStr : Err → String
  | .key => "KeyError" | .size => "RuntimeError" | .index => "IndexError"
  | .zerodiv => "ZeroDivisionError"

def errJ (e : Option Err) : Json := optJ (fun e => strJ (errStr e)) e

def pairList (j : Json) : Except String (List (Nat × Nat)) := do
  let l ← jsonToList (jsonToList jsonToNat) j
  l.mapM (fun p => match p with
    | [a, b] => pure (a, b)
    | _ => throw "expected [key, value]")

def batchesJ (b : List (List Nat)) : Json := listJ (listJ natJ) b
def rows2J (r : List (List Int)) : Json := listJ (listJ intJ) r
def rows3J (r : List (List (List Int))) : Json := listJ rows2J r
def exceptNatJ (r : Except Err Nat) : Json :=
  match r with
  | .ok n => natJ n
  | .error e => objJ [("err", strJ (errStr e))]

def dedupNat (l : List Nat) : List Nat :=
  l.foldl (fun acc x => if acc.contains x then acc else acc ++ [x]) []

/-- Per-bucket spec: `[h, n, fullChunks n (proj h order), remainder n (proj h order)]`. -/
def specBuckets (i2b : Nat → Option Nat) (b2s : Nat → Option Nat) (order : List Nat) : Json :=
  let hs := dedupNat (order.filterMap i2b)
  listJ (fun h =>
    match b2s h with
    | none => Json.null
    | some n =>
      let p := Spec.proj i2b h order
      objJ [("bucket", natJ h), ("size", natJ n), ("full", batchesJ (Spec.fullChunks n p)),
            ("rest", listJ natJ (Spec.remainder n p))]) hs

/-- case: {order, i2b: [[idx, bucket]..], b2s: [[bucket, size]..], drop}. -/
def c14Bucket : Handler := fun c => do
  let order ← getNatList c "order"
  let i2bL ← field c "i2b" >>= pairList
  let b2sL ← field c "b2s" >>= pairList
  let drop ← getBool c "drop"
  let i2b := fun i => dget i2bL i
  let b2s := fun h => dget b2sL h
  let (bs, e) := iter i2b b2s drop order
  pure (objJ [("batches", batchesJ bs), ("err", errJ e),
    ("len", exceptNatJ (samplerLen i2b b2s drop order)),
    ("spec", specBuckets i2b b2s order)])

def paramsJ (r : Except Err BucketParams) : Json :=
  match r with
  | .error e => objJ [("err", strJ (errStr e))]
  | .ok p => objJ [("bounds", listJ natJ p.bounds), ("idx2bucket", listJ natJ p.idx2bucket),
      ("sizes", listJ natJ p.sizes)]

/-- case: {lens, nb, B, dynamic}. -/
def c14Params : Handler := fun c => do
  let lens ← getNatList c "lens"
  let nb ← getNat c "nb"
  let B ← getNat c "B"
  let dyn ← getBool c "dynamic"
  pure (paramsJ (bucketParams lens nb B dyn))

def modeOf (s : String) : Except String PdtVerif.EpochSampler.Mode :=
  match s with
  | "raise" => pure .raise | "drop" => pure .drop | "uneven" => pure .uneven | "ignore" => pure .ignore
  | _ => throw s!"unknown mode {s}"

/-- "serve" | {"set": e} | "open" | {"next": k} | "len" | {"peek": e}. -/
def opOf (j : Json) : Except String IOp := do
  match j with
  | .str "serve" => pure .serve
  | .str "open" => pure .newIter
  | .str "len" => pure .len
  | _ =>
    match fieldOpt j "set", fieldOpt j "next", fieldOpt j "peek" with
    | some e, _, _ => do pure (.setEpoch (← jsonToNat e))
    | _, some k, _ => do pure (.next (← jsonToNat k))
    | _, _, some e => do pure (.peek (← jsonToNat e))
    | _, _, _ => throw "unknown operation"

def attrOf (s : String) : Except String Attr :=
  match s with
  | "batch_first" => pure .batchFirst | "sort_batch" => pure .sortBatch
  | "suppress_alis" => pure .suppressAlis | "suppress_uttids" => pure .suppressUttids
  | "tokens_only" => pure .tokensOnly
  | _ => throw s!"unknown attribute {s}"

/-- an `opOf` operation | {"attr": [name, value]} (an assignment to a public attribute of the loader /
its data set) | {"drop": value} (`loader.batch_sampler.drop_incomplete = value`). -/
def vopOf (j : Json) : Except String VOp := do
  match fieldOpt j "attr", fieldOpt j "drop" with
  | some (.arr #[.str n, v]), _ => do pure (.assign (← attrOf n) (← jsonToBool v))
  | some _, _ => throw "attr: expected [name, value]"
  | _, some d => do pure (.setDrop (← jsonToBool d))
  | _, _ => do pure (.io (← opOf j))

def presentJ (p : Present) : Json :=
  objJ [("batch_first", boolJ p.batchFirst), ("sort_batch", boolJ p.sortBatch),
    ("suppress_alis", boolJ p.suppressAlis), ("suppress_uttids", boolJ p.suppressUttids),
    ("tokens_only", boolJ p.tokensOnly)]

/-- The states a script passes through (a fold of `View.step` next to `View.exec`, which reports what
every operation showed): for every operation the state before and after it. -/
def statesAlong (perm : Nat → List Nat) : List VOp → View → List (View × View)
  | [], _ => []
  | op :: ops, v =>
    let v' := (View.step perm op v).2
    (v, v') :: statesAlong perm ops v'

/-- a `vopOf` operation | {"seed": s} (`loader.batch_sampler.sampler.base_seed = s`). -/
def sopOf (j : Json) : Except String SOp := do
  match fieldOpt j "seed" with
  | some s => do pure (.setSeed (← jsonToNat s))
  | none => do pure (.v (← vopOf j))

def statesAlongS (src : Nat → Nat → List Nat) : List SOp → Seeded → List (Seeded × Seeded)
  | [], _ => []
  | op :: ops, z =>
    let z' := (Seeded.step src op z).2
    (z, z') :: statesAlongS src ops z'

/-- case: {lens, nb, B, dynamic, drop, cls: "spect" | "lang" | "cw", present: {batch_first, sort_batch,
suppress_alis, suppress_uttids, tokens_only} (the flags the constructor stores), mode, dist: null |
[rank, world], init_epoch, perms: [[epoch, [..ordering..]]..] (the whole-data-set ordering of every
epoch that can be reached), ops: ["serve" | {"set": e} | "open" | {"next": k} | "len" | {"peek": e} |
{"attr": [name, value]} | {"drop": value}]..}. The sampler is C13's model (`EpochSampler.init/iter`),
the loader object is `Loader`, the script runs through `View.exec` (= `Session.exec` + the flags
stored on the loader and its data set). Reply: {"err": "ValueError"} (the sampler refuses the world
size), {"err": ..} (bucket parameters fail) or {"serves": [{epoch, order, batches, rows, err, len,
len_after, present, drop}..] (one per "serve"), "events": [{op, epoch (before), epoch_after, order
(this rank's samples of the epoch before), present (the flags a collate call of this operation reads
/ the flags after an assignment), drop (the batch sampler's flag after the operation), ..}] (one per
operation: "next" carries batch / row / stop / err, "len" carries len, "peek" carries samples; with
{"seed": s} operations (`sampler.base_seed = s`; case fields seed = the constructor's base_seed, reseed =
[[s, perms of s]..]) the script runs through `Seeded.exec` and every event carries the seed in force after it),
"final_epoch", "params"}; `rows` / `row` = the utterance ids the collate function of the class
(`spectDeliver` / `langDeliver` / `cwCollate` on utterances of the given lengths) attaches to the
rows of the batch, under the flags in force AT THAT CALL. -/
def c14Loader : Handler := fun c => do
  let lens ← getNatList c "lens"
  let nb ← getNat c "nb"
  let B ← getNat c "B"
  let dyn ← getBool c "dynamic"
  let drop ← getBool c "drop"
  let cls ← getStr c "cls"
  let pj ← field c "present"
  let flags : Present := ⟨← getBool pj "batch_first", ← getBool pj "sort_batch", ← getBool pj "suppress_alis",
    ← getBool pj "suppress_uttids", ← getBool pj "tokens_only"⟩
  let cw := cls == "cw"
  let mode ← getStr c "mode" >>= modeOf
  let e0 ← getNat c "init_epoch"
  let dist ← match fieldOpt c "dist" with
    | none => pure none
    | some v => do
      match ← jsonToList jsonToNat v with
      | [r, w] => pure (some (r, w))
      | _ => throw "dist: expected [rank, world]"
  let table ← getList (fun j => do
    match j with
    | .arr #[e, p] => do pure ((← jsonToNat e), (← jsonToList jsonToNat p))
    | _ => throw "perms: expected [epoch, ordering]") c "perms"
  let seed0 ← match fieldOpt c "seed" with
    | some v => jsonToNat v
    | none => pure 0
  let reseeds ← match fieldOpt c "reseed" with
    | none => pure []
    | some v => jsonToList (fun j => do
      match j with
      | .arr #[s, t] => do
        let tb ← jsonToList (fun q => do
          match q with
          | .arr #[e, p] => do pure ((← jsonToNat e), (← jsonToList jsonToNat p))
          | _ => throw "reseed: expected [epoch, ordering]") t
        pure ((← jsonToNat s), tb)
      | _ => throw "reseed: expected [seed, perms]") v
  let ops ← getList sopOf c "ops"
  -- the ordering source: (base_seed, epoch) ↦ ordering (`perms` belongs to the constructor's seed)
  let src : Nat → Nat → List Nat := fun s e =>
    if s = seed0 then (dget table e).getD [] else (((dget reseeds s).getD []).lookup e).getD []
  let cfg : LoaderCfg := ⟨lens, nb, B, dyn, drop⟩
  let params := if nb > 1 then paramsJ (bucketParams lens nb B dyn) else Json.null
  match Loader.new cfg (samplerMode cw drop mode) dist e0 with
  | none => pure (objJ [("err", strJ "ValueError")])
  | some l =>
    match loaderBatches lens nb B dyn drop [] with
    | .error e => pure (objJ [("err", strJ (errStr e))])
    | .ok _ =>
      let z0 : Seeded := ⟨View.new l flags, seed0⟩
      let (trace, zfin) := Seeded.exec src ops z0
      let vfin := zfin.view
      let states := statesAlongS src ops z0
      -- the collate function of the class on utterances of the given lengths, ids = data-set indices
      let spectData : Nat → SpectItem Unit Unit Unit Nat :=
        fun i => ⟨List.replicate (lens.getD i 0) (), none, none, i⟩
      let langData : Nat → List Unit × Nat := fun i => (List.replicate (lens.getD i 0) (), i)
      let rowsOf := fun (p : Present) (b : List Nat) =>
        if cw then (cwCollate (b.map (fun i => (List.replicate (lens.getD i 0) (), (none : Option (List Unit)), i)))).2.2.2
        else if cls == "lang" then (langDeliver () id langData p b).1.2.2
        else (spectDeliver () () () id spectData p b).batch.uttids
      let evs := (trace.zip states).map (fun ((sop, shown), (z, z')) =>
        let s := z.view.session
        let s' := z'.view.session
        let e := s.loader.epoch
        let perm := src z.seed
        let order := PdtVerif.EpochSampler.samples l.sampler.cfg (perm e)
        let p := match shown with | some (_, q) => q | none => z.view.present
        let base := [("epoch", natJ e), ("epoch_after", natJ s'.loader.epoch), ("order", listJ natJ order),
          ("present", presentJ p), ("drop", boolJ s'.loader.cfg.drop), ("seed", natJ z'.seed)]
        match sop, shown with
        | .setSeed _, _ => ("seed", objJ (base ++ [("op", strJ "seed")]))
        | .v _, none => ("?", objJ (base ++ [("op", strJ "?")]))
        | .v op, some (out, _) =>
        match op, out with
        | .io .serve, .pass (.error er) => ("serve", objJ (base ++ [("op", strJ "serve"), ("err", strJ (errStr er))]))
        | .io .serve, .pass (.ok (bs, er)) =>
          ("serve", objJ (base ++ [("op", strJ "serve"), ("batches", batchesJ bs),
            ("rows", batchesJ (bs.map (rowsOf p))), ("err", errJ er),
            ("len", exceptNatJ (s.loader.len perm)), ("len_after", exceptNatJ (s'.loader.len perm))]))
        | .io (.next k), .batch (.ok (some b)) =>
          ("next", objJ (base ++ [("op", strJ "next"), ("k", natJ k), ("batch", listJ natJ b),
            ("row", listJ natJ (rowsOf p b))]))
        | .io (.next k), .batch (.ok none) =>
          ("next", objJ (base ++ [("op", strJ "next"), ("k", natJ k), ("stop", boolJ true)]))
        | .io (.next k), .batch (.error er) =>
          ("next", objJ (base ++ [("op", strJ "next"), ("k", natJ k), ("err", strJ (errStr er))]))
        | .io (.next k), .noIter =>
          ("next", objJ (base ++ [("op", strJ "next"), ("k", natJ k), ("err", strJ "no such iterator")]))
        | .io .len, .len n => ("len", objJ (base ++ [("op", strJ "len"), ("len", exceptNatJ n)]))
        | .io (.peek e'), .samples xs =>
          ("peek", objJ (base ++ [("op", strJ "peek"), ("of", natJ e'), ("samples", listJ natJ xs)]))
        | .io .newIter, _ => ("open", objJ (base ++ [("op", strJ "open")]))
        | .io (.setEpoch e'), _ => ("set", objJ (base ++ [("op", strJ "set"), ("to", natJ e')]))
        | .assign _ _, _ => ("attr", objJ (base ++ [("op", strJ "attr")]))
        | .setDrop _, _ => ("drop", objJ (base ++ [("op", strJ "drop")]))
        | _, _ => ("?", objJ (base ++ [("op", strJ "?")])))
      let serves := (evs.filter (fun p => p.1 == "serve")).map Prod.snd
      pure (objJ [("serves", Json.arr serves.toArray), ("events", Json.arr (evs.map Prod.snd).toArray),
        ("final_epoch", natJ vfin.session.loader.epoch), ("params", params)])

def getRows (j : Json) : Except String (List (List Int)) := jsonToList (jsonToList jsonToInt) j

/-- case: {items: [{ref: [[..]..], id}], sort, pad, width}; 1-D token sequences travel as rows of
width 1. -/
def c14CollateLang : Handler := fun c => do
  let sort ← getBool c "sort"
  let pad ← getInt c "pad"
  let w ← getNat c "width"
  let items ← getList (fun j => do
    let r ← field j "ref" >>= getRows
    let i ← getStr j "id"
    pure (r, i)) c "items"
  let padRow := List.replicate w pad
  let (refs, sizes, ids) := langCollate padRow sort items
  pure (objJ [("refs", rows3J refs), ("refs_tf", rows3J (langCollateTF padRow sort items).1),
    ("sizes", listJ natJ sizes), ("ids", listJ strJ ids),
    ("spec", objJ [("cut", rows3J (Spec.cutBack refs sizes)),
                   ("pad_ok", boolJ (Spec.padCellsOk padRow refs sizes))])])

def optRows3J (o : Option (List (List (List Int)))) : Json := optJ rows3J o

/-- case: {items: [{feat: [[..]..], ali: null | [[a]..], ref: null | [[..]..], id}], sort, pad, F, W}. -/
def c14CollateSpect : Handler := fun c => do
  let sort ← getBool c "sort"
  let pad ← getInt c "pad"
  let F ← getNat c "F"
  let W ← getNat c "W"
  let items ← getList (fun j => do
    let f ← field j "feat" >>= getRows
    let a ← match fieldOpt j "ali" with
      | none => pure none
      | some v => some <$> getRows v
    let r ← match fieldOpt j "ref" with
      | none => pure none
      | some v => some <$> getRows v
    let i ← getStr j "id"
    pure ({ feat := f, ali := a, ref := r, uttid := i : SpectItem (List Int) (List Int) (List Int) String })) c "items"
  let padF := List.replicate F (0 : Int)
  let padA := [pad]
  let padR := List.replicate W pad
  let b := spectCollate padF padA padR sort items
  let tf := spectCollateTF padF padA padR sort items
  pure (objJ [("feats", rows3J b.feats), ("alis", optRows3J b.alis), ("refs", optRows3J b.refs),
    ("feat_sizes", listJ natJ b.featSizes), ("ref_sizes", optJ (listJ natJ) b.refSizes),
    ("ids", listJ strJ b.uttids),
    ("feats_tf", rows3J tf.feats), ("alis_tf", optRows3J tf.alis), ("refs_tf", optRows3J tf.refs),
    ("spec", objJ [("cut_feats", rows3J (Spec.cutBack b.feats b.featSizes)),
                   ("pad_ok", boolJ (Spec.padCellsOk padF b.feats b.featSizes))])])

/-- case: {items: [{win: [[..]..] (one flattened window per row), ali: null | [..], id}]}. -/
def c14CollateCw : Handler := fun c => do
  let items ← getList (fun j => do
    let w ← field j "win" >>= getRows
    let a ← match fieldOpt j "ali" with
      | none => pure none
      | some v => some <$> jsonToList jsonToInt v
    let i ← getStr j "id"
    pure (w, a, i)) c "items"
  let (ws, alis, sizes, ids) := cwCollate items
  pure (objJ [("windows", rows2J ws), ("alis", optJ (listJ intJ) alis), ("sizes", listJ natJ sizes),
    ("ids", listJ strJ ids),
    ("spec", objJ [("split", listJ rows2J (Spec.splitBySizes sizes ws))])])

/-- case: {feat: [[..]..], frame, left, right, reverse}. -/
def c14Window : Handler := fun c => do
  let feat ← field c "feat" >>= getRows
  let frame ← getNat c "frame"
  let left ← getNat c "left"
  let right ← getNat c "right"
  let rev ← getBool c "reverse"
  pure (objJ [("model", rows2J (extractWindow [] feat frame left right rev)),
    ("spec", rows2J (Spec.window [] feat frame left right rev))])

def main : IO Unit := Proto.run [("c14.bucket", c14Bucket), ("c14.params", c14Params),
  ("c14.loader", c14Loader), ("c14.collate_lang", c14CollateLang),
  ("c14.collate_spect", c14CollateSpect), ("c14.collate_cw", c14CollateCw),
  ("c14.window", c14Window)]
