import Driver.Proto
import PdtVerif.Model.StringMatch
import PdtVerif.Model.StringMatchBatch
import PdtVerif.Model.StringMatchOracle
import PdtVerif.Model.StringMatchModule
/-! Driver for C01: runs the per-column model of `_string_matching` on every column of a batch
and evaluates the declarative oracle (`lev` on the cut sequences) next to it.

The TENSOR-level model (`Model/StringMatchBatch.lean`: whole tensors in the layout the library was
given, `del_mat` with explicit `+inf`, `batch_first` transposition) is run on the batch as well; its
output is returned under `"tensor"` (what the harness compares the library's raw tensor with) and must
agree with the per-column model entry by entry (`C01_batch_eq` / `C01_batch_prefix_eq` say it does).

Glue only; the model is `PdtVerif.StringMatch`, the oracle `PdtVerif.Lev.lev`. For long cut
sequences (`|ref'| + |hyp'| > levLimit`) the exponential textbook recursion `lev` is replaced
by `dpDist`, which `Lemmas/LevRow.lean::dpDist_isLevDist` proves to be the same number; the
reply says which one was used. -/
open Lean Proto PdtVerif.Lev PdtVerif.StringMatch

def levLimit : Nat := 12

def oracleLev (c : Costs) (r h : List Int) : Rat :=
  if r.length + h.length ≤ levLimit then lev c r h else dpDist c r h

/-- The distances between `r` and every prefix of `h` (`|h| + 1` numbers). Long pairs: all of them off ONE
run of the DP (`prefixDists`, proved equal to `dpDist` on every prefix: `C01_oracle_prefix`). -/
def oraclePrefixes (c : Costs) (r h : List Int) : List Rat :=
  if r.length + h.length ≤ levLimit then (List.range (h.length + 1)).map (fun k => lev c r (h.take k))
  else prefixDists c r h

/-- The history of a module object as the harness played it (`case["life"]["init"]`: the attributes that were
CONSTRUCTED with another value and reassigned to the case's option cell before the observed call), run on
the module model (`Model/StringMatchModule.lean`): construct with the initial values, apply the assignments,
return the object. `cell` is the object a fresh construction with the case's option cell gives. -/
def replayLife (cell : SMModule Int) (life : Json) : Except String (SMModule Int) := do
  let init ← field life "init"
  let has := fun (k : String) => (fieldOpt init k).isSome
  -- (1) construction: the cell's values except where `init` names another one
  let m0 : SMModule Int := {
    eos := ← (if has "eos" then getOptInt init "eos" else pure cell.eos)
    includeEos := ← (if has "include_eos" then getBool init "include_eos" else pure cell.includeEos)
    norm := ← (if has "norm" then getBool init "norm" else pure cell.norm)
    batchFirst := ← (if has "batch_first" then getBool init "batch_first" else pure cell.batchFirst)
    insCost := ← (if has "ins_cost" then getRat init "ins_cost" else pure cell.insCost)
    delCost := ← (if has "del_cost" then getRat init "del_cost" else pure cell.delCost)
    subCost := ← (if has "sub_cost" then getRat init "sub_cost" else pure cell.subCost)
    padding := ← (if has "padding" then getInt init "padding" else pure cell.padding)
    excludeLast := ← (if has "exclude_last" then getBool init "exclude_last" else pure cell.excludeLast)
    warn := ← (if has "warn" then getBool init "warn" else pure cell.warn) }
  -- (2) the reassignments `module.attr = <value of the cell>`
  let assigns : List (Assign Int) :=
    (if has "warn" then [Assign.warn cell.warn] else [])
    ++ (if has "exclude_last" then [Assign.excludeLast cell.excludeLast] else [])
    ++ (if has "padding" then [Assign.padding cell.padding] else [])
    ++ (if has "sub_cost" then [Assign.subCost cell.subCost] else [])
    ++ (if has "del_cost" then [Assign.delCost cell.delCost] else [])
    ++ (if has "ins_cost" then [Assign.insCost cell.insCost] else [])
    ++ (if has "batch_first" then [Assign.batchFirst cell.batchFirst] else [])
    ++ (if has "norm" then [Assign.norm cell.norm] else [])
    ++ (if has "include_eos" then [Assign.includeEos cell.includeEos] else [])
    ++ (if has "eos" then [Assign.eos cell.eos] else [])
  let m := m0.assignAll assigns
  -- C01_module_current / C01_module_fresh: the re-tuned object is the freshly constructed one
  if m != cell then throw "module model: the object after the reassignments differs from a fresh construction"
  if m != m0.current assigns then throw "module model: assignAll differs from `current` (C01_module_current)"
  pure m

/-- case: {"cols": [{"ref": [..R ints..], "hyp": [..H ints..]} ..], "eos": int|null,
"include_eos", "norm", "exclude_last": bool, "padding": int, "ins","del","sub": "n/d",
"mode": "scalar"|"prefix", "R", "H": padded sizes, "batch_first": bool}.
Reply: {"shortcut": bool, "tensor": {"shape": [..], "vals": ["n/d"..] | [["n/d"..]..]} (tensor-level model,
  in the layout of the call), "cols": [{"model": "n/d" | ["n/d"..],
  "spec": {"ref_cut": [..], "hyp_cut": [..], "lev": "n/d", "prefix_lev": ["n/d"..] (prefix mode),
           "oracle": "lev"|"dpDist"}} ..]}.
Optional: "entry": "module", "warn": bool, "life": {"init": {attribute: construction-time value}}: the call goes
through the MODULE model (`SMModule.forwardED` / `forwardPED` of the object after its history, `replayLife`);
reply gets "module": true.
Fails (machinery error) when the model's value differs from what the theorems say it is. -/
def c01Core (whole : Bool) : Handler := fun j => do
  let withModel ← if whole then pure true else getBool j "with_model"
  let cols ← getList (fun cj => do
    let r ← getIntList cj "ref"
    let h ← getIntList cj "hyp"
    pure (r, h)) j "cols"
  let eos ← getOptInt j "eos"
  let inc ← getBool j "include_eos"
  let norm ← getBool j "norm"
  let excl ← getBool j "exclude_last"
  let padding ← getInt j "padding"
  let ins ← getRat j "ins"
  let del ← getRat j "del"
  let sub ← getRat j "sub"
  let mode ← getStr j "mode"
  let R ← getNat j "R"
  let H ← getNat j "H"
  let bf ← getBool j "batch_first"
  let c : Costs := ⟨ins, del, sub⟩
  -- module entry: the object (a record of its public attributes) after its history
  let isModule := (fieldOpt j "entry").bind (fun e => e.getStr?.toOption) == some "module"
  let warn := ((fieldOpt j "warn").bind (fun e => e.getBool?.toOption)).getD false
  let cell : SMModule Int := ⟨eos, inc, norm, bf, ins, del, sub, padding, excl, warn⟩
  let modl ← match fieldOpt j "life" with
    | some life => if isModule then replayLife cell life else pure cell
    | none => pure cell
  -- the tensors as the library receives them: (L, N), transposed to (N, L) under batch_first
  let refSeq : Tensor2 Int := Tensor2.ofCols R (cols.map (·.1)) 0
  let hypSeq : Tensor2 Int := Tensor2.ofCols H (cols.map (·.2)) 0
  let refT := if bf then refSeq.t 0 else refSeq
  let hypT := if bf then hypSeq.t 0 else hypSeq
  let tensorJ ←
    if !whole then pure Json.null
    else if mode == "scalar" then
      match (if isModule then modl.forwardED refT hypT 0 else editDistanceT c eos inc norm bf refT hypT 0) with
      | .error e => throw s!"tensor model raised {e} on an in-domain batch"
      | .ok out =>
        let perCol := cols.map (fun (rh : List Int × List Int) => editDistance c eos inc norm rh.1 rh.2)
        if out != perCol then
          throw s!"tensor model {out.map ratToString} differs from the per-column model {perCol.map ratToString}"
        pure (objJ [("shape", listJ natJ [out.length]), ("vals", listJ ratToJson out)])
    else
      match (if isModule then modl.forwardPED refT hypT 0
             else prefixEditDistancesT c eos inc norm bf excl padding refT hypT 0) with
      | .error e => throw s!"tensor model raised {e} on an in-domain batch"
      | .ok T =>
        let perCol := cols.map (fun (rh : List Int × List Int) => prefixEditDistances c eos inc norm excl padding rh.1 rh.2)
        let mine := (List.range cols.length).map (fun n => if bf then T.rows.getD n [] else colOf T.rows n 0)
        if mine != perCol then
          throw s!"tensor model differs from the per-column model (prefix) at batch_first={bf}"
        pure (objJ [("shape", listJ natJ [T.d0, T.d1]), ("vals", listJ (listJ ratToJson) T.rows)])
  let outs ← cols.mapM (fun (rh : List Int × List Int) => do
    let (r, h) := rh
    let rc := cut eos inc r
    let hc := cut eos inc h
    let d := oracleLev c rc hc
    let which := if rc.length + hc.length ≤ levLimit then "lev" else "dpDist"
    let normalise := fun (x : Rat) => if norm && rc.length > 0 then x / (rc.length : Rat) else x
    if mode == "scalar" then
      if !withModel then
        pure (objJ [("model", Json.null),
          ("spec", objJ [("ref_cut", listJ intJ rc), ("hyp_cut", listJ intJ hc), ("lev", ratToJson d),
            ("oracle", strJ which)])])
      else
      let m := editDistance c eos inc norm r h
      -- C01_pair / C01_norm: the model's value is lev (divided by |ref'| under norm, |ref'| > 0)
      if (!norm || rc.length > 0) && m != normalise d then
        throw s!"model/spec mismatch (scalar): model {ratToString m} spec {ratToString (normalise d)}"
      pure (objJ [("model", ratToJson m),
        ("spec", objJ [("ref_cut", listJ intJ rc), ("hyp_cut", listJ intJ hc), ("lev", ratToJson d),
          ("oracle", strJ which)])])
    else
      let pl := oraclePrefixes c rc hc
      if !withModel then
        pure (objJ [("model", Json.null),
          ("spec", objJ [("ref_cut", listJ intJ rc), ("hyp_cut", listJ intJ hc), ("lev", ratToJson d),
            ("prefix_lev", listJ ratToJson pl), ("oracle", strJ which)])])
      else
      let m := prefixEditDistances c eos inc norm excl padding r h
      -- C01_prefix: entry k is lev ref' (hyp'.take k) for k < |hyp'| + (0 if excl else 1), padding beyond
      let nRows := h.length + (if excl then 0 else 1)
      let expect := (List.range nRows).map (fun k =>
        if k ≥ hc.length + (if excl then 0 else 1) then (padding : Rat) else normalise (pl.getD k 0))
      if (!norm || rc.length > 0) && m != expect then
        throw s!"model/spec mismatch (prefix): model {m.map ratToString} spec {expect.map ratToString}"
      pure (objJ [("model", listJ ratToJson m),
        ("spec", objJ [("ref_cut", listJ intJ rc), ("hyp_cut", listJ intJ hc), ("lev", ratToJson d),
          ("prefix_lev", listJ ratToJson pl), ("oracle", strJ which)])]))
  pure (objJ [("shortcut", boolJ (c.ins == c.del && c.del == c.sub && decide (0 < c.sub))),
    ("tensor", tensorJ), ("module", boolJ isModule), ("cols", Json.arr outs.toArray)])

/-- case: {"ref_shape": [a, b], "hyp_shape": [c, d], "batch_first": bool, "mode"}: does the tensor-level
model raise on all-zero 2-D tensors of these shapes (`C01_batch_mismatch`: iff the batch sizes differ)?
Reply: {"raises": bool}. -/
def c01Shapes : Handler := fun j => do
  let rs ← getNatList j "ref_shape"
  let hs ← getNatList j "hyp_shape"
  let bf ← getBool j "batch_first"
  let mode ← getStr j "mode"
  let mk := fun (sh : List Nat) => (⟨sh.getD 0 0, sh.getD 1 0, List.replicate (sh.getD 0 0) (List.replicate (sh.getD 1 0) 0)⟩ : Tensor2 Int)
  if rs.length != 2 || hs.length != 2 then throw "c01.shapes: only 2-D shapes can be modelled"
  let raises :=
    if mode == "scalar" then
      match editDistanceT unitCosts none false false bf (mk rs) (mk hs) 0 with
      | .error _ => true
      | .ok _ => false
    else
      match prefixEditDistancesT unitCosts none true false bf false (-100) (mk rs) (mk hs) 0 with
      | .error _ => true
      | .ok _ => false
  pure (objJ [("raises", boolJ raises)])

/-- op `c01.batch`: a whole batch (per-column model on every column, tensor-level model on the batch, oracle). -/
def c01Batch : Handler := c01Core true

/-- op `c01.sample`: pairs SAMPLED from a large batch (same fields as `c01.batch`, `"cols"` = the sampled
columns, plus `"with_model": bool`). The tensor-level model is not run (`"tensor": null`); the per-column
model (cubic in `R`) only when `with_model`; the oracle (`dpDist` / `prefixDists` on the cut sequences, `lev`
when short) always. -/
def c01Sample : Handler := c01Core false

def main : IO Unit := Proto.run [("c01.batch", c01Batch), ("c01.sample", c01Sample), ("c01.shapes", c01Shapes)]
