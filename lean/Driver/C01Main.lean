import Driver.Proto
import PdtVerif.Model.StringMatch
/-! Driver for C01: runs the per-column model of `_string_matching` on every column of a batch
and evaluates the declarative oracle (`lev` on the cut sequences) next to it.

Glue only; the model is `PdtVerif.StringMatch`, the oracle `PdtVerif.Lev.lev`. For long cut
sequences (`|ref'| + |hyp'| > levLimit`) the exponential textbook recursion `lev` is replaced
by `dpDist`, which `Lemmas/LevRow.lean::dpDist_isLevDist` proves to be the same number; the
reply says which one was used. -/
open Lean Proto PdtVerif.Lev PdtVerif.StringMatch

def levLimit : Nat := 12

def oracleLev (c : Costs) (r h : List Int) : Rat :=
  if r.length + h.length ≤ levLimit then lev c r h else dpDist c r h

/-- case: {"cols": [{"ref": [..R ints..], "hyp": [..H ints..]} ..], "eos": int|null,
"include_eos", "norm", "exclude_last": bool, "padding": int, "ins","del","sub": "n/d",
"mode": "scalar"|"prefix"}.
Reply: {"shortcut": bool, "cols": [{"model": "n/d" | ["n/d"..],
  "spec": {"ref_cut": [..], "hyp_cut": [..], "lev": "n/d", "prefix_lev": ["n/d"..] (prefix mode),
           "oracle": "lev"|"dpDist"}} ..]}.
Fails (machinery error) when the model's value differs from what the theorems say it is. -/
def c01Batch : Handler := fun j => do
  let cols ← getList (fun cj => do
    let r ← getIntList cj "ref"
    let h ← getIntList cj "hyp"
    pure (r, h)) j "cols"
  let eos ← getOptInt j "eos"
  let inc ← getBool j "include_eos"
  let norm ← getBool j "norm"
  let excl ← getBool j "exclude_last"
  let padding ← getInt j "padding"
  let ins ← getRat j "ins"
  let del ← getRat j "del"
  let sub ← getRat j "sub"
  let mode ← getStr j "mode"
  let c : Costs := ⟨ins, del, sub⟩
  let outs ← cols.mapM (fun (rh : List Int × List Int) => do
    let (r, h) := rh
    let rc := cut eos inc r
    let hc := cut eos inc h
    let d := oracleLev c rc hc
    let which := if rc.length + hc.length ≤ levLimit then "lev" else "dpDist"
    let normalise := fun (x : Rat) => if norm && rc.length > 0 then x / (rc.length : Rat) else x
    if mode == "scalar" then
      let m := editDistance c eos inc norm r h
      -- C01_pair / C01_norm: the model's value is lev (divided by |ref'| under norm, |ref'| > 0)
      if (!norm || rc.length > 0) && m != normalise d then
        throw s!"model/spec mismatch (scalar): model {ratToString m} spec {ratToString (normalise d)}"
      pure (objJ [("model", ratToJson m),
        ("spec", objJ [("ref_cut", listJ intJ rc), ("hyp_cut", listJ intJ hc), ("lev", ratToJson d),
          ("oracle", strJ which)])])
    else
      let m := prefixEditDistances c eos inc norm excl padding r h
      let pl := (List.range (hc.length + 1)).map (fun k => oracleLev c rc (hc.take k))
      -- C01_prefix: entry k is lev ref' (hyp'.take k) for k < |hyp'| + (0 if excl else 1), padding beyond
      let nRows := h.length + (if excl then 0 else 1)
      let expect := (List.range nRows).map (fun k =>
        if k ≥ hc.length + (if excl then 0 else 1) then (padding : Rat) else normalise (pl.getD k 0))
      if (!norm || rc.length > 0) && m != expect then
        throw s!"model/spec mismatch (prefix): model {m.map ratToString} spec {expect.map ratToString}"
      pure (objJ [("model", listJ ratToJson m),
        ("spec", objJ [("ref_cut", listJ intJ rc), ("hyp_cut", listJ intJ hc), ("lev", ratToJson d),
          ("prefix_lev", listJ ratToJson pl), ("oracle", strJ which)])]))
  pure (objJ [("shortcut", boolJ (c.ins == c.del && c.del == c.sub && decide (0 < c.sub))),
    ("cols", Json.arr outs.toArray)])

def main : IO Unit := Proto.run [("c01.batch", c01Batch)]
