import Driver.Proto
import PdtVerif.Model.Attention
import PdtVerif.Spec.Attention
/-! Driver for C20.  The model is generic in the carrier; here it is run
* over `Float` with `e := Float.exp`, `th := Float.tanh` (tolerance stream: weights, outputs), and
* over `Rat` for the scores of the dot / generalised flavours (exact stream).
Floats leave the driver as exact rationals `"n/d"`. -/
open Lean Proto PdtVerif.Attention

def ratToFloat (q : Rat) : Float := Float.ofInt q.num / Float.ofNat q.den

/-- Exact value of a finite double from its IEEE-754 bits. -/
def floatToStr (x : Float) : String :=
  if x.isNaN then "nan"
  else if x.isInf then (if x > 0 then "inf" else "-inf")
  else
    let b : Nat := x.toBits.toNat
    let neg := b / 2 ^ 63 == 1
    let ex : Nat := (b / 2 ^ 52) % 2 ^ 11
    let fr : Nat := b % 2 ^ 52
    -- value = mant * 2 ^ (pw - 1075)
    let mant : Nat := if ex == 0 then fr else fr + 2 ^ 52
    let pw : Nat := if ex == 0 then 1 else ex
    let m : Int := if neg then -(mant : Int) else (mant : Int)
    if pw ≥ 1075 then toString (m * (2 : Int) ^ (pw - 1075))
    else ratToString (mkRat m (2 ^ (1075 - pw)))

def floatJ (x : Float) : Json := Json.str (floatToStr x)

def jsonToFloat (j : Json) : Except String Float := ratToFloat <$> jsonToRat j

def getVec {α} (f : Json → Except String α) (j : Json) (k : String) : Except String (List α) :=
  getList f j k
def getMat {α} (f : Json → Except String α) (j : Json) (k : String) :
    Except String (List (List α)) := getList (jsonToList f) j k
def getOptVec {α} (f : Json → Except String α) (j : Json) (k : String) :
    Except String (Option (List α)) :=
  match fieldOpt j k with
  | none => pure none
  | some v => some <$> jsonToList f v

def getOptWith {α} (f : Json → Except String α) (j : Json) (k : String) : Except String (Option α) :=
  match fieldOpt j k with
  | none => pure none
  | some v => some <$> f v

/-- The optional constructor arguments of a single-head module as the call spells them
(`null` / absent = omitted): {dim, scale_factor, bias, hidden_size}. -/
def parseSingleArgs {α} (f : Json → Except String α) (j : Json) : Except String (SingleArgs α) := do
  pure { dim := ← getOptInt j "dim", scaleFactor := ← getOptWith f j "scale_factor",
         bias := ← getOptWith jsonToBool j "bias", hiddenSize := ← getOptNat j "hidden_size" }

/-- The module the constructor builds: the RESOLVED configuration (model: `SingleArgs.resolve`, documented
defaults for what was omitted) + the parameter tensors.  The dot flavour has no tensors: its score function
is the resolved `scale_factor` and nothing else. -/
def parseFlavour {α} (f : Json → Except String α) (cfg : SingleCfg α) (j : Json) :
    Except String (Flavour α) := do
  let kind ← getStr j "kind"
  match kind with
  | "dot" => pure (mkDot cfg)
  | "general" => do
    let b ← getOptVec f j "b"
    if cfg.bias && b.isNone then throw "bias requested, no bias vector sent"
    pure (mkGeneral cfg (← getMat f j "W") b)
  | "concat" => do
    let b ← getOptVec f j "b"
    let v ← getVec f j "v"
    let W ← getMat f j "W"
    if cfg.bias && b.isNone then throw "bias requested, no bias vector sent"
    if v.length != cfg.hiddenSize || W.length != cfg.hiddenSize then
      throw s!"hidden size: constructor resolves {cfg.hiddenSize}, parameters sent for {v.length}"
    pure (mkConcat cfg W b v)
  | _ => throw s!"bad flavour {kind}"

def singleCfgJ {α} (fj : α → Json) (c : SingleCfg α) : Json :=
  objJ [("dim", intJ c.dim), ("scale_factor", fj c.scaleFactor), ("bias", boolJ c.bias),
        ("hidden_size", natJ c.hiddenSize)]

structure Elem (α : Type) where
  q : List α
  ks : List (List α)
  vs : List (List α)
  mask : Option (List Bool)

def parseElem {α} (f : Json → Except String α) (j : Json) : Except String (Elem α) := do
  let mask ← match fieldOpt j "mask" with
    | none => pure none
    | some v => some <$> jsonToList jsonToBool v
  pure ⟨← getVec f j "q", ← getMat f j "ks", ← getMat f j "vs", mask⟩

def isConcat {α} : Flavour α → Bool
  | .concat .. => true
  | _ => false

/-- The largest score at a kept position (0 when there is none or it is not finite). -/
def keptMax (ss : List Float) (mask : List Bool) : Float :=
  match (ss.zip mask).filterMap (fun p => if p.2 then some p.1 else none) with
  | [] => 0
  | x :: xs =>
    let m := xs.foldl (fun a b => if b > a then b else a) x
    if m.isFinite then m else 0

/-- `exp (x - c)`: what a max-subtracting softmax exponentiates.  The model is run with this
function in place of `exp` (`e` is a parameter of the model; `C20_shift_invariant` proves that
every `e' x = e x * g`, `g ≠ 0` — here `g = exp (-c)` — gives the same weights and output). -/
def expShift (c : Float) (x : Float) : Float := Float.exp (x - c)

/-! ### Tensor level: the raw arguments of the call go through the model's `tensorApply`
(`check_input`, broadcasting as index arithmetic, the sequence axis named by `dim`). -/

/-- Row-major position of a multi-index (glue: how the flat JSON data is addressed). -/
def flatIndex (shape idx : List Nat) : Nat :=
  (shape.zip idx).foldl (fun acc p => acc * p.1 + p.2) 0

def mkTensor {α} (shape : List Nat) (data : Array α) (dflt : α) : Tensor α :=
  ⟨shape, fun idx => data.getD (flatIndex shape idx) dflt⟩

/-- All multi-indices of a shape in row-major order. -/
def allIdx : List Nat → List (List Nat)
  | [] => [[]]
  | n :: s => (List.range n).flatMap (fun i => (allIdx s).map (i :: ·))

def parseTensor {α} (f : Json → Except String α) (dflt : α) (j : Json) : Except String (Tensor α) := do
  let shape ← getNatList j "shape"
  let data ← getList f j "data"
  pure (mkTensor shape data.toArray dflt)

/-- {Q, K, vsz, q, k, v, mask} and the constructor's resolved `dim` → the result tensor of `tensorApply f …` (or the error class). -/
def runTensor (f : Nat → List Float → List (List Float) → List (List Float) → Option (List Bool) → List Float)
    (outSize : Nat → Nat) (dim : Int) (tj : Json) : Except String Json := do
  let q ← field tj "q" >>= parseTensor jsonToFloat 0
  let k ← field tj "k" >>= parseTensor jsonToFloat 0
  let v ← field tj "v" >>= parseTensor jsonToFloat 0
  let mask ← match fieldOpt tj "mask" with
    | none => pure none
    | some mj => some <$> parseTensor jsonToBool false mj
  match tensorApply f outSize (← getNat tj "Q") (← getNat tj "K") (← getOptNat tj "vsz")
      dim q k v mask with
  | .error .value => pure (objJ [("error", strJ "value")])
  | .error .runtime => pure (objJ [("error", strJ "runtime")])
  | .ok t => pure (objJ [("shape", listJ natJ t.shape),
      ("data", listJ floatJ ((allIdx t.shape).map t.val))])

/-- The per-element function of the single-head flavours as the driver runs it: `attend` with
`exp (x - c)`, `c` the largest kept score of the element. -/
def attendShifted (fl : Flavour Float) (D : Nat) (q : List Float) (ks vs : List (List Float))
    (mask : Option (List Bool)) : List Float :=
  let c := keptMax (ks.map (score Float.tanh fl q)) (effMask mask ks.length)
  attend Float.tanh (expShift c) fl D q ks vs mask

/-- … and of multi-headed attention: one shift per head. -/
def mhaShifted (m : MHA Float) (q : List Float) (ks vs : List (List Float))
    (mask : Option (List Bool)) : List Float :=
  let cs := (List.range m.numHeads).map (fun h =>
    keptMax (mhaHeadScores Float.tanh m q ks h) (effMask mask ks.length))
  mhaForwardH Float.tanh (fun h => expShift (cs.getD h 0)) m q ks vs mask

/-- case: {ctor: {dim, scale_factor, bias, hidden_size} (null = omitted), flavour: {kind, W, b, v}, D,
elems: [{q, ks, vs, mask}], tensor}. -/
def c20Single : Handler := fun c => do
  let flJ ← field c "flavour"
  let ctorJ ← field c "ctor"
  let cfg := (← parseSingleArgs jsonToFloat ctorJ).resolve 1
  let cfgR := (← parseSingleArgs jsonToRat ctorJ).resolve 1
  let fl ← parseFlavour jsonToFloat cfg flJ
  let flR ← parseFlavour jsonToRat cfgR flJ
  let D ← getNat c "D"
  let elemsJ ← field c "elems" >>= (·.getArr?)
  let outs ← elemsJ.toList.mapM (fun ej => do
    let el ← parseElem jsonToFloat ej
    let elR ← parseElem jsonToRat ej
    let scoresExact : Json :=
      if isConcat flR then Json.null
      else listJ ratToJson (elR.ks.map (score (fun x => x) flR elR.q))
    let scoresF := el.ks.map (score Float.tanh fl el.q)
    let c := keptMax scoresF (effMask el.mask el.ks.length)
    let ws := weights Float.tanh (expShift c) fl el.q el.ks el.mask
    let out := attend Float.tanh (expShift c) fl D el.q el.ks el.vs el.mask
    let spec := attendSpec Float.tanh (expShift c) fl D el.q el.ks el.vs el.mask
    pure (objJ [("scores_exact", scoresExact), ("shift", floatJ c),
      ("scores", listJ floatJ scoresF),
      ("weights", listJ floatJ ws), ("out", listJ floatJ out), ("spec", listJ floatJ spec)]))
  let tens ← match fieldOpt c "tensor" with
    | none => pure Json.null
    | some tj => runTensor (attendShifted fl) id cfg.dim tj
  pure (objJ [("elems", Json.arr outs.toArray), ("tensor", tens), ("ctor", singleCfgJ ratToJson cfgR)])

def getFlag (j : Json) (k : String) : Except String Bool := getBool j k

/-- case: {ctor: {inner: {dim, scale_factor, bias, hidden_size}, outer: {out_size, d_v, bias_WQ, bias_WK,
bias_WV, bias_WC}} (null = omitted), params: {H, D (value_size), dq, dk, WQ, WK, WV, WC, bQ, bK, bV, bC, inner},
elems}.  The module is built by the model's constructor from the arguments AS SPELLED. -/
def c20Multi : Handler := fun c => do
  let ctorJ ← field c "ctor"
  let pj ← field c "params"
  let f := jsonToFloat
  let icfg := (← field ctorJ "inner" >>= parseSingleArgs f).resolve 1
  let icfgR := (← field ctorJ "inner" >>= parseSingleArgs jsonToRat).resolve 1
  let oj ← field ctorJ "outer"
  let oargs : MultiArgs := {
    outSize := ← getOptNat oj "out_size", dv := ← getOptNat oj "d_v",
    biasWQ := ← getOptWith jsonToBool oj "bias_WQ", biasWK := ← getOptWith jsonToBool oj "bias_WK",
    biasWV := ← getOptWith jsonToBool oj "bias_WV", biasWC := ← getOptWith jsonToBool oj "bias_WC" }
  let H ← getNat pj "H"
  let ocfg := oargs.resolve (← getNat pj "D") H
  let flags := ocfg.flags
  let inner ← field pj "inner" >>= parseFlavour f icfg
  let p : MHAParams Float := {
    numHeads := H, dq := ← getNat pj "dq", dk := ← getNat pj "dk", dv := ocfg.dv,
    WQ := ← getMat f pj "WQ", WK := ← getMat f pj "WK", WV := ← getMat f pj "WV", WC := ← getMat f pj "WC",
    bQ := ← getVec f pj "bQ", bK := ← getVec f pj "bK", bV := ← getVec f pj "bV", bC := ← getVec f pj "bC",
    inner := inner }
  if p.WC.length != ocfg.outSize || p.WV.length != H * ocfg.dv then
    throw s!"constructor resolves out_size {ocfg.outSize}, d_v {ocfg.dv}; parameters sent for {p.WC.length}, {p.WV.length} / {H}"
  let m := build flags p
  let elemsJ ← field c "elems" >>= (·.getArr?)
  let outs ← elemsJ.toList.mapM (fun ej => do
    let el ← parseElem f ej
    -- one shift per head: the largest kept score of that head
    let cs := (List.range m.numHeads).map (fun h =>
      keptMax (mhaHeadScores Float.tanh m el.q el.ks h) (effMask el.mask el.ks.length))
    let eh : Nat → Float → Float := fun h => expShift (cs.getD h 0)
    let out := mhaForwardH Float.tanh eh m el.q el.ks el.vs el.mask
    let spec := mhaSpecH Float.tanh eh m el.q el.ks el.vs el.mask
    pure (objJ [("out", listJ floatJ out), ("spec", listJ floatJ spec),
      ("shifts", listJ floatJ cs)]))
  let tens ← match fieldOpt c "tensor" with
    | none => pure Json.null
    | some tj => runTensor (fun _ => mhaShifted m) (fun _ => m.WC.length) icfg.dim tj
  pure (objJ [("ctor", objJ [("inner", singleCfgJ ratToJson icfgR), ("out_size", natJ ocfg.outSize),
      ("d_v", natJ ocfg.dv), ("d_q", natJ m.dq), ("d_k", natJ m.dk), ("num_heads", natJ m.numHeads)]),
    ("has_bias", objJ [("wq", boolJ m.bQ.isSome), ("wk", boolJ m.bK.isSome),
      ("wv", boolJ m.bV.isSome), ("wc", boolJ m.bC.isSome)]),
    ("elems", Json.arr outs.toArray), ("tensor", tens)])

/-- case: {query_size, key_size, value_size: null | n, dim, q, k, v, mask: null | [..]} -/
def c20Shape : Handler := fun c => do
  let mask ← match fieldOpt c "mask" with
    | none => pure none
    | some v => some <$> jsonToList jsonToNat v
  let r := checkInput (← getNat c "query_size") (← getNat c "key_size") (← getOptNat c "value_size")
    (← getInt c "dim") (← getNatList c "q") (← getNatList c "k") (← getNatList c "v") mask
  match r with
  | .ok s => pure (objJ [("shape", listJ natJ s)])
  | .error .value => pure (objJ [("error", strJ "value")])
  | .error .runtime => pure (objJ [("error", strJ "runtime")])

def main : IO Unit := Proto.run [("c20.single", c20Single), ("c20.multi", c20Multi),
  ("c20.shape", c20Shape)]
