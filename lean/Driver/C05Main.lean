import Driver.Proto
import PdtVerif.Model.CtcPrefix
import PdtVerif.Model.CtcFusion
import PdtVerif.Spec.Ctc
import Std.Data.HashMap
/-! Driver for C05: runs the array model of `ctc_prefix_search_advance` / the module loop on
one batch element, and evaluates the specification (alignment enumeration, forward
variables, map-based prefix-beam recursion) on the same frames. JSON glue only. -/
open Lean Proto PdtVerif.CtcPrefix

def xrToJson : XR → Json
  | .fin q => ratToJson q
  | .negInf => strJ "-inf"
  | .posInf => strJ "inf"
  | .nan => strJ "nan"

def jsonToXR (j : Json) : Except String XR :=
  match j with
  | .str "-inf" => .ok .negInf
  | .str "inf" => .ok .posInf
  | .str "nan" => .ok .nan
  | _ => XR.fin <$> jsonToRat j

def parseFrame (j : Json) : Except String FrameIn := do
  let ext ← getList (jsonToList jsonToXR) j "ext"
  let nonext ← getList jsonToXR j "nonext"
  let blank ← field j "blank" >>= jsonToXR
  let sel ← match fieldOpt j "sel" with
    | none => pure none
    | some s => some <$> jsonToList jsonToNat s
  pure { ext, nonext, blank, sel }

def parseState (j : Json) : Except String State := do
  let tm1 ← getNat j "tm1"
  let y ← getList (jsonToList jsonToNat) j "y"
  let last ← getNatList j "last"
  let lens ← getNatList j "lens"
  let nb ← getList jsonToXR j "nb"
  let b ← getList jsonToXR j "b"
  let isPrefix ← getList (jsonToList jsonToBool) j "is_prefix"
  pure { tm1, y, last, lens, nb, b, isPrefix }

/-- largest amount by which `sel` fails to be a top-K selection of `cand` (0 = exact top-K);
only finite values are measured, any other violation counts as 1. -/
def selViolation (cand : List XR) (sel : List Nat) : Rat :=
  let vals := sel.map (getX cand)
  let gap : XR → XR → Rat := fun lo hi =>  -- want lo ≤ hi
    if XR.le lo hi then 0 else
    match lo, hi with
    | .fin a, .fin b => a - b
    | _, _ => 1
  let rec adj : List XR → Rat
    | a :: b :: r => max (gap b a) (adj (b :: r))
    | _ => 0
  let lastSel : Option XR := vals.getLast?
  let outside : Rat := match lastSel with
    | none => 0
    | some m => (List.range cand.length).foldl (fun acc i =>
        if sel.contains i then acc else max acc (gap (getX cand i) m)) 0
  max (adj vals) outside

def stateJson (st : State) : Json :=
  let K := st.nb.length
  objJ [
    ("prefixes", listJ (listJ natJ) ((List.range K).map (fun k => (st.y.getD k []).take (getN st.lens k)))),
    ("last", listJ natJ st.last),
    ("lens", listJ natJ st.lens),
    ("nb", listJ xrToJson st.nb),
    ("b", listJ xrToJson st.b),
    ("is_prefix", listJ (fun (row : List Bool) => strJ (String.ofList (row.map (fun b => if b then '1' else '0')))) st.isPrefix)]

def stepJson (V width : Nat) (carried : State) (o : StepOut) : Json :=
  let K := min width (o.cand.length)
  objJ [
    ("out", stateJson o.st),
    ("carried", stateJson carried),
    ("src", listJ natJ o.src),
    ("is_nonext", listJ boolJ o.isNon),
    ("sel", listJ natJ o.sel),
    ("K", natJ K),
    ("V", natJ V),
    ("sel_ok", boolJ (isTopK o.cand K o.sel)),
    ("sel_violation", ratToJson (selViolation o.cand o.sel)),
    ("cand_finite", natJ (o.cand.filter XR.isFin).length),
    ("cand_nan", boolJ (o.cand.any XR.isNan))]

/-- the loop again, but keeping the carried state after every iteration (for the per-step comparison).
Every frame carries the `width` argument of its call: the module always passes its own width, a caller of
`ctc_prefix_search_advance` may pass a different one at every call. -/
def loopStates (fix : Bool) (V len : Nat) : Nat → State → List (FrameIn × Nat) → List (State × StepOut)
  | _, _, [] => []
  | t, st, (f, width) :: fs =>
    let r := loopStep fix V width (decide (t < len)) st f
    r :: loopStates fix V len (t + 1) r.1 fs

/-- per-call width of a frame (`"width"` in the frame object), else the case's width -/
def frameWidth (dflt : Nat) (j : Json) : Nat :=
  match fieldOpt j "width" with
  | some w => match jsonToNat w with
    | .ok n => n
    | .error _ => dflt
  | none => dflt

/-- the finite map a given start state stands for (glue for runs that start from a state handed to
`ctc_prefix_search_advance` by the caller): prefix ↦ (nb, b) of every slot whose total is finite -/
def beamOfState (st : State) : PdtVerif.Ctc.Beam :=
  ((List.range st.nb.length).filter (fun k => (getX st.nb k + getX st.b k).isFin)).filterMap (fun k =>
    match getX st.nb k, getX st.b k with
    | .fin a, .fin b => some ((st.y.getD k []).take (getN st.lens k), (a, b))
    | _, _ => none)

/-! ### specification side -/
open PdtVerif.Ctc in
def mkFrame (V : Nat) (tok : List Rat) (blank : Rat) (tab : List (List Nat × List Rat)) : Frame :=
  { blank := blank
    tok := fun v => tok.getD v 0
    ext := fun q v => match tab.lookup q with
      | some row => row.getD v 0
      | none => if v < V then tok.getD v 0 else 0 }

def xrRat : XR → Except String Rat
  | .fin q => .ok q
  | _ => .error "specification frames must be finite"

/-- the final reading states of ALL alignments, built frame by frame (the same list as
`(allAlign V T).map (runAlign V frames)`, without re-reading every alignment from its start; nothing is
merged) -/
def allStates (V : Nat) (frames : List PdtVerif.Ctc.Frame) : List PdtVerif.Ctc.AState :=
  frames.foldl (fun sts f =>
    sts.flatMap (fun st => (List.range (V + 1)).map (fun s => PdtVerif.Ctc.stepSym V f st s)))
    [PdtVerif.Ctc.aInit]

/-- aggregate the final states of all alignments into prefix ↦ mass (glue; cross-checked
against `Ctc.mass` on the first entries). -/
def massTable (V : Nat) (frames : List PdtVerif.Ctc.Frame) : List (List Nat × Rat) :=
  let m := (allStates V frames).foldl
    (fun (acc : Std.HashMap (List Nat) Rat) st => acc.insert st.pre (acc.getD st.pre 0 + st.w)) {}
  m.toList

def prefJ (p : List Nat) : Json := listJ natJ p

/-- the harness's stateful LM (state = rolling hash of the consumed tokens), as a `CtcPrefix.LM`; only the
state matters here: the scores travel as numbers -/
def hashLM : LM Nat :=
  { run := fun idx col h => ([], if idx = 0 then h else (h * 5 + col.getD (idx - 1) 0 + 1) % 1000003) }

/-- the LM state of every slot before each call, by the model's routing (`routeStates` / `lmInNext`) along
the model's own states and step outputs -/
def lmStates : List State → List StepOut → List Nat → List (List Nat)
  | b :: bs, o :: os, sts =>
    sts :: lmStates bs os (routeStates 0 sts (lmInNext hashLM 0 b sts) o.src o.isNon)
  | _, _, _ => []

/-- a language model given as a table prefix ↦ row of LM factors (the values after the module's
`softmax` / `exp(beta · log_softmax)`, handed over by the harness), as a `CtcPrefix.LM` without state:
column `col`, index `idx` ↦ the row of the prefix `col[:idx]` -/
def tableLM (tab : List (List Nat × List XR)) : LM Unit :=
  { run := fun idx col _ => ((tab.lookup (col.take idx)).getD [], ()) }

def parseFactorRow (e : Json) : Except String (List Nat × List XR) := do
  let arr ← e.getArr?
  match arr.toList with
  | [p, row] => do
    let p ← jsonToList jsonToNat p
    let row ← jsonToList jsonToXR row
    pure (p, row)
  | _ => throw "lm_factor entry must be [prefix, row]"

/-- `ext_probs_t` of the element at every call, by the model's `lmExt` (fusion formula `fuse` with the
mixture weight `mix` = the module's CURRENT `beta` when `valid_mixture`, `none` for plain fusion) on the
model's own states -/
def lmExts (V : Nat) (mix : Option Rat) : List State → List FrameIn → List (List (List Nat × List XR)) →
    List (List (List XR))
  | st :: sts, f :: fs, tab :: tabs =>
    lmExt V mix (tableLM tab) () f.nonext f.blank st [] :: lmExts V mix sts fs tabs
  | _, _, _ => []

def parseExtTables (j : Json) : Except String (List (List (List Nat × List Rat))) :=
  jsonToList (jsonToList (fun e => do
    let arr ← e.getArr?
    match arr.toList with
    | [p, row] => do
      let p ← jsonToList jsonToNat p
      let row ← jsonToList jsonToRat row
      pure (p, row)
    | _ => throw "ext_table entry must be [prefix, row]")) j

/-- the map recursion along given survivors, with per-frame facts (legitimate top-K?, anything pruned?,
number of distinct candidates, number of kept candidates) -/
def specGo (V : Nat) : List (PdtVerif.Ctc.Frame × Nat) → List (List (List Nat)) → PdtVerif.Ctc.Beam →
    List (Bool × Bool × Nat × Nat) → PdtVerif.Ctc.Beam × List (Bool × Bool × Nat × Nat)
  | (f, w) :: fs, k :: ks, bm, acc =>
    let cs := (PdtVerif.Ctc.cands V bm).eraseDups
    let ok := PdtVerif.Ctc.isTopKB V f w bm k
    let pruned := cs.any (fun p => !k.contains p)
    specGo V fs ks (PdtVerif.Ctc.beamStep V f k bm)
      (acc ++ [(ok, pruned, cs.length, (k.filter (fun p => cs.contains p)).eraseDups.length)])
  | _, _, bm, acc => (bm, acc)

/-- the specification side for given frames: prefix-beam recursion pruned to `keeps` (`beam`), per-frame
facts (`frames`), true mass of every prefix by enumeration of all alignments (`mass`, when wanted) -/
def specSide (V : Nat) (specFrames : List PdtVerif.Ctc.Frame) (widths : List Nat)
    (keeps : List (List (List Nat))) (beam0 : PdtVerif.Ctc.Beam) (wantMass : Bool) : Except String Json := do
  let (beam, info) := specGo V (specFrames.zip widths) keeps beam0 []
  let table := if wantMass then massTable V specFrames else []
  -- cross-check the glue against the definitions on the first entries
  -- (the cross-checks re-enumerate; they are done on the short runs only, where most cases are)
  let small := specFrames.length ≤ 5
  let chk := !small || (table.take 2).all (fun (p, m) => PdtVerif.Ctc.mass V specFrames p == m)
  if !chk then throw "internal: massTable disagrees with Ctc.mass"
  let ex := PdtVerif.Ctc.exact V specFrames
  let chk2 := !small || (table.take 3).all (fun (p, m) => (ex p).1 + (ex p).2 == m)
  if !chk2 then throw "internal: forward variables disagree with alignment enumeration (theorem exact_eq_mass)"
  return objJ [
    ("beam", listJ (fun (e : List Nat × (Rat × Rat)) =>
        objJ [("p", prefJ e.1), ("nb", ratToJson e.2.1), ("b", ratToJson e.2.2)]) beam),
    ("frames", listJ (fun (x : Bool × Bool × Nat × Nat) =>
        objJ [("topk_ok", boolJ x.1), ("pruned", boolJ x.2.1), ("ncands", natJ x.2.2.1),
              ("nkeep", natJ x.2.2.2)]) info),
    ("mass", if wantMass then
        listJ (fun (e : List Nat × Rat) => objJ [("p", prefJ e.1), ("m", ratToJson e.2)]) table
      else Json.null)]

/-- One batch element. common: {fix, V, width, spec?}; element: {len, frames:[{ext,nonext,blank,sel?}],
init?: state, ext_table?: per frame [[prefix,[row]]..], keeps?: per frame [prefix..],
lm_factor?: per frame [[prefix,[LM factor per token]]..], mix?: "n/d" | null,
oracle?: {frames: [{tok, blank}..] (the element's valid frames), ext_table?}} →
{model, spec (on the frames of the calls), spec_exact (on the oracle frames, same survivors)}. -/
def c05Elem (fix : Bool) (V width : Nat) (wantSpec : Bool) (c : Json) : Except String Json := do
  let len ← getNat c "len"
  let frames ← getList parseFrame c "frames"
  let widths ← getList (fun j => pure (frameWidth width j)) c "frames"
  let st0 ← match fieldOpt c "init" with
    | none => pure initState
    | some j => parseState j
  let steps := loopStates fix V len 0 st0 (frames.zip widths)
  let final := match steps.getLast? with
    | some (s, _) => s
    | none => st0
  let res := finish (widths.getLast?.getD width) final
  let lmJ : Json := match fieldOpt c "lm_h0" with
    | some j => match jsonToNat j with
      | .ok h0 => listJ (listJ natJ)
          (lmStates (st0 :: (steps.map (·.1)).dropLast) (steps.map (·.2)) [h0])
      | .error _ => Json.null
    | none => Json.null
  let mix : Option Rat ← match fieldOpt c "mix" with
    | none => pure none
    | some .null => pure none
    | some j => some <$> jsonToRat j
  let extJ : Json ← match fieldOpt c "lm_factor" with
    | none => pure Json.null
    | some j => do
      let tabs ← jsonToList (jsonToList parseFactorRow) j
      pure (listJ (listJ (listJ xrToJson)) (lmExts V mix (st0 :: (steps.map (·.1)).dropLast) frames tabs))
  let modelJ := objJ [
    ("lm_states", lmJ),
    ("lm_ext", extJ),
    ("result", objJ [("prefixes", listJ prefJ res.prefixes), ("lens", listJ natJ res.lens),
                     ("probs", listJ xrToJson res.probs)]),
    ("steps", Json.arr ((steps.zip widths).map (fun ((s, o), w) => stepJson V w s o)).toArray)]
  if !wantSpec then
    return objJ [("model", modelJ), ("spec", Json.null)]
  -- specification: only the first `len` frames belong to this element
  let used := frames.take len
  let tabs : List (List (List Nat × List Rat)) ← match fieldOpt c "ext_table" with
    | none => pure (used.map (fun _ => []))
    | some j => parseExtTables j
  let specFrames ← (used.zip (tabs ++ List.replicate used.length [])).mapM (fun (f, tab) => do
    let tok ← f.nonext.mapM xrRat
    let bl ← xrRat f.blank
    pure (mkFrame V tok bl tab))
  -- survivors per frame: given by the harness (read off the implementation's trace), else
  -- the prefixes of the model's slots with finite total
  let validPrefixes := fun (st : State) =>
    ((List.range st.nb.length).filter (fun k => (getX st.nb k + getX st.b k).isFin)).map
      (fun k => (st.y.getD k []).take (getN st.lens k))
  let keeps ← match fieldOpt c "keeps" with
    | none => pure ((steps.take len).map (fun (s, _) => validPrefixes s))
    | some j => jsonToList (jsonToList (jsonToList jsonToNat)) j
  -- a run that starts from a caller-given state is compared with the recursion started from the map that
  -- state stands for; the alignment enumeration (true mass) only makes sense from the initial state
  let fromInit := (fieldOpt c "init").isSome
  let beam0 := if fromInit then beamOfState st0 else PdtVerif.Ctc.beamInit
  let wantMass := !fromInit && (match fieldOpt c "mass" with
    | some (.bool b) => b
    | _ => true)
  let specJ ← specSide V specFrames widths keeps beam0 wantMass
  -- the same specification on the frames the harness computed from the CALLER'S scores (exact softmax /
  -- fusion of the logits, no torch): `oracle: {frames: [{tok, blank}..], ext_table?}`, same survivors
  let exactJ ← match fieldOpt c "oracle" with
    | none => pure Json.null
    | some o => do
      let ofr ← getList (fun j => do
        let tok ← getList jsonToRat j "tok"
        let bl ← field j "blank" >>= jsonToRat
        pure (tok, bl)) o "frames"
      let otabs : List (List (List Nat × List Rat)) ← match fieldOpt o "ext_table" with
        | none => pure (ofr.map (fun _ => []))
        | some j => parseExtTables j
      let oFrames := (ofr.zip (otabs ++ List.replicate ofr.length [])).map
        (fun ((tok, bl), tab) => mkFrame V tok bl tab)
      if oFrames.length != specFrames.length then throw "oracle: one frame per valid frame of the element expected"
      specSide V oFrames widths keeps beam0 wantMass
  return objJ [("model", modelJ), ("spec", specJ), ("spec_exact", exactJ)]

/-- case: {fix, V, width, spec?, elements: [element..]} → {"elements": [{model, spec}..]}. -/
def c05Case : Handler := fun c => do
  let fix ← getBool c "fix"
  let V ← getNat c "V"
  let width ← getNat c "width"
  let wantSpec := match fieldOpt c "spec" with
    | some (.bool b) => b
    | _ => true
  let els ← getList (fun e => c05Elem fix V width wantSpec e) c "elements"
  return objJ [("elements", Json.arr els.toArray)]

def main : IO Unit := Proto.run [("c05.case", c05Case)]
