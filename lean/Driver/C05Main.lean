import Driver.Proto
import PdtVerif.Model.CtcPrefix
import PdtVerif.Model.CtcFusion
import PdtVerif.Model.CtcFast
import PdtVerif.Spec.Ctc
import Std.Data.HashMap
/-! Driver for C05: runs the array model of `ctc_prefix_search_advance` / the module loop on
one batch element, and evaluates the specification (alignment enumeration, forward
variables, map-based prefix-beam recursion) on the same frames. JSON glue only. -/
open Lean Proto PdtVerif.CtcPrefix

def xrToJson : XR → Json
  | .fin q => ratToJson q
  | .negInf => strJ "-inf"
  | .posInf => strJ "inf"
  | .nan => strJ "nan"

def jsonToXR (j : Json) : Except String XR :=
  match j with
  | .str "-inf" => .ok .negInf
  | .str "inf" => .ok .posInf
  | .str "nan" => .ok .nan
  | _ => XR.fin <$> jsonToRat j

def parseFrame (j : Json) : Except String FrameIn := do
  let ext ← getList (jsonToList jsonToXR) j "ext"
  let nonext ← getList jsonToXR j "nonext"
  let blank ← field j "blank" >>= jsonToXR
  let sel ← match fieldOpt j "sel" with
    | none => pure none
    | some s => some <$> jsonToList jsonToNat s
  pure { ext, nonext, blank, sel }

def parseState (j : Json) : Except String State := do
  let tm1 ← getNat j "tm1"
  let y ← getList (jsonToList jsonToNat) j "y"
  let last ← getNatList j "last"
  let lens ← getNatList j "lens"
  let nb ← getList jsonToXR j "nb"
  let b ← getList jsonToXR j "b"
  let isPrefix ← getList (jsonToList jsonToBool) j "is_prefix"
  pure { tm1, y, last, lens, nb, b, isPrefix }

/-- largest amount by which `sel` fails to be a top-K selection of `cand` (0 = exact top-K);
only finite values are measured, any other violation counts as 1. -/
def selViolation (cand : List XR) (sel : List Nat) : Rat :=
  let vals := sel.map (getX cand)
  let gap : XR → XR → Rat := fun lo hi =>  -- want lo ≤ hi
    if XR.le lo hi then 0 else
    match lo, hi with
    | .fin a, .fin b => a - b
    | _, _ => 1
  let rec adj : List XR → Rat
    | a :: b :: r => max (gap b a) (adj (b :: r))
    | _ => 0
  let lastSel : Option XR := vals.getLast?
  let outside : Rat := match lastSel with
    | none => 0
    | some m => cand.zipIdx.foldl (fun acc xi =>
        if sel.contains xi.2 then acc else max acc (gap xi.1 m)) 0
  max (adj vals) outside

def stateJson (st : State) : Json :=
  let K := st.nb.length
  objJ [
    ("prefixes", listJ (listJ natJ) ((List.range K).map (fun k => (st.y.getD k []).take (getN st.lens k)))),
    ("last", listJ natJ st.last),
    ("lens", listJ natJ st.lens),
    ("nb", listJ xrToJson st.nb),
    ("b", listJ xrToJson st.b),
    ("is_prefix", listJ (fun (row : List Bool) => strJ (String.ofList (row.map (fun b => if b then '1' else '0')))) st.isPrefix)]

def stepJson (V width : Nat) (carried : State) (o : StepOut) : Json :=
  let K := min width (o.cand.length)
  objJ [
    ("out", stateJson o.st),
    ("carried", stateJson carried),
    ("src", listJ natJ o.src),
    ("is_nonext", listJ boolJ o.isNon),
    ("sel", listJ natJ o.sel),
    ("K", natJ K),
    ("V", natJ V),
    ("sel_ok", boolJ (isTopKFast o.cand K o.sel)),  -- = isTopK (theorem C05_topk_fast)
    ("sel_violation", ratToJson (selViolation o.cand o.sel)),
    ("cand_finite", natJ (o.cand.filter XR.isFin).length),
    ("cand_nan", boolJ (o.cand.any XR.isNan))]

/-- the loop again, but keeping the carried state after every iteration (for the per-step comparison).
Every frame carries the `width` argument of its call: the module always passes its own width, a caller of
`ctc_prefix_search_advance` may pass a different one at every call. -/
def loopStates (fix : Bool) (V len : Nat) : Nat → State → List (FrameIn × Nat) → List (State × StepOut)
  | _, _, [] => []
  | t, st, (f, width) :: fs =>
    let r := loopStep fix V width (decide (t < len)) st f
    r :: loopStates fix V len (t + 1) r.1 fs

/-- per-call width of a frame (`"width"` in the frame object), else the case's width -/
def frameWidth (dflt : Nat) (j : Json) : Nat :=
  match fieldOpt j "width" with
  | some w => match jsonToNat w with
    | .ok n => n
    | .error _ => dflt
  | none => dflt

/-- the finite map a given start state stands for (glue for runs that start from a state handed to
`ctc_prefix_search_advance` by the caller): prefix ↦ (nb, b) of every slot whose total is finite -/
def beamOfState (st : State) : PdtVerif.Ctc.Beam :=
  ((List.range st.nb.length).filter (fun k => (getX st.nb k + getX st.b k).isFin)).filterMap (fun k =>
    match getX st.nb k, getX st.b k with
    | .fin a, .fin b => some ((st.y.getD k []).take (getN st.lens k), (a, b))
    | _, _ => none)

/-! ### specification side -/
open PdtVerif.Ctc in
def mkFrame (V : Nat) (tok : List Rat) (blank : Rat) (tab : List (List Nat × List Rat)) : Frame :=
  -- the table as a hash map (first entry of a prefix wins, like `List.lookup`) and the rows / token
  -- probabilities as arrays: the tables of wide beams hold hundreds of prefixes
  let hm : Std.HashMap (List Nat) (Array Rat) := tab.foldl (fun m e => m.insertIfNew e.1 e.2.toArray) {}
  let tokA := tok.toArray
  { blank := blank
    tok := fun v => tokA.getD v 0
    ext := if tab.isEmpty then (fun _ v => if v < V then tokA.getD v 0 else 0) else
      fun q v => match hm.get? q with
      | some row => row.getD v 0
      | none => if v < V then tokA.getD v 0 else 0 }

def xrRat : XR → Except String Rat
  | .fin q => .ok q
  | _ => .error "specification frames must be finite"

/-- the final reading states of ALL alignments, built frame by frame (the same list as
`(allAlign V T).map (runAlign V frames)`, without re-reading every alignment from its start; nothing is
merged) -/
def allStates (V : Nat) (frames : List PdtVerif.Ctc.Frame) : List PdtVerif.Ctc.AState :=
  frames.foldl (fun sts f =>
    sts.flatMap (fun st => (List.range (V + 1)).map (fun s => PdtVerif.Ctc.stepSym V f st s)))
    [PdtVerif.Ctc.aInit]

/-- aggregate the final states of all alignments into prefix ↦ mass (glue; cross-checked
against `Ctc.mass` on the first entries). -/
def massTable (V : Nat) (frames : List PdtVerif.Ctc.Frame) : List (List Nat × Rat) :=
  let m := (allStates V frames).foldl
    (fun (acc : Std.HashMap (List Nat) Rat) st => acc.insert st.pre (acc.getD st.pre 0 + st.w)) {}
  m.toList

def prefJ (p : List Nat) : Json := listJ natJ p

/-- the harness's stateful LM (state = rolling hash of the consumed tokens), as a `CtcPrefix.LM`; only the
state matters here: the scores travel as numbers -/
def hashLM : LM Nat :=
  { run := fun idx col h => ([], if idx = 0 then h else (h * 5 + col.getD (idx - 1) 0 + 1) % 1000003) }

/-- the LM state of every slot before each call, by the model's routing (`routeStates` / `lmInNext`) along
the model's own states and step outputs -/
def lmStates : List State → List StepOut → List Nat → List (List Nat)
  | b :: bs, o :: os, sts =>
    sts :: lmStates bs os (routeStates 0 sts (lmInNext hashLM 0 b sts) o.src o.isNon)
  | _, _, _ => []

/-- a language model given as a table prefix ↦ row of LM factors (the values after the module's
`softmax` / `exp(beta · log_softmax)`, handed over by the harness), as a `CtcPrefix.LM` without state:
column `col`, index `idx` ↦ the row of the prefix `col[:idx]` -/
def tableLM (tab : List (List Nat × List XR)) : LM Unit :=
  { run := fun idx col _ => ((tab.lookup (col.take idx)).getD [], ()) }

def parseFactorRow (e : Json) : Except String (List Nat × List XR) := do
  let arr ← e.getArr?
  match arr.toList with
  | [p, row] => do
    let p ← jsonToList jsonToNat p
    let row ← jsonToList jsonToXR row
    pure (p, row)
  | _ => throw "lm_factor entry must be [prefix, row]"

/-- `ext_probs_t` of the element at every call, by the model's `lmExt` (fusion formula `fuse` with the
mixture weight `mix` = the module's CURRENT `beta` when `valid_mixture`, `none` for plain fusion) on the
model's own states -/
def lmExts (V : Nat) (mix : Option Rat) : List State → List FrameIn → List (List (List Nat × List XR)) →
    List (List (List XR))
  | st :: sts, f :: fs, tab :: tabs =>
    lmExt V mix (tableLM tab) () f.nonext f.blank st [] :: lmExts V mix sts fs tabs
  | _, _, _ => []

def parseExtTables (j : Json) : Except String (List (List (List Nat × List Rat))) :=
  jsonToList (jsonToList (fun e => do
    let arr ← e.getArr?
    match arr.toList with
    | [p, row] => do
      let p ← jsonToList jsonToNat p
      let row ← jsonToList jsonToRat row
      pure (p, row)
    | _ => throw "ext_table entry must be [prefix, row]")) j

/-- the map recursion along given survivors, with per-frame facts (legitimate top-K?, anything pruned?,
number of distinct candidates, number of kept candidates) -/
def specGo (V : Nat) : List (PdtVerif.Ctc.Frame × Nat) → List (List (List Nat)) → PdtVerif.Ctc.Beam →
    List (Bool × Bool × Nat × Nat) → PdtVerif.Ctc.Beam × List (Bool × Bool × Nat × Nat)
  | (f, w) :: fs, k :: ks, bm, acc =>
    let cs := (PdtVerif.Ctc.cands V bm).eraseDups
    let ok := PdtVerif.Ctc.isTopKB V f w bm k
    let pruned := cs.any (fun p => !k.contains p)
    specGo V fs ks (PdtVerif.Ctc.beamStep V f k bm)
      (acc ++ [(ok, pruned, cs.length, (k.filter (fun p => cs.contains p)).eraseDups.length)])
  | _, _, bm, acc => (bm, acc)

/-! ### the same recursion for WIDE beams / LARGE vocabularies / LONG runs (glue)

`specGo` evaluates the definitions literally: `List.lookup` in the beam for every read, `eraseDups` and
`contains` on the candidate list (quadratic), `isTopKB` with a candidate total recomputed for every pair.
That is fine for the few hundred candidates of the small streams and hopeless for `width · (V + 1)` in the
thousands.  `specStepFast` computes the same five things with hash maps — the beam as a map (first entry of
a prefix wins, like `List.lookup`), the candidate set as a set, every candidate total once — and still calls
the specification's own `stepFn` for every value.  It is cross-checked against `specGo` on every run that is
small enough for both (`specSide`: all the small streams, hundreds of cases per run), never trusted alone. -/
open PdtVerif.Ctc in
def specStepFast (facts : Bool) (V : Nat) (f : Frame) (w : Nat) (k : List (List Nat)) (bm : Beam) :
    Beam × (Bool × Bool × Nat × Nat) × (Rat × Rat) :=
  let hm : Std.HashMap (List Nat) (Rat × Rat) := bm.foldl (fun m e => m.insertIfNew e.1 e.2) {}
  let S : List Nat → Rat × Rat := fun p => hm.getD p (0, 0)
  let cset : Std.HashSet (List Nat) := (cands V bm).foldl (fun s p => s.insert p) {}
  let ncands := cset.size
  let kin := k.filter (fun p => cset.contains p)
  let next : Beam := kin.map (fun p => (p, stepFn V f S p))
  let kinSet : Std.HashSet (List Nat) := kin.foldl (fun s p => s.insert p) {}
  let nkeep := kinSet.size
  let pruned := decide (nkeep < ncands)
  if !facts then (next, (true, pruned, ncands, nkeep), (0, 0)) else
  -- isTopKB, every candidate total computed once
  let tot : List Nat → Rat := fun p => let x := stepFn V f S p; x.1 + x.2
  let kAll : Std.HashSet (List Nat) := k.foldl (fun s p => s.insert p) {}
  let kt := k.map tot
  let rec sorted : List Rat → Bool
    | a :: b :: r => decide (b ≤ a) && sorted (b :: r)
    | _ => true
  -- the largest excess of a dropped candidate's total over the smallest kept total (every total computed once)
  let excess : Rat := match kt with
    | [] => 0
    | x :: r =>
      let m := r.foldl min x
      cset.fold (fun acc p => if kAll.contains p then acc else max acc (tot p - m)) 0
  let best : Bool := decide (excess ≤ 0)
  let ok := kAll.size == k.length && k.all (fun p => cset.contains p)
    && k.length == min w ncands && sorted kt && best
  -- for the tolerance streams: BY HOW MUCH the survivors fail to be the best (0 = they are): that excess / the
  -- largest excess of a later kept total over an earlier one; and the largest kept total (the scale the
  -- harness's tolerance refers to)
  let rec unsorted : List Rat → Rat
    | a :: b :: r => max (b - a) (unsorted (b :: r))
    | _ => 0
  let viol : Rat := max excess (max 0 (unsorted kt))
  (next, (ok, pruned, ncands, nkeep), (viol, kt.foldl max 0))

def specGoFast (facts : Bool) (V : Nat) : List (PdtVerif.Ctc.Frame × Nat) → List (List (List Nat)) → PdtVerif.Ctc.Beam →
    List ((Bool × Bool × Nat × Nat) × (Rat × Rat)) →
    PdtVerif.Ctc.Beam × List ((Bool × Bool × Nat × Nat) × (Rat × Rat))
  | (f, w) :: fs, k :: ks, bm, acc =>
    let r := specStepFast facts V f w k bm
    specGoFast facts V fs ks r.1 (acc ++ [r.2])
  | _, _, bm, acc => (bm, acc)

/-- all prefixes of the given prefixes (each once), shortest first within one prefix -/
def prefixClosure (ps : List (List Nat)) : List (List Nat) :=
  let step := fun (acc : Std.HashSet (List Nat) × List (List Nat)) (q : List Nat) =>
    if acc.1.contains q then acc else (acc.1.insert q, q :: acc.2)
  let r := ps.foldl (fun acc p => (List.range (p.length + 1)).foldl (fun a j => step a (p.take j)) acc) ({}, [])
  r.2.reverse

/-- TRUE MASS of the given prefixes without enumerating alignments: the specification's recursion with the
SAME survivors at every frame, namely all prefixes of the given prefixes.  A prefix-closed set of survivors
loses nothing of its members' mass (the forward recursion of a prefix reads the prefix and its parent only):
theorem `C05_closed_survivors` (`beamRun` with such survivors = `Ctc.exact` = the sum over all alignments,
`C05_forward_eq_mass`).  Cross-checked against the enumeration whenever that is computed. -/
def massDP (V : Nat) (frames : List PdtVerif.Ctc.Frame) (ps : List (List Nat)) : List (List Nat × Rat) :=
  let q := prefixClosure ps
  let bm := (specGoFast false V (frames.map (fun f => (f, 0))) (frames.map (fun _ => q)) PdtVerif.Ctc.beamInit []).1
  let hm : Std.HashMap (List Nat) (Rat × Rat) := bm.foldl (fun m e => m.insertIfNew e.1 e.2) {}
  ps.map (fun p => let x := hm.getD p (0, 0); (p, x.1 + x.2))

/-- TRUE MASS of one prefix by the classical forward algorithm over the POSITIONS of the prefix (for runs of
hundreds of frames, where `massDP` spends its time hashing long prefixes): `nb[j]`, `b[j]` = forward
variables of `p.take j`; one frame is `stepFn` written out for the chain of the prefixes of `p`
(`stay = nb[j] · tok p[j-1]`, `grow = (b[j-1] + [p[j-2] ≠ p[j-1]] · nb[j-1]) · ext (p.take (j-1)) p[j-1]`,
`b'[j] = (nb[j] + b[j]) · blank`).  Glue: cross-checked in `specSide` against `massDP` (theorem-backed) on
every run of moderate length and against the enumeration of all alignments on every small run. -/
def massPos (V : Nat) (frames : List PdtVerif.Ctc.Frame) (fused : Bool) (p : List Nat) : Rat :=
  let pa := p.toArray
  let L := pa.size
  -- the prefixes of `p` (needed only for per-prefix extension scores)
  let pre : Array (List Nat) := if fused then ((List.range (L + 1)).map (fun j => p.take j)).toArray else #[]
  let init : Array Rat × Array Rat := (Array.replicate (L + 1) 0, (Array.replicate (L + 1) 0).set! 0 1)
  let fin := frames.foldl (fun (st : Array Rat × Array Rat) f =>
    let nb := st.1
    let b := st.2
    let nb' := (Array.range (L + 1)).map (fun j =>
      if j = 0 then (0 : Rat) else
        let v := pa.getD (j - 1) 0
        let stay := nb.getD j 0 * f.tok v
        let grow := if v < V then
            (b.getD (j - 1) 0 + (if j ≥ 2 && pa.getD (j - 2) 0 == v then 0 else nb.getD (j - 1) 0))
              * f.ext (if fused then pre.getD (j - 1) [] else []) v
          else 0
        stay + grow)
    let b' := (Array.range (L + 1)).map (fun j => (nb.getD j 0 + b.getD j 0) * f.blank)
    (nb', b')) init
  fin.1.getD L 0 + fin.2.getD L 0

/-- the specification side for given frames: prefix-beam recursion pruned to `keeps` (`beam`), per-frame
facts (`frames`), true mass: of every prefix by enumeration of all alignments (`mass`, when wanted), of the
prefixes `massFor` by the recursion with prefix-closed survivors (`mass_dp`) -/
def specSide (V : Nat) (specFrames : List PdtVerif.Ctc.Frame) (widths : List Nat)
    (keeps : List (List (List Nat))) (beam0 : PdtVerif.Ctc.Beam) (wantMass : Bool)
    (massFor : Option (List (List Nat))) (fused : Bool) (wantTopk : Bool) : Except String Json := do
  -- the definitions, literally, on every run that is small enough (everything but the size classes)
  let literal := V ≤ 3 && widths.all (· ≤ 50) && specFrames.length ≤ 8
  -- `topk_ok` (is the implementation's choice of survivors a legitimate top-K of the candidate totals?) needs the
  -- total of EVERY candidate; the tolerance streams do not use it (there the model's `isTopK` is measured with a
  -- tolerance instead), so the size classes of those streams skip it
  let (beam, infoV) := specGoFast (wantTopk || literal) V (specFrames.zip widths) keeps beam0 []
  let info := infoV.map (·.1)
  if literal then
    let (beam', info') := specGo V (specFrames.zip widths) keeps beam0 []
    if beam' != beam || info' != info then
      throw "internal: the hash-map evaluation of the prefix-beam recursion disagrees with specGo (beamStep / isTopKB)"
  let table := if wantMass then massTable V specFrames else []
  -- cross-check the glue against the definitions on the first entries
  -- (the cross-checks re-enumerate; they are done on the short runs only, where most cases are)
  let small := specFrames.length ≤ 5
  let chk := !small || (table.take 2).all (fun (p, m) => PdtVerif.Ctc.mass V specFrames p == m)
  if !chk then throw "internal: massTable disagrees with Ctc.mass"
  let ex := PdtVerif.Ctc.exact V specFrames
  let chk2 := !small || (table.take 3).all (fun (p, m) => (ex p).1 + (ex p).2 == m)
  if !chk2 then throw "internal: forward variables disagree with alignment enumeration (theorem exact_eq_mass)"
  let dp : Option (List (List Nat × Rat)) := massFor.map (fun ps => ps.map (fun p => (p, massPos V specFrames fused p)))
  -- ... against the recursion with prefix-closed survivors (`C05_closed_survivors`) on runs of moderate length
  match massFor with
  | some ps =>
    if specFrames.length * (prefixClosure ps).length ≤ 1500 then
      if some (massDP V specFrames ps) != dp then
        throw "internal: the forward algorithm over positions disagrees with the recursion with prefix-closed survivors"
  | none => pure ()
  -- the recursion with prefix-closed survivors against the enumeration of all alignments, on every prefix asked for
  match dp with
  | some l =>
    if wantMass then
      let tm : Std.HashMap (List Nat) Rat := table.foldl (fun m e => m.insert e.1 e.2) {}
      if !(l.all (fun (p, m) => tm.getD p 0 == m)) then
        throw "internal: mass by the forward algorithm disagrees with the enumeration of all alignments"
  | none => pure ()
  let massJ := fun (l : List (List Nat × Rat)) =>
    listJ (fun (e : List Nat × Rat) => objJ [("p", prefJ e.1), ("m", ratToJson e.2)]) l
  return objJ [
    ("beam", listJ (fun (e : List Nat × (Rat × Rat)) =>
        objJ [("p", prefJ e.1), ("nb", ratToJson e.2.1), ("b", ratToJson e.2.2)]) beam),
    ("frames", listJ (fun (y : (Bool × Bool × Nat × Nat) × (Rat × Rat)) =>
        let x := y.1
        objJ [("topk_ok", boolJ x.1), ("pruned", boolJ x.2.1), ("ncands", natJ x.2.2.1),
              ("nkeep", natJ x.2.2.2), ("topk_viol", ratToJson y.2.1), ("topk_scale", ratToJson y.2.2),
              ("topk_checked", boolJ (wantTopk || literal))]) infoV),
    ("mass", if wantMass then massJ table else match dp with
      | some l => massJ l
      | none => Json.null),
    ("mass_kind", strJ (if wantMass then "enumeration" else if dp.isSome then "forward" else "none"))]

/-- One batch element. common: {fix, V, width, spec?}; element: {len, frames:[{ext,nonext,blank,sel?}],
init?: state, ext_table?: per frame [[prefix,[row]]..], keeps?: per frame [prefix..], model?: bool (false: the
array model is not run), topk?: bool (false: `topk_ok` of the specification not wanted), mass?: bool (enumeration), mass_for?: [prefix..] (forward algorithm), skip?: true,
lm_factor?: per frame [[prefix,[LM factor per token]]..], mix?: "n/d" | null,
oracle?: {frames: [{tok, blank}..] (the element's valid frames), ext_table?}} →
{model, spec (on the frames of the calls), spec_exact (on the oracle frames, same survivors)}. -/
def c05Elem (fix : Bool) (V width : Nat) (wantSpec : Bool) (c : Json) : Except String Json := do
  -- `skip: true`: an element of a large batch that the harness judges without Lean (a sample goes through)
  if (fieldOpt c "skip").isSome then
    return objJ [("model", Json.null), ("spec", Json.null), ("spec_exact", Json.null)]
  let len ← getNat c "len"
  let frames ← getList parseFrame c "frames"
  let widths ← getList (fun j => pure (frameWidth width j)) c "frames"
  let st0 ← match fieldOpt c "init" with
    | none => pure initState
    | some j => parseState j
  -- `model: false` (the largest size classes): the array model is not run, the element is judged by the
  -- specification alone (survivors `keeps` must be given)
  let runModel := match fieldOpt c "model" with
    | some (.bool b) => b
    | _ => true
  let steps := if runModel then loopStates fix V len 0 st0 (frames.zip widths) else []
  let final := match steps.getLast? with
    | some (s, _) => s
    | none => st0
  let res := finish (widths.getLast?.getD width) final
  let lmJ : Json := match fieldOpt c "lm_h0" with
    | some j => match jsonToNat j with
      | .ok h0 => listJ (listJ natJ)
          (lmStates (st0 :: (steps.map (·.1)).dropLast) (steps.map (·.2)) [h0])
      | .error _ => Json.null
    | none => Json.null
  let mix : Option Rat ← match fieldOpt c "mix" with
    | none => pure none
    | some .null => pure none
    | some j => some <$> jsonToRat j
  let extJ : Json ← match fieldOpt c "lm_factor" with
    | none => pure Json.null
    | some j => do
      let tabs ← jsonToList (jsonToList parseFactorRow) j
      pure (listJ (listJ (listJ xrToJson)) (lmExts V mix (st0 :: (steps.map (·.1)).dropLast) frames tabs))
  let modelJ := if !runModel then Json.null else objJ [
    ("lm_states", lmJ),
    ("lm_ext", extJ),
    ("result", objJ [("prefixes", listJ prefJ res.prefixes), ("lens", listJ natJ res.lens),
                     ("probs", listJ xrToJson res.probs)]),
    ("steps", Json.arr ((steps.zip widths).map (fun ((s, o), w) => stepJson V w s o)).toArray)]
  if !wantSpec then
    return objJ [("model", modelJ), ("spec", Json.null)]
  -- specification: only the first `len` frames belong to this element
  let used := frames.take len
  let tabs : List (List (List Nat × List Rat)) ← match fieldOpt c "ext_table" with
    | none => pure (used.map (fun _ => []))
    | some j => parseExtTables j
  let specFrames ← (used.zip (tabs ++ List.replicate used.length [])).mapM (fun (f, tab) => do
    let tok ← f.nonext.mapM xrRat
    let bl ← xrRat f.blank
    pure (mkFrame V tok bl tab))
  -- survivors per frame: given by the harness (read off the implementation's trace), else
  -- the prefixes of the model's slots with finite total
  let validPrefixes := fun (st : State) =>
    ((List.range st.nb.length).filter (fun k => (getX st.nb k + getX st.b k).isFin)).map
      (fun k => (st.y.getD k []).take (getN st.lens k))
  let keeps ← match fieldOpt c "keeps" with
    | none => pure ((steps.take len).map (fun (s, _) => validPrefixes s))
    | some j => jsonToList (jsonToList (jsonToList jsonToNat)) j
  -- a run that starts from a caller-given state is compared with the recursion started from the map that
  -- state stands for; the alignment enumeration (true mass) only makes sense from the initial state
  let fromInit := (fieldOpt c "init").isSome
  let beam0 := if fromInit then beamOfState st0 else PdtVerif.Ctc.beamInit
  let wantMass := !fromInit && (match fieldOpt c "mass" with
    | some (.bool b) => b
    | _ => true)
  let massFor : Option (List (List Nat)) ← match fieldOpt c "mass_for" with
    | none => pure none
    | some .null => pure none
    | some j => if fromInit then pure none else some <$> jsonToList (jsonToList jsonToNat) j
  let wantTopk := match fieldOpt c "topk" with
    | some (.bool b) => b
    | _ => true
  let specJ ← specSide V specFrames (widths.take len) keeps beam0 wantMass massFor (fieldOpt c "ext_table").isSome wantTopk
  -- the same specification on the frames the harness computed from the CALLER'S scores (exact softmax /
  -- fusion of the logits, no torch): `oracle: {frames: [{tok, blank}..], ext_table?}`, same survivors
  let exactJ ← match fieldOpt c "oracle" with
    | none => pure Json.null
    | some o => do
      let ofr ← getList (fun j => do
        let tok ← getList jsonToRat j "tok"
        let bl ← field j "blank" >>= jsonToRat
        pure (tok, bl)) o "frames"
      let otabs : List (List (List Nat × List Rat)) ← match fieldOpt o "ext_table" with
        | none => pure (ofr.map (fun _ => []))
        | some j => parseExtTables j
      let oFrames := (ofr.zip (otabs ++ List.replicate ofr.length [])).map
        (fun ((tok, bl), tab) => mkFrame V tok bl tab)
      if oFrames.length != specFrames.length then throw "oracle: one frame per valid frame of the element expected"
      specSide V oFrames (widths.take len) keeps beam0 wantMass massFor (fieldOpt o "ext_table").isSome wantTopk
  return objJ [("model", modelJ), ("spec", specJ), ("spec_exact", exactJ)]

/-- case: {fix, V, width, spec?, elements: [element..]} → {"elements": [{model, spec}..]}. -/
def c05Case : Handler := fun c => do
  let fix ← getBool c "fix"
  let V ← getNat c "V"
  let width ← getNat c "width"
  let wantSpec := match fieldOpt c "spec" with
    | some (.bool b) => b
    | _ => true
  let els ← getList (fun e => c05Elem fix V width wantSpec e) c "elements"
  return objJ [("elements", Json.arr els.toArray)]

def main : IO Unit := Proto.run [("c05.case", c05Case)]
