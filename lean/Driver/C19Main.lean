import Driver.Proto
import PdtVerif.Model.Estimators
import PdtVerif.Spec.Estimators
/-! Driver for C19: estimators over `Rat` (exact), relaxed-distribution formulas over `Float`
(exact float results are returned as rationals), combinatorics over `Nat`/`Rat`. -/
open Lean Proto PdtVerif.Estimators

def ratJ := ratToJson
def dualJ (d : Dual Rat) : Json := Json.arr #[ratJ d.val, ratJ d.grad]

/-- several gradient coordinates: `[val, [g_0, g_1, ..]]` -/
def multiJ (ds : List (Dual Rat)) (v0 : Rat) : Json :=
  Json.arr #[ratJ ((ds.head?.map (·.val)).getD v0), listJ ratJ (ds.map (·.grad))]

def getRatD (j : Json) (k : String) (d : Rat) : Except String Rat :=
  match fieldOpt j k with
  | none => pure d
  | some v => jsonToRat v

/-- points: [{p, dp:[..], f, fg?, c?, cg?, lv?}] -> for each gradient coordinate the list of `Pt`. -/
def parsePts (c : Json) : Except String (Nat × List (List (Pt Rat))) := do
  let pts ← getList pure c "points"
  let K ← getNat c "K"
  let rows ← pts.mapM fun pj => do
    let p ← getRat pj "p"
    let dp ← getRatList pj "dp"
    if dp.length != K then throw "dp length != K"
    let f ← getRat pj "f"
    let fg ← getRatD pj "fg" 0
    let cv ← getRatD pj "c" 0
    let cg ← getRatD pj "cg" 0
    let lv ← getRatD pj "lv" 0
    pure (p, dp, f, fg, cv, cg, lv)
  let perK := (List.range K).map fun j =>
    rows.map fun (p, dp, f, fg, cv, cg, lv) => (⟨p, dp.getD j 0, ⟨f, fg⟩, ⟨cv, cg⟩, lv⟩ : Pt Rat)
  pure (K, perK)

def transpose (K : Nat) (perK : List (List (Dual Rat))) (n : Nat) : List (List (Dual Rat)) :=
  (List.range n).map fun i => (List.range K).map fun j => (perK.getD j []).getD i 0

/-- `c19.direct`: {N, K, use_cv, cv_mean_detached, points}. Reply: per_tuple (order of
`tuples N Ω`), mean over Ω^N of the model, exact expectation (spec). -/
def hDirect : Handler := fun c => do
  let N ← getNat c "N"
  let useCv ← getBool c "use_cv"
  let det ← getBool c "cv_mean_detached"
  let (K, perK) ← parsePts c
  let run := fun (Ω : List (Pt Rat)) =>
    let μ : Dual Rat := expectD Ω (·.c)
    let μ' := if det then μ.detach else μ
    let cvm : Option (Dual Rat) := if useCv then some μ' else none
    let G := fun (t : List (Pt Rat)) => directEstimate (t.map (Pt.directSample useCv)) cvm
    ((tuples N Ω).map G, meanOver (·.p) N Ω G, expectD Ω (·.f), expectD Ω (·.c))
  let res := perK.map run
  let nT := ((res.head?.map (·.1.length)).getD 0)
  pure (objJ [
    ("per_tuple", listJ (fun ds => multiJ ds 0) (transpose K (res.map (·.1)) nT)),
    ("mean", multiJ (res.map (·.2.1)) 0),
    ("exact", multiJ (res.map (·.2.2.1)) 0),
    ("exact_cv", multiJ (res.map (·.2.2.2)) 0)])

/-- `c19.is`: {N, K, points: [{q, dq, p, dp:[..], f}]} -/
def hIS : Handler := fun c => do
  let N ← getNat c "N"
  let K ← getNat c "K"
  let pts ← getList pure c "points"
  let rows ← pts.mapM fun pj => do
    let q ← getRat pj "q"
    let dq ← getRatD pj "dq" 0
    let p ← getRat pj "p"
    let dp ← getRatList pj "dp"
    if dp.length != K then throw "dp length != K"
    let f ← getRat pj "f"
    pure (q, dq, p, dp, f)
  let res := (List.range K).map fun j =>
    let Ω : List (ISPt Rat) := rows.map fun (q, dq, p, dp, f) => ⟨q, dq, ⟨p, dp.getD j 0⟩, ⟨f, 0⟩⟩
    let G := fun (t : List (ISPt Rat)) => isEstimate (t.map ISPt.sample)
    ((tuples N Ω).map G, meanOver (·.q) N Ω G, Dual.sum (Ω.map fun b => b.p * b.f))
  let nT := ((res.head?.map (·.1.length)).getD 0)
  pure (objJ [
    ("per_tuple", listJ (fun ds => multiJ ds 0) (transpose K (res.map (·.1)) nT)),
    ("mean", multiJ (res.map (·.2.1)) 0),
    ("exact", multiJ (res.map (·.2.2)) 0)])

/-- `c19.enumerate`: {K, points: [{p, dp, f}]} -/
def hEnumerate : Handler := fun c => do
  let (_, perK) ← parsePts c
  let res := perK.map fun Ω =>
    (enumerateEstimate (Ω.map fun b => (b.f, b.pD)), expectD Ω (·.f))
  pure (objJ [("model", multiJ (res.map (·.1)) 0), ("exact", multiJ (res.map (·.2)) 0)])

def jsonToOptRat (j : Json) : Except String (Option Rat) := jsonToOption jsonToRat j

/-- `c19.imh`: {ratios:[..], f:[..], in_support:[..], N, burn_in, tries, init: null|idx,
draws:[idx..], lus:[rat|null..]} -/
def hIMH : Handler := fun c => do
  let ratios ← getRatList c "ratios"
  let fs ← getRatList c "f"
  let sup ← getList jsonToBool c "in_support"
  let N ← getNat c "N"
  let burn ← getNat c "burn_in"
  let tries ← getNat c "tries"
  let init ← getOptNat c "init"
  let draws ← getNatList c "draws"
  let lus ← getList jsonToOptRat c "lus"
  let r := imhEstimate (fun i => ratios.getD i 0) (fun i => fs.getD i 0) (fun i => sup.getD i false)
    N burn tries init draws lus
  -- the same call as the list of recorded values f(b_t) (C19_imh_values: `v` is their mean)
  let vals := imhValues (fun i => ratios.getD i 0) (fun i => fs.getD i 0) (fun i => sup.getD i false)
    N burn tries init draws lus
  pure (objJ [("v", optJ ratJ r), ("recorded", optJ (listJ ratJ) vals)])

/-- `c19.relax`: combination logic of RelaxEstimator / StraightThroughEstimator on per-sample
dual numbers. {samples: [{f, cvz:[v,g], cvzcond:[v,g], logp:[v,g]}]} -/
def getDual (j : Json) (k : String) : Except String (Dual Rat) := do
  let l ← getRatList j k
  match l with
  | [v, g] => pure ⟨v, g⟩
  | [v] => pure ⟨v, 0⟩
  | _ => throw s!"{k}: expected [val, grad]"

def hRelax : Handler := fun c => do
  let ss ← getList pure c "samples"
  let rs ← ss.mapM fun s => do
    pure (⟨← getDual s "f", ← getDual s "cvz", ← getDual s "cvzcond", ← getDual s "logp"⟩ : RelaxSample Rat)
  pure (objJ [("relax", dualJ (relaxEstimate rs)), ("st", dualJ (stEstimate (rs.map (·.f))))])

/-! ### combinatorics -/

def hSrswor : Handler := fun c => do
  let elems ← getList pure c "elems"
  let rs ← elems.mapM fun e => do
    let total ← getNat e "total"
    let given ← getNat e "given"
    let outs ← getRatList e "outcomes"
    match srswor total given outs with
    | .error => pure (objJ [("error", boolJ true)])
    | .ok steps => pure (objJ [
        ("ps", listJ ratJ (steps.map (·.1))), ("bs", listJ ratJ (steps.map (·.2))),
        ("consistent", boolJ (steps.all bernoulliConsistent))])
  pure (objJ [("elems", Json.arr rs.toArray)])

def hBinom : Handler := fun c => do
  let L ← getNat c "L"
  let qs ← getList (jsonToList jsonToNat) c "queries"
  let rs ← qs.mapM fun q => match q with
    | [n, k] => pure (natJ (binomialCoefficient L n k))
    | _ => throw "query must be [n, k]"
  pure (objJ [("binom", Json.arr rs.toArray), ("branch", strJ (if 20 < L then "rec" else "fact"))])

def hEnumVocab : Handler := fun c => do
  let n ← getNat c "length"
  let V ← getNat c "V"
  pure (objJ [("support", listJ (listJ natJ) (enumVocab n V))])

def hEnumCard : Handler := fun c => do
  let n ← getNat c "length"
  let k ← getNat c "count"
  pure (objJ [("support", listJ (listJ natJ) (enumCard n k))])

def hEnumCardTensor : Handler := fun c => do
  let lmax ← getNat c "lmax"
  let qs ← getList (jsonToList jsonToNat) c "queries"
  let rs ← qs.mapM fun q => match q with
    | [n, k] => pure (listJ (listJ natJ) (enumCardTensor lmax n k))
    | _ => throw "query must be [length, count]"
  pure (objJ [("supports", Json.arr rs.toArray)])

/-! ### relaxed distributions over Float -/

def floatToRat? (x : Float) : Option Rat :=
  if x.isNaN || x.isInf then none else
  let (m, e) := x.frExp
  let M : Int := (m * 9007199254740992.0).toInt64.toInt
  let ex : Int := e - 53
  some (if ex ≥ 0 then ((M * (2 : Int) ^ ex.toNat : Int) : Rat) else mkRat M (2 ^ (-ex).toNat))

def floatJ (x : Float) : Json :=
  match floatToRat? x with
  | some q => ratJ q
  | none => strJ (if x.isNaN then "nan" else if x > 0 then "inf" else "-inf")

def ratToFloat (q : Rat) : Float := Float.ofInt q.num / Float.ofNat q.den

instance : Zero Float := ⟨0.0⟩
instance : One Float := ⟨1.0⟩

def TF : Transc Float := ⟨Float.exp, Float.log⟩

def getF (j : Json) (k : String) : Except String Float := ratToFloat <$> getRat j k
def getFL (j : Json) (k : String) : Except String (List Float) := (·.map ratToFloat) <$> getRatList j k

/-- a float given as a rational string or one of `"inf"`, `"-inf"`, `"nan"` (logits of a
zero-probability class are `-inf`) -/
def jsonToFloatX (j : Json) : Except String Float :=
  match j with
  | Json.str "inf" => pure (1.0 / 0.0)
  | Json.str "-inf" => pure (-1.0 / 0.0)
  | Json.str "nan" => pure (0.0 / 0.0)
  | _ => ratToFloat <$> jsonToRat j
def getFX (j : Json) (k : String) : Except String Float := field j k >>= jsonToFloatX
def getFXL (j : Json) (k : String) : Except String (List Float) := getList jsonToFloatX j k
def getFXLL (j : Json) (k : String) : Except String (List (List Float)) :=
  getList (jsonToList jsonToFloatX) j k

def getCtor (j : Json) (k : String) : Except String Ctor := do
  match (← getStr j k) with
  | "probs" => pure .probs
  | "logits" => pure .logits
  | s => throw s!"{k}: unknown construction {s}"

def paramsJ (P : RelaxedParams Float) : Json :=
  objJ [("batch_shape", listJ natJ P.batchShape), ("event_shape", listJ natJ P.eventShape),
        ("probs", listJ floatJ P.probs), ("logits", listJ floatJ P.logits)]

/-- an item of a history of a relaxed distribution object: `"probs"` / `"logits"` (a read of that
attribute) or a list of naturals (`expand` by these new leading axes) -/
def jsonToObjOp (j : Json) : Except String ObjOp :=
  match j with
  | Json.str "probs" => pure .probs
  | Json.str "logits" => pure .logits
  | _ => ObjOp.expand <$> jsonToList jsonToNat j

/-- `hist` (optional): the operations run on the object before it is observed -/
def getHistory (c : Json) : Except String (Option (List ObjOp)) :=
  match fieldOpt c "hist" with
  | none => pure none
  | some j => some <$> jsonToList jsonToObjOp j

/-- formulas of LogisticBernoulli for one variable and both `b`.  `p`, `u`, `v` are RAW
(`self.probs` and the uniform draws before `clamp_probs`): the clamps are part of the model
(`lbRsampleC`, `lbCsampleC`); `eps` = `finfo(dtype).eps`. -/
def bernElem (l p u v eps : Float) : Json :=
  let z := lbRsampleC TF eps l u
  let b := lbThreshold z
  let forB := fun (bb : Float) =>
    let zc := lbCsampleC TF eps p v bb
    objJ [("zc", floatJ zc), ("thr", floatJ (lbThreshold zc)),
          ("zc_spec", floatJ (lbCsampleSpec TF eps l (clampProbs eps v) bb)),
          ("clog", optJ floatJ (lbClogProb TF l zc bb)), ("tlog", floatJ (lbTlogProb TF l bb)),
          ("logprob_zc", floatJ (lbLogProb TF l zc))]
  objJ [("z", floatJ z), ("b", floatJ b), ("logprob", floatJ (lbLogProb TF l z)),
    ("tlog", floatJ (lbTlogProb TF l b)), ("clog", optJ floatJ (lbClogProb TF l z b)),
    ("c0", forB 0.0), ("c1", forB 1.0)]

/-- `c19.bern`: {logit, p, u, v, eps} -/
def hBern : Handler := fun c => do
  pure (bernElem (← getFX c "logit") (← getF c "p") (← getF c "u") (← getF c "v") (← getF c "eps"))

/-- `c19.bern_nd`: a whole LogisticBernoulli tensor. {ctor, shape, data (the tensor handed to the
constructor), eps, logits, probs (the implementation's own derived tensors, flat), us, vs (flat,
shape sample ++ batch)}.  Reply: the model's construction (`lbParams`: shapes and both
attributes), per-entry formulas with the parameter picked by the model's broadcasting rule, and
the tensor-level `rsample` / `csample(1)` / `tlog_prob(1)`. -/
def hBernNd : Handler := fun c => do
  let ctor ← getCtor c "ctor"
  let shape ← getNatList c "shape"
  let data ← getFXL c "data"
  let eps ← getF c "eps"
  let ls ← getFXL c "logits"
  let ps ← getFXL c "probs"
  let us ← getFL c "us"
  let vs ← getFL c "vs"
  -- with a history: the OBJECT model (which attributes are in `__dict__`, `expand` as the code does
  -- it), read at the end; without: the value model
  let pre ← getNatList c "expand"
  let P := match (← getHistory c) with
    | none => (lbParams TF eps ctor shape data).expand pre
    | some h => ((lbObj ctor shape data).run (lbConv TF eps) h).params (lbConv TF eps)
  let Pi : RelaxedParams Float := ⟨P.batchShape, P.eventShape, ps, ls⟩
  let B := prodL P.batchShape
  let elems := (us.zip vs).zipIdx.map fun uvn =>
    bernElem (paramAt ls B uvn.2) (paramAt ps B uvn.2) uvn.1.1 uvn.1.2 eps
  let ones := us.map fun _ => (1.0 : Float)
  pure (objJ [("params", paramsJ P), ("elems", Json.arr elems.toArray),
    ("zT", listJ floatJ (lbRsampleT TF eps Pi us)),
    ("zc1T", listJ floatJ (lbCsampleT TF eps Pi vs ones)),
    ("tlog1T", listJ floatJ (lbTlogProbT TF Pi ones))])

/-- formulas of GumbelOneHotCategorical for one row; `probs`, `us`, `vs` raw (see `bernElem`). -/
def gumbelElem (ls ps us vs : List Float) (k : Nat) (eps : Float) : Json :=
  let z := gRsampleC TF eps ls us
  let b := gThreshold z
  let V := ls.length
  let bk : List Float := oneHot k V
  let zc := gCsampleC TF eps ps vs bk
  objJ [("z", listJ floatJ z), ("b", listJ floatJ b), ("logprob", floatJ (gLogProb TF ls z)),
    ("tlog", floatJ (gTlogProb ls b)), ("clog", optJ floatJ (gClogProb TF ls z b)),
    ("zc", listJ floatJ zc), ("thr_zc", listJ floatJ (gThreshold zc)),
    ("zc_spec", listJ floatJ (gCsampleSpec TF eps ls (vs.map (clampProbs eps)) bk)),
    ("clog_zc", optJ floatJ (gClogProb TF ls zc bk)), ("tlog_k", floatJ (gTlogProb ls bk)),
    ("tlog_all", listJ floatJ ((List.range V).map fun j => gTlogProb ls (oneHot j V : List Float))),
    ("logprob_zc", floatJ (gLogProb TF ls zc))]

/-- `c19.gumbel`: {logits, probs, us, vs, k, eps} -/
def hGumbel : Handler := fun c => do
  pure (gumbelElem (← getFXL c "logits") (← getFXL c "probs") (← getFL c "us") (← getFL c "vs")
    (← getNat c "k") (← getF c "eps"))

/-- `c19.gumbel_nd`: a whole GumbelOneHotCategorical tensor. {ctor, shape, data, eps, logits,
probs (implementation's derived tensors, flat), us, vs (rows of the tensors of shape
sample ++ batch ++ [V]), ks (conditioning class per row)}. -/
def hGumbelNd : Handler := fun c => do
  let ctor ← getCtor c "ctor"
  let shape ← getNatList c "shape"
  let data ← getFXL c "data"
  let eps ← getF c "eps"
  let ls ← getFXL c "logits"
  let ps ← getFXL c "probs"
  let us ← getFXLL c "us"
  let vs ← getFXLL c "vs"
  let ks ← getNatList c "ks"
  let pre ← getNatList c "expand"
  let P := match (← getHistory c) with
    | none => (gParams TF eps ctor shape data).expand pre
    | some h => ((gObj TF ctor shape data).run (gConv TF eps (shape.getLastD 1)) h).params
        (gConv TF eps (shape.getLastD 1))
  let Pi : RelaxedParams Float := ⟨P.batchShape, P.eventShape, ps, ls⟩
  let V := P.eventShape.headD 1
  let B := prodL P.batchShape
  let elems := ((us.zip vs).zip ks).zipIdx.map fun x =>
    gumbelElem (paramRowAt ls V B x.2) (paramRowAt ps V B x.2) x.1.1.1 x.1.1.2 x.1.2 eps
  let bks : List (List Float) := ks.map fun k => oneHot k V
  pure (objJ [("params", paramsJ P), ("elems", Json.arr elems.toArray),
    ("zT", listJ (listJ floatJ) (gRsampleT TF eps Pi us)),
    ("zcT", listJ (listJ floatJ) (gCsampleT TF eps Pi vs bks)),
    ("tlogT", listJ floatJ (gTlogProbT Pi bks))])

/-- `c19.srswor_prob`: {out_size, total, given} -> exp(log_prob) of the SRSWOR distribution
(exact), the number of rows of the cardinality filter, and `binomial_coefficient`. -/
def hSrsworProb : Handler := fun c => do
  let o ← getNat c "out_size"
  let t ← getNat c "total"
  let g ← getNat c "given"
  let n := (enumCard t g).length
  pure (objJ [("prob", ratJ (srsworProb o t g)), ("n_support", natJ n),
    ("binom", natJ (binomialCoefficient t t g)),
    ("support_times_prob", ratJ ((n : Rat) * srsworProb o t g))])

def jsonToSrsworOp (j : Json) : Except String SrsworOp :=
  match j with
  | Json.str "partition" => pure .partition
  | _ => SrsworOp.expand <$> jsonToList jsonToNat j

/-- `c19.srswor_obj`: the SRSWOR distribution OBJECT after a history. {shape, out_size, total, given
(flat, broadcast to `shape`), hist: ["partition" | [leading axes..] ..]} -> batch shape, counts and
`exp(log_prob)` per batch element of the object at the end -/
def hSrsworObj : Handler := fun c => do
  let o := (srsworObj (← getNatList c "shape") (← getNat c "out_size") (← getNatList c "total")
    (← getNatList c "given")).run (← getList jsonToSrsworOp c "hist")
  pure (objJ [("batch_shape", listJ natJ o.batchShape), ("total", listJ natJ o.total),
    ("given", listJ natJ o.given), ("probs", listJ ratJ o.probs),
    ("cached", boolJ o.partition?.isSome)])

/-- `c19.imh_support`: a density that vanishes on part of the proposal's support.
{ratios:[rat|null ..] (null = -inf), f:[..], burn_in, init: idx (inside the support), draws:[idx..],
lus:[rat|null..]} -> for the repaired and the pinned book-keeping: chain states, recorded values, estimate. -/
def hIMHSupport : Handler := fun c => do
  let ratios ← getList jsonToOptRat c "ratios"
  let fs ← getRatList c "f"
  let burn ← getNat c "burn_in"
  let init ← getNat c "init"
  let draws ← getNatList c "draws"
  let lus ← getList jsonToOptRat c "lus"
  let ratio : Nat → Option Rat := fun i => (ratios.getD i none)
  match ratio init with
  | none => throw "init outside the density's support"
  | some r0 =>
    if lus.length < draws.length then throw "fewer uniforms than draws" else
    if draws.length ≤ burn then throw "burn_in >= mc_samples" else
    let steps := draws.zip (lus.take draws.length)
    let one := fun (poison : Bool) =>
      let chain := imhChainS poison ratio init (.fin r0) steps
      let rec_ := imhRecordedS poison ratio (fun i => fs.getD i 0) burn init r0 steps
      objJ [("chain", listJ natJ chain), ("recorded", listJ ratJ rec_),
        ("v", ratJ (rec_.foldr (· + ·) 0 / ((draws.length - burn : Nat) : Rat)))]
    pure (objJ [("fixed", one false), ("pinned", one true)])

/-! ### the estimator OBJECT: a history of assignments and calls (sixth round) -/

/-- `c19.life_is`: an ImportanceSamplingEstimator object with a history.
{N, K, points: [{q, dq, p, dp:[..], f, q0, p0, f0}]  (`*0`: the alternative the object may be CONSTRUCTED
with), ctor: {mc_samples, func, density, proposal (true = the alternative), self_normalize, is_log},
warm (calls before the assignments), set: [attribute names assigned to their final values]}.
The history is: construction, `warm` calls on the first tuple, the assignments, then one call per
tuple of `tuples N Ω` on the SAME object.  Reply as `c19.is` (per_tuple = the results of those last
calls), computed by `estRun isCall`. -/
def hLifeIS : Handler := fun c => do
  let N ← getNat c "N"
  let K ← getNat c "K"
  let pts ← getList pure c "points"
  let ct ← field c "ctor"
  let n0 ← getNat ct "mc_samples"
  let (af, ad, ap) := (← getBool ct "func", ← getBool ct "density", ← getBool ct "proposal")
  let (sn0, lg0) := (← getBool ct "self_normalize", ← getBool ct "is_log")
  let warm ← getNat c "warm"
  let sets ← getList jsonToStr c "set"
  let rows ← pts.mapM fun pj => do
    let dp ← getRatList pj "dp"
    if dp.length != K then throw "dp length != K"
    pure (← getRat pj "q", ← getRatD pj "dq" 0, ← getRat pj "p", dp, ← getRat pj "f",
          ← getRat pj "q0", ← getRat pj "p0", ← getRat pj "f0")
  let M := rows.length
  let idx := List.range M
  let res ← (List.range K).mapM fun j => do
    let tab {β : Type} (g : (Rat × Rat × Rat × List Rat × Rat × Rat × Rat × Rat) → β) (d : β) : Nat → β :=
      fun i => ((rows.map g)[i]?).getD d
    let fF : Nat → Dual Rat := tab (fun r => ⟨r.2.2.2.2.1, 0⟩) 0
    let fA : Nat → Dual Rat := tab (fun r => ⟨r.2.2.2.2.2.2.2, 0⟩) 0
    let pF : Nat → Dual Rat := tab (fun r => ⟨r.2.2.1, r.2.2.2.1.getD j 0⟩) 0
    let pA : Nat → Dual Rat := tab (fun r => ⟨r.2.2.2.2.2.2.1, 0⟩) 0
    let qF : Nat → Dual Rat := tab (fun r => ⟨r.1, r.2.1⟩) 0
    let qA : Nat → Dual Rat := tab (fun r => ⟨r.2.2.2.2.2.1, 0⟩) 0
    let a0 : ISAttrs Rat Nat := ⟨n0, if af then fA else fF, if ad then pA else pF, if ap then qA else qF, sn0, lg0⟩
    let upd : String → Except String (ISAttrs Rat Nat → ISAttrs Rat Nat) := fun nm =>
      match nm with
      | "mc_samples" => pure fun a => { a with mcSamples := N }
      | "func" => pure fun a => { a with func := fF }
      | "density" => pure fun a => { a with density := pF }
      | "proposal" => pure fun a => { a with proposal := qF }
      | "self_normalize" => pure fun a => { a with selfNormalize := false }
      | "is_log" => pure fun a => { a with isLog := false }
      | s => throw s!"c19.life_is: unknown attribute {s}"
    let us ← sets.mapM upd
    let ts := tuples N idx
    let hist : List (EstOp (ISAttrs Rat Nat) (List Nat)) :=
      (List.replicate warm (EstOp.call (ts.headD []))) ++ us.map EstOp.set ++ ts.map EstOp.call
    let out := (estRun isCall a0 hist).2.drop warm
    let vals ← out.mapM fun r => match r with
      | some v => pure v
      | none => throw "c19.life_is: a call after the assignments is outside the modelled mode"
    let Ω : List (ISPt Rat) := rows.map fun r => ⟨r.1, r.2.1, ⟨r.2.2.1, r.2.2.2.1.getD j 0⟩, ⟨r.2.2.2.2.1, 0⟩⟩
    let wq := fun (i : Nat) => (qF i).val
    let mean := Dual.sum ((ts.zip vals).map fun tv => Dual.smul (weight wq tv.1) tv.2)
    pure (vals, mean, Dual.sum (Ω.map fun b => b.p * b.f))
  let nT := ((res.head?.map (·.1.length)).getD 0)
  pure (objJ [
    ("per_tuple", listJ (fun ds => multiJ ds 0) (transpose K (res.map (·.1)) nT)),
    ("mean", multiJ (res.map (·.2.1)) 0),
    ("exact", multiJ (res.map (·.2.2)) 0)])

/-- `c19.life_imh`: an IndependentMetropolisHastingsEstimator object with a history.  The fields of
`c19.imh` (the attribute values in force at the observed call, its draws and uniforms) plus
{ratios0, f0, in_support0 (the alternatives), ctor: {mc_samples, burn_in, tries, init, ratio, func
(true = the alternative), is_log}, is_log (in force at the observed call), warm, warm_draw, warm_lu,
set: [names], calls (1 or 2: the observed call is the last)}. -/
def hLifeIMH : Handler := fun c => do
  let ratios ← getRatList c "ratios"
  let fs ← getRatList c "f"
  let sup ← getList jsonToBool c "in_support"
  let N ← getNat c "N"
  let burn ← getNat c "burn_in"
  let tries ← getNat c "tries"
  let init ← getOptNat c "init"
  let draws ← getNatList c "draws"
  let lus ← getList jsonToOptRat c "lus"
  let ratios0 ← getRatList c "ratios0"
  let fs0 ← getRatList c "f0"
  let sup0 ← getList jsonToBool c "in_support0"
  let ct ← field c "ctor"
  let warm ← getNat c "warm"
  let wd ← getNat c "warm_draw"
  let wl ← getRat c "warm_lu"
  let sets ← getList jsonToStr c "set"
  let calls ← getNat c "calls"
  let lgF ← getBool c "is_log"
  let tabR (l : List Rat) : Nat → Rat := fun i => l.getD i 0
  let tabB (l : List Bool) : Nat → Bool := fun i => l.getD i false
  let ar ← getBool ct "ratio"
  let af ← getBool ct "func"
  let a0 : IMHAttrs Rat Nat := ⟨← getNat ct "mc_samples", ← getNat ct "burn_in", ← getNat ct "tries",
    if af then tabR fs0 else tabR fs, if ar then tabR ratios0 else tabR ratios,
    if ar then tabB sup0 else tabB sup, ← getOptNat ct "init", ← getBool ct "is_log"⟩
  let upd : String → Except String (IMHAttrs Rat Nat → IMHAttrs Rat Nat) := fun nm =>
    match nm with
    | "mc_samples" => pure fun a => { a with mcSamples := N }
    | "burn_in" => pure fun a => { a with burnIn := burn }
    | "initial_sample_tries" => pure fun a => { a with tries := tries }
    | "initial_sample" => pure fun a => { a with init := init }
    | "func" => pure fun a => { a with func := tabR fs }
    | "density" => pure fun a => { a with ratio := tabR ratios, inSupport := tabB sup }
    | "proposal" => pure fun a => { a with ratio := tabR ratios, inSupport := tabB sup }
    | "is_log" => pure fun a => { a with isLog := lgF }
    | s => throw s!"c19.life_imh: unknown attribute {s}"
  let us ← sets.mapM upd
  let wcall : EstOp (IMHAttrs Rat Nat) (List Nat × List (Option Rat)) :=
    .call (List.replicate 16 wd, List.replicate 16 (some wl))
  let hist := List.replicate warm wcall ++ us.map EstOp.set ++ List.replicate calls (.call (draws, lus))
  let run := estRun imhCall a0 hist
  let a := run.1
  let vals := imhValues a.ratio a.func a.inSupport a.mcSamples a.burnIn a.tries a.init draws lus
  pure (objJ [("v", optJ ratJ (run.2.getLast?.getD none)), ("recorded", optJ (listJ ratJ) vals)])

def handlers : List (String × Handler) := [
  ("c19.direct", hDirect), ("c19.is", hIS), ("c19.enumerate", hEnumerate), ("c19.imh", hIMH),
  ("c19.imh_support", hIMHSupport), ("c19.life_is", hLifeIS), ("c19.life_imh", hLifeIMH),
  ("c19.relax", hRelax), ("c19.srswor", hSrswor), ("c19.binom", hBinom),
  ("c19.enum_vocab", hEnumVocab), ("c19.enum_card", hEnumCard),
  ("c19.enum_card_tensor", hEnumCardTensor), ("c19.bern", hBern), ("c19.gumbel", hGumbel),
  ("c19.bern_nd", hBernNd), ("c19.gumbel_nd", hGumbelNd),
  ("c19.srswor_prob", hSrsworProb), ("c19.srswor_obj", hSrsworObj)]

/-- `c19.multi`: {reqs: [{op, case}, ..]} -> {replies: [..]} — the elements of a proposal with a
batch shape are independent one-variable problems: one model run per element. -/
def hMulti : Handler := fun c => do
  let reqs ← getList pure c "reqs"
  let rs ← reqs.mapM fun r => do
    let op ← getStr r "op"
    match handlers.lookup op with
    | some h => h (← field r "case")
    | none => throw s!"c19.multi: unknown op {op}"
  pure (objJ [("replies", Json.arr rs.toArray)])

def main : IO Unit := Proto.run (("c19.multi", hMulti) :: handlers)
