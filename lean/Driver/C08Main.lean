import Driver.Proto
import PdtVerif.Model.SpecAugment
import PdtVerif.Spec.SpecAugment
/-! Driver for C08: SpecAugment draw / apply / 1-D warp grid on one batch element. -/
open Lean Proto PdtVerif.SpecAugment

def parseCfg (c : Json) : Except String Cfg := do
  pure { maxTimeWarp := ← getRat c "max_time_warp", maxFreqWarp := ← getRat c "max_freq_warp",
         maxTimeMask := ← getNat c "max_time_mask", maxFreqMask := ← getNat c "max_freq_mask",
         maxTimeMaskProp := ← getRat c "max_time_mask_proportion",
         numTimeMask := ← getNat c "num_time_mask",
         numTimeMaskProp := ← getRat c "num_time_mask_proportion",
         numFreqMask := ← getNat c "num_freq_mask", eps := ← getRat c "eps" }

def parseDraws (u : Json) : Except String Draws := do
  pure { uw0 := ← getRat u "w0", uw := ← getRat u "w", uv0 := ← getRat u "v0", uv := ← getRat u "v",
         ut := ← getRatList u "t", ut0 := ← getRatList u "t0",
         uf := ← getRatList u "f", uf0 := ← getRatList u "f0" }

def pairJ (p : Rat × Rat) : Json := Json.arr #[ratToJson p.1, ratToJson p.2]
def maskJ (m : Int × Int) : Json := Json.arr #[intJ m.1, intJ m.2]

def parseMask (j : Json) : Except String (Int × Int) := do
  match ← jsonToList jsonToInt j with
  | [a, b] => pure (a, b)
  | _ => throw "mask must be [start, width]"

def parseWarp (j : Json) (k : String) : Except String (Option (Rat × Rat)) :=
  match fieldOpt j k with
  | none => pure none
  | some v => do
    match ← jsonToList jsonToRat v with
    | [a, b] => pure (some (a, b))
    | _ => throw "warp must be [centre, shift]"

def parseParams (p : Json) : Except String Params := do
  pure { warpT := ← parseWarp p "warp_t", warpF := ← parseWarp p "warp_f",
         tmasks := ← getList parseMask p "tmasks", fmasks := ← getList parseMask p "fmasks" }

def paramsJ (p : Params) : Json :=
  objJ [("warp_t", optJ pairJ p.warpT), ("warp_f", optJ pairJ p.warpF),
        ("tmasks", listJ maskJ p.tmasks), ("fmasks", listJ maskJ p.fmasks)]

/-- The model's parameters for one element, the pre-truncation products (for the harness'
margin rule), every intermediate value of the warp arithmetic (for its float32 exactness
test) and the spec's verdict on the model's own output. -/
def drawOne (cfg : Cfg) (F len : Nat) (d : Draws) : Json :=
  let p := drawParams cfg F len d
  let omeps : Rat := 1 - cfg.eps
  let maxT := propCap len cfg.maxTimeMaskProp cfg.maxTimeMask
  let nums := propCap len cfg.numTimeMaskProp cfg.numTimeMask
  let maxF : Nat := Nat.min cfg.maxFreqMask F
  let tprod := (List.range cfg.numTimeMask).map (fun j => d.ut.getD j 0 * ((maxT : Rat) + omeps))
  let t0prod := (List.range cfg.numTimeMask).map (fun j =>
    d.ut0.getD j 0 * ((len : Rat) - ((timeMaskWidth cfg len j (d.ut.getD j 0) : Int) : Rat) + omeps))
  let fprod := (List.range cfg.numFreqMask).map (fun j => d.uf.getD j 0 * ((maxF : Rat) + omeps))
  let f0prod := (List.range cfg.numFreqMask).map (fun j =>
    d.uf0.getD j 0 * ((F : Rat) - ((freqMaskWidth cfg F (d.uf.getD j 0) : Int) : Rat) + omeps))
  let W := warpW cfg.eps cfg.maxTimeWarp len
  let V := warpW cfg.eps cfg.maxFreqWarp F
  let interT : List Rat := [(len : Rat) / 2 - cfg.eps, W, 2 * W, (len : Rat) - 2 * W,
    d.uw0 * ((len : Rat) - 2 * W), warpCentre cfg.eps cfg.maxTimeWarp len d.uw0,
    d.uw * (2 * W), warpShift cfg.eps cfg.maxTimeWarp len d.uw]
  let interF : List Rat := [V, 2 * V, (F : Rat) - 2 * V,
    d.uv0 * ((F : Rat) - 2 * V), warpCentre cfg.eps cfg.maxFreqWarp F d.uv0,
    d.uv * (2 * V), warpShift cfg.eps cfg.maxFreqWarp F d.uv]
  let tOK := p.tmasks.all (maskOKb len cfg.maxTimeMask (propFloor len cfg.maxTimeMaskProp))
  let fOK := p.fmasks.all (maskOKb F cfg.maxFreqMask (F : Int))
  let wOK := match p.warpT with
    | some (w0, w) => warpOKb len cfg.maxTimeWarp W w0 w
    | none => true
  let vOK := match p.warpF with
    | some (v0, v) => warpOKb F cfg.maxFreqWarp V v0 v
    | none => true
  objJ [
    ("params", paramsJ p),
    ("diag", objJ [("W", ratToJson W), ("V", ratToJson V), ("max_t", intJ maxT), ("nums", intJ nums),
      ("max_f", natJ maxF),
      ("max_t_raw", ratToJson ((len : Rat) * cfg.maxTimeMaskProp)),
      ("nums_raw", ratToJson ((len : Rat) * cfg.numTimeMaskProp)),
      ("tprod", listJ ratToJson tprod), ("t0prod", listJ ratToJson t0prod),
      ("fprod", listJ ratToJson fprod), ("f0prod", listJ ratToJson f0prod),
      ("inter_t", listJ ratToJson interT), ("inter_f", listJ ratToJson interF)]),
    ("spec", objJ [("time_cap", intJ (propFloor len cfg.maxTimeMaskProp)),
      ("count_cap", intJ (propFloor len cfg.numTimeMaskProp)),
      ("tmasks_ok", boolJ tOK), ("fmasks_ok", boolJ fOK), ("warp_t_ok", boolJ wOK),
      ("warp_f_ok", boolJ vOK)])]

def minMax (x : List (List Rat)) : Rat × Rat :=
  match x.flatten with
  | [] => (0, 0)
  | a :: t => t.foldl (fun (p : Rat × Rat) v => (rmin p.1 v, rmax p.2 v)) (a, a)

/-- Frame position (in frames, border-clamped) a grid value reads. -/
def readPos (n : Nat) (g : Rat) : Rat := clip n (unnorm n g)

/-- Output image of `applyParams`, the positions read along time / frequency (if warped)
and the spec's verdict on the model output. -/
def applyOne (epsG : Rat) (x : List (List Rat)) (T F len : Nat) (p : Params) : Json :=
  let y := applyParams epsG x T F len p
  let tg := p.warpT.map (fun (w : Rat × Rat) => warpGrid epsG T len w.1 w.2)
  let fg := p.warpF.map (fun (w : Rat × Rat) => warpGrid epsG F F w.1 w.2)
  let (lo, hi) := minMax x
  -- masking introduces 0, so the admissible range is the hull of the input and 0
  let inr := inRangeb (rmin lo 0) (rmax hi 0) y
  let shape := y.length == T && y.all (fun r => r.length == F)
  let mono := match tg with
    | some g => monotoneb g
    | none => true
  objJ [
    ("out", listJ (listJ ratToJson) y),
    ("time_pos", optJ (listJ (fun g => ratToJson (readPos T g))) tg),
    ("freq_pos", optJ (listJ (fun g => ratToJson (readPos F g))) fg),
    ("spec", objJ [("in_range", boolJ inr), ("shape", boolJ shape), ("time_grid_monotone", boolJ mono)])]

/-- case: {T, F, cfg, eps_grid, items: [{len, u, feats?, params?}]}: one SpecAugment call on a
batch. Per item: the drawn parameters; if `feats` is present also `applyParams` on the
parameters given in `params` (the implementation's own, so that the two stages are compared
independently) or, if absent, on the model's. -/
def c08Sa : Handler := fun c => do
  let T ← getNat c "T"
  let F ← getNat c "F"
  let cfg ← field c "cfg" >>= parseCfg
  let epsG ← getRat c "eps_grid"
  let items ← getList pure c "items"
  let outs ← items.mapM (fun it => do
    let len ← getNat it "len"
    let d ← field it "u" >>= parseDraws
    let dj := drawOne cfg F len d
    match fieldOpt it "feats" with
    | none => pure (objJ [("draw", dj)])
    | some fj => do
      let x ← jsonToList (jsonToList jsonToRat) fj
      let p ← match fieldOpt it "params" with
        | some pj => parseParams pj
        | none => pure (drawParams cfg F len d)
      let full := specAugment true cfg epsG x T F len d
      let evalOut := specAugment false cfg epsG x T F len d
      pure (objJ [("draw", dj), ("apply", applyOne epsG x T F len p),
        ("e2e", listJ (listJ ratToJson) full), ("eval_identity", boolJ (evalOut == x))]))
  pure (objJ [("items", Json.arr outs.toArray)])

/-- case: {T, F, eps_grid, items: [{len, feats, params}]}: `spec_augment_apply_parameters` on
user-supplied parameters (no draw). -/
def c08Apply : Handler := fun c => do
  let T ← getNat c "T"
  let F ← getNat c "F"
  let epsG ← getRat c "eps_grid"
  let items ← getList pure c "items"
  let outs ← items.mapM (fun it => do
    let len ← getNat it "len"
    let x ← field it "feats" >>= jsonToList (jsonToList jsonToRat)
    let p ← field it "params" >>= parseParams
    pure (objJ [("apply", applyOne epsG x T F len p)]))
  pure (objJ [("items", Json.arr outs.toArray)])

/-- Knots, grid and read positions of `warp_1d_grid(order=1)` for one batch row; with the
repaired code's margin also the literal float-stable evaluation (`warpGridStable`), which
`C08_linear_warp_stable_eq` proves equal (whenever `2 eps T ≤ 1`). -/
def gridOne (eps : Rat) (mu : Option Rat) (T len : Nat) (src flow : Rat) : Json :=
  let m := mu.getD (knotMargin eps T)
  let k := warpKnots eps m T len src flow
  let g := warpGridWith eps m T len src flow
  let st := warpGridStable eps T len src flow
  objJ [
    ("knots", listJ ratToJson [k.c1, k.c2, k.c3, k.y2]),
    ("grid", listJ ratToJson g),
    ("pos", listJ (fun v => ratToJson (readPos T v)) g),
    ("spec", objJ [("monotone", boolJ (monotoneb g)),
      ("stable_eq", boolJ (mu.isSome || st == g)),
      ("knots_increasing", boolJ (decide (k.c1 < k.c2) && decide (k.c2 < k.c3) && decide (k.c1 < k.y2)
        && decide (k.y2 < k.c3)))])]

/-- Order 3: the exact spline through the (margin-0) knots; raw read positions (not clipped: the
spline overshoots, `grid_sample` clips later). -/
def grid3One (eps : Rat) (T len : Nat) (src flow : Rat) : Json :=
  let k := warpKnots eps 0 T len src flow
  let g := warpGrid3 eps T len src flow
  objJ [("knots", listJ ratToJson [k.c1, k.c2, k.c3, k.y2]), ("grid", listJ ratToJson g)]

/-- case: {T, len, src, flow, eps, mu?} or {T, eps, mu?, rows: [{len, src, flow}]} (a batch).
`mu` absent = the repaired code's margin `2 eps T`; `order: 3` (rows form) = the exact cubic spline. -/
def c08Grid : Handler := fun c => do
  let T ← getNat c "T"
  let eps ← getRat c "eps"
  let mu ← getOptRat c "mu"
  let order := (← getOptNat c "order").getD 1
  match fieldOpt c "rows" with
  | some _ => do
    let rows ← getList pure c "rows"
    let outs ← rows.mapM (fun r => do
      let len ← getNat r "len"
      let src ← getRat r "src"
      let flow ← getRat r "flow"
      pure (if order == 3 then grid3One eps T len src flow else gridOne eps mu T len src flow))
    pure (objJ [("rows", Json.arr outs.toArray)])
  | none => do
    pure (gridOne eps mu T (← getNat c "len") (← getRat c "src") (← getRat c "flow"))

def main : IO Unit := Proto.run [("c08.sa", c08Sa), ("c08.apply", c08Apply), ("c08.grid", c08Grid)]
