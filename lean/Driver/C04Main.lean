import Driver.Proto
import Std.Data.HashMap
import PdtVerif.Model.Beam
import PdtVerif.Spec.Beam
/-! Driver for C04: runs the beam-search model (`search`, `advanceBatch`) with the deterministic
selection `selDet`, evaluates the spec (`chain`, `completeFrom`) and reports tie flags.
Glue only: JSON decoding/encoding and the table-backed language model instance. -/
open Lean Proto PdtVerif.Beam

def scoreJ (s : Score) : Json :=
  match s with
  | none => strJ "-inf"
  | some q => ratToJson q

def jsonToScore (j : Json) : Except String Score :=
  match j with
  | .str "-inf" => .ok none
  | _ => some <$> jsonToRat j

abbrev Table := Std.HashMap (List Int) (List Score)

/-- case.batch[n].table = [[history, scores], ...] -/
def parseTable (j : Json) : Except String Table := do
  let rows ← getList (fun r => do
    let l ← jsonToList pure r
    match l with
    | [h, s] => do
      let h ← jsonToList jsonToInt h
      let s ← jsonToList jsonToScore s
      pure (h, s)
    | _ => throw "table row must be [history, scores]") j "table"
  pure (Std.HashMap.ofList rows)

/-- State of the driver's language model: batch element id and the tokens consumed so far
(threaded through `in_next` / `extract_by_src`, *not* recomputed from the slot's path). -/
abbrev St := Nat × List Int

/-- The key under which `tableLM` looks a row up (the threaded state plus the newest token). -/
def lmKey (t : Nat) (col : List Int) (st : St) : List Int :=
  if t = 0 then st.2 else st.2 ++ [col.getD (t - 1) 0]

def tableLM (V : Nat) (tables : Array Table) : LM St where
  run := fun t col st =>
    let h := lmKey t col st
    (((tables.getD st.1 {}).get? h).getD (List.replicate V none), (st.1, h))

/-- Histories whose scores the model NEEDS at step `t` for one element that is not finished (slots with a
finite score whose path has not ended: everything else gets the eos row or stays `-inf` whatever the
language model says) and that the table does not hold. With a table that was built on demand (size
classes: the tree of all histories cannot be enumerated) a non-empty answer means that the model's
trajectory leaves the set of histories the harness asked the unbatched language model about. -/
def elemMissing (cfg : Cfg) (tables : Array Table) (t : Nat) (e : Elem St) : List (Nat × List Int) :=
  (e.slots.zip e.sts).filterMap fun (s, st) =>
    if s.score.isSome && !isEnded cfg.eos t s then
      let k := lmKey t (s.col.map (clampTok cfg.V)) st
      if (tables.getD st.1 {}).contains k then none else some (st.1, k)
    else none

def specOf (V : Nat) (tb : Table) : List Int → List Score :=
  fun h => (tb.get? h).getD (List.replicate V none)

def slotJ (s : Slot) : Json :=
  objJ [("path", listJ intJ s.path), ("len", natJ s.len), ("score", scoreJ s.score)]

def minGap (a b : Option Rat) : Option Rat :=
  match a, b with
  | none, x => x
  | x, none => x
  | some x, some y => some (if x ≤ y then x else y)

/-- The magnitude up to which margins are absolute; beyond it they are taken relative to it. -/
def magUnit : Rat := 64

def ratAbs (x : Rat) : Rat := if x < 0 then -x else x

/-- `x - y` divided by `max 1 (max |x| |y| / 64)`: the margin between two neighbouring scores,
absolute for scores up to 64 in magnitude and relative beyond (float rounding grows with the
magnitude). -/
def relMargin (x y : Rat) : Rat :=
  let m := if ratAbs x ≤ ratAbs y then ratAbs y else ratAbs x
  if m ≤ magUnit then x - y else (x - y) * magUnit / m

/-- Tie information for one selection: `(finiteTie, ninfChoice, gap)`; `gap` is the smallest
margin (`relMargin`) between two neighbours among the first `K + 1` candidates in sorted order
(both finite): every decision of `topk` that shows in the result — who is in, and in which order —
has at least this margin. -/
def tieInfo (cands : List Score) (K : Nat) : Bool × Bool × Option Rat :=
  let sorted := (cands.zipIdx.mergeSort fun a b => Score.le b.1 a.1).map (·.1)
  let top := sorted.take (K + 1)
  let fin := (top.zip top.tail).any fun (a, b) => a.isSome && a == b
  let nNone := (cands.filter (·.isNone)).length
  let ninf := (sorted.take K).any (·.isNone) && decide (2 ≤ nNone)
  let gap := (top.zip top.tail).foldl (fun g (a, b) =>
    match a, b with
    | some x, some y => minGap g (some (relMargin x y))
    | _, _ => g) none
  (fin, ninf, gap)

def elemTie (cfg : Cfg) (lm : LM St) (t : Nat) (e : Elem St) : Bool × Bool × Option Rat :=
  let rows := elemRows cfg lm t e
  let cands := candidates (e.slots.map (clampSlot cfg.V)) (rows.map (·.1))
  tieInfo cands (min cfg.width (e.slots.length * cfg.V))

/-- The hypothesis of `C04_skeleton_stable` for one selection: `sepB m` on the candidates of a live
element and the selection the model makes (`selDet`), evaluated in one pass per selected index
(`sepFast`; `C04_sepFast_eq : sepFast = sepB`). -/
def elemSep (m : Rat) (cfg : Cfg) (lm : LM St) (t : Nat) (e : Elem St) : Bool :=
  let rows := elemRows cfg lm t e
  let cands := candidates (e.slots.map (clampSlot cfg.V)) (rows.map (·.1))
  sepFast m cands (selDet cands (min cfg.width (e.slots.length * cfg.V)))

/-- What is collected along the trajectory: tie flags, the smallest selection margin, and for
every batch element the size `S` of the history tensor at the step at which it was first found
finished (from then on its columns are only right-padded). -/
structure Traj where
  tie : Bool := false
  ninf : Bool := false
  gap : Option Rat := none
  /-- every selection so far satisfied `sepB margin` (only evaluated when a margin is given) -/
  sep : Bool := true
  frozen : List (Option Nat) := []
  /-- needed and absent table rows (`elemMissing`), the first few, and how many -/
  missing : List (Nat × List Int) := []
  nMissing : Nat := 0

/-- The model's `loop`, re-run step by step through `stepBatch` so that tie flags can be
collected along the trajectory (the result is asserted equal to `search`). -/
def loopFlags (cfg : Cfg) (lm : LM St) (tables : Array Table) (margin : Option Rat) :
    Nat → Nat → Nat → Nat → List (Elem St) → Traj → Nat →
    (Except String (Nat × List (Elem St))) × Traj × Nat
  | 0, t, S, _, elems, fl, _ => (Except.ok (S, elems), fl, t)
  | fuel + 1, t, S, Kp, elems, fl, _ =>
    if cfg.eos.isSome && t != 0 && elems.all (elemDone cfg t) then (Except.ok (S, elems), fl, t)
    else
      let fl1 : Traj := elems.foldl (fun (acc : Traj) e =>
        if elemDone cfg t e then acc else
          let ti := elemTie cfg lm t e
          let sp := match margin with
            | none => true
            | some m => elemSep m cfg lm t e
          let ms := elemMissing cfg tables t e
          ({ acc with tie := acc.tie || ti.1, ninf := acc.ninf || ti.2.1,
                      gap := minGap acc.gap ti.2.2, sep := acc.sep && sp,
                      missing := if acc.missing.length < 4 then acc.missing ++ ms.take 2 else acc.missing,
                      nMissing := acc.nMissing + ms.length } : Traj)) fl
      let fr : List (Option Nat) := (elems.zip fl1.frozen).map fun (e, f) =>
        match f with
        | some s => some s
        | none => if elemDone cfg t e then some S else none
      let fl' : Traj := { fl1 with frozen := fr }
      -- a row the model needs is not in the table: nothing it computes from here on means anything (and a
      -- search without step limit would run on all-`-inf` rows for ever)
      if fl'.nMissing != 0 then (Except.error "missing", fl', t) else
      match stepBatch selDet cfg lm (0, []) t S Kp elems with
      | .error e => (Except.error e, fl', t)
      | .ok (S', elems') => loopFlags cfg lm tables margin fuel (t + 1) S' cfg.width elems' fl' 0

def c04Search : Handler := fun c => do
  let V ← getNat c "V"
  let width ← getNat c "width"
  let eosRaw ← getOptInt c "eos"
  let finishAll ← getBool c "finish_all"
  let pad ← getInt c "pad"
  let maxIters ← getOptNat c "max_iters"
  let batch ← getList pure c "batch"
  let tables ← batch.mapM parseTable
  let queries ← match fieldOpt c "queries" with
    | none => pure []
    | some q => jsonToList (jsonToList (jsonToList jsonToInt)) q
  let completeT ← getOptNat c "complete_T"
  let margin ← match fieldOpt c "margin" with
    | none => pure none
    | some (.null) => pure none
    | some j => some <$> jsonToRat j
  let pinned := match fieldOpt c "pinned_done_rule" with
    | some (.bool b) => b
    | _ => false
  let errJ := fun (k : String) => objJ [("model", objJ [("error", strJ k)]), ("spec", Json.null),
    ("flags", objJ [])]
  if V = 0 ∨ width = 0 then pure (errJ "value") else
  match normEos V eosRaw with
  | none => pure (errJ "value")
  | some eos =>
    match maxIters, eos with
    | none, none => pure (errJ "runtime")
    | _, _ =>
      let fuel := maxIters.getD 1073741824
      let cfg : Cfg := ⟨V, width, eos, finishAll, pad, 0, pinned⟩
      let lm := tableLM V tables.toArray
      let inits : List St := (List.range tables.length).map fun n => (n, [])
      let (res, fl, steps) := loopFlags cfg lm tables.toArray margin fuel 0 0 1 (inits.map initElem)
        ({ frozen := inits.map fun _ => none } : Traj) 0
      let flagsJ := objJ [("tie", boolJ fl.tie), ("ninf_choice", boolJ fl.ninf), ("steps", natJ steps),
          ("gap", optJ ratToJson fl.gap), ("sep", boolJ fl.sep),
          ("frozen", listJ (optJ natJ) fl.frozen),
          ("missing", listJ (fun (m : Nat × List Int) => objJ [("element", natJ m.1),
            ("history", listJ intJ m.2)]) fl.missing),
          ("n_missing", natJ fl.nMissing)]
      let specs := tables.map (specOf V)
      let chains := (queries.zip specs).map fun (qs, sp) => qs.map fun p => chain sp p
      if fl.nMissing != 0 then
        -- the table (built on demand) lacks a row the model needs: no model output, the oracle values of
        -- the queried paths are still reported
        pure (objJ [("model", objJ [("error", strJ "missing"), ("detail", strJ "table row missing")]),
          ("spec", objJ [("chain", listJ (listJ scoreJ) chains), ("complete", Json.null),
            ("eos", optJ intJ eos)]),
          ("flags", flagsJ)])
      else
      let direct := search selDet cfg lm (0, []) inits fuel
      let modelJ ← match res, direct with
        | .error e, .error e' =>
          if e == e' then pure (objJ [("error", strJ "runtime"), ("detail", strJ e)])
          else throw "internal: search and loopFlags disagree (errors)"
        | .ok (S, elems), .ok out =>
          let out' := elems.map fun e => toWidth selDet cfg.width S e.slots
          if out' == out then
            pure (objJ [("S", natJ S), ("elems", listJ (fun sl => listJ slotJ sl) out)])
          else throw "internal: search and loopFlags disagree"
        | _, _ => throw "internal: search and loopFlags disagree (kind)"
      let complete := match completeT with
        | none => Json.null
        | some T => listJ (fun sp =>
            listJ (fun p => objJ [("path", listJ intJ p), ("score", scoreJ (chain sp p))])
              (completeFrom sp V eos T [])) specs
      pure (objJ [("model", modelJ),
        ("spec", objJ [("chain", listJ (listJ scoreJ) chains), ("complete", complete),
          ("eos", optJ intJ eos)]),
        ("flags", flagsJ)])

/-- case: {V, width, S, lens_given, rows: [ {cols:[[..]..], lens:[..], scores:[..], logp:[[..]..]} ]} -/
def c04Advance : Handler := fun c => do
  let V ← getNat c "V"
  let width ← getInt c "width"
  let S ← getNat c "S"
  let lensGiven ← getBool c "lens_given"
  let rowsJ ← getList pure c "rows"
  let rows ← rowsJ.mapM fun r => do
    let cols ← getList (jsonToList jsonToInt) r "cols"
    let lens ← getNatList r "lens"
    let scores ← getList jsonToScore r "scores"
    let logp ← getList (jsonToList jsonToScore) r "logp"
    if cols.length != lens.length || cols.length != scores.length then
      throw "cols/lens/scores misaligned"
    let slots := (cols.zip (lens.zip scores)).map fun (cl, l, s) => (⟨cl, l, s⟩ : Slot)
    pure (slots, logp)
  let ties := rows.map fun (slots, logp) =>
    tieInfo (candidates slots logp) (min width.toNat (slots.length * V))
  let flags := objJ [("tie", boolJ (ties.any (·.1))), ("ninf_choice", boolJ (ties.any (·.2.1)))]
  if width < 1 then
    pure (objJ [("model", objJ [("error", strJ "runtime")]), ("flags", flags)])
  else
  match advanceBatch selDet V width.toNat S lensGiven 0 rows with
  | none => pure (objJ [("model", objJ [("error", strJ "runtime")]), ("flags", flags)])
  | some (S', out) =>
    pure (objJ [("model", objJ [("S", natJ S'),
        ("rows", listJ (fun (r : List Slot × List Nat) =>
          objJ [("slots", listJ slotJ r.1), ("src", listJ natJ r.2)]) out)]),
      ("flags", flags)])

def main : IO Unit := Proto.run [("c04.search", c04Search), ("c04.advance", c04Advance)]
