import Driver.Proto
import PdtVerif.Model.ErrorRate
import PdtVerif.Model.ErrorRateFast
import PdtVerif.Model.LevRow
import PdtVerif.Spec.ErrorRate
/-! Driver for C02: error_rate / prefix_error_rates per batch and minimum_error_rate_loss.

Every reply carries
* `model` — the output of the algorithmic model (`Model/ErrorRate.lean`);
* `spec`  — per column, computed WITHOUT the model: the cut transcripts, the weighted and the
  unit-cost Levenshtein distance and the fewest / most edits among minimum-cost scripts
  (brute-force enumeration of all scripts when small, the set-carrying DP otherwise; both when
  small, and they must agree);
and the driver itself asserts what the theorems say about the model (`model ∈ [min, max]`,
`= levUnit` after the shortcut); a failure there is an internal error, not a violation.

`big: true` in a case (reference / hypothesis dimensions of tens to hundreds of positions):
the model is evaluated in its one-pass form (`Model/ErrorRateFast.lean`, proved equal to the
literal model for all inputs: `C02_fast_*`) because the literal `del_mat` form is cubic per
step on lists; the oracle is the proved set-carrying DP only (no brute force; for the per-prefix
variant the unit-cost distance of every prefix comes from one pass of the same DP under unit
costs instead of one `dpDist` per prefix). Without `big` BOTH forms of the model are evaluated
and must agree. -/
open Lean Proto PdtVerif.Lev PdtVerif.ErrorRate

def getCosts (c : Json) : Except String Costs := do
  pure ⟨← getRat c "ins", ← getRat c "del", ← getRat c "sub"⟩

def getCfg (c : Json) : Except String (Config Int) := do
  let excl := match fieldOpt c "exclude_last" with
    | some (.bool b) => b
    | _ => false
  let pad ← match fieldOpt c "padding" with
    | some v => jsonToInt v
    | none => pure (-100)
  pure { eos := ← getOptInt c "eos", includeEos := ← getBool c "include_eos",
         norm := ← getBool c "norm", costs := ← getCosts c, excludeLast := excl, padding := pad }

def mat (j : Json) : Except String (List (List Int)) := jsonToList (jsonToList jsonToInt) j
def ten3 (j : Json) : Except String (List (List (List Int))) :=
  jsonToList (jsonToList (jsonToList jsonToInt)) j

structure OptInfo where
  cost : Rat
  lo : Nat
  hi : Nat
  brute : Bool

/-- The oracle for one pair of cut transcripts. -/
def oracle (c : Costs) (bruteMax : Nat) (r h : List Int) (fast : OptCell) (xcheck : Bool := true) :
    Except String OptInfo := do
  let lo ← match fast.2.min? with | some v => pure v | none => throw "oracle: empty count set"
  let hi ← match fast.2.max? with | some v => pure v | none => throw "oracle: empty count set"
  if xcheck && fast.1 != dpDist c r h then throw "oracle: set-DP cost differs from dpDist"
  if r.length ≤ bruteMax && h.length ≤ bruteMax then
    if lev c r h != fast.1 then throw "oracle: lev differs from set-DP cost"
    match minEdits c r h, maxEdits c r h with
    | some a, some b =>
      if a != lo || b != hi then
        throw s!"oracle: brute force [{a},{b}] differs from set-DP [{lo},{hi}]"
      pure ⟨fast.1, lo, hi, true⟩
    | _, _ => throw "oracle: brute force found no optimal script"
  else pure ⟨fast.1, lo, hi, false⟩

def infoJ (r h : List Int) (o : OptInfo) (levUnit : Option Rat := none) : Json :=
  objJ [("lev", ratToJson o.cost),
        ("lev_unit", ratToJson (match levUnit with | some v => v | none => dpDist unitCosts r h)),
        ("min_edits", natJ o.lo), ("max_edits", natJ o.hi), ("brute", boolJ o.brute),
        ("ref_len", natJ r.length), ("hyp_len", natJ h.length)]

/-- What the theorems say about the un-normalised model value `v` for the pair `(r, h)`. -/
def assertModel (c : Costs) (levUnit : Rat) (o : OptInfo) (v : Rat) : Except String Unit := do
  if useShortcut c then
    if v != levUnit then throw s!"model {ratToString v} != unit lev (C02_equal_costs)"
  else
    if !(decide ((o.lo : Rat) ≤ v) && decide (v ≤ (o.hi : Rat)) && v.den == 1) then
      throw s!"model {ratToString v} outside [{o.lo},{o.hi}] (C02_bounds)"

/-- scalar: spec + assertion for one column -/
def specScalar (cfg : Config Int) (bruteMax : Nat) (refc hypc : List Int) (big : Bool := false) :
    Except String Json := do
  let r := cut cfg.eos cfg.includeEos refc
  let h := cut cfg.eos cfg.includeEos hypc
  if r.length != seqLen cfg.eos cfg.includeEos refc || h.length != seqLen cfg.eos cfg.includeEos hypc then
    throw "cut length differs from seqLen (cut_length)"
  let o ← oracle cfg.costs bruteMax r h (optCounts cfg.costs r h)
  let rawFast := errorRateColFast { cfg with norm := false } refc hypc
  if !big && errorRateCol { cfg with norm := false } refc hypc != rawFast then
    throw "one-pass model differs from the literal model (C02_fast_scalar)"
  let raw := rawFast
  let lu := dpDist unitCosts r h
  assertModel cfg.costs lu o raw
  pure (objJ [("ref_cut", listJ intJ r), ("hyp_cut", listJ intJ h), ("pair", infoJ r h o (some lu))])

def specPrefix (cfg : Config Int) (bruteMax : Nat) (refc hypc : List Int) (big : Bool := false) :
    Except String Json := do
  let r := cut cfg.eos cfg.includeEos refc
  let h := cut cfg.eos cfg.includeEos hypc
  let cells := optCountsPrefixes cfg.costs r h
  let raw := prefixErrorRatesColFast { cfg with norm := false } refc hypc
  if !big && prefixErrorRatesCol { cfg with norm := false } refc hypc != raw then
    throw "one-pass model differs from the literal model (C02_fast_prefix)"
  -- big: unit-cost distance of every prefix from ONE pass (cost component of the proved
  -- set-carrying DP under unit costs, C02_optCounts_prefixes) instead of one dpDist per prefix
  let unitCells := if big then optCountsPrefixes unitCosts r h else []
  let reported := h.length + (if cfg.excludeLast then 0 else 1)
  let mut infos : List Json := []
  for k in List.range (h.length + 1) do
    let hk := h.take k
    let o ← oracle cfg.costs bruteMax r hk (cells.getD k (0, [])) (!big)
    let lu : Rat := if big then (unitCells.getD k (0, [])).1 else dpDist unitCosts r hk
    if k < reported && k < raw.length then
      assertModel cfg.costs lu o (raw.getD k 0)
    infos := infos ++ [infoJ r hk o (some lu)]
  pure (objJ [("ref_cut", listJ intJ r), ("hyp_cut", listJ intJ h), ("prefixes", Json.arr infos.toArray)])

/-- case: {kind: "scalar"|"prefix", ref, hyp (nested, in the layout given by batch_first), N,
eos, include_eos, norm, ins, del, sub, exclude_last, padding, brute_max}. -/
def c02Er : Handler := fun c => do
  let cfg ← getCfg c
  let kind ← getStr c "kind"
  let bf ← getBool c "batch_first"
  let N ← getNat c "N"
  let bruteMax ← getNat c "brute_max"
  let big := match fieldOpt c "big" with
    | some (.bool b) => b
    | _ => false
  let refT ← field c "ref" >>= mat
  let hypT ← field c "hyp" >>= mat
  let refCols := toColumns bf N refT 0
  let hypCols := toColumns bf N hypT 0
  let flags := objJ [("shortcut", boolJ (useShortcut cfg.costs))]
  if kind == "scalar" then
    let model := errorRateBatchFast cfg bf N refT hypT 0
    if !big && errorRateBatch cfg bf N refT hypT 0 != model then
      throw "one-pass batch model differs from the literal one (C02_fast_batch)"
    let spec ← (List.zip refCols hypCols).mapM (fun (r, h) => specScalar cfg bruteMax r h big)
    pure (objJ [("model", listJ ratToJson model), ("spec", Json.arr spec.toArray), ("flags", flags)])
  else
    let model := prefixErrorRatesBatchFast cfg bf N refT hypT 0
    if !big && prefixErrorRatesBatch cfg bf N refT hypT 0 != model then
      throw "one-pass batch model differs from the literal one (C02_fast_batch)"
    let spec ← (List.zip refCols hypCols).mapM (fun (r, h) => specPrefix cfg bruteMax r h big)
    pure (objJ [("model", listJ (listJ ratToJson) model), ("spec", Json.arr spec.toArray),
                ("flags", flags)])

def parseReduction (s : String) : Except String Reduction :=
  match s with
  | "mean" => .ok .mean | "sum" => .ok .sum | "none" => .ok .none
  | _ => .error s!"bad reduction {s}"

/-- case: {ref (2-D or 3-D nested), ref_dim, hyp (3-D nested), N, M, batch_first, eos,
include_eos, norm, ins, del, sub, sub_avg, reduction, w: [[rat]] (softmax weights from torch),
brute_max}. Reply: model loss, and spec: for every (n, m) the oracle of the pair that the
documentation names (`ref_n` resp. `ref_{n,m}` against `hyp_{n,m}`), extracted directly by
index, independently of the flattening in the model. -/
def c02Mer : Handler := fun c => do
  let cfg ← getCfg c
  let bf ← getBool c "batch_first"
  let N ← getNat c "N"
  let M ← getNat c "M"
  let bruteMax ← getNat c "brute_max"
  let big := match fieldOpt c "big" with
    | some (.bool b) => b
    | _ => false
  let subAvg ← getBool c "sub_avg"
  let red ← getStr c "reduction" >>= parseReduction
  let refDim ← getNat c "ref_dim"
  let hyp ← field c "hyp" >>= ten3
  let w ← getList (jsonToList jsonToRat) c "w"
  let ref3 ← if refDim == 2 then (do
      let r2 ← field c "ref" >>= mat
      pure (repeatRef bf M r2))
    else field c "ref" >>= ten3
  let elems := merElemsFast cfg subAvg bf N M ref3 hyp w 0
  if !big && merElems cfg subAvg bf N M ref3 hyp w 0 != elems then
    throw "one-pass loss model differs from the literal one (C02_fast_mer)"
  let model := match reduce red elems with
    | .inl l => listJ (listJ ratToJson) l
    | .inr v => ratToJson v
  -- spec side: direct indexing
  let refSeq : Nat → Nat → Except String (List Int) := fun n m =>
    if refDim == 2 then do
      let r2 ← field c "ref" >>= mat
      pure (if bf then r2.getD n [] else r2.map (fun row => row.getD n 0))
    else pure (if bf then (ref3.getD n []).getD m []
               else ref3.map (fun pl => (pl.getD n []).getD m 0))
  let hypSeq : Nat → Nat → List Int := fun n m =>
    if bf then (hyp.getD n []).getD m [] else hyp.map (fun pl => (pl.getD n []).getD m 0)
  let mut spec : List Json := []
  for n in List.range N do
    let mut row : List Json := []
    for m in List.range M do
      let rc ← refSeq n m
      let s ← specScalar cfg bruteMax rc (hypSeq n m) big
      row := row ++ [s]
    spec := spec ++ [Json.arr row.toArray]
  pure (objJ [("model", model), ("spec", Json.arr spec.toArray),
              ("flags", objJ [("shortcut", boolJ (useShortcut cfg.costs))])])

/-- case: {what: "pair"|"mer", batch_first, ref: [shape], hyp: [shape], lp: [shape], reduction}.
Reply: accepted (bool) and the dimensions the model reads off. -/
def c02Shapes : Handler := fun c => do
  let what ← getStr c "what"
  let bf ← getBool c "batch_first"
  let ref ← getList jsonToNat c "ref"
  let hyp ← getList jsonToNat c "hyp"
  if what == "pair" then
    match checkPairShapes bf ref hyp with
    | some (n, r, h) => pure (objJ [("accepted", boolJ true), ("dims", listJ natJ [n, r, h])])
    | none => pure (objJ [("accepted", boolJ false)])
  else
    let lp ← getList jsonToNat c "lp"
    let red ← getStr c "reduction"
    match checkMerShapes bf lp ref hyp red with
    | some (n, m, r, h) => pure (objJ [("accepted", boolJ true), ("dims", listJ natJ [n, m, r, h])])
    | none => pure (objJ [("accepted", boolJ false)])

def main : IO Unit := Proto.run [("c02.er", c02Er), ("c02.mer", c02Mer), ("c02.shapes", c02Shapes)]
