import Driver.Proto
import PdtVerif.Model.CommandLine
import PdtVerif.Model.CommandLineTimed
import PdtVerif.Model.CommandLineCosts
import PdtVerif.Model.CommandLineEos
import PdtVerif.Spec.Levenshtein
/-! Driver for C17: command-level models of `command_line.py`. Names travel as JSON strings
and are handled as `List Char`; exact numbers as "n/d". -/
open Lean Proto PdtVerif.CommandLine

abbrev FName := List Char

def nameJ (n : FName) : Json := strJ (String.ofList n)
def getName (j : Json) (k : String) : Except String FName := (·.toList) <$> getStr j k
def jsonToName (j : Json) : Except String FName := (·.toList) <$> jsonToStr j
def leName (a b : FName) : Bool := decide (a ≤ b)
def ltName (a b : FName) : Bool := decide (a < b)

def getBoolD (j : Json) (k : String) (d : Bool) : Except String Bool :=
  match fieldOpt j k with
  | none => .ok d
  | some v => jsonToBool v

/-- case: {prefix, suffix, tg_suffix, files}. -/
def c17Names : Handler := fun c => do
  let p ← getName c "prefix"
  let s ← getName c "suffix"
  let tg ← getName c "tg_suffix"
  let files ← getList jsonToName c "files"
  let sel := files.filter (selects p s)
  let selPinned := files.filter (selectsPinned p s)
  let utts := (listedUtts p s files).mergeSort (fun a b => leName a b)
  -- textgrids_to_torch_token_data_dir: prefix + tg suffix selection, basename = stem + suffix
  let tgSel := files.filter (selects p tg)
  pure (objJ [
    ("selected", listJ nameJ (sel.mergeSort (fun a b => leName a b))),
    ("selected_pinned", listJ nameJ (selPinned.mergeSort (fun a b => leName a b))),
    ("utts", listJ nameJ utts),
    ("rebuilt", listJ nameJ (utts.map (fileName p s))),
    ("well_formed", listJ boolJ ((sel.mergeSort (fun a b => leName a b)).map
        (fun f => decide (p.length + s.length ≤ f.length)))),
    ("tg_basenames", listJ nameJ ((tgSel.map (fun f => stemOf tg f ++ s)).mergeSort
        (fun a b => leName a b)))])

def segJ (s : Seg Int) : Json := Json.arr #[intJ s.tok, intJ s.start, intJ s.stop]

def jsonToSeg (j : Json) : Except String (Seg Int) := do
  let l ← jsonToList jsonToInt j
  match l with
  | [t, a, b] => pure ⟨t, a, b⟩
  | _ => throw "segment must be [tok, start, end]"

def decErrJ : DecErr → String
  | .invalidSize => "ValueError:size" | .missing => "ValueError:missing"
  | .notZero => "ValueError:start" | .notContiguous => "ValueError:contiguous"
  | .frames => "ValueError:frames" | .negativeRepeat => "RuntimeError"

def decodeJ (r : Except DecErr (List Int)) : Json :=
  match r with
  | .ok a => objJ [("ok", listJ intJ a)]
  | .error e => objJ [("error", strJ (decErrJ e))]

/-- case: {ali: [..]} and/or {ref: [[t,s,e]..], shape_ok, T}. -/
def c17Rle : Handler := fun c => do
  let mut out : List (String × Json) := []
  match fieldOpt c "ali" with
  | some a =>
    let ali ← jsonToList jsonToInt a
    let enc := encode ali
    out := out ++ [("encode", listJ segJ enc), ("decode_encode", decodeJ (decode true enc none)),
      ("decode_encode_T", decodeJ (decode true enc (some ali.length))),
      ("expand_runs", listJ intJ (expand (runs ali)))]
  | none => pure ()
  match fieldOpt c "ref" with
  | some r =>
    let ref ← jsonToList jsonToSeg r
    let ok ← getBoolD c "shape_ok" true
    let T ← getOptInt c "T"
    let dec := decode ok ref T
    out := out ++ [("decode", decodeJ dec)]
    match dec with
    | .ok a =>
      let canon := ref.all (fun s => decide (s.start < s.stop)) &&
        (ref.zip ref.tail).all (fun (a, b) => a.tok != b.tok)
      out := out ++ [("encode_decode", listJ segJ (encode a)), ("canonical", boolJ canon)]
    | .error _ => pure ()
  | none => pure ()
  pure (objJ out)


def sortNames (l : List FName) : List FName := l.mergeSort (fun a b => leName a b)

/-- case: {prefix, suffix, files: [[name, [ali..]]..]} — `torch_ali_data_dir_to_torch_token_data_dir`
followed by `torch_token_data_dir_to_torch_ali_data_dir` on its output. Reply: the names
selected by the repaired and by the pinned filter, and for every file its segments and
the alignment decoded from them. -/
def c17AliDir : Handler := fun c => do
  let p ← getName c "prefix"
  let s ← getName c "suffix"
  let files ← getList (fun j => do
      let a ← j.getArr?
      if a.size != 2 then throw "expected [name, ali]"
      let n ← jsonToName a[0]!
      let x ← jsonToList jsonToInt a[1]!
      pure (n, x)) c "files"
  let names := files.map (·.1)
  -- the two commands on the whole directory (repaired filter / pinned filter)
  let run := fun (sel : Dir FName (List Int)) (sel2 : Dir FName (List (Seg Int)) → Dir FName (List (Seg Int))) =>
    let T := aliToTokCmd sel
    let back := tokToAliCmd (sel2 T)
    (listJ (fun (e : FName × List (Seg Int)) => Json.arr #[nameJ e.1, listJ segJ e.2])
        (T.mergeSort (fun a b => leName a.1 b.1)),
      match back with
      | .ok d => objJ [("ok", listJ (fun (e : FName × List Int) => Json.arr #[nameJ e.1, listJ intJ e.2])
          (d.mergeSort (fun a b => leName a.1 b.1)))]
      | .error e => objJ [("error", strJ (decErrJ e))])
  let (refF, backF) := run (selectedEntries p s files) (selectedEntries p s)
  let (refP, backP) := run (files.filter (fun e => selectsPinned p s e.1))
    (fun T => T.filter (fun e => selectsPinned p s e.1))
  pure (objJ [
    ("selected", listJ nameJ (sortNames (names.filter (selects p s)))),
    ("selected_pinned", listJ nameJ (sortNames (names.filter (selectsPinned p s)))),
    ("ref_dir", refF), ("back_dir", backF), ("ref_dir_pinned", refP), ("back_dir_pinned", backP),
    ("encoded", listJ (fun (e : FName × List Int) => Json.arr #[nameJ e.1, listJ segJ (encode e.2)]) files),
    ("back", listJ (fun (e : FName × List Int) =>
        Json.arr #[nameJ e.1, decodeJ (decode true (encode e.2) none)]) files)])

/-- case: {prefix, suffix, files: [[name, [[t,s,e]..], shape_ok, T | null]..]} —
`torch_token_data_dir_to_torch_ali_data_dir` (T = frames of the feature file when
`--feat-dir` is used) followed by the inverse command. -/
def c17RefDir : Handler := fun c => do
  let p ← getName c "prefix"
  let s ← getName c "suffix"
  let files ← getList (fun j => do
      let a ← j.getArr?
      if a.size != 4 then throw "expected [name, segs, shape_ok, T]"
      let n ← jsonToName a[0]!
      let x ← jsonToList jsonToSeg a[1]!
      let ok ← jsonToBool a[2]!
      let T ← jsonToOption jsonToInt a[3]!
      pure (n, x, ok, T)) c "files"
  let names := files.map (·.1)
  pure (objJ [
    ("selected", listJ nameJ (sortNames (names.filter (selects p s)))),
    ("selected_pinned", listJ nameJ (sortNames (names.filter (selectsPinned p s)))),
    ("decoded", listJ (fun (e : FName × List (Seg Int) × Bool × Option Int) =>
        let d := decode e.2.2.1 e.2.1 e.2.2.2
        let canon := e.2.1.all (fun s => decide (s.start < s.stop)) &&
          (e.2.1.zip e.2.1.tail).all (fun (a, b) => a.tok != b.tok)
        Json.arr #[nameJ e.1, decodeJ d,
          (match d with | .ok a => listJ segJ (encode a) | .error _ => Json.null), boolJ canon]) files)])

def erOutJ (o : Option (ErOut FName)) : Json :=
  match o with
  | none => objJ [("kind", strJ "missing_error")]
  | some (.perUtt l) => objJ [("kind", strJ "per_utt"),
      ("rows", listJ (fun (u, q) => Json.arr #[nameJ u, ratToJson q]) l)]
  | some (.total q) => objJ [("kind", strJ "total"), ("q", ratToJson q)]
  | some .zeroDiv => objJ [("kind", strJ "zerodiv")]

def jsonToUttToks (j : Json) : Except String (FName × List String) := do
  let a ← j.getArr?
  if a.size != 2 then throw "expected [utt, tokens]"
  let u ← jsonToName a[0]!
  let t ← jsonToList jsonToStr a[1]!
  pure (u, t)

def jsonToPairStr (j : Json) : Except String (String × String) := do
  let l ← jsonToList jsonToStr j
  match l with
  | [a, b] => pure (a, b)
  | _ => throw "expected a pair"

def unitLev (r h : List Nat) : Nat :=
  (PdtVerif.Lev.lev PdtVerif.Lev.unitCosts r h).floor.toNat

/-- case: {refs, hyps: [[utt,[tok..]]..] (sorted by utt as loaded), replace: [[a,b]..],
ignore: [..], warn, distances, per_utt, batch, table: [[[r ids],[h ids],edits]..] | null}. Tokens are
strings (the numeral of a stored id of either sign, or its --id2token spelling).
`table` = what `error_rate` returned for each interned pair in the observed run, re-derived
pair by pair by the harness; without it (unit costs) the edit count is the Levenshtein
distance. -/
def c17Er : Handler := fun c => do
  let refs ← getList jsonToUttToks c "refs"
  let hyps ← getList jsonToUttToks c "hyps"
  let rep ← getList jsonToPairStr c "replace"
  let ign ← getList jsonToStr c "ignore"
  let warn ← getBool c "warn"
  let dist ← getBool c "distances"
  let perUtt ← getBool c "per_utt"
  let batch ← getNat c "batch"
  let table : Option (List ((List Nat × List Nat) × Nat)) ← match fieldOpt c "table" with
    | none => pure none
    | some t => do
      let rows ← jsonToList (fun j => do
        let a ← j.getArr?
        if a.size != 3 then throw "table row must be [r, h, edits]"
        let r ← jsonToList jsonToNat a[0]!
        let h ← jsonToList jsonToNat a[1]!
        let e ← jsonToNat a[2]!
        pure ((r, h), e)) t
      pure (some rows)
  -- `er`: the observed per-pair value; 10^9 marks a pair the run never presented
  let er : List Nat → List Nat → Nat := match table with
    | none => unitLev
    | some t => fun r h => (t.lookup (r, h)).getD 1000000000
  let pinned := erFromDirs ltName er rep ign warn dist perUtt true batch refs hyps
  let fixed := erFromDirs ltName er rep ign warn dist perUtt false batch refs hyps
  -- spec: Σ edits / Σ reference lengths over the common utterances, batch free
  let common := alignPairs ltName true (refs.length + hyps.length + 1) refs hyps
  let prepped := (common.getD []).map (fun (u, r, h) => (u, prep rep ign r, prep rep ign h))
  -- the spec value must not depend on how the run numbered the tokens: key the observed
  -- table by the canonical renumbering of each pair (first occurrence order, ref then hyp)
  let canon : List Nat → List Nat → List Nat × List Nat := fun r h =>
    let (r', st) := internSeq [] r
    let (h', _) := internSeq st h
    (r', h')
  let erCanon : List Nat → List Nat → Nat := match table with
    | none => unitLev
    | some t =>
      let t' := t.map (fun ((r, h), e) => (canon r h, e))
      fun r h => (t'.lookup (canon r h)).getD 1000000000
  let one := erFromDirs ltName erCanon rep ign warn dist perUtt false 1 refs hyps
  -- `--costs i d s`: C02's model of `error_rate` itself as the count (no observed table):
  -- the command with the real batch size, and the batch-free spec
  let costs : Option PdtVerif.Lev.Costs ← match fieldOpt c "costs" with
    | none | some Json.null => pure none
    | some cj => do
      let l ← jsonToList jsonToRat cj
      match l with
      | [i, d, s] => pure (some ⟨i, d, s⟩)
      | _ => throw "costs must be [ins, del, sub]"
  let costsJ : List (String × Json) := match costs with
    | none => [("fixed_costs", Json.null), ("batch1_costs", Json.null)]
    | some cs =>
      [("fixed_costs", erOutJ (erFromDirs ltName (erC02 cs) rep ign warn dist perUtt false batch refs hyps)),
       ("batch1_costs", erOutJ (erFromDirs ltName (erC02 cs) rep ign warn dist perUtt false 1 refs hyps))]
  -- the (ref, hyp) tensors of every call of `error_rate`, column by column: renumbered ids, eos -1,
  -- padding -2 (`Model/CommandLineEos.lean`; C17_er_tensor_read is about these)
  let tensorsJ : Json := match common with
    | none => Json.null
    | some _ => listJ (fun (rh : List (List Int) × List (List Int)) =>
        Json.arr #[listJ (listJ intJ) rh.1, listJ (listJ intJ) rh.2]) (allTensors batch prepped)
  pure (objJ (costsJ ++ [("pinned", erOutJ pinned), ("fixed", erOutJ fixed), ("batch1", erOutJ one),
    ("tensors", tensorsJ),
    ("prepped", listJ (fun (u, r, h) => Json.arr #[nameJ u, listJ strJ r, listJ strJ h]) prepped),
    ("unit", boolJ table.isNone)]))

def jsonToLenUtt (j : Json) : Except String (Nat × FName) := do
  let a ← j.getArr?
  if a.size != 2 then throw "expected [len, name]"
  let n ← jsonToNat a[0]!
  let u ← jsonToName a[1]!
  pure (n, u)

def parseCrit (j : Json) : Except String (Crit FName) := do
  let k ← getStr j "kind"
  match k with
  | "first_n" => Crit.firstN <$> getNat j "n"
  | "last_n" => Crit.lastN <$> getNat j "n"
  | "shortest_n" => Crit.shortestN <$> getNat j "n"
  | "longest_n" => Crit.longestN <$> getNat j "n"
  | "first_ratio" => Crit.firstR <$> getRat j "q"
  | "last_ratio" => Crit.lastR <$> getRat j "q"
  | "shortest_ratio" => Crit.shortestR <$> getRat j "q"
  | "longest_ratio" => Crit.longestR <$> getRat j "q"
  | "utt_list" => Crit.uttList <$> getList jsonToName j "list"
  | _ => throw s!"bad criterion {k}"

/-- case: {prefix, suffix, feat: [[size0, file name]..], others: [[sub, [file names]]..],
unrelated: [[sub, file name]..] (optional: files of `src` outside feat / the existing ali, ref —
other sub-directories, files at the root (sub = "")), crit, link}. `feat` lists every file of
the feat directory (size0 = 0 for files that are not tensors and not selected); `others` ANY file
names (utterances that feat does not have included). The whole command is `subsetCmd` on the
tree. Reply: selected utt ids in extraction order, the result of the command (sorted (subdir, name)
pairs of dest, or FileExistsError), the declarative `copySubset`, the utterances of feat. -/
def c17Subset : Handler := fun c => do
  let p ← getName c "prefix"
  let s ← getName c "suffix"
  let feat ← getList jsonToLenUtt c "feat"
  let crit ← field c "crit" >>= parseCrit
  let subs ← getList (fun j => do
      let a ← j.getArr?
      if a.size != 2 then throw "expected [sub, files]"
      let n ← jsonToName a[0]!
      let fs ← jsonToList jsonToName a[1]!
      pure (n, fs)) c "others"
  let unrelated ← match fieldOpt c "unrelated" with
    | none => pure []
    | some j => jsonToList (fun j => do
        let a ← j.getArr?
        if a.size != 2 then throw "expected [sub, file]"
        let n ← jsonToName a[0]!
        let f ← jsonToName a[1]!
        pure (n, f)) j
  let featSub : FName := "feat".toList
  let tree : List (FName × FName) :=
    (feat.map (fun e => (featSub, e.2))) ++ subs.flatMap (fun (sub, fs) => fs.map (fun f => (sub, f)))
      ++ unrelated
  let len : FName → Nat := fun f => ((feat.find? (fun e => e.2 == f)).map (·.1)).getD 0
  let sel := subsetSel leName p s featSub len tree crit
  let names := sel.map (fileName p s)
  let src : List (FName × FName × Unit) := tree.map (fun e => (e.1, e.2, ()))
  let dest := copySubset (featSub :: subs.map (·.1)) names src
  -- the whole command (listing of feat, criterion, copy loop in the order of the code,
  -- `FileExistsError` of os.link / os.symlink)
  let link ← getBoolD c "link" true
  let cmd := subsetCmd leName p s featSub (subs.map (·.1)) len tree crit link
  let keyLe := fun (a b : FName × FName) => leName (a.1 ++ '/' :: a.2) (b.1 ++ '/' :: b.2)
  pure (objJ [("selected", listJ nameJ sel),
    ("feat_ids", listJ nameJ (featIds p s featSub tree)),
    ("cmd", match cmd with
      | .error _ => objJ [("error", strJ "FileExistsError")]
      | .ok d => objJ [("ok", listJ (fun (e : FName × FName) => Json.arr #[nameJ e.1, nameJ e.2])
          (d.mergeSort keyLe))]),
    ("dest", listJ (fun (e : FName × FName × Unit) => Json.arr #[nameJ e.1, nameJ e.2.1])
      (dest.mergeSort (fun a b => leName (a.1 ++ '/' :: a.2.1) (b.1 ++ '/' :: b.2.1))))])

/-- case: {prefix, suffix, feat: [[size0, file name]..], others: [[sub, [[R, file name]..]]..],
unrelated: [[sub, file name]..]}: the utterances a `SpectDataSet` over the tree has
(`dataSetIds`), the total number of frames (size0 of their feat files) and, per existing
sub-directory, the total first dimension of their files there. -/
def c17DataDir : Handler := fun c => do
  let p ← getName c "prefix"
  let s ← getName c "suffix"
  let feat ← getList jsonToLenUtt c "feat"
  let subs ← getList (fun j => do
      let a ← j.getArr?
      if a.size != 2 then throw "expected [sub, files]"
      let n ← jsonToName a[0]!
      let fs ← jsonToList jsonToLenUtt a[1]!
      pure (n, fs)) c "others"
  let unrelated ← match fieldOpt c "unrelated" with
    | none => pure []
    | some j => jsonToList (fun j => do
        let a ← j.getArr?
        if a.size != 2 then throw "expected [sub, file]"
        let n ← jsonToName a[0]!
        let f ← jsonToName a[1]!
        pure (n, f)) j
  let featSub : FName := "feat".toList
  let tree : List (FName × FName) :=
    (feat.map (fun e => (featSub, e.2))) ++ subs.flatMap (fun (sub, fs) => fs.map (fun f => (sub, f.2)))
      ++ unrelated
  let ids := dataSetIds p s featSub (subs.map (·.1)) tree
  let size := fun (files : List (Nat × FName)) (f : FName) =>
    ((files.find? (fun e => e.2 == f)).map (·.1)).getD 0
  let total := fun (files : List (Nat × FName)) => (ids.map (fun u => size files (fileName p s u))).sum
  pure (objJ [("ids", listJ nameJ (ids.mergeSort leName)),
    ("feat_ids", listJ nameJ (featIds p s featSub tree)),
    ("subs", listJ nameJ (dataSetSubs p s (subs.map (·.1)) tree)),
    ("frames", natJ (total feat)),
    ("sizes", objJ (subs.map (fun (sub, fs) => (String.ofList sub, natJ (total fs)))))])

def momJ (m : Mom) : Json := objJ [("s", intJ m.s), ("ss", intJ m.ss), ("c", natJ m.c)]

/-- case: {kind: "ali" | "ref", files: [..], excl: [..], bessel}. Files in delivery order. -/
def c17Moments : Handler := fun c => do
  let kind ← getStr c "kind"
  let excl ← getIntList c "excl"
  let bessel ← getBool c "bessel"
  let (moms, flags) ← match kind with
    | "ali" => do
      let files ← getList (jsonToList jsonToInt) c "files"
      pure (files.map (fun a => momOf (aliLens excl a)), files.map (fun _ => false))
    | "ref" => do
      let files ← getList (jsonToList jsonToSeg) c "files"
      pure (files.map (fun r => momOf (refLens excl r).1), files.map (fun r => (refLens excl r).2))
    | _ => throw "bad kind"
  let tot := sumMoms moms
  let totRev := sumMoms moms.reverse
  let pr := mvPrint bessel tot
  pure (objJ [("per_file", listJ momJ moms), ("total", momJ tot), ("total_rev", momJ totRev),
    ("invalid", listJ boolJ flags),
    ("mean", optJ (fun (x : Rat × Option Rat) => ratToJson x.1) pr),
    ("var", optJ (fun (x : Rat × Option Rat) => optJ ratToJson x.2) pr)])

/-- case: {dim_last, bessel, files: [[gid, [[x..]..]]..]} in delivery (= sorted id) order. -/
def c17Mvn : Handler := fun c => do
  let dimLast ← getBool c "dim_last"
  let bessel ← getBool c "bessel"
  let files ← getList (fun j => do
      let a ← j.getArr?
      if a.size != 2 then throw "expected [gid, rows]"
      let g ← jsonToStr a[0]!
      let rows ← jsonToList (jsonToList jsonToRat) a[1]!
      pure (g, rows)) c "files"
  let tbl := mvnAccumulate dimLast files
  pure (objJ [("groups", listJ (fun (e : String × VMom) =>
    Json.arr #[strJ e.1, natJ e.2.count,
      optJ (fun (mv : List Rat × List Rat) =>
        objJ [("mean", listJ ratToJson mv.1), ("var", listJ ratToJson mv.2)]) (e.2.store bessel)]) tbl)])

/-- case: {prefix, suffix, t2i: [[tok, id]..], unk: id | null, corpus: [[utt,[tok..]]..],
extra: [[file name, [ids]]..]} — `extra` are other files already in the directory.
Reply: the directory after trn -> dir and the transcripts after dir -> trn
(`id2token` = the same table read the other way round). -/
def c17Trn : Handler := fun c => do
  let p ← getName c "prefix"
  let s ← getName c "suffix"
  let t2i ← getList (fun j => do
      let a ← j.getArr?
      if a.size != 2 then throw "expected [tok, id]"
      let t ← jsonToStr a[0]!
      let i ← jsonToInt a[1]!
      pure (t, i)) c "t2i"
  let unk ← getOptInt c "unk"
  let corpus ← getList jsonToUttToks c "corpus"
  let i2t := t2i.map (fun (t, i) => (i, t))
  let extra ← match fieldOpt c "extra" with
    | none => pure []
    | some e => jsonToList (fun j => do
        let a ← j.getArr?
        if a.size != 2 then throw "expected [name, ids]"
        let n ← jsonToName a[0]!
        let x ← jsonToList jsonToInt a[1]!
        pure (n, x)) e
  match trnToDir p s t2i unk corpus with
  | none => pure (objJ [("dir", Json.null), ("back", Json.null)])
  | some d0 =>
    let d := Dir.writeAll extra d0.reverse
    let back := dirToTrn leName p s i2t d
    pure (objJ [
      ("dir", listJ (fun (e : FName × List Int) => Json.arr #[nameJ e.1, listJ intJ e.2])
        (d.mergeSort (fun a b => leName a.1 b.1))),
      ("back", optJ (listJ (fun (e : FName × List String) =>
        Json.arr #[nameJ e.1, listJ strJ e.2])) back)])

/-- `write_textgrid`'s path branch forwards these options (C11's `tgForwarded`; `point_tier` is
dropped). -/
def tgFwd : List String := ["start_time", "end_time", "tier_name", "precision"]

/-- case: that of `c17.trn` plus {shift: "n/d" (ms), timed: [[utt, [[tok, "start", "end"]..]]..],
tg: null | {tg_suffix, tier, precision}} — the ctm / TextGrid commands with times. Reply:
`trn` (the reply of `c17.trn`: token ids and tokens only), `rows` (the `(R, 3)` tensor of every
file `ctm_to_torch_token_data_dir` / `textgrids_to_torch_token_data_dir` writes), `mid` (the
transcripts `torch_token_data_dir_to_ctm` hands to `write_ctm`), `grids` (the lines of every
TextGrid `torch_token_data_dir_to_textgrids --infer` writes). -/
def c17Timed : Handler := fun c => do
  let base ← c17Trn c
  let p ← getName c "prefix"
  let s ← getName c "suffix"
  let t2i ← getList (fun j => do
      let a ← j.getArr?
      if a.size != 2 then throw "expected [tok, id]"
      let t ← jsonToStr a[0]!
      let i ← jsonToInt a[1]!
      pure (t, i)) c "t2i"
  let shift ← getRat c "shift"
  let timed ← getList (fun j => do
      let a ← j.getArr?
      if a.size != 2 then throw "expected [utt, entries]"
      let u ← jsonToName a[0]!
      let es ← jsonToList (fun k => do
        let b ← k.getArr?
        if b.size != 3 then throw "expected [tok, start, end]"
        let tok ← jsonToStr b[0]!
        let st ← jsonToRat b[1]!
        let en ← jsonToRat b[2]!
        pure (tok, st, en)) a[1]!
      pure (u, es)) c "timed"
  let t2iT : List (PdtVerif.Transcripts.Tok × Int) := t2i.map (fun (t, i) => (.s t, i))
  let i2tT : List (Int × PdtVerif.Transcripts.Tok) := t2i.map (fun (t, i) => (i, .s t))
  let rowJ := fun (r : Int × Int × Int) => Json.arr #[intJ r.1, intJ r.2.1, intJ r.2.2]
  match timedToDir p s t2iT shift none timed with
  | .error _ => pure (objJ [("trn", base), ("rows", Json.null), ("mid", Json.null), ("grids", Json.null)])
  | .ok d =>
    let dSorted := d.mergeSort (fun a b => leName a.1 b.1)
    let mid := dirToTimed leName p s i2tT shift d
    let grids : Json := match fieldOpt c "tg" with
      | none | some Json.null => Json.null
      | some tg =>
        match getName tg "tg_suffix", getStr tg "tier", getNat tg "precision" with
        | .ok tgs, .ok tier, .ok prec =>
          listJ (fun (e : FName × List (Int × Int × Int)) =>
            Json.arr #[nameJ (stemOf s e.1 ++ tgs),
              match tokToTextGrid tgFwd i2tT shift tier prec e.2 with
              | .ok g => listJ strJ g.render
              | .error .emptyMax => objJ [("error", strJ "RuntimeError")]
              | .error .otherMethod => objJ [("error", strJ "other_method")]
              | .error .value => objJ [("error", strJ "ValueError")]])
            (dSorted.filter (fun e => selects p s e.1))
        | _, _, _ => Json.null
    pure (objJ [("trn", base),
      ("rows", listJ (fun (e : FName × List (Int × Int × Int)) =>
        Json.arr #[nameJ e.1, listJ rowJ e.2]) dSorted),
      ("mid", optJ (listJ (fun (e : String × List PdtVerif.Transcripts.Timed) =>
        Json.arr #[strJ e.1, listJ (fun (x : PdtVerif.Transcripts.Timed) =>
          Json.arr #[strJ x.1, ratToJson x.2.1, ratToJson x.2.2]) e.2])) mid),
      ("grids", grids)])

def main : IO Unit := Proto.run [("c17.names", c17Names), ("c17.rle", c17Rle), ("c17.alidir", c17AliDir), ("c17.refdir", c17RefDir), ("c17.er", c17Er),
  ("c17.subset", c17Subset), ("c17.datadir", c17DataDir), ("c17.moments", c17Moments), ("c17.mvn", c17Mvn), ("c17.trn", c17Trn), ("c17.timed", c17Timed)]
