import Driver.Proto
import PdtVerif.Spec.PadSlice
import PdtVerif.Model.PadChunk
/-! Driver for C09. A cell is one frame (`List Int`, the flattened trailing dimensions).

Every reply carries
* `model`  — the algorithmic model of the repaired tree (what the theorems are about),
* `pinned` — the model of the pinned tree (replicate masks cut from `arange(T)`, early return
  for `T = 0`), used only to recognise the specific wrong behaviour of a known defect,
* `model_f64` (`c09.shift` only) — `randomShiftF64`: the same model with the amounts in double precision,
* `spec`   — the per-sequence oracle (`padSeq` / `chunkSeq` / `compact`), `null` when the
  request is outside the property's domain, `{"error": cls}` for an illegal request.
-/
open Lean Proto PdtVerif.PadSlice PdtVerif.PadChunk

abbrev Frame := List Int

def parseMode (s : String) : Except String Mode :=
  match s with
  | "constant" => .ok .constant | "reflect" => .ok .reflect | "replicate" => .ok .replicate
  | _ => .error s!"bad mode {s}"

def errName : Err → String
  | .value => "ValueError" | .runtime => "RuntimeError" | .notimpl => "NotImplementedError"

def errJ (e : Err) : Json := objJ [("error", strJ (errName e))]

def frameJ (f : Frame) : Json := listJ intJ f
def rowsJ (rows : List (List Frame)) : Json := listJ (listJ frameJ) rows

def resJ (r : Except Err (List (List Frame))) : Json :=
  match r with
  | .error e => errJ e
  | .ok out => objJ [("out", rowsJ out)]

def res2J (r : Except Err (List (List Frame) × List Nat)) : Json :=
  match r with
  | .error e => errJ e
  | .ok (out, lens) => objJ [("out", rowsJ out), ("lens", listJ natJ lens)]

def getX (c : Json) : Except String (List (List Frame)) :=
  getList (jsonToList (jsonToList jsonToInt)) c "x"

def getFrameValue (c : Json) : Except String Frame := do
  let v ← getInt c "value"
  let F ← getNat c "F"
  pure (List.replicate F v)

/-- the class the documentation promises for a request that is illegal for `mode` -/
def illegalErr : Mode → Err
  | .reflect => .notimpl
  | _ => .runtime

def c09Pad : Handler := fun c => do
  let mode ← getStr c "mode" >>= parseMode
  let value ← getFrameValue c
  let T ← getNat c "T"
  let x ← getX c
  let lens ← getNatList c "lens"
  let pad0 ← getNatList c "pad0"
  let pad1 ← getNatList c "pad1"
  let outer := (← getOptNat c "pad_outer").getD 2
  let model := padVariableT false mode value T x lens pad0 pad1 outer
  let pinned := padVariableT true mode value T x lens pad0 pad1 outer
  let N := x.length
  let spec : Json :=
    if lens.length ≠ N ∨ pad0.length ≠ N ∨ pad1.length ≠ N ∨ outer ≠ 2 then errJ .value
    else if N = 0 ∨ lens.any (fun l => decide (T < l)) then Json.null
    else
      let rows := List.zipWith (fun (xl : List Frame × Nat) (p : Nat × Nat) => (xl.1, xl.2, p.1, p.2))
        (x.zip lens) (pad0.zip pad1)
      if rows.any (fun (_, len, l, r) => !legalPad mode len l r) then errJ (illegalErr mode)
      else objJ [
        ("rows", rowsJ (rows.map (fun (xs, len, l, r) => padSeq mode value l r (xs.take len)))),
        ("lens", listJ natJ (rows.map (fun (_, len, l, r) => len + l + r)))]
  pure (objJ [("model", resJ model), ("pinned", resJ pinned), ("spec", spec)])

def getSlices (c : Json) : Except String (List (Int × Int)) := do
  let l ← getList (jsonToList jsonToInt) c "slices"
  l.mapM (fun p => match p with
    | [a, b] => pure (a, b)
    | _ => throw "slice must be [start, end]")

def c09Chunk : Handler := fun c => do
  let mode ← getStr c "mode" >>= parseMode
  let value ← getFrameValue c
  let T ← getNat c "T"
  let x ← getX c
  let slices ← getSlices c
  let lens ← match fieldOpt c "lens" with
    | none => pure none
    | some j => some <$> jsonToList jsonToNat j
  let model := chunkBySlicesT false mode value T x slices lens
  let pinned := chunkBySlicesT true mode value T x slices lens
  let N := x.length
  let lens' := lens.getD (x.map (fun _ => T))
  let spec : Json :=
    if N = 0 ∨ (T = 0 ∧ mode ≠ .constant) ∨ slices.length ≠ N then Json.null
    else if lens'.length ≠ N then errJ .runtime
    else if lens'.any (fun l => decide (T < l)) then Json.null
    else
      let rows := List.zipWith (fun (xl : List Frame × Nat) (s : Int × Int) => (xl.1, xl.2, s.1, s.2))
        (x.zip lens') slices
      if rows.any (fun (_, len, s, e) => !legalPad mode len (needLeft s e) (needRight len s e))
      then errJ (illegalErr mode)
      else objJ [
        ("rows", rowsJ (rows.map (fun (xs, len, s, e) => chunkSeq mode value (xs.take len) s e))),
        ("lens", listJ natJ (rows.map (fun (_, _, s, e) => chunkLen s e)))]
  pure (objJ [("model", res2J model), ("pinned", res2J pinned), ("spec", spec)])

def c09Masked : Handler := fun c => do
  let value ← getFrameValue c
  let x ← getX c
  let mask ← getList (jsonToList jsonToBool) c "mask"         -- the logical (full-shape) mask
  let maskRaw ← match fieldOpt c "mask_raw" with               -- the mask as passed (may be broadcastable)
    | none => pure mask
    | some j => jsonToList (jsonToList jsonToBool) j
  let batchFirst ← getBool c "batch_first"
  let inner ← getNat c "inner"   -- size of dimension 1 of x as given
  let d0 := x.length
  let F ← getNat c "F"
  let dfl : Frame := List.replicate F 0
  -- shape of the raw mask: a size-1 dimension wherever it is shorter than the full one
  let m0 := maskRaw.length
  let m1 := if m0 = 0 then inner else (maskRaw.headD []).length
  let model := res2J (padMaskedSequence batchFirst value d0 inner x m0 m1 maskRaw dfl)
  -- oracle: per sequence (a column of x when not batch-first), the elements whose mask bit is set
  let xb := if batchFirst then x else transpose inner x dfl
  let mb := if batchFirst then mask else transpose inner mask false
  let rows := List.zipWith (fun xs m => (⟨xs, m⟩ : MaskRow Frame)) xb mb
  let spec := objJ [
    ("rows", rowsJ (rows.map (fun r => compact r.mask r.x))),
    ("lens", listJ natJ (rows.map (fun r => (compact r.mask r.x).length)))]
  pure (objJ [("model", model), ("pinned", model), ("spec", spec)])

def c09Shift : Handler := fun c => do
  let mode ← getStr c "mode" >>= parseMode
  let value ← getFrameValue c
  let T ← getNat c "T"
  let x ← getX c
  let lens ← getNatList c "lens"
  let p0 ← getRat c "p0"
  let p1 ← getRat c "p1"
  let u0 ← getRatList c "u0"
  let u1 ← getRatList c "u1"
  let training ← getBool c "training"
  if lens.length ≠ x.length ∨ u0.length ≠ x.length ∨ u1.length ≠ x.length then
    throw "c09.shift: ragged case"
  let rows := List.zipWith (fun (xl : List Frame × Nat) (u : Rat × Rat) =>
    (⟨xl.1, xl.2, u.1, u.2⟩ : ShiftRow Frame)) (x.zip lens) (u0.zip u1)
  let model := randomShift false mode value T p0 p1 training rows
  let pinned := randomShift true mode value T p0 p1 training rows
  -- the same request with the amounts in double precision: what the repaired library computes, also where
  -- a product lands within an ulp of an integer and exact arithmetic gives another floor (C09_shift_float64)
  let modelF64 := randomShiftF64 false mode value T p0 p1 training rows
  let pads := rows.map (fun s => (shiftAmount p0 s.len s.u0, shiftAmount p1 s.len s.u1))
  let spec : Json :=
    if !training then
      objJ [("identity", boolJ true)]
    else if x.length = 0 ∨ lens.any (fun l => decide (T < l)) then Json.null
    else if (List.zipWith (fun (s : ShiftRow Frame) (p : Nat × Nat) => !legalPad mode s.len p.1 p.2)
        rows pads).any id then errJ (illegalErr mode)
    else objJ [
      ("pads", listJ (fun (p : Nat × Nat) => listJ natJ [p.1, p.2]) pads),
      ("rows", rowsJ (List.zipWith (fun (s : ShiftRow Frame) (p : Nat × Nat) =>
        padSeq mode value p.1 p.2 (s.x.take s.len)) rows pads)),
      ("lens", listJ natJ (List.zipWith (fun (s : ShiftRow Frame) (p : Nat × Nat) =>
        s.len + p.1 + p.2) rows pads))]
  -- the amounts under float64 (repaired code) and float32 (code before the float32-bound repair) rounding
  let amt := fun (f : Rat → Nat → Rat → Nat) =>
    listJ (fun (s : ShiftRow Frame) => listJ natJ [f p0 s.len s.u0, f p1 s.len s.u1]) rows
  pure (objJ [("model", res2J model), ("pinned", res2J pinned), ("spec", spec),
    ("model_f64", res2J modelF64),
    ("amounts_f64", amt shiftAmountF64), ("amounts_f32", amt shiftAmountF32),
    ("amounts_exact", amt shiftAmount)])

def getOptShape (c : Json) (k : String) : Except String (Option (List Nat)) :=
  match fieldOpt c k with
  | none => pure none
  | some j => some <$> jsonToList jsonToNat j

def outcomeJ (r : Except Err Unit) : Json :=
  match r with
  | .ok _ => strJ "ok"
  | .error e => strJ (errName e)

/-- `result`: the model of the code's checks (`…Shapes`); `documented`: the documented shapes, stated
directly (null where the documentation does not say: `chunk_by_slices` on an empty batch / an empty
time dimension in a non-constant mode returns before looking at `lens`). -/
def c09Shapes : Handler := fun c => do
  let target ← getStr c "target"
  let mode ← getStr c "mode" >>= parseMode
  let x := (← getOptShape c "xshape").getD []
  let lens ← getOptShape c "lens_shape"
  let pad := (← getOptShape c "pad_shape").getD []
  let mask := (← getOptShape c "mask_shape").getD []
  let N := x.headD 0
  let nd2 := decide (2 ≤ x.length)
  let docJ := fun (ok : Bool) (e : Err) => if ok then strJ "ok" else strJ (errName e)
  match target with
  | "pad" =>
    pure (objJ [("result", outcomeJ (padVariableShapes x (lens.getD []) pad)),
      ("documented", docJ (nd2 && decide (lens = some [N]) && decide (pad = [2, N])) .value)])
  | "chunk" =>
    let early := nd2 && (decide (N = 0) || (decide ((x.drop 1).headD 1 = 0) && decide (mode ≠ .constant)))
    pure (objJ [("result", outcomeJ (chunkBySlicesShapes mode x lens)),
      ("documented", if early then Json.null
        else docJ (nd2 && (lens.isNone || decide (lens = some [N]))) .runtime)])
  | "masked" =>
    let d1 := (x.drop 1).headD 0
    let ok := nd2 && decide (mask.length = 2)
      && (decide (mask.headD 0 = N) || decide (mask.headD 0 = 1))
      && (decide ((mask.drop 1).headD 0 = d1) || decide ((mask.drop 1).headD 0 = 1))
    pure (objJ [("result", outcomeJ (padMaskedShapes x mask)), ("documented", docJ ok .runtime)])
  | "shift" =>
    pure (objJ [("result", outcomeJ (randomShiftShapes x (lens.getD []))),
      ("documented", docJ (nd2 && decide (lens = some [N])) .runtime)])
  | _ => throw s!"c09.shapes: unknown target {target}"

def main : IO Unit := Proto.run [("c09.pad", c09Pad), ("c09.chunk", c09Chunk),
  ("c09.masked", c09Masked), ("c09.shift", c09Shift), ("c09.shapes", c09Shapes)]
