import Driver.Proto
import PdtVerif.Model.Slicing
import PdtVerif.Model.SlicingDir
import PdtVerif.Spec.SlicePolicy
/-! Driver for C10. One request carries one input and a grid of configurations; the reply lists,
in grid order (lobes × window types × valid × lens options, last fastest), the model's output
and the declarative policy's value. -/
open Lean Proto PdtVerif.Slicing PdtVerif

def parseWt (s : String) : Except String WinType :=
  match s with
  | "symmetric" => .ok .symmetric
  | "causal" => .ok .causal
  | "future" => .ok .future
  | _ => .error s!"bad window type {s}"

def parseTok (j : Json) : Except String Tok := do
  let l ← jsonToList jsonToInt j
  match l with
  | [a, b, c] => pure (a, b, c)
  | _ => throw "token must be [tok, start, end]"

def parsePair (j : Json) : Except String (Int × Int) := do
  let l ← jsonToList jsonToInt j
  match l with
  | [a, b] => pure (a, b)
  | _ => throw "pair expected"

def optIntList (j : Json) (k : String) : Except String (Option (List Int)) :=
  match fieldOpt j k with
  | none => pure none
  | some v => some <$> jsonToList jsonToInt v

def winJ (w : Win) : Json := Json.arr #[intJ w.start, intJ w.stop, natJ w.src]
def tokJ (t : Tok) : Json := Json.arr #[intJ t.1, intJ t.2.1, intJ t.2.2]

def natLens (T : Nat) (N : Nat) (l : Option (List Int)) : List Nat :=
  match l with
  | none => List.replicate N T
  | some l => l.map Int.toNat

/-- The spec is evaluated only on in-domain lengths (`0 ≤ len ≤ T`, right count); otherwise
`null`. -/
def lensInDomain (T N : Nat) (l : Option (List Int)) : Bool :=
  match l with
  | none => true
  | some l => l.length == N && l.all fun x => decide (0 ≤ x) && decide (x ≤ (T : Int))

def c10Slice : Handler := fun c => do
  let policy ← getStr c "policy"
  let N ← getNat c "N"
  let T ← getNat c "T"
  let lobes ← getNatList c "lobes"
  let wts ← getList (fun j => jsonToStr j >>= parseWt) c "wts"
  let valids ← getList jsonToBool c "valids"
  let lensOpts ← getList (fun j => do
      let a ← optIntList j "in_lens"
      let b ← optIntList j "other_lens"
      pure (a, b)) c "lens_opts"
  let aliRows ← if policy == "ali" then getList (jsonToList jsonToInt) c "rows" else pure []
  let refRows ← if policy == "ref" then getList (jsonToList parseTok) c "rows" else pure []
  let inp ← match policy with
    | "fixed" => pure (Input.feats N T)
    | "ali" => pure (Input.ali N T aliRows)
    | "ref" => pure (Input.ref N T refRows)
    | _ => throw s!"bad policy {policy}"
  let mut out : Array Json := #[]
  for lobe in lobes do
    for wt in wts do
      for vo in valids do
        for (inL, otherL) in lensOpts do
          let model := match sliceSpectData inp inL otherL wt vo lobe with
            | .ok ws => listJ winJ ws
            | .error .shape => strJ "error:shape"
          let inDom := lensInDomain T N inL &&
            (policy != "ref" || (match otherL with
              | none => true
              | some o => o.length == N))
          let spec : Json :=
            if T == 0 then listJ winJ []
            else if !inDom then Json.null
            else match policy with
              | "fixed" => listJ winJ (SlicePolicy.fixed lobe wt vo (natLens T N inL))
              | "ali" => listJ winJ (SlicePolicy.ali lobe wt vo aliRows (natLens T N inL))
              | _ =>
                let others : List (Option Int) := match otherL with
                  | none => List.replicate N none
                  | some o => o.map some
                listJ winJ (SlicePolicy.ref lobe wt vo refRows (natLens T N inL) others)
          out := out.push (objJ [("model", model), ("spec", spec)])
  pure (objJ [("results", Json.arr out)])

def c10Tokens : Handler := fun c => do
  let refs ← getList (jsonToList parseTok) c "refs"
  let partials ← getList jsonToBool c "partials"
  let retains ← getList jsonToBool c "retains"
  let sliceOpts ← getList (jsonToList parsePair) c "slices_opts"
  let lenOpts ← getList (jsonToOption (jsonToList jsonToInt)) c "ref_lens_opts"
  let mut out : Array Json := #[]
  for p in partials do
    for r in retains do
      for sl in sliceOpts do
        for rl in lenOpts do
          -- through the shape checks of the function (`C10_tokens_entry`); the spec is evaluated only on
          -- well-shaped arguments (`null` otherwise: the call must raise)
          match chunkTokensEntry p r refs sl rl with
          | .ok (chunks, lens) =>
            let spec := SlicePolicy.tokens p r refs sl (rl.map (·.map Int.toNat))
            out := out.push (objJ [
              ("model", objJ [("chunks", listJ (listJ tokJ) chunks), ("lens", listJ natJ lens)]),
              ("spec", listJ (listJ tokJ) spec)])
          | .error .shape =>
            out := out.push (objJ [("model", strJ "error:shape"), ("spec", Json.null)])
  pure (objJ [("results", Json.arr out)])

/-- Directory level: one utterance at a time, the way `_chunk_torch_spect_data_dir_do_work` calls the
slicer (`N = 1`, no lengths) and the token chunker (the utterance's tokens against every window).
Reply per utterance: model windows, spec windows, and per spec window the specified token chunk; with the
command-line options of the run (`pad_mode`, `pad_constant_ali`, `format`, `prefix`, `suffix`, `has_ali`,
`has_ref`, utterance `id`) also `model_files` — everything the model of the whole worker (`dirWorker`) writes:
base name, frames (as indices into the utterance, `-1` = the pad constant), alignment, tokens — and
`spec_files` — per spec window the name and C09's pad-then-slice (`chunkSeq`) of the frame indices and of the
alignment, `null` where the chunker's domain excludes the window (reflect padding not shorter than the
utterance). -/
def parseMode (s : String) : Except String PadSlice.Mode :=
  match s with
  | "constant" => .ok .constant
  | "replicate" => .ok .replicate
  | "reflect" => .ok .reflect
  | _ => .error s!"bad pad mode {s}"

def charsJ (l : List Char) : Json := strJ (String.ofList l)

def c10Dir : Handler := fun c => do
  let policy ← getStr c "policy"
  let wt ← getStr c "wt" >>= parseWt
  let lobe ← getNat c "lobe"
  let vo ← getBool c "valid"
  let partialOk ← getBool c "partial"
  let retain ← getBool c "retain"
  let utts ← getList pure c "utts"
  -- the command line (absent in requests of the older form: then no file-level reply)
  let withFiles := (fieldOpt c "format").isSome
  let padMode : Option PadSlice.Mode ← match fieldOpt c "pad_mode" with
    | none => pure none
    | some j => if j.isNull then pure none else (some <$> (jsonToStr j >>= parseMode))
  let padAli : Int ← match fieldOpt c "pad_constant_ali" with
    | none => pure 0
    | some j => jsonToInt j
  let fmt : Fmt := match fieldOpt c "format" with
    | some (Json.str "default") => defaultFmt
    | _ => idxFmt
  let pre : String ← match fieldOpt c "prefix" with
    | none => pure ""
    | some j => jsonToStr j
  let suf : String ← match fieldOpt c "suffix" with
    | none => pure ""
    | some j => jsonToStr j
  let hasAli : Bool ← match fieldOpt c "has_ali" with
    | none => pure true
    | some j => jsonToBool j
  let hasRef : Bool ← match fieldOpt c "has_ref" with
    | none => pure true
    | some j => jsonToBool j
  let mode := padMode.getD .constant
  let mut out : Array Json := #[]
  for u in utts do
    let T ← getNat u "T"
    let ali ← getList jsonToInt u "ali"
    let ref ← getList parseTok u "ref"
    let uid : String ← match fieldOpt u "id" with
      | none => pure ""
      | some j => jsonToStr j
    let R := ref.length
    let (inp, specW) := match policy with
      | "fixed" => (Input.feats 1 T, SlicePolicy.fixed lobe wt vo [T])
      | "ali" => (Input.ali 1 T [ali], SlicePolicy.ali lobe wt vo [ali] [T])
      | _ => (Input.ref 1 R [ref], SlicePolicy.ref lobe wt vo [ref] [R] [none])
    let empty := match policy with
      | "ref" => R == 0
      | _ => T == 0
    let specW := if empty then [] else specW
    let model := match sliceSpectData inp none none wt vo lobe with
      | .ok ws => listJ winJ ws
      | .error .shape => strJ "error:shape"
    let toks := specW.map fun w => SlicePolicy.tokensRow partialOk retain ref (w.start, w.stop) none
    -- the model of the worker (`dirChunks`): its windows with the token chunk it writes for each
    let pol := match policy with
      | "fixed" => Policy.fixed
      | "ali" => Policy.ali
      | _ => Policy.ref
    let chunks := match dirChunks pol wt vo lobe partialOk retain ⟨T, ali, ref⟩ with
      | .ok cs => listJ (fun (c : Win × List Tok) => objJ [("win", winJ c.1), ("toks", listJ tokJ c.2)]) cs
      | .error .shape => strJ "error:shape"
    let mut fields : List (String × Json) := [("model", model), ("spec", listJ winJ specW),
      ("tokens", listJ (listJ tokJ) toks), ("model_chunks", chunks)]
    if withFiles then
      let frames : List Int := (List.range T).map Int.ofNat
      let src : Source Int := ⟨frames, if hasAli then some ali else none, if hasRef then some ref else none⟩
      let optJ {β} (f : β → Json) (o : Option β) : Json := match o with
        | none => Json.null
        | some x => f x
      let files := match dirWorker fmt pre.toList suf.toList uid.toList pol wt lobe padMode (-1 : Int) padAli
          partialOk retain src with
        | .ok ws => listJ (fun (w : Written Int) => objJ [("base", charsJ w.base), ("feat", listJ intJ w.feat),
            ("ali", optJ (listJ intJ) w.ali), ("ref", optJ (listJ tokJ) w.ref)]) ws
        | .error .missing => strJ "error:missing"
        | .error (.slicer _) => strJ "error:slicer"
        | .error (.chunker .value) => strJ "error:ValueError"
        | .error (.chunker .runtime) => strJ "error:RuntimeError"
        | .error (.chunker .notimpl) => strJ "error:NotImplementedError"
        | .error .lens => strJ "error:AssertionError"
      let legal (w : Win) : Bool :=
        PadSlice.legalPad mode T (PadSlice.needLeft w.start w.stop) (PadSlice.needRight T w.start w.stop)
      let specFiles := specW.zipIdx.map fun (w, n) =>
        if legal w then
          objJ [("base", charsJ (baseName fmt pre.toList suf.toList uid.toList n w)),
            ("feat", listJ intJ (PadSlice.chunkSeq mode (-1 : Int) frames w.start w.stop)),
            ("ali", if hasAli then listJ intJ (PadSlice.chunkSeq mode padAli ali w.start w.stop) else Json.null)]
        else Json.null
      fields := fields ++ [("model_files", files), ("spec_files", Json.arr specFiles.toArray)]
    out := out.push (objJ fields)
  pure (objJ [("utts", Json.arr out)])

def main : IO Unit := Proto.run [("c10.slice", c10Slice), ("c10.tokens", c10Tokens), ("c10.dir", c10Dir)]
