import Driver.Proto
import PdtVerif.Model.FeatStats
import PdtVerif.Spec.FeatStats
/-! Driver for C18: mean-variance statistics, deltas, returns.

Glue only.  The one non-exact ingredient is `sqrtRat`, the stand-in for the trusted
`sqrt` primitive (IEEE double square root of the exact variance, converted back to an exact
rational); it is used only to produce the normalised outputs that the harness compares within
a tolerance. -/
open Lean Proto PdtVerif.FeatStats

def ratToFloat (q : Rat) : Float := Float.ofInt q.num / Float.ofNat q.den

/-- Exact value of a finite double. -/
def floatToRat (f : Float) : Rat :=
  if f.isNaN || f.isInf || f == 0 then 0
  else
    let (m, e) := f.frExp           -- f = m * 2^e, 0.5 ≤ |m| < 1
    let mant : Nat := (m.abs * 9007199254740992.0).toUInt64.toNat   -- |m| * 2^53, an integer
    let q : Rat := (mant : Rat) * (if e ≥ 53 then ((2 : Rat) ^ (e - 53).toNat) else 1 / ((2 : Rat) ^ (53 - e).toNat))
    if m < 0 then -q else q

def sqrtRat (q : Rat) : Rat := if q ≤ 0 then 0 else floatToRat (ratToFloat q).sqrt

def jsonToTensor (j : Json) : Except String Tensor := do
  let shape ← getNatList j "shape"
  let data ← getRatList j "data"
  if data.length ≠ prod shape then throw s!"tensor data length {data.length} ≠ prod shape {prod shape}"
  pure { shape := shape, data := data }

def ratsJ (l : List Rat) : Json := listJ ratToJson l
def tensorJ (t : Tensor) : Json := objJ [("shape", listJ natJ t.shape), ("data", ratsJ t.data)]

def normDimE (dim : Int) (D : Nat) : Except String Nat :=
  match normDim dim D with
  | some d => pure d
  | none => throw s!"dim {dim} out of range for rank {D}"

/-- Accumulate the chunks in order, then `store`.  Returns the buffers and `(mean, var)`. -/
def runAccumulate (dim : Int) (chunks : List Tensor) (bessel : Bool) :
    Except String (Option Acc × Option (List Rat × List Rat)) := do
  let mut st : Option Acc := none
  for c in chunks do
    let d ← normDimE dim c.shape.length
    st := some (accumulate st c d)
  pure (st, store st bessel)

/-- Pooled statistics per coefficient straight from the entries of the tensor whose `dim`-th
coordinate is `i` (`coeffEntries`; no use of the model's `columns`). -/
def specStats (dim : Int) (pooled : Tensor) (bessel : Bool) : Except String (List Rat × List Rat) := do
  let d ← normDimE dim pooled.shape.length
  let cols := (List.range (pooled.shape.getD d 1)).map (coeffEntries pooled d)
  pure (cols.map poolMean, cols.map (if bessel then poolVarBessel else poolVar))

/-- The same from a list of chunks (each with its own rank): the pool of coefficient `i` is the
concatenation of its entries in every chunk. -/
def specStatsChunks (dim : Int) (chunks : List Tensor) (bessel : Bool) :
    Except String (List Rat × List Rat) := do
  match chunks with
  | [] => pure ([], [])
  | c0 :: _ =>
    let d0 ← normDimE dim c0.shape.length
    let X := c0.shape.getD d0 1
    let cols ← (List.range X).mapM (fun i => do
      let parts ← chunks.mapM (fun c => do
        let d ← normDimE dim c.shape.length
        pure (coeffEntries c d i))
      pure parts.flatten)
    pure (cols.map poolMean, cols.map (if bessel then poolVarBessel else poolVar))

def accJ (st : Option Acc) : Json :=
  match st with
  | none => Json.null
  | some a => objJ [("count", natJ a.count), ("sum", ratsJ a.sum), ("sumsq", ratsJ a.sumsq)]

def statsJ (st : Option (List Rat × List Rat)) : Json :=
  match st with
  | none => Json.null
  | some (m, v) => objJ [("mean", ratsJ m), ("var", ratsJ v)]

/-- `mean_var_norm(x, dim, mean?, std?, eps)` for all four combinations of supplied / omitted
statistics.  Model: `meanVarNorm` (its first pass yields the variance of the input centred with
the mean in use, whose trusted `sqrt` is then handed back in).  Spec: `mvnSpec` with, for an omitted
statistic, the input's OWN mean / `sqrt` of the input's OWN biased variance, both computed from
`coeffEntries` (never from the supplied statistic). -/
def gridJ (x : Tensor) (d : Nat) (m sd : List Rat) (eps : Rat) : Except String Json := do
  let X := x.shape.getD d 1
  if m.length ≠ X ∨ sd.length ≠ X then throw "grid: statistics of the wrong length"
  let entries := (List.range X).map (coeffEntries x d)
  let ownMean := entries.map poolMean
  let ownVar := entries.map poolVar
  let ownSd := ownVar.map sqrtRat
  let combos : List (String × Option (List Rat) × Option (List Rat)) :=
    [("none", none, none), ("mean", some m, none), ("std", none, some sd), ("both", some m, some sd)]
  let mut mj : List (String × Json) := []
  let mut sj : List (String × Json) := []
  for (name, m?, s?) in combos do
    let (mu, v, _) := meanVarNorm x d m? s? (List.replicate X 0) eps
    if v ≠ ownVar then
      throw s!"grid ({name}): the model's variance of the centred input ≠ the input's own variance"
    if mu ≠ m?.getD ownMean then throw s!"grid ({name}): the model's mean ≠ supplied / own mean"
    let (_, _, y) := meanVarNorm x d m? s? (v.map sqrtRat) eps
    let spec := mvnSpec x d (m?.getD ownMean) (s?.getD ownSd) eps
    if y.shape ≠ spec.shape ∨ y.data ≠ spec.data then throw s!"grid ({name}): model forward ≠ formula"
    mj := mj ++ [(name, ratsJ y.data)]
    sj := sj ++ [(name, ratsJ spec.data)]
  pure (objJ [("model", objJ mj), ("spec", objJ sj), ("own_mean", ratsJ ownMean), ("own_var", ratsJ ownVar),
              ("mean", ratsJ m), ("std", ratsJ sd)])

/-- case: {dim, pooled_dim?, bessel, eps, chunks: [tensor], pooled: tensor, mid?: k}.
`mid = k`: additionally the buffers and `store` after the first `k` chunks ("accumulate after
store").  `restart`: the buffers after a fresh start with the first chunk only. -/
def c18Mvn : Handler := fun c => do
  let dim ← getInt c "dim"
  let bessel ← getBool c "bessel"
  let eps ← getRat c "eps"
  let chunks ← getList jsonToTensor c "chunks"
  let pooled ← field c "pooled" >>= jsonToTensor
  let (st, stored) ← runAccumulate dim chunks bessel
  let pdim := (← getOptInt c "pooled_dim").getD dim
  let d ← normDimE pdim pooled.shape.length
  let (smean, svar) ← specStats pdim pooled bessel
  let X := pooled.shape.getD d 1
  let entries := (List.range X).map (coeffEntries pooled d)
  let cols := columns pooled d
  if cols.length ≠ entries.length ∨ !((cols.zip entries).all (fun (a, b) => a.isPerm b)) then
    throw "model columns are not a rearrangement of the entries by coefficient"
  let ownMean := entries.map poolMean
  let ownVar := entries.map poolVar
  let ownSd := ownVar.map sqrtRat
  -- forward with the input's own statistics
  let (omean, ovar, oy) := meanVarNorm pooled d none none ownSd eps
  let ownJ := objJ [("mean", ratsJ omean), ("var", ratsJ ovar), ("y", ratsJ oy.data)]
  if omean ≠ ownMean then throw "model own mean ≠ spec"
  if ovar ≠ ownVar then throw "model own variance ≠ spec"
  let ownSpec := mvnSpec pooled d ownMean ownSd eps
  if oy.shape ≠ ownSpec.shape ∨ oy.data ≠ ownSpec.data then throw "model own forward ≠ formula"
  let mut specJ := [("mean", ratsJ smean), ("var", ratsJ svar), ("own_mean", ratsJ ownMean),
                    ("own_var", ratsJ ownVar), ("own_y", ratsJ ownSpec.data)]
  let mut out := [("acc", accJ st), ("own", ownJ)]
  match chunks with
  | c0 :: _ =>
    let d0 ← normDimE dim c0.shape.length
    out := out ++ [("restart", accJ (some (accumulate none c0 d0)))]
  | [] => pure ()
  match (← getOptNat c "mid") with
  | none => pure ()
  | some k =>
    let pre := chunks.take k
    let (st1, stored1) ← runAccumulate dim pre bessel
    let (m1, v1) ← specStatsChunks dim pre bessel
    let sj ← match stored1 with
      | none => pure Json.null
      | some (m, v) =>
        if m ≠ m1 then throw "model mid-history mean ≠ pooled mean of the prefix"
        if v ≠ v1 then throw "model mid-history variance ≠ pooled variance of the prefix"
        pure (objJ [("mean", ratsJ m), ("var", ratsJ v)])
    out := out ++ [("mid", objJ [("acc", accJ st1), ("store", sj)])]
  match stored with
  | none => out := out ++ [("store", Json.null)]
  | some (m, v) =>
    if m ≠ smean then throw s!"model stored mean ≠ pooled mean"
    if v ≠ svar then throw s!"model stored variance ≠ pooled variance"
    let (mc, vc) ← specStatsChunks dim chunks bessel
    if mc ≠ smean ∨ vc ≠ svar then throw "pooled tensor and chunks disagree (harness)"
    let sd := v.map sqrtRat
    let (_, _, y) := meanVarNorm pooled d (some m) (some sd) [] eps
    -- mean stored, std absent: own std of the input centred with the stored mean
    let mSqrt := ((meanVarNorm pooled d (some m) none (List.replicate X 0) eps).2.1).map sqrtRat
    let (_, _, yMean) := meanVarNorm pooled d (some m) none mSqrt eps
    -- std stored, mean absent
    let (_, _, yStd) := meanVarNorm pooled d none (some sd) [] eps
    let ySpec := mvnSpec pooled d smean sd eps
    let yMeanSpec := mvnSpec pooled d smean ownSd eps
    let yStdSpec := mvnSpec pooled d ownMean sd eps
    if y.shape ≠ ySpec.shape ∨ y.data ≠ ySpec.data then throw "model forward ≠ formula"
    if yMean.data ≠ yMeanSpec.data then throw "model forward (mean only) ≠ formula"
    if yStd.data ≠ yStdSpec.data then throw "model forward (std only) ≠ formula"
    specJ := specJ ++ [("y", ratsJ ySpec.data), ("y_mean_only", ratsJ yMeanSpec.data),
                       ("y_std_only", ratsJ yStdSpec.data)]
    out := out ++ [("store", objJ [("mean", ratsJ m), ("var", ratsJ v), ("y", ratsJ y.data),
      ("y_mean_only", ratsJ yMean.data), ("y_std_only", ratsJ yStd.data)])]
  -- forward grids: {x, dim, mean, std} with supplied statistics, or {x, dim, use_stored: true}
  let grids ← match fieldOpt c "grids" with
    | none => pure []
    | some g => jsonToList pure g
  let mut gj : List Json := []
  for g in grids do
    let gx ← field g "x" >>= jsonToTensor
    let gdim ← getInt g "dim"
    let gd ← normDimE gdim gx.shape.length
    match fieldOpt g "use_stored" with
    | some _ =>
      match stored with
      | none => gj := gj ++ [Json.null]
      | some (m, v) => gj := gj ++ [← gridJ gx gd m (v.map sqrtRat) eps]
    | none =>
      let gm ← getRatList g "mean"
      let gs ← getRatList g "std"
      gj := gj ++ [← gridJ gx gd gm gs eps]
  out := out ++ [("grids", Json.arr gj.toArray)]
  pure (objJ (out ++ [("spec", objJ specJ)]))

/-- case: {dim, bessel, groups: [{gid, files: [tensor] (in sorted-id order)}],
files?: [{id, x: tensor}] (sorted ids), map?: [[id, gid]] | null}.
`groups` (the harness' own grouping) is evaluated group by group with `accumulate`/`store`; when
`files` is present the model of the command itself (`cliStats`: group table, one accumulator per
group, lookups, exit status) is run as well and must agree with the per-group evaluation. -/
def c18Cli : Handler := fun c => do
  let dim ← getInt c "dim"
  let bessel ← getBool c "bessel"
  let groups ← field c "groups" >>= jsonToList (fun g => do
    let gid ← getStr g "gid"
    let files ← getList jsonToTensor g "files"
    pure (gid, files))
  let outs ← groups.mapM (fun (gid, files) => do
    let (_, stored) ← runAccumulate dim files bessel
    pure (gid, files, stored))
  let outsJ := outs.map (fun (gid, _, stored) =>
    objJ [("gid", strJ gid), ("stats", match stored with
      | none => Json.null
      | some (m, v) => objJ [("mean", ratsJ m), ("var", ratsJ v)])])
  match fieldOpt c "files" with
  | none => pure (Json.arr outsJ.toArray)
  | some fj =>
    let files ← jsonToList (fun f => do
      let id ← getStr f "id"
      let x ← field f "x" >>= jsonToTensor
      let d ← normDimE dim x.shape.length
      pure (id, columns x d)) fj
    let map ← match fieldOpt c "map" with
      | none => pure none
      | some mj => do
        let l ← jsonToList (fun p => do
          let a ← jsonToList jsonToStr p
          pure (a.getD 0 "", a.getD 1 "")) mj
        pure (some l)
    let res := cliStats map files bessel
    let nonEmpty := outs.filter (fun (_, files, _) => !files.isEmpty)
    let resJ ← match res with
      | .exit1 => pure (strJ "exit1")
      | .raised =>
        if !(nonEmpty.any (fun (_, _, stored) => stored.isNone)) then
          throw "cli: command model raises, per-group evaluation does not"
        pure (strJ "raised")
      | .wrote l =>
        -- same groups (as a set, the harness sorts) and same statistics as the per-group evaluation
        let key := fun (g : Option String) => g.getD ""
        if l.length ≠ nonEmpty.length then throw "cli: command model and per-group evaluation differ in groups"
        for (g, st) in l do
          match nonEmpty.find? (fun (gid, _, _) => gid == key g) with
          | some (_, _, some st') => if st ≠ st' then throw s!"cli: group {key g}: command model ≠ per-group statistics"
          | _ => throw s!"cli: group {key g} of the command model not in the per-group evaluation"
        pure (listJ (fun (g, st) => objJ [("gid", strJ (key g)), ("stats", statsJ (some st))]) l)
    pure (objJ [("groups", Json.arr outsJ.toArray), ("command", resJ)])

/-- case: {dim, tensors: [tensor], ops: [{"acc": k} | {"store": [delete_stats, bessel]}],
preset: bool}.  Runs the state machine `mvnStep` call by call and, next to it, the declarative
description (`pendingSpec` / `statsSpec` / pooled statistics straight from `coeffEntries` of the
pending tensors); throws when they differ.  `preset`: the module starts with some statistics
(their value is not the model's business: it reports `"preset"` until a store overwrites them). -/
def c18Machine : Handler := fun c => do
  let dim ← getInt c "dim"
  let tensors ← getList jsonToTensor c "tensors"
  let opsJ ← field c "ops" >>= jsonToList pure
  let mut ops : List (MvnOp × Option Tensor) := []
  for o in opsJ do
    match fieldOpt o "acc" with
    | some k =>
      let k ← jsonToNat k
      let some t := tensors[k]? | throw "machine: tensor index out of range"
      let d ← normDimE dim t.shape.length
      ops := ops ++ [(MvnOp.accumulate (columns t d), some t)]
    | none =>
      let a ← getList jsonToBool o "store"
      ops := ops ++ [(MvnOp.store (a.getD 0 true) (a.getD 1 false), none)]
  let mut s : MvnState := ⟨none, none⟩
  let mut done : List MvnOp := []
  let mut pendT : List Tensor := []          -- tensors pending according to the spec
  let mut everStored := false
  let mut steps : List Json := []
  for (op, t?) in ops do
    let (s', raised) := mvnStep s op
    done := done ++ [op]
    -- the spec side, from the list of calls only
    let pend := pendingSpec [] done
    let st := statsSpec [] none done
    if s'.acc ≠ accumulateAllCols pend then throw "machine: buffers ≠ accumulateAllCols (pendingSpec ops)"
    if s'.stats ≠ st then throw "machine: statistics ≠ statsSpec ops"
    if mvnRun ⟨none, none⟩ done ≠ s' then throw "machine: mvnRun ≠ iterated mvnStep"
    -- and entry-level: pooled statistics of the pending tensors at a successful store
    let mut specStore := Json.null
    match op, t? with
    | .accumulate _, some t => pendT := pendT ++ [t]
    | .store del bessel, _ =>
      if !raised then
        let (m1, v1) ← specStatsChunks dim pendT bessel
        if s'.stats ≠ some (m1, v1) then throw "machine: stored statistics ≠ pooled statistics of the pending entries"
        specStore := statsJ (some (m1, v1))
        everStored := true
        if del then pendT := []
      else
        let frames := framesOf (pendingSpec [] (done.dropLast))
        if ¬ (pendT.isEmpty ∨ frames < (if bessel then 2 else 1)) then throw "machine: store raised with enough frames"
    | _, _ => pure ()
    if pendT.length ≠ pend.length then throw "machine: pending tensors ≠ pendingSpec"
    steps := steps ++ [objJ [("raised", boolJ raised), ("acc", accJ s'.acc), ("stats", statsJ s'.stats),
                              ("stored_now", specStore), ("ever_stored", boolJ everStored),
                              ("pending", natJ pend.length)]]
    s := s'
  pure (objJ [("steps", Json.arr steps.toArray)])

def parsePad (s : String) (v : Rat) : Except String PadMode :=
  match s with
  | "replicate" => pure .replicate | "constant" => pure (.constant v)
  | "reflect" => pure .reflect | "circular" => pure .circular
  | _ => throw s!"bad pad mode {s}"

/-- case: {x: tensor, dim, time_dim, concatenate, order, width, pad_mode, value}. -/
def c18Deltas : Handler := fun c => do
  let x ← field c "x" >>= jsonToTensor
  let dim ← getInt c "dim"
  let td ← getInt c "time_dim"
  let cat ← getBool c "concatenate"
  let order ← getInt c "order"
  let width ← getInt c "width"
  let value ← getRat c "value"
  let mode ← getStr c "pad_mode" >>= (parsePad · value)
  if order < 0 ∨ width < 0 then return objJ [("model", strJ "error"), ("spec", strJ "error")]
  let m := featDeltas x dim td cat order.toNat width.toNat mode
  let s := featDeltasSpec x dim td cat order.toNat width.toNat mode
  let filt := match deltaFilters order.toNat width.toNat with
    | some f => listJ ratsJ f
    | none => Json.null
  match m, s with
  | none, none => pure (objJ [("model", strJ "error"), ("spec", strJ "error"), ("filters", filt)])
  | some a, some b =>
    if a.shape ≠ b.shape ∨ a.data ≠ b.data then
      throw s!"deltas: model ≠ spec: model shape {a.shape} spec shape {b.shape}"
    pure (objJ [("model", tensorJ a), ("spec", tensorJ b), ("filters", filt)])
  | some _, none => throw "deltas: model has a value, spec says error"
  | none, some _ => throw "deltas: model says error, spec has a value"

/-- case: {r: [[rat]], cols, gamma, batch_first}. -/
def c18Return : Handler := fun c => do
  let r ← getList (jsonToList jsonToRat) c "r"
  let cols ← getNat c "cols"
  let g ← getRat c "gamma"
  let bf ← getBool c "batch_first"
  if r.any (·.length ≠ cols) then throw "ragged reward matrix"
  let m := tdReturn r cols g bf
  let spec :=
    if bf then r.map (returnsSpec g)
    else
      let colsR := (List.range cols).map (fun n => returnsSpec g (r.map (·.getD n 0)))
      (List.range r.length).map (fun t => colsR.map (·.getD t 0))
  if m ≠ spec then throw "returns: model ≠ spec"
  if tdReturnQuot r cols g bf ≠ spec then throw "returns: quotient-form model ≠ spec"
  pure (objJ [("model", listJ ratsJ m), ("spec", listJ ratsJ spec)])

def main : IO Unit := Proto.run
  [("c18.mvn", c18Mvn), ("c18.machine", c18Machine), ("c18.cli", c18Cli), ("c18.deltas", c18Deltas), ("c18.return", c18Return)]
