import Driver.Proto
import PdtVerif.Model.SeqScore
import PdtVerif.Model.SeqScoreWalk
import PdtVerif.Model.SeqScoreGreedy
import PdtVerif.Model.SeqScoreCache
import PdtVerif.Spec.SeqScore
/-! Driver for C07: sequence scores (padded / packed), random walk, distribution wrapper,
greedy CTC. Every reply carries the algorithmic model's output and the declarative spec. -/
open Lean Proto PdtVerif.SeqScore

def ratsJ (l : List Rat) : Json := listJ ratToJson l
def natsJ (l : List Nat) : Json := listJ natJ l
def optRatJ (o : Option Rat) : Json := match o with | none => strJ "-inf" | some q => ratToJson q

def fnOfList {α} (d : α) (l : List α) : Nat → α :=
  let a := l.toArray
  fun i => a.getD i d

def getOptNatList (j : Json) (k : String) : Except String (Option (List Nat)) :=
  match fieldOpt j k with
  | none => .ok none
  | some v => some <$> jsonToList jsonToNat v

/-- LM tables: per batch element a list of `{"h": history, "row": log-softmax row}` plus a
default row for histories that are not listed. -/
def parseLM (c : Json) : Except String LM := do
  let dflt ← getRatList c "lm_default"
  let tabs ← getList (jsonToList (fun e => do
      let h ← getNatList e "h"
      let r ← getRatList e "row"
      pure (h, r))) c "lm"
  let tabsA := tabs.toArray
  pure (fun n hist v =>
    match (tabsA.getD n []).lookup hist with
    | some row => row.getD v 0
    | none => dflt.getD v 0)

/-- c07.seq: {shape, V, dim, eos, lsm (flat), hyp (flat), cols: [{hyp, lsm: [[..]]}]} -/
def c07Seq : Handler := fun c => do
  let shape ← getNatList c "shape"
  let V ← getNat c "V"
  let dim ← getInt c "dim"
  let eos ← getOptInt c "eos"
  let lsm ← getRatList c "lsm"
  let hyp ← getIntList c "hyp"
  let model := seqLogProbs shape V dim eos (fnOfList 0 lsm) (fnOfList 0 hyp)
  let cols ← match fieldOpt c "cols" with
    | none => pure []
    | some v => jsonToList (fun e => do
        let h ← getIntList e "hyp"
        let r ← getList (jsonToList jsonToRat) e "lsm"
        pure (h, r)) v
  let spec := cols.map (fun hr =>
    let rows := hr.2.toArray
    Spec.seqScore V eos (fun t v => (rows.getD t []).getD v 0) hr.1)
  pure (objJ [("model", optJ ratsJ model), ("spec", ratsJ spec)])

/-- c07.packed: {V, N, T, rows: R×V, bs, sidx, uidx, hyp: N×T, lens: N, padded: N×T×V} -/
def c07Packed : Handler := fun c => do
  let V ← getNat c "V"
  let N ← getNat c "N"
  let T ← getNat c "T"
  let rows ← getList (jsonToList jsonToRat) c "rows"
  let bs ← getNatList c "bs"
  let sidx ← getOptNatList c "sidx"
  let uidx ← getOptNatList c "uidx"
  let hyp ← getList (jsonToList jsonToInt) c "hyp"
  let rowsA := rows.toArray
  let hypA := hyp.toArray
  let model := seqLogProbsPacked V N T (fun r v => (rowsA.getD r []).getD v 0) bs sidx uidx
    (fun n t => (hypA.getD n []).getD t 0)
  let spec ← match fieldOpt c "padded" with
    | none => pure []
    | some p => do
      let padded ← jsonToList (jsonToList (jsonToList jsonToRat)) p
      let lens ← getNatList c "lens"
      let pa := padded.toArray
      pure ((List.range lens.length).map (fun n =>
        let x := (pa.getD n []).toArray
        Spec.seqScore V none (fun t v => (x.getD t []).getD v 0)
          ((hypA.getD n []).take (lens.getD n 0))))
  -- the hypotheses of C07_packed, evaluated on this case
  let hbs := batchSizesOfLens (lensOfBatchSizes N bs) == bs
  let layout ← match fieldOpt c "padded" with
    | none => pure true
    | some p => do
      let padded ← jsonToList (jsonToList (jsonToList jsonToRat)) p
      let pa := padded.toArray
      pure ((List.range bs.length).all (fun t =>
        (List.range (bs.getD t 0)).all (fun i =>
          rowsA.getD ((bs.take t).foldl (· + ·) 0 + i) []
            == ((pa.getD (sortIdx sidx i) []).getD t []))))
  -- the hypotheses of C07_packed_valid / C07_packed_seq (a valid PackedSequence)
  let bsA := bs.toArray
  let mono := (List.range bs.length).all (fun i => (List.range i).all (fun j => bsA.getD i 0 ≤ bsA.getD j 0))
  let pos := bs.all (fun b => 0 < b)
  let head := bs.head? == some N
  let steps := decide (bs.length ≤ T)
  let perm := match sidx, uidx with
    | none, none => true
    | some s, some u => s.length == N && u.length == N && s.all (fun i => decide (i < N)) &&
        (List.range N).all (fun j => decide (u.getD j 0 < N) && s.getD (u.getD j 0) 0 == j)
    | _, _ => false
  -- the length C07_packed_seq assigns to sequence j = the length it was packed with
  let lensGiven ← match fieldOpt c "lens" with
    | none => pure none
    | some v => some <$> jsonToList jsonToNat v
  let lensOk := match lensGiven with
    | none => true
    | some ls => (List.range N).all (fun j =>
        let pos := match uidx with | none => j | some u => u.getD j 0
        (bs.filter (fun b => decide (pos < b))).length == ls.getD j 0)
  pure (objJ [("model", optJ ratsJ model), ("spec", ratsJ spec),
    ("flags", objJ [("hbs", boolJ hbs), ("layout", boolJ layout), ("mono", boolJ mono),
      ("pos", boolJ pos), ("head", boolJ head), ("steps", boolJ steps), ("perm", boolJ perm),
      ("lens", boolJ lensOk)])])

def getOptBool (j : Json) (k : String) : Except String (Option Bool) :=
  match fieldOpt j k with
  | none => .ok none
  | some v => some <$> jsonToBool v

def shapedJ (t : Shaped (Option Rat)) : Json :=
  objJ [("shape", natsJ t.shape), ("data", listJ optRatJ t.cells)]

/-- a `log_prob` outcome: `{shape, data}` or the name of the error class -/
def distOutJ (r : Except DistErr (Shaped (Option Rat))) : Json :=
  match r with
  | .ok t => shapedJ t
  | .error .valueError => strJ "ValueError"
  | .error .assertion => strJ "AssertionError"
  | .error .scoring => strJ "IndexError"

def columnOf (rows : List (List Nat)) (n : Nat) : List Nat := rows.map (fun r => r.getD n 0)

/-- `Rows N V D` (hypothesis of `C07_walk`), evaluated. -/
def rowsOk (N V : Nat) (D : List (List Nat)) : Bool :=
  D.all (fun r => r.length == N && r.all (fun x => decide (x < V)))

/-- `Forced eos N D` (hypothesis of `C07_walk`), evaluated. -/
def forcedOk (eos : Option Nat) (N : Nat) (D : List (List Nat)) : Bool :=
  match eos with
  | none => true
  | some e => (List.range N).all (fun n =>
      let col := (columnOf D n).toArray
      (List.range col.size).all (fun j => (List.range j).all (fun i =>
        col.getD i 0 != e || col.getD j 0 == e)))

/-- All draw hypotheses of `C07_walk` / `C07_sample_*` on one draw matrix. -/
def drawHyps (V : Nat) (eos : Option Nat) (N T : Nat) (D : List (List Nat)) : Bool :=
  (match eos with | none => decide (T ≤ D.length) | some e => decide (e < V)) &&
    rowsOk N V (D.take T) && forcedOk eos N (D.take T)

/-- c07.walk: {V, N, eos, max_iters, lm, lm_default, draws: steps×N} -/
def c07Walk : Handler := fun c => do
  let V ← getNat c "V"
  let N ← getNat c "N"
  let eos ← getOptNat c "eos"
  let T ← getNat c "max_iters"
  let lm ← parseLM c
  let draws ← getList (jsonToList jsonToNat) c "draws"
  let s := walk lm V eos N T draws
  let cols := (List.range N).map (fun n => column s.y n)
  let rescored := (List.range N).map (fun n =>
    distLogProb lm V eos n ((column s.y n).map Int.ofNat))
  -- spec: straight from the draws
  let dcols := (List.range N).map (fun n => columnOf (draws.take T) n)
  let paths := dcols.map (Spec.pathOf eos)
  let steps := (paths.map List.length).foldl max 0
  let chained := (List.zip (List.range N) paths).map (fun np => Spec.chained (lm np.1) [] np.2)
  pure (objJ [
    ("model", objJ [("rows", natJ s.y.length), ("y", listJ natsJ cols), ("lens", natsJ s.lens),
      ("lp", listJ optRatJ s.lp), ("done", listJ boolJ s.done), ("rescored", ratsJ rescored)]),
    ("spec", objJ [("paths", listJ natsJ paths), ("steps", natJ steps),
      ("chained", ratsJ chained)]),
    -- the hypotheses of C07_walk_state / C07_walk, evaluated on this case
    ("flags", objJ [("eos", boolJ (match eos with | none => true | some e => decide (e < V))),
      ("rows", boolJ (rowsOk N V (draws.take T))), ("forced", boolJ (forcedOk eos N (draws.take T)))])])

/-- c07.advance: {lp_t: N×V, lp_prev: N, y_prev: S×N, lens (or null), draw: N} -/
def c07Advance : Handler := fun c => do
  let lpT ← getList (jsonToList jsonToRat) c "lp_t"
  let lpPrev ← getRatList c "lp_prev"
  let yPrev ← getList (jsonToList jsonToNat) c "y_prev"
  let lens ← getOptNatList c "lens"
  let draw ← getNatList c "draw"
  let r := advance (lpT.map (fun row => row.map some)) (lpPrev.map some) yPrev lens draw
  pure (objJ [("model", objJ [("y", listJ natsJ r.1), ("lp", listJ optRatJ r.2)])])

def sortRows (rows : List (List Nat)) : List (List Nat) := rows.foldr insertSorted []

/-- c07.dist: {V, N, eos, max_iters (or null), lm, lm_default, probs (optional LM of conditional
probabilities, same format under "plm"/"plm_default"), values: [{n, seq}], pinned} -/
def c07Dist : Handler := fun c => do
  let V ← getNat c "V"
  let eos ← getOptNat c "eos"
  let T ← getOptNat c "max_iters"
  let lm ← parseLM c
  let pinned ← getBool c "pinned"
  let values ← getList (fun e => do
      let n ← getNat e "n"
      let s ← getIntList e "seq"
      pure (n, s)) c "values"
  let eosI := eos.map Int.ofNat
  let lps := values.map (fun ns => distLogProb lm V eos ns.1 ns.2)
  let specLps := values.map (fun ns =>
    let hist := ns.2.map Int.toNat
    Spec.seqScore V eosI (fun t v => lm ns.1 (hist.take t) v) ns.2)
  -- `log_prob` accepts the value: validation off (`validate_args=False`) or `_validate_sample` passes
  let va ← getOptBool c "validate_args"
  let valid := values.map (fun ns => !(validating va) || validateSample pinned V eosI T ns.2)
  let check := values.map (fun ns => supportCheck V eosI T ns.2)
  let (supp, specSupp, mass) ← match T with
    | none => pure (Json.null, Json.null, Json.null)
    | some t =>
      let m := enumerateSupport V t eos
      let sp := Spec.support V eos t
      let mass ← match fieldOpt c "plm" with
        | none => pure Json.null
        | some _ => do
          let plm ← parseLM (objJ [("lm", (c.getObjVal? "plm").toOption.getD Json.null),
            ("lm_default", (c.getObjVal? "plm_default").toOption.getD Json.null)])
          let N ← getNat c "N"
          pure (ratsJ ((List.range N).map (fun n => (sp.map (Spec.seqProb eos (plm n) [])).sum)))
      pure (listJ natsJ m, listJ natsJ (sortRows sp), mass)
  pure (objJ [
    ("model", objJ [("support", supp), ("log_probs", ratsJ lps), ("valid", listJ boolJ valid),
      ("check", listJ boolJ check)]),
    ("spec", objJ [("support", specSupp), ("log_probs", ratsJ specLps), ("mass", mass)])])

/-- c07.sample: {V, N (null = no batch shape), M, eos, max_iters (null = no step limit),
lm, lm_default, draws: M × steps × N (batched) or steps × M (flat)} -/
def c07Sample : Handler := fun c => do
  let V ← getNat c "V"
  let N ← getOptNat c "N"
  let M ← getNat c "M"
  let eos ← getOptNat c "eos"
  let Topt ← getOptNat c "max_iters"
  -- `RandomWalk.forward`: "practically infinite" when `max_iters` is unset
  let T := Topt.getD 1073741824
  let lm ← parseLM c
  let (rows, ns) ← match N with
    | none => do
      let draws ← getList (jsonToList jsonToNat) c "draws"
      pure (sampleFlat lm V eos M T draws, (List.range M))
    | some n => do
      let draws ← getList (jsonToList (jsonToList jsonToNat)) c "draws"
      pure (sampleBatched lm V eos n T draws, (List.range (M * n)).map (· % n))
  let eosI := eos.map Int.ofNat
  -- without a batch shape every sample is its own batch element of the single walk; the
  -- harness LM ignores the batch index in that case (lm tables are all equal)
  let lps := (List.zip ns rows).map (fun nr => distLogProb lm V eos nr.1 (nr.2.map Int.ofNat))
  let valid := rows.map (fun r => validateSample false V eosI Topt (r.map Int.ofNat))
  -- the calls the harness makes on one distribution object, through the cache state machine
  let va ← getOptBool c "validate_args"
  let walkLp ← match N with
    | none => do
      let draws ← getList (jsonToList jsonToNat) c "draws"
      pure (sampleFlatLp lm V eos M T draws)
    | some n => do
      let draws ← getList (jsonToList (jsonToList jsonToNat)) c "draws"
      pure (sampleBatchedLp lm V eos n T draws)
  let rowsA := rows.toArray
  -- the script of calls the harness makes on one distribution object; the caller's tensors are
  -- named by numbers, their content is given by row indices into the (first) sample
  let sampleShape ← match fieldOpt c "sample_shape" with
    | none => pure [M]
    | some v => jsonToList jsonToNat v
  let drawn := if M == 0 then emptySample sampleShape N Topt else sampleValue sampleShape N rows
  let drawnLp := sampleScores sampleShape N rows walkLp
  let width := if M == 0 then Topt.getD 1 else rowsWidth rows
  let ops ← match fieldOpt c "trace" with
    | none => pure []
    | some t => jsonToList (fun e => do
        let op ← getStr e "op"
        if op == "sample" then do
          let r ← getNat e "ref"
          pure (CallOp.sample r (M == 0) drawn drawnLp)
        else if op == "clear" then pure CallOp.clearCache
        else if op == "lp" then do
          let r ← getNat e "ref"
          pure (CallOp.logProb r)
        else if op == "edit" then do
          let k ← getNat e "call"
          -- `scores.sub_(1)`
          pure (CallOp.editScores k (fun (t : Shaped (Option Rat)) =>
            ⟨t.shape, t.cells.map (fun x => x.map (· - 1))⟩))
        else do
          -- "new" / "set": a tensor of shape sshape + batch_shape + (S,) holding the named rows
          let r ← getNat e "ref"
          let idx ← getNatList e "idx"
          let ss ← getNatList e "sshape"
          -- "pad": the paths padded with eos up to the step limit (`torch.nn.functional.pad`)
          let pad := match fieldOpt e "pad", eos, Topt with
            | some (Json.bool true), some _, some t => t - width
            | _, _, _ => 0
          pure (CallOp.setValue r ⟨ss ++ batchShape N ++ [width + pad],
            idx.map (fun i => rowsA.getD i [] ++ List.replicate pad (eos.getD 0))⟩)) t
  let cfg := fun (cache : Bool) => distCfg lm V eos Topt N cache va
  let aliased := fun (cache : Bool) => listJ distOutJ (runAliased (cfg cache) AliasState.init ops)
  let repaired := fun (cache : Bool) => listJ distOutJ (runCalls (cfg cache) ops)
  let reference := listJ distOutJ (refCalls (cfg true) ops)
  -- the draw hypotheses of C07_sample_in_support / C07_sample_batched_in_support / C07_sample_flat_scored
  let hyps ← match N with
    | none => do
      let draws ← getList (jsonToList jsonToNat) c "draws"
      pure (M == 0 || drawHyps V eos M T draws)
    | some n => do
      let draws ← getList (jsonToList (jsonToList jsonToNat)) c "draws"
      pure (draws.all (drawHyps V eos n T))
  -- hypothesis of C07_log_prob_cache, evaluated: the walks' scores are the scores of the rows
  let scored := M == 0 || decide (drawnLp = (cfg true).score drawn)
  let inSupp := rows.map (fun r => match Topt with
    | some t => (Spec.support V eos t).contains (padTo t (eos.getD 0) r)
    | none => supportCheck V eosI none (r.map Int.ofNat) && fillAfterEos r (eos.getD 0) (eos.getD 0) == r)
  pure (objJ [
    ("model", objJ [("rows", listJ natsJ rows), ("log_probs", ratsJ lps),
      ("valid", listJ boolJ valid), ("width", natJ width),
      ("aliased_cached", aliased true), ("aliased_fresh", aliased false),
      ("repaired_cached", repaired true), ("repaired_fresh", repaired false)]),
    ("spec", objJ [("in_support", listJ boolJ inSupp), ("reference", reference)]),
    ("flags", objJ [("scored", boolJ scored), ("draw_hyps", boolJ hyps)])])

/-- c07.lpraise: {V, N (null = no batch shape), eos, max_iters, lm, lm_default, validate_args,
values: [rows], trace: [{op: "lp", val: k} | {op: "clear"}]} — `log_prob` calls on one object whose
language model raises on out-of-vocabulary history tokens (`oovInHistory`): the state machine with
the pinned and with the repaired write order, cache on and off, and the cache-free reference. -/
def c07LpRaise : Handler := fun c => do
  let V ← getNat c "V"
  let N ← getOptNat c "N"
  let eos ← getOptNat c "eos"
  let Topt ← getOptNat c "max_iters"
  let lm ← parseLM c
  let va ← getOptBool c "validate_args"
  let values ← getList (jsonToList (jsonToList jsonToNat)) c "values"
  let valuesA := values.toArray
  let ops ← getList (fun e => do
      let op ← getStr e "op"
      if op == "clear" then pure (DistOp.clearCache (Value := Shaped (List Nat)) (Scores := Shaped (Option Rat)))
      else do
        let k ← getNat e "val"
        -- the harness hands over `torch.tensor(rows).view(1, [N,] T)`
        let rows := valuesA.getD k []
        pure (DistOp.logProb ⟨[1] ++ batchShape N ++ [rowsWidth rows], rows⟩)) c "trace"
  -- `raises`: which values make the language model raise. Code as pinned: every value with an
  -- out-of-vocabulary token in `hist[:-1]`; with `fill_after_eos` before the model (proposed
  -- repair): only when that token sits before the first eos.
  let variant := fun (raises : List (List Nat) → Bool) =>
    let cfg := fun (cache : Bool) => distCfg lm V eos Topt N cache va raises
    let run := fun (pinned cache : Bool) => listJ distOutJ (runDist pinned (cfg cache) DistCache.empty ops)
    let ref := listJ distOutJ ((logProbArgs ops).map (refLogProb (cfg true)))
    -- hypothesis of C07_log_prob_cache_pinned_partial, evaluated: no call reaches a raising scorer
    let scorable := (logProbArgs ops).all (fun v =>
      (validating va && !(cfg true).valid v) || (cfg true).isEmpty v || !(cfg true).raises v)
    objJ [
      ("model", objJ [("pinned_cached", run true true), ("pinned_fresh", run true false),
        ("repaired_cached", run false true), ("repaired_fresh", run false false)]),
      ("spec", objJ [("reference", ref)]),
      ("flags", objJ [("scorable", boolJ scorable)])]
  let plain := variant (oovInHistory V)
  let filled := variant (oovBeforeEos V eos)
  pure (objJ [
    ("model", (plain.getObjVal? "model").toOption.getD Json.null),
    ("spec", (plain.getObjVal? "spec").toOption.getD Json.null),
    ("flags", (plain.getObjVal? "flags").toOption.getD Json.null),
    ("filled", filled)])

/-- c07.greedy: {V, frames: N×T×V, lens (or null), blank, is_probs} -/
def c07Greedy : Handler := fun c => do
  let V ← getNat c "V"
  let frames ← getList (jsonToList (jsonToList jsonToRat)) c "frames"
  let lens ← getOptNatList c "lens"
  let blank ← getInt c "blank"
  let isProbs ← getBool c "is_probs"
  match normBlank V blank with
  | none => pure (objJ [("model", strJ "error"), ("spec", Json.null)])
  | some b =>
    let out := ctcGreedy frames lens b isProbs
    let paths := (List.zip out.paths out.outLens).map (fun pl => pl.1.take pl.2)
    let lenOf := fun (n : Nat) (fr : List (List Rat)) => match lens with
      | none => fr.length
      | some ls => ls.getD n 0
    let ties := frames.zipIdx.map (fun fn => (fn.1.take (lenOf fn.2 fn.1)).any frameTie)
    let specLabels := frames.zipIdx.map (fun fn =>
      Spec.greedyLabels b (lenOf fn.2 fn.1) (fn.1.map (fun row => (frameMax row).2)))
    let specScore := frames.zipIdx.map (fun fn =>
      Spec.greedyScore isProbs (lenOf fn.2 fn.1) (fn.1.map (fun row => (frameMax row).1)))
    pure (objJ [
      ("model", objJ [("score", ratsJ out.score), ("paths", listJ natsJ paths),
        ("out_lens", natsJ out.outLens)]),
      ("spec", objJ [("labels", listJ natsJ specLabels), ("score", ratsJ specScore)]),
      ("flags", objJ [("tie", listJ boolJ ties)])])

def main : IO Unit := Proto.run [
  ("c07.seq", c07Seq), ("c07.packed", c07Packed), ("c07.walk", c07Walk),
  ("c07.dist", c07Dist), ("c07.advance", c07Advance), ("c07.sample", c07Sample), ("c07.lpraise", c07LpRaise),
  ("c07.greedy", c07Greedy)]
