import Driver.Proto
import PdtVerif.Model.NgramTrie
import PdtVerif.Model.NgramFlatCheck
import PdtVerif.Model.NgramBuildMem
import PdtVerif.Spec.Backoff
import PdtVerif.Model.NgramArpa
/-! Driver for C06: builds the flat trie from a table, evaluates the lookup model
(all positions, every chunk size, per-index) and the Katz recursion on the raw table. -/
open Lean Proto PdtVerif.NgramTrie

def lpJ : LogP → Json
  | .fin q => ratToJson q
  | .negInf => strJ "-inf"
  | .nan => strJ "nan"

def jsonToLP (j : Json) : Except String LogP :=
  match j with
  | .str "-inf" => .ok .negInf
  | .str "nan" => .ok .nan
  | _ => LogP.fin <$> jsonToRat j

def parseItem (j : Json) : Except String Item := do
  let key ← getIntList j "key"
  let lp ← field j "logp" >>= jsonToLP
  let lb ← match fieldOpt j "logb" with
    | none => pure (LogP.fin 0)
    | some v => jsonToLP v
  pure ⟨key, lp, lb⟩

def optJ' (o : Option Rat) : Json := match o with | some q => ratToJson q | none => strJ "-inf"

def buffersJ (b : Buffers) : Json := objJ [
  ("N", natJ b.N), ("G", natJ b.G), ("S", natJ b.S),
  ("offsets", listJ natJ b.offsets.toList), ("ids", listJ intJ b.ids.toList),
  ("logps", listJ lpJ b.logps.toList), ("logbs", listJ lpJ b.logbs.toList),
  ("offBits", natJ b.offBits), ("idBits", natJ b.idBits)]

def full3J (x : List (List (List LogP))) : Json := listJ (listJ (listJ lpJ)) x

def itemJ (e : Item) : Json := objJ [("key", listJ intJ e.key), ("logp", lpJ e.logp), ("logb", lpJ e.logb)]

/-- What the caller sees of the table it handed over: list object 0 and the dict objects it had put there
(`addrs0`: their addresses, position by position – `0 … n-1` unless the caller put one dict object at
several positions). -/
def callerJ (m : Mem) (addrs0 : List Nat) : Json := objJ [
  ("outer_len", natJ (m.list 0).length),
  ("dicts", listJ (listJ itemJ) (addrs0.map m.dict))]

/-- The Katz recursion on a raw table for every position of every history. -/
def specFullOf (dicts : List (List Item)) (V : Nat) (sos : Int) (B : Nat) (hist : List (List Int)) :
    List (List (List (Option Rat))) :=
  let tbl := PdtVerif.Backoff.ofList (tableOf dicts)
  (List.range (hist.length + 1)).map (fun t => (List.range B).map (fun bb =>
    PdtVerif.Backoff.row tbl V (PdtVerif.Backoff.context dicts.length sos (col hist bb) t)))

/-- Later constructions from the SAME table object: `{sos, destructive, hist}` each. Threads the heap. -/
def runSteps (V B : Nat) (n0 : List Nat) (raw : List (List Item)) : Mem → List (Int × Bool × List (List Int)) → List Json
  | _, [] => []
  | m, (sos, d, hist) :: rest =>
    let now := m.table 0
    let r := buildTrieMem d V sos m 0
    let common := [("table_is_raw", boolJ (decide (now = raw))), ("table_after", callerJ r.2 n0)]
    let j := match r.1 with
      | none => objJ ([("build", Json.null)] ++ common)
      | some b =>
        let full := fullChunked b V sos B hist 1
        objJ ([("build", buffersJ b), ("full", full3J full),
               ("chunk2_agree", boolJ (decide (fullChunked b V sos B hist 2 = full))),
               ("table_ok", boolJ (tableOK now)),
               ("spec_full", listJ (listJ (listJ optJ')) (specFullOf now V sos B hist))] ++ common)
    j :: runSteps V B n0 raw r.2 rest

/-- case: {V, sos, dicts: [[{key, logp, logb?}..]..], B, hist: [[..]..] (T rows of B),
chunks: [c..], idxs: [[i..]..], view?: {storage: [..], off, sT, sB}, destructive?: bool,
steps?: [{sos, destructive, hist}], addrs?: [a..] (the dict object at every position of the caller's list:
absent = `0 … n-1`, all distinct; `[0, 0, 2]` = ONE dict object put at positions 0 and 1)}.
The construction is the procedure `buildTrieMem` on a heap that holds the caller's table; the later
`steps` construct again from the same table object.
Reply: {build: null | buffers, table_after, steps: [..], shape, full, chunk_agree: [bool], byidx_agree,
idx: [rows..], spec_full} -/
def c06Table : Handler := fun c => do
  let V ← getNat c "V"
  let sos ← getInt c "sos"
  let dicts ← getList (jsonToList parseItem) c "dicts"
  let B ← getNat c "B"
  let hist ← getList (jsonToList jsonToInt) c "hist"
  let chunks ← getNatList c "chunks"
  let idxs ← getList (jsonToList jsonToNat) c "idxs"
  let destructive ← match fieldOpt c "destructive" with
    | some (Json.bool x) => pure x
    | _ => pure false
  let steps ← match fieldOpt c "steps" with
    | none => pure []
    | some (Json.arr a) => a.toList.mapM (fun sj => do
        let s ← getInt sj "sos"
        let d ← match fieldOpt sj "destructive" with
          | some (Json.bool x) => pure x
          | _ => pure false
        let h ← getList (jsonToList jsonToInt) sj "hist"
        pure (s, d, h))
    | some _ => throw "steps: expected a list"
  -- the caller's heap: dict objects `0 … n-1`, list object 0 = the table (its elements: `addrs`)
  let n0 ← match fieldOpt c "addrs" with
    | none => pure (List.range dicts.length)
    | some _ => getNatList c "addrs"
  if n0.length ≠ dicts.length ∨ n0.any (fun a => decide (dicts.length ≤ a)) then
    throw "addrs: expected one valid dict address per position"
  let mem0 : Mem := ⟨dicts, [n0]⟩
  -- from here on `dicts` is what the table reference SHOWS (= the objects' contents, position by position)
  let dicts := mem0.table 0
  let first := buildTrieMem destructive V sos mem0 0
  let stepsJ := runSteps V B n0 dicts first.2 steps
  let after := [("table_after", callerJ first.2 n0), ("steps", Json.arr stepsJ.toArray)]
  match first.1 with
  | none => pure (objJ ([("build", Json.null)] ++ after))
  | some b =>
    let shape := inferShape V sos b.offsets b.ids.size b.logps.size
    let shapeJ := match shape with
      | none => Json.null
      | some (n, g, s) => objJ [("N", natJ n), ("G", natJ g), ("S", natJ s)]
    -- memory layout of `hist` (absent: the contiguous row-major buffer)
    let view ← match fieldOpt c "view" with
      | none => pure ({ storage := hist.flatten, off := 0, sT := B, sB := 1, T := hist.length, B := B } : View)
      | some vj => do
        let st ← getIntList vj "storage"
        pure ({ storage := st, off := (← getNat vj "off"), sT := (← getNat vj "sT"),
                sB := (← getNat vj "sB"), T := hist.length, B := B } : View)
    let viewOk := decide (view.rows = hist)
    let full := fullChunkedView b V sos view 1
    let chunkAgree := chunks.map (fun ch => decide (fullChunkedView b V sos view ch = full))
    let flatAgree := decide (fullChunked b V sos B hist 1 = full)
    let byIdx := decide (fullByIdx b V sos B hist = full)
    let idxRes := idxs.map (fun hidx => calcIdx b V sos B hist hidx)
    -- translation validation of the flat layer (hypothesis of theorem C06_lookup_checked)
    let flatOk := checkBuilt V sos dicts b
    -- the hypotheses of theorems C06_flat / C06_lookup / C06_model on this table
    let hypOk := tableOK dicts
    -- the oracle: Katz recursion on the raw table, raw contexts
    let specFull := specFullOf dicts V sos B hist
    pure (objJ ([
      ("build", buffersJ b), ("shape", shapeJ), ("full", full3J full),
      ("chunk_agree", listJ boolJ chunkAgree), ("byidx_agree", boolJ byIdx),
      ("view_rows_ok", boolJ viewOk), ("view_contig", boolJ view.isContig),
      ("flat_agree", boolJ flatAgree), ("flat_check", boolJ flatOk), ("table_ok", boolJ hypOk),
      ("idx", listJ (listJ (listJ lpJ)) idxRes),
      ("spec_full", listJ (listJ (listJ optJ')) specFull)] ++ after))

open PdtVerif.NgramArpa in
def parseField (j : Json) : Except String Field := do
  let s ← getStr j "s"
  let num ← getOptRat j "num"
  pure ⟨s, num⟩

open PdtVerif.NgramArpa in
def parseLine (j : Json) : Except String Line := do
  let t ← getStr j "t"
  match t with
  | "other" => pure .other
  | "blank" => pure .blank
  | "data" => pure .data
  | "end" => pure .end_
  | "count" => do pure (.count (← getNat j "n") (← getNat j "c"))
  | "header" => do pure (.header (← getNat j "n"))
  | "entry" => do pure (.entry (← getRat j "logp") (← getList parseField j "fields"))
  | _ => throw s!"bad line type {t}"

/-- case: {lines: [...]}; reply {parsed: [[{key, logp, logb}]]} or {error}. -/
def c06Arpa : Handler := fun c => do
  let lines ← getList parseLine c "lines"
  match PdtVerif.NgramArpa.parseArpa lines with
  | .error e => pure (objJ [("error", strJ e)])
  | .ok ds => pure (objJ [("parsed", listJ (listJ (fun (e : PdtVerif.NgramArpa.PEntry) => objJ [
      ("key", listJ strJ e.key), ("logp", ratToJson e.logp), ("logb", optJ ratToJson e.logb)])) ds)])

def main : IO Unit := Proto.run [("c06.table", c06Table), ("c06.arpa", c06Arpa)]
