import Lean.Data.Json
/-!
# Line protocol shared by every per-property driver

One JSON object per line on stdin: `{"op": "<name>", "case": <json>}`.
One JSON object per line on stdout: `{"ok": <json>}` or `{"err": "<message>"}`.

Numbers that must be exact travel as strings `"n/d"` (or `"n"`); `"-inf"`, `"inf"`,
`"nan"` are reserved words used by the extended carriers.

This file is glue only (trusted base: JSON encoding/decoding); it contains no model.
-/
open Lean

namespace Proto

abbrev Handler := Json → Except String Json

def ratToString (q : Rat) : String :=
  if q.den == 1 then toString q.num else s!"{q.num}/{q.den}"

def ratToJson (q : Rat) : Json := Json.str (ratToString q)

def parseRatStr (s : String) : Except String Rat :=
  match s.splitOn "/" with
  | [n] => match n.trimAscii.toString.toInt? with
    | some k => .ok (k : Rat)
    | none => .error s!"bad rational '{s}'"
  | [n, d] => match n.trimAscii.toString.toInt?, d.trimAscii.toString.toNat? with
    | some k, some m => if m == 0 then .error s!"zero denominator '{s}'" else .ok (mkRat k m)
    | _, _ => .error s!"bad rational '{s}'"
  | _ => .error s!"bad rational '{s}'"

def jsonToRat (j : Json) : Except String Rat :=
  match j with
  | .str s => parseRatStr s
  | .num n => if n.exponent == 0 then .ok (n.mantissa : Rat)
              else .ok (mkRat n.mantissa (10 ^ n.exponent))
  | _ => .error s!"expected rational, got {j.compress}"

def jsonToInt (j : Json) : Except String Int := j.getInt?
def jsonToNat (j : Json) : Except String Nat := j.getNat?
def jsonToBool (j : Json) : Except String Bool := j.getBool?
def jsonToStr (j : Json) : Except String String := j.getStr?

def jsonToList {α} (f : Json → Except String α) (j : Json) : Except String (List α) := do
  let arr ← j.getArr?
  arr.toList.mapM f

def jsonToOption {α} (f : Json → Except String α) (j : Json) : Except String (Option α) :=
  match j with
  | .null => .ok none
  | _ => some <$> f j

def field (j : Json) (k : String) : Except String Json := j.getObjVal? k

/-- Optional field: absent or `null` gives `none`. -/
def fieldOpt (j : Json) (k : String) : Option Json :=
  match j.getObjVal? k with
  | .ok .null => none
  | .ok v => some v
  | .error _ => none

def getRat (j : Json) (k : String) : Except String Rat := field j k >>= jsonToRat
def getInt (j : Json) (k : String) : Except String Int := field j k >>= jsonToInt
def getNat (j : Json) (k : String) : Except String Nat := field j k >>= jsonToNat
def getBool (j : Json) (k : String) : Except String Bool := field j k >>= jsonToBool
def getStr (j : Json) (k : String) : Except String String := field j k >>= jsonToStr
def getList {α} (f : Json → Except String α) (j : Json) (k : String) : Except String (List α) :=
  field j k >>= jsonToList f
def getIntList (j : Json) (k : String) : Except String (List Int) := getList jsonToInt j k
def getNatList (j : Json) (k : String) : Except String (List Nat) := getList jsonToNat j k
def getRatList (j : Json) (k : String) : Except String (List Rat) := getList jsonToRat j k
def getOptInt (j : Json) (k : String) : Except String (Option Int) :=
  match fieldOpt j k with
  | none => .ok none
  | some v => some <$> jsonToInt v
def getOptNat (j : Json) (k : String) : Except String (Option Nat) :=
  match fieldOpt j k with
  | none => .ok none
  | some v => some <$> jsonToNat v
def getOptRat (j : Json) (k : String) : Except String (Option Rat) :=
  match fieldOpt j k with
  | none => .ok none
  | some v => some <$> jsonToRat v

def natJ (n : Nat) : Json := Json.num (JsonNumber.fromNat n)
def intJ (n : Int) : Json := Json.num (JsonNumber.fromInt n)
def boolJ (b : Bool) : Json := Json.bool b
def strJ (s : String) : Json := Json.str s
def listJ {α} (f : α → Json) (l : List α) : Json := Json.arr (l.map f).toArray
def optJ {α} (f : α → Json) (o : Option α) : Json :=
  match o with
  | none => Json.null
  | some a => f a
def objJ (kvs : List (String × Json)) : Json := Json.mkObj kvs

def handleLine (handlers : List (String × Handler)) (line : String) : String :=
  let res : Except String Json := do
    let j ← Json.parse line
    let op ← getStr j "op"
    let c ← field j "case"
    match handlers.lookup op with
    | some h => h c
    | none => .error s!"unknown op '{op}'"
  match res with
  | .ok v => (Json.mkObj [("ok", v)]).compress
  | .error e => (Json.mkObj [("err", Json.str e)]).compress

partial def loop (handlers : List (String × Handler)) (h : IO.FS.Stream) (out : IO.FS.Stream) :
    IO Unit := do
  let line ← h.getLine
  if line.isEmpty then return ()
  let t := line.trimAscii.toString
  if t.isEmpty then
    loop handlers h out
  else
    out.putStrLn (handleLine handlers t)
    out.flush
    loop handlers h out

def run (handlers : List (String × Handler)) : IO Unit := do
  loop handlers (← IO.getStdin) (← IO.getStdout)

end Proto
