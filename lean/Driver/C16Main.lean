import Driver.Proto
import PdtVerif.Model.Checkpoint
import PdtVerif.Spec.Recoverable
/-! Driver for C16: replays a crash schedule on the checkpoint model.

case: {quirks: "fixed"|"pinned", keep_lb, mkeys: [key of epoch 0..], okeys: [..],
       metrics: [[train|null, val|null] ..]  (epoch 1..n; RAW values as handed to update_for_epoch, as
                                order-preserving integers), best_is_train  (`deciding` picks the column),
       rounding: {file: [[x, y] ..], mem: [[x, y] ..]}  (optional; `Rounding` as finite tables, identity
                                elsewhere: what the history file records for x / what get_best_epoch
                                compares. A session started with k0 recorded epochs plans its updates
                                with `memVals R raw k0`; what a new controller calls best uses
                                `recVals R raw`; the spec's `rec` / `exact_lb` are judged on the
                                history as recorded, `fileVals R raw`),
       red: [null | lr id ..]  (epoch 1..n: the learning rate `update_for_epoch(e)` writes into the
                                optimizer before it saves; absent = no reduction anywhere),
       sched: [{epoch, k, torn, rm: [[kind,key]..]} ..]}   -- one killed session each; `torn`: call k
                                                            -- is executed half-way (`tornDisk tear`)
reply: {sessions: [..], final: ..} — see `sessionJ`. A state is [w, t, lr], an optimizer file
["optim", t, lr] (`Opt`: per-parameter state id + learning-rate id; 0 = the initial rate).

Glue only: the model functions (`planUpdate`, `exec`, `startSession`, `recorded`, `loadState`) and
the spec's `recOk` / `exactLBOk` do the work. -/
open Lean Proto PdtVerif.Checkpoint

/-- the harness's training: (w, t) ↦ (3w + e, 5t + e), learning rate left to the controller -/
def trainD (red : List (Option Nat)) : Train :=
  ⟨fun e s => (3 * s.1 + e, ⟨5 * s.2.t + e, s.2.lr⟩),
   fun e => if e = 0 then none else (red[e - 1]?).join⟩

def pathJ : Path → List Json
  | .model k => [strJ "model", natJ k]
  | .optim k => [strJ "optim", natJ k]
  | .tmp i => [strJ "tmp", natJ i]

def contentJ : Content → Json
  | .empty => Json.arr #[strJ "empty"]
  | .torn => Json.arr #[strJ "torn"]
  | .model w => Json.arr #[strJ "model", natJ w]
  | .optim o => Json.arr #[strJ "optim", natJ o.t, natJ o.lr]

def lineJ : Line → Json
  | .header => strJ "header"
  | .row e => natJ e
  | .torn => strJ "torn"

def opJ : FsOp → Json
  | .mkdirs => Json.arr #[strJ "mkdirs"]
  | .mktemp t => Json.arr #[strJ "mktemp", natJ t]
  | .write t _ => Json.arr #[strJ "write", strJ "tmp", natJ t]
  | .replace t dst => Json.arr ((#[strJ "replace", strJ "tmp", natJ t]) ++ (pathJ dst).toArray)
  | .openAppend => Json.arr #[strJ "open_a"]
  | .hwrite l => Json.arr #[strJ "hwrite", lineJ l]
  | .remove p => Json.arr ((#[strJ "remove"]) ++ (pathJ p).toArray)

def diskJ (d : Disk) : Json :=
  let named := d.files.filterMap (fun x => match x.1 with
    | .tmp _ => none
    | p => some (Json.arr ((pathJ p).toArray ++ #[contentJ x.2])))
  let tmps := d.files.filterMap (fun x => match x.1 with
    | .tmp _ => some (contentJ x.2)
    | _ => none)
  objJ [("files", Json.arr named.toArray), ("tmps", Json.arr tmps.toArray),
        ("csv", optJ (listJ lineJ) d.csv)]

def stateJ : Option St → Json
  | none => Json.null
  | some (w, o) => Json.arr #[natJ w, natJ o.t, natJ o.lr]

structure Cfg where
  Q : Quirks
  P : Params
  raw : List (Option Int)
  R : Rounding
  tr : Train

/-- the values a controller started with `k0` recorded epochs compares -/
def Cfg.valsAt (c : Cfg) (k0 : Nat) : List (Option Int) := memVals c.R c.raw k0
/-- the values a controller started on the recorded history compares -/
def Cfg.vals (c : Cfg) : List (Option Int) := recVals c.R c.raw
/-- the history as recorded: what the spec's "best" is the first minimum of -/
def Cfg.spec (c : Cfg) : List (Option Int) := fileVals c.R c.raw

def tableFn (t : List (Int × Int)) : Int → Int := fun x => ((t.find? (fun p => p.1 == x)).map (·.2)).getD x

def recJ (c : Cfg) (d : Disk) : Json :=
  match recorded d with
  | none => objJ [("readable", boolJ false), ("rec", boolJ false)]
  | some k =>
    let b := bestOf (c.vals.take k)
    objJ [("readable", boolJ true), ("k", natJ k), ("best", natJ b),
          ("load_last", stateJ (loadState c.P d k)), ("load_best", stateJ (loadState c.P d b)),
          ("want_last", stateJ (some (U c.tr k))), ("want_best", stateJ (some (U c.tr b))),
          ("rec", boolJ (recOk c.P c.spec c.tr d)),
          ("exact_lb", boolJ (exactLBOk c.P c.spec d k)),
          ("all_loadable", boolJ ((List.range' 1 k).all (fun j => decide (loadState c.P d j = some (U c.tr j)))))]

structure CrashIn where
  epoch : Nat
  i : Nat
  torn : Bool
  hint : List Path

def reorder (cl hint : List Path) : List Path :=
  hint.filter (fun p => cl.contains p) ++ cl.filter (fun p => !hint.contains p)

structure SessOut where
  status : String
  start : Option Nat := none
  atEpoch : Option Nat := none
  trace : List FsOp := []
  updates : List Json := []
  hintOk : Bool := true
  disk : Disk

/-- the in-process loop: `fuel` updates at most. -/
def loopS (c : Cfg) (vals : List (Option Int)) (crash : Option CrashIn) :
    Nat → Nat → St → Disk → List Json → SessOut
  | 0, k, _, d, ups => { status := "completed", atEpoch := some k, updates := ups.reverse, disk := d }
  | fuel + 1, k, s, d, ups =>
    let e := k + 1
    let s' := c.tr.step e s
    match planUpdate c.Q c.P vals k d s' with
    | .error _ => { status := "refused", atEpoch := some e, updates := ups.reverse, disk := d }
    | .ok (main, cl) =>
      let crashHere := match crash with
        | some ci => if ci.epoch = e then some ci else none
        | none => none
      match crashHere with
      | some ci =>
        let cl' := reorder cl ci.hint
        let ops := opsOf main cl'
        let hintOk := ci.hint.all (fun p => cl.contains p)
        if ci.i < ops.length then
          let pre := ops.take ci.i
          let d'' := if ci.torn then tornDisk tear d ops ci.i else exec d pre
          { status := "crashed", atEpoch := some e, trace := pre, updates := ups.reverse,
            hintOk := hintOk, disk := d'' }
        else
          let d' := exec d ops
          loopS c vals crash fuel e s' d'
            (objJ [("epoch", natJ e), ("trace", listJ opJ ops), ("disk", diskJ d')] :: ups)
      | none =>
        let ops := opsOf main cl
        let d' := exec d ops
        loopS c vals crash fuel e s' d'
          (objJ [("epoch", natJ e), ("trace", listJ opJ ops), ("disk", diskJ d')] :: ups)

def runSession (c : Cfg) (d : Disk) (crash : Option CrashIn) : SessOut :=
  match recorded d with
  | none => { status := "stuck_init", disk := d }
  | some k =>
    match loadState c.P d k with
    | none => { status := "stuck_load", start := some k, disk := d }
    | some s =>
      let r := loopS c (c.valsAt k) crash (c.raw.length - k) k s d []
      { r with start := some k }

def sessionJ (c : Cfg) (o : SessOut) : Json :=
  objJ [("status", strJ o.status), ("start", optJ natJ o.start), ("epoch", optJ natJ o.atEpoch),
        ("trace", listJ opJ o.trace), ("updates", Json.arr o.updates.toArray),
        ("hint_ok", boolJ o.hintOk), ("disk", diskJ o.disk), ("rec", recJ c o.disk)]

def parsePath (j : Json) : Except String Path := do
  let a ← j.getArr?
  match a.toList with
  | [k, n] => do
    let k ← k.getStr?
    let n ← n.getNat?
    match k with
    | "model" => pure (.model n)
    | "optim" => pure (.optim n)
    | "tmp" => pure (.tmp n)
    | _ => throw s!"bad path kind {k}"
  | _ => throw "bad path"

def parseCrash (j : Json) : Except String CrashIn := do
  let e ← getNat j "epoch"
  let i ← getNat j "k"
  let torn ← getBool j "torn"
  let hint ← match fieldOpt j "rm" with
    | none => pure []
    | some h => jsonToList parsePath h
  pure ⟨e, i, torn, hint⟩

def parsePair (j : Json) : Except String (Option Int × Option Int) := do
  let a ← j.getArr?
  match a.toList with
  | [t, v] => do
    let t ← jsonToOption jsonToInt t
    let v ← jsonToOption jsonToInt v
    pure (t, v)
  | _ => throw "bad metric pair"

def keyFn (l : List Nat) : Nat → Nat := fun e => l.getD e e

def parseIntPair (j : Json) : Except String (Int × Int) := do
  let a ← j.getArr?
  match a.toList with
  | [x, y] => do pure (← jsonToInt x, ← jsonToInt y)
  | _ => throw "bad table entry"

def parseTable (c : Json) (name : String) : Except String (List (Int × Int)) :=
  match fieldOpt c "rounding" with
  | none => pure []
  | some r => match fieldOpt r name with
    | none => pure []
    | some t => jsonToList parseIntPair t

def parseCfg (c : Json) : Except String Cfg := do
  let q ← getStr c "quirks"
  let Q ← match q with
    | "fixed" => pure Quirks.fixed
    | "pinned" => pure Quirks.pinned
    | _ => throw s!"bad quirks {q}"
  let keep ← getBool c "keep_lb"
  let mk ← getNatList c "mkeys"
  let ok ← getNatList c "okeys"
  let bit ← getBool c "best_is_train"
  let ms ← getList parsePair c "metrics"
  let red ← match fieldOpt c "red" with
    | none => pure []
    | some r => jsonToList (jsonToOption (fun j => j.getNat?)) r
  let tf ← parseTable c "file"
  let tm ← parseTable c "mem"
  pure ⟨Q, ⟨keep, keyFn mk, keyFn ok⟩, deciding bit ms, ⟨tableFn tf, tableFn tm⟩, trainD red⟩

def c16Run : Handler := fun j => do
  let c ← parseCfg j
  let sched ← getList parseCrash j "sched"
  let (d, outs) := sched.foldl (fun (acc : Disk × List Json) ci =>
      let o := runSession c acc.1 (some ci)
      (o.disk, sessionJ c o :: acc.2)) (Disk.blank, [])
  let fin := runSession c d none
  -- the hypothesis of the `_rounded` theorems (`Rounding.Consistent`) on the values of this case
  let cons := c.raw.all (fun v => match v with
    | none => true
    | some x => c.R.mem x == c.R.file x && c.R.file (c.R.file x) == c.R.file x)
  pure (objJ [("sessions", Json.arr outs.reverse.toArray), ("final", sessionJ c fin),
              ("rounding_consistent", boolJ cons)])

def main : IO Unit := Proto.run [("c16.run", c16Run)]
