import Driver.Proto
import PdtVerif.Model.Checkpoint
import PdtVerif.Spec.Recoverable
/-! Driver for C16: replays a crash schedule on the checkpoint model.

case: {quirks: "fixed"|"pinned", keep_lb, mkeys: [key of epoch 0..], okeys: [..],
       metrics: [[train|null, val|null] ..]  (epoch 1..n; RAW values as handed to update_for_epoch, as
                                order-preserving integers), best_is_train  (`deciding` picks the column),
       rounding: {file: [[x, y] ..], mem: [[x, y] ..]}  (optional; `Rounding` as finite tables, identity
                                elsewhere: what the history file records for x / what get_best_epoch
                                compares. A session started with k0 recorded epochs plans its updates
                                with `memVals R raw k0`; what a new controller calls best uses
                                `recVals R raw`; the spec's `rec` / `exact_lb` are judged on the
                                history as recorded, `fileVals R raw`),
       red: [null | lr id ..]  (epoch 1..n: the learning rate `update_for_epoch(e)` writes into the
                                optimizer before it saves; absent = no reduction anywhere),
       sched: [{crash: null | {epoch, ops, n_ops, torn}, updates: [{epoch, ops} ..]} ..],
       final: {updates: [..]}}
  one entry of `sched` per session that the schedule kills (`crash = null`: the implementation never reached
  the crash point of that session — the number of calls an update makes is the implementation's business).
  `ops` = the EFFECTIVE file-system mutations the implementation was seen to make in that update, in its
  order, in the model's vocabulary (`parseOp`; `null` when one of them has no counterpart in the model);
  `n_ops` their number; `torn` = null | the half-executed call the process died in
  (["write","tmp",i,"torn"] / ["hwrite","torn"]); `after` = what it did while the interrupt unwound (soft
  deaths; the model admits [["remove","tmp",i] ..] — `unwindOk` — and nothing else). The model does NOT replay these calls on trust: it
  matches them against the orders it admits for the update (`updateOrders`: every interleaving of the two
  save pipelines, clean-up in any order, no-op calls dropped — `crashMatch` / `fullMatch` of the Model, about
  which `c16_crashMatch_rec` is proved) and reports `trace_ok`. Not admitted -> `trace_ok = false` and the
  model's own order cut after the same number of effective calls.
  temp file ids in `ops`: 0 = the temp file of the model's state dict, 1 = the optimizer's.
reply: {sessions: [..], final: ..} — see `sessionJ`. A state is [w, t, lr], an optimizer file
["optim", t, lr] (`Opt`: per-parameter state id + learning-rate id; 0 = the initial rate).

Glue only: the model functions (`planUpdate`, `updateOrders`, `crashMatch`, `crashDisk`, `fullMatch`,
`unwindOk`, `exec`, `startSession`, `recorded`, `loadState`) and the spec's `recOk` / `exactLBOk` do the work.
The one piece of logic here is the FALLBACK for an observation the model does not admit (`trace_ok = false`,
always reported as a disagreement by the harness): the model's own order cut after `n_ops` effective calls,
so that the sessions that follow can still be compared. -/
open Lean Proto PdtVerif.Checkpoint

/-- the harness's training: (w, t) ↦ (3w + e, 5t + e), learning rate left to the controller -/
def trainD (red : List (Option Nat)) : Train :=
  ⟨fun e s => (3 * s.1 + e, ⟨5 * s.2.t + e, s.2.lr⟩),
   fun e => if e = 0 then none else (red[e - 1]?).join⟩

def pathJ : Path → List Json
  | .model k => [strJ "model", natJ k]
  | .optim k => [strJ "optim", natJ k]
  | .tmp i => [strJ "tmp", natJ i]

def contentJ : Content → Json
  | .empty => Json.arr #[strJ "empty"]
  | .torn => Json.arr #[strJ "torn"]
  | .model w => Json.arr #[strJ "model", natJ w]
  | .optim o => Json.arr #[strJ "optim", natJ o.t, natJ o.lr]

def lineJ : Line → Json
  | .header => strJ "header"
  | .row e => natJ e
  | .torn => strJ "torn"

def opJ : FsOp → Json
  | .mkdirs => Json.arr #[strJ "mkdirs"]
  | .mktemp t => Json.arr #[strJ "mktemp", natJ t]
  | .write t _ => Json.arr #[strJ "write", strJ "tmp", natJ t]
  | .replace t dst => Json.arr ((#[strJ "replace", strJ "tmp", natJ t]) ++ (pathJ dst).toArray)
  | .openAppend => Json.arr #[strJ "open_a"]
  | .hwrite l => Json.arr #[strJ "hwrite", lineJ l]
  | .remove p => Json.arr ((#[strJ "remove"]) ++ (pathJ p).toArray)

def diskJ (d : Disk) : Json :=
  let named := d.files.filterMap (fun x => match x.1 with
    | .tmp _ => none
    | p => some (Json.arr ((pathJ p).toArray ++ #[contentJ x.2])))
  let tmps := d.files.filterMap (fun x => match x.1 with
    | .tmp _ => some (contentJ x.2)
    | _ => none)
  objJ [("files", Json.arr named.toArray), ("tmps", Json.arr tmps.toArray),
        ("csv", optJ (listJ lineJ) d.csv)]

def stateJ : Option St → Json
  | none => Json.null
  | some (w, o) => Json.arr #[natJ w, natJ o.t, natJ o.lr]

structure Cfg where
  Q : Quirks
  P : Params
  raw : List (Option Int)
  R : Rounding
  tr : Train

/-- the values a controller started with `k0` recorded epochs compares -/
def Cfg.valsAt (c : Cfg) (k0 : Nat) : List (Option Int) := memVals c.R c.raw k0
/-- the values a controller started on the recorded history compares -/
def Cfg.vals (c : Cfg) : List (Option Int) := recVals c.R c.raw
/-- the history as recorded: what the spec's "best" is the first minimum of -/
def Cfg.spec (c : Cfg) : List (Option Int) := fileVals c.R c.raw

def tableFn (t : List (Int × Int)) : Int → Int := fun x => ((t.find? (fun p => p.1 == x)).map (·.2)).getD x

def recJ (c : Cfg) (d : Disk) : Json :=
  match recorded d with
  | none => objJ [("readable", boolJ false), ("rec", boolJ false)]
  | some k =>
    let b := bestOf (c.vals.take k)
    objJ [("readable", boolJ true), ("k", natJ k), ("best", natJ b),
          ("load_last", stateJ (loadState c.P d k)), ("load_best", stateJ (loadState c.P d b)),
          ("want_last", stateJ (some (U c.tr k))), ("want_best", stateJ (some (U c.tr b))),
          ("rec", boolJ (recOk c.P c.spec c.tr d)),
          ("exact_lb", boolJ (exactLBOk c.P c.spec d k)),
          ("all_loadable", boolJ ((List.range' 1 k).all (fun j => decide (loadState c.P d j = some (U c.tr j)))))]

/-- an observed call in the model's vocabulary, before the temp ids / contents are resolved -/
inductive Obs where
  | mktemp (i : Nat)
  | write (i : Nat) (torn : Bool)
  | replace (i : Nat) (dst : Path)
  | openA
  | hwrite (l : Line)
  | remove (p : Path)
  | rmtmp (i : Nat)

structure CrashIn where
  epoch : Nat
  ops : Option (List Obs)
  nOps : Nat
  torn : Option Obs
  /-- what the implementation did to the disk while the interrupt unwound (soft deaths) -/
  after : Option (List Obs) := some []

structure SessIn where
  crash : Option CrashIn := none
  updates : List (Nat × Option (List Obs)) := []

/-- temp id 0 = the model's pipeline (`freshTmp`), 1 = the optimizer's (`freshTmp + 1`); contents are the
plan's (what the implementation really wrote is seen in the disk comparison) -/
def resolve (d : Disk) (s : St) : Obs → FsOp
  | .mktemp i => .mktemp (freshTmp d.files + i)
  | .write i torn => .write (freshTmp d.files + i)
      (if torn then .torn else if i = 0 then .model s.1 else if i = 1 then .optim s.2 else .torn)
  | .replace i dst => .replace (freshTmp d.files + i) dst
  | .openA => .openAppend
  | .hwrite l => .hwrite l
  | .remove p => .remove p
  | .rmtmp i => .remove (.tmp (freshTmp d.files + i))

structure SessOut where
  status : String
  start : Option Nat := none
  atEpoch : Option Nat := none
  trace : List FsOp := []
  traceOk : Bool := true
  updates : List Json := []
  disk : Disk

def updJ (e : Nat) (ops : List FsOp) (ok : Bool) (d' : Disk) : Json :=
  objJ [("epoch", natJ e), ("trace", listJ opJ ops), ("trace_ok", boolJ ok), ("disk", diskJ d')]

/-- the in-process loop: `fuel` updates at most. -/
def loopS (c : Cfg) (vals : List (Option Int)) (si : SessIn) :
    Nat → Nat → St → Disk → List Json → SessOut
  | 0, k, _, d, ups => { status := "completed", atEpoch := some k, updates := ups.reverse, disk := d }
  | fuel + 1, k, s, d, ups =>
    let e := k + 1
    let s' := c.tr.step e s
    match planUpdate c.Q c.P vals k d s' with
    | .error _ => { status := "refused", atEpoch := some e, updates := ups.reverse, disk := d }
    | .ok (main, cl) =>
      let crashHere := match si.crash with
        | some ci => if ci.epoch = e then some ci else none
        | none => none
      match crashHere with
      | some ci =>
        let obs := (ci.ops.getD []).map (resolve d s')
        let tornOp := ci.torn.map (resolve d s')
        let orders := updateOrders c.Q c.P vals k d s' (removalsOf obs)
        -- while the interrupt unwinds the model admits the removal of temp files and nothing else
        let unwind := (ci.after.getD []).map (resolve d s')
        let unwindOk' := ci.after.isSome && unwindOk unwind
        let unwind := if unwindOk' then unwind else []
        match (if ci.ops.isSome then crashMatch orders d obs tornOp else none) with
        | some L =>
          { status := "crashed", atEpoch := some e, trace := obs ++ unwind, traceOk := unwindOk',
            updates := ups.reverse, disk := exec (crashDisk d L obs tornOp) unwind }
        | none =>
          -- not an order the model admits: the model's own order, cut after as many effective calls
          let L0 := effective d (opsOf main (reorder cl (removalsOf obs)))
          let d'' := if tornOp.isSome then tornDisk tear d L0 ci.nOps else exec d (L0.take ci.nOps)
          { status := "crashed", atEpoch := some e, trace := L0.take ci.nOps, traceOk := false,
            updates := ups.reverse, disk := exec d'' unwind }
      | none =>
        let ops := opsOf main cl
        let d' := exec d ops
        let ok := match si.updates.find? (fun u => u.1 == e) with
          | none => true
          | some (_, none) => false
          | some (_, some h) =>
            let obs := h.map (resolve d s')
            fullMatch (updateOrders c.Q c.P vals k d s' (removalsOf obs)) d obs
        loopS c vals si fuel e s' d' (updJ e (effective d ops) ok d' :: ups)

def runSession (c : Cfg) (d : Disk) (si : SessIn) : SessOut :=
  match recorded d with
  | none => { status := "stuck_init", disk := d }
  | some k =>
    match loadState c.P d k with
    | none => { status := "stuck_load", start := some k, disk := d }
    | some s =>
      let r := loopS c (c.valsAt k) si (c.raw.length - k) k s d []
      { r with start := some k }

def sessionJ (c : Cfg) (o : SessOut) : Json :=
  objJ [("status", strJ o.status), ("start", optJ natJ o.start), ("epoch", optJ natJ o.atEpoch),
        ("trace", listJ opJ o.trace), ("trace_ok", boolJ o.traceOk), ("updates", Json.arr o.updates.toArray),
        ("disk", diskJ o.disk), ("rec", recJ c o.disk)]

def parsePathL (l : List Json) : Except String Path := do
  match l with
  | [k, n] => do
    let k ← k.getStr?
    let n ← n.getNat?
    match k with
    | "model" => pure (.model n)
    | "optim" => pure (.optim n)
    | "tmp" => pure (.tmp n)
    | _ => throw s!"bad path kind {k}"
  | _ => throw "bad path"

def parseLine (j : Json) : Except String Line :=
  match j with
  | .str "header" => pure .header
  | .str "torn" => pure .torn
  | _ => do pure (.row (← j.getNat?))

/-- `none`: a call the model has no word for -/
def parseOp (j : Json) : Option Obs :=
  match j.getArr? with
  | .error _ => none
  | .ok a =>
    match a.toList with
    | [.str "mktemp", i] => (i.getNat?.toOption).map .mktemp
    | [.str "write", .str "tmp", i] => (i.getNat?.toOption).map (.write · false)
    | [.str "write", .str "tmp", i, .str "torn"] => (i.getNat?.toOption).map (.write · true)
    | [.str "replace", .str "tmp", i, k, n] =>
        match i.getNat?.toOption, (parsePathL [k, n]).toOption with
        | some i, some p => some (.replace i p)
        | _, _ => none
    | [.str "open_a"] => some .openA
    | [.str "hwrite", l] => ((parseLine l).toOption).map .hwrite
    | [.str "remove", .str "tmp", i] => (i.getNat?.toOption).map .rmtmp
    | [.str "remove", k, n] => ((parsePathL [k, n]).toOption).map .remove
    | _ => none

def parseOps (j : Json) : Except String (Option (List Obs)) := do
  match j with
  | .null => pure none
  | _ =>
    let a ← j.getArr?
    pure (a.toList.mapM parseOp)

def parseUpd (j : Json) : Except String (Nat × Option (List Obs)) := do
  let e ← getNat j "epoch"
  let ops ← parseOps (← field j "ops")
  pure (e, ops)

def parseSess (j : Json) : Except String SessIn := do
  let ups ← match fieldOpt j "updates" with
    | none => pure []
    | some u => jsonToList parseUpd u
  match fieldOpt j "crash" with
  | none => pure { updates := ups }
  | some cj =>
    let e ← getNat cj "epoch"
    let n ← getNat cj "n_ops"
    let ops ← parseOps (← field cj "ops")
    let torn := (fieldOpt cj "torn").bind parseOp
    -- a torn call the model has no word for makes the whole observation unmatchable
    let ops := if (fieldOpt cj "torn").isSome && torn.isNone then none else ops
    let after ← match cj.getObjVal? "after" with
      | .ok a => parseOps a
      | .error _ => pure (some [])
    pure { crash := some ⟨e, ops, n, torn, after⟩, updates := ups }

def parsePair (j : Json) : Except String (Option Int × Option Int) := do
  let a ← j.getArr?
  match a.toList with
  | [t, v] => do
    let t ← jsonToOption jsonToInt t
    let v ← jsonToOption jsonToInt v
    pure (t, v)
  | _ => throw "bad metric pair"

def keyFn (l : List Nat) : Nat → Nat := fun e => l.getD e e

def parseIntPair (j : Json) : Except String (Int × Int) := do
  let a ← j.getArr?
  match a.toList with
  | [x, y] => do pure (← jsonToInt x, ← jsonToInt y)
  | _ => throw "bad table entry"

def parseTable (c : Json) (name : String) : Except String (List (Int × Int)) :=
  match fieldOpt c "rounding" with
  | none => pure []
  | some r => match fieldOpt r name with
    | none => pure []
    | some t => jsonToList parseIntPair t

def parseCfg (c : Json) : Except String Cfg := do
  let q ← getStr c "quirks"
  let Q ← match q with
    | "fixed" => pure Quirks.fixed
    | "pinned" => pure Quirks.pinned
    | _ => throw s!"bad quirks {q}"
  let keep ← getBool c "keep_lb"
  let mk ← getNatList c "mkeys"
  let ok ← getNatList c "okeys"
  let bit ← getBool c "best_is_train"
  let ms ← getList parsePair c "metrics"
  let red ← match fieldOpt c "red" with
    | none => pure []
    | some r => jsonToList (jsonToOption (fun j => j.getNat?)) r
  let tf ← parseTable c "file"
  let tm ← parseTable c "mem"
  pure ⟨Q, ⟨keep, keyFn mk, keyFn ok⟩, deciding bit ms, ⟨tableFn tf, tableFn tm⟩, trainD red⟩

def c16Run : Handler := fun j => do
  let c ← parseCfg j
  let sched ← getList parseSess j "sched"
  let finIn ← match fieldOpt j "final" with
    | none => pure ({} : SessIn)
    | some f => parseSess f
  let (d, outs) := sched.foldl (fun (acc : Disk × List Json) si =>
      let o := runSession c acc.1 si
      (o.disk, sessionJ c o :: acc.2)) (Disk.blank, [])
  let fin := runSession c d finIn
  -- the hypothesis of the `_rounded` theorems (`Rounding.Consistent`, a statement about EVERY integer): the two
  -- roundings are finite tables and the identity elsewhere, so it holds for every integer iff it holds on the raw
  -- metrics and on every key and value of the two tables (audit F: only the raw metrics of the deciding column
  -- were looked at, which left `mem (file x) = file x` — what a RESTARTED controller compares — unchecked when
  -- `file x` is not itself a raw metric)
  let tf ← parseTable j "file"
  let tm ← parseTable j "mem"
  let keys : List Int := c.raw.filterMap id ++ tf.map (·.1) ++ tf.map (·.2) ++ tm.map (·.1) ++ tm.map (·.2)
  let cons := keys.all (fun x => c.R.mem x == c.R.file x && c.R.file (c.R.file x) == c.R.file x)
  pure (objJ [("sessions", Json.arr outs.reverse.toArray), ("final", sessionJ c fin),
              ("rounding_consistent", boolJ cons)])

def main : IO Unit := Proto.run [("c16.run", c16Run)]
