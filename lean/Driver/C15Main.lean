import Driver.Proto
import PdtVerif.Model.Controller
import PdtVerif.Spec.TrainingRules
/-! Driver for C15: runs the controller model (uninterrupted and with restarts) and the
declarative rules on one configuration and metric sequence. -/
open Lean Proto PdtVerif.Controller PdtVerif.TrainingRules

def parseParams (c : Json) (rnd : Rat → Rat) : Except String Params := do
  let p ← field c "params"
  pure {
    numEpochs := ← getOptNat p "num_epochs",
    esThr := ← getRat p "es_thr", esPat := ← getNat p "es_pat", esBurn := ← getNat p "es_burn",
    rlrThr := ← getRat p "rlr_thr", rlrFactor := ← getRat p "rlr_factor",
    rlrPat := ← getNat p "rlr_pat", rlrCool := ← getNat p "rlr_cool",
    rlrBurn := ← getNat p "rlr_burn", rlrEps := ← getRat p "rlr_eps",
    initLr := ← getOptRat p "init_lr", optDefault := ← getRat p "opt_default",
    rnd := rnd }

def optRatJ (x : Option Rat) : Json :=
  match x with
  | none => strJ "inf"
  | some q => ratToJson q

def rowJ (r : Row) : Json :=
  objJ [("epoch", natJ r.epoch), ("es_resume_cd", intJ r.esResume), ("es_patience_cd", intJ r.esCd),
        ("rlr_resume_cd", intJ r.rlrResume), ("rlr_patience_cd", intJ r.rlrCd),
        ("lr", optJ ratToJson r.lr), ("train_met", optRatJ r.train), ("val_met", optRatJ r.val)]

structure Trace where
  cont : List Bool := []
  contTraining : List Bool := []
  lrs : List (List Rat) := []
  setLr : List (Option Rat) := []
  error : Option String := none
  final : Option State := none

/-- step by step, restarting after the epochs in `rs`; records what the harness observes -/
def trace (P : Params) (S0 : State) (ms : List (Rat × Rat)) (rs : List Nat) : Trace := Id.run do
  let mut S := S0
  let mut t : Trace := {}
  let mut e := 0
  for m in ms do
    e := e + 1
    match step P S m.1 m.2 with
    | .error _ =>
      t := { t with error := some "KeyError" }
      break
    | .ok (S', o) =>
      S := if rs.contains e then restart P S' else S'
      let ct := match continueTraining P S with
        | .ok b => b
        | .error _ => false
      t := { t with cont := t.cont ++ [o.cont], contTraining := t.contTraining ++ [ct],
                    lrs := t.lrs ++ [S.groups], setLr := t.setLr ++ [o.setLr] }
  return { t with final := some S }

def traceJ (P : Params) (t : Trace) : Json :=
  let rows := match t.final with
    | some S => S.hist.drop 1
    | none => []
  objJ [("cont", listJ boolJ t.cont), ("cont_training", listJ boolJ t.contTraining),
        ("lrs", listJ (listJ ratToJson) t.lrs), ("set_lr", listJ (optJ ratToJson) t.setLr),
        ("error", optJ strJ t.error),
        ("rows", listJ rowJ rows),
        ("csv", listJ (listJ strJ) (csvHeader :: rows.map (rowFields P)))]

def specJ (P : Params) (groups : List Rat) (vals : List Rat) : Json :=
  let (T, outs) := specRun P (specInit P groups) vals
  -- live[i]: early stopping had not fired before epoch i+1 (the rules speak about epoch i+1)
  let live := (outs.foldl (fun (acc : List Bool × Bool) o => (acc.1 ++ [acc.2], acc.2 && !o.esStop))
                ([], true)).1
  objJ [("es_stop", listJ boolJ (outs.map (·.esStop))),
        ("budget_stop", listJ boolJ (outs.map (·.budgetStop))),
        ("stop", listJ boolJ (outs.map (·.stop))),
        ("fire", listJ boolJ (outs.map (·.fire))),
        ("reduce", listJ boolJ (outs.map (·.reduce))),
        ("lr", listJ ratToJson (outs.map (·.lr))),
        ("live", listJ boolJ live),
        ("groups", listJ ratToJson T.groups),
        ("es_ref_epoch", natJ T.es.refEpoch), ("rlr_ref_epoch", natJ T.rlr.refEpoch)]

def onGridJ (P : Params) (ms : List (Rat × Rat)) : Bool :=
  ms.all (fun m => rt P m.1 == m.1 && rt P m.2 == m.2)

/-- case: {params, groups, metrics: [[train,val]..], restart_sets: [[epochs..]..], rnd: "f64"|"exact"}.
Reply: {base, restarts: [..], spec, spec_exact, flags}. -/
def c15Run : Handler := fun c => do
  let mode ← getStr c "rnd"
  let rnd : Rat → Rat ← match mode with
    | "f64" => pure roundF64
    | "exact" => pure id
    | _ => throw s!"bad rnd {mode}"
  let P ← parseParams c rnd
  let Pex : Params := { P with rnd := id }
  let groups ← getRatList c "groups"
  let ms ← getList (fun j => do
      let l ← jsonToList jsonToRat j
      match l with
      | [a, b] => pure (a, b)
      | _ => throw "metric pair expected") c "metrics"
  let rsets ← getList (jsonToList jsonToNat) c "restart_sets"
  let S0 := init P groups
  let base := trace P S0 ms []
  let rs := rsets.map (fun r => trace P S0 ms r)
  let vals := ms.map (·.2)
  let sp := specJ P groups vals
  let spx := specJ Pex groups vals
  pure (objJ [("base", traceJ P base), ("restarts", listJ (traceJ P) rs),
              ("spec", sp), ("spec_exact", spx),
              ("flags", objJ [("rounding_sensitive", boolJ (sp.compress != spx.compress)),
                              ("metrics_on_grid", boolJ (onGridJ P ms))])])

/-- case: {"x": rat, "sig": n} → the `"{:.(sig-1)e}"` text, and `roundF64 x`. -/
def c15Fmt : Handler := fun c => do
  let x ← getRat c "x"
  let sig ← getNat c "sig"
  pure (objJ [("text", strJ (String.ofList (sciText sig (fmtSci sig x)))),
              ("f64", ratToJson (roundF64 x)),
              ("parsed", ratToJson (roundF64 (sciValue sig (fmtSci sig x))))])

def main : IO Unit := Proto.run [("c15.run", c15Run), ("c15.fmt", c15Fmt)]
