import Driver.Proto
import PdtVerif.Model.Controller
import PdtVerif.Model.ControllerText
import PdtVerif.Spec.TrainingRules
/-! Driver for C15: runs the controller model (uninterrupted and with restarts) and the
declarative rules on one configuration and metric sequence. -/
open Lean Proto PdtVerif.Controller PdtVerif.TrainingRules

def parseParams (c : Json) (rnd : Rat → Rat) : Except String Params := do
  let p ← field c "params"
  pure {
    numEpochs := ← getOptNat p "num_epochs",
    esThr := ← getRat p "es_thr", esPat := ← getNat p "es_pat", esBurn := ← getNat p "es_burn",
    rlrThr := ← getRat p "rlr_thr", rlrFactor := ← getRat p "rlr_factor",
    rlrPat := ← getNat p "rlr_pat", rlrCool := ← getNat p "rlr_cool",
    rlrBurn := ← getNat p "rlr_burn", rlrEps := ← getRat p "rlr_eps",
    initLr := ← getOptRat p "init_lr", optDefault := ← getRat p "opt_default",
    rnd := rnd }

def optRatJ (x : Option Rat) : Json :=
  match x with
  | none => strJ "inf"
  | some q => ratToJson q

def rowJ (r : Row) : Json :=
  objJ [("epoch", natJ r.epoch), ("es_resume_cd", intJ r.esResume), ("es_patience_cd", intJ r.esCd),
        ("rlr_resume_cd", intJ r.rlrResume), ("rlr_patience_cd", intJ r.rlrCd),
        ("lr", optJ ratToJson r.lr), ("train_met", optRatJ r.train), ("val_met", optRatJ r.val)]

/-- `{"name": str, "typ": "int"|"float"|"str", "fmt": {"k": "plain"|"dec"|"sci"|"s"|"r", "n": nat}}` -/
def parseDecl (j : Json) : Except String EntryDecl := do
  let name ← getStr j "name"
  let typ ← match (← getStr j "typ") with
    | "int" => pure ETyp.int
    | "float" => pure ETyp.flt
    | "str" => pure ETyp.str
    | t => throw s!"bad entry type {t}"
  let f ← field j "fmt"
  let n ← getNat f "n"
  let fmt ← match (← getStr f "k") with
    | "plain" => pure EFmt.plain
    | "dec" => pure (EFmt.dec n)
    | "sci" => pure (EFmt.sci n)
    | "s" => pure EFmt.s
    | "r" => pure EFmt.r
    | k => throw s!"bad entry format {k}"
  pure { name := name.toList, typ := typ, fmt := fmt }

def parseEVal (t : ETyp) (j : Json) : Except String EVal :=
  match t with
  | .int => EVal.int <$> jsonToInt j
  | .flt => EVal.flt <$> jsonToRat j
  | .str => (fun s => EVal.str s.toList) <$> jsonToStr j

def evalJ (v : EVal) : Json :=
  match v with
  | .int n => Json.arr #[strJ "int", intJ n]
  | .flt x => Json.arr #[strJ "float", ratToJson x]
  | .str s => Json.arr #[strJ "str", strJ (String.ofList s)]

structure Trace where
  cont : List Bool := []
  contTraining : List Bool := []
  lrs : List (List Rat) := []
  setLr : List (Option Rat) := []
  error : Option String := none
  final : Option State := none
  /-- `continue_training()` on the fresh controller, before any update -/
  cont0 : Bool := true
  /-- the rows as they were written to the file (row of the update + the values handed in) -/
  written : List RowE := []
  /-- user entries as `get_info` returns them now, per recorded epoch -/
  users : List (List EVal) := []
  /-- every restart: re-reading the file text (`readHist ∘ fileText`) gave exactly the
  record-level `restart` -/
  textOk : Bool := true

/-- step by step, restarting after the epochs in `rs`; records what the harness observes.
`vals[e-1]` are the user-entry values handed to the update of epoch `e`. -/
def trace (P : Params) (decls : List EntryDecl) (vals : List (List EVal)) (S0 : State)
    (ms : List (Rat × Rat)) (rs : List Nat) : Trace := Id.run do
  let mut S := S0
  let mut t : Trace := { cont0 := match continueTraining P S0 with | .ok b => b | .error _ => false }
  let mut e := 0
  for m in ms do
    e := e + 1
    match step P S m.1 m.2 with
    | .error _ =>
      t := { t with error := some "KeyError" }
      break
    | .ok (S', o) =>
      let us := vals.getD (e - 1) []
      t := { t with written := t.written ++ [{ row := o.row, user := us }], users := t.users ++ [us] }
      if rs.contains e then
        S := restart P S'
        -- the same re-read at the level of the characters of the file
        match (fileText P decls t.written).bind (readHist P decls) with
        | some rows =>
          t := { t with users := rows.map (·.user),
                        textOk := t.textOk && decide (rows.map (·.row) = S.hist.drop 1) }
        | none => t := { t with error := some "ValueError", textOk := false }
      else
        S := S'
      let ct := match continueTraining P S with
        | .ok b => b
        | .error _ => false
      t := { t with cont := t.cont ++ [o.cont], contTraining := t.contTraining ++ [ct],
                    lrs := t.lrs ++ [S.groups], setLr := t.setLr ++ [o.setLr] }
  return { t with final := some S }

def traceJ (P : Params) (decls : List EntryDecl) (t : Trace) : Json :=
  let rows := match t.final with
    | some S => S.hist.drop 1
    | none => []
  let contAt : List Json := match t.final with
    | some S => (List.range S.hist.length).map (fun e =>
        match continueTrainingAt P S e with
        | .ok b => boolJ b
        | .error _ => strJ "KeyError")
    | none => []
  let row0J : Json := match t.final with
    | some S => (match S.hist.head? with | some r => rowJ r | none => Json.null)
    | none => Json.null
  let text : Json := match fileText P decls t.written with
    | some cs => strJ (String.ofList cs)
    | none => Json.null
  objJ [("cont0", boolJ t.cont0), ("cont_at", Json.arr contAt.toArray), ("row0", row0J),
        ("csv_text", text), ("entries", listJ (listJ evalJ) t.users), ("text_ok", boolJ t.textOk),
        ("cont", listJ boolJ t.cont), ("cont_training", listJ boolJ t.contTraining),
        ("lrs", listJ (listJ ratToJson) t.lrs), ("set_lr", listJ (optJ ratToJson) t.setLr),
        ("error", optJ strJ t.error),
        ("rows", listJ rowJ rows),
        ("csv", listJ (listJ strJ) (csvHeader :: rows.map (rowFields P)))]

def specJ (P : Params) (load0 : Bool) (groups : List Rat) (vals : List Rat) : Json :=
  let (T, outs) := specRun P (if load0 then specInit P groups else specInitRaw P groups) vals
  -- live[i]: early stopping had not fired before epoch i+1 (the rules speak about epoch i+1)
  let live := (outs.foldl (fun (acc : List Bool × Bool) o => (acc.1 ++ [acc.2], acc.2 && !o.esStop))
                ([], true)).1
  objJ [("es_stop", listJ boolJ (outs.map (·.esStop))),
        ("budget_stop", listJ boolJ (outs.map (·.budgetStop))),
        ("stop", listJ boolJ (outs.map (·.stop))),
        ("fire", listJ boolJ (outs.map (·.fire))),
        ("reduce", listJ boolJ (outs.map (·.reduce))),
        ("lr", listJ ratToJson (outs.map (·.lr))),
        ("live", listJ boolJ live),
        ("groups", listJ ratToJson T.groups),
        ("es_ref_epoch", natJ T.es.refEpoch), ("rlr_ref_epoch", natJ T.rlr.refEpoch)]

def onGridJ (P : Params) (ms : List (Rat × Rat)) : Bool :=
  ms.all (fun m => rt P m.1 == m.1 && rt P m.2 == m.2)

/-- case: {params, groups, metrics: [[train,val]..], restart_sets: [[epochs..]..], rnd: "f64"|"exact"}.
Reply: {base, restarts: [..], spec, spec_exact, flags}. -/
def c15Run : Handler := fun c => do
  let mode ← getStr c "rnd"
  let rnd : Rat → Rat ← match mode with
    | "f64" => pure roundF64
    | "exact" => pure id
    | _ => throw s!"bad rnd {mode}"
  let P ← parseParams c rnd
  let Pex : Params := { P with rnd := id }
  let groups ← getRatList c "groups"
  let ms ← getList (fun j => do
      let l ← jsonToList jsonToRat j
      match l with
      | [a, b] => pure (a, b)
      | _ => throw "metric pair expected") c "metrics"
  let rsets ← getList (jsonToList jsonToNat) c "restart_sets"
  -- load0 = false: no `load_model_and_optimizer_for_epoch` on the fresh controller
  let load0 : Bool := match fieldOpt c "load0" with
    | some (Json.bool b) => b
    | _ => true
  let S0 := if load0 then init P groups else initRaw P groups
  let decls ← match fieldOpt c "entries" with
    | some j => jsonToList parseDecl j
    | none => pure []
  let valsByEntry ← match fieldOpt c "entry_values" with
    | some j => do
      let cols ← j.getArr?
      (cols.toList.zip decls).mapM (fun (col, d) => jsonToList (parseEVal d.typ) col)
    | none => pure []
  -- per epoch: the values of all entries
  let vals : List (List EVal) := (List.range ms.length).map (fun e => valsByEntry.filterMap (fun col => col[e]?))
  let base := trace P decls vals S0 ms []
  let rs := rsets.map (fun r => trace P decls vals S0 ms r)
  let vals := ms.map (·.2)
  let sp := specJ P load0 groups vals
  let spx := specJ Pex load0 groups vals
  pure (objJ [("base", traceJ P decls base), ("restarts", listJ (traceJ P decls) rs),
              ("spec", sp), ("spec_exact", spx),
              ("flags", objJ [("rounding_sensitive", boolJ (sp.compress != spx.compress)),
                              ("metrics_on_grid", boolJ (onGridJ P ms))])])

/-- case: {"x": rat, "sig": n} → the `"{:.(sig-1)e}"` text, and `roundF64 x`. -/
def c15Fmt : Handler := fun c => do
  let x ← getRat c "x"
  let sig ← getNat c "sig"
  pure (objJ [("text", strJ (String.ofList (sciText sig (fmtSci sig x)))),
              ("f64", ratToJson (roundF64 x)),
              ("parsed", ratToJson (roundF64 (sciValue sig (fmtSci sig x)))),
              ("repr", optJ (fun cs => strJ (String.ofList cs)) (reprText roundF64 x))])

def main : IO Unit := Proto.run [("c15.run", c15Run), ("c15.fmt", c15Fmt)]
