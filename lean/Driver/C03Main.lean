import Driver.Proto
import PdtVerif.Model.OptCompletionBatch
/-! Driver for C03: optimal-completion targets and the hard OCD loss.

`model` side: `optimalCompletionT` / `hardOCDLossT` — the batch-level model on the tensors in the
layout of the call (`batch_first` is an input of the model, nothing is transposed by the harness).
`oracle` side: `oracleAt` — for every prefix and every candidate token the declarative test
`min (DP column of p ++ [t]) = min (DP column of p)` with the TRUE costs on the CUT reference; it
never looks at masks, sorting or scattering. The reductions of the spec side are `lossSumSpec` /
`lossMeanSpec` over `lossSpec` of the ORACLE sets.
`verdict`: when the request carries the implementation's output tensor, every vector of it is
judged here by `rowAgree` (against the model's vector) and `rowCheck` (against the oracle) — the two
functions `C03_check_sound_complete` proves equivalent to the property's statement about a row. -/
open Lean Proto PdtVerif.Lev PdtVerif.OptCompletion

def parseCfg (c : Json) : Except String Cfg := do
  let eos ← getOptInt c "eos"
  let ie ← getBool c "include_eos"
  let ex ← getBool c "exclude_last"
  let ins ← getRat c "ins"
  let del ← getRat c "del"
  let sub ← getRat c "sub"
  let pad ← getInt c "padding"
  pure { eos := eos, includeEos := ie, excludeLast := ex, costs := ⟨ins, del, sub⟩, padding := pad }

def parseT2 (c : Json) (k : String) : Except String (Tens2 Int) := do
  let o ← field c k
  let sh ← getNatList o "shape"
  let data ← getIntList o "data"
  match sh with
  | [a, b] => if data.length = a * b then pure ⟨a, b, data⟩ else throw s!"{k}: data does not fit the shape"
  | _ => throw s!"{k}: expected a 2-d shape"

def parseT3Int (o : Json) : Except String (Tens3 Int) := do
  let sh ← getNatList o "shape"
  let data ← getIntList o "data"
  match sh with
  | [a, b, c] => if data.length = a * b * c then pure ⟨a, b, c, data⟩ else throw "3-d data does not fit the shape"
  | _ => throw "expected a 3-d shape"

def parseT3Rat (c : Json) (k : String) : Except String (Tens3 Rat) := do
  let o ← field c k
  let sh ← getNatList o "shape"
  let data ← getRatList o "data"
  match sh with
  | [a, b, d] => if data.length = a * b * d then pure ⟨a, b, d, data⟩ else throw s!"{k}: data does not fit the shape"
  | _ => throw s!"{k}: expected a 3-d shape"

def t3J (t : Tens3 Int) : Json :=
  objJ [("shape", listJ natJ [t.d0, t.d1, t.d2]), ("data", listJ intJ t.data)]

def t2RatJ (t : Tens2 Rat) : Json :=
  objJ [("shape", listJ natJ [t.d0, t.d1]), ("data", listJ ratToJson t.data)]

/-- Index pair of (prefix `k`, sequence `n`) in the layout of the call. -/
def ix (bf : Bool) (k n : Nat) : Nat × Nat := if bf then (n, k) else (k, n)

def c03Targets : Handler := fun c => do
  let cfg ← parseCfg c
  let bf ← getBool c "batch_first"
  let ref ← parseT2 c "ref"
  let hyp ← parseT2 c "hyp"
  let N := batchOf bf ref
  let Hp := 1 + nIter cfg.excludeLast (seqLen bf hyp)
  let lens := fun (t : Tens2 Int) => (List.range N).map (fun n => cutLen cfg.eos cfg.includeEos (seqOf bf t n))
  let orc := (List.range N).map (fun n => (List.range Hp).map (fun k => oracleAt cfg bf ref hyp n k))
  let common : List (String × Json) := [
    ("Hp", natJ Hp), ("N", natJ N),
    ("ref_lens", listJ natJ (lens ref)), ("hyp_lens", listJ natJ (lens hyp)),
    ("oracle", listJ (listJ (listJ intJ)) orc)]
  match optimalCompletionT cfg bf ref hyp with
  | .error e => pure (objJ (("error", strJ e) :: common))
  | .ok out =>
    let rows := (List.range Hp).map (fun k => (List.range N).map (fun n =>
      out.vec cfg.padding (ix bf k n).1 (ix bf k n).2))
    let verdict : List (String × Json) ←
      match fieldOpt c "impl" with
      | none => pure []
      | some j => do
        let impl ← parseT3Int j
        if impl.d0 ≠ out.d0 ∨ impl.d1 ≠ out.d1 then pure [("verdict", objJ [("shape_ok", boolJ false)])]
        else
          let bad := (List.range Hp).flatMap (fun k => (List.range N).filterMap (fun n =>
            let r := impl.vec cfg.padding (ix bf k n).1 (ix bf k n).2
            let agree := rowAgree cfg.padding (out.vec cfg.padding (ix bf k n).1 (ix bf k n).2) r
            let check := rowCheck cfg.padding ((orc.getD n []).getD k []) r  -- = oracleAt cfg bf ref hyp n k
            if agree && check then none
            else some (objJ [("k", natJ k), ("n", natJ n), ("agree", boolJ agree), ("check", boolJ check),
                             ("row", listJ intJ r)])))
          pure [("verdict", objJ [("shape_ok", boolJ true), ("bad", Json.arr bad.toArray)])]
    pure (objJ ([("out", t3J out), ("C", natJ out.d2),
      ("rows", listJ (listJ (listJ intJ)) rows)] ++ common ++ verdict))

def c03Loss : Handler := fun c => do
  let cfg0 ← parseCfg c
  let ignore ← getInt c "ignore_index"
  let bf ← getBool c "batch_first"
  -- the loss always calls optimal_completion(padding=ignore_index, exclude_last=True)
  let cfg : Cfg := { cfg0 with padding := ignore, excludeLast := true }
  let ref ← parseT2 c "ref"
  let hyp ← parseT2 c "hyp"
  let lsm ← parseT3Rat c "lsm"
  let wl ← match fieldOpt c "weight" with
    | none => pure none
    | some v => some <$> jsonToList jsonToRat v
  let w : Int → Rat := match wl with
    | none => fun _ => 1
    | some l => lookup l
  let N := batchOf bf ref
  let H := seqLen bf hyp
  -- spec side: lossSpec over the ORACLE sets, reduced by the declarative formulas
  let cellO := fun (k n : Nat) =>
    lossSpec w (lookup (lsm.vec 0 (ix bf k n).1 (ix bf k n).2)) (oracleAt cfg bf ref hyp n k)
  let hasO := fun (k n : Nat) => !(oracleAt cfg bf ref hyp n k).isEmpty
  let specCells := (List.range H).map (fun k => (List.range N).map (fun n => cellO k n))
  let common : List (String × Json) := [
    ("spec_cells", listJ (listJ ratToJson) specCells),
    ("spec_sum", ratToJson (lossSumSpec H N cellO)),
    ("spec_mean", ratToJson (lossMeanSpec H N cellO hasO)),
    ("oracle", listJ (listJ (listJ intJ))
      ((List.range N).map (fun n => (List.range H).map (fun k => oracleAt cfg bf ref hyp n k)))),
    ("hyp_lens", listJ natJ ((List.range N).map (fun n => cutLen cfg.eos cfg.includeEos (seqOf bf hyp n))))]
  match hardOCDLossT cfg bf .none w lsm ref hyp, hardOCDLossT cfg bf .sum w lsm ref hyp,
        hardOCDLossT cfg bf .mean w lsm ref hyp with
  | .ok (.matrix L), .ok (.scalar s), .ok (.scalar m) =>
    let cells := (List.range H).map (fun k => (List.range N).map (fun n =>
      L.get 0 (ix bf k n).1 (ix bf k n).2))
    pure (objJ ([("none_native", t2RatJ L), ("none", listJ (listJ ratToJson) cells),
      ("sum", ratToJson s), ("mean", ratToJson m)] ++ common))
  | .error e, _, _ => pure (objJ (("error", strJ e) :: common))
  | _, _, _ => throw "model: reductions disagree on success"

def main : IO Unit := Proto.run [("c03.targets", c03Targets), ("c03.loss", c03Loss)]
