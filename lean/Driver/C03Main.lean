import Driver.Proto
import PdtVerif.Model.OptCompletion
/-! Driver for C03: optimal-completion targets and the hard OCD loss.

`model` side: `targetsBatch` / `lossCells` (the algorithmic model the theorems are about).
`oracle` side: for every valid prefix and every candidate token, the declarative test
`min (DP column of p ++ [t]) = min (DP column of p)` with the TRUE costs on the CUT reference —
it never looks at masks, sorting or scattering. -/
open Lean Proto PdtVerif.Lev PdtVerif.OptCompletion

def dedupInts (l : List Int) : List Int :=
  l.foldl (fun acc x => if acc.contains x then acc else acc ++ [x]) []

/-- `best` evaluated through the shared sweep-form DP (`dpRow_eq`: equals `prefixDists`). -/
def bestDP (c : Costs) (ref p : List Int) : Rat := listMin (dpRow c ref p)

def parseCfg (c : Json) : Except String Cfg := do
  let eos ← getOptInt c "eos"
  let ie ← getBool c "include_eos"
  let ex ← getBool c "exclude_last"
  let ins ← getRat c "ins"
  let del ← getRat c "del"
  let sub ← getRat c "sub"
  let pad ← getInt c "padding"
  pure { eos := eos, includeEos := ie, excludeLast := ex, costs := ⟨ins, del, sub⟩, padding := pad }

/-- Valid prefix lengths of a column: `0..hypLen` (`0..hypLen-1` under exclude_last). -/
def validPrefixes (excl : Bool) (hypLen : Nat) : List Nat :=
  List.range (if excl then hypLen else hypLen + 1)

/-- Oracle target sets of one column (candidate order, not sorted). -/
def oracleCol (cfg : Cfg) (ref hyp : List Int) : List (List Int) × List Rat :=
  let refLen := cutLen cfg.eos cfg.includeEos ref
  let hypLen := cutLen cfg.eos cfg.includeEos hyp
  let ref' := ref.take refLen
  let fresh : Int := (ref ++ hyp).foldl (fun m x => max m (x + 1)) 0
  let cands := dedupInts (ref ++ hyp ++ [fresh])
  let ks := validPrefixes cfg.excludeLast hypLen
  (ks.map (fun k =>
      let p := hyp.take k
      let b := bestDP cfg.costs ref' p
      cands.filter (fun t => bestDP cfg.costs ref' (p ++ [t]) == b)),
   ks.map (fun k => bestDP cfg.costs ref' (hyp.take k)))

def chunkRows {α} (N H : Nat) (rows : List α) : List (List α) :=
  (List.range H).map (fun k => (rows.drop (k * N)).take N)

def c03Targets : Handler := fun c => do
  let cfg ← parseCfg c
  let refs ← getList (jsonToList jsonToInt) c "refs"
  let hyps ← getList (jsonToList jsonToInt) c "hyps"
  if refs.length != hyps.length then throw "batch mismatch"
  let N := refs.length
  let H := (hyps.headD []).length
  let Hp := 1 + nIter cfg.excludeLast H
  let (C, rows) := targetsBatch cfg refs hyps
  let orc := List.zipWith (oracleCol cfg) refs hyps
  pure (objJ [
    ("C", natJ C), ("Hp", natJ Hp),
    ("rows", listJ (listJ (listJ intJ)) (chunkRows N Hp rows)),
    ("ref_lens", listJ natJ (refs.map (cutLen cfg.eos cfg.includeEos))),
    ("hyp_lens", listJ natJ (hyps.map (cutLen cfg.eos cfg.includeEos))),
    ("oracle", listJ (listJ (listJ intJ)) (orc.map (·.1))),
    ("best", listJ (listJ ratToJson) (orc.map (·.2)))])

def c03Loss : Handler := fun c => do
  let cfg0 ← parseCfg c
  let ignore ← getInt c "ignore_index"
  -- the loss always calls optimal_completion(padding=ignore_index, exclude_last=True)
  let cfg : Cfg := { cfg0 with padding := ignore, excludeLast := true }
  let refs ← getList (jsonToList jsonToInt) c "refs"
  let hyps ← getList (jsonToList jsonToInt) c "hyps"
  if refs.length != hyps.length then throw "batch mismatch"
  let N := refs.length
  let lsm ← getList (jsonToList (jsonToList jsonToRat)) c "lsm"
  let wl ← match fieldOpt c "weight" with
    | none => pure none
    | some v => some <$> jsonToList jsonToRat v
  let w : Int → Rat := match wl with
    | none => fun _ => 1
    | some l => lookup l
  let (C, rows) := targetsBatch cfg refs hyps
  let cells := lossCells ignore w N lsm rows
  let total := (cells.map List.sum).sum
  let mean := lossMean ignore N cells rows
  -- spec side: lossSpec over the oracle sets (sorted order is irrelevant for a sum)
  let orc := List.zipWith (oracleCol cfg) refs hyps
  let specCells := (List.range lsm.length).map (fun k => (List.range N).map (fun n =>
    let S := ((orc.getD n ([], [])).1).getD k []
    lossSpec w (lookup ((lsm.getD k []).getD n [])) S))
  pure (objJ [
    ("C", natJ C),
    ("none", listJ (listJ ratToJson) cells),
    ("sum", ratToJson total),
    ("mean", ratToJson mean),
    ("spec_cells", listJ (listJ ratToJson) specCells),
    ("oracle", listJ (listJ (listJ intJ)) (orc.map (·.1))),
    ("hyp_lens", listJ natJ (hyps.map (cutLen cfg.eos cfg.includeEos)))])

def main : IO Unit := Proto.run [("c03.targets", c03Targets), ("c03.loss", c03Loss)]
