import Driver.Proto
import PdtVerif.Model.EpochSampler
/-! Driver for C13: runs the sampler model on one configuration and a list of orderings. -/
open Lean Proto PdtVerif.EpochSampler

def parseMode (s : String) : Except String Mode :=
  match s with
  | "raise" => .ok .raise | "drop" => .ok .drop | "uneven" => .ok .uneven | "ignore" => .ok .ignore
  | _ => .error s!"bad mode {s}"

/-- case: {N, mode, dist: null | [rank, world], init_epoch, perms: [[..]..]} where perms[j] is
the ordering of epoch init_epoch + j. Reply: {"init": "error"} or
{"init": {eff, rank, world}, "len": n, "yields": [[..]..], "final_epoch": e}. -/
def c13Run : Handler := fun c => do
  let N ← getNat c "N"
  let mode ← getStr c "mode" >>= parseMode
  let dist ← match fieldOpt c "dist" with
    | none => pure none
    | some d => do
      let l ← jsonToList jsonToNat d
      match l with
      | [r, w] => pure (some (r, w))
      | _ => throw "dist must be [rank, world]"
  let e0 ← getNat c "init_epoch"
  let perms ← getList (jsonToList jsonToNat) c "perms"
  match init N mode dist with
  | none => pure (objJ [("init", strJ "error")])
  | some cfg =>
    let permFn : Nat → List Nat := fun e => perms.getD (e - e0) []
    let (ys, s) := iterMany permFn perms.length ⟨cfg, e0⟩
    pure (objJ [
      ("init", objJ [("eff", natJ cfg.eff), ("rank", natJ cfg.rank), ("world", natJ cfg.world)]),
      ("len", intJ (len cfg)),
      ("yields", listJ (listJ natJ) ys),
      ("final_epoch", natJ s.epoch)])

/-- case: {N, mode, world: 0 (no group) | W, init_epoch, perms}. Runs every rank of the group.
Reply: {"ranks": [<c13.run reply>..]} (one entry, rank 0, when there is no group). -/
def c13Group : Handler := fun c => do
  let W ← getNat c "world"
  let base := fun (d : Json) => Json.mkObj [("N", (c.getObjVal? "N").toOption.getD Json.null),
    ("mode", (c.getObjVal? "mode").toOption.getD Json.null), ("dist", d),
    ("init_epoch", (c.getObjVal? "init_epoch").toOption.getD Json.null),
    ("perms", (c.getObjVal? "perms").toOption.getD Json.null)]
  if W == 0 then
    let r ← c13Run (base Json.null)
    pure (objJ [("ranks", Json.arr #[r])])
  else
    let rs ← (List.range W).mapM (fun r => c13Run (base (Json.arr #[natJ r, natJ W])))
    pure (objJ [("ranks", Json.arr rs.toArray)])

def main : IO Unit := Proto.run [("c13.run", c13Run), ("c13.group", c13Group)]
