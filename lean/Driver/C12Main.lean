import Driver.Proto
import PdtVerif.Model.DataDir
import PdtVerif.Spec.WellFormed
/-! Driver for C12: validation histories on a directory, sos/eos round trips, the info report. -/
open Lean Proto PdtVerif.DataDir

def parseDType (s : String) : Except String DType :=
  match s with
  | "u8" => .ok .u8 | "i8" => .ok .i8 | "i16" => .ok .i16 | "i32" => .ok .i32 | "i64" => .ok .i64
  | "f16" => .ok .f16 | "f32" => .ok .f32 | "f64" => .ok .f64 | "bool" => .ok .bool
  | _ => .error s!"bad dtype {s}"

def dtypeStr : DType → String
  | .u8 => "u8" | .i8 => "i8" | .i16 => "i16" | .i32 => "i32" | .i64 => "i64"
  | .f16 => "f16" | .f32 => "f32" | .f64 => "f64" | .bool => "bool"

def parseDev (s : String) : Except String Device :=
  match s with
  | "cpu" => .ok .cpu | "cuda" => .ok .cuda | _ => .error s!"bad device {s}"

def devStr : Device → String
  | .cpu => "cpu" | .cuda => "cuda"

def parseRow (j : Json) : Except String Row := do
  let l ← jsonToList jsonToInt j
  match l with
  | [t, s, e] => pure ⟨t, s, e⟩
  | _ => throw "row must be [tok, start, end]"

def rowJ (r : Row) : Json := listJ intJ [r.tok, r.s, r.e]

def parseFeat (j : Json) : Except String Feat := do
  pure ⟨← getBool j "tensor", ← getStr j "dtype" >>= parseDType, ← getStr j "dev" >>= parseDev,
        ← getNatList j "dims"⟩

def featJ (f : Feat) : Json :=
  objJ [("tensor", boolJ f.isTensor), ("dtype", strJ (dtypeStr f.dtype)), ("dev", strJ (devStr f.dev)),
        ("dims", listJ natJ f.dims)]

def parseAli (j : Json) : Except String Ali := do
  let dt ← getStr j "dtype" >>= parseDType
  let dev ← getStr j "dev" >>= parseDev
  match fieldOpt j "vec" with
  | some v => pure ⟨dt, dev, .vec (← jsonToList jsonToInt v)⟩
  | none =>
    -- not 1-D: the shape and the entries in storage order (`flat`, required: the info-only report
    -- counts them)
    pure ⟨dt, dev, .nd (← getNatList j "nd") (← getList jsonToInt j "flat")⟩

def aliJ (a : Ali) : Json :=
  objJ ([("dtype", strJ (dtypeStr a.dtype)), ("dev", strJ (devStr a.dev))] ++
    match a.data with
    | .vec v => [("vec", listJ intJ v)]
    | .nd s fl => [("nd", listJ natJ s), ("flat", listJ intJ fl)])

def parseRefData (j : Json) : Except String RefData := do
  match fieldOpt j "d1" with
  | some v => pure (.d1 (← jsonToList jsonToInt v))
  | none =>
    match fieldOpt j "d2" with
    | some v => pure (.d2 (← jsonToList parseRow v))
    | none =>
      match fieldOpt j "d2w" with
      | some v => do
        let l ← jsonToList jsonToNat v
        match l with
        | [r, w] => pure (.d2w r w)
        | _ => throw "d2w must be [r, w]"
      | none => pure (.nd (← getNatList j "nd"))

def parseRef (j : Json) : Except String Ref := do
  pure ⟨← getStr j "dtype" >>= parseDType, ← getStr j "dev" >>= parseDev, ← parseRefData j⟩

def refDataJ : RefData → List (String × Json)
  | .d1 t => [("d1", listJ intJ t)]
  | .d2 rows => [("d2", listJ rowJ rows)]
  | .d2w r w => [("d2w", listJ natJ [r, w])]
  | .nd s => [("nd", listJ natJ s)]

def refJ (r : Ref) : Json :=
  objJ ([("dtype", strJ (dtypeStr r.dtype)), ("dev", strJ (devStr r.dev))] ++ refDataJ r.data)

def parseUtt (j : Json) : Except String Utt := do
  let f ← field j "feat" >>= parseFeat
  let a ← match fieldOpt j "ali" with
    | none => pure none
    | some v => some <$> parseAli v
  let r ← match fieldOpt j "ref" with
    | none => pure none
    | some v => some <$> parseRef v
  pure ⟨f, a, r⟩

def uttJ (u : Utt) : Json :=
  objJ [("feat", featJ u.feat), ("ali", optJ aliJ u.ali), ("ref", optJ refJ u.ref)]

def dirJ (d : Dir) : Json := listJ uttJ d

def errStr : Err → String
  | .featType => "featType" | .cuda => "cuda" | .featDims => "featDims" | .featWidth => "featWidth"
  | .notLong => "notLong" | .aliDims => "aliDims" | .aliLen => "aliLen" | .refMixed => "refMixed"
  | .refWidth => "refWidth" | .refBounds => "refBounds" | .refDims => "refDims"
  | .negToken => "negToken"

def nameOfStr (s : String) : FName := s.toList.map Char.toNat
def strOfName (n : FName) : String := String.ofList (n.map Char.ofNat)
def parseName (j : Json) : Except String FName := nameOfStr <$> jsonToStr j
def nameJ (n : FName) : Json := strJ (strOfName n)

/-- {prefix, suffix, subset: [ids], feat: [file names], ali: null | [file names], ref: null | [...]}
→ {utt_ids, has_ali, has_ref, files}: `discover` and the file name of every discovered utterance. -/
def discoverJ (c : Json) : Except String Json := do
  let pre ← nameOfStr <$> getStr c "prefix"
  let suf ← nameOfStr <$> getStr c "suffix"
  let subset ← getList parseName c "subset"
  let feat ← getList parseName c "feat"
  let ali ← match fieldOpt c "ali" with
    | none => pure none
    | some v => some <$> jsonToList parseName v
  let ref ← match fieldOpt c "ref" with
    | none => pure none
    | some v => some <$> jsonToList parseName v
  let ids := discover pre suf subset ⟨feat, ali, ref⟩
  pure (objJ [("utt_ids", listJ nameJ ids), ("has_ali", boolJ (dirInUse pre suf ali)),
              ("has_ref", boolJ (dirInUse pre suf ref)),
              ("files", listJ (fun i => nameJ (fileOf pre suf i)) ids)])

def discoverOpt (c : Json) : Except String Json :=
  match fieldOpt c "discover" with
  | none => pure Json.null
  | some v => discoverJ v

/-- case: {utts: [...], calls: [null | k, ...], impl_disks?: [dir after call i as the implementation
left it]}: the calls are made one after the other on the same directory.
Reply: {"steps": [{ok, err, disk, wf_before, documented_before, tokens_nonneg_before}],
"oracle": [{expected, expected_wf, after_wf}]}.
`steps` is the model (`run`) on its own evolving directory. `oracle` is the spec evaluated on the
IMPLEMENTATION's directories: `expected` = documented repairs applied to what the implementation had
on disk before call i, `expected_wf` = whether that is well-formed (⇔ the call must return normally),
`after_wf` = whether what the implementation left on disk is well-formed.
The driver refuses to answer (machinery error) if model and spec disagree where
`C12_validate_iff` says they cannot. -/
def c12History : Handler := fun c => do
  let utts ← getList parseUtt c "utts"
  let calls ← getList (jsonToOption jsonToNat) c "calls"
  let implDisks ← match fieldOpt c "impl_disks" with
    | none => pure []
    | some v => jsonToList (jsonToList parseUtt) v
  let mut disk : Dir := utts
  let mut steps : Array Json := #[]
  for fix in calls do
    let (after, err) := run fix St.init disk
    let rep := repair fix disk
    let wfRep := decide (WellFormed rep)
    let ok := err.isNone
    if ok != wfRep then throw "model/spec mismatch: accepted ≠ WellFormed (repair fix d)"
    if ok && after != rep then throw "model/spec mismatch: disk after ≠ repair fix d"
    steps := steps.push (objJ [
      ("ok", boolJ ok),
      ("err", optJ (fun e => strJ (errStr e)) err),
      ("disk", dirJ after),
      ("wf_before", boolJ (decide (WellFormed disk))),
      ("documented_before", boolJ (decide (Documented disk))),
      ("tokens_nonneg_before", boolJ (decide (TokensNonneg disk)))])
    disk := after
  let mut oracle : Array Json := #[]
  let mut before : Dir := utts
  for (fix, after) in calls.zip implDisks do
    let exp := repair fix before
    oracle := oracle.push (objJ [
      ("expected", dirJ exp),
      ("expected_wf", boolJ (decide (WellFormed exp))),
      ("after_wf", boolJ (decide (WellFormed after)))])
    before := after
  pure (objJ [("steps", Json.arr steps), ("oracle", Json.arr oracle), ("discover", ← discoverOpt c)])

def parseSeq (j : Json) : Except String Seq := do
  match fieldOpt j "s1" with
  | some v => pure (.s1 (← jsonToList jsonToInt v))
  | none => pure (.s2 (← getList parseRow j "s2"))

def seqJ : Seq → Json
  | .s1 t => objJ [("s1", listJ intJ t)]
  | .s2 rows => objJ [("s2", listJ rowJ rows)]

/-- case: {ref: {s1: [...]} | {s2: [[t,s,e]..]}, sos, eos, tokens_only}.
Reply: {loaded, written, pinned_loaded}: `_load_ref` (repaired), `_write_hyp` of it, and what the
pinned `_load_ref` returns (null = IndexError). -/
def c12SosEos : Handler := fun c => do
  let r ← field c "ref" >>= parseSeq
  let sos ← getOptInt c "sos"
  let eos ← getOptInt c "eos"
  let to ← getBool c "tokens_only"
  let l := loadRef to sos eos r
  pure (objJ [("loaded", seqJ l), ("written", seqJ (writeHyp sos eos l)),
              ("pinned_loaded", optJ seqJ (loadRefPinned to sos eos r))])

/-- case: {hyp: seq, sos, eos}. Reply: {written}. -/
def c12WriteHyp : Handler := fun c => do
  let h ← field c "hyp" >>= parseSeq
  let sos ← getOptInt c "sos"
  let eos ← getOptInt c "eos"
  pure (objJ [("written", seqJ (writeHyp sos eos h))])

def infoJ (i : List (String × Int)) : Json := objJ (i.map fun (k, v) => (k, intJ v))

/-- The lines of the output file, in order. -/
def linesJ (i : List (String × Int)) : Json :=
  listJ (fun (kv : String × Int) => Json.arr #[strJ kv.1, intJ kv.2]) (sortLines i)

/-- case: {discover: {...}, lang: bool, refs: [stored reference of every discovered utterance, in
`utt_ids` order, as a seq], sos, eos, tokens_only}.
Reply: {discover, loaded: [what `__getitem__` hands out], written: [what `write_hyp` of it stores]}.
For `lang` the listing's `feat` is the listing of the one directory. -/
def c12Dataset : Handler := fun c => do
  let sos ← getOptInt c "sos"
  let eos ← getOptInt c "eos"
  let to ← getBool c "tokens_only"
  let refs ← match fieldOpt c "refs" with
    | none => pure []
    | some v => jsonToList (jsonToOption parseSeq) v
  let loaded := refs.map (Option.map (loadRef to sos eos))
  let written := loaded.map (Option.map (writeHyp sos eos))
  pure (objJ [("discover", ← discoverOpt c), ("loaded", listJ (optJ seqJ) loaded),
              ("written", listJ (optJ seqJ) written)])

/-- case: {utts, mode: "info" | "strict" | "fix", fix: k (for mode fix), impl_disk?}: the command
`get-torch-spect-data-dir-info [--strict | --fix k]`.
Reply: {ok, err, disk, report (model, one pass), recount (spec, of `disk`), expected, expected_wf,
impl_recount (spec, of what the implementation left on disk)}. -/
def c12Info : Handler := fun c => do
  let utts ← getList parseUtt c "utts"
  let mode ← getStr c "mode"
  let k ← getOptNat c "fix"
  let (strict, fix) ← match mode with
    | "info" => pure (false, none)
    | "strict" => pure (true, none)
    | "fix" => pure (false, some (k.getD 1))
    | _ => throw s!"bad mode {mode}"
  let (after, res) := infoCmd strict fix utts
  let implDisk ← match fieldOpt c "impl_disk" with
    | none => pure none
    | some v => some <$> jsonToList parseUtt v
  let exp := repair fix utts
  let common := [("disk", dirJ after), ("expected", dirJ exp),
    ("expected_wf", boolJ (decide (WellFormed exp))),
    ("impl_recount", optJ (fun d => infoJ (recount d)) implDisk),
    ("impl_recount_lines", optJ (fun d => linesJ (recount d)) implDisk),
    ("discover", ← discoverOpt c)]
  match res with
  | .error e =>
    pure (objJ ([("ok", boolJ false), ("err", strJ (infoErrStr e))] ++ common))
  | .ok acc =>
    pure (objJ ([("ok", boolJ true), ("err", Json.null),
                ("report", infoJ (report utts.length acc)),
                ("lines", linesJ (report utts.length acc)),
                ("recount", infoJ (recount after))] ++ common))
where
  infoErrStr : InfoErr → String
    | .val e => errStr e
    | .negAli => "negAli"
    | .unpack => "unpack"

def main : IO Unit := Proto.run [("c12.history", c12History), ("c12.sos_eos", c12SosEos),
  ("c12.write_hyp", c12WriteHyp), ("c12.dataset", c12Dataset),
  ("c12.info", c12Info)]
