"""C07 helpers: instrumentation (replayed multinomial, identity log-softmax), the table language
model with threaded state, number conversion."""
import contextlib
from fractions import Fraction

from common.framework import frac_str


class ReplayError(Exception):
    """The replayed draw is impossible under the distribution handed to torch.multinomial."""


class StateThreadingError(Exception):
    """The walk/wrapper did not hand the language model the state that belongs to the history."""


def fs(x):
    return frac_str(float(x))


def fr(s):
    return Fraction(s)


def tensor_fracs(t):
    """nested list of exact 'n/d' strings of a float tensor"""
    def rec(x):
        if isinstance(x, list):
            return [rec(y) for y in x]
        return frac_str(float(x))
    return rec(t.tolist())


def flat(x):
    out = []

    def rec(y):
        if isinstance(y, list):
            for z in y:
                rec(z)
        else:
            out.append(y)
    rec(x)
    return out


def torch_dtype(name):
    import torch
    return {"f32": torch.float32, "f64": torch.float64, None: torch.float32}[name]


LAYOUTS = ("contig", "perm", "strided", "offset")


def relayout(t, mode, junk=None):
    """A tensor with the values of `t` in another memory layout: `perm` = dense but stored with
    the dimensions reversed, `strided` = every second cell of a longer buffer along the last
    dimension (junk in between, storage offset 1), `offset` = the inside of a buffer that is two
    longer along the first dimension (storage offset != 0)."""
    import torch
    if mode in (None, "contig") or t.dim() == 0:
        return t.contiguous()
    if junk is None:
        junk = 77.0 if t.is_floating_point() else 1
    shape = list(t.shape)
    if mode == "perm":
        rev = list(range(t.dim() - 1, -1, -1))
        return t.permute(rev).contiguous().permute(rev)
    if mode == "strided":
        big = torch.full(shape[:-1] + [shape[-1] * 2 + 1], junk, dtype=t.dtype)
        view = big[..., 1::2]
        view.copy_(t)
        return view
    if mode == "offset":
        big = torch.full([shape[0] + 2] + shape[1:], junk, dtype=t.dtype)
        view = big[1:-1]
        view.copy_(t)
        return view
    raise ValueError(mode)


def from_fracs(nested, dtype=None):
    import torch
    if isinstance(dtype, str):
        dtype = torch_dtype(dtype)

    def rec(x):
        if isinstance(x, list):
            return [rec(y) for y in x]
        f = Fraction(x)
        return f.numerator / f.denominator
    return torch.tensor(rec(nested), dtype=dtype or torch.float32)


@contextlib.contextmanager
def replay_multinomial(rows, log):
    """torch.multinomial returns the next row of `rows` (a list of per-path token lists) instead of
    drawing. A replayed token must have positive probability, otherwise ReplayError."""
    import torch
    saved = torch.multinomial
    queue = [list(r) for r in rows]

    def fake(probs, num_samples, replacement=False, **kw):
        if not queue:
            raise ReplayError("multinomial called more often than draws were supplied")
        row = queue.pop(0)
        if probs.dim() != 2 or num_samples != 1 or len(row) != probs.size(0):
            raise ReplayError(f"unexpected multinomial call {tuple(probs.shape)} {num_samples} {row}")
        y = torch.tensor(row, dtype=torch.long, device=probs.device).unsqueeze(1)
        if (y < 0).any() or (y >= probs.size(1)).any():
            raise ReplayError("draw outside the vocabulary")
        p = probs.gather(1, y)
        if not bool((p > 0).all()):
            raise ReplayError(f"draw {row} has probability zero under {probs.tolist()}")
        if bool((probs < 0).any()) or bool((probs != probs).any()):
            raise ReplayError("multinomial got negative or NaN weights")
        log.append(row)
        return y

    torch.multinomial = fake
    try:
        yield
    finally:
        torch.multinomial = saved


@contextlib.contextmanager
def identity_log_softmax():
    """Exact stream: log_softmax (a trusted primitive) is replaced by the identity, the inputs
    already being 'log-softmax values' on a dyadic grid, so every later float operation is exact."""
    import torch
    import torch.nn.functional as F
    saved_f = F.log_softmax
    saved_t = torch.log_softmax
    had = "log_softmax" in torch.Tensor.__dict__
    saved_m = torch.Tensor.__dict__.get("log_softmax")

    def ident(x, dim=None, *a, **k):
        return x.clone()

    F.log_softmax = ident
    torch.log_softmax = ident
    torch.Tensor.log_softmax = ident
    try:
        yield
    finally:
        F.log_softmax = saved_f
        torch.log_softmax = saved_t
        if had:
            torch.Tensor.log_softmax = saved_m
        else:
            del torch.Tensor.log_softmax


def lsm_rows(rows, exact, dtype=None):
    """What the implementation's log_softmax makes of the LM rows: identity in the exact stream,
    torch's own float32 log_softmax otherwise. rows: list of list of 'n/d'. Returns fraction strings."""
    import torch
    if exact or not rows:
        return [list(r) for r in rows]
    t = from_fracs(rows, dtype)
    return tensor_fracs(torch.nn.functional.log_softmax(t, -1))


def hist_key(seq):
    return ",".join(str(int(x)) for x in seq)


LM_MUTATE = (None, "keys", "dict", "tensor", "all")

JUNK_KINDS = ("ninf_row", "ninf_one", "pinf", "nan", "nan_row", "mixed")


def junk_row(kind, V, k=0):
    """A row of `V` scores holding non-finite garbage (for a region the property says is
    ignored): every class -inf (a fully masked frame), one -inf, one +inf, one NaN, all NaN, or a
    mixture; the other entries are finite. `k` selects the position."""
    ninf, pinf, nan = float("-inf"), float("inf"), float("nan")
    row = [0.25 * (i + 1) for i in range(V)]
    if kind == "ninf_row":
        return [ninf] * V
    if kind == "nan_row":
        return [nan] * V
    if kind == "mixed":
        return [(ninf, pinf, nan)[(i + k) % 3] for i in range(V)]
    row[k % V] = {"ninf_one": ninf, "pinf": pinf, "nan": nan}[kind]
    return row


def put_junk(t, where, kinds, allowed=None, ninf=float("-inf")):
    """Overwrite rows (last dimension) of the float tensor `t` with garbage of the kind named at
    the same position in `kinds` (nested list of None / kind name): a kind of JUNK_KINDS is
    written only where the boolean `where` is set (a position the property says is ignored);
    the kind "ninf_other" only where it is not set: there one entry for which `allowed` (bool,
    shape of `t`) holds - a class that is not the one that counts - becomes `ninf` (-inf: a
    masked vocabulary entry; 0 for probabilities). Returns a new tensor; `t` is left alone."""
    import torch
    t = t.contiguous().clone()
    V = t.size(-1)
    flat = t.view(-1, V)
    w = torch.as_tensor(where, dtype=torch.bool).reshape(-1)
    al = None if allowed is None else allowed.reshape(-1, V)
    ks = flat_list(kinds)
    for i in range(flat.size(0)):
        k = ks[i] if i < len(ks) else None
        if k is None:
            continue
        if k == "ninf_other":
            if not bool(w[i]) and al is not None:
                cand = [c for c in range(V) if bool(al[i, c])]
                if cand:
                    flat[i, cand[i % len(cand)]] = ninf
        elif bool(w[i]):
            flat[i] = torch.tensor(junk_row(k, V, i), dtype=t.dtype)
    return t


def finite_fill(t):
    """What the model is given for a tensor that may hold non-finite entries: per row (last
    dimension) every non-finite entry becomes the smallest finite entry of the row minus one
    (0 when the row has none). The model is proved not to look at the ignored entries; an entry
    that lost against the row's maximum still loses."""
    import torch
    if t.numel() == 0:
        return t
    fin = torch.isfinite(t)
    big = torch.where(fin, t, torch.full_like(t, float("inf")))
    low = big.min(-1, keepdim=True).values - 1
    low = torch.where(torch.isfinite(low), low, torch.zeros_like(low))
    return torch.where(fin, t, low.expand_as(t))


def flat_list(x):
    out = []

    def rec(y):
        if isinstance(y, list):
            for z in y:
                rec(z)
        else:
            out.append(y)
    rec(x)
    return out


def same_tensor(a, b):
    """torch.equal with NaN == NaN (inputs may hold non-finite garbage)"""
    import torch
    if a.shape != b.shape or a.dtype != b.dtype:
        return False
    if not a.is_floating_point():
        return bool(torch.equal(a, b))
    return bool(torch.equal(a.nan_to_num(12345.0, 23456.0, -34567.0), b.nan_to_num(12345.0, 23456.0, -34567.0)))


EDIT_KINDS = ("row0", "const", "incr", "oov", "neg")


def scribble(t, kind, V=2):
    """The caller edits a tensor it was handed, in place (it owns it). Token tensors: `row0` =
    every row becomes a copy of the first one (duplicates), `const` = every cell V-1, `incr` =
    every cell + 1, `oov` = every cell V + 1, `neg` = every cell -1; score tensors: the first
    row everywhere / 0 / -1 / NaN / -inf; boolean tensors are negated. An expanded tensor
    (stride 0: torch refuses most in-place operations on it) is written through the view of
    its first slice along every expanded dimension, as `t[:, 0]` would be. -> the tensor as it
    is after the edit (a copy, for the later comparison "what was handed out stays the
    caller's")."""
    import torch
    w = t
    for d in range(t.dim()):
        if t.size(d) > 1 and t.stride(d) == 0:
            w = w.narrow(d, 0, 1)
    if w.numel():
        if w.dtype == torch.bool:
            w.logical_not_()
        elif kind == "row0" and w.dim() >= 1:
            w.copy_(w[:1].clone().expand_as(w))
            if w.size(0) == 1:
                w.add_(1)
        elif w.is_floating_point():
            if kind == "incr":
                w.sub_(1)
            else:
                w.fill_({"const": 0.0, "oov": float("nan"), "neg": float("-inf")}.get(kind, 1.0))
        elif kind == "incr":
            w.add_(1)
        else:
            w.fill_({"const": V - 1, "oov": V + 1, "neg": -1}.get(kind, V + 1))
    return t.clone()


def state_snapshot(d):
    """what a caller can see of a state dictionary: its keys and the values of its tensors"""
    return {k: (v.dtype, tuple(v.shape), v.clone()) for k, v in d.items()}


def state_changes(d, snap):
    """-> list of differences between the dictionary `d` now and its snapshot"""
    import torch
    out = []
    for k in d:
        if k not in snap:
            out.append(f"key {k!r} added")
    for k, (dt, sh, val) in snap.items():
        if k not in d:
            out.append(f"key {k!r} removed")
        elif d[k].dtype != dt or tuple(d[k].shape) != sh or not torch.equal(d[k], val):
            out.append(f"tensor {k!r} changed from {val.tolist()} to {d[k].tolist()}")
    return out


def make_lm(V, tables, default, eos=None, shared=False, dtype=None, layout=None, mutate=None,
            default_junk=None, raise_oov=False):
    """`mutate`: how the model treats the state dictionary it is handed (all are legitimate
    language models; the library's own ones build new dictionaries): None = builds new
    dictionaries, "keys" = `update_input` adds its keys to the dictionary it is given, "dict" =
    additionally `calc_idx_log_probs` stores the updated state under the same keys of the
    dictionary it is given and returns that dictionary, "tensor" = new dictionary in
    `update_input`, afterwards the state tensors are updated in place, "all" = keys added in
    place and tensors updated in place. `default_junk`: the rows returned for histories that
    already ended (contain `eos`) hold non-finite garbage of that kind instead of `default`.
    `dtype`/`layout`: dtype and memory layout of the rows the model returns. The initial state
    may carry `sel` (long tensor of K table indices): batch element `n` then answers from
    `tables[sel[n % K]]` - a language model conditioned on a batched input.
    `raise_oov`: the model raises IndexError when the history it is asked about holds a token
    outside the vocabulary - what a language model with an embedding table does (also for tokens
    after the first eos, which the wrapper's validation ignores).
    tables: per batch element a dict hist_key -> list of V 'n/d' (raw LM outputs); default: list
    of V. The model threads a rolling state through `prev` and raises StateThreadingError when
    the state it is handed is not the state of the history it is asked about. Histories that
    already contain `eos` are not checked (the tokens after the first eos are unspecified)."""
    import torch
    from pydrobert.torch.modules import SequentialLanguageModel

    B = 1000003

    def roll(s, tok):
        return (s * 31 + int(tok) + 7) % B

    class TableLM(SequentialLanguageModel):
        def __init__(self):
            super().__init__(V)
            self.calls = 0
            self.handed = []   # (tensor handed to the caller, its content then)

        def rows_modified(self):
            """how many of the score tensors this model returned were edited afterwards (they
            are the model's: it may hand out views of its own parameters)"""
            return sum(1 for t, c in self.handed if not same_tensor(t, c))

        def update_input(self, prev, hist):
            if "state" in prev:
                return prev
            if mutate not in ("keys", "dict", "all"):
                prev = dict(prev)
            prev["state"] = torch.zeros(hist.size(1), dtype=torch.long)
            prev["at"] = torch.full((hist.size(1),), -1, dtype=torch.long)
            return prev

        def calc_idx_log_probs(self, hist, prev, idx):
            self.calls += 1
            N = hist.size(1)
            idx_ = int(idx.item()) if idx.dim() == 0 else None
            if idx_ is None:
                raise StateThreadingError("vector idx not used by C07")
            state = prev["state"].clone()
            at = prev["at"].clone()
            out = []
            for n in range(N):
                col = [int(x) for x in hist[:idx_, n].tolist()]
                if raise_oov and any(not (0 <= x < V) for x in col):
                    raise IndexError("index out of range in self")
                if eos is not None and eos in col:
                    at[n] = idx_
                    if default_junk is not None:
                        out.append(junk_row(default_junk, V, n + idx_))
                    else:
                        out.append([float(Fraction(x)) for x in default])
                    continue
                # state handed in must describe hist[:idx-1] (or be the fresh state at idx 0)
                exp_prev = 0
                for tok in col[:-1]:
                    exp_prev = roll(exp_prev, tok)
                if idx_ == 0:
                    ok = int(at[n]) == -1 and int(state[n]) == 0
                else:
                    ok = int(at[n]) == idx_ - 1 and int(state[n]) == exp_prev
                if not ok:
                    raise StateThreadingError(
                        f"element {n}: the language model is asked for idx {idx_} with a state "
                        f"dictionary that describes idx {int(at[n])} (state {int(state[n])}, "
                        f"expected {exp_prev if idx_ else 0}); at idx 0 it must be handed the "
                        f"initial state")
                if idx_ > 0:
                    state[n] = roll(exp_prev, col[-1])
                at[n] = idx_
                if "sel" in prev:
                    sel = prev["sel"]
                    ti = int(sel[n % sel.numel()])
                    tab = tables[ti] if ti < len(tables) else {}
                else:
                    tab = tables[0] if shared else (tables[n] if n < len(tables) else {})
                row = tab.get(hist_key(col), default)
                out.append([float(Fraction(x)) for x in row])
            if mutate in ("tensor", "all"):
                prev["state"].copy_(state)
                prev["at"].copy_(at)
                nxt = prev
            elif mutate == "dict":
                prev["state"] = state
                prev["at"] = at
                nxt = prev
            else:
                nxt = dict(prev)
                nxt["state"] = state
                nxt["at"] = at
            rows = relayout(torch.tensor(out, dtype=torch_dtype(dtype)).view(N, V), layout)
            self.handed.append((rows, rows.clone()))
            return rows, nxt

    return TableLM()


# ---- optional arguments: the DOCUMENTED defaults of every entry point the property covers (round h).
# (name, default) in signature order; None as name = positional only (RandomWalk.forward's first
# parameter has two names in the overloads)
DEFAULTS = {
    "sequence_log_probs": (("dim", 0), ("eos", None)),
    "SequenceLogProbabilities": (("dim", 0), ("eos", None)),
    "ctc_greedy_search": (("in_lens", None), ("blank_idx", -1), ("batch_first", False), ("is_probs", False)),
    "CTCGreedySearch": (("blank_idx", -1), ("batch_first", False), ("is_probs", False)),
    "random_walk_advance": (("y_prev_lens", None),),
    "RandomWalk": (("eos", None),),
    "RandomWalk.forward": ((None, None), ("batch_size", None), ("max_iters", None)),
    "SequentialLanguageModelDistribution": (("batch_size", None), ("initial_state", None), ("max_iters", None),
                                            ("cache_samples", False), ("validate_args", None)),
}


def is_default(v, d):
    return (v is None and d is None) or (v is not None and d is not None and type(v) is type(d) and v == d)


def call(fn, name, req, opt, omit):
    """fn(*req, *opt) - or, with `omit`, the same call the way a user writes it who relies on the
    documentation: every optional argument whose value IS its documented default is left out (the
    others go by keyword; a positional-only one stays unless everything from it on is left out)"""
    sig = DEFAULTS[name]
    assert len(opt) == len(sig), (name, opt)
    if not omit:
        return fn(*req, *opt)
    dflt = [is_default(v, d) for v, (_, d) in zip(opt, sig)]
    pos, kw = list(req), {}
    for i, (v, (nm, _)) in enumerate(zip(opt, sig)):
        if nm is None:
            if not all(dflt[i:]):
                pos.append(v)
        elif not dflt[i]:
            kw[nm] = v
    return fn(*pos, **kw)


def omitted(name, opt):
    """names of the optional arguments `call(..., omit=True)` leaves out"""
    return [nm or f"#{i}" for i, (v, (nm, d)) in enumerate(zip(opt, DEFAULTS[name])) if is_default(v, d)]


def dtype_name(t):
    import torch
    return {torch.float32: "f32", torch.float64: "f64"}.get(t.dtype, str(t.dtype))
