"""C10 — slicing policies yield the documented windows; token chunks are slice-relative.

Correspondence: `functional.slice_spect_data` / `modules.SliceSpectData` and
`functional.chunk_token_sequences_by_slices` / `modules.ChunkTokenSequencesBySlices` are run
in-process on exhaustively enumerated small inputs and on inputs whose dimensions sit at and around
the size thresholds 16 / 32 / 64 / 128 / 1000 (`cases_large`); the Lean driver returns, for the same input
and grid of configurations, the output of the tensor-style model (`Model/Slicing.lean`) and the
value of the declarative policy (`Spec/SlicePolicy.lean`).

One case = one input (rows / refs) with a small grid of configurations evaluated on both sides in
the same order (lobes x window types x valid x lens options; partial x retain x slices x ref_lens).

Directory level (both tiers): `chunk-torch-spect-data-dir --num-workers 0` on small well-formed
directories, every subset of the command's boolean flags x policy x validity and every file-layout
option, see `c10_dir.py`.
"""
import itertools

from common.framework import PropertyCheck

import c10_dir

WTS = ["symmetric", "causal", "future"]
SIG_PLUS = "C10.tokens.boundaries_plus_start"


# ------------------------------------------------------------------------------ helpers
def grid_slice(case):
    return list(itertools.product(case["lobes"], case["wts"], case["valids"], range(len(case["lens_opts"]))))


def grid_tokens(case):
    return list(itertools.product(case["partials"], case["retains"], range(len(case["slices_opts"])),
                                  range(len(case["ref_lens_opts"]))))


def _lt(x, dtype=None):
    import torch
    return None if x is None else torch.tensor(x, dtype=getattr(torch, dtype or "int64"))


# ---- values the documentation declares irrelevant, or only looks at through a predicate -------------
# 'ref': the token id ("ignored"), a missing boundary is ANY negative number; 'ali': only equality of
# neighbouring labels matters; everything at or beyond in_lens / ref_lens is padding; 'fixed' never looks at
# the feature values, their dtype or the trailing dimensions; other_lens is only used by 'ref'; lengths are
# integer tensors. One profile per case: how far out these free integers are and the integer dtypes of
# the tensors handed over (int32 only when every value fits).
MAGS = ["small", "small", "i32", "i64"]
FAR = 2 ** 40          # known boundaries / lengths stay below 2**40: the code adds lobe_size to them (no wrap)


def draw_profile(rng):
    mag = rng.choice(MAGS)
    return {"mag": mag,
            "dtype": "int64" if mag == "i64" else rng.choice(["int64", "int64", "int32"]),
            "lens_dtype": rng.choice(["int64", "int64", "int32"])}


def _magnitude(rng, mag):
    if mag == "small" or rng.random() < 0.4:
        return rng.randint(0, 9)
    if mag == "i32":
        return rng.choice([rng.randint(10, 2 ** 31 - 2), 2 ** 31 - 1])
    return rng.choice([rng.randint(2 ** 31, 2 ** 62), 2 ** 63 - 2])   # -v - 2 is still an int64


def free_int(rng, mag):
    """An integer of either sign (0 included) of the profile's magnitude class."""
    v = _magnitude(rng, mag)
    return v if rng.random() < 0.5 else -v - 1


def neg_int(rng, mag):
    """A missing boundary: -1 half of the time, otherwise any other negative number."""
    return -1 if rng.random() < 0.5 else -_magnitude(rng, mag) - 2


def distinct_ints(rng, mag, k):
    out, seen = [], set()
    while len(out) < k:
        # the small class has 20 values only: longer lists draw from a range that grows with the list
        v = free_int(rng, mag) if k <= 8 else free_int(rng, mag) * rng.choice([1, 1, 7]) + rng.randint(-4 * k, 4 * k)
        if v not in seen and -2 ** 63 <= v < 2 ** 63:
            seen.add(v)
            out.append(v)
    return out


def miss(rng, mag, b):
    """Boundary symbol -> value: a negative symbol stands for 'missing' and is instantiated freely."""
    return neg_int(rng, mag) if b < 0 else b


def tok_of(rng, mag, s, e):
    return [free_int(rng, mag), miss(rng, mag, s), miss(rng, mag, e)]


def relabel(rng, mag, rows, labels):
    """Rename the labels of alignment rows by an injective map into integers of any sign."""
    m = dict(zip(labels, distinct_ints(rng, mag, len(labels))))
    return [[m[x] for x in r] for r in rows]


FEAT_DTYPES = ["float32", "float32", "float64", "float16", "int64", "int32", "uint8", "bool"]
FEAT_FILLS = ["zeros", "nan", "neg", "inf", "count"]
FEAT_TRAILS = [[], [1], [2], [3], [0], [2, 2]]


def draw_feat(rng):
    return {"dtype": rng.choice(FEAT_DTYPES), "fill": rng.choice(FEAT_FILLS), "trail": rng.choice(FEAT_TRAILS)}


def build_feats(N, T, feat):
    import torch
    dt = getattr(torch, feat["dtype"])
    shape = [N, T] + list(feat["trail"])
    fill = feat["fill"]
    if fill == "count":
        n = 1
        for d in shape:
            n *= d
        return (torch.arange(n) % 100).reshape(shape).to(dt)
    if not dt.is_floating_point:
        return torch.full(shape, {"zeros": 0, "neg": -3}.get(fill, 1), dtype=torch.int64).to(dt)
    return torch.full(shape, {"zeros": 0.0, "nan": float("nan"), "neg": -1e4, "inf": float("inf")}[fill], dtype=dt)


LAYOUTS = ["contiguous", "expanded", "strided"]
VIAS = ["functional", "module", "functional_kw", "module_kw", "scripted"]
# "scripted" = torch.jit.script(module): the documented third way to run the modules (TorchScript has its own
# integer / indexing semantics). One compiled module per constructor argument tuple, kept for the run.
_SCRIPTED = {}


def err_class(e):
    """The error class of an observation. A scripted module raises torch.jit.Error (TorchScript's wrapper: its text
    ends with the class and message of the error the scripted code raised): recorded as that class."""
    if type(e).__module__.startswith("torch.jit") and type(e).__name__ == "Error":
        import re
        m = re.findall(r"^(?:builtins\.)?(\w+(?:Error|Exception)):", str(e), flags=re.M)
        return m[-1] if m else "Error"
    return type(e).__name__


def scripted(cls_name, *args):
    import warnings
    import torch
    from pydrobert.torch import modules
    key = (cls_name,) + args
    if key not in _SCRIPTED:
        with warnings.catch_warnings():
            warnings.simplefilter("ignore")
            _SCRIPTED[key] = torch.jit.script(getattr(modules, cls_name)(*args))
    return _SCRIPTED[key]


# ---- size-triggered paths ---------------------------------------------------------------------------
# torch switches algorithm with the size of a dimension (sort: insertion sort up to 16 elements, vectorised /
# parallel kernels from 32 / 64 / 128 elements on, chunked reductions beyond ~1000): every dimension of every
# covered function is taken to and around these thresholds.
SIZES = [15, 16, 17, 31, 32, 33, 64, 65, 128, 129]


def sizes(rng):
    return SIZES + [1000 + rng.randint(0, 40)]


def tiled_row(rng, mag, R):
    """R tokens with DISTINCT ids whose known segments follow one another (widths 0..3, now and then a gap), a few
    with a missing boundary: any loss, duplication or REORDERING of tokens is visible in the result.
    Returns (row, end of the last segment)."""
    ids = distinct_ints(rng, mag, R)
    t = rng.choice([0, 0, 1, 3])
    row = []
    for i in range(R):
        w = rng.choice([1, 1, 2, 3, 0])
        s, e = t, t + w
        t = e + (rng.randint(1, 2) if rng.random() < 0.05 else 0)
        x = rng.random()
        if x < 0.03:
            s = neg_int(rng, mag)
        elif x < 0.06:
            e = neg_int(rng, mag)
        row.append([ids[i], s, e])
    return row, t


def wide_window(rng, total):
    """A slice of a sequence of `total` frames that keeps many tokens and drops many (not a prefix of the row)."""
    x = rng.random()
    if x < 0.1:
        return [0, total]
    if x < 0.2:
        return [-rng.randint(1, 3), total + rng.randint(1, 3)]
    a = rng.randint(0, max(total // 2, 0))
    b = rng.randint(total // 2, total)
    return [a, b] if x < 0.95 else [b, a]


def brief(x, k=6):
    """Long lists in messages: the first and last few entries."""
    if isinstance(x, list) and len(x) > 2 * k:
        return f"{x[:k]}".rstrip("]") + f", ... ({len(x) - 2 * k} more) ..., " + f"{x[-k:]}".lstrip("[")
    return f"{x}"


def diff_note(got, want):
    """How two long lists differ: first differing position; same elements in another order?"""
    if not (isinstance(got, list) and isinstance(want, list)) or max(len(got), len(want)) <= 8:
        return ""
    k = next((i for i, (a, b) in enumerate(zip(got, want)) if a != b), min(len(got), len(want)))
    note = f" [lengths {len(got)}/{len(want)}; first difference at position {k}: " \
           f"{got[k] if k < len(got) else 'nothing'} instead of {want[k] if k < len(want) else 'nothing'}"
    try:
        if sorted(map(tuple, got)) == sorted(map(tuple, want)):
            note += "; the SAME elements in a different ORDER"
    except TypeError:
        pass
    return note + "]"

# the documented defaults of slice_spect_data / SliceSpectData and of the token chunker
SLICE_DEFAULTS = {"policy": "fixed", "window_type": "symmetric", "valid_only": True, "lobe_size": 0}
TOKEN_DEFAULTS = {"partial": False, "retain": False}


def lay_out(x, layout):
    """The same values in a different memory layout: 'expanded' = a stride-0 view of one row when
    all batch rows are equal (the way chunk-torch-spect-data-dir passes an utterance against its M
    windows), 'strided' = a non-contiguous view (every second element of a larger buffer along
    every dimension)."""
    import torch
    if x is None or layout in (None, "contiguous") or x.ndim == 0:
        return x
    if layout == "expanded":
        if x.shape[0] > 1 and bool((x == x[:1]).all()):
            return x[:1].expand(*x.shape)
        layout = "strided"
    big = torch.full([2 * d for d in x.shape], -77, dtype=torch.int64).to(x.dtype)   # junk between the elements
    view = big[tuple(slice(None, None, 2) for _ in x.shape)]
    view.copy_(x)
    return view


def build_input(case):
    import torch
    N, T = case["N"], case["T"]
    pol = case["policy"]
    dt = getattr(torch, case.get("dtype", "int64"))
    if pol == "fixed":
        x = build_feats(N, T, case.get("feat") or {"dtype": "float32", "fill": "zeros", "trail": [case.get("F", 1)]})
    elif pol == "ali":
        x = torch.tensor(case["rows"], dtype=dt).reshape(N, T)
    else:
        x = torch.tensor(case["rows"], dtype=dt).reshape(N, T, 3)
    return lay_out(x, case.get("layout"))


def non_default(kw, defaults):
    """Keyword form of a call: arguments equal to their documented default are OMITTED."""
    return {k: v for k, v in kw.items() if defaults[k] != v}


def call_slicer(case, inp, in_lens, other_lens, wt, vo, lobe):
    via = case.get("via", "functional")
    kw = {"policy": case["policy"], "window_type": wt, "valid_only": vo, "lobe_size": lobe}
    if via == "scripted":
        return scripted("SliceSpectData", case["policy"], wt, vo, lobe)(inp, in_lens, other_lens)
    if via.startswith("module"):
        from pydrobert.torch.modules import SliceSpectData
        mod = (SliceSpectData(**non_default(kw, SLICE_DEFAULTS)) if via == "module_kw"
               else SliceSpectData(case["policy"], wt, vo, lobe))
        if via == "module_kw":
            lens = {k: v for k, v in (("in_lens", in_lens), ("other_lens", other_lens)) if v is not None}
            return mod(inp, **lens)
        return mod(inp, in_lens, other_lens)
    from pydrobert.torch.functional import slice_spect_data
    if via == "functional_kw":
        lens = {k: v for k, v in (("in_lens", in_lens), ("other_lens", other_lens)) if v is not None}
        return slice_spect_data(inp, **lens, **non_default(kw, SLICE_DEFAULTS))
    return slice_spect_data(inp, in_lens, other_lens, case["policy"], wt, vo, lobe)


def call_chunker(case, refs, sl, rl, p, r):
    via = case.get("via", "functional")
    kw = non_default({"partial": p, "retain": r}, TOKEN_DEFAULTS)
    lens = {} if rl is None else {"ref_lens": rl}
    if via == "scripted":
        return scripted("ChunkTokenSequencesBySlices", p, r)(refs, sl, rl)
    if via.startswith("module"):
        from pydrobert.torch.modules import ChunkTokenSequencesBySlices
        if via == "module_kw":
            return ChunkTokenSequencesBySlices(**kw)(refs, sl, **lens)
        return ChunkTokenSequencesBySlices(p, r)(refs, sl, rl)
    from pydrobert.torch.functional import chunk_token_sequences_by_slices
    if via == "functional_kw":
        return chunk_token_sequences_by_slices(refs, sl, **lens, **kw)
    return chunk_token_sequences_by_slices(refs, sl, rl, p, r)


def lens_in_domain(case, opt):
    N, T = case["N"], case["T"]
    il, ol = opt.get("in_lens"), opt.get("other_lens")
    if il is not None and (len(il) != N or any(x < 0 or x > T for x in il)):
        return False
    if ol is not None and len(ol) != N:
        return False
    return True


def seq_len_for(case, opt, n):
    """The length window `n`'s sequence is measured against (for the valid-only clause)."""
    T = case["T"]
    if case["policy"] != "ref":
        return T if opt.get("in_lens") is None else opt["in_lens"][n]
    if opt.get("other_lens") is not None:
        return opt["other_lens"][n]
    il = T if opt.get("in_lens") is None else opt["in_lens"][n]
    return 0 if il == 0 else case["rows"][n][il - 1][2]


class C10(PropertyCheck):
    pid = "C10"
    rule = ("one case = one input with a grid of configurations. slice cases: policy x rows x lobe set; "
            "inside: window types x valid_only x (in_lens, other_lens) options incl. omitted. "
            "fixed: every T<=7 (thorough 12), every length 0..T, N in 1..3; ali: every run structure over 2 "
            "labels for T<=7 (first label fixed), each with every in_lens 0..T as a replicated batch and alone, "
            "plus pairs/triples of rows and 3-label rows; ref: every list of <=2 (thorough <=3) tokens with "
            "boundaries in -1..3 (quick -1..2 for two tokens), in_lens 0..R/omitted, other_lens 0..5/omitted; tokens: "
            "every such list against every slice in -1..4 squared as one batch, partial x retain x ref_lens. "
            "FREE VALUES (per case a magnitude class small / int32 range / int64 range and the integer dtypes of "
            "data and lengths, int32 only where every value fits and no boundary +- lobe / + start can wrap): the "
            "enumerations above run over boundary SYMBOLS, a missing boundary (-1) is instantiated by any negative "
            "number, the token id (documented as ignored by 'ref', only copied by the chunker) by an integer of "
            "either sign -- every one-token 'ref' list once with a non-negative and once with a negative id --, the "
            "alignment labels are renamed by an injective map into integers of either sign, other_lens of 'ref' also "
            "negative / far out, other_lens handed to 'fixed' / 'ali' (unused there) arbitrary, 'fixed' gets feature "
            "tensors of 8 dtypes x {zeros, nan, inf, negative, counting} x trailing shapes (none, 0, 1, 2, 3, 2x2), "
            "random batches also hold known boundaries / slices near 2**31 and 2**40; directory level: token ids "
            "small / far out / negative, labels renamed, missing boundary pairs any negative, float32 / float64 "
            "features. "
            "every slice/tokens case draws its entry point (functional / module, positional / keywords with "
            "documented defaults omitted) and the memory layout of its arguments (contiguous / stride-0 expanded / "
            "strided view). dir (both tiers): chunk-torch-spect-data-dir --num-workers 0 on small directories (tiled, "
            "random, mixed token segmentations); every subset of {--partial-tokens, --retain-token-boundaries, "
            "--quiet} x policy x {valid-only, --pad-mode} (3 rounds, window type, lobe 0..3, constant/replicate/reflect "
            "padding and pad constant drawn), every non-default file-layout option (--file-prefix, --file-suffix, "
            "the three sub-directory names, default --format-utt, no ali/, no ref/) alone and all together; "
            "plus: the documented command-line defaults (--policy fixed, --window-type symmetric, --lobe-size 0) left "
            "off the command line, all at once and one at a time, for every policy; --pad-mode reflect; an utterance of "
            "10**5+k frames cut near its end (default names wider than their field) with and without padding. "
            "thorough adds 160 random runs. "
            "audit additions: ref_lens beyond R and negative for the token chunker; wrong numbers of slices / ref_lens / "
            "in_lens (also for 'ref', where the code has no explicit test) through the model's shape guard; directories "
            "with an utterance of 0 frames (alone and next to others) x policy x validity; directories whose ref/ files "
            "hold token ids only (1-D) x policy x validity ('ref' must refuse; 'fixed'/'ali': known finding). "
            "SIZE-TRIGGERED PATHS (round g): every dimension of every covered function at and around 15,16,17 / "
            "31,32,33 / 64,65 / 128,129 / 1000+k, one case per size and dimension in quick (three in thorough): token "
            "chunker R (tokens per element) and N (elements = windows of one utterance), both moderately large (<=33) "
            "in 4 cases; 'fixed' / 'ali' / 'ref' T and N, lobes 0, 1..3 and one of 15..33 (64 for T >= 1000); 'fixed' "
            "also T just beyond 256, 2048, 2**15, 2**16 with a lobe of T/60..T/20 frames; long token rows have DISTINCT "
            "ids and segments that follow one another (widths 0..3, gaps, a few missing boundaries), alignment rows "
            "runs of 1..3 frames / a few long runs / single frames with differing neighbours, slices that keep a "
            "middle stretch of the row; ChunkBySlices called directly the way the worker does (windows touching the "
            "sequence, lengths omitted, expanded utterance or differing rows, feats / alis, constant / replicate / "
            "reflect) with T resp. the number of windows at the same sizes (Python-side oracle only); entry points "
            "functional / module / keyword forms / torch.jit.script(module) for every slice / tokens / frames case; "
            "directory level: per policy x validity one utterance of 33..129 frames (about T/2 tokens and runs, up to "
            "129 chunks), one utterance of 1000+ frames with --policy fixed --lobe-size 31..64 (hundreds of tokens, "
            "dozens per chunk), thorough also 1000+ frames cut into hundreds of chunks. "
            "non-trivial: some configuration returns >= 2 windows, or keeps >= 1 token and drops >= 1, or a "
            "directory run writes >= 2 chunks; distinct by the case json")
    assumptions = [
        "model is the model of the repaired tree (fixes/C10-*.diff); on the pinned tree the four repaired "
        "places raise or return an out-of-sequence window and the check reports them",
        "only in-domain lengths are specified: 0 <= in_lens <= T; other_lens any integer; boundaries any integer",
        "integer tensors are int64 (documented) or int32; magnitudes stay below 2**40 for known boundaries, slices "
        "and lengths (the code's boundary +- lobe_size / + start must not wrap), ids / labels / missing boundaries "
        "span the whole int64 range; for an int32 'ref' input the returned slices may be int32 (copied boundaries)",
        "directory level: a source with a negative token id is not well-formed by the library validator's rule, so "
        "the validator clause on the output is skipped for it (all other clauses are evaluated)",
        "torch primitives (arange, nonzero, boolean-mask indexing, gather, masked_scatter_) at their documented meaning",
        "sizes: every dimension up to 1040 (policy 'fixed': T up to 2**16 + 99); a path that only opens beyond that "
        "(e.g. int32 index overflow) is not exercised; the direct ChunkBySlices calls are judged by the Python-side "
        "oracle only (windows touching the sequence, reflect padding shorter than the sequence)",
        "a scripted module reports a documented RuntimeError as torch.jit.Error whose text names the original class; "
        "the observation records that class",
        "policy/window_type/lobe_size argument validation is checked only as 'RuntimeError/ValueError is raised'",
        "directory level: features/alignments of a chunk are compared with the source frames restricted to the "
        "window under constant / replicate / reflect padding (Python-side oracle, Lean chunkSeq, and the model of "
        "the whole worker); reflect padding of at least T frames must raise NotImplementedError; multi-worker runs "
        "are not exercised (C17)",
    ]
    exhaustive = {"quick": True, "thorough": True}
    quick_budget_s = 200
    thorough_budget_s = 1500

    # ------------------------------------------------------------------ generators
    def cases(self, rng, tier):
        for c in self.cases_raw(rng, tier):
            if c["kind"] in ("slice", "tokens") and "N" in c or c["kind"] == "tokens":
                # entry point / call form (positional, or keywords with documented defaults omitted) and
                # memory layout of the arguments are drawn per case
                c["via"] = rng.choice(VIAS)
                c["layout"] = rng.choice(["contiguous", "contiguous", "contiguous", "expanded", "expanded", "strided"])
                self.fit_dtypes(c)
            yield c

    @staticmethod
    def fit_dtypes(c):
        """int32 tensors only when every value fits and no sum the code forms (boundary +- lobe_size, boundary
        + slice start) can wrap: token ids / labels anywhere in int32, known boundaries and slice bounds below
        2**30. (The generators draw dtype and magnitude together; shrunk and hand-written cases pass here too.)"""
        def ints(x):
            if isinstance(x, (list, tuple)):
                for y in x:
                    yield from ints(y)
            elif isinstance(x, int) and not isinstance(x, bool):
                yield x
        lim = 2 ** 31
        if c.get("dtype") == "int32":
            if c["kind"] == "slice" and c.get("policy") == "ali":
                ok = all(-lim <= v < lim for v in ints(c["rows"]))
            else:
                toks = [t for row in c.get("rows", c.get("refs", [])) for t in row]
                ok = all(-lim <= t[0] < lim and all(-lim <= b < lim // 2 for b in t[1:]) for t in toks) and \
                    all(-lim // 2 <= v < lim // 2 for v in ints(c.get("slices_opts", [])))
            if not ok:
                c["dtype"] = "int64"
        lens = list(ints([list(o.values()) for o in c.get("lens_opts", [])])) + list(ints(c.get("ref_lens_opts", [])))
        if c.get("lens_dtype") == "int32" and any(not -lim // 2 <= v < lim // 2 for v in lens):
            c["lens_dtype"] = "int64"

    def cases_raw(self, rng, tier):
        big = tier != "quick"
        # directory level first (so that it is never cut off by the budget): the command line with
        # --num-workers 0, every subset of its boolean flags x policy x validity, every file-layout option
        yield from c10_dir.gen_quick(rng, rounds=6 if big else 3)
        yield from c10_dir.gen_large(rng, rounds=3 if big else 1)
        yield from self.cases_fixed(rng, big)
        yield from self.cases_ali(rng, big)
        yield from self.cases_ref(rng, big)
        yield from self.cases_tokens(rng, big)
        yield from self.cases_large(rng, big)
        yield from self.cases_malformed(rng, big)
        if big:   # more directory-level runs, everything drawn at random
            yield from c10_dir.gen_cases(rng, 400 if tier == "search" else 160)

    def unused_other(self, rng, pf, N, opts):
        """'fixed' and 'ali' never use other_lens: hand over arbitrary integers in some of the options."""
        for o in opts:
            if o.get("other_lens") is None and rng.random() < 0.3:
                o["other_lens"] = [free_int(rng, pf["mag"]) for _ in range(N)]
        return opts

    def cases_fixed(self, rng, big):
        maxT = 12 if big else 7
        lobes = list(range(0, 6 if big else 4))
        for T in range(0, maxT + 1):
            for lobe in lobes:
                pf = draw_profile(rng)
                opts = [{"in_lens": None, "other_lens": None}] + [{"in_lens": [l], "other_lens": None}
                                                                  for l in range(T + 1)]
                yield {"kind": "slice", "policy": "fixed", "N": 1, "T": T, "lobes": [lobe], "wts": WTS,
                       "valids": [True, False], "lens_opts": self.unused_other(rng, pf, 1, opts),
                       "feat": draw_feat(rng), "lens_dtype": pf["lens_dtype"]}
            # batches: every length at once, and random length vectors
            pf = draw_profile(rng)
            opts = [{"in_lens": None, "other_lens": None}, {"in_lens": list(range(T + 1)), "other_lens": None},
                    {"in_lens": list(range(T, -1, -1)), "other_lens": [0] * (T + 1)}]
            yield {"kind": "slice", "policy": "fixed", "N": T + 1, "T": T, "lobes": lobes, "wts": WTS,
                   "valids": [True, False], "lens_opts": self.unused_other(rng, pf, T + 1, opts),
                   "feat": draw_feat(rng), "lens_dtype": pf["lens_dtype"]}
            for N in (2, 3):
                pf = draw_profile(rng)
                opts = [{"in_lens": [rng.randint(0, T) for _ in range(N)], "other_lens": None} for _ in range(3)]
                opts.append({"in_lens": None, "other_lens": None})
                yield {"kind": "slice", "policy": "fixed", "N": N, "T": T, "lobes": lobes, "wts": WTS,
                       "valids": [True, False], "lens_opts": self.unused_other(rng, pf, N, opts),
                       "feat": draw_feat(rng), "lens_dtype": pf["lens_dtype"]}

    def ali_case(self, rng, N, T, rows, labels, lobes, opts):
        """An alignment case: the enumerated / drawn label structure is renamed by an injective map into
        integers of either sign and of the profile's magnitude (only equality of neighbours is specified to
        matter), other_lens (unused by 'ali') is arbitrary, lengths and data are int32 or int64."""
        pf = draw_profile(rng)
        return {"kind": "slice", "policy": "ali", "N": N, "T": T, "rows": relabel(rng, pf["mag"], rows, labels),
                "lobes": lobes, "wts": WTS, "valids": [True, False],
                "lens_opts": self.unused_other(rng, pf, N, opts), "dtype": pf["dtype"], "lens_dtype": pf["lens_dtype"]}

    def cases_ali(self, rng, big):
        maxT = 8 if big else 7
        lobes = list(range(0, 5 if big else 4))
        yield {"kind": "slice", "policy": "ali", "N": 1, "T": 0, "rows": [[]], "lobes": lobes, "wts": WTS,
               "valids": [True, False], "lens_opts": [{"in_lens": None, "other_lens": None},
                                                      {"in_lens": [0], "other_lens": None}]}
        for T in range(1, maxT + 1):
            for bits in itertools.product([0, 1], repeat=T - 1):
                row = [0] + list(bits)
                # alone (N = 1, the way the command line calls it), every length and omitted
                opts = [{"in_lens": None, "other_lens": None}] + [{"in_lens": [l], "other_lens": None}
                                                                  for l in range(T + 1)]
                if T > (7 if big else 5):
                    opts = opts[:2] + [rng.choice(opts[2:])]
                yield self.ali_case(rng, 1, T, [row], [0, 1], lobes, opts)
                # as a batch: the row replicated with every length (index arithmetic across elements)
                ls = list(range(T + 1))
                rng.shuffle(ls)
                yield self.ali_case(rng, T + 1, T, [row] * (T + 1), [0, 1], lobes,
                                    [{"in_lens": ls, "other_lens": None}, {"in_lens": None, "other_lens": None}])
        # pairs of rows, exhaustive for short rows
        for T in range(1, 4 if not big else 5):
            rows = [[0] + list(b) for b in itertools.product([0, 1], repeat=T - 1)]
            for r1, r2 in itertools.product(rows, rows):
                opts = [{"in_lens": None, "other_lens": None}] + [
                    {"in_lens": [a, b], "other_lens": None} for a in range(T + 1) for b in range(T + 1)]
                yield self.ali_case(rng, 2, T, [r1, r2], [0, 1], lobes, opts)
        # random batches over 3 labels
        for _ in range(600 if big else 80):
            T = rng.randint(1, 12 if big else 8)
            N = rng.randint(1, 4)
            rows = [[rng.choice([0, 1, 5]) if rng.random() < 0.5 else 0 for _ in range(T)] for _ in range(N)]
            for r in rows:
                for t in range(1, T):
                    if rng.random() < 0.5:
                        r[t] = r[t - 1]
            opts = [{"in_lens": None, "other_lens": None}] + [
                {"in_lens": [rng.randint(0, T) for _ in range(N)], "other_lens": None} for _ in range(3)]
            yield self.ali_case(rng, N, T, rows, [0, 1, 5], lobes, opts)

    def ref_opts(self, rng, R, full, mag="small"):
        ils = [None] + [[l] for l in range(R + 1)]
        # other_lens: any integer (a frame count in the useful range, but also negative / far out)
        ols = [None] + [[o] for o in range(0, 6)] + [[-1], [-_magnitude(rng, mag) - 2], [min(_magnitude(rng, mag), FAR) + 6]]
        if not full:
            ols = [None] + rng.sample(ols[1:], 2)
        return [{"in_lens": a, "other_lens": b} for a in ils for b in ols]

    def ref_case(self, rng, pf, N, T, rows, lobes, opts):
        return {"kind": "slice", "policy": "ref", "N": N, "T": T, "rows": rows, "lobes": lobes, "wts": WTS,
                "valids": [True, False], "lens_opts": opts, "dtype": pf["dtype"], "lens_dtype": pf["lens_dtype"]}

    def cases_ref(self, rng, big):
        """Segment lists are enumerated over boundary SYMBOLS -1 (missing), 0, 1, ...; per case a missing
        boundary is instantiated by any negative number and the token id (documented as ignored) by an
        integer of either sign, both of the case's magnitude class."""
        lobes = list(range(0, 4))
        yield {"kind": "slice", "policy": "ref", "N": 1, "T": 0, "rows": [[]], "lobes": lobes, "wts": WTS,
               "valids": [True, False], "lens_opts": [{"in_lens": None, "other_lens": None},
                                                      {"in_lens": [0], "other_lens": [3]}]}
        rng_b = range(-1, 4)
        segs = [(s, e) for s in rng_b for e in rng_b]
        segs_small = [(s, e) for s in range(-1, 3) for e in range(-1, 3)]
        for sg in segs:
            first = rng.choice([1, -1])
            for sign in (first, -first):   # every one-token list with a non-negative and with a negative token id
                pf = draw_profile(rng)
                tk = tok_of(rng, pf["mag"], *sg)
                if (tk[0] >= 0) != (sign > 0):
                    tk[0] = -tk[0] - 1
                ll = lobes if big or sign == first else sorted(rng.sample(lobes, 2))
                yield self.ref_case(rng, pf, 1, 1, [[tk]], ll, self.ref_opts(rng, 1, True, pf["mag"]))
        two = segs if big else segs_small
        for a, b in itertools.product(two, two):
            pf = draw_profile(rng)
            row = [tok_of(rng, pf["mag"], *a), tok_of(rng, pf["mag"], *b)]
            ll = lobes if big else sorted(rng.sample(lobes, 2))
            yield self.ref_case(rng, pf, 1, 2, [row], ll, self.ref_opts(rng, 2, big, pf["mag"]))
        if big:
            three = list(itertools.product(segs_small, repeat=3))
        else:
            three = [tuple(rng.choice(segs) for _ in range(3)) for _ in range(150)]
        for tr in three:
            pf = draw_profile(rng)
            row = [tok_of(rng, pf["mag"], s, e) for s, e in tr]
            ll = [rng.choice(lobes)] if big else sorted(rng.sample(lobes, 2))
            opts = self.ref_opts(rng, 3, False, pf["mag"])
            yield self.ref_case(rng, pf, 1, 3, [row], ll, rng.sample(opts, min(len(opts), 6)))
        # batches with ragged in_lens / other_lens; known boundaries also far from 0
        for _ in range(500 if big else 80):
            pf = draw_profile(rng)
            T = rng.randint(1, 4)
            N = rng.randint(2, 4)
            far = min(_magnitude(rng, pf["mag"]), FAR)
            pool = segs + [(0, 5), (2, 6), (4, 4), (far, far + 2), (3, far), (far + 1, far)]
            rows = [[tok_of(rng, pf["mag"], *rng.choice(pool)) for _ in range(T)] for _ in range(N)]

            def olen():
                return rng.choice([rng.randint(0, 7), rng.randint(0, 7), free_int(rng, "small"), far + 1])
            opts = [{"in_lens": None, "other_lens": None},
                    {"in_lens": [rng.randint(0, T) for _ in range(N)], "other_lens": None},
                    {"in_lens": None, "other_lens": [olen() for _ in range(N)]},
                    {"in_lens": [rng.randint(0, T) for _ in range(N)],
                     "other_lens": [olen() for _ in range(N)]}]
            yield self.ref_case(rng, pf, N, T, rows, lobes, opts)

    def cases_tokens(self, rng, big):
        """As for 'ref': boundary symbol -1 = missing = any negative number; token ids of either sign."""
        rb = range(-1, 4)
        segs = [(s, e) for s in rb for e in rb]
        slices = [[a, b] for a in range(-1, 5) for b in range(-1, 5)]

        def mk(rowsegs):
            pf = draw_profile(rng)
            row = [tok_of(rng, pf["mag"], s, e) for s, e in rowsegs]
            R = len(row)
            N = len(slices)
            lens = [None, [R] * N] + ([[rng.randint(0, R) for _ in range(N)]] if R else [])
            # (audit) C10_tokens_filter is stated for every integer ref_lens: beyond R (= R) and negative (= 0) too
            lens.append([rng.choice([R + 1, R + rng.randint(1, 5), -1, -rng.randint(1, 5), rng.randint(0, R)])
                         for _ in range(N)])
            return {"kind": "tokens", "refs": [row] * N, "partials": [True, False], "retains": [True, False],
                    "slices_opts": [slices], "ref_lens_opts": lens, "dtype": pf["dtype"],
                    "lens_dtype": pf["lens_dtype"]}

        yield mk([])
        for a in segs:
            yield mk([a])
        for a, b in itertools.product(segs, segs):
            yield mk([a, b])
        n3 = 3000 if big else 150
        for _ in range(n3):
            yield mk([rng.choice(segs) for _ in range(3)])
        # heterogeneous batches (rows differ, so the flattened select/scatter matters); boundaries and slices
        # also far from 0
        for _ in range(800 if big else 100):
            pf = draw_profile(rng)
            N = rng.randint(1, 5)
            R = rng.randint(1, 4)
            far = min(_magnitude(rng, pf["mag"]), FAR)
            pool = segs + [(2, 6), (5, 7), (0, 8), (far, far + 2), (3, far), (far + 1, far)]
            refs = [[tok_of(rng, pf["mag"], *rng.choice(pool)) for _ in range(R)] for _ in range(N)]

            def sl():
                if rng.random() < 0.2:
                    return [rng.choice([-far - 1, 0, 2, far - 1, far]), rng.choice([-far, 3, far, far + 2, far + 3])]
                return [rng.randint(-2, 6), rng.randint(-2, 8)]
            sls = [[sl() for _ in range(N)] for _ in range(3)]
            lens = [None, [rng.randint(0, R) for _ in range(N)], [rng.randint(-2, R + 2) for _ in range(N)]]
            yield {"kind": "tokens", "refs": refs, "partials": [True, False], "retains": [True, False],
                   "slices_opts": sls, "ref_lens_opts": lens, "dtype": pf["dtype"], "lens_dtype": pf["lens_dtype"]}

    # ---------------------------------------------------------------- size-triggered paths
    def cases_large(self, rng, big):
        """Every dimension of every covered function at and around 15,16,17 / 31,32,33 / 64,65 / 128,129 / 1000+:
        tokens per element R and batch size N of the token chunker; padded length T, number of runs / tokens and
        batch size N of the three slicing policies; also a lobe beyond 16 / 32. One dimension is large at a time
        (the other stays small), plus a few cases with two moderately large dimensions. Token ids are DISTINCT and
        the segments follow one another, run labels differ between neighbours: order is observable."""
        for _ in range(3 if big else 1):
            yield from self.large_tokens(rng)
            yield from self.large_fixed(rng)
            yield from self.large_ali(rng)
            yield from self.large_ref(rng)
            yield from self.large_frames(rng)

    def large_frames(self, rng):
        """The worker's feature / alignment chunker (ChunkBySlices) called directly, the way the worker calls it -
        windows that touch the sequence, lengths omitted, one utterance expanded against its windows or different
        rows - with T resp. the number of windows at the size thresholds; functional / module / scripted. Oracle:
        the source frames restricted to the window with the requested padding (the Python-side oracle of the
        directory runs; no Lean model of this call here - ChunkBySlices as such is property C09)."""
        for axis in ("T", "N"):
            for n in sizes(rng):
                T = n if axis == "T" else rng.randint(2, 6)
                N = rng.randint(1, 4) if axis == "T" else n
                mode = rng.choice(["constant", "constant", "replicate", "reflect"])
                maxpad = min(T - 1, 3) if mode == "reflect" else 3
                sls = []
                for _ in range(N):
                    a = rng.randint(-maxpad, T - 1)
                    sls.append([a, rng.randint(max(a + 1, 1), T + maxpad)])
                yield {"kind": "frames", "N": N, "T": T, "mode": mode, "what": rng.choice(["feats", "alis"]),
                       "same": rng.random() < 0.5, "slices": sls, "via": rng.choice(["functional", "module", "scripted"]),
                       "large": axis}

    def impl_frames(self, case):
        import torch
        N, T, F = case["N"], case["T"], 2
        pad = -7
        rows = [0] * N if case["same"] else list(range(N))
        ids = torch.tensor([[2000 * r + t for t in range(T)] for r in rows[:1 if case["same"] else N]])
        if case["what"] == "feats":
            x = (ids.unsqueeze(2) + torch.tensor([0.0, 0.25])).to(torch.float32)
        else:
            x = ids
        if case["same"]:
            x = x.expand(N, *x.shape[1:])
        sl = torch.tensor(case["slices"]).reshape(N, 2)
        if case["via"] == "functional":
            from pydrobert.torch.functional import chunk_by_slices
            ch, lens = chunk_by_slices(x, sl, None, case["mode"], float(pad))
        elif case["via"] == "module":
            from pydrobert.torch.modules import ChunkBySlices
            ch, lens = ChunkBySlices(case["mode"], float(pad))(x, sl)
        else:
            ch, lens = scripted("ChunkBySlices", case["mode"], float(pad))(x, sl, None)
        if ch.shape[0] != N or tuple(ch.shape[2:]) != tuple(x.shape[2:]) or tuple(lens.shape) != (N,) or \
                ch.dtype != x.dtype or any(int(l) > ch.shape[1] or int(l) < 0 for l in lens):
            return {"error": "BadShape", "message": f"{tuple(ch.shape)} {ch.dtype} {tuple(lens.shape)}"}
        out = []
        for n in range(N):
            got = []
            for v in ch[n, :int(lens[n])].reshape(int(lens[n]), -1).tolist():
                t = int(v[0]) - 2000 * rows[n]
                if v == [pad] * len(v):
                    got.append(None)
                elif 0 <= t < T and v == ([2000 * rows[n] + t, 2000 * rows[n] + t + 0.25][:len(v)]):
                    got.append(t)
                else:
                    got.append("junk")
            out.append(got)
        return {"chunks": out}

    def pred_frames(self, case, impl):
        if "error" in impl:
            return [(f"ChunkBySlices ({case['via']}, {case['mode']}) raised {impl['error']}: {impl.get('message')}", None)]
        fails = []
        for n, ((a, b), got) in enumerate(zip(case["slices"], impl["chunks"])):
            want = [c10_dir.pad_frame({"pad_mode": case["mode"]}, t, case["T"]) for t in range(a, b)]
            if got != want:
                fails.append((f"ChunkBySlices ({case['via']}, {case['what']}, {case['mode']}, T={case['T']}, "
                              f"{case['N']} windows) window {n} = [{a},{b}): frames {brief(got)} are not the source "
                              f"restricted to the window with the requested padding {brief(want)}"
                              f"{diff_note(got, want)}", None))
                if len(fails) >= 3:
                    break
        return fails

    def large_token_case(self, rng, N, R, same):
        pf = draw_profile(rng)
        if same:      # one utterance against N windows: the way chunk-torch-spect-data-dir calls the chunker
            row, total = tiled_row(rng, pf["mag"], R)
            refs, totals = [row] * N, [total] * N
        else:
            pairs = [tiled_row(rng, pf["mag"], R) for _ in range(N)]
            refs, totals = [p[0] for p in pairs], [p[1] for p in pairs]
        sls = [[wide_window(rng, t) for t in totals] for _ in range(2)]
        lens = [None, [rng.choice([R, R, R - 1, R // 2, rng.randint(0, R)]) for _ in range(N)],
                [rng.choice([R + 1, -1, rng.randint(0, R), R]) for _ in range(N)]]
        return {"kind": "tokens", "refs": refs, "partials": [True, False], "retains": [True, False],
                "slices_opts": sls, "ref_lens_opts": lens, "dtype": pf["dtype"], "lens_dtype": pf["lens_dtype"],
                "large": "R" if R >= N else "N"}

    def large_tokens(self, rng):
        for R in sizes(rng):          # long token lists, few elements
            yield self.large_token_case(rng, rng.randint(1, 4), R, rng.random() < 0.5)
        for N in sizes(rng):          # many elements (many windows of one utterance), short lists
            yield self.large_token_case(rng, N, rng.randint(1, 3), rng.random() < 0.5)
        for _ in range(4):            # both moderately large
            yield self.large_token_case(rng, rng.choice(SIZES[:6]), rng.choice(SIZES[:6]), rng.random() < 0.5)

    @staticmethod
    def large_lobes(rng, T):
        """Lobe 0, a small lobe and one beyond the thresholds 16 / 32 (more than the sequence when T is small)."""
        return sorted({0, rng.randint(1, 3), rng.choice(SIZES[:6])}) if T < 500 else \
            sorted({rng.randint(0, 3), rng.choice(SIZES[:8])})

    def large_lens(self, rng, N, T):
        opts = [{"in_lens": None, "other_lens": None},
                {"in_lens": [rng.choice([T, T - 1, rng.randint(0, T), T // 2]) for _ in range(N)], "other_lens": None}]
        return opts

    def large_fixed(self, rng):
        for T in sizes(rng):
            N = rng.randint(1, 3)
            pf = draw_profile(rng)
            yield {"kind": "slice", "policy": "fixed", "N": N, "T": T, "lobes": self.large_lobes(rng, T), "wts": WTS,
                   "valids": [True, False], "lens_opts": self.unused_other(rng, pf, N, self.large_lens(rng, N, T)),
                   "feat": draw_feat(rng), "lens_dtype": pf["lens_dtype"], "large": "T"}
        # beyond the 8 / 16 bit integer and half-precision ranges (256, 2048, 32768, 65536): 'fixed' needs no data,
        # and a lobe of several hundred frames keeps the number of windows small
        for T in (256 + rng.randint(0, 9), 2048 + rng.randint(1, 9), 2 ** 15 + rng.randint(0, 9), 2 ** 16 + rng.randint(1, 99)):
            N = rng.randint(1, 2) if T < 2 ** 15 else 1
            pf = draw_profile(rng)
            opts = [{"in_lens": None, "other_lens": None},
                    {"in_lens": [rng.choice([T, T - 1, T - rng.randint(0, 300)]) for _ in range(N)], "other_lens": None}]
            yield {"kind": "slice", "policy": "fixed", "N": N, "T": T,
                   "lobes": sorted({max(T // 40, 7), rng.randint(max(T // 60, 5), max(T // 20, 9))})[:2 if T < 2 ** 15 else 1],
                   "wts": WTS,
                   "valids": [True, False], "lens_opts": opts, "feat": dict(draw_feat(rng), trail=[]),
                   "lens_dtype": pf["lens_dtype"], "large": "T"}
        for N in sizes(rng):
            T = rng.randint(1, 4)
            pf = draw_profile(rng)
            yield {"kind": "slice", "policy": "fixed", "N": N, "T": T, "lobes": [0, rng.randint(1, 3)], "wts": WTS,
                   "valids": [True, False], "lens_opts": self.unused_other(rng, pf, N, self.large_lens(rng, N, T)),
                   "feat": draw_feat(rng), "lens_dtype": pf["lens_dtype"], "large": "N"}

    @staticmethod
    def run_row(rng, T, style):
        """Alignment row over labels 0..4: 'many' = runs of 1..3 frames (about T/2 runs), 'few' = a handful of long
        runs, 'single' frames only (T runs). Neighbouring runs carry different labels."""
        row, lab = [], rng.randint(0, 4)
        while len(row) < T:
            n = {"many": rng.randint(1, 3), "few": rng.randint(max(T // 6, 1), max(T // 3, 1)), "single": 1}[style]
            row += [lab] * min(n, T - len(row))
            lab = rng.choice([x for x in range(5) if x != lab])
        return row

    def large_ali(self, rng):
        for T in sizes(rng):
            N = rng.randint(1, 3)
            rows = [self.run_row(rng, T, rng.choice(["many", "many", "few", "single"])) for _ in range(N)]
            c = self.ali_case(rng, N, T, rows, [0, 1, 2, 3, 4], self.large_lobes(rng, T), self.large_lens(rng, N, T))
            yield dict(c, large="T")
        for N in sizes(rng):
            T = rng.randint(1, 4)
            rows = [self.run_row(rng, T, rng.choice(["many", "single"])) for _ in range(N)]
            c = self.ali_case(rng, N, T, rows, [0, 1, 2, 3, 4], [0, rng.randint(1, 3)], self.large_lens(rng, N, T))
            yield dict(c, large="N")

    def large_ref(self, rng):
        segs = [(s, e) for s in range(-1, 4) for e in range(-1, 4)]
        for T in sizes(rng):
            N = rng.randint(1, 3)
            pf = draw_profile(rng)
            pairs = [tiled_row(rng, pf["mag"], T) for _ in range(N)]
            rows, totals = [p[0] for p in pairs], [p[1] for p in pairs]
            il = [rng.choice([T, T - 1, rng.randint(0, T)]) for _ in range(N)]
            opts = [{"in_lens": None, "other_lens": None}, {"in_lens": il, "other_lens": None},
                    {"in_lens": rng.choice([None, il]),
                     "other_lens": [rng.choice([t, t + 2, t - 1, rng.randint(0, t + 1)]) for t in totals]}]
            yield dict(self.ref_case(rng, pf, N, T, rows, self.large_lobes(rng, T), opts), large="T")
        for N in sizes(rng):
            T = rng.randint(1, 3)
            pf = draw_profile(rng)
            rows = [[tok_of(rng, pf["mag"], *rng.choice(segs + [(0, 5), (2, 6), (4, 4)])) for _ in range(T)]
                    for _ in range(N)]
            opts = [{"in_lens": None, "other_lens": None},
                    {"in_lens": [rng.randint(0, T) for _ in range(N)], "other_lens": [rng.randint(0, 7) for _ in range(N)]}]
            yield dict(self.ref_case(rng, pf, N, T, rows, [0, rng.randint(1, 3)], opts), large="N")

    def cases_malformed(self, rng, big):
        base = {"kind": "slice", "N": 2, "T": 3, "lobes": [1], "wts": ["symmetric"], "valids": [True, False]}
        # wrong-shaped lengths: the documented RuntimeError (modelled: Err.shape)
        yield dict(base, policy="fixed", lens_opts=[{"in_lens": [1, 2, 3], "other_lens": None}])
        yield dict(base, policy="ali", rows=[[0, 1, 1], [0, 0, 0]], lens_opts=[{"in_lens": [3], "other_lens": None}])
        yield dict(base, policy="ref", rows=[[[0, 0, 1]] * 3, [[0, 1, 2]] * 3],
                   lens_opts=[{"in_lens": [3, 3], "other_lens": [3]}])
        # (audit) 'ref' has no explicit test of in_lens: a wrong-sized vector must still fail (view / gather), with
        # other_lens given and omitted; too short and too long
        yield dict(base, policy="ref", rows=[[[0, 0, 1]] * 3, [[0, 1, 2]] * 3],
                   lens_opts=[{"in_lens": [3], "other_lens": [3, 3]}, {"in_lens": [3], "other_lens": None},
                              {"in_lens": [3, 3, 3], "other_lens": None}, {"in_lens": [1, 2, 3], "other_lens": [3, 3]}])
        yield dict(base, policy="fixed", lens_opts=[{"in_lens": [1], "other_lens": None}])
        yield dict(base, policy="ali", rows=[[0, 1, 1], [0, 0, 0]], lens_opts=[{"in_lens": [3, 3, 3], "other_lens": None}])
        # (audit) the token chunker's shape checks, through the model (`chunkTokensEntry`, C10_tokens_entry): the
        # number of slices and of lengths must be the batch size; the well-shaped options of the same case must work
        refs = [[[1, 0, 2], [2, 2, 4]], [[3, 1, 3], [4, -1, 2]]]
        yield {"kind": "tokens", "refs": refs, "partials": [True, False], "retains": [True, False],
               "slices_opts": [[[0, 3], [1, 4]], [[0, 3]], [[0, 3], [1, 4], [2, 5]]],
               "ref_lens_opts": [None, [2, 1], [2], [2, 1, 1]]}
        for what in ("policy", "window_type", "lobe", "ali_ndim", "ref_ndim", "ref_last", "ndim1", "tok_shape",
                     "tok_slices", "tok_lens", "tok_2d"):
            yield {"kind": "malformed", "what": what}

    # ------------------------------------------------------------------ implementation
    def run_impl(self, case):
        kind = case["kind"]
        if kind in ("slice", "tokens"):
            case = dict(case)
            self.fit_dtypes(case)
        if kind == "slice":
            return self.impl_slice(case)
        if kind == "tokens":
            return self.impl_tokens(case)
        if kind == "dir":
            return c10_dir.run_dir(case)
        if kind == "frames":
            return self.impl_frames(case)
        return self.impl_malformed(case)

    def impl_slice(self, case):
        inp = build_input(case)
        res = []
        for lobe, wt, vo, oi in grid_slice(case):
            opt = case["lens_opts"][oi]
            try:
                ld = case.get("lens_dtype")
                sl, src = call_slicer(case, inp, lay_out(_lt(opt.get("in_lens"), ld), case.get("layout")),
                                      lay_out(_lt(opt.get("other_lens"), ld), case.get("layout")), wt, vo, lobe)
                # "a long tensor"; policy 'ref' copies the boundaries out of `input`, so for an int32 `input`
                # (outside the documented long refs tensor) the boundaries come back in that type
                sl_dtypes = ("torch.int64", "torch." + case.get("dtype", "int64")) if case["policy"] == "ref" \
                    else ("torch.int64",)
                ok = (sl.ndim == 2 and sl.shape[1] == 2 and src.ndim == 1 and sl.shape[0] == src.shape[0]
                      and str(sl.dtype) in sl_dtypes and str(src.dtype) == "torch.int64")
                if not ok:
                    res.append({"error": "BadShape", "message": f"{tuple(sl.shape)} {tuple(src.shape)} {sl.dtype}"})
                else:
                    res.append({"windows": [[int(a), int(b), int(s)] for (a, b), s in zip(sl.tolist(), src.tolist())]})
            except Exception as e:
                res.append({"error": err_class(e), "message": str(e)[:120]})
        return {"results": res}

    def impl_tokens(self, case):
        import torch
        N = len(case["refs"])
        R = len(case["refs"][0]) if N else 0
        layout = case.get("layout")
        dt, ld = getattr(torch, case.get("dtype", "int64")), case.get("lens_dtype")
        refs = lay_out(torch.tensor(case["refs"], dtype=dt).reshape(N, R, 3), layout)
        before = refs.tolist()
        res = []
        for p, r, si, li in grid_tokens(case):
            sl = lay_out(torch.tensor(case["slices_opts"][si], dtype=dt).reshape(-1, 2),
                         "strided" if layout == "strided" else None)
            rl = lay_out(_lt(case["ref_lens_opts"][li], ld), layout)
            try:
                ch, cl = call_chunker(case, refs, sl, rl, p, r)
                if refs.tolist() != before:
                    res.append({"error": "InputModified", "message": "refs changed by the call"})
                    refs = lay_out(torch.tensor(case["refs"], dtype=dt).reshape(N, R, 3), layout)
                    continue
                if ch.ndim != 3 or ch.shape[0] != N or ch.shape[2] != 3 or tuple(cl.shape) != (N,) or \
                        any(int(c) > ch.shape[1] or int(c) < 0 for c in cl):
                    res.append({"error": "BadShape", "message": f"{tuple(ch.shape)} {tuple(cl.shape)}"})
                    continue
                lens = [int(c) for c in cl]
                res.append({"lens": lens, "chunks": [ch[n, :lens[n]].tolist() for n in range(N)]})
            except Exception as e:
                res.append({"error": err_class(e), "message": str(e)[:120]})
        return {"results": res}

    def impl_malformed(self, case):
        import torch
        from pydrobert.torch.functional import slice_spect_data, chunk_token_sequences_by_slices
        from pydrobert.torch.modules import SliceSpectData
        w = case["what"]
        x2 = torch.zeros((2, 3), dtype=torch.long)
        x3 = torch.zeros((2, 3, 3), dtype=torch.long)

        def cls(f):
            try:
                f()
                return "none"
            except Exception as e:
                return type(e).__name__
        if w == "policy":
            return {"errs": [cls(lambda: slice_spect_data(x2, None, None, "foo")), cls(lambda: SliceSpectData("foo"))]}
        if w == "window_type":
            return {"errs": [cls(lambda: slice_spect_data(x2, None, None, "fixed", "foo")),
                             cls(lambda: SliceSpectData("fixed", "foo"))]}
        if w == "lobe":
            return {"errs": [cls(lambda: slice_spect_data(x2, None, None, "fixed", "causal", True, -1)),
                             cls(lambda: SliceSpectData("fixed", "causal", True, -1))]}
        if w == "ali_ndim":
            return {"errs": [cls(lambda: slice_spect_data(x3, None, None, "ali"))]}
        if w == "ref_ndim":
            return {"errs": [cls(lambda: slice_spect_data(x2, None, None, "ref"))]}
        if w == "ref_last":
            return {"errs": [cls(lambda: slice_spect_data(torch.zeros((2, 3, 2), dtype=torch.long), None, None, "ref"))]}
        if w == "ndim1":
            return {"errs": [cls(lambda: slice_spect_data(torch.zeros((3,))))]}
        sl = torch.zeros((2, 2), dtype=torch.long)
        if w == "tok_shape":
            return {"errs": [cls(lambda: chunk_token_sequences_by_slices(torch.zeros((2, 3, 2), dtype=torch.long), sl))]}
        if w == "tok_slices":
            return {"errs": [cls(lambda: chunk_token_sequences_by_slices(x3, torch.zeros((3, 2), dtype=torch.long)))]}
        if w == "tok_lens":
            return {"errs": [cls(lambda: chunk_token_sequences_by_slices(x3, sl, torch.zeros((3,), dtype=torch.long)))]}
        if w == "tok_2d":
            ch, cl = chunk_token_sequences_by_slices(x2, sl)
            return {"shapes": [list(ch.shape), list(cl.shape)]}
        raise ValueError(w)

    # ------------------------------------------------------------------ model
    def model_request(self, case):
        if case["kind"] == "dir":
            return c10_dir.model_request(case)
        if case["kind"] == "slice":
            c = {k: case[k] for k in ("policy", "N", "T", "lobes", "wts", "valids", "lens_opts")}
            if "rows" in case:
                c["rows"] = case["rows"]
            return {"op": "c10.slice", "case": c}
        if case["kind"] == "tokens":
            return {"op": "c10.tokens", "case": {k: case[k] for k in
                                                   ("refs", "partials", "retains", "slices_opts", "ref_lens_opts")}}
        return None

    def cfg_str(self, case, g):
        if case["kind"] == "slice":
            lobe, wt, vo, oi = g
            o = case["lens_opts"][oi]
            return (f"policy={case['policy']} lobe={lobe} {wt} valid_only={vo} "
                    f"{{'in_lens': {brief(o.get('in_lens'))}, 'other_lens': {brief(o.get('other_lens'))}}}")
        p, r, si, li = g
        return (f"partial={p} retain={r} slices={brief(case['slices_opts'][si])} "
                f"ref_lens={brief(case['ref_lens_opts'][li])}")

    def compare(self, case, impl, model):
        if case["kind"] == "malformed" or model is None:
            return []
        if case["kind"] == "dir":
            return c10_dir.compare(case, impl, model)
        if "error" in impl:
            return [f"implementation raised {impl['error']}: {impl.get('message')}"]
        out = []
        grid = grid_slice(case) if case["kind"] == "slice" else grid_tokens(case)
        if len(grid) != len(model["results"]) or len(grid) != len(impl["results"]):
            return [f"grid sizes differ: {len(grid)} {len(impl['results'])} {len(model['results'])}"]
        for g, a, b in zip(grid, impl["results"], model["results"]):
            m = b["model"]
            if case["kind"] == "slice":
                if m == "error:shape":
                    if a.get("error") != "RuntimeError":
                        out.append(f"{self.cfg_str(case, g)}: model says shape error, impl {a}")
                elif "error" in a:
                    out.append(f"{self.cfg_str(case, g)}: impl raised {a['error']} ({a.get('message')}), model {m}")
                elif a["windows"] != m:
                    out.append(f"{self.cfg_str(case, g)}: impl {brief(a['windows'])} model {brief(m)}"
                               f"{diff_note(a['windows'], m)}")
            else:
                if m == "error:shape":
                    if a.get("error") != "RuntimeError":
                        out.append(f"{self.cfg_str(case, g)}: model says shape error, impl {a}")
                elif "error" in a:
                    out.append(f"{self.cfg_str(case, g)}: impl raised {a['error']} ({a.get('message')})")
                elif a["lens"] != m["lens"] or a["chunks"] != m["chunks"]:
                    n = next((i for i, (x, y) in enumerate(zip(a["chunks"], m["chunks"])) if x != y), 0)
                    x, y = (a["chunks"] + [[]])[n], (m["chunks"] + [[]])[n]
                    out.append(f"{self.cfg_str(case, g)}: lens impl {brief(a['lens'])} model {brief(m['lens'])}; "
                               f"element {n}: impl {brief(x)} model {brief(y)}{diff_note(x, y)}")
            if len(out) >= 3:
                break
        return out

    # ------------------------------------------------------------------ the property on the implementation
    def predicate(self, case, impl, model):
        kind = case["kind"]
        if kind == "malformed":
            return self.pred_malformed(case, impl)
        if kind == "frames":
            return self.pred_frames(case, impl)
        if kind == "dir":
            return [] if model is None else c10_dir.predicate(case, impl, model, SIG_PLUS)
        if "error" in impl:
            return [(f"implementation raised {impl['error']}: {impl.get('message')}", None)]
        if model is None:
            return []
        fails = []
        if kind == "slice":
            for g, a, b in zip(grid_slice(case), impl["results"], model["results"]):
                lobe, wt, vo, oi = g
                opt = case["lens_opts"][oi]
                spec = b["spec"]
                if spec is None:      # outside the specified domain (wrong-shaped lengths): must raise
                    if not lens_in_domain(case, opt) and case["T"] > 0 and a.get("error") not in ("RuntimeError",):
                        if b["model"] == "error:shape":
                            fails.append((f"{self.cfg_str(case, g)}: wrong-shaped lengths accepted: {a}", None))
                    continue
                if "error" in a:
                    fails.append((f"{self.cfg_str(case, g)}: raised {a['error']} ({a.get('message')}); the policy "
                                  f"prescribes {spec}", None))
                    continue
                if a["windows"] != spec:
                    fails.append((f"{self.cfg_str(case, g)}: returned {brief(a['windows'])}, the policy prescribes "
                                  f"{brief(spec)}{diff_note(a['windows'], spec)}", None))
                if vo:
                    for s, e, n in a["windows"]:
                        if not (0 <= n < case["N"]):
                            fails.append((f"{self.cfg_str(case, g)}: source {n} out of range", None))
                            continue
                        L = seq_len_for(case, opt, n)
                        if not (0 <= s < e <= L):
                            fails.append((f"{self.cfg_str(case, g)}: valid-only window [{s},{e}) of element {n} not "
                                          f"inside [0,{L})", None))
                if len(fails) >= 4:
                    break
            return fails
        # tokens
        for g, a, b in zip(grid_tokens(case), impl["results"], model["results"]):
            p, r, si, li = g
            spec = b["spec"]
            if spec is None:      # wrong number of slices / lengths: the documented RuntimeError
                if a.get("error") != "RuntimeError":
                    fails.append((f"{self.cfg_str(case, g)}: wrong-shaped slices / ref_lens accepted: {a}", None))
                continue
            if "error" in a:
                fails.append((f"{self.cfg_str(case, g)}: raised {a['error']} ({a.get('message')})", None))
                continue
            slices = case["slices_opts"][si]
            for n, (got, want) in enumerate(zip(a["chunks"], spec)):
                if got == want:
                    continue
                st = slices[n][0]
                # the specific known wrong formula: out_boundary == in_boundary + slice_start
                plus = [[t, s + 2 * st, e + 2 * st] for t, s, e in want]   # want = in - st  =>  in + st
                if (not r) and st != 0 and got == plus:
                    fails.append((f"{self.cfg_str(case, g)} element {n}: boundaries are in+start {brief(got)}, "
                                  f"slice-relative is {brief(want)}", SIG_PLUS))
                else:
                    fails.append((f"{self.cfg_str(case, g)} element {n}: chunk {brief(got)}, specified {brief(want)}"
                                  f"{diff_note(got, want)}", None))
            if len(a["chunks"]) != len(spec):
                fails.append((f"{self.cfg_str(case, g)}: {len(a['chunks'])} rows for {len(spec)} elements", None))
            if len([f for f in fails if f[1] is None]) >= 4 or len(fails) >= 12:
                break
        # report unknown failures first so that a fresh violation is never hidden behind the known one
        fails.sort(key=lambda f: f[1] is not None)
        return fails[:6]

    def pred_malformed(self, case, impl):
        if "error" in impl:
            return [(f"malformed probe '{case['what']}' crashed: {impl}", None)]
        if case["what"] == "tok_2d":
            if impl["shapes"] != [[0, 3], [0]]:
                return [(f"2-D refs: expected empty results, got shapes {impl['shapes']}", None)]
            return []
        bad = [e for e in impl["errs"] if e not in ("RuntimeError", "ValueError")]
        if bad:
            return [(f"malformed argument '{case['what']}' not rejected with RuntimeError/ValueError: {impl['errs']}",
                     None)]
        return []

    # ------------------------------------------------------------------ evidence
    def nontrivial(self, case, impl):
        if case["kind"] == "dir":
            return isinstance(impl, dict) and len(impl.get("listing", {}).get("feat") or []) >= 2
        if case["kind"] == "frames":
            return self.nontrivial_frames(impl)
        if not isinstance(impl, dict) or "results" not in impl:
            return False
        if case["kind"] == "slice":
            return any(len(r.get("windows", [])) >= 2 for r in impl["results"])
        if case["kind"] == "tokens":
            R = len(case["refs"][0]) if case["refs"] else 0
            return any(0 < l < R for r in impl["results"] for l in r.get("lens", []))
        return False

    def nontrivial_frames(self, impl):
        return isinstance(impl, dict) and any(len(c) >= 2 for c in impl.get("chunks", []))

    def tags(self, case, impl):
        if case["kind"] == "malformed":
            return ["malformed:" + case["what"]]
        if case["kind"] == "dir":
            return c10_dir.tags(case, impl)
        if case["kind"] == "frames":
            return ["frames", f"large:frames:{case['large']}={self.size_class(case[case['large']])}",
                    f"frames:{case['what']}:{case['mode']}", "frames:via:" + case["via"],
                    "frames:" + ("expanded" if case["same"] else "rows_differ")]
        t = []
        if case["kind"] == "slice":
            t.append(f"slice:{case['policy']}")
            t.append(f"slice:{case['policy']}:N={min(case['N'], 4)}{'+' if case['N'] > 4 else ''}")
            t.append(f"slice:T={self.size_class(case['T'])}")
            if case.get("large"):
                t.append(f"large:{case['policy']}:{case['large']}={self.size_class(case[case['large']])}")
                t.append(f"large:{case['policy']}:max_lobe={self.size_class(max(case['lobes']))}")
            t.append("via:" + case.get("via", "functional"))
            t.append("layout:" + case.get("layout", "contiguous"))
            t += self.free_tags(case)
            if any(o.get("in_lens") is None for o in case["lens_opts"]):
                t.append(f"slice:{case['policy']}:in_lens_omitted")
            if any(o.get("other_lens") is None for o in case["lens_opts"]) and case["policy"] == "ref":
                t.append("slice:ref:other_lens_omitted")
            if isinstance(impl, dict) and "results" in impl:
                for g, r in zip(grid_slice(case), impl["results"]):
                    if "windows" in r:
                        t.append(f"cfg:{case['policy']}:{g[1]}:{'valid' if g[2] else 'any'}:lobe{g[0]}:"
                                 f"{'empty' if not r['windows'] else 'windows'}")
        else:
            t.append("tokens")
            t.append("via:" + case.get("via", "functional"))
            t.append("layout:" + case.get("layout", "contiguous"))
            t += self.free_tags(case)
            R, N = len(case["refs"][0]) if case["refs"] else 0, len(case["refs"])
            t.append(f"tokens:R={self.size_class(R)}")
            if case.get("large"):
                t.append(f"large:tokens:R={self.size_class(R)}:N={self.size_class(N)}")
                if isinstance(impl, dict) and any(any(l > 16 for l in r.get("lens", [])) for r in impl.get("results", [])):
                    t.append("large:tokens:more_than_16_kept_in_a_row")
        return t

    @staticmethod
    def size_class(n):
        return str(n) if n <= 12 or n in SIZES else ("1000+" if n >= 1000 else "other")

    @staticmethod
    def free_tags(case):
        """Which of the documented-as-irrelevant degrees of freedom the case exercises."""
        k = "tokens" if case["kind"] == "tokens" else case["policy"]
        t = [f"dtype:{k}:data={case.get('dtype', 'int64')}", f"dtype:{k}:lens={case.get('lens_dtype', 'int64')}"]
        big = 2 ** 31
        if k == "fixed":
            f = case.get("feat")
            if f:
                t += [f"fixed:feat:dtype={f['dtype']}", f"fixed:feat:fill={f['fill']}", f"fixed:feat:trail={f['trail']}"]
        elif k == "ali":
            vals = {x for r in case["rows"] for x in r}
            if any(v < 0 for v in vals):
                t.append("ali:label<0")
            if any(not -big <= v < big for v in vals):
                t.append("ali:label:beyond_int32")
        else:
            toks = [tk for row in case.get("rows", case.get("refs", [])) for tk in row]
            known = [tk for tk in toks if tk[1] >= 0 and tk[2] >= 0]
            if any(tk[0] < 0 for tk in known):
                t.append(f"{k}:token_id<0:segment_known")
            if any(not -big <= tk[0] < big for tk in toks):
                t.append(f"{k}:token_id:beyond_int32")
            if any(b < -1 for tk in toks for b in tk[1:]):
                t.append(f"{k}:missing_boundary<-1")
            if any(b >= big for tk in toks for b in tk[1:]):
                t.append(f"{k}:boundary:beyond_int32")
        if k in ("fixed", "ali") and any(o.get("other_lens") is not None for o in case.get("lens_opts", [])):
            t.append(f"{k}:other_lens_given(unused)")
        if k == "ref" and any(v < 0 for o in case["lens_opts"] for v in (o.get("other_lens") or [])):
            t.append("ref:other_lens<0")
        return t

    def shrink(self, case):
        # (the framework's shrinker never accepts a candidate whose only failures are listed known findings, so a
        # fresh violation is not shrunk into an input that shows only the known +start finding)
        yield from self.shrink_raw(case)

    def shrink_form(self, case):
        if case.get("layout", "contiguous") != "contiguous":
            yield dict(case, layout="contiguous")
        if case.get("via", "functional") != "functional":
            yield dict(case, via="functional")
        for k in ("dtype", "lens_dtype"):
            if case.get(k, "int64") != "int64":
                yield dict(case, **{k: "int64"})
        if case.get("feat") and case["feat"] != {"dtype": "float32", "fill": "zeros", "trail": [1]}:
            yield dict(case, feat={"dtype": "float32", "fill": "zeros", "trail": [1]})
        # the free integers: token ids -> position, missing boundaries -> -1, labels -> rank
        key = "refs" if case["kind"] == "tokens" else "rows"
        if case["kind"] == "tokens" or case.get("policy") == "ref":
            plain = [[[i + 1, max(tk[1], -1), max(tk[2], -1)] for i, tk in enumerate(row)] for row in case[key]]
            if plain != case[key]:
                yield dict(case, **{key: [[[tk[0], p[1], p[2]] for tk, p in zip(row, prow)]
                                          for row, prow in zip(case[key], plain)]})
                yield dict(case, **{key: plain})
        elif case.get("policy") == "ali":
            rank = {}
            for r in case["rows"]:
                for x in r:
                    rank.setdefault(x, len(rank))
            plain = [[rank[x] for x in r] for r in case["rows"]]
            if plain != case["rows"]:
                yield dict(case, rows=plain)
        if case["kind"] == "slice" and case.get("policy") in ("fixed", "ali") and \
                any(o.get("other_lens") is not None for o in case["lens_opts"]):
            yield dict(case, lens_opts=[dict(o, other_lens=None) for o in case["lens_opts"]])

    def shrink_raw(self, case):
        if case["kind"] == "dir":
            yield from c10_dir.shrink(case)
        elif case["kind"] == "slice":
            yield from self.shrink_form(case)
            for k in ("lobes", "wts", "valids", "lens_opts"):
                if len(case[k]) > 1:
                    for v in case[k]:
                        c = dict(case)
                        c[k] = [v]
                        yield c
            N, T = case["N"], case["T"]

            def keep_rows(idx):
                c = dict(case)
                c["N"] = len(idx)
                if "rows" in case:
                    c["rows"] = [case["rows"][i] for i in idx]
                c["lens_opts"] = [{k: (None if v is None else [v[i] for i in idx if i < len(v)])
                                   for k, v in o.items()} for o in case["lens_opts"]]
                return c

            def cut_T(T2):
                c = dict(case)
                c["T"] = T2
                if "rows" in case:
                    c["rows"] = [r[:T2] for r in case["rows"]]
                c["lens_opts"] = [{"in_lens": None if o.get("in_lens") is None else [min(x, T2) for x in o["in_lens"]],
                                   "other_lens": o.get("other_lens")} for o in case["lens_opts"]]
                return c
            if N > 6:       # large batches: halves first
                yield keep_rows(list(range(N // 2)))
                yield keep_rows(list(range(N // 2, N)))
            if T > 6:
                yield cut_T(T // 2)
                yield cut_T(T - T // 4)
            if 1 < N <= 40:
                for drop in range(N):
                    c = dict(case)
                    c["N"] = N - 1
                    if "rows" in case:
                        c["rows"] = [r for i, r in enumerate(case["rows"]) if i != drop]
                    c["lens_opts"] = [{k: (None if v is None else [x for i, x in enumerate(v) if i != drop])
                                       for k, v in o.items()} for o in case["lens_opts"]]
                    yield c
            if T > 1:
                c = dict(case)
                c["T"] = T - 1
                if "rows" in case:
                    c["rows"] = [r[:-1] for r in case["rows"]]
                c["lens_opts"] = [{"in_lens": None if o.get("in_lens") is None else [min(x, T - 1) for x in o["in_lens"]],
                                   "other_lens": o.get("other_lens")} for o in case["lens_opts"]]
                yield c
            for i, l in enumerate(case["lobes"]):
                if l > 0 and len(case["lobes"]) == 1:
                    c = dict(case)
                    c["lobes"] = [l - 1]
                    yield c
        elif case["kind"] == "frames":
            N = case["N"]
            if N > 1:
                for idx in ([range(N // 2), range(N // 2, N)] if N > 6 else [[i] for i in range(N)]):
                    yield dict(case, N=len(idx), slices=[case["slices"][i] for i in idx])
            if case["via"] != "functional":
                yield dict(case, via="functional")
            if case["same"]:
                yield dict(case, same=False)
        elif case["kind"] == "tokens":
            yield from self.shrink_form(case)
            for k in ("partials", "retains", "slices_opts", "ref_lens_opts"):
                if len(case[k]) > 1:
                    for v in case[k]:
                        c = dict(case)
                        c[k] = [v]
                        yield c
            N = len(case["refs"])
            well_shaped = all(len(sl) == N for sl in case["slices_opts"]) and \
                all(l is None or len(l) == N for l in case["ref_lens_opts"])
            R = len(case["refs"][0]) if N else 0

            def keep_toks(idx):
                c = dict(case)
                c["refs"] = [[row[i] for i in idx] for row in case["refs"]]
                c["ref_lens_opts"] = [None if l is None else [sum(1 for i in idx if i < x) for x in l]
                                      for l in case["ref_lens_opts"]]
                return c
            if N > 6 and well_shaped:     # large batches / long lists: halves first
                for idx in (range(N // 2), range(N // 2, N)):
                    c = dict(case)
                    c["refs"] = [case["refs"][i] for i in idx]
                    c["slices_opts"] = [[s[i] for i in idx] for s in case["slices_opts"]]
                    c["ref_lens_opts"] = [None if l is None else [l[i] for i in idx] for l in case["ref_lens_opts"]]
                    yield c
            if R > 6:
                yield keep_toks(range(R // 2))
                yield keep_toks(range(R // 2, R))
                yield keep_toks(range(R - R // 4))
                yield keep_toks(range(R // 4, R))
            if 1 < N <= 40 and well_shaped:
                for keep in range(N):
                    c = dict(case)
                    c["refs"] = [case["refs"][keep]]
                    c["slices_opts"] = [[s[keep]] for s in case["slices_opts"]]
                    c["ref_lens_opts"] = [None if l is None else [l[keep]] for l in case["ref_lens_opts"]]
                    yield c
            if 1 < R <= 80:
                for drop in range(R):
                    c = dict(case)
                    c["refs"] = [[t for i, t in enumerate(row) if i != drop] for row in case["refs"]]
                    c["ref_lens_opts"] = [None if l is None else [min(x, R - 1) for x in l]
                                          for l in case["ref_lens_opts"]]
                    yield c


CHECK = C10()
