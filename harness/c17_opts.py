"""C17: the option grid of every command the property covers, for the "sessions" part of the check.

For every command there is a small corpus, one or two BASE invocations (every optional flag omitted; only the
positionals, a required group's member and `--num-workers 0`) and a list of FLIPS — one option changed at a time:

* `default` flips pass an optional flag explicitly WITH ITS DOCUMENTED DEFAULT (the values below are copied from
  the documentation of the commands / `pydrobert.torch.config`, NOT read from the parser of the tree under
  test): the output must be that of the base run (flag omitted);
* `alt` flips give the option another value (store_true flags: the flag itself).

Three relations are checked on them (see `c17.py::SessionRuns`):

1. same process: the runs `base, flip1, base, flip2, base, ...` one after the other IN ONE PYTHON PROCESS with
   `--num-workers 0` — consecutive runs differ in exactly one option — each must leave what the same
   invocation leaves when it is the first thing a fresh process does (no state of an earlier call may leak:
   module-level caches keyed by part of the options, defaults patched after parsing, ...);
2. workers: every invocation (base and every flip) with a pool of one worker, chunk size 1, in a fresh process
   must leave what the serial run leaves (worker-count independence for EVERY option value, not only the one
   setting per pipeline of `c17_jobs.py`);
3. explicit default = omitted.

A flip is {"label", "add": [...], "remove": [...], "default": bool}: argv = base without the contiguous run
`remove`, plus `add`.
"""
import c17_jobs as J

# one map file serves as token2id and id2token, swapped or not: every reading is a bijection on {1,2,3}
MAP = "1 2\n2 3\n3 1\n"
T = J.tensor


def flip(label, add, remove=(), default=False):
    return {"label": label, "add": list(add), "remove": list(remove), "default": default}


def dflt(flag, *vals):
    return flip(f"{flag} {' '.join(vals)} (documented default)", [flag] + list(vals), default=True)


def alt(flag, *vals):
    return flip(" ".join([flag] + list(vals)), [flag] + list(vals))


def apply_flip(base, fl):
    argv, rem = list(base), fl["remove"]
    if rem:
        for i in range(len(argv) - len(rem) + 1):
            if argv[i:i + len(rem)] == rem:
                argv = argv[:i] + argv[i + len(rem):]
                break
        else:
            raise ValueError(f"{rem} not in {base}")
    return argv + fl["add"]


NAMING = [dflt("--file-prefix", ""), dflt("--file-suffix", ".pt"), alt("--file-prefix", "p_"),
          alt("--file-suffix", "_s")]
CHUNKSZ = [dflt("--mp-chunk-size", "1000"), alt("--mp-chunk-size", "1")]
SUBDIRS = [dflt("--feat-subdir", "feat"), dflt("--ali-subdir", "ali"), dflt("--ref-subdir", "ref"),
           alt("--feat-subdir", "fbank"), alt("--ali-subdir", "pdf"), alt("--ref-subdir", "tok.d")]


def names(utts):
    """File names of a directory that holds the utterances under three naming schemes (so that a change of
    --file-prefix / --file-suffix changes what is selected): u.pt, p_u.pt for the first, u_s for the second."""
    out = [(u, u + ".pt") for u in utts]
    if utts:
        out.append(("p_" + utts[0], "p_" + utts[0] + ".pt"))
    if len(utts) > 1:
        out.append((utts[1] + "_s", utts[1] + "_s"))
    return out


def data_dir(rng, utts, ali_extra=False):
    """A SpectDataSet directory with default and renamed sub-directories (different contents)."""
    files = {}
    for feat, ali, ref, keep in (("feat", "ali", "ref", len(utts)), ("fbank", "pdf", "tok.d", 2)):
        ff, af, rf = {}, {}, {}
        for k, (u, n) in enumerate(names(utts[:keep])):
            Tn = rng.randint(4, 7) + (feat == "fbank")
            ff[n] = T([[float(k), float(t)] for t in range(Tn)], None, "float32")
            af[n] = T([(t // 2 + k) % 3 for t in range(Tn + (1 if ali_extra and k == 2 else 0))])
            cut = rng.randint(1, Tn - 2)
            rf[n] = T([[1 + k % 3, 0, cut], [1 + (k + 1) % 3, cut, Tn - 1], [3, Tn - 1, Tn]], [3, 3])
        files.update({feat: ff, ali: af, ref: rf})
    return {"type": "tensor_dir", "files": files}


def token_dir(rng, utts, times=True):
    files = {}
    for k, (u, n) in enumerate(names(utts)):
        rows, t = [], rng.randint(0, 3)
        for _ in range(rng.randint(1, 3)):
            d = rng.randint(1, 9)
            rows.append([rng.randint(1, 3), t, t + d] if times else rng.randint(1, 3))
            t += d + rng.randint(0, 2)
        files[n] = T(rows, [len(rows), 3] if times else None)
    return {"type": "tensor_dir", "files": {"": files}}


def suites(rng):
    """-> list of {"name", "fn", "pool", "inputs", "outputs", "base", "flips"}."""
    utts = ["u%d" % i for i in (1, 2, 3)]
    rng.shuffle(utts)
    txt = lambda s: {"type": "text", "text": s}
    out = []

    def add(name, fn, pool, inputs, outputs, base, flips):
        out.append({"name": name, "fn": fn, "pool": pool, "inputs": inputs, "outputs": outputs,
                    "base": base, "flips": flips})

    sizing = [alt("--skip-frame-times"), alt("--feat-sizing")]
    shift = [dflt("--frame-shift-ms", "10"), alt("--frame-shift-ms", "20"), alt("--frame-shift-ms", "2.5")]

    # ---- transcripts -> token directory
    trn = "".join("".join(rng.choice("123") + " " for _ in range(rng.randint(0, 3))) + f"({u})\n" for u in utts)
    add("trn-to-torch-token-data-dir", "trn_to_torch_token_data_dir", "wc",
        {"trn": txt(trn), "map": txt(MAP)}, ["tok"], ["{trn}", "{map}", "{tok}"],
        NAMING + CHUNKSZ + sizing + [dflt("--alt-handler", "error"), alt("--alt-handler", "first"), alt("--swap"),
                                     alt("--unk-symbol", "2")])
    ctm, timed = "", {}
    for u in utts:
        t, toks = rng.randint(0, 30), []
        for _ in range(rng.randint(1, 3)):
            d = rng.randint(12, 80)
            toks.append([rng.choice("123"), t / 1000.0, (t + d) / 1000.0])
            ctm += f"{u} A {t / 1000.0} {d / 1000.0} {toks[-1][0]}\n"
            t += d + 25
        timed[u] = toks
    wc = "".join(f"{u} A x{u}\n" for u in utts)
    uw = "".join(f"y{u} {u} A\n" for u in utts)
    add("ctm-to-torch-token-data-dir", "ctm_to_torch_token_data_dir", "wc",
        {"ctm": txt(ctm), "map": txt(MAP), "wc2utt": txt(wc), "utt2wc": txt(uw)}, ["tok"],
        ["{ctm}", "{map}", "{tok}"],
        NAMING + CHUNKSZ + sizing + shift + [alt("--swap"), alt("--unk-symbol", "2"), alt("--wc2utt", "{wc2utt}"),
                                             alt("--utt2wc", "{utt2wc}")])
    tgs = {}
    for k, (u, n) in enumerate(names(utts)):
        tgs[(n[:-3] if n.endswith(".pt") else n) + ".TextGrid"] = J.textgrid_text(timed[utts[k % len(utts)]])
    tgs[utts[0] + ".tg"] = J.textgrid_text(timed[utts[2]])
    tgs["notes.txt"] = "not a TextGrid\n"
    add("textgrids-to-torch-token-data-dir", "textgrids_to_torch_token_data_dir", "wc",
        {"tg": {"type": "dir", "files": tgs}, "map": txt(MAP)}, ["tok"], ["{tg}", "{map}", "{tok}"],
        [dflt("--file-prefix", ""), dflt("--file-suffix", ".pt"), alt("--file-prefix", "p_"),
         alt("--file-suffix", "_s")] + CHUNKSZ + sizing + shift
        + [dflt("--textgrid-suffix", ".TextGrid"), alt("--textgrid-suffix", ".tg"), dflt("--tier-idx", "0"),
           alt("--tier-name", "transcript"), alt("--fill-symbol", "1"), alt("--swap"), alt("--unk-symbol", "2")])

    # ---- token directory -> transcripts
    tok = token_dir(rng, utts)
    allu = [u for u, _ in names(utts)]
    add("torch-token-data-dir-to-trn", "torch_token_data_dir_to_trn", "w",
        {"tok": tok, "map": txt(MAP)}, ["out_trn"], ["{tok}", "{map}", "{out_trn}"], NAMING + [alt("--swap")])
    wc = "".join(f"w{u} {'AB'[k % 2]} {u}\n" for k, u in enumerate(allu))
    uw = "".join(f"{u} v{u} {'BA'[k % 2]}\n" for k, u in enumerate(allu))
    add("torch-token-data-dir-to-ctm", "torch_token_data_dir_to_ctm", "",
        {"tok": tok, "map": txt(MAP), "wc2utt": txt(wc), "utt2wc": txt(uw)}, ["out_ctm"],
        ["{tok}", "{map}", "{out_ctm}"],
        NAMING + shift + [alt("--swap"), dflt("--channel", "A"), alt("--channel", "B"), alt("--wc2utt", "{wc2utt}"),
                          alt("--utt2wc", "{utt2wc}")])
    feat_for = {"type": "tensor_dir", "files": {"": {
        n: T([[0.0]] * (max(r[2] for r in spec[0]) + 1), None, "float32") for n, spec in tok["files"][""].items()}}}
    add("torch-token-data-dir-to-textgrids", "torch_token_data_dir_to_textgrids", "wc",
        {"tok": tok, "map": txt(MAP), "feat": feat_for}, ["tg"], ["{tok}", "{map}", "{tg}", "--infer"],
        NAMING + CHUNKSZ + shift
        + [alt("--swap"), dflt("--textgrid-suffix", ".TextGrid"), alt("--textgrid-suffix", ".tg"),
           dflt("--tier-name", "transcript"), alt("--tier-name", "words"), dflt("--precision", "3"),
           alt("--precision", "1"), alt("--quiet"), alt("--force-method", "1"), alt("--force-method", "3"),
           flip("--feat-dir instead of --infer", ["--feat-dir", "{feat}"], ["--infer"])])

    # ---- alignments <-> token segments
    alis = {}
    for u, n in names(utts):
        a = []
        for _ in range(rng.randint(1, 4)):
            a += [rng.randint(0, 3)] * rng.randint(1, 3)
        alis[n] = T(a)
    add("torch-ali-data-dir-to-torch-token-data-dir", "torch_ali_data_dir_to_torch_token_data_dir", "wc",
        {"ali": {"type": "tensor_dir", "files": {"": alis}}}, ["ref"], ["{ali}", "{ref}"], NAMING + CHUNKSZ)
    refs, feats = {}, {}
    for u, n in names(utts):
        rows, t = [], 0
        for k in range(rng.randint(1, 3)):
            d = rng.randint(1, 3)
            rows.append([k % 3, t, t + d])
            t += d
        refs[n] = T(rows, [len(rows), 3])
        feats[n] = T([[0.0]] * t, None, "float32")
    add("torch-token-data-dir-to-torch-ali-data-dir", "torch_token_data_dir_to_torch_ali_data_dir", "wc",
        {"ref": {"type": "tensor_dir", "files": {"": refs}}, "feat": {"type": "tensor_dir", "files": {"": feats}}},
        ["ali"], ["{ref}", "{ali}"], NAMING + CHUNKSZ + [alt("--feat-dir", "{feat}")])

    # ---- error rates
    rd, hd = token_dir(rng, utts, times=False), token_dir(rng, utts, times=False)
    er_flips = NAMING + [alt("--id2token", "{map}"), alt("--replace", "{replace}"), alt("--ignore", "{ignore}"),
                         alt("--swap"), alt("--warn-missing"), alt("--distances"), alt("--per-utt"),
                         dflt("--batch-size", "100"), alt("--batch-size", "1"), alt("--quiet"),
                         dflt("--costs", "1", "1", "1"), alt("--costs", "1", "2", "1.5"), alt("--nist-costs")]
    add("compute-torch-token-data-dir-error-rates", "compute_torch_token_data_dir_error_rates", "",
        {"ref": rd, "hyp": hd, "map": txt(MAP), "replace": txt("1 2\n"), "ignore": txt("3\n")}, ["out_txt"],
        ["{ref}", "{hyp}", "{out_txt}"], er_flips)

    # ---- whole data directories
    crit = ["--first-n", "2"]
    crits = [["--last-n", "2"], ["--shortest-n", "1"], ["--longest-n", "1"], ["--first-ratio", "0.5"],
             ["--last-ratio", "0.5"], ["--shortest-ratio", "0.5"], ["--longest-ratio", "0.5"],
             ["--rand-n", "2", "--seed", "3"], ["--rand-ratio", "0.5", "--seed", "3"],
             ["--utt-list", utts[0], utts[2]], ["--utt-list-file", "{lst}"]]
    add("subset-torch-spect-data-dir", "subset_torch_spect_data_dir", "wc",
        {"src": data_dir(rng, utts), "lst": txt(utts[1] + "\n" + utts[2] + "\n")}, ["dest"],
        ["{src}", "{dest}"] + crit,
        NAMING + CHUNKSZ + SUBDIRS + [alt("--copy"), alt("--symlink"), alt("--only")]
        + [flip(" ".join(c[:1]) + " instead of --first-n", c, crit) for c in crits])
    chunk_flips = NAMING + CHUNKSZ + SUBDIRS + [
        dflt("--policy", "fixed"), alt("--policy", "ali"), alt("--policy", "ref"), dflt("--lobe-size", "0"),
        alt("--lobe-size", "1"), dflt("--window-type", "symmetric"), alt("--window-type", "causal"),
        alt("--window-type", "future"), alt("--pad-mode", "constant"), alt("--pad-mode", "reflect"),
        alt("--pad-mode", "replicate"), dflt("--pad-constant", "0.0"), alt("--pad-constant", "5"),
        alt("--partial-tokens"), alt("--retain-token-boundaries"), alt("--quiet"),
        dflt("--format-utt", "{{utt_id}}.{{start:05d}}.{{end:05d}}"), alt("--format-utt", "{{utt_id}}#{{idx}}")]
    src = data_dir(rng, utts)
    add("chunk-torch-spect-data-dir", "chunk_torch_spect_data_dir", "wc", {"src": src}, ["dest"],
        ["{src}", "{dest}"], chunk_flips)
    # a second base, on which the options that only act together with others can act (lobes, padding, windows)
    base2 = [rng.choice(["--policy=ref", "--policy=ali", "--policy=fixed"]), "--lobe-size=1", "--pad-mode=constant"]
    add("chunk-torch-spect-data-dir " + " ".join(base2), "chunk_torch_spect_data_dir", "wc", {"src": src}, ["dest"],
        ["{src}", "{dest}"] + base2,
        [f for f in chunk_flips if f["add"][0] in ("--window-type", "--pad-constant", "--partial-tokens",
                                                   "--retain-token-boundaries", "--format-utt")])
    add("get-torch-spect-data-dir-info", "get_torch_spect_data_dir_info", "",
        {"src": data_dir(rng, utts, ali_extra=True)}, ["info_txt"], ["{src}", "{info_txt}"],
        NAMING + SUBDIRS + [alt("--strict"), alt("--fix"), alt("--fix", "2")])

    # ---- statistics
    stat = NAMING + CHUNKSZ + [dflt("--precision", "3"), alt("--precision", "1"), alt("--std"), alt("--bessel"),
                               alt("--exclude-ids", "1"), alt("--exclude-ids", "0", "2")]
    add("print-torch-ali-data-dir-length-moments", "print_torch_ali_data_dir_length_moments", "wc",
        {"ali": {"type": "tensor_dir", "files": {"": alis}}}, ["m_txt"], ["{ali}", "{m_txt}"], stat)
    add("print-torch-ref-data-dir-length-moments", "print_torch_ref_data_dir_length_moments", "wc",
        {"ref": tok}, ["m_txt"], ["{ref}", "{m_txt}"], stat + [alt("--strict"), alt("--quiet")])
    mv = {n: T([[rng.randint(-4, 4) / 2.0, float(k)] for _ in range(2)], None, "float32")
          for k, (u, n) in enumerate(names(utts))}
    gid = "".join(f"{u} g{k % 2}\n" for k, (u, _) in enumerate(names(utts)))
    add("compute-mvn-stats-for-torch-feat-data-dir", "compute_mvn_stats_for_torch_feat_data_dir", "w",
        {"feat": {"type": "tensor_dir", "files": {"": mv}}, "id2gid": txt(gid)}, ["stats_pt"],
        ["{feat}", "{stats_pt}"], NAMING + [dflt("--dim", "-1"), alt("--dim", "0"), alt("--id2gid", "{id2gid}"),
                                            alt("--bessel")])
    return out


def steps_of(suite, argv):
    return [[suite["fn"], list(argv), suite["pool"][:1] and "w"]]


def session_groups(rng, tier):
    """One group per suite. Jobs (all `isolate`: each in a forked child of a process that never ran a command):
    job 0 = the chain `base, flip1, base, flip2, ...` in one process; then per invocation x (base first) the
    serial run in a fresh process and, where the command takes --num-workers, the run with one worker."""
    groups = []
    spawn_left = 6 if tier == "thorough" else 0
    for su in suites(rng):
        inv = [("base", su["base"], False)] + [(f["label"], apply_flip(su["base"], f), f["default"])
                                               for f in su["flips"]]
        order = list(range(1, len(inv)))
        rng.shuffle(order)
        chain = [0]
        for i in order:
            chain += [i, 0]
        common = {"inputs": su["inputs"], "outputs": su["outputs"], "isolate": True, "start": "fork"}
        jobs = [dict(common, chain=[steps_of(su, inv[i][1]) for i in chain], steps=steps_of(su, su["base"]),
                     workers=0, chunk=None, cost=0.05 * len(chain))]
        index = {"chain": chain, "fresh": {}, "pool": {}}
        for i, (_, argv, _) in enumerate(inv):
            index["fresh"][i] = len(jobs)
            jobs.append(dict(common, steps=steps_of(su, argv), workers=0, chunk=None, cost=0.05))
            if su["pool"]:
                index["pool"][i] = len(jobs)
                start = "fork"
                if spawn_left and rng.random() < 0.05:
                    start, spawn_left = "spawn", spawn_left - 1
                jobs.append(dict(common, steps=[[su["fn"], list(argv), su["pool"]]], workers=1, chunk=1,
                                 start=start, cost=0.1 if start == "fork" else 3.0))
        groups.append({"name": su["name"], "n_utts": 3, "start": "fork", "jobs": jobs, "suite": su, "inv": inv,
                       "index": index})
    return groups
