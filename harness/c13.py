"""C13 — epoch samplers are reproducible and split data exactly across processes.

Correspondence: the real EpochRandomSampler / EpochSequentialSampler are constructed for
every rank of a simulated process group (torch.distributed queries patched) and iterated;
the Lean model gets the epoch orderings from an independent, undistributed sampler object.
"""
import contextlib
import itertools

from common.framework import PropertyCheck


@contextlib.contextmanager
def fake_dist(rank, world):
    import torch.distributed as d
    saved = {k: getattr(d, k) for k in ("is_available", "is_initialized", "get_rank", "get_world_size")}
    try:
        if world:
            d.is_available = lambda: True
            d.is_initialized = lambda *a, **k: True
            d.get_rank = lambda *a, **k: rank
            d.get_world_size = lambda *a, **k: world
        else:
            d.is_initialized = lambda *a, **k: False
        yield
    finally:
        for k, v in saved.items():
            setattr(d, k, v)


def make(kind, N, init_epoch, seed, mode):
    from pydrobert.torch.data import EpochRandomSampler, EpochSequentialSampler
    data = list(range(N))
    if mode == "default":  # argument omitted: the documented default is 'raise'
        if kind == "random":
            return EpochRandomSampler(data, init_epoch, seed)
        return EpochSequentialSampler(data, init_epoch)
    if kind == "random":
        return EpochRandomSampler(data, init_epoch, seed, mode)
    return EpochSequentialSampler(data, init_epoch, mode)


class C13(PropertyCheck):
    pid = "C13"
    rule = ("exhaustive grid over N, world (0 = no process group), all ranks, 4 uneven modes, "
            "random/sequential sampler, (init_epoch, consumed epochs); a case is one whole group; plus a "
            "non-member stream (get_rank() == -1 in an initialised group of 2 or 3). "
            "non-trivial: N >= 2 and world >= 2, or >= 1 consumed epoch; distinct by the case tuple")
    assumptions = [
        "torch.distributed environment simulated by patching is_available/is_initialized/get_rank/get_world_size",
        "numpy RandomState((seed, epoch)).permutation is some ordering determined by (seed, epoch): "
        "taken from an independent undistributed sampler object and checked to be a permutation",
    ]
    exhaustive = {"quick": True, "thorough": True}
    quick_budget_s = 240
    thorough_budget_s = 1200

    def cases(self, rng, tier):
        if tier == "quick":
            Ns, Ws = range(0, 13), range(0, 6)
            hist = [(0, 0), (0, 2), (3, 1)]
        else:
            Ns, Ws = list(range(0, 25)) + [31, 40], range(0, 8)
            hist = [(0, 0), (0, 1), (0, 3), (2, 2), (5, 0)]
        seed = rng.randrange(1 << 20)
        for N, W, mode, kind, (e0, k) in itertools.product(
                Ns, Ws, ("raise", "drop", "uneven", "ignore", "default"), ("random", "sequential"), hist):
            yield {"N": N, "world": W, "mode": mode, "kind": kind, "seed": seed + N, "init_epoch": e0,
                   "consumed": k}
        # audit addition: a process that is not a member of the (initialised) group: get_rank() == -1.
        # __init__ tests `get_rank() >= 0`, the model's `dist = none`: every mode must then behave as
        # outside a group (full epoch, no ValueError even for an indivisible size).
        for N, W, mode, kind in itertools.product(Ns, (2, 3), ("raise", "drop", "uneven", "ignore"),
                                                  ("random", "sequential")):
            yield {"N": N, "world": W, "mode": mode, "kind": kind, "seed": seed + N, "init_epoch": 1,
                   "consumed": 1, "neg_rank": True}

        # ONE seed shared by samplers of different sizes built in the same process (the cases above give every
        # size its own seed): a cache that outlives the object, keyed on (seed, epoch, something coarser than N)
        # - e.g. the per-rank length - hands a later sampler another data set's permutation (seed C13-h1)
        for N, W, mode in itertools.product(Ns, (0, 2, 3), ("raise", "drop", "uneven", "ignore")):
            yield {"N": N, "world": W, "mode": mode, "kind": "random", "seed": seed, "init_epoch": 0,
                   "consumed": 1, "shared_seed": True}
        # sizes around the limits of narrow integer types (seed C13-h2: an int16 index buffer for N <= 65536)
        big = (32767, 32769, 65536) if tier == "quick" else (255, 257, 32767, 32768, 32769, 40000, 65535, 65536, 65537)
        for N, (W, mode) in itertools.product(big, ((0, "raise"), (2, "uneven"), (3, "drop"))):
            yield {"N": N, "world": W, "mode": mode, "kind": "random", "seed": seed + 7, "init_epoch": 0,
                   "consumed": 0, "big": True}

    # ------------------------------------------------------------------ implementation
    def oracle_perms(self, case):
        with fake_dist(0, 0):
            s = make(case["kind"], case["N"], 0, case["seed"], "raise")
            return [[int(x) for x in s.get_samples_for_epoch_ignoring_distributed(e)]
                    for e in range(case["init_epoch"], case["init_epoch"] + case["consumed"] + 1)]

    def run_impl(self, case):
        W = case["world"]
        ranks = []
        for r in ([-1] if case.get("neg_rank") else range(max(W, 1))):
            with fake_dist(r, W):
                try:
                    s = make(case["kind"], case["N"], case["init_epoch"], case["seed"], case["mode"])
                except ValueError:
                    ranks.append({"init": "error"})
                    continue
                ln = len(s)
                ys = [[int(x) for x in s] for _ in range(case["consumed"] + 1)]
                lens_after = len(s)
                # a second object started directly at the last epoch (different history)
                s2 = make(case["kind"], case["N"], case["init_epoch"] + case["consumed"], case["seed"],
                          case["mode"])
                direct = [int(x) for x in s2]
                # asking for an epoch explicitly must not depend on the object's history either
                explicit = [int(x) for x in s.get_samples_for_epoch(case["init_epoch"])]
                # iterators obtained first and consumed later, in reverse order: an epoch's order must
                # not depend on what else was requested from the object in the meantime
                s3 = make(case["kind"], case["N"], case["init_epoch"], case["seed"], case["mode"])
                its = [iter(s3) for _ in range(case["consumed"] + 1)]
                extra_it = s3.get_samples_for_epoch(case["init_epoch"] + case["consumed"] + 1)
                lazy = [None] * len(its)
                for j in reversed(range(len(its))):
                    lazy[j] = [int(x) for x in its[j]]
                del extra_it
                # a query for another epoch in between two passes must not move the sampler
                s5 = make(case["kind"], case["N"], case["init_epoch"], case["seed"], case["mode"])
                p0 = [int(x) for x in s5]
                _ = [int(x) for x in s5.get_samples_for_epoch(case["init_epoch"] + 5)]
                ep_after_query = int(s5.epoch)
                p1 = [int(x) for x in s5]
                # a query for the current epoch without iterating, then an assignment of `.epoch` (what the
                # loaders' epoch setter does on resume / rewind), then a pass: must be the assigned epoch's order
                s4 = make(case["kind"], case["N"], case["init_epoch"], case["seed"], case["mode"])
                peek0 = [int(x) for x in s4.get_samples_for_epoch(s4.epoch)]
                s4.epoch = case["init_epoch"] + case["consumed"]
                jump = [int(x) for x in s4]
                peek1 = [int(x) for x in s4.get_samples_for_epoch(s4.epoch - 1)]
                s4.epoch = case["init_epoch"]
                rewind = [int(x) for x in s4]
                ranks.append({"init": "ok", "len": ln, "len_after": lens_after, "yields": ys,
                              "final_epoch": int(s.epoch), "direct_last": direct, "explicit_first": explicit,
                              "lazy_yields": lazy, "peek_assign": [peek0, jump, peek1, rewind],
                              "query_between": [p0, ep_after_query, p1]})
        return {"ranks": ranks}

    @staticmethod
    def eff_mode(case):
        return "raise" if case["mode"] == "default" else case["mode"]

    def model_request(self, case):
        perms = self.oracle_perms(case)
        if any(sorted(q) != list(range(case["N"])) for q in perms):
            # the ordering the code produces is not a permutation of range(N) (the model's `IsOrdering` premise):
            # nothing to compare with; the predicate reports it with the offending entries
            return None
        return {"op": "c13.group", "case": {
            "N": case["N"], "mode": self.eff_mode(case), "world": 0 if case.get("neg_rank") else case["world"],
            "init_epoch": case["init_epoch"], "perms": perms}}

    def compare(self, case, impl, model):
        out = []
        if "error" in impl:
            return [f"implementation raised {impl['error']}: {impl.get('message')}"]
        for r, (a, b) in enumerate(zip(impl["ranks"], model["ranks"])):
            if (a["init"] == "error") != (b["init"] == "error"):
                out.append(f"rank {r}: init impl={a['init']} model={b['init']}")
                continue
            if a["init"] == "error":
                continue
            if a["len"] != b["len"]:
                out.append(f"rank {r}: len impl={a['len']} model={b['len']}")
            if a["yields"] != b["yields"]:
                sh = (lambda v: v) if case["N"] <= 40 else (lambda v: str(v)[:200] + " ...")
                out.append(f"rank {r}: yields impl={sh(a['yields'])} model={sh(b['yields'])}")
            if a["lazy_yields"] != b["yields"]:
                out.append(f"rank {r}: lazily consumed yields impl={a['lazy_yields']} model={b['yields']}")
            want = [b["yields"][0], b["yields"][-1], b["yields"][-1], b["yields"][0]]
            if a["peek_assign"] != want:
                out.append(f"rank {r}: query / assign .epoch / iterate: impl={a['peek_assign']} model={want}")
            if a["final_epoch"] != b["final_epoch"]:
                out.append(f"rank {r}: epoch impl={a['final_epoch']} model={b['final_epoch']}")
        return out

    def predicate(self, case, impl, model):
        """The property evaluated on the implementation's output alone."""
        if "error" in impl:
            return [(f"sampler raised {impl['error']}: {impl.get('message')}", None)]
        N, W, mode = case["N"], case["world"], self.eff_mode(case)
        fails = []
        perms = self.oracle_perms(case)
        for p in perms:
            if sorted(p) != list(range(N)):
                bad = [x for x in p if not 0 <= x < N][:5]
                fails.append((f"epoch ordering is not a permutation of range({N}): "
                              f"{p if N <= 40 else str(p[:10]) + ' ...'} (out of range: {bad})", None))
        ranks = impl["ranks"]
        grouped = W >= 1 and mode != "ignore" and not case.get("neg_rank")
        indivisible = grouped and N % W != 0
        if mode == "raise" and indivisible:
            if any(r["init"] != "error" for r in ranks):
                fails.append(("indivisible size accepted under 'raise'", None))
            return fails
        if any(r["init"] == "error" for r in ranks):
            fails.append(("sampler construction raised although the size is admissible", None))
            return fails
        for ri, r in enumerate(ranks):
            for e, y in enumerate(r["yields"]):
                if r["len"] != len(y) or r["len_after"] != len(y):
                    fails.append((f"rank {ri}: len()={r['len']} but {len(y)} indices yielded in epoch {e}", None))
            if r["direct_last"] != r["yields"][-1]:
                fails.append((f"rank {ri}: epoch {case['init_epoch'] + case['consumed']} differs between a sampler "
                              f"iterated {case['consumed']} times and one started there", None))
            if r["lazy_yields"] != r["yields"]:
                fails.append((f"rank {ri}: the order yielded for an epoch depends on when its iterator is consumed "
                              f"(iterators taken first, consumed later: {r['lazy_yields']} vs {r['yields']})", None))
            if r["final_epoch"] != case["init_epoch"] + case["consumed"] + 1:
                fails.append((f"rank {ri}: after {case['consumed'] + 1} passes from epoch {case['init_epoch']} (and read-only "
                              f"queries) the sampler stands at epoch {r['final_epoch']}", None))
            qb = r["query_between"]
            if qb[0] != r["yields"][0] or qb[1] != case["init_epoch"] + 1 or (case["consumed"] >= 1 and qb[2] != r["yields"][1]):
                fails.append((f"rank {ri}: a get_samples_for_epoch query for another epoch between two passes changed the "
                              f"second pass or the epoch counter ({qb})", None))
            pa = r["peek_assign"]
            if pa != [r["yields"][0], r["yields"][-1], r["yields"][-1], r["yields"][0]]:
                fails.append((f"rank {ri}: after get_samples_for_epoch(epoch) and an assignment of .epoch the pass does not "
                              f"yield the assigned epoch's order (query, jump, query, rewind = {pa})", None))
            if r["explicit_first"] != r["yields"][0]:
                fails.append((f"rank {ri}: get_samples_for_epoch differs after iteration", None))
        for e, p in enumerate(perms):
            if not grouped:
                for ri, r in enumerate(ranks):
                    if r["yields"][e] != p:
                        fails.append((f"rank {ri}: does not yield the full epoch ordering", None))
                continue
            allidx = [x for r in ranks for x in r["yields"][e]]
            eff = N - N % W if mode == "drop" else N
            if len(set(allidx)) != len(allidx):
                fails.append((f"epoch {e}: an index is yielded twice across ranks", None))
            if sorted(allidx) != sorted(p[:eff]):
                fails.append((f"epoch {e}: ranks do not cover exactly the first {eff} entries of the ordering", None))
            if mode == "drop" and any(len(r["yields"][e]) != N // W for r in ranks):
                fails.append((f"epoch {e}: ranks get unequal shares under 'drop'", None))
        return fails

    def nontrivial(self, case, impl):
        return (case["N"] >= 2 and case["world"] >= 2) or case["consumed"] >= 1

    def tags(self, case, impl):
        t = [f"mode={case['mode']}", f"kind={case['kind']}", f"world={case['world']}"]
        if case["world"] and case["N"] % case["world"]:
            t.append("indivisible")
        if case.get("neg_rank"):
            t.append("rank=-1")
        if isinstance(impl, dict) and any(r.get("init") == "error" for r in impl.get("ranks", [])):
            t.append("init_raises")
        return t

    def shrink(self, case):
        if case["N"] > 64:      # sizes around a type limit: towards the limit first, never by single steps
            for n in (case["N"] // 2, case["N"] - case["N"] // 4, case["N"] - 256, case["N"] - 16):
                if 0 < n < case["N"]:
                    yield dict(case, N=n)
            return
        for k in ("consumed", "init_epoch", "N", "world"):
            if case[k] > 0:
                c = dict(case)
                c[k] = case[k] - 1
                yield c


CHECK = C13()
