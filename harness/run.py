"""Entry point: ./check Cxx [--tier quick|thorough] [--replay file]"""
import argparse
import importlib
import os
import sys
from pathlib import Path

HERE = Path(__file__).resolve().parent
sys.path.insert(0, str(HERE))


def main():
    ap = argparse.ArgumentParser()
    ap.add_argument("pid")
    ap.add_argument("--tier", default=os.environ.get("VERIF_TIER", "quick"), choices=["quick", "thorough"])
    ap.add_argument("--replay", default=None)
    ap.add_argument("--seed", type=int, default=None)
    args = ap.parse_args()
    seed = args.seed if args.seed is not None else int(os.environ.get("VERIF_SEED", "0") or 0)
    from common import framework
    mod = importlib.import_module(args.pid.lower())
    check = mod.CHECK
    if args.replay:
        return framework.replay(check, args.replay)
    try:
        return framework.run_check(check, args.tier, seed)
    except Exception:
        import traceback
        traceback.print_exc()
        return 2


if __name__ == "__main__":
    sys.exit(main())
