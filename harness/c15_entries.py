"""C15, last clause: user-defined entries are stored and returned with their declared types
(+ the documented error classes of add_entry / update_for_epoch).  Implementation-only checks,
including format strings that the Lean model of the history file (Model/ControllerText.lean) does
not cover; the modelled formats also run through the main stream of c15.py.  Driven from
C15.extra_checks."""
import os
import shutil
import tempfile
import warnings

from common.framework import Failure

ALPHABET = ["a", "B", " ", ",", '"', "'", ";", "é", "0", "-", "\t", "x,y", '""', "epoch", "\n", "\r", "\r\n", "\n\r"]
TMP_ROOT = "/dev/shm" if os.path.isdir("/dev/shm") and os.access("/dev/shm", os.W_OK) else None


def _mk(params, csv_path, state_dir, entries, lr=0.5):
    import torch
    from pydrobert.torch.training import TrainingStateController
    w = torch.nn.Parameter(torch.zeros(1))
    model = torch.nn.ParameterList([w])
    opt = torch.optim.SGD([w], lr=lr)
    ctl = TrainingStateController(params, csv_path, state_dir)
    for name, typ, fmt in entries:
        ctl.add_entry(name, typ, fmt)
    ctl.load_model_and_optimizer_for_epoch(model, opt)
    return model, opt, ctl


def gen_values(rng, typ, fmt, n):
    out = []
    for _ in range(n):
        if typ is int:
            out.append(rng.choice((0, 1, -1, 7, 10, 99999, -12345, rng.randrange(-10 ** 12, 10 ** 12))))
        elif typ is float:
            out.append(rng.choice((0.0, 1.5, -2.25, 0.1, 1e-30, 3.141592653589793, rng.random(),
                                   rng.uniform(-1e6, 1e6))))
        else:
            out.append("".join(rng.choice(ALPHABET) for _ in range(rng.randrange(0, 6))))
    return out


def entries_case(rng):
    pool = [("count", int, "{}"), ("pad", int, "{:05d}"), ("note", str, "{}"), ("ratio", float, "{}"),
            ("ratio_r", float, "{!r}"), ("tag", str, "{:s}"), ("big", int, "{:d}"),
            # formats outside the Lean model (implementation only): blank padding, explicit sign, %g
            ("right", int, "{:>8d}"), ("signed", int, "{:+d}"), ("g17", float, "{:.17g}"), ("left", int, "{:<6d}")]
    k = rng.randrange(1, 4)
    ents = rng.sample(pool, k)
    n = rng.randrange(1, 6)
    vals = [gen_values(rng, t, f, n) for (_, t, f) in ents]
    restart_at = sorted({e for e in range(1, n + 1) if rng.random() < 0.4})
    return {"entries": [(a, t.__name__, f) for a, t, f in ents], "values": vals, "n": n, "restarts": restart_at}


def run_entries_case(case):
    """-> list of problem strings."""
    from pydrobert.torch.training import TrainingStateParams
    T = {"int": int, "str": str, "float": float}
    ents = [(a, T[t], f) for a, t, f in case["entries"]]
    d = tempfile.mkdtemp(prefix="c15e_", dir=TMP_ROOT)
    probs = []
    try:
        csv_path = os.path.join(d, "h.csv")
        sd = os.path.join(d, "st")
        params = TrainingStateParams(num_epochs=None)
        model, opt, ctl = _mk(params, csv_path, sd, ents)
        for e in range(1, case["n"] + 1):
            kw = {a: case["values"][i][e - 1] for i, (a, _, _) in enumerate(ents)}
            ctl.update_for_epoch(model, opt, 1.0, 1.0, **kw)
            if e in case["restarts"]:
                model, opt, ctl = _mk(params, csv_path, sd, ents)
            for e2 in range(1, e + 1):
                info = ctl.get_info(e2)
                for i, (a, t, f) in enumerate(ents):
                    want = case["values"][i][e2 - 1]
                    got = info[a]
                    if type(got) is not t:
                        probs.append(f"after epoch {e}: entry {a!r} of epoch {e2} has type "
                                     f"{type(got).__name__}, declared {t.__name__}")
                    elif got != want:
                        probs.append(f"after epoch {e}: entry {a!r} of epoch {e2} is {got!r}, stored {want!r} "
                                     f"(fmt {f!r})")
        # a controller that did not declare the entries still reads the history
        _, _, plain = _mk(params, csv_path, sd, [])
        if plain.get_last_epoch() != case["n"]:
            probs.append(f"controller without add_entry reads {plain.get_last_epoch()} epochs of {case['n']}")
    finally:
        shutil.rmtree(d, ignore_errors=True)
    return probs[:3]


def malformed_checks():
    """documented error classes; -> list of problem strings"""
    from pydrobert.torch.training import TrainingStateController, TrainingStateParams
    probs = []

    def expect(exc, fn, what):
        try:
            fn()
        except exc:
            return
        except Exception as e:  # noqa: BLE001
            probs.append(f"{what}: raised {type(e).__name__}, expected {exc.__name__}")
            return
        probs.append(f"{what}: no error, expected {exc.__name__}")

    params = TrainingStateParams()
    for name in ("epoch", "lr", "val_met", "es_patience_cd"):
        expect(ValueError, lambda: TrainingStateController(params).add_entry(name), f"add_entry({name!r})")
    expect(ValueError, lambda: TrainingStateController(params).add_entry("x", typ="int"), "add_entry(typ='int')")
    model, opt, ctl = _mk(params, None, None, [("x", int, "{}")])
    expect(TypeError, lambda: ctl.update_for_epoch(model, opt, 1.0, 1.0), "missing entry keyword")
    expect(TypeError, lambda: ctl.update_for_epoch(model, opt, 1.0, 1.0, x=1, y=2), "undeclared keyword")
    expect(ValueError, lambda: ctl.update_for_epoch(model, opt, 1.0, 1.0, x="1"), "wrong entry type")
    if ctl.get_last_epoch() != 0:
        probs.append("a rejected update_for_epoch call still recorded an epoch")
    expect(KeyError, lambda: ctl.get_info(3), "get_info of a missing epoch")
    if ctl.get_info(3, None) is not None:
        probs.append("get_info(missing, default) does not return the default")
    return probs


BOOL_SIG = "C15.entries.bool_as_int_unreadable"


def bool_for_int_probe():
    """A `bool` handed in for an entry declared `int` (outside the Lean model, whose `EVal.int` is an exact int).
    `True` passes the `isinstance(value, int)` check of update_for_epoch.  KNOWN FINDING `BOOL_SIG`: with '{}' /
    '{!r}' it is written as the text 'True' and the next controller built on the file cannot be constructed
    (`int('True')` raises ValueError in update_cache).  With '{:d}' / '{:0wd}' it is written as '1' and comes back as
    the int 1 (declared type, equal value: no violation).
    -> (observations {fmt: text}, problems [(fmt, what, signature)]); the known signature is used only for exactly
    that behaviour (update accepted, 'True' in the file, ValueError from int() on the re-read); a rejected update is
    fine; anything else is reported under the general signature "C15.entries"."""
    from pydrobert.torch.training import TrainingStateParams
    obs, probs = {}, []
    for fmt in ("{}", "{!r}", "{:d}", "{:03d}"):
        d = tempfile.mkdtemp(prefix="c15b_", dir=TMP_ROOT)
        try:
            csv_path, sd = os.path.join(d, "h.csv"), os.path.join(d, "st")
            params = TrainingStateParams(num_epochs=None)
            model, opt, ctl = _mk(params, csv_path, sd, [("flag", int, fmt)])
            try:
                ctl.update_for_epoch(model, opt, 1.0, 1.0, flag=True)
            except (ValueError, TypeError) as e:
                obs[fmt] = f"update_for_epoch rejects the bool ({type(e).__name__})"
                continue
            with open(csv_path, newline="") as f:
                last_field = f.read().splitlines()[-1].split(",")[-1]
            try:
                _, _, ctl2 = _mk(params, csv_path, sd, [("flag", int, fmt)])
                got = ctl2.get_info(1)["flag"]
            except ValueError as e:
                obs[fmt] = f"file holds {last_field!r}; re-read raises ValueError: {e}"
                if last_field == "True" and "invalid literal for int()" in str(e):
                    probs.append((fmt, f"bool for an int entry (fmt {fmt!r}): accepted, written as 'True', every later "
                                       f"controller on the file raises ValueError: {e}", BOOL_SIG))
                else:
                    probs.append((fmt, f"bool for an int entry (fmt {fmt!r}): file holds {last_field!r}, re-read raises "
                                       f"ValueError: {e}", "C15.entries"))
                continue
            obs[fmt] = f"file holds {last_field!r}; after restart {got!r} ({type(got).__name__})"
            if type(got) is not int or got != 1:
                probs.append((fmt, f"bool for an int entry (fmt {fmt!r}) comes back as {got!r} "
                                   f"({type(got).__name__})", "C15.entries"))
        except Exception as e:  # noqa: BLE001
            obs[fmt] = f"raised {type(e).__name__}: {e}"
            probs.append((fmt, f"bool for an int entry (fmt {fmt!r}): {type(e).__name__}: {e}", "C15.entries"))
        finally:
            shutil.rmtree(d, ignore_errors=True)
    return obs, probs


def run(rng, tier, report):
    n = 60 if tier == "quick" else 600
    done = 0
    with warnings.catch_warnings():
        warnings.simplefilter("ignore")
        for p in malformed_checks():
            report["failures"].append(Failure({"kind": "malformed"}, "error classes: " + p, None))
        for _ in range(n):
            case = entries_case(rng)
            try:
                probs = run_entries_case(case)
            except Exception as e:  # noqa: BLE001
                probs = [f"raised {type(e).__name__}: {e}"]
            done += 1
            for p in probs[:1]:
                report["failures"].append(Failure({"kind": "entries", **case}, "user entries: " + p, None))
        obs, probs = bool_for_int_probe()
        report["extra"]["bool_for_int_entry_observation"] = obs
        for fmt, what, sig in probs:
            report["failures"].append(Failure({"kind": "bool_for_int_entry", "fmt": fmt}, "user entries: " + what, sig))
    report["extra"]["entries_cases"] = done
    report["extra"]["entries_note"] = ("user entries int/str/float with '{}'-style formats, strings over "
                                       + repr(ALPHABET) + ", restart at random epochs; implementation only")
