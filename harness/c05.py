"""C05 — CTC prefix search reports true prefix mass, never more, never NaN.

Correspondence: the real `ctc_prefix_search_advance` is observed call by call (its inputs
and outputs, per batch element) both when `CTCPrefixSearch.forward` drives it and when the
harness drives it directly.  The Lean model replays every call for every batch element
from the *probabilities the implementation itself used* (torch's own softmax / fused
values, as exact rationals) and the *selection `topk` returned* (`topk`'s tie order is not
specified; the model checks that the selection is a legitimate top-K), and must reproduce
every tensor of every call and the final result.  The Lean specification (alignment
enumeration, forward variables, map-based prefix-beam recursion pruned to the prefixes the
implementation kept) is the oracle of the property predicate.
"""
import contextlib
import itertools
import os
from fractions import Fraction

from common.framework import PropertyCheck, frac_str

NEG = float("-inf")
PINNED_MODEL = bool(os.environ.get("VERIF_C05_PINNED_MODEL"))  # compare against the model of the unrepaired code
TOL = {"f32": Fraction(1, 50000), "f64": Fraction(1, 10 ** 10)}


# ----------------------------------------------------------------------------- helpers
def enc(x):
    """float -> JSON-safe (exact: python floats round-trip through repr)."""
    x = float(x)
    if x == NEG:
        return "-inf"
    return x


def dec(x):
    return NEG if x == "-inf" else float(x)


def F(s):
    """'n/d' | 'nan' | 'inf' | '-inf' -> Fraction or the word."""
    if s in ("nan", "inf", "-inf"):
        return s
    return Fraction(s)


def close(a, b, tol):
    """a, b: Fraction or word. tol = 0 -> exact."""
    if isinstance(a, str) or isinstance(b, str):
        return a == b
    if a == b:
        return True
    return abs(a - b) <= tol * max(abs(a), abs(b))


def leq(a, b, tol):
    """a <= b up to tolerance for Fractions / '-inf'."""
    if a == "-inf":
        return True
    if b == "-inf":
        return False
    if isinstance(a, str) or isinstance(b, str):
        return False
    return a <= b + tol * max(abs(a), abs(b))


def prefix_hash(p):
    h = 1
    for v in p:
        h = (h * 5 + int(v) + 1) % 1000003
    return h


def lm_logits_of_hash(h, V, seed, zeros):
    """Deterministic pseudo-random LM scores (multiples of 1/4 in [-2, 2]; optionally some -inf)."""
    out = []
    for v in range(V):
        z = (h * 2654435761 + (v + 3) * 40503 + seed * 97) % 1000003
        val = ((z >> 3) % 17) / 4.0 - 2.0
        if zeros and (z % 5 == 0) and v != h % V:
            val = NEG
        out.append(val)
    return out


def make_lm(V, seed, zeros, dtype):
    """A stateful MixableSequentialLanguageModel: its state is a rolling hash of the consumed
    tokens, so its scores are a function of the prefix only if the search re-indexes and mixes
    the state dictionaries correctly."""
    import torch
    from pydrobert.torch.modules import MixableSequentialLanguageModel

    class HashLM(MixableSequentialLanguageModel):
        def __init__(self):
            super().__init__(V)

        def update_input(self, prev, hist):
            if "h" in prev:
                return prev
            return {"h": torch.zeros(hist.size(1), dtype=torch.long)}

        def calc_idx_log_probs(self, hist, prev, idx):
            h = prev["h"]
            M = h.size(0)
            idx = idx.expand(M) if idx.dim() == 0 else idx
            if hist.size(0) == 0:
                tok = torch.zeros(M, dtype=torch.long)
            else:
                tok = hist.gather(0, (idx - 1).clamp(min=0).unsqueeze(0)).squeeze(0)
            h2 = torch.where(idx == 0, torch.ones_like(h), (h * 5 + tok + 1) % 1000003)
            rows = [lm_logits_of_hash(int(x), V, seed, zeros) for x in h2.tolist()]
            return torch.tensor(rows, dtype=dtype).view(M, V), {"h": h2}

        def extract_by_src(self, prev, src):
            return {"h": prev["h"].gather(0, src)}

        def mix_by_mask(self, prev_true, prev_false, mask):
            return {"h": torch.where(mask, prev_true["h"], prev_false["h"])}

    return HashLM()


@contextlib.contextmanager
def poisoned_empty(poison):
    """Fill integer tensors made by torch.empty / Tensor.new_empty with `poison`: cells the code
    leaves uninitialised must never influence a specified output."""
    import torch
    o_empty, o_new = torch.empty, torch.Tensor.new_empty

    def empty(*a, **k):
        t = o_empty(*a, **k)
        if not t.is_floating_point() and t.dtype != torch.bool:
            t.fill_(poison)
        return t

    def new_empty(self, *a, **k):
        t = o_new(self, *a, **k)
        if not t.is_floating_point() and t.dtype != torch.bool:
            t.fill_(poison)
        return t

    torch.empty, torch.Tensor.new_empty = empty, new_empty
    try:
        yield
    finally:
        torch.empty, torch.Tensor.new_empty = o_empty, o_new


class Recorder:
    def __init__(self, orig):
        self.orig = orig
        self.calls = []

    def __call__(self, probs_t, width, probs_prev, y_prev, y_prev_last, y_prev_lens, prev_is_prefix):
        out = self.orig(probs_t, width, probs_prev, y_prev, y_prev_last, y_prev_lens, prev_is_prefix)
        self.calls.append({
            "ext": probs_t[0].detach().clone(), "tok": probs_t[1].detach().clone(),
            "blank": probs_t[2].detach().clone(), "width": width,
            "in": (y_prev.clone(), y_prev_last.clone(), y_prev_lens.clone(), probs_prev[0].clone(),
                   probs_prev[1].clone(), prev_is_prefix.clone()),
            "out": (out[0].clone(), out[1].clone(), out[2].clone(), out[3][0].clone(), out[3][1].clone(),
                    out[4].clone(), out[5].clone(), out[6].clone()),
        })
        return out


def state_obs(y, last, lens, nb, b, isp, n):
    """Canonical observation of one batch element's slots (only the valid token region)."""
    K = nb.size(1)
    ln = [int(x) for x in lens[n].expand(K).tolist()] if lens.size(1) != K else [int(x) for x in lens[n].tolist()]
    yk = y if y.size(2) == K else y.expand(-1, -1, K)
    return {
        "prefixes": [[int(t) for t in yk[:ln[k], n, k].tolist()] for k in range(K)],
        "last": [int(x) for x in last[n].tolist()],
        "lens": ln,
        "nb": [frac_str(x) for x in nb[n].tolist()],
        "b": [frac_str(x) for x in b[n].tolist()],
        "is_prefix": ["".join("1" if x else "0" for x in row) for row in isp[n].tolist()],
    }


def tot_of(st, k):
    a, b = F(st["nb"][k]), F(st["b"][k])
    if "nan" in (a, b):
        return "nan"
    if "-inf" in (a, b):
        return "nan" if "inf" in (a, b) else "-inf"
    if "inf" in (a, b):
        return "inf"
    return a + b


class C05(PropertyCheck):
    pid = "C05"
    rule = ("streams: (a) exhaustive {0,-inf}-logit grid V=1 T<=3 x widths; (b) random module runs on {0,-inf} "
            "logits (softmax = 1/2^k, exact) with batch 1..3, mixed lens incl. 0; (c) ctc_prefix_search_advance driven "
            "directly with probabilities k/16 (zeros included) and per-prefix extension probabilities; (d) tolerance: "
            "random logits f32/f64 with a stateful hash LM, beta in {0,1/4,1/2,1}, plain and valid-mixture fusion; "
            "(e) malformed inputs. T 0..5, V 1..3, width 1..50. non-trivial: an extension was merged into an existing "
            "prefix, or width != number of live candidates at some frame; distinct by the case JSON")
    assumptions = [
        "float rounding is not modelled: exact streams use float-exact domains (compared as rationals), the tolerance "
        "stream hands torch's own softmax / fused values to the model and compares within 2e-5 (f32) / 1e-10 (f64)",
        "topk: any maximal-K selection in non-increasing order; the implementation's selection is given to the model, "
        "which checks that it is a legitimate top-K of the candidate totals",
        "the language model is an arbitrary function of the prefix (harness LM: stateful rolling hash); its state "
        "handling contract (extract_by_src / mix_by_mask) is exercised, the LM itself is not verified",
        "cells left uninitialised by torch.empty are poisoned with two different values (inside / isolated run)",
    ]
    exhaustive = {"quick": False, "thorough": False}
    quick_budget_s = 150
    thorough_budget_s = 1100

    def __init__(self):
        self._cache = {}

    # ------------------------------------------------------------------ generators
    def cases(self, rng, tier):
        big = tier != "quick"
        # (a) exhaustive small grid
        rows1 = [[0.0, 0.0], [0.0, NEG], [NEG, 0.0]]
        for T in range(0, 4 if not big else 5):
            for pat in itertools.product(rows1, repeat=T):
                for width in ((1, 2, 3, 5, 50) if (big or T < 3) else (1, 2, 4, 50)):
                    yield {"kind": "module", "stream": "exact", "V": 1, "width": width, "dtype": "f32",
                           "logits": [[[enc(x) for x in row]] for row in pat], "lens": None, "lm": None}
        # malformed
        for c in self.malformed():
            yield c
        n_b, n_c, n_d = (150, 150, 150) if tier == "quick" else (3000, 3000, 3000) if tier == "thorough" else (6000, 6000, 5000)
        gens = [self.gen_module_exact(rng, n_b), self.gen_advance(rng, n_c), self.gen_tol(rng, n_d)]
        # interleave
        alive = list(gens)
        while alive:
            for g in list(alive):
                try:
                    yield next(g)
                except StopIteration:
                    alive.remove(g)

    def pick_width(self, rng, V, T):
        r = rng.random()
        if r < 0.55:
            return rng.choice([1, 2, 3, 4, 5, 6])
        if r < 0.85:
            return rng.choice([7, 8, 10, 12, 16, 20])
        return rng.choice([30, 50])

    def gen_lens(self, rng, N, T):
        r = rng.random()
        if r < 0.3:
            return None
        lens = [rng.randint(0, T) for _ in range(N)]
        if r < 0.45 and N > 1:
            lens[rng.randrange(N)] = 0
        return lens

    def gen_module_exact(self, rng, n):
        for _ in range(n):
            V = rng.choice([1, 2, 3])
            T = rng.choice([0, 1, 2, 3, 3, 4, 4, 5])
            N = rng.choice([1, 1, 2, 3])
            logits = []
            for t in range(T):
                fr = []
                for _n in range(N):
                    nz = rng.choice([c for c in (1, 2, 4) if c <= V + 1])
                    zs = set(rng.sample(range(V + 1), nz))
                    fr.append([enc(0.0 if i in zs else NEG) for i in range(V + 1)])
                logits.append(fr)
            yield {"kind": "module", "stream": "exact", "V": V, "width": self.pick_width(rng, V, T),
                   "dtype": rng.choice(["f32", "f64"]), "logits": logits, "N": N,
                   "lens": self.gen_lens(rng, N, T), "lm": None}

    def gen_advance(self, rng, n):
        for _ in range(n):
            V = rng.choice([1, 2, 3])
            T = rng.choice([1, 2, 3, 3, 4, 4, 5])
            frames = []
            for t in range(T):
                # numerators over 16, summing to <= 16, zeros allowed
                parts = [rng.choice([0, 0, 1, 2, 3, 4, 5, 6, 8]) for _ in range(V + 1)]
                while sum(parts) > 16:
                    parts[rng.randrange(V + 1)] //= 2
                if sum(parts) == 0:
                    parts[rng.randrange(V + 1)] = 4
                frames.append({"tok": parts[:V], "blank": parts[V]})
            yield {"kind": "advance", "stream": "exact", "V": V, "width": self.pick_width(rng, V, T),
                   "dtype": rng.choice(["f32", "f64"]), "frames": frames,
                   "ext_seed": rng.choice([None, rng.randrange(1 << 16)]), "lm": None, "lens": None}

    def gen_tol(self, rng, n):
        for _ in range(n):
            V = rng.choice([1, 2, 2, 3])
            T = rng.choice([0, 1, 2, 3, 4, 4, 5])
            N = rng.choice([1, 2, 3])
            dtype = rng.choice(["f32", "f64"])
            logits = [[[self.rand_logit(rng, dtype) for _ in range(V + 1)] for _ in range(N)] for _ in range(T)]
            lm = None
            if rng.random() < 0.6 and T <= 4:
                lm = {"beta": rng.choice(["0", "1/4", "1/2", "1"]), "valid": rng.random() < 0.5,
                      "seed": rng.randrange(1000), "zeros": rng.random() < 0.3}
            yield {"kind": "module", "stream": "tol", "V": V, "width": self.pick_width(rng, V, T), "dtype": dtype,
                   "logits": logits, "N": N, "lens": self.gen_lens(rng, N, T), "lm": lm}

    @staticmethod
    def rand_logit(rng, dtype):
        import struct
        x = rng.gauss(0.0, 1.5)
        if rng.random() < 0.05:
            x = -30.0 * rng.random()
        if dtype == "f32":
            x = struct.unpack("f", struct.pack("f", x))[0]
        return x

    def malformed(self):
        base = {"kind": "module", "stream": "exact", "V": 1, "dtype": "f32", "lens": None, "lm": None,
                "logits": [[[0.0, 0.0]]]}
        yield dict(base, width=0, expect_error="ValueError")
        yield dict(base, width=2, lens=[1, 1], expect_error="RuntimeError")
        yield dict(base, width=2, malform="dim2", expect_error="RuntimeError")
        yield dict(base, width=2, malform="lens2d", expect_error="RuntimeError")
        yield dict(base, width=2, lm={"beta": "1/2", "valid": False, "seed": 1, "zeros": False, "vocab": 3},
                   expect_error="RuntimeError")
        yield {"kind": "advance", "stream": "exact", "V": 1, "width": 0, "dtype": "f32", "lens": None, "lm": None,
               "frames": [{"tok": [8], "blank": 8}], "ext_seed": None, "expect_error": "RuntimeError"}
        yield {"kind": "advance", "stream": "exact", "V": 1, "width": 2, "dtype": "f32", "lens": None, "lm": None,
               "frames": [{"tok": [8], "blank": 8}], "ext_seed": None, "malform": "blank_shape",
               "expect_error": "RuntimeError"}

    # ------------------------------------------------------------------ implementation
    @staticmethod
    def adv_ext_row(seed, t, prefix, V, tok):
        """extension probabilities of a prefix in directly driven runs (numerators over 16)."""
        if seed is None:
            return list(tok)
        h = prefix_hash(prefix)
        out = []
        for v in range(V):
            z = (h * 48271 + seed * 131 + t * 7919 + v * 613) % 65537
            out.append([0, 1, 2, 3, 4, 6, 8, 12][z % 8])
        return out

    def run_impl(self, case):
        import torch
        from pydrobert.torch import _decoding, functional
        from pydrobert.torch.modules import CTCPrefixSearch
        self._cache = {}
        dtype = torch.float32 if case["dtype"] == "f32" else torch.float64
        V, width = case["V"], case["width"]
        rec = Recorder(_decoding.ctc_prefix_search_advance)
        lm_spec = case.get("lm")
        lm = None
        if lm_spec is not None:
            lm = make_lm(lm_spec.get("vocab", V), lm_spec["seed"], lm_spec["zeros"], dtype)
        if case["kind"] == "module":
            T = len(case["logits"])
            N = len(case["logits"][0]) if T else case.get("N", 1)
            logits = torch.tensor([[[dec(x) for x in row] for row in fr] for fr in case["logits"]],
                                  dtype=dtype).view(T, N, V + 1)
            lens = None if case["lens"] is None else torch.tensor(case["lens"], dtype=torch.long)
            if case.get("malform") == "dim2":
                logits = logits[:, 0]
            if case.get("malform") == "lens2d":
                lens = torch.zeros((N, 1), dtype=torch.long)
            beta = float(Fraction(lm_spec["beta"])) if lm_spec else 0.2
            search = CTCPrefixSearch(width, beta, lm, bool(lm_spec and lm_spec["valid"]))
            saved = _decoding.ctc_prefix_search_advance
            _decoding.ctc_prefix_search_advance = rec
            try:
                with poisoned_empty(V + 3), torch.no_grad():
                    y, y_lens, probs = search(logits, lens)
            finally:
                _decoding.ctc_prefix_search_advance = saved
            lens_l = [T] * N if case["lens"] is None else list(case["lens"])
            if y.shape[1:] != (N, width) or y_lens.shape != (N, width) or probs.shape != (N, width):
                return {"shape_error": [list(y.shape), list(y_lens.shape), list(probs.shape)]}
            elements = []
            for n in range(N):
                el = self.element_obs(rec.calls, n, lens_l[n], y, y_lens, probs, V, width)
                # the same element searched alone on its own valid frames (other poison value)
                with poisoned_empty(0), torch.no_grad():
                    ya, la, pa = search(logits[: lens_l[n], n: n + 1].contiguous(),
                                        None if case["lens"] is None else torch.tensor([lens_l[n]]))
                el["alone"] = self.result_obs(ya, la, pa, 0)
                elements.append(el)
            obs = {"elements": elements}
            self.attach_lm_tables(case, obs, rec.calls, lens_l, dtype)
        else:
            frames = case["frames"]
            T = len(frames)
            nb = torch.zeros((1, 1), dtype=dtype)
            b = torch.ones((1, 1), dtype=dtype)
            y = torch.empty((0, 1, 1), dtype=torch.long)
            lens = last = torch.zeros((1, 1), dtype=torch.long)
            isp = torch.ones((1, 1, 1), dtype=torch.bool)
            fn = functional.ctc_prefix_search_advance
            rec = Recorder(fn)
            tables = []
            with poisoned_empty(V + 3), torch.no_grad():
                for t, fr in enumerate(frames):
                    Kp = nb.size(1)
                    prefs = [tuple(int(x) for x in y[: int(lens[0, k]), 0, k].tolist()) for k in range(Kp)]
                    ext = torch.tensor([[[x / 16.0 for x in self.adv_ext_row(case["ext_seed"], t, p, V, fr["tok"])]
                                         for p in prefs]], dtype=dtype)
                    tok = torch.tensor([[x / 16.0 for x in fr["tok"]]], dtype=dtype)
                    bl = torch.tensor([fr["blank"] / 16.0], dtype=dtype)
                    if case.get("malform") == "blank_shape":
                        bl = bl.unsqueeze(0)
                    y, last, lens, (nb, b), isp, _src, _non = rec((ext, tok, bl), width, (nb, b), y, last, lens, isp)
                    if case["ext_seed"] is not None:
                        tables.append([[list(p), [frac_str(Fraction(x, 16)) for x in
                                                   self.adv_ext_row(case["ext_seed"], t, p, V, fr["tok"])]]
                                       for L in range(t + 1) for p in itertools.product(range(V), repeat=L)])
            probs = nb + b
            el = self.element_obs(rec.calls, 0, T, y, lens, probs, V, width)
            el["alone"] = None
            if case["ext_seed"] is not None:
                el["ext_table"] = tables
            obs = {"elements": [el]}
        self._cache = {"key": self.key(case), "obs": obs}
        return self.public_obs(obs)

    @staticmethod
    def public_obs(obs):
        return obs

    @staticmethod
    def result_obs(y, y_lens, probs, n):
        K = probs.size(1)
        ln = [int(x) for x in y_lens[n].tolist()]
        return {"prefixes": [[int(t) for t in y[: ln[k], n, k].tolist()] for k in range(K)], "lens": ln,
                "probs": [frac_str(x) for x in probs[n].tolist()], "S": int(y.size(0))}

    def element_obs(self, calls, n, len_n, y, y_lens, probs, V, width):
        steps = []
        for c in calls:
            yi, lasti, lensi, nbi, bi, ispi = c["in"]
            yo, lasto, lenso, nbo, bo, ispo, src, non = c["out"]
            Kp = nbi.size(1)
            K = min(width, Kp * (V + 1))
            src_l = [int(x) for x in src[n].tolist()]
            non_l = [bool(x) for x in non[n].tolist()]
            last_l = [int(x) for x in lasto[n].tolist()]
            sel = [Kp * V + src_l[j] if non_l[j] else src_l[j] * V + last_l[j] for j in range(K)]
            steps.append({
                "in": state_obs(yi, lasti, lensi, nbi, bi, ispi, n),
                "out": state_obs(yo, lasto, lenso, nbo, bo, ispo, n),
                "src": src_l, "is_nonext": non_l, "sel": sel,
                "ext": [[frac_str(x) for x in row] for row in c["ext"][n].tolist()],
                "tok": [frac_str(x) for x in c["tok"][n].tolist()],
                "blank": frac_str(c["blank"][n].item()),
            })
        return {"len": len_n, "steps": steps, "result": self.result_obs(y, y_lens, probs, n)}

    def attach_lm_tables(self, case, obs, calls, lens_l, dtype):
        """With fusion: the extension probability of every prefix as an independent function of the
        prefix (harness LM evaluated on the prefix itself), (a) compared with what the search handed
        to the step function for the slot holding that prefix, (b) given to the specification."""
        import torch
        lm_spec = case.get("lm")
        if lm_spec is None or Fraction(lm_spec["beta"]) == 0:
            return
        V = case["V"]
        beta = float(Fraction(lm_spec["beta"]))
        tol = TOL[case["dtype"]]

        def fused(tok, blank, prefix):
            lg = torch.tensor(lm_logits_of_hash(prefix_hash(prefix), V, lm_spec["seed"], lm_spec["zeros"]), dtype=dtype)
            if lm_spec["valid"]:
                return (1.0 - beta) * tok + beta * lg.softmax(-1) * (1 - blank)
            return (beta * lg.log_softmax(-1)).exp() * tok

        for n, el in enumerate(obs["elements"]):
            tables, dev = [], []
            for t, c in enumerate(calls[: lens_l[n]]):
                tok, blank = c["tok"][n], c["blank"][n]
                tab = {}
                for L in range(t + 1):
                    for p in itertools.product(range(V), repeat=L):
                        tab[p] = [Fraction(float(x)) for x in fused(tok, blank, p).tolist()]
                st = el["steps"][t]["in"]
                for k, p in enumerate(st["prefixes"]):
                    if isinstance(tot_of(st, k), str):
                        continue  # slot holds no prefix
                    got = [F(x) for x in el["steps"][t]["ext"][k]]
                    want = tab.get(tuple(p))
                    if want is None or any(isinstance(g, str) or not close(g, w, tol) for g, w in zip(got, want)):
                        dev.append({"t": t, "slot": k, "prefix": p, "got": [str(g) for g in got],
                                    "want": None if want is None else [str(w) for w in want]})
                    else:
                        tab[tuple(p)] = got  # same numbers for model and specification
                tables.append([[list(p), [frac_str(x) for x in row]] for p, row in tab.items()])
            el["ext_table"] = tables
            el["ext_dev"] = dev

    # ------------------------------------------------------------------ model
    def model_request(self, case):
        if case.get("expect_error"):
            return None
        c = self._cache
        if not c or c.get("key") != self.key(case):
            return None
        obs = c["obs"]
        if "elements" not in obs:
            return None
        els = []
        for el in obs["elements"]:
            frames = [{"ext": s["ext"], "nonext": s["tok"], "blank": s["blank"], "sel": s["sel"]} for s in el["steps"]]
            keeps = []
            for s in el["steps"][: el["len"]]:
                o = s["out"]
                keeps.append([o["prefixes"][k] for k in range(len(o["nb"])) if not isinstance(tot_of(o, k), str)])
            e = {"len": el["len"], "frames": frames, "keeps": keeps}
            if el.get("ext_table") is not None:
                e["ext_table"] = el["ext_table"]
            els.append(e)
        return {"op": "c05.case", "case": {"fix": not PINNED_MODEL, "V": case["V"], "width": case["width"],
                                           "elements": els}}

    # ------------------------------------------------------------------ correspondence
    def cmp_state(self, where, a, m, tol, out):
        for fld in ("prefixes", "last", "lens", "is_prefix"):
            if a[fld] != m[fld]:
                out.append(f"{where}.{fld}: impl={a[fld]} model={m[fld]}")
        for fld in ("nb", "b"):
            if len(a[fld]) != len(m[fld]) or any(not close(F(x), F(y), tol) for x, y in zip(a[fld], m[fld])):
                out.append(f"{where}.{fld}: impl={a[fld]} model={m[fld]}")

    def compare(self, case, impl, model):
        if case.get("expect_error") or model is None:
            return []
        if "error" in impl or "elements" not in impl:
            return [f"implementation gave {impl.get('error', impl)}"]
        tol = 0 if case["stream"] == "exact" else TOL[case["dtype"]]
        out = []
        for n, (a, m) in enumerate(zip(impl["elements"], model["elements"])):
            mm = m["model"]
            for t, (sa, sm) in enumerate(zip(a["steps"], mm["steps"])):
                w = f"n={n} t={t}"
                self.cmp_state(w + " out", sa["out"], sm["out"], tol, out)
                if sa["src"] != sm["src"] or sa["is_nonext"] != sm["is_nonext"]:
                    out.append(f"{w}: src/is_nonext impl={sa['src']},{sa['is_nonext']} model={sm['src']},{sm['is_nonext']}")
                if t + 1 < len(a["steps"]):
                    self.cmp_state(f"n={n} carried after t={t}", a["steps"][t + 1]["in"], sm["carried"], tol, out)
                viol = Fraction(sm["sel_violation"])
                if not sm["sel_ok"] and not sm["cand_nan"] and t < a["len"]:
                    scale = max([abs(F(x)) for x in sa["out"]["nb"] + sa["out"]["b"] if not isinstance(F(x), str)] + [Fraction(1, 10 ** 30)])
                    if tol == 0 or viol > tol * scale:
                        out.append(f"{w}: the implementation's selection {sa['sel']} is not a top-K of the model's "
                                   f"candidate totals (violation {float(viol):.3g})")
                if out:
                    return out[:6]
            ra, rm = a["result"], mm["result"]
            if ra["prefixes"] != rm["prefixes"] or ra["lens"] != rm["lens"] or \
                    any(not close(F(x), F(y), tol) for x, y in zip(ra["probs"], rm["probs"])):
                out.append(f"n={n} result: impl={ra} model={rm}")
        return out[:6]

    # ------------------------------------------------------------------ the property on the implementation
    def predicate(self, case, impl, model):
        exp = case.get("expect_error")
        if exp:
            if impl.get("error") == exp:
                return []
            return [(f"malformed input: expected {exp}, got {impl.get('error', 'a result')}", "C05.malformed")]
        if "error" in impl:
            return [(f"implementation raised {impl['error']}: {impl.get('message')}", "C05.raises")]
        if "shape_error" in impl:
            return [(f"result shapes {impl['shape_error']}", "C05.shape")]
        V, width = case["V"], case["width"]
        tol = 0 if case["stream"] == "exact" else TOL[case["dtype"]]
        fails = []
        zero_probs = any(F(x) == 0 for el in impl["elements"] for s in el["steps"] for x in s["tok"] + [s["blank"]])
        for n, el in enumerate(impl["elements"]):
            res = el["result"]
            probs = [F(x) for x in res["probs"]]
            spec = model["elements"][n]["spec"] if model is not None else None
            # --- never NaN (any call, any slot, and the result)
            nan_at = None
            for t, s in enumerate(el["steps"][: el["len"]]):
                if any(F(x) == "nan" for x in s["out"]["nb"] + s["out"]["b"]):
                    nan_at = t
                    break
            if nan_at is not None or "nan" in probs:
                sig = "C05.nan.zero_prob" if zero_probs else "C05.nan.width_exceeds_live"
                fails.append((f"n={n}: NaN mass (first at frame {nan_at}); result probs {res['probs']}", sig))
                continue
            if any(p == "inf" for p in probs):
                fails.append((f"n={n}: +inf mass {res['probs']}", "C05.inf"))
                continue
            # --- shape: real prefixes distinct, blank-free, not longer than the input; order; filler
            real = [(k, tuple(res["prefixes"][k]), probs[k]) for k in range(width) if not isinstance(probs[k], str) and probs[k] > 0]
            seen = {}
            for k, p, pr in real:
                if p in seen:
                    fails.append((f"n={n}: prefix {list(p)} with positive mass in slots {seen[p]} and {k}", "C05.duplicate"))
                seen.setdefault(p, k)
                if any(not (0 <= v < V) for v in p):
                    fails.append((f"n={n}: slot {k} holds a token outside [0,{V}): {list(p)}", "C05.token_range"))
                if len(p) > el["len"]:
                    fails.append((f"n={n}: slot {k} prefix longer ({len(p)}) than its input ({el['len']})", "C05.too_long"))
            for k in range(width - 1):
                if not leq(probs[k + 1], probs[k], tol):
                    fails.append((f"n={n}: probabilities not non-increasing at slot {k}: {res['probs']}", "C05.order"))
                    break
            for k in range(width):
                if isinstance(probs[k], Fraction) and probs[k] < 0:
                    fails.append((f"n={n}: negative mass in slot {k}", "C05.negative"))
            if len(res["lens"]) != width:
                fails.append((f"n={n}: {len(res['lens'])} slots for width {width}", "C05.shape"))
            # --- batch independence
            al = el.get("alone")
            if al is not None:
                same = al["prefixes"] == res["prefixes"] and al["lens"] == res["lens"] and \
                    all(close(F(x), F(y), tol) for x, y in zip(al["probs"], res["probs"]))
                if not same:
                    # slots without a real prefix may legitimately differ in their (unspecified) tokens
                    ra = [(tuple(al["prefixes"][k]), F(al["probs"][k])) for k in range(width) if F(al["probs"][k]) != "-inf"]
                    rb = [(tuple(res["prefixes"][k]), probs[k]) for k in range(width) if probs[k] != "-inf"]
                    if len(ra) != len(rb) or any(x[0] != y[0] or not close(x[1], y[1], tol) for x, y in zip(ra, rb)):
                        fails.append((f"n={n}: result differs from searching the element's own frames alone: "
                                      f"batched={rb[:6]} alone={ra[:6]}", "C05.batch"))
            if el.get("ext_dev"):
                d = el["ext_dev"][0]
                fails.append((f"n={n}: extension probabilities handed to the step function for slot {d['slot']} "
                              f"(prefix {d['prefix']}) at frame {d['t']} are not the fused LM scores of that prefix: "
                              f"{d['got']} vs {d['want']}", "C05.fusion.ext_mismatch"))
            if spec is None:
                continue
            # --- mass: equals the prefix-beam recursion of that width; exact when unpruned; never more
            mass = {tuple(e["p"]): Fraction(e["m"]) for e in spec["mass"]}
            beam = {tuple(e["p"]): Fraction(e["nb"]) + Fraction(e["b"]) for e in spec["beam"]}
            fin = [(k, tuple(res["prefixes"][k]), probs[k]) for k in range(width) if isinstance(probs[k], Fraction)]
            for k, p, pr in fin:
                if pr > 0 and not leq(pr, mass.get(p, Fraction(0)), tol):
                    fails.append((f"n={n}: slot {k} reports {float(pr):.6g} for {list(p)}, more than its true mass "
                                  f"{float(mass.get(p, 0)):.6g}", "C05.over"))
                if pr > 0 and not close(pr, beam.get(p, Fraction(0)), tol):
                    fails.append((f"n={n}: slot {k} reports {float(pr):.6g} for {list(p)}, the width-{width} "
                                  f"prefix-beam recursion gives {float(beam.get(p, 0)):.6g}", "C05.beam_mass"))
            got = {}
            for k, p, pr in fin:
                got[p] = max(got.get(p, Fraction(0)), pr)
            for p, b in beam.items():
                if b > 0 and not close(got.get(p, Fraction(0)), b, tol):
                    fails.append((f"n={n}: prefix {list(p)} has mass {float(b):.6g} in the prefix-beam recursion but "
                                  f"the search reports {float(got.get(p, 0)):.6g}", "C05.poison.neginf_duplicate"
                                  if p not in got or got[p] == 0 else "C05.beam_mass"))
                    break
            pruned = any(f["pruned"] for f in spec["frames"])
            if not pruned:
                for p, m in mass.items():
                    if m > 0 and not close(got.get(p, Fraction(0)), m, tol):
                        fails.append((f"n={n}: nothing had to be pruned, prefix {list(p)} has true mass {float(m):.6g} "
                                      f"but the search reports {float(got.get(p, 0)):.6g}", "C05.lost_unpruned"))
                        break
            for t, f in enumerate(spec["frames"]):
                if f["nkeep"] < min(width, f["ncands"]):
                    fails.append((f"n={n}: frame {t} keeps {f['nkeep']} of {f['ncands']} candidate prefixes although "
                                  f"the width {width} has room: a real prefix was dropped / wiped", "C05.poison.neginf_duplicate"))
                    break
            if tol == 0:
                for t, f in enumerate(spec["frames"]):
                    if not f["topk_ok"]:
                        fails.append((f"n={n}: the prefixes kept at frame {t} are not the best {width} candidates "
                                      f"of the prefix-beam recursion", "C05.not_topk"))
                        break
        return fails[:8]

    # ------------------------------------------------------------------ evidence helpers
    def nontrivial(self, case, impl):
        if case.get("expect_error") or "elements" not in impl:
            return False
        V, width = case["V"], case["width"]
        for el in impl["elements"]:
            for s in el["steps"][: el["len"]]:
                i = s["in"]
                live = sum(1 for k in range(len(i["nb"])) if not isinstance(tot_of(i, k), str))
                # candidates: every live prefix and its V extensions, minus merges
                if width != live * (V + 1):
                    return True
        return False

    def key(self, case):
        import json
        return json.dumps(case, sort_keys=True)

    def tags(self, case, impl):
        t = [f"kind={case['kind']}", f"stream={case['stream']}", f"V={case['V']}", f"dtype={case['dtype']}"]
        w = case["width"]
        t.append("width=" + ("1" if w == 1 else "2-6" if w <= 6 else "7-20" if w <= 20 else ">20"))
        if case.get("expect_error"):
            t.append("malformed")
            return t
        if case.get("lm"):
            t.append(f"lm beta={case['lm']['beta']} valid={case['lm']['valid']}")
        else:
            t.append("no-lm")
        if "elements" in impl:
            T = max([len(el["steps"]) for el in impl["elements"]] + [0])
            t.append(f"T={T}")
            t.append(f"N={len(impl['elements'])}")
            if any(el["len"] == 0 for el in impl["elements"]):
                t.append("len0")
            if any(el["len"] < len(el["steps"]) for el in impl["elements"]):
                t.append("frozen-frames")
            merged = over = zero = False
            for el in impl["elements"]:
                for s in el["steps"][: el["len"]]:
                    i = s["in"]
                    live = [tuple(i["prefixes"][k]) for k in range(len(i["nb"])) if not isinstance(tot_of(i, k), str)]
                    ls = set(live)
                    if any(p[:-1] in ls for p in live if p):
                        merged = True
                    if w > len(live) * (case["V"] + 1) - sum(1 for p in live if p and p[:-1] in ls):
                        over = True
                    if any(F(x) == 0 for x in s["tok"] + [s["blank"]]):
                        zero = True
            if merged:
                t.append("merge-happened")
            if over:
                t.append("width>live-candidates")
            if zero:
                t.append("zero-probability")
        return t

    def shrink(self, case):
        if case.get("expect_error"):
            return
        if case["kind"] == "module":
            T = len(case["logits"])
            N = len(case["logits"][0]) if T else 1
            if N > 1:
                for n in range(N):
                    c = dict(case)
                    c["logits"] = [[fr[n]] for fr in case["logits"]]
                    c["lens"] = None if case["lens"] is None else [case["lens"][n]]
                    c["N"] = 1
                    yield c
            if T > 0:
                c = dict(case)
                c["logits"] = case["logits"][:-1]
                if case["lens"] is not None:
                    c["lens"] = [min(x, T - 1) for x in case["lens"]]
                yield c
            if case["lens"] is not None:
                c = dict(case)
                c["lens"] = None
                yield c
            if case.get("lm"):
                yield dict(case, lm=None)
        else:
            if len(case["frames"]) > 1:
                yield dict(case, frames=case["frames"][:-1])
            if case["ext_seed"] is not None:
                yield dict(case, ext_seed=None)
        for w in (case["width"] - 1, case["width"] // 2):
            if 1 <= w < case["width"]:
                yield dict(case, width=w)
        if case["dtype"] == "f32" and case["stream"] == "exact":
            yield dict(case, dtype="f64")


CHECK = C05()
